import OxiddModel.Reorder.PropertiesZbddSwapInv

/-!
# From the node store to diagrams: the per-node postcondition of the repaired `level_swap`
# implies the swap of every unfolding

A store maps node ids to `(v, hi, lo)` with edges `∅ | {∅} | ref id` (sharing; no reference counts,
no unique tables here). `Den st e t`: the edge `e` unfolds to the diagram `t` in `st`.

`SwapPost st st' x y` is what the loop body of `level_swap` — with `proposed_fix.diff`, i.e. with
the zero-suppressed grand-cofactors — leaves behind **per node**:

* `keep`: a node whose variable is not `x` keeps its slot content (nodes of `y`, nodes above, nodes
  below, dead or alive);
* `move`: a node `(x, hi, lo)` with no child on `y` keeps its content (it only changes tables);
* `rebuild`: a node `(x, hi, lo)` with a child on `y` keeps its **slot** and becomes `(y, a, b)`
  where `a` is `reduce(x, [hh, lh])` and `b` is `reduce(x, [hl, ll])` in the new store: the `lo`
  argument itself if the `hi` argument is `∅`, else (an edge to) a node `(x, ·, ·)` with exactly
  these children (`IsMk`; found in `old_upper`, in the new lower table, or freshly allocated — the
  postcondition does not care).

`store_swap_den`: under `SwapPost`, **every** edge that unfolds to an ordered diagram `t` in the old
store unfolds to `zbddSwap x y t` in the new store — handles and inner edges alike, whatever the
sharing. With `PropertiesZbddSwap`/`…Inv` this gives, for every such edge: same family
(`store_swap_family`), ordered for the new order, zero-suppressed (`store_swap_ordered_reduced`),
and no two old edges with different diagrams get the same diagram (`store_swap_canonical`).

That the loop establishes `SwapPost` is `PropertiesZbddSwapLoop.zbddSwapStore_post` (store without
reference counts and without separate level tables). Still **not** proved: the same loop over the
level tables *with reference counts and orphan removal* (for the other rule sets that is
`SwapStoreN{Step,Loop,Gen,Final}`; the ZBDD instance needs the reduction `hi = ∅ ⇒ lo` in
`mkChild` and `(∅, child)` in `cofE` there), and that the new lower-level nodes are unique among
themselves and w.r.t. moved nodes as *slots* (semantically: `store_swap_canonical`).
-/
namespace OxiddModel.Reorder.ZbddSwap

inductive Edge where
  | empty
  | base
  | ref (i : Nat)
deriving DecidableEq, Repr

structure SNode where
  v : Nat
  hi : Edge
  lo : Edge
deriving DecidableEq, Repr

/-- the node store (slot content by id) -/
abbrev Store := Nat → Option SNode

/-- `e` unfolds to `t` -/
inductive Den (st : Store) : Edge → Z → Prop where
  | empty : Den st .empty .empty
  | base : Den st .base .base
  | node {i : Nat} {n : SNode} {th tl : Z} : st i = some n → Den st n.hi th → Den st n.lo tl →
      Den st (.ref i) (.node n.v th tl)

/-- `level(e) == lower_no_pre` -/
def atE (st : Store) (y : Nat) : Edge → Bool
  | .ref i => match st i with
    | some n => decide (n.v = y)
    | none => false
  | _ => false

/-- the repaired grand-cofactors of a child edge -/
def cofE (st : Store) (y : Nat) : Edge → Edge × Edge
  | .ref i => match st i with
    | some n => if n.v = y then (n.hi, n.lo) else (.empty, .ref i)
    | none => (.empty, .ref i)
  | e => (.empty, e)

/-- `a` is the result of `reduce(x, [p, q])` followed by the table lookups, in `st'` -/
def IsMk (st' : Store) (x : Nat) (p q a : Edge) : Prop :=
  if p = .empty then a = q else ∃ k, a = .ref k ∧ st' k = some ⟨x, p, q⟩

structure SwapPost (st st' : Store) (x y : Nat) : Prop where
  keep : ∀ i n, st i = some n → n.v ≠ x → st' i = some n
  move : ∀ i hi lo, st i = some ⟨x, hi, lo⟩ → atE st y hi = false → atE st y lo = false →
    st' i = some ⟨x, hi, lo⟩
  rebuild : ∀ i hi lo, st i = some ⟨x, hi, lo⟩ → (atE st y hi || atE st y lo) = true →
    ∃ a b, st' i = some ⟨y, a, b⟩ ∧
      IsMk st' x (cofE st y hi).1 (cofE st y lo).1 a ∧ IsMk st' x (cofE st y hi).2 (cofE st y lo).2 b

theorem den_fun {st : Store} : ∀ {e : Edge} {t u : Z}, Den st e t → Den st e u → t = u := by
  intro e t u h
  induction h generalizing u with
  | empty => intro h2; cases h2; rfl
  | base => intro h2; cases h2; rfl
  | node hs _ _ ih1 ih2 =>
    intro h2
    cases h2 with
    | node hs' d1 d2 =>
      rw [hs] at hs'; cases hs'
      rw [ih1 d1, ih2 d2]

theorem den_isAt {st : Store} {y : Nat} {e : Edge} {t : Z} (h : Den st e t) : atE st y e = isAt y t := by
  cases h with
  | empty => rfl
  | base => rfl
  | node hs _ _ => simp [atE, isAt, hs]

theorem den_empty_iff {st : Store} {e : Edge} {t : Z} (h : Den st e t) : e = .empty ↔ t = .empty := by
  cases h <;> simp

theorem den_cof {st : Store} {y : Nat} {e : Edge} {t : Z} (h : Den st e t) :
    Den st (cofE st y e).1 (cofZ y t).1 ∧ Den st (cofE st y e).2 (cofZ y t).2 := by
  cases h with
  | empty => exact ⟨.empty, .empty⟩
  | base => exact ⟨.empty, .base⟩
  | node hs d1 d2 =>
    rename_i i n th tl
    by_cases hv : n.v = y
    · simp only [cofE, hs, hv, if_true, cofZ]; exact ⟨d1, d2⟩
    · simp only [cofE, hs, hv, if_false, cofZ]; exact ⟨.empty, .node hs d1 d2⟩

/-- slots of other variables are kept: a diagram without `x` unfolds as before -/
theorem den_frame {st st' : Store} {x y : Nat} (hp : SwapPost st st' x y) :
    ∀ {e : Edge} {t : Z}, Den st e t → x ∉ vars t → Den st' e t := by
  intro e t h
  induction h with
  | empty => intro _; exact .empty
  | base => intro _; exact .base
  | node hs _ _ ih1 ih2 =>
    intro hx
    simp only [vars, List.mem_cons, List.mem_append, not_or] at hx
    exact .node (hp.keep _ _ hs (fun e => hx.1 e.symm)) (ih1 hx.2.1) (ih2 hx.2.2)

theorem den_mk {st' : Store} {x : Nat} {p q a : Edge} {tp tq : Z} (hm : IsMk st' x p q a)
    (dp : Den st' p tp) (dq : Den st' q tq) : Den st' a (mk x tp tq) := by
  unfold IsMk at hm
  unfold mk
  by_cases hpe : p = .empty
  · rw [if_pos hpe] at hm
    rw [if_pos ((den_empty_iff dp).1 hpe), hm]; exact dq
  · rw [if_neg hpe] at hm
    obtain ⟨k, rfl, hk⟩ := hm
    rw [if_neg (fun e => hpe ((den_empty_iff dp).2 e))]
    exact Den.node (n := ⟨x, p, q⟩) hk dp dq

theorem not_vars_cofZ {x y : Nat} {c : Z} (h : x ∉ vars c) :
    x ∉ vars (cofZ y c).1 ∧ x ∉ vars (cofZ y c).2 :=
  ⟨fun h' => h (vars_cofZ_sub c x (Or.inl h')), fun h' => h (vars_cofZ_sub c x (Or.inr h'))⟩

/-- **store level ⇒ diagram level**: if the new store satisfies the per-node postcondition of the
repaired `level_swap`, every edge unfolds to the repaired swap of its old unfolding. -/
theorem store_swap_den {pos : Nat → Nat} {x y : Nat} (ha : Adj pos x y) {st st' : Store}
    (hp : SwapPost st st' x y) :
    ∀ {e : Edge} {t : Z}, Den st e t → ∀ n, ord pos n t = true → Den st' e (zbddSwap x y t) := by
  intro e t h
  induction h with
  | empty => intro _ _; exact .empty
  | base => intro _ _; exact .base
  | node hs d1 d2 ih1 ih2 =>
    rename_i i nd th tl
    intro n ho
    simp only [ord, Bool.and_eq_true, decide_eq_true_eq] at ho
    have hadj := ha.adj
    obtain ⟨v, hi, lo⟩ := nd
    simp only at ho d1 d2 ih1 ih2 ⊢
    by_cases hvx : v = x
    · subst hvx
      have hxh : v ∉ vars th := not_vars_of_ord ho.1.2 (by omega)
      have hxl : v ∉ vars tl := not_vars_of_ord ho.2 (by omega)
      have e0 : zbddSwap v y (.node v th tl) = rebuild (cofZ y) v y th tl := by
        simp [zbddSwap, swapWith]
      rw [e0]
      unfold rebuild
      rw [← den_isAt (y := y) d1, ← den_isAt (y := y) d2]
      cases h1 : atE st y hi <;> cases h2 : atE st y lo
      · -- moved
        simp only [Bool.not_false, Bool.and_self, if_true]
        exact Den.node (n := ⟨v, hi, lo⟩) (hp.move i hi lo hs h1 h2) (den_frame hp d1 hxh) (den_frame hp d2 hxl)
      all_goals
        simp only [Bool.not_false, Bool.not_true, Bool.and_false, Bool.false_and, Bool.and_self,
          Bool.false_eq_true, if_false]
        obtain ⟨a, b, hs', ma, mb⟩ := hp.rebuild i hi lo hs (by simp [h1, h2])
        obtain ⟨c1, c2⟩ := den_cof (y := y) d1
        obtain ⟨c3, c4⟩ := den_cof (y := y) d2
        obtain ⟨x1, x2⟩ := not_vars_cofZ (y := y) hxh
        obtain ⟨x3, x4⟩ := not_vars_cofZ (y := y) hxl
        exact Den.node (n := ⟨y, a, b⟩) hs'
          (den_mk ma (den_frame hp c1 x1) (den_frame hp c3 x3))
          (den_mk mb (den_frame hp c2 x2) (den_frame hp c4 x4))
    · have hk := hp.keep i ⟨v, hi, lo⟩ hs hvx
      by_cases hvy : v = y
      · subst hvy
        have e0 : zbddSwap x v (.node v th tl) = .node v th tl := by
          simp [zbddSwap, swapWith, hvx]
        rw [e0]
        exact Den.node (n := ⟨v, hi, lo⟩) hk
          (den_frame hp d1 (not_vars_of_ord ho.1.2 (by omega)))
          (den_frame hp d2 (not_vars_of_ord ho.2 (by omega)))
      · have e0 : zbddSwap x y (.node v th tl) = .node v (zbddSwap x y th) (zbddSwap x y tl) := by
          simp [zbddSwap, swapWith, hvx, hvy]
        rw [e0]
        exact Den.node (n := ⟨v, hi, lo⟩) hk (ih1 _ ho.1.2) (ih2 _ ho.2)

/-- **C08/C09 at store level, given the postcondition**: every edge keeps its family. -/
theorem store_swap_family {pos : Nat → Nat} {x y : Nat} (ha : Adj pos x y) {st st' : Store}
    (hp : SwapPost st st' x y) {e : Edge} {t : Z} (h : Den st e t) (n : Nat) (ho : ord pos n t = true) :
    ∃ t', Den st' e t' ∧ ∀ s, mem t' s = mem t s :=
  ⟨_, store_swap_den ha hp h n ho, zbddSwap_preserves_family ha t n ho⟩

/-- … and its new unfolding is ordered w.r.t. the swapped order and zero-suppressed. -/
theorem store_swap_ordered_reduced {pos : Nat → Nat} {x y : Nat} (ha : Adj pos x y) {st st' : Store}
    (hp : SwapPost st st' x y) {e : Edge} {t : Z} (h : Den st e t) (n : Nat) (hn : n ≤ pos x)
    (ho : ord pos n t = true) (hr : red t = true) :
    ∃ t', Den st' e t' ∧ ord (swapPos pos x y) n t' = true ∧ red t' = true :=
  ⟨_, store_swap_den ha hp h n ho, zbddSwap_ordered ha t n hn ho, zbddSwap_reduced x y t hr⟩

/-- **no semantic duplicates**: two old edges with the same unfolding after the swap had the same
unfolding before; in a canonical old store (same diagram ⇒ same edge) they are the same edge. -/
theorem store_swap_canonical {pos : Nat → Nat} {x y : Nat} (ha : Adj pos x y) {st st' : Store}
    (hp : SwapPost st st' x y) {e e' : Edge} {t t' u : Z} (h : Den st e t) (h' : Den st e' t')
    (n m : Nat) (ho : ord pos n t = true) (ho' : ord pos m t' = true)
    (hr : red t = true) (hr' : red t' = true)
    (hu : Den st' e u) (hu' : Den st' e' u) : t = t' := by
  have e1 := den_fun hu (store_swap_den ha hp h n ho)
  have e2 := den_fun hu' (store_swap_den ha hp h' m ho')
  exact zbddSwap_injective ha t t' n m ho ho' hr hr' (e1.symm.trans e2)

/-! ## non-vacuity: the store of the two-node witness `{{0},{1}}` and its repaired swap -/

/-- slot 0: `(1, B, E)`; slot 1: `(0, B, ref 0)` (the root); -/
def exStore : Store := fun i =>
  if i = 0 then some ⟨1, .base, .empty⟩ else if i = 1 then some ⟨0, .base, .ref 0⟩ else none

/-- after the swap: slot 1 is rebuilt in place to `(1, B, ref 2)` with the new node
slot 2 = `(0, B, E)` (`mk 0 ∅ B = B` for the `hi` part: reduced), slot 0 is kept (now dead) -/
def exStore' : Store := fun i =>
  if i = 0 then some ⟨1, .base, .empty⟩ else if i = 1 then some ⟨1, .base, .ref 2⟩
  else if i = 2 then some ⟨0, .base, .empty⟩ else none

example : Den exStore (.ref 1) kfTree :=
  Den.node (n := ⟨0, .base, .ref 0⟩) rfl .base (Den.node (n := ⟨1, .base, .empty⟩) rfl .base .empty)

example : SwapPost exStore exStore' 0 1 := by
  refine ⟨?_, ?_, ?_⟩
  · intro i n h hv
    by_cases h0 : i = 0
    · subst h0; simpa [exStore, exStore'] using h
    · by_cases h1 : i = 1
      · subst h1; simp [exStore] at h; subst h; simp at hv
      · simp [exStore, h0, h1] at h
  · intro i hi lo h a1 a2
    by_cases h0 : i = 0
    · subst h0; simp [exStore] at h
    · by_cases h1 : i = 1
      · subst h1; simp [exStore] at h; obtain ⟨rfl, rfl⟩ := h; simp [atE, exStore] at a2
      · simp [exStore, h0, h1] at h
  · intro i hi lo h _
    by_cases h0 : i = 0
    · subst h0; simp [exStore] at h
    · by_cases h1 : i = 1
      · subst h1; simp [exStore] at h; obtain ⟨rfl, rfl⟩ := h
        refine ⟨.base, .ref 2, rfl, ?_, ?_⟩
        · simp [IsMk, cofE, exStore]
        · simp [IsMk, cofE, exStore, exStore']
      · simp [exStore, h0, h1] at h

end OxiddModel.Reorder.ZbddSwap
