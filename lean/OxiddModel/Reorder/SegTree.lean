import OxiddModel.Reorder.Model

/-!
# Model of `MinSegTree` (oxidd-reorder, `set_var_order/segtree.rs`) and refinement proofs

The Rust `MinSegTree(Vec<MinSegTreeEntry>)` is modelled by `Tree`: the vector is the function
`f : Nat → Entry` restricted to the indices `0 .. 2*size` (`Tree.toList` materialises it; a write
`t[k] = e` is `setE f k e`), `size = t.len() / 2`.  `n` is a ghost field: the length of the data
the tree was built from (the Rust struct does not store it; leaves `size + n ..` are padding).

The sentinel is the concrete constant `MAXV = i32::MAX`; arithmetic is on `Int` (no wrap-around;
overflow freedom is the obligation expressed by the bound `B` in `InvB`).

`i & (size - 1)` is modelled as `i % size` and `i >> k` as `i / 2 ^ k`;
`size.trailing_zeros()` (of a power of two) as `Nat.log2 size`.

Main results (all for the flat invariant `InvB B t`; `Inv t = InvB MAXV t`):
`new_invB`/`new_inv`, `proj_new`, `addSplit_invB`/`addSplit_inv`, `proj_addSplit`,
`minIndex_refines`, `fillIndicatorsT_eq`/`fillIndicatorsT_sortOrder`.

Proof route: the two loops of `add_split` are shown to compute the flat recursion `walk`
(`addSplit_eq_walk`); `view` reads the implicit tree off the vector as an inductive tree `T`, and
`walk` is the divide-and-conquer specification `splitT` on it (`view_walk`, using the frame
lemmas about `sub`); everything semantic (`T.val`, `GoodT`, `minIdxT`) is proved on `T`;
`good_of_flat`/`flat_of_good` translate between `InvB` and `GoodT`.
-/
namespace OxiddModel.Reorder.SegTree

/-- `i32::MAX` -/
def MAXV : Int := 2147483647

structure Entry where
  delta : Int
  min : Int
deriving DecidableEq, Repr

/-- `MinSegTreeEntry::update` -/
def Entry.update (e : Entry) (d : Int) : Entry :=
  if e.min ≠ MAXV then ⟨e.delta + d, e.min + d⟩ else e

structure Tree where
  /-- `self.0.len() / 2` -/
  size : Nat
  /-- ghost: number of real (non-padding) leaves -/
  n : Nat
  /-- the vector, index `k < 2 * size` -/
  f : Nat → Entry

/-- `t[k] = e` -/
def setE (f : Nat → Entry) (k : Nat) (e : Entry) : Nat → Entry :=
  fun q => if q = k then e else f q

/-- `t[k].update(d)` -/
def upd (f : Nat → Entry) (k : Nat) (d : Int) : Nat → Entry :=
  setE f k ((f k).update d)

/-- `t[k].min = t[k].delta + min(t[2k].min, t[2k+1].min)` -/
def recompute (f : Nat → Entry) (k : Nat) : Nat → Entry :=
  setE f k ⟨(f k).delta, (f k).delta + Min.min (f (2 * k)).min (f (2 * k + 1)).min⟩

/-- the vector as a list (for comparison with the tables in the Rust unit tests) -/
def Tree.toList (t : Tree) : List Entry := (List.range (2 * t.size)).map t.f

/-! ## `new` -/

/-- `usize::next_power_of_two` (`fuel` ≥ number of doublings needed; `n` suffices) -/
def nextPow2Aux (n : Nat) : Nat → Nat → Nat
  | 0, p => p
  | fuel + 1, p => if n ≤ p then p else nextPow2Aux n fuel (2 * p)

def nextPow2 (n : Nat) : Nat := nextPow2Aux n n 1

/-- the vector after the three `resize`/`extend` calls -/
def fill (size : Nat) (data : List Int) : Nat → Entry :=
  fun k => if k < size then ⟨0, 0⟩
    else if k - size < data.length then ⟨data.getD (k - size) 0, data.getD (k - size) 0⟩
    else ⟨MAXV, MAXV⟩

/-- `for i in (1..size).rev() { recompute i }`; `buildLoop m` handles `i = m, m-1, …, 1` -/
def buildLoop : Nat → (Nat → Entry) → (Nat → Entry)
  | 0, f => f
  | m + 1, f => buildLoop m (recompute f (m + 1))

/-- `MinSegTree::new` -/
def new (data : List Int) : Tree :=
  let size := nextPow2 data.length
  { size := size, n := data.length, f := buildLoop (size - 1) (fill size data) }

/-! ## `add_split` -/

/-- the first `loop` of `add_split`; arguments are the loop variables `size`, `node`,
`levels_from_bot` and the vector; returns the final `node` and the vector.
(`levels_from_bot -= 1` at `0` would be an underflow in Rust; unreachable.) -/
def descend (i : Nat) (l r : Int) : Nat → Nat → Nat → (Nat → Entry) → Nat × (Nat → Entry)
  | size, node, lev, f =>
    let size := size / 2
    if i % size = 0 then (node, f)
    else match lev with
      | 0 => (node, f)
      | lev + 1 =>
        if (i / 2 ^ lev) % 2 = 0 then
          descend i l r size (2 * node) lev (upd f (2 * node + 1) r)
        else
          descend i l r size (2 * node + 1) lev (upd f (2 * node) l)

/-- the second `loop` of `add_split` (fuel: number of iterations, at most `size`) -/
def ascend : Nat → Nat → (Nat → Entry) → (Nat → Entry)
  | 0, _, f => f
  | fuel + 1, node, f =>
    let f := recompute f node
    if node = 1 then f else ascend fuel (node / 2) f

/-- `MinSegTree::add_split` (requires `i ≤ size`, Rust asserts it) -/
def addSplit (t : Tree) (i : Nat) (l r : Int) : Tree :=
  if i = 0 then { t with f := upd t.f 1 r }
  else if i = t.size then { t with f := upd t.f 1 l }
  else
    let (node, f) := descend i l r t.size 1 (Nat.log2 t.size) t.f
    let f := upd f (2 * node) l
    let f := upd f (2 * node + 1) r
    { t with f := ascend t.size node f }

/-! ## `min_index`, `proj` -/

/-- the `while i < size` loop of `min_index` (fuel: number of iterations, at most `size`) -/
def minLoop (f : Nat → Entry) (size : Nat) : Nat → Nat → Nat
  | 0, i => i
  | fuel + 1, i =>
    if i < size then
      minLoop f size fuel (if (f (2 * i)).min ≤ (f (2 * i + 1)).min then 2 * i else 2 * i + 1)
    else i

/-- `MinSegTree::min_index` -/
def minIndex (t : Tree) : Nat := minLoop t.f t.size t.size 1 - t.size

/-- `proj::rec`, returning the written slice `out[..]` of the subtree of `i` left to right -/
def projRec (f : Nat → Entry) (size : Nat) : Nat → Nat → Int → List Int
  | 0, _, _ => []
  | fuel + 1, i, sum =>
    let sum := sum + (f i).delta
    if i ≥ size then [sum]
    else projRec f size fuel (2 * i) sum ++ projRec f size fuel (2 * i + 1) sum

/-- `MinSegTree::proj` (all `size` values, including padding) -/
def proj (t : Tree) : List Int := projRec t.f t.size (t.size + 1) 1 0

/-- the meaningful part of `proj` -/
def projN (t : Tree) : List Int := (proj t).take t.n

/-! ## Replaying the Rust unit tests -/

section Tests
private def tbl (l : List (Int × Int)) : List Entry := ⟨0, 0⟩ :: l.map fun p => ⟨p.1, p.2⟩
private def M := MAXV

-- test_new
example : (new [2]).toList = tbl [(2, 2)] := by decide
example : (new [-2, 5, 3, -2, -3, 4]).toList = tbl
    [(0, -3),
     (0, -2), (0, -3),
     (0, -2), (0, -2), (0, -3), (0, M),
     (-2, -2), (5, 5), (3, 3), (-2, -2), (-3, -3), (4, 4), (M, M), (M, M)] := by decide
-- test_min_idx
example : minIndex (new ((List.range 84).map fun (k : Nat) => (k : Int) - 42)) = 0 := by decide +kernel
example : minIndex (new [2, -3, 1]) = 1 := by decide
example : minIndex (new [2, -3, -11]) = 2 := by decide
example : minIndex (new [4, 3, 2, 0]) = 3 := by decide
example : minIndex (new [4, 0, 2, 0]) = 1 := by decide
-- test_add_split
private def st0 := new [4, 0, 2, 1]
private def st1 := addSplit st0 0 (-2) 2
private def st2 := addSplit st1 4 (-1) 2
private def st3 := addSplit st2 2 1 (-2)
private def st4 := addSplit st3 1 (-4) 1
example : proj st1 = [6, 2, 4, 3] := by decide
example : st1.toList = tbl [(2, 2), (0, 0), (0, 1), (4, 4), (0, 0), (2, 2), (1, 1)] := by decide
example : proj st2 = [5, 1, 3, 2] := by decide
example : st2.toList = tbl [(1, 1), (0, 0), (0, 1), (4, 4), (0, 0), (2, 2), (1, 1)] := by decide
example : proj st3 = [6, 2, 1, 0] := by decide
example : st3.toList = tbl [(1, 0), (1, 1), (-2, -1), (4, 4), (0, 0), (2, 2), (1, 1)] := by decide
example : proj st4 = [2, 3, 2, 1] := by decide
example : st4.toList = tbl [(1, 1), (1, 1), (-1, 0), (0, 0), (1, 1), (2, 2), (1, 1)] := by decide
example : minIndex st4 = 3 := by decide
-- test_add_split_unused
private def su := addSplit (new [0, 1, 2, 3, 4]) 5 1 (-1)
example : su.toList = tbl
    [(0, 1),
     (1, 1), (0, 5),
     (0, 0), (0, 2), (0, 5), (0, M),
     (0, 0), (1, 1), (2, 2), (3, 3), (5, 5), (M, M), (M, M), (M, M)] := by decide
example : minIndex su = 0 := by decide
example : projN su = [1, 2, 3, 4, 5] := by decide
end Tests

/-! ## The implicit tree as an inductive tree; divide-and-conquer specification -/

inductive T where
  | leaf (e : Entry)
  | node (e : Entry) (a b : T)

def T.e : T → Entry
  | .leaf e => e
  | .node e _ _ => e

/-- the subtree of node `k` with `L` levels below it, read off the vector -/
def view (f : Nat → Entry) : Nat → Nat → T
  | 0, k => .leaf (f k)
  | L + 1, k => .node (f k) (view f L (2 * k)) (view f L (2 * k + 1))

def T.upd : T → Int → T
  | .leaf e, d => .leaf (e.update d)
  | .node e a b, d => .node (e.update d) a b

def T.fix : T → T
  | .leaf e => .leaf e
  | .node e a b => .node ⟨e.delta, e.delta + Min.min a.e.min b.e.min⟩ a b

/-- recursive specification of `add_split` on a subtree of height `L`; `j` is the split position
relative to the left border of the subtree -/
def splitT (l r : Int) : Nat → T → Nat → T
  | L, t, j =>
    if j = 0 then t.upd r
    else if 2 ^ L ≤ j then t.upd l
    else match L, t with
      | L + 1, .node e a b =>
        T.fix (.node e (splitT l r L a (Min.min j (2 ^ L))) (splitT l r L b (j - 2 ^ L)))
      | _, t => t

/-- value of leaf `p` of a subtree of height `L`: sum of the deltas on the path -/
def T.val : Nat → T → Nat → Int
  | L + 1, .node e a b, p => e.delta + (if p < 2 ^ L then T.val L a p else T.val L b (p - 2 ^ L))
  | _, t, _ => t.e.delta

/-- position of the left-most minimal leaf, following `min_index` -/
def minIdxT : Nat → T → Nat
  | L + 1, .node _ a b => if a.e.min ≤ b.e.min then minIdxT L a else 2 ^ L + minIdxT L b
  | _, _ => 0

/-- invariant of a subtree of height `L` whose first `c` leaves are real; real nodes have
`min < B`, padding nodes carry the sentinel -/
def GoodT (B : Int) : Nat → T → Nat → Prop
  | 0, .leaf e, c => if c = 0 then e = ⟨MAXV, MAXV⟩ else e.min = e.delta ∧ e.min < B
  | L + 1, .node e a b, c =>
    GoodT B L a c ∧ GoodT B L b (c - 2 ^ L) ∧ e.min = e.delta + Min.min a.e.min b.e.min ∧
      (c = 0 → e.delta = 0) ∧ (0 < c → e.min < B)
  | _, _, _ => False

theorem two_pow_pos' (L : Nat) : 0 < 2 ^ L := Nat.two_pow_pos L

theorem GoodT.pad {B L t} (h : GoodT B L t 0) : t.e.min = MAXV := by
  induction L generalizing t with
  | zero => cases t <;> simp [GoodT] at h; simp [h, T.e]
  | succ L ih =>
    cases t with
    | leaf e => simp [GoodT] at h
    | node e a b =>
      unfold GoodT at h
      rw [Nat.zero_sub] at h
      obtain ⟨ha, hb, hm, hd, _⟩ := h
      have h1 := ih ha; have h2 := ih hb
      simp only [T.e]
      rw [hm, hd rfl, h1, h2]; simp

theorem GoodT.real {B L t c} (h : GoodT B L t c) (hc : 0 < c) : t.e.min < B := by
  cases L <;> cases t <;> simp [GoodT] at h
  · have : c ≠ 0 := by omega
    simp [this] at h; exact h.2
  · exact h.2.2.2.2 hc

theorem goodT_leaf {B e c} : GoodT B 0 (.leaf e) c ↔
    (if c = 0 then e = ⟨MAXV, MAXV⟩ else e.min = e.delta ∧ e.min < B) := by rw [GoodT]

theorem goodT_node {B L e a b c} : GoodT B (L + 1) (.node e a b) c ↔
    (GoodT B L a c ∧ GoodT B L b (c - 2 ^ L) ∧ e.min = e.delta + Min.min a.e.min b.e.min ∧
      (c = 0 → e.delta = 0) ∧ (0 < c → e.min < B)) := by rw [GoodT]

theorem GoodT.shape {B L t c} (h : GoodT B L t c) :
    (L = 0 ∧ ∃ e, t = .leaf e) ∨ (∃ L' e a b, L = L' + 1 ∧ t = .node e a b) := by
  cases L <;> cases t <;> simp [GoodT] at h ⊢

theorem splitT_node {l r L e a b j} : splitT l r (L + 1) (.node e a b) j =
    if j = 0 then (T.node e a b).upd r else if 2 ^ (L + 1) ≤ j then (T.node e a b).upd l
    else T.fix (.node e (splitT l r L a (Min.min j (2 ^ L))) (splitT l r L b (j - 2 ^ L))) := by
  rw [splitT]

theorem splitT_leaf {l r e j} : splitT l r 0 (.leaf e) j =
    if j = 0 then (T.leaf e).upd r else (T.leaf e).upd l := by
  unfold splitT
  by_cases h : j = 0
  · simp [h]
  · have : 2 ^ 0 ≤ j := by simp; omega
    simp [h, this]

theorem upd_e (t : T) (d : Int) : (t.upd d).e = t.e.update d := by cases t <;> rfl

theorem update_real {e : Entry} (h : e.min ≠ MAXV) (d : Int) :
    e.update d = ⟨e.delta + d, e.min + d⟩ := by simp [Entry.update, h]

theorem update_pad {e : Entry} (h : e.min = MAXV) (d : Int) : e.update d = e := by
  simp [Entry.update, h]

theorem upd_pad {t : T} (h : t.e.min = MAXV) (d : Int) : t.upd d = t := by
  cases t <;> simp [T.upd, T.e] at * <;> exact update_pad h d

theorem val_upd {L t} (h : t.e.min ≠ MAXV) (d : Int) (p : Nat) :
    T.val L (t.upd d) p = T.val L t p + d := by
  cases L <;> cases t <;> simp [T.upd, T.val, T.e] at * <;> rw [update_real h] <;> simp <;> omega

theorem val_fix {L t} (p : Nat) : T.val L t.fix p = T.val L t p := by
  cases L <;> cases t <;> simp [T.fix, T.val, T.e]

theorem GoodT.mono {B B' L t c} (h : GoodT B L t c) (hB : B ≤ B') : GoodT B' L t c := by
  induction L generalizing t c with
  | zero =>
    obtain ⟨_, e, rfl⟩ | ⟨_, _, _, _, h0, _⟩ := h.shape
    · rw [goodT_leaf] at *
      split <;> simp_all <;> omega
    · omega
  | succ L ih =>
    obtain ⟨h0, _⟩ | ⟨L', e, a, b, hL, rfl⟩ := h.shape
    · omega
    · rw [goodT_node] at *
      obtain ⟨ha, hb, hm, hd, hr⟩ := h
      exact ⟨ih ha, ih hb, hm, hd, fun hc => by have := hr hc; omega⟩

theorem val_node {L e a b p} : T.val (L + 1) (.node e a b) p =
    e.delta + (if p < 2 ^ L then T.val L a p else T.val L b (p - 2 ^ L)) := by rw [T.val]

theorem split_val {B l r L t c j p} (h : GoodT B L t c) (hB : B ≤ MAXV) (hp : p < c)
    (hpL : p < 2 ^ L) :
    T.val L (splitT l r L t j) p = T.val L t p + (if p < j then l else r) := by
  induction L generalizing t c j p with
  | zero =>
    have hr := h.real (by omega)
    obtain ⟨_, e, rfl⟩ | ⟨_, _, _, _, h0, _⟩ := h.shape
    · rw [splitT_leaf]
      simp at hpL
      split
      · rw [val_upd (by omega)]; simp [*]
      · rw [val_upd (by omega)]
        have : p < j := by omega
        simp [*]
    · omega
  | succ L ih =>
    have hr := h.real (by omega)
    obtain ⟨h0, _⟩ | ⟨L', e, a, b, hL, rfl⟩ := h.shape
    · omega
    · cases hL
      rw [splitT_node]
      have hP := two_pow_pos' L
      rw [Nat.pow_succ] at hpL
      split
      · rw [val_upd (by omega)]; simp [*]
      · split
        · rw [val_upd (by omega)]
          rw [Nat.pow_succ] at *
          have : p < j := by omega
          simp [*]
        · rw [val_fix, val_node, val_node]
          rw [goodT_node] at h
          obtain ⟨ha, hb, -⟩ := h
          rw [Nat.pow_succ] at *
          split
          · rw [ih ha hp (by omega)]
            have : (p < min j (2 ^ L)) ↔ p < j := by omega
            simp only [this]; omega
          · rw [ih hb (by omega) (by omega)]
            have : (p - 2 ^ L < j - 2 ^ L) ↔ p < j := by omega
            simp only [this]; omega

theorem e_node (e a b) : (T.node e a b).e = e := rfl
theorem e_leaf (e) : (T.leaf e).e = e := rfl

theorem fix_e_node (e a b) : (T.fix (.node e a b)).e = ⟨e.delta, e.delta + Min.min a.e.min b.e.min⟩ := rfl

theorem GoodT.upd {B s L t c d} (h : GoodT B L t c) (hB : B + s ≤ MAXV) (hs : 0 ≤ s) (hd : d ≤ s) :
    GoodT (B + s) L (t.upd d) c ∧ (0 < c → (t.upd d).e.min ≤ t.e.min + s) := by
  by_cases hc : c = 0
  · subst hc
    rw [upd_pad h.pad]
    exact ⟨h.mono (by omega), by omega⟩
  · have hr := h.real (by omega)
    obtain ⟨_, e, rfl⟩ | ⟨L', e, a, b, hL, rfl⟩ := h.shape
    · subst L
      simp only [T.upd, T.e] at *
      rw [goodT_leaf] at *
      rw [update_real (by omega)]
      simp [hc] at h ⊢
      omega
    · subst hL
      simp only [T.upd, T.e] at *
      rw [goodT_node] at *
      rw [update_real (by omega)]
      obtain ⟨ha, hb, hm, hd', hr'⟩ := h
      refine ⟨⟨ha.mono (by omega), hb.mono (by omega), ?_, ?_, ?_⟩, ?_⟩ <;> simp <;> omega

theorem split_good {B s l r L t c j} (h : GoodT B L t c) (hB : B + s ≤ MAXV) (hs : 0 ≤ s)
    (hl : l ≤ s) (hr : r ≤ s) :
    GoodT (B + s) L (splitT l r L t j) c ∧ (0 < c → (splitT l r L t j).e.min ≤ t.e.min + s) := by
  induction L generalizing t c j with
  | zero =>
    obtain ⟨_, e, rfl⟩ | ⟨_, _, _, _, h0, _⟩ := h.shape
    · rw [splitT_leaf]
      split
      · exact h.upd hB hs hr
      · exact h.upd hB hs hl
    · omega
  | succ L ih =>
    obtain ⟨h0, _⟩ | ⟨L', e, a, b, hL, rfl⟩ := h.shape
    · omega
    · cases hL
      rw [splitT_node]
      split
      · exact h.upd hB hs hr
      · split
        · exact h.upd hB hs hl
        · rw [goodT_node] at h
          obtain ⟨ha, hb, hm, hd, hr'⟩ := h
          obtain ⟨ga, ma⟩ := ih (j := min j (2 ^ L)) ha
          obtain ⟨gb, mb⟩ := ih (j := j - 2 ^ L) hb
          simp only [T.fix, e_node] at *
          rw [goodT_node]
          have key : 0 < c → min (splitT l r L a (min j (2 ^ L))).e.min
              (splitT l r L b (j - 2 ^ L)).e.min ≤ min a.e.min b.e.min + s := by
            intro hc
            have h1 := ma hc
            have h2 := ha.real hc
            by_cases hc' : c - 2 ^ L = 0
            · rw [hc'] at gb hb
              have := gb.pad; have := hb.pad
              omega
            · have := mb (by omega)
              omega
          refine ⟨⟨ga, gb, rfl, hd, ?_⟩, ?_⟩
          · intro hc
            have := key hc; have := hr' hc
            show e.delta + _ < _
            omega
          · intro hc
            have := key hc
            omega

theorem minIdxT_node {L e a b} : minIdxT (L + 1) (.node e a b) =
    if a.e.min ≤ b.e.min then minIdxT L a else 2 ^ L + minIdxT L b := by rw [minIdxT]

theorem minIdx_spec {B L t c} (h : GoodT B L t c) (hB : B ≤ MAXV) (hc : 0 < c) :
    minIdxT L t < c ∧ minIdxT L t < 2 ^ L ∧ t.e.min = T.val L t (minIdxT L t) ∧
    (∀ p, p < c → p < 2 ^ L → t.e.min ≤ T.val L t p) ∧
    (∀ p, p < minIdxT L t → t.e.min < T.val L t p) := by
  induction L generalizing t c with
  | zero =>
    obtain ⟨_, e, rfl⟩ | ⟨_, _, _, _, h0, _⟩ := h.shape
    · rw [goodT_leaf] at h
      have : c ≠ 0 := by omega
      simp [this] at h
      simp [minIdxT, T.val, e_leaf, hc, h.1]
    · omega
  | succ L ih =>
    obtain ⟨h0, _⟩ | ⟨L', e, a, b, hL, rfl⟩ := h.shape
    · omega
    · cases hL
      rw [goodT_node] at h
      obtain ⟨ha, hb, hm, hd, hr⟩ := h
      have hP := two_pow_pos' L
      obtain ⟨a1, a2, a3, a4, a5⟩ := ih ha hc
      have har := ha.real hc
      rw [minIdxT_node, Nat.pow_succ, e_node]
      split
      · rename_i hle
        refine ⟨a1, by omega, ?_, ?_, ?_⟩
        · rw [val_node]; simp only [a2, if_true]; omega
        · intro p hp hp2
          rw [val_node]
          split
          · have := a4 p hp (by omega); omega
          · obtain ⟨b1, b2, b3, b4, b5⟩ := ih hb (by omega)
            have := b4 (p - 2 ^ L) (by omega) (by omega); omega
        · intro p hp
          rw [val_node]
          have : p < 2 ^ L := by omega
          simp only [this, if_true]
          have := a5 p hp; omega
      · rename_i hle
        have hcb : 0 < c - 2 ^ L := by
          apply Nat.pos_of_ne_zero
          intro h0
          rw [h0] at hb
          have := hb.pad
          omega
        obtain ⟨b1, b2, b3, b4, b5⟩ := ih hb hcb
        refine ⟨by omega, by omega, ?_, ?_, ?_⟩
        · rw [val_node]
          have : ¬ (2 ^ L + minIdxT L b < 2 ^ L) := by omega
          simp only [this, if_false, Nat.add_sub_cancel_left]; omega
        · intro p hp hp2
          rw [val_node]
          split
          · have := a4 p hp (by omega); omega
          · have := b4 (p - 2 ^ L) (by omega) (by omega); omega
        · intro p hp
          rw [val_node]
          split
          · have := a4 p (by omega) (by omega); omega
          · have := b5 (p - 2 ^ L) (by omega); omega

/-! ## Frame reasoning on the flat vector -/

/-- `q` is a node of the subtree of `k` of height `L` -/
def sub : Nat → Nat → Nat → Prop
  | 0, k, q => q = k
  | L + 1, k, q => q = k ∨ sub L (2 * k) q ∨ sub L (2 * k + 1) q

theorem sub_self (L k : Nat) : sub L k k := by cases L <;> simp [sub]

theorem sub_ge {L k q} (h : sub L k q) : k ≤ q := by
  induction L generalizing k with
  | zero => simp [sub] at h; omega
  | succ L ih =>
    simp only [sub] at h
    rcases h with h | h | h
    · omega
    · have := ih h; omega
    · have := ih h; omega

theorem sub_disj {L a b q} (h1 : a < b) (h2 : b < 2 * a) (ha : sub L a q) : ¬ sub L b q := by
  induction L generalizing a b with
  | zero => simp [sub] at *; omega
  | succ L ih =>
    simp only [sub] at ha ⊢
    intro hb
    rcases ha with ha | ha | ha <;> rcases hb with hb | hb | hb
    · omega
    · have := sub_ge hb; omega
    · have := sub_ge hb; omega
    · have := sub_ge ha; omega
    · exact ih (by omega) (by omega) ha hb
    · exact ih (by omega) (by omega) ha hb
    · have := sub_ge ha; omega
    · exact ih (by omega) (by omega) ha hb
    · exact ih (by omega) (by omega) ha hb

theorem view_congr {f g : Nat → Entry} {L k} (h : ∀ q, sub L k q → f q = g q) :
    view f L k = view g L k := by
  induction L generalizing k with
  | zero => simp [view, h k (sub_self 0 k)]
  | succ L ih =>
    simp only [view]
    rw [h k (sub_self _ k), ih fun q hq => h q (by simp [sub, hq]),
      ih fun q hq => h q (by simp [sub, hq])]

theorem view_e (f : Nat → Entry) (L k : Nat) : (view f L k).e = f k := by cases L <;> rfl

theorem setE_ne {f k e q} (h : q ≠ k) : setE f k e q = f q := by simp [setE, h]
theorem setE_eq {f k e} : setE f k e k = e := by simp [setE]

theorem view_setE_out {f L k w e} (h : ¬ sub L k w) : view (setE f w e) L k = view f L k :=
  view_congr fun _ hq => setE_ne (fun hqw => h (hqw ▸ hq))

/-- children subtrees do not contain the parent, and are disjoint -/
theorem not_sub_left {L k} (hk : 1 ≤ k) : ¬ sub L (2 * k) k := fun h => by
  have := sub_ge h; omega
theorem not_sub_right {L k} : ¬ sub L (2 * k + 1) k := fun h => by
  have := sub_ge h; omega
theorem not_sub_lr {L k} (hk : 1 ≤ k) : ¬ sub L (2 * k) (2 * k + 1) := fun h =>
  sub_disj (L := L) (a := 2 * k) (b := 2 * k + 1) (by omega) (by omega) h (sub_self _ _)
theorem not_sub_rl {L k} : ¬ sub L (2 * k + 1) (2 * k) := fun h => by
  have := sub_ge h; omega

theorem view_upd_root (f : Nat → Entry) (L k : Nat) (d : Int) (hk : 1 ≤ k) :
    view (upd f k d) L k = (view f L k).upd d := by
  cases L with
  | zero => simp [view, upd, T.upd, setE_eq]
  | succ L =>
    simp only [view, upd, T.upd, setE_eq]
    rw [view_setE_out (not_sub_left hk), view_setE_out not_sub_right]

theorem view_recompute (g : Nat → Entry) (L k : Nat) (hk : 1 ≤ k) :
    view (recompute g k) (L + 1) k = T.fix (view g (L + 1) k) := by
  simp only [view, recompute, T.fix, setE_eq, view_e]
  rw [view_setE_out (not_sub_left hk), view_setE_out not_sub_right]

/-- `add_split` for `0 < j < 2 ^ L` as a recursion on the flat vector: the path from `k` down to
the node whose range is split in the middle, with the `min` recomputation on the way back -/
def walk (l r : Int) : Nat → Nat → Nat → (Nat → Entry) → (Nat → Entry)
  | L + 1, k, j, f =>
    if j = 2 ^ L then recompute (upd (upd f (2 * k) l) (2 * k + 1) r) k
    else if j < 2 ^ L then recompute (walk l r L (2 * k) j (upd f (2 * k + 1) r)) k
    else recompute (walk l r L (2 * k + 1) (j - 2 ^ L) (upd f (2 * k) l)) k
  | 0, _, _, f => f

theorem walk_frame {l r L k j f q} (hk : 1 ≤ k) (h : ¬ sub L k q) : walk l r L k j f q = f q := by
  induction L generalizing k j f with
  | zero => rfl
  | succ L ih =>
    simp only [sub, not_or] at h
    obtain ⟨h0, h1, h2⟩ := h
    have e1 : q ≠ 2 * k := fun e => h1 (e ▸ sub_self _ _)
    have e2 : q ≠ 2 * k + 1 := fun e => h2 (e ▸ sub_self _ _)
    simp only [walk]
    split
    · simp only [recompute, upd]; rw [setE_ne h0, setE_ne e2, setE_ne e1]
    · split
      · simp only [recompute]; rw [setE_ne h0, ih (by omega) h1]; simp only [upd]; rw [setE_ne e2]
      · simp only [recompute]; rw [setE_ne h0, ih (by omega) h2]; simp only [upd]; rw [setE_ne e1]

theorem splitT_zero {l r L t} : splitT l r L t 0 = t.upd r := by unfold splitT; simp
theorem splitT_full {l r L t j} (h : 2 ^ L ≤ j) : splitT l r L t j = t.upd l := by
  have := two_pow_pos' L
  unfold splitT
  have : j ≠ 0 := by omega
  simp [this, h]

theorem view_walk {l r L k j f} (hk : 1 ≤ k) (hj : 0 < j) (hj2 : j < 2 ^ L) :
    view (walk l r L k j f) L k = splitT l r L (view f L k) j := by
  induction L generalizing k j f with
  | zero => simp at hj2; omega
  | succ L ih =>
    have hP := two_pow_pos' L
    have hj0 : j ≠ 0 := by omega
    have hjn : ¬ 2 ^ (L + 1) ≤ j := by omega
    rw [Nat.pow_succ] at hj2
    conv => rhs; rw [view, splitT_node]; simp only [hj0, hjn, if_false]
    simp only [walk]
    split
    · rename_i h
      rw [view_recompute _ _ _ hk, view]
      congr 1
      have : upd (upd f (2 * k) l) (2 * k + 1) r k = f k := by
        simp only [upd]; rw [setE_ne (by omega), setE_ne (by omega)]
      rw [this]
      congr 1
      · simp only [upd]
        rw [view_setE_out (not_sub_lr hk)]
        show view (upd f (2 * k) l) L (2 * k) = _
        rw [view_upd_root _ _ _ _ (by omega), splitT_full (by omega)]
      · rw [view_upd_root _ _ _ _ (by omega)]
        simp only [upd]
        rw [view_setE_out not_sub_rl, h, Nat.sub_self, splitT_zero]
    · split
      · rename_i h1 h2
        rw [view_recompute _ _ _ hk, view]
        congr 1
        rw [walk_frame (by omega) (not_sub_left hk)]
        have : upd f (2 * k + 1) r k = f k := by simp only [upd]; rw [setE_ne (by omega)]
        rw [this]
        congr 1
        · rw [ih (by omega) hj h2]
          simp only [upd]
          rw [view_setE_out (not_sub_lr hk), Nat.min_eq_left (by omega)]
        · rw [view_congr (g := upd f (2 * k + 1) r) fun q hq =>
            walk_frame (by omega) (fun hq' => sub_disj (by omega) (by omega) hq' hq)]
          rw [view_upd_root _ _ _ _ (by omega), show j - 2 ^ L = 0 by omega, splitT_zero]
      · rename_i h1 h2
        rw [view_recompute _ _ _ hk, view]
        congr 1
        rw [walk_frame (by omega) not_sub_right]
        have : upd f (2 * k) l k = f k := by simp only [upd]; rw [setE_ne (by omega)]
        rw [this]
        congr 1
        · rw [view_congr (g := upd f (2 * k) l) fun q hq =>
            walk_frame (by omega) (fun hq' => sub_disj (a := 2 * k) (by omega) (by omega) hq hq')]
          rw [view_upd_root _ _ _ _ (by omega), splitT_full (by omega)]
        · rw [ih (by omega) (by omega) (by omega)]
          simp only [upd]
          rw [view_setE_out not_sub_rl]

/-! ## The loops of `add_split` compute `walk` -/

theorem loop_arith {q P j : Nat} (hP : 0 < P) (hj : 0 < j) (hj2 : j < P * 2) :
    ((q * (P * 2) + j) % P = 0 ↔ j = P) ∧ (((q * (P * 2) + j) / P) % 2 = 0 ↔ j < P) := by
  have e : q * (P * 2) + j = P * (q * 2) + j := by
    rw [Nat.mul_comm P (q * 2), Nat.mul_comm P 2, Nat.mul_assoc]
  rw [e, Nat.mul_add_mod, Nat.mul_add_div hP]
  by_cases h1 : j < P
  · rw [Nat.mod_eq_of_lt h1, Nat.div_eq_of_lt h1]; omega
  · have h2 : j / P = 1 := Nat.div_eq_of_lt_le (by omega) (by omega)
    rw [h2, Nat.mod_eq_sub_mod (by omega), Nat.mod_eq_of_lt (by omega)]
    omega

/-- `m` iterations of the second loop without the `node == 1` test -/
def ascendN : Nat → Nat → (Nat → Entry) → (Nat → Entry)
  | 0, _, f => f
  | m + 1, k, f => ascendN m (k / 2) (recompute f k)

theorem ascend_eq {D k fuel f} (h1 : 2 ^ D ≤ k) (h2 : k < 2 ^ (D + 1)) (hf : D + 1 ≤ fuel) :
    ascend fuel k f = ascendN (D + 1) k f := by
  induction D generalizing k fuel f with
  | zero =>
    have : k = 1 := by simp at h1 h2; omega
    subst this
    obtain ⟨fuel, rfl⟩ : ∃ m, fuel = m + 1 := ⟨fuel - 1, by omega⟩
    simp [ascend, ascendN]
  | succ D ih =>
    obtain ⟨fuel, rfl⟩ : ∃ m, fuel = m + 1 := ⟨fuel - 1, by omega⟩
    rw [Nat.pow_succ] at h1 h2
    have hP := two_pow_pos' D
    have : k ≠ 1 := by omega
    rw [ascend, ascendN]
    simp only [this, if_false]
    rw [Nat.pow_succ] at h2
    exact ih (by omega) (by rw [Nat.pow_succ]; omega) (by omega)

theorem descend_walk {i l r L q j k D f} (hi : i = q * 2 ^ L + j) (hj : 0 < j) (hj2 : j < 2 ^ L)
    (hk : 2 ^ D ≤ k) (hk2 : k < 2 ^ (D + 1)) :
    ∃ D' k' f', descend i l r (2 ^ L) k L f = (k', f') ∧ D' < D + L ∧ 2 ^ D' ≤ k' ∧ k' < 2 ^ (D' + 1) ∧
      ascendN (D' + 1) k' (upd (upd f' (2 * k') l) (2 * k' + 1) r) =
        ascendN D (k / 2) (walk l r L k j f) := by
  induction L generalizing q j k D f with
  | zero => simp at hj2; omega
  | succ L ih =>
    have hP := two_pow_pos' L
    rw [Nat.pow_succ] at hi hj2
    obtain ⟨a1, a2⟩ := loop_arith (q := q) hP hj hj2
    rw [← hi] at a1 a2
    rw [descend, walk]
    have : 2 ^ (L + 1) / 2 = 2 ^ L := by rw [Nat.pow_succ]; omega
    simp only [this]
    by_cases h1 : j = 2 ^ L
    · simp only [a1.2 h1, h1, if_true]
      exact ⟨D, k, f, rfl, by omega, hk, hk2, rfl⟩
    · have : ¬ (i % 2 ^ L = 0) := fun h => h1 (a1.1 h)
      simp only [this, h1, if_false]
      by_cases h2 : j < 2 ^ L
      · simp only [a2.2 h2, h2, if_true]
        obtain ⟨D', k', f', e1, e0, e2, e3, e4⟩ := ih (q := q * 2) (j := j) (k := 2 * k) (D := D + 1)
          (f := upd f (2 * k + 1) r)
          (by rw [hi, Nat.mul_assoc, Nat.mul_comm 2]) hj h2
          (by rw [Nat.pow_succ]; omega) (by rw [Nat.pow_succ] at hk2 ⊢; omega)
        refine ⟨D', k', f', e1, by omega, e2, e3, ?_⟩
        rw [e4, ascendN, show 2 * k / 2 = k by omega]
      · have : ¬ ((i / 2 ^ L) % 2 = 0) := fun h => h2 (a2.1 h)
        simp only [this, h2, if_false]
        obtain ⟨D', k', f', e1, e0, e2, e3, e4⟩ := ih (q := q * 2 + 1) (j := j - 2 ^ L)
          (k := 2 * k + 1) (D := D + 1) (f := upd f (2 * k) l)
          (by rw [hi, Nat.add_mul, Nat.mul_assoc, Nat.mul_comm 2]; omega) (by omega) (by omega)
          (by rw [Nat.pow_succ]; omega) (by rw [Nat.pow_succ] at hk2 ⊢; omega)
        refine ⟨D', k', f', e1, by omega, e2, e3, ?_⟩
        rw [e4, ascendN, show (2 * k + 1) / 2 = k by omega]

theorem addSplit_eq_walk {t : Tree} {h i l r} (hs : t.size = 2 ^ h) (h0 : 0 < i) (h1 : i < t.size) :
    (addSplit t i l r).f = walk l r h 1 i t.f := by
  have hn1 : i ≠ 0 := by omega
  have hn2 : i ≠ 2 ^ h := by omega
  obtain ⟨D', k', f', e1, e0, e2, e3, e4⟩ := descend_walk (i := i) (l := l) (r := r) (L := h) (q := 0)
    (j := i) (k := 1) (D := 0) (f := t.f) (by simp) h0 (by omega) (by simp) (by simp)
  simp only [addSplit, hs, hn1, hn2, if_false, Nat.log2_two_pow, e1]
  rw [ascend_eq e2 e3, e4]
  · rfl
  · have h3 : D' < 2 ^ D' := Nat.lt_two_pow_self
    have h4 : h < 2 ^ h := Nat.lt_two_pow_self
    omega

/-! ## The invariant on the flat vector -/

/-- Invariant of the vector.  `B ≤ i32::MAX` is a strict upper bound on the `min` fields of all
real (non-padding) nodes; an inner node is a padding node iff its left child is. -/
structure InvB (B : Int) (t : Tree) : Prop where
  size_pow : t.size = 2 ^ Nat.log2 t.size
  n_le : t.n ≤ t.size
  hB : B ≤ MAXV
  node_min : ∀ k, 1 ≤ k → k < t.size →
    (t.f k).min = (t.f k).delta + Min.min (t.f (2 * k)).min (t.f (2 * k + 1)).min
  node_pad : ∀ k, 1 ≤ k → k < t.size → (t.f (2 * k)).min = MAXV → (t.f k).delta = 0
  node_bd : ∀ k, 1 ≤ k → k < t.size → (t.f (2 * k)).min ≠ MAXV → (t.f k).min < B
  leaf_real : ∀ p, p < t.n →
    (t.f (t.size + p)).min = (t.f (t.size + p)).delta ∧ (t.f (t.size + p)).min < B
  leaf_pad : ∀ p, t.n ≤ p → p < t.size → t.f (t.size + p) = ⟨MAXV, MAXV⟩

/-- the invariant with the weakest bound: real `min` fields are below the sentinel -/
def Inv (t : Tree) : Prop := InvB MAXV t

theorem two_mul_pow (k L : Nat) : (2 * k) * 2 ^ L = k * 2 ^ (L + 1) := by
  rw [Nat.pow_succ, Nat.mul_comm 2 k, Nat.mul_assoc, Nat.mul_comm 2]
theorem two_mul_succ_pow (k L : Nat) : (2 * k + 1) * 2 ^ L = k * 2 ^ (L + 1) + 2 ^ L := by
  rw [Nat.add_mul, Nat.pow_succ, Nat.mul_comm 2 k, Nat.mul_assoc, Nat.mul_comm 2, Nat.one_mul]

theorem good_of_flat {B t} (h : InvB B t) {L k lo} (hk : 1 ≤ k) (hlo : k * 2 ^ L = t.size + lo)
    (hhi : lo + 2 ^ L ≤ t.size) : GoodT B L (view t.f L k) (t.n - lo) := by
  induction L generalizing k lo with
  | zero =>
    simp at hlo hhi
    subst hlo
    rw [view, goodT_leaf]
    split
    · exact h.leaf_pad lo (by omega) (by omega)
    · exact h.leaf_real lo (by omega)
  | succ L ih =>
    have hP := two_pow_pos' L
    have e1 := two_mul_pow k L
    have e2 := two_mul_succ_pow k L
    have hks : k < t.size := by
      have : 2 * k ≤ 2 * k * 2 ^ L := Nat.le_mul_of_pos_right _ hP
      rw [Nat.pow_succ] at hhi
      omega
    rw [Nat.pow_succ] at hhi
    have ga := ih (k := 2 * k) (lo := lo) (by omega) (by omega) (by omega)
    have gb := ih (k := 2 * k + 1) (lo := lo + 2 ^ L) (by omega) (by omega) (by omega)
    rw [view, goodT_node, view_e, view_e]
    refine ⟨ga, ?_, h.node_min k hk hks, ?_, ?_⟩
    · rw [show t.n - lo - 2 ^ L = t.n - (lo + 2 ^ L) by omega]; exact gb
    · intro hc
      rw [hc] at ga
      have := ga.pad
      rw [view_e] at this
      exact h.node_pad k hk hks this
    · intro hc
      have := ga.real hc
      rw [view_e] at this
      have := h.hB
      exact h.node_bd k hk hks (by omega)

theorem good_sub {B f L k c d q} (h : GoodT B L (view f L k) c) (hd : d ≤ L) (hq : q / 2 ^ d = k) :
    ∃ c', GoodT B (L - d) (view f (L - d) q) c' := by
  induction L generalizing k c d with
  | zero =>
    have : d = 0 := by omega
    subst this; simp at hq; subst hq; exact ⟨c, h⟩
  | succ L ih =>
    cases d with
    | zero => simp at hq; subst hq; exact ⟨c, h⟩
    | succ d =>
      rw [Nat.pow_succ, ← Nat.div_div_eq_div_mul] at hq
      rw [view, goodT_node] at h
      rw [Nat.succ_sub_succ]
      have : q / 2 ^ d = 2 * k ∨ q / 2 ^ d = 2 * k + 1 := by omega
      rcases this with e | e
      · exact ih h.1 (by omega) e
      · exact ih h.2.1 (by omega) e

theorem good_leaf {B f L k c q} (h : GoodT B L (view f L k) c) (hq : q / 2 ^ L = k) :
    GoodT B 0 (.leaf (f q)) (c - (q - k * 2 ^ L)) := by
  induction L generalizing k c with
  | zero => simp at hq; subst hq; simpa [view] using h
  | succ L ih =>
    have hle := Nat.div_mul_le_self q (2 ^ L)
    rw [Nat.pow_succ, ← Nat.div_div_eq_div_mul] at hq
    rw [view, goodT_node] at h
    have e1 := two_mul_pow k L
    have e2 := two_mul_succ_pow k L
    have : q / 2 ^ L = 2 * k ∨ q / 2 ^ L = 2 * k + 1 := by omega
    rcases this with e | e
    · have := ih h.1 e
      rw [e1] at this; exact this
    · have := ih h.2.1 e
      rw [e] at hle
      have e3 : c - (q - k * 2 ^ (L + 1)) = c - 2 ^ L - (q - (2 * k + 1) * 2 ^ L) := by
        generalize (2 * k + 1) * 2 ^ L = X at *
        generalize k * 2 ^ (L + 1) = Y at *
        clear h ih this e1 hq e
        obtain ⟨u, rfl⟩ : ∃ u, q = X + u := ⟨q - X, by omega⟩
        subst e2
        generalize 2 ^ L = P
        omega
      rw [e3]
      exact this

theorem exists_depth (q : Nat) (hq : 1 ≤ q) : ∃ d, q / 2 ^ d = 1 ∧ 2 ^ d ≤ q := by
  induction q using Nat.strongRecOn with
  | _ q ih =>
    by_cases h1 : q = 1
    · exact ⟨0, by simp [h1], by simp [h1]⟩
    · obtain ⟨d, e1, e2⟩ := ih (q / 2) (by omega) (by omega)
      refine ⟨d + 1, ?_, ?_⟩
      · rw [Nat.pow_succ, Nat.mul_comm, ← Nat.div_div_eq_div_mul]; exact e1
      · rw [Nat.pow_succ]; omega

theorem flat_of_good {B t h} (hs : t.size = 2 ^ h) (hn : t.n ≤ t.size) (hB : B ≤ MAXV)
    (g : GoodT B h (view t.f h 1) t.n) : InvB B t := by
  have node : ∀ k, 1 ≤ k → k < t.size → ∃ L c, GoodT B (L + 1) (view t.f (L + 1) k) c := by
    intro k hk hks
    obtain ⟨d, e1, e2⟩ := exists_depth k hk
    have hd : d < h := (Nat.pow_lt_pow_iff_right (a := 2) (by decide)).1 (by omega)
    obtain ⟨c, hc⟩ := good_sub g (by omega) e1
    exact ⟨h - d - 1, c, by rw [show h - d - 1 + 1 = h - d by omega]; exact hc⟩
  have leaf : ∀ p, p < t.size → GoodT B 0 (.leaf (t.f (t.size + p))) (t.n - p) := by
    intro p hp
    have := good_leaf (q := t.size + p) g (Nat.div_eq_of_lt_le (by omega) (by omega))
    rw [show t.n - (t.size + p - 1 * 2 ^ h) = t.n - p by omega] at this
    exact this
  refine ⟨by rw [hs, Nat.log2_two_pow], hn, hB, ?_, ?_, ?_, ?_, ?_⟩
  · intro k hk hks
    obtain ⟨L, c, hc⟩ := node k hk hks
    rw [view, goodT_node, view_e, view_e] at hc
    exact hc.2.2.1
  · intro k hk hks hm
    obtain ⟨L, c, hc⟩ := node k hk hks
    rw [view, goodT_node] at hc
    apply hc.2.2.2.1
    apply Nat.eq_zero_of_not_pos
    intro hpos
    have := hc.1.real hpos
    rw [view_e] at this
    omega
  · intro k hk hks hm
    obtain ⟨L, c, hc⟩ := node k hk hks
    rw [view, goodT_node] at hc
    apply hc.2.2.2.2
    apply Nat.pos_of_ne_zero
    intro h0
    rw [h0] at hc
    have := hc.1.pad
    rw [view_e] at this
    exact hm this
  · intro p hp
    have := leaf p (by omega)
    rw [goodT_leaf] at this
    have hne : t.n - p ≠ 0 := by omega
    simpa [hne] using this
  · intro p hp hp2
    have := leaf p hp2
    rw [goodT_leaf] at this
    have he : t.n - p = 0 := by omega
    simpa [he] using this

theorem InvB.good {B t} (h : InvB B t) : GoodT B (Nat.log2 t.size) (view t.f (Nat.log2 t.size) 1) t.n := by
  have := good_of_flat h (L := Nat.log2 t.size) (k := 1) (lo := 0) (by omega)
    (by rw [Nat.one_mul]; exact h.size_pow.symm) (by have := h.size_pow; omega)
  simpa using this

/-! ## `add_split` preserves the invariant -/

@[simp] theorem addSplit_size (t : Tree) (i l r) : (addSplit t i l r).size = t.size := by
  unfold addSplit; split; rfl; split <;> rfl
@[simp] theorem addSplit_n (t : Tree) (i l r) : (addSplit t i l r).n = t.n := by
  unfold addSplit; split; rfl; split <;> rfl

theorem view_addSplit {t : Tree} {h i l r} (hs : t.size = 2 ^ h) (hi : i ≤ t.size) :
    view (addSplit t i l r).f h 1 = splitT l r h (view t.f h 1) i := by
  by_cases h0 : i = 0
  · subst h0
    simp only [addSplit, if_true]
    rw [view_upd_root _ _ _ _ (by omega), splitT_zero]
  · by_cases h1 : i = t.size
    · subst h1
      have hne : t.size ≠ 0 := h0
      simp only [addSplit, hne, if_true, if_false]
      rw [view_upd_root _ _ _ _ (by omega), splitT_full (by omega)]
    · rw [addSplit_eq_walk hs (by omega) (by omega), view_walk (by omega) (by omega) (by omega)]

/-- **`add_split` preserves the invariant**; the bound on the real `min` fields grows by at most
`s ≥ max(l, r, 0)` and has to stay `≤ i32::MAX` -/
theorem addSplit_invB {B s t i l r} (h : InvB B t) (hi : i ≤ t.size) (hs : 0 ≤ s) (hl : l ≤ s)
    (hr : r ≤ s) (hB : B + s ≤ MAXV) : InvB (B + s) (addSplit t i l r) := by
  apply flat_of_good (h := Nat.log2 t.size)
  · simpa using h.size_pow
  · simpa using h.n_le
  · exact hB
  · rw [view_addSplit h.size_pow hi]
    simpa using (split_good h.good hB hs hl hr).1

/-! ## `proj` -/

theorem projRec_eq {f size L k lo sum fuel} (hlo : k * 2 ^ L = size + lo)
    (hhi : lo + 2 ^ L ≤ size) (hf : L + 1 ≤ fuel) :
    projRec f size fuel k sum = (List.range (2 ^ L)).map fun p => sum + T.val L (view f L k) p := by
  induction L generalizing k lo sum fuel with
  | zero =>
    obtain ⟨fuel, rfl⟩ : ∃ m, fuel = m + 1 := ⟨fuel - 1, by omega⟩
    simp at hlo hhi
    have : k ≥ size := by omega
    simp [projRec, this, view, T.val, e_leaf, List.range_succ]
  | succ L ih =>
    obtain ⟨fuel, rfl⟩ : ∃ m, fuel = m + 1 := ⟨fuel - 1, by omega⟩
    have hP := two_pow_pos' L
    have e1 := two_mul_pow k L
    have e2 := two_mul_succ_pow k L
    rw [Nat.pow_succ] at hhi
    have hks : ¬ (k ≥ size) := by
      have : 2 * k ≤ 2 * k * 2 ^ L := Nat.le_mul_of_pos_right _ hP
      omega
    rw [projRec]
    simp only [hks, if_false]
    rw [ih (k := 2 * k) (lo := lo) (by omega) (by omega) (by omega),
      ih (k := 2 * k + 1) (lo := lo + 2 ^ L) (by omega) (by omega) (by omega)]
    rw [Nat.pow_succ, Nat.mul_two, List.range_add, List.map_append, List.map_map]
    congr 1
    · apply List.map_congr_left
      intro p hp
      have : p < 2 ^ L := by simpa using hp
      rw [view, val_node]; simp only [this, if_true]; omega
    · apply List.map_congr_left
      intro p hp
      have : ¬ (2 ^ L + p < 2 ^ L) := by omega
      simp only [Function.comp]
      rw [view, val_node]; simp only [this, if_false, Nat.add_sub_cancel_left]; omega

theorem proj_eq {t : Tree} {h} (hs : t.size = 2 ^ h) :
    proj t = (List.range t.size).map fun p => T.val h (view t.f h 1) p := by
  have hh : h < 2 ^ h := Nat.lt_two_pow_self
  rw [proj, projRec_eq (L := h) (lo := 0) (by omega) (by omega) (by omega), hs]
  simp

theorem projN_eq {t : Tree} {h} (hs : t.size = 2 ^ h) (hn : t.n ≤ t.size) :
    projN t = (List.range t.n).map fun p => T.val h (view t.f h 1) p := by
  rw [projN, proj_eq hs, ← List.map_take, List.take_range, Nat.min_eq_left hn]

theorem projN_getElem? {t : Tree} {h} (hs : t.size = 2 ^ h) (hn : t.n ≤ t.size) (p : Nat) :
    (projN t)[p]? = if p < t.n then some (T.val h (view t.f h 1) p) else none := by
  rw [projN_eq hs hn, List.getElem?_map]
  by_cases hp : p < t.n
  · rw [List.getElem?_range hp]; simp [hp]
  · rw [List.getElem?_eq_none (by simpa using hp)]; simp [hp]

/-- **`add_split` refines the list operation** (for every `i ≤ size`, not only `i ≤ n`) -/
theorem proj_addSplit {B t i l r} (h : InvB B t) (hi : i ≤ t.size) :
    projN (addSplit t i l r) = OxiddModel.Reorder.addSplit (projN t) i l r := by
  have hs := h.size_pow
  apply List.ext_getElem?
  intro p
  rw [OxiddModel.Reorder.addSplit, List.getElem?_mapIdx,
    projN_getElem? (h := Nat.log2 t.size) (by simpa using hs) (by simpa using h.n_le),
    projN_getElem? hs h.n_le, view_addSplit hs hi]
  simp only [addSplit_n]
  by_cases hp : p < t.n
  · simp only [hp, if_true, Option.map_some]
    rw [split_val h.good h.hB hp (by have := h.n_le; omega)]
    split <;> rfl
  · simp [hp]

/-! ## `min_index` -/

theorem minLoop_leaf {f size fuel k} (h : size ≤ k) : minLoop f size fuel k = k := by
  cases fuel <;> simp [minLoop]; omega

theorem minLoop_eq {f size L k lo fuel} (hlo : k * 2 ^ L = size + lo)
    (hhi : lo + 2 ^ L ≤ size) (hf : L ≤ fuel) :
    minLoop f size fuel k = size + lo + minIdxT L (view f L k) := by
  induction L generalizing k lo fuel with
  | zero =>
    simp at hlo
    rw [minLoop_leaf (by omega), view]
    simp [minIdxT]; omega
  | succ L ih =>
    obtain ⟨fuel, rfl⟩ : ∃ m, fuel = m + 1 := ⟨fuel - 1, by omega⟩
    have hP := two_pow_pos' L
    have e1 := two_mul_pow k L
    have e2 := two_mul_succ_pow k L
    rw [Nat.pow_succ] at hhi
    have hks : k < size := by
      have : 2 * k ≤ 2 * k * 2 ^ L := Nat.le_mul_of_pos_right _ hP
      omega
    rw [minLoop, view, minIdxT_node, view_e, view_e]
    simp only [hks, if_true]
    split
    · rw [ih (lo := lo) (by omega) (by omega) (by omega)]
    · rw [ih (lo := lo + 2 ^ L) (by omega) (by omega) (by omega)]; omega

theorem minIndex_eq {t : Tree} {h} (hs : t.size = 2 ^ h) :
    minIndex t = minIdxT h (view t.f h 1) := by
  have hh : h < 2 ^ h := Nat.lt_two_pow_self
  rw [minIndex, minLoop_eq (L := h) (lo := 0) (by omega) (by omega) (by omega)]
  omega

/-- `m` is the left-most position of the minimum of `g` on `[0, N)` -/
def LeftMin (g : Nat → Int) (N m : Nat) : Prop :=
  m < N ∧ (∀ p, p < N → g m ≤ g p) ∧ (∀ p, p < m → g m < g p)

theorem LeftMin.unique {g N m m'} (h : LeftMin g N m) (h' : LeftMin g N m') : m = m' := by
  obtain ⟨a1, a2, a3⟩ := h
  obtain ⟨b1, b2, b3⟩ := h'
  apply Nat.le_antisymm
  · apply Nat.le_of_not_lt; intro hlt
    have := a3 m' hlt; have := b2 m a1; omega
  · apply Nat.le_of_not_lt; intro hlt
    have := b3 m hlt; have := a2 m' b1; omega

theorem minIndexAux_spec (g : Nat → Int) (xs : List Int) (j best : Nat) (bv : Int)
    (hx : ∀ t, t < xs.length → xs[t]? = some (g (j + t)))
    (hb : best < j) (hbv : g best = bv) (h1 : ∀ p, p < j → bv ≤ g p)
    (h2 : ∀ p, p < best → bv < g p) :
    LeftMin g (j + xs.length) (OxiddModel.Reorder.minIndexAux xs j best bv) := by
  induction xs generalizing j best bv with
  | nil =>
    subst hbv
    exact ⟨by simpa [minIndexAux] using hb, by simpa [minIndexAux] using h1,
      by simpa [minIndexAux] using h2⟩
  | cons x xs ih =>
    have hxj : x = g j := by simpa using hx 0 (by simp)
    have hx' : ∀ t, t < xs.length → xs[t]? = some (g (j + 1 + t)) := by
      intro t ht
      have := hx (t + 1) (by simp; omega)
      rw [show j + 1 + t = j + (t + 1) by omega]
      simpa using this
    rw [minIndexAux, show j + (x :: xs).length = j + 1 + xs.length by simp; omega]
    split
    · apply ih (j + 1) j x hx' (by omega) hxj.symm
      · intro p hp
        by_cases hpj : p = j
        · subst hpj; omega
        · have := h1 p (by omega); omega
      · intro p hp; have := h1 p hp; omega
    · apply ih (j + 1) best bv hx' (by omega) hbv
      · intro p hp
        by_cases hpj : p = j
        · subst hpj; omega
        · exact h1 p (by omega)
      · exact h2

theorem minIndex_spec (c : List Int) (hc : c ≠ []) :
    LeftMin (fun p => c.getD p 0) c.length (OxiddModel.Reorder.minIndex c) := by
  cases c with
  | nil => exact absurd rfl hc
  | cons x xs =>
    rw [OxiddModel.Reorder.minIndex, show (x :: xs).length = 1 + xs.length by simp; omega]
    apply minIndexAux_spec
    · intro t ht
      rw [Nat.add_comm 1 t]
      simp [List.getD_eq_getElem?_getD, ht]
    · omega
    · simp
    · intro p hp
      have : p = 0 := by omega
      subst this; simp
    · intro p hp; omega
theorem LeftMin.congr {g g' N m} (h : LeftMin g N m) (hg : ∀ p, p < N → g p = g' p) :
    LeftMin g' N m := by
  obtain ⟨a1, a2, a3⟩ := h
  refine ⟨a1, fun p hp => ?_, fun p hp => ?_⟩
  · rw [← hg m a1, ← hg p hp]; exact a2 p hp
  · rw [← hg m a1, ← hg p (by omega)]; exact a3 p hp

/-- **`min_index` refines the list operation**: it returns the left-most position of the minimum
of the real entries; padding never wins. -/
theorem minIndex_refines {B t} (h : InvB B t) (hn : 0 < t.n) :
    minIndex t = OxiddModel.Reorder.minIndex (projN t) := by
  have hs := h.size_pow
  have hlen : (projN t).length = t.n := by rw [projN_eq hs h.n_le]; simp
  have hne : projN t ≠ [] := by
    intro e; rw [e] at hlen; simp at hlen; omega
  have sp := minIndex_spec (projN t) hne
  rw [hlen] at sp
  have sp' := sp.congr (g' := fun p => T.val (Nat.log2 t.size) (view t.f (Nat.log2 t.size) 1) p)
    (by intro p hp
        show (projN t).getD p 0 = _
        rw [List.getD_eq_getElem?_getD, projN_getElem? hs h.n_le]; simp [hp])
  obtain ⟨m1, m2, m3, m4, m5⟩ := minIdx_spec h.good h.hB hn
  have hsz : t.size = 2 ^ Nat.log2 t.size := hs
  have : LeftMin (fun p => T.val (Nat.log2 t.size) (view t.f (Nat.log2 t.size) 1) p) t.n
      (minIdxT (Nat.log2 t.size) (view t.f (Nat.log2 t.size) 1)) :=
    ⟨m1, fun p hp => by
        show T.val _ _ _ ≤ _
        rw [← m3]; exact m4 p hp (by have := h.n_le; omega),
      fun p hp => by
        show T.val _ _ _ < _
        rw [← m3]; exact m5 p hp⟩
  rw [minIndex_eq hs]
  exact this.unique sp'

/-! ## `new` -/

theorem nextPow2Aux_spec {n fuel p a} (hp : p = 2 ^ a) (hf : n ≤ p + fuel) :
    ∃ h, nextPow2Aux n fuel p = 2 ^ h ∧ n ≤ 2 ^ h := by
  induction fuel generalizing p a with
  | zero => exact ⟨a, by simp [nextPow2Aux, hp], by omega⟩
  | succ fuel ih =>
    rw [nextPow2Aux]
    split
    · exact ⟨a, hp, by omega⟩
    · have := two_pow_pos' a
      exact ih (a := a + 1) (by rw [Nat.pow_succ]; omega) (by omega)

theorem nextPow2_spec (n : Nat) : ∃ h, nextPow2 n = 2 ^ h ∧ n ≤ 2 ^ h :=
  nextPow2Aux_spec (a := 0) (by simp) (by omega)

theorem buildLoop_out {m f q} (h : m < q) : buildLoop m f q = f q := by
  induction m generalizing f with
  | zero => rfl
  | succ m ih => rw [buildLoop, ih (by omega), recompute, setE_ne (by omega)]

theorem buildLoop_delta {m f q} : (buildLoop m f q).delta = (f q).delta := by
  induction m generalizing f with
  | zero => rfl
  | succ m ih =>
    rw [buildLoop, ih, recompute]
    by_cases h : q = m + 1
    · subst h; rw [setE_eq]
    · rw [setE_ne h]

theorem buildLoop_node {m f k} (h1 : 1 ≤ k) (h2 : k ≤ m) :
    (buildLoop m f k).min = (buildLoop m f k).delta +
      Min.min (buildLoop m f (2 * k)).min (buildLoop m f (2 * k + 1)).min := by
  induction m generalizing f with
  | zero => omega
  | succ m ih =>
    rw [buildLoop]
    by_cases h : k = m + 1
    · subst h
      rw [buildLoop_out (by omega), buildLoop_out (by omega), buildLoop_out (by omega)]
      simp only [recompute]
      rw [setE_eq, setE_ne (by omega), setE_ne (by omega)]
    · exact ih (by omega)

theorem val_zero_deltas {f : Nat → Entry} {size L k lo p} (hz : ∀ q, q < size → (f q).delta = 0)
    (hlo : k * 2 ^ L = size + lo) (hhi : lo + 2 ^ L ≤ size) (hp : p < 2 ^ L) :
    T.val L (view f L k) p = (f (size + lo + p)).delta := by
  induction L generalizing k lo p with
  | zero =>
    simp at hlo hp
    subst hp hlo
    simp [view, T.val, e_leaf]
  | succ L ih =>
    have hP := two_pow_pos' L
    have e1 := two_mul_pow k L
    have e2 := two_mul_succ_pow k L
    rw [Nat.pow_succ] at hhi hp
    have hks : k < size := by
      have : 2 * k ≤ 2 * k * 2 ^ L := Nat.le_mul_of_pos_right _ hP
      omega
    rw [view, val_node, hz k hks]
    split
    · rw [ih (lo := lo) (by omega) (by omega) (by omega)]; omega
    · rw [ih (lo := lo + 2 ^ L) (by omega) (by omega) (by omega)]
      rw [show size + (lo + 2 ^ L) + (p - 2 ^ L) = size + lo + p by omega]; omega

theorem getD_mem_lt {data : List Int} {B : Int} (hd : ∀ x, x ∈ data → x < B) {p}
    (hp : p < data.length) : data.getD p 0 < B := by
  rw [List.getD_eq_getElem?_getD, List.getElem?_eq_getElem hp]
  exact hd _ (List.getElem_mem hp)

/-- **`new` establishes the invariant**, provided all values are below `B ≤ i32::MAX` -/
theorem new_invB {B} (data : List Int) (hd : ∀ x, x ∈ data → x < B) (hB : B ≤ MAXV) :
    InvB B (new data) := by
  obtain ⟨h, hs, hn⟩ := nextPow2_spec data.length
  have hpos := two_pow_pos' h
  -- every node carries a value `< B` or the sentinel
  have bd : ∀ d q, 2 * nextPow2 data.length - q ≤ d → 1 ≤ q → q < 2 * nextPow2 data.length →
      ((new data).f q).min < B ∨ ((new data).f q).min = MAXV := by
    intro d
    induction d with
    | zero => intro q h1 h2 h3; omega
    | succ d ih =>
      intro q h1 h2 h3
      by_cases hq : q < nextPow2 data.length
      · have e := buildLoop_node (m := nextPow2 data.length - 1)
          (f := fill (nextPow2 data.length) data) h2 (by omega)
        have ed : (buildLoop (nextPow2 data.length - 1) (fill (nextPow2 data.length) data) q).delta
            = 0 := by rw [buildLoop_delta]; simp [fill, hq]
        have ia := ih (2 * q) (by omega) (by omega) (by omega)
        have ib := ih (2 * q + 1) (by omega) (by omega) (by omega)
        simp only [new] at ia ib ⊢
        rw [e, ed]
        omega
      · simp only [new]
        rw [buildLoop_out (by omega)]
        have : ¬ q < nextPow2 data.length := hq
        simp only [fill, this, if_false]
        split
        · left; exact getD_mem_lt hd (by assumption)
        · right; rfl
  refine ⟨?_, ?_, hB, ?_, ?_, ?_, ?_, ?_⟩
  · show nextPow2 data.length = 2 ^ Nat.log2 (nextPow2 data.length)
    rw [hs, Nat.log2_two_pow]
  · show data.length ≤ nextPow2 data.length
    omega
  · intro k h1 h2
    exact buildLoop_node h1 (by simp only [new] at h2; omega)
  · intro k h1 h2 _
    simp only [new] at h2 ⊢
    rw [buildLoop_delta]; simp [fill, h2]
  · intro k h1 h2 hm
    simp only [new] at h2
    have e := buildLoop_node (m := nextPow2 data.length - 1)
      (f := fill (nextPow2 data.length) data) h1 (by omega)
    have ed : (buildLoop (nextPow2 data.length - 1) (fill (nextPow2 data.length) data) k).delta
        = 0 := by rw [buildLoop_delta]; simp [fill, h2]
    have ia := bd _ (2 * k) (Nat.le_refl _) (by omega) (by omega)
    have ib := bd _ (2 * k + 1) (Nat.le_refl _) (by omega) (by omega)
    simp only [new] at ia ib hm ⊢
    rw [e, ed]
    omega
  · intro p hp
    simp only [new] at hp ⊢
    rw [buildLoop_out (by omega)]
    have : ¬ (nextPow2 data.length + p < nextPow2 data.length) := by omega
    simp only [fill, this, if_false, Nat.add_sub_cancel_left, hp, if_true]
    exact ⟨trivial, getD_mem_lt hd hp⟩
  · intro p hp hp2
    simp only [new] at hp hp2 ⊢
    rw [buildLoop_out (by omega)]
    have h1 : ¬ (nextPow2 data.length + p < nextPow2 data.length) := by omega
    have h2 : ¬ (p < data.length) := by omega
    simp only [fill, h1, if_false, Nat.add_sub_cancel_left, h2]

theorem new_inv (data : List Int) (hd : ∀ x, x ∈ data → x < MAXV) : Inv (new data) :=
  new_invB data hd (Int.le_refl _)

/-- **`proj (new data) = data`** (on the real entries; no hypothesis on the values needed) -/
theorem proj_new (data : List Int) : projN (new data) = data := by
  obtain ⟨h, hs, hn⟩ := nextPow2_spec data.length
  have hs' : (new data).size = 2 ^ h := hs
  apply List.ext_getElem?
  intro p
  rw [projN_getElem? hs' (by show data.length ≤ nextPow2 data.length; omega)]
  show (if p < data.length then _ else _) = _
  split
  · rename_i hp
    rw [val_zero_deltas (size := 2 ^ h) (lo := 0) (k := 1) _ (by omega) (by omega) (by omega)]
    · simp only [new]
      rw [buildLoop_out (by omega)]
      have h1 : ¬ (2 ^ h + 0 + p < nextPow2 data.length) := by omega
      have h2 : 2 ^ h + 0 + p - nextPow2 data.length = p := by omega
      simp only [fill, h1, if_false, h2, hp, if_true]
      rw [List.getD_eq_getElem?_getD, List.getElem?_eq_getElem hp]; rfl
    · intro q hq
      simp only [new]
      rw [buildLoop_delta]
      have : q < nextPow2 data.length := by omega
      simp [fill, this]
  · rename_i hp
    rw [List.getElem?_eq_none (by omega)]

/-! ## Corollaries -/

theorem InvB.mono {B B' t} (h : InvB B t) (h1 : B ≤ B') (h2 : B' ≤ MAXV) : InvB B' t :=
  ⟨h.size_pow, h.n_le, h2, h.node_min, h.node_pad,
    fun k a b c => Int.lt_of_lt_of_le (h.node_bd k a b c) h1,
    fun p hp => ⟨(h.leaf_real p hp).1, Int.lt_of_lt_of_le (h.leaf_real p hp).2 h1⟩, h.leaf_pad⟩

/-- **`add_split` preserves `Inv`** if the real `min` fields keep a distance `s ≥ max(l, r, 0)`
from the sentinel -/
theorem addSplit_inv {B s t i l r} (h : InvB B t) (hi : i ≤ t.size) (hs : 0 ≤ s) (hl : l ≤ s)
    (hr : r ≤ s) (hB : B + s ≤ MAXV) : Inv (addSplit t i l r) :=
  (addSplit_invB h hi hs hl hr hB).mono hB (Int.le_refl _)

/-- the second loop of `sort_order` with the segment tree in place of the list -/
def fillIndicatorsT : List (Option Nat) → Tree → List Nat
  | [], _ => []
  | none :: rest, t => minIndex t :: fillIndicatorsT rest t
  | some i :: rest, t => i :: fillIndicatorsT rest (addSplit t (i + 1) 1 (-1))

/-- number of `add_split` calls -/
def numSome (named : List (Option Nat)) : Nat := (named.filter Option.isSome).length

/-- **the tree operations compute the same indicators as the list operations** -/
theorem fillIndicatorsT_eq {B t} (named : List (Option Nat)) (h : InvB B t) (hn : 0 < t.n)
    (hi : ∀ i, some i ∈ named → i + 1 ≤ t.size) (hB : B + (numSome named : Int) ≤ MAXV) :
    fillIndicatorsT named t = fillIndicators named (projN t) := by
  induction named generalizing B t with
  | nil => rfl
  | cons a rest ih =>
    cases a with
    | none =>
      rw [fillIndicatorsT, fillIndicators, minIndex_refines h hn]
      rw [ih h hn (fun i hi' => hi i (by simp [hi'])) (by simpa [numSome] using hB)]
    | some i =>
      have hi1 : i + 1 ≤ t.size := hi i (by simp)
      have hB' : B + 1 + (numSome rest : Int) ≤ MAXV := by
        simp [numSome] at hB ⊢; omega
      rw [fillIndicatorsT, fillIndicators, ← proj_addSplit h hi1]
      have hB1 : B + 1 ≤ MAXV := by omega
      congr 1
      exact ih (addSplit_invB (s := 1) (l := 1) (r := -1) h hi1 (by decide) (by decide)
          (by decide) hB1)
        (by simpa using hn) (fun j hj => by simpa using hi j (by simp [hj])) hB'

/-- instance for `sort_order`: the tree is built from `0..=m` (`m = input_order_len`); the
`min` fields stay below `m + 1 + (number of named levels)`, which has to be `≤ i32::MAX` -/
theorem fillIndicatorsT_sortOrder (named : List (Option Nat)) (m : Nat)
    (hi : ∀ i, some i ∈ named → i ≤ m) (hB : (m : Int) + 1 + numSome named ≤ MAXV) :
    fillIndicatorsT named (new ((List.range (m + 1)).map Int.ofNat)) =
      fillIndicators named ((List.range (m + 1)).map Int.ofNat) := by
  have hinv : InvB ((m : Int) + 1) (new ((List.range (m + 1)).map Int.ofNat)) := by
    apply new_invB
    · intro x hx
      simp at hx
      obtain ⟨a, ha, rfl⟩ := hx
      omega
    · omega
  have hn : (new ((List.range (m + 1)).map Int.ofNat)).n = m + 1 := by simp [new]
  rw [fillIndicatorsT_eq named hinv (by omega) _ hB, proj_new]
  intro i hi'
  have := hinv.n_le
  have := hi i hi'
  omega

theorem nextPow2Aux_min {n fuel p} (hp : p = 1 ∨ p / 2 < n) :
    nextPow2Aux n fuel p = 1 ∨ nextPow2Aux n fuel p / 2 < n := by
  induction fuel generalizing p with
  | zero => exact hp
  | succ fuel ih =>
    rw [nextPow2Aux]
    split
    · exact hp
    · exact ih (Or.inr (by omega))

/-- `nextPow2 n` is the *least* power of two `≥ n` (with `nextPow2_spec`) -/
theorem nextPow2_min (n : Nat) : nextPow2 n = 1 ∨ nextPow2 n / 2 < n :=
  nextPow2Aux_min (Or.inl rfl)

/-! ## Why the bound is needed: a real element equal to `i32::MAX` is mistaken for padding

No overflow is involved: element 0 becomes `i32::MAX` by a legal `+1`, and the next `add_split`
silently skips it (`MinSegTreeEntry::update` tests `self.min != i32::MAX`).  In `sort_order` all
`min` fields stay below `2 * input_order_len + 1`, so this needs more than `2^30` named levels. -/

example : projN (addSplit (addSplit (new [2147483646, 0]) 1 1 0) 1 (-1) 0) = [2147483647, 0] := by
  decide
example : OxiddModel.Reorder.addSplit (OxiddModel.Reorder.addSplit [2147483646, 0] 1 1 0) 1 (-1) 0
    = [2147483646, 0] := by decide
example : projN (addSplit (new [2147483647, 5]) 1 (-1) 0) = [2147483647, 5] := by decide

end OxiddModel.Reorder.SegTree
