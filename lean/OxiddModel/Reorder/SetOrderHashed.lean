import OxiddModel.Reorder.SwapHashedSeq
import OxiddModel.Reorder.SetOrderTail

/-!
# `set_var_order` on the hashed level tables (model and its pieces)

`setVarOrderH` mirrors `set_var_order_common` (crates/oxidd-reorder/src/set_var_order/mod.rs) like
`SetOrderStore.setVarOrderS`, over `HStore`: `sort_order`, the bubble sort over the **non-empty**
level views (`!level.is_empty()` = `len != 0` of the `RawTable`) where each swap is the general
`level_swap(u, l, to_pre[u], to_pre[l])` on the hashed tables (`levelSwapGH`, lazy level numbers),
the node-free second step that moves the level views (`step2H`: the `RawTable`s are exchanged as
wholes), and `update_levels` (`updateLevelsH`: `level.iter()` in slot order).

This file: the model, the commutation of the node-free parts with the abstraction `absS`
(`step2H_abs`, `updateLevelsH_sim` — on the nose, since `absS` lists tables in slot order), the
invariance of the lazy reorder invariant under permuting table lists (`InvL.of_mem`, `RInv.of_mem`),
and one general swap (`levelSwapGH_spec`).
-/
namespace OxiddModel.Reorder.SwapHashed
open OxiddModel.HashTbl OxiddModel.HashTbl.Tbl OxiddModel.Bdd OxiddModel.Bdd.BDD OxiddModel.Bdd.Refine
open OxiddModel.Bdd.LevelTable OxiddModel.Reorder OxiddModel.Reorder.SwapStore

/-! ## model -/

/-- the manager during `reorder` -/
structure RStateH where
  s : HStore
  toPre : List Nat
  l2v : List Nat

def RStateH.abs (r : RStateH) : RState := ⟨r.s.absS, r.toPre, r.l2v⟩

/-- the `swap` closure of `set_var_order_common` on the hashed tables -/
def levelSwapGH (hash : Hash) (al : Heap → Nat) (r : RStateH) (u l : Nat) : Except Err RStateH :=
  let up := r.toPre.getD u u
  let lp := r.toPre.getD l l
  bindE (levelSwapH hash al up lp r.s.h (r.s.tbl u) (r.s.tbl l)) fun res =>
    .ok { s := ⟨res.h, (r.s.tables.setIfInBounds u res.up).setIfInBounds l res.lo⟩
          toPre := (r.toPre.set u lp).set l up
          l2v := swapIdx r.l2v u l }

/-- the swaps of the first step -/
def swapsGH (hash : Hash) (al : Heap → Nat) (fromNe : List Nat) : RStateH → List Nat → Except Err RStateH
  | r, [] => .ok r
  | r, i :: sw =>
    bindE (levelSwapGH hash al r (fromNe.getD i 0) (fromNe.getD (i + 1) 0)) fun r' =>
      swapsGH hash al fromNe r' sw

/-- exchange two level views (`std::mem::swap` of the `RawTable`s) -/
def swapIdxA (a : Array Tbl) (i j : Nat) : Array Tbl :=
  (a.setIfInBounds i ((a[j]?).getD Tbl.new)).setIfInBounds j ((a[i]?).getD Tbl.new)

def RStateH.swapViews (r : RStateH) (i j : Nat) : RStateH :=
  { s := ⟨r.s.h, swapIdxA r.s.tables i j⟩, toPre := swapIdx r.toPre i j, l2v := swapIdx r.l2v i j }

/-- second step: move the level views to their target positions -/
def step2H : Nat → Nat → RStateH → List Nat → RStateH
  | 0, _, r, _ => r
  | fuel + 1, i, r, tgt =>
    match tgt[i]? with
    | none => r
    | some j =>
      if j = i then step2H fuel (i + 1) r tgt
      else step2H fuel i (r.swapViews i j) (swapIdx tgt i j)

/-- the loop of `update_levels_seq` -/
def updLoopH (r : RStateH) : List Nat → Heap → Except Err Heap
  | [], h => .ok h
  | p :: ps, h =>
    bindE (if p ≠ r.toPre.getD p p then updateLevelNoH h (r.s.tbl p) p else .ok h) (updLoopH r ps)

def updateLevelsH (r : RStateH) : Except Err HStore :=
  bindE (updLoopH r (List.range r.s.tables.size) r.s.h) fun h => .ok ⟨h, r.s.tables⟩

/-- `set_var_order_common(manager, order, bubble_sort, update_levels_seq)` on the hashed tables -/
def setVarOrderH (hash : Hash) (al : Heap → Nat) (s : HStore) (l2v order : List Nat) :
    Except Err (HStore × List Nat) :=
  let n := s.tables.size
  let target := sortOrder n (order.map fun v => l2v.idxOf v)
  let fromNe := (List.range n).filter fun l => (s.tbl l).len != 0
  let neTarget := fromNe.map fun l => target.getD l l
  let bs := bubbleSort neTarget.length neTarget
  if (List.range n).all (fun l => target.getD l l == l) then .ok (s, l2v)
  else
    let r0 : RStateH := ⟨s, List.range n, l2v⟩
    if !chainLe 0 neTarget then
      bindE (swapsGH hash al fromNe r0 bs.2) fun r1 =>
        let p : RStateH × List Nat × Bool :=
          if fromNe.length = n then (r1, target, true)
          else (r1, (fromNe.zip bs.1).foldl (fun t p => t.set p.1 p.2) target, false)
        let r2 := if p.2.2 then p.1 else step2H (n * n + n) 0 p.1 p.2.1
        bindE (updateLevelsH r2) fun s' => .ok (s', r2.l2v)
    else
      let r2 := step2H (n * n + n) 0 r0 target
      bindE (updateLevelsH r2) fun s' => .ok (s', r2.l2v)

/-! ## the node-free parts commute with the abstraction -/

theorem keys_getD (a : Array Tbl) (j : Nat) :
    ((a[j]?).getD Tbl.new).keys = (a.toList.map Tbl.keys).getD j [] := by
  simp only [List.getD_eq_getElem?_getD, List.getElem?_map, Array.getElem?_toList]
  cases a[j]? <;> rfl

theorem swapIdxA_abs (a : Array Tbl) (i j : Nat) :
    (swapIdxA a i j).toList.map Tbl.keys = swapIdx (a.toList.map Tbl.keys) i j := by
  unfold swapIdxA swapIdx
  simp only [Array.toList_setIfInBounds, List.map_set, keys_getD]
  rfl

theorem swapViews_abs (r : RStateH) (i j : Nat) : (r.swapViews i j).abs = r.abs.swapViews i j := by
  unfold RStateH.swapViews RStateH.abs RState.swapViews HStore.absS
  simp only [swapIdxA_abs]

theorem step2H_abs : ∀ (fuel i : Nat) (r : RStateH) (tgt : List Nat),
    (step2H fuel i r tgt).abs = step2 fuel i r.abs tgt := by
  intro fuel
  induction fuel with
  | zero => intro i r tgt; rfl
  | succ fuel ih =>
    intro i r tgt
    rw [step2_unfold]
    unfold step2H
    cases tgt[i]? with
    | none => rfl
    | some j =>
      simp only
      split
      · exact ih _ _ _
      · rw [ih, swapViews_abs]

/-- every level table is a keyed set w.r.t. the current children -/
def TInv (hash : Hash) (s : HStore) : Prop := ∀ p, KInv (KH hash s.h) (s.tbl p)

theorem tbl_setIfInBounds_closed {P : Tbl → Prop} (a : Array Tbl) (i : Nat) (v : Tbl)
    (ha : ∀ q : Nat, P ((a[q]?).getD Tbl.new)) (hv : P v) :
    ∀ p : Nat, P (((a.setIfInBounds i v)[p]?).getD Tbl.new) := by
  intro p
  rw [Array.getElem?_setIfInBounds]
  by_cases hip : i = p
  · subst hip
    by_cases hlt : i < a.size
    · simp only [hlt, if_true]; exact hv
    · have := ha i
      simp only [hlt, if_false, if_true]
      rw [Array.getElem?_eq_none (by omega)] at this
      exact this
  · simp only [hip, if_false]; exact ha p

theorem TInv.swapViews {hash : Hash} {r : RStateH} (h : TInv hash r.s) (i j : Nat) :
    TInv hash (r.swapViews i j).s := by
  intro p
  show KInv (KH hash r.s.h) (((swapIdxA r.s.tables i j)[p]?).getD Tbl.new)
  unfold swapIdxA
  exact tbl_setIfInBounds_closed (P := KInv (KH hash r.s.h)) _ j _
    (tbl_setIfInBounds_closed (P := KInv (KH hash r.s.h)) _ i _ h (h j)) (h i) p

theorem step2H_tinv {hash : Hash} : ∀ (fuel i : Nat) (r : RStateH) (tgt : List Nat),
    TInv hash r.s → TInv hash (step2H fuel i r tgt).s ∧ (step2H fuel i r tgt).s.h = r.s.h := by
  intro fuel
  induction fuel with
  | zero => intro i r tgt h; exact ⟨h, rfl⟩
  | succ fuel ih =>
    intro i r tgt h
    unfold step2H
    cases tgt[i]? with
    | none => exact ⟨h, rfl⟩
    | some j =>
      simp only
      split
      · exact ih _ _ _ h
      · have := ih i (r.swapViews i j) (swapIdx tgt i j) (h.swapViews i j)
        exact ⟨this.1, this.2⟩

/-- `update_levels` on the hashed tables is `update_levels` on the abstraction, and the tables stay
keyed sets (the children are not touched) -/
theorem updLoopH_sim {hash : Hash} (r : RStateH) (hk : ∀ p, Tbl.Inv (KH hash r.s.h).hf (r.s.tbl p))
    (ps : List Nat) (h : Heap) : updLoopH r ps h = .ok (updLoop r.abs ps h) := by
  induction ps generalizing h with
  | nil => rfl
  | cons p ps ih =>
    unfold updLoopH updLoop
    simp only [List.foldl_cons]
    have hit : (r.s.tbl p).iter = .ok (r.abs.s.table p) := by
      rw [(iter_spec (hk p)).1]
      show _ = Except.ok (r.s.absS.table p)
      rw [absS_table]
    by_cases hp : p ≠ r.toPre.getD p p
    · have hp' : p ≠ r.abs.toPre.getD p p := hp
      rw [if_pos hp, if_pos hp']
      unfold updateLevelNoH
      rw [hit]
      exact ih _
    · have hp' : ¬ p ≠ r.abs.toPre.getD p p := hp
      rw [if_neg hp, if_neg hp']
      exact ih _

theorem kidsOf_updLoop (r : RState) (ps : List Nat) (h : Heap) (k : Nat) :
    kidsOf ((updLoop r ps h).sh k) = kidsOf (h.sh k) := by
  unfold updLoop
  induction ps generalizing h with
  | nil => rfl
  | cons p ps ih =>
    simp only [List.foldl_cons]
    rw [ih]
    split
    · exact kidsOf_updateLevelNo _ _ _ _
    · rfl

theorem updateLevelsH_sim {hash : Hash} (r : RStateH) (ht : TInv hash r.s) :
    ∃ s', updateLevelsH r = .ok s' ∧ s'.absS = updateLevels r.abs ∧ TInv hash s' ∧
      s'.tables = r.s.tables := by
  unfold updateLevelsH
  rw [updLoopH_sim (hash := hash) r (fun p => (ht p).inv)]
  refine ⟨_, rfl, ?_, ?_, rfl⟩
  · rw [updateLevels_eq]
    show HStore.absS _ = _
    unfold HStore.absS
    simp only [RStateH.abs, HStore.absS, Array.length_toList, List.length_map]
  · intro p
    refine (ht p).congr rfl (fun x _ => ?_)
    rw [KH_kf, KH_kf]
    exact kidsOf_updLoop _ _ _ _

/-! ## the lazy reorder invariant only looks at the tables as sets -/

theorem InvL.of_mem {ext : Nat → Nat} {lab : List Nat} {pos : Nat → Nat} {s1 s2 : SStore}
    (hinv : InvL ext lab pos s2) (hh : s1.h = s2.h) (hlen : s1.tables.length = s2.tables.length)
    (hm : ∀ l x, x ∈ s1.table l ↔ x ∈ s2.table l) (hnd : ∀ l, (s1.table l).Nodup) :
    InvL ext lab pos s1 where
  len := by rw [hlen]; exact hinv.len
  pos_lab := hinv.pos_lab
  tbl_iff := fun p hp i => by rw [hm, hh]; exact hinv.tbl_iff p hp i
  live_lab := by rw [hh]; exact hinv.live_lab
  tbl_nodup := hnd
  ordered := by rw [hh]; exact hinv.ordered
  nored := by rw [hh]; exact hinv.nored
  uniq := by rw [hh]; exact hinv.uniq
  rc := by
    have : (fun k => live01 s1.h k + ext k) = (fun k => live01 s2.h k + ext k) := by rw [hh]
    rw [this, hh]; exact hinv.rc

theorem RInv.of_mem {ext : Nat → Nat} {fromNe l2v0 : List Nat} {pos : Nat → Nat} {r1 r2 : RState}
    (hr : RInv ext fromNe l2v0 pos r2) (hh : r1.s.h = r2.s.h)
    (hlen : r1.s.tables.length = r2.s.tables.length)
    (hm : ∀ l x, x ∈ r1.s.table l ↔ x ∈ r2.s.table l) (hnd : ∀ l, (r1.s.table l).Nodup)
    (htp : r1.toPre = r2.toPre) (hl2v : r1.l2v = r2.l2v) : RInv ext fromNe l2v0 pos r1 where
  inv := by rw [htp]; exact InvL.of_mem hr.inv hh hlen hm hnd
  empty := fun p hp => by
    have := hr.empty p hp
    apply List.eq_nil_iff_forall_not_mem.2
    intro x hx
    rw [hm, this] at hx; cases hx
  l2v_len := by rw [htp, hl2v]; exact hr.l2v_len
  l2v_eq := by rw [htp, hl2v]; exact hr.l2v_eq

end OxiddModel.Reorder.SwapHashed
