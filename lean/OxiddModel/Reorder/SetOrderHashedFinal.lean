import OxiddModel.Reorder.SetOrderHashedSwap

/-!
# `set_var_order` on the hashed level tables: assembly

`setVarOrderH_res`: under `HInv`, `setVarOrderH` stops with the capacity panic or returns a store
whose abstraction satisfies `SetOrderRes` (`SetOrderProof.lean`: reorder invariant, every level
view at its target position, every handle evaluates as before) and whose tables are keyed sets.
The two branches without `level_swap` are the list model's on the nose (`step2H_abs`,
`updateLevelsH_sim`), hence `setVarOrderS_spec` applies; the branch with swaps uses
`swapsGH_spec` for the state `r1` after the swaps and `tailNS_spec` for the rest.
-/
namespace OxiddModel.Reorder.SwapHashed
open OxiddModel.HashTbl OxiddModel.HashTbl.Tbl OxiddModel.Bdd OxiddModel.Bdd.BDD OxiddModel.Bdd.Refine
open OxiddModel.Bdd.LevelTable OxiddModel.Reorder OxiddModel.Reorder.SwapStore

variable {hash : Hash} {ext : Nat → Nat} {al : Heap → Nat}

/-- the non-empty level views: `len != 0` of the `RawTable` is "the list of its ids is not empty" -/
theorem fromNe_eq {s : HStore} (hi : HInv hash ext s) :
    ((List.range s.tables.size).filter fun l => (s.tbl l).len != 0) = fromNeOf s.absS := by
  unfold fromNeOf
  rw [absS_length]
  apply List.filter_congr
  intro l _
  rw [absS_table]
  have := (keys_nodup (hi.linv.tbl l).inv).2
  have h2 : (s.toL.tbl l) = s.tbl l := rfl
  rw [h2] at this
  rw [this]
  cases (s.tbl l).keys <;> rfl

theorem TInv.of_hinv {s : HStore} (hi : HInv hash ext s) : TInv hash s := fun p => hi.linv.tbl p

/-- the end of every branch: `update_levels`, and packaging -/
theorem finishH {s : HStore} {n : Nat} {l2v target : List Nat} {r2 : RStateH} (ht : TInv hash r2.s)
    (hspec : SetOrderRes ext s.absS n l2v target (updateLevels r2.abs, r2.abs.l2v)) :
    Good (fun res : HStore × List Nat =>
        SetOrderRes ext s.absS n l2v target (res.1.absS, res.2) ∧ TInv hash res.1)
      (bindE (updateLevelsH r2) fun s' => .ok (s', r2.l2v)) := by
  obtain ⟨s', h1, h2, h3, _⟩ := updateLevelsH_sim r2 ht
  rw [h1]
  refine Good.ok ⟨?_, h3⟩
  show SetOrderRes ext s.absS n l2v target (s'.absS, r2.l2v)
  rw [h2]; exact hspec

theorem setVarOrderH_res (hal : AllocOK al) {s : HStore} (hi : HInv hash ext s)
    (l2v order : List Nat) (hl2v : l2v.length = s.tables.size)
    (hnd : (order.map fun v => l2v.idxOf v).Nodup)
    (hlt : ∀ x ∈ order.map (fun v => l2v.idxOf v), x < s.tables.size) :
    Good (fun res : HStore × List Nat =>
        SetOrderRes ext s.absS s.tables.size l2v
          (sortOrder s.tables.size (order.map fun v => l2v.idxOf v)) (res.1.absS, res.2) ∧
        TInv hash res.1)
      (setVarOrderH hash al s l2v order) := by
  have hinv := hi.inv
  have hnn : s.absS.tables.length = s.tables.size := absS_length s
  -- the list model's guarantee, with the end factored out
  have hS := setVarOrderS_spec (al := al) (ord := id) hal orderOK_id hinv l2v order
    (by rw [hnn]; exact hl2v) hnd (by rw [hnn]; exact hlt)
  rw [setVarOrderS_eq_tail] at hS
  unfold setVarOrderT at hS
  simp only [hnn] at hS
  unfold setVarOrderH
  simp only [fromNe_eq hi]
  generalize hn : s.tables.size = n at *
  generalize htg : sortOrder n (order.map fun v => l2v.idxOf v) = target at *
  generalize hfne : fromNeOf s.absS = fromNe at *
  generalize hnt : fromNe.map (fun l => target.getD l l) = neTarget at *
  generalize hbs : bubbleSort neTarget.length neTarget = bs at *
  by_cases h1 : ((List.range n).all fun l => target.getD l l == l) = true
  · -- already sorted
    rw [if_pos h1] at hS
    rw [if_pos h1]
    exact Good.ok ⟨hS, TInv.of_hinv hi⟩
  · rw [if_neg h1] at hS
    rw [if_neg h1]
    by_cases hns : (!chainLe 0 neTarget) = true
    · -- swaps
      rw [if_pos hns]
      clear hS
      -- facts about the target order (as in `setVarOrderS_spec`)
      obtain ⟨htlen, htlt, htnd⟩ := sortOrder_perm n _ hnd hlt
      rw [htg] at htlen htlt htnd
      have hgetD : ∀ a (ha : a < n), target.getD a 0 = target[a]'(htlen ▸ ha) := fun a ha => by
        simp [List.getD_eq_getElem?_getD, List.getElem?_eq_getElem (htlen ▸ ha)]
      have htlt' : ∀ a, a < n → target.getD a 0 < n := fun a ha => by
        rw [hgetD a ha]; exact htlt _ (List.getElem_mem _)
      have htinj : ∀ a b, a < n → b < n → target.getD a 0 = target.getD b 0 → a = b := by
        intro a b ha hb e
        rw [hgetD a ha, hgetD b hb] at e
        have hpw := List.pairwise_iff_getElem.mp (List.nodup_iff_pairwise_ne.mp htnd)
        rcases Nat.lt_trichotomy a b with c | c | c
        · exact absurd e (hpw a b _ _ c)
        · exact c
        · exact absurd e.symm (hpw b a _ _ c)
      have hself : ∀ a, a < n → target.getD a a = target.getD a 0 := fun a ha =>
        getD_self_eq (htlen ▸ ha)
      have hfs : fromNe.Pairwise (· < ·) := by
        rw [← hfne]; unfold fromNeOf
        exact List.Pairwise.filter _ List.pairwise_lt_range
      have hfmem : ∀ p, p ∈ fromNe ↔ p < n ∧ s.absS.table p ≠ [] := by
        intro p; rw [← hfne]; unfold fromNeOf; rw [hnn]; simp [List.mem_filter]
      have hflt : ∀ p ∈ fromNe, p < n := fun p hp => ((hfmem p).mp hp).1
      have hr0 : RInv ext fromNe l2v id ⟨s.absS, List.range n, l2v⟩ :=
        { inv := by
            have := hinv.toL
            rw [hnn] at this; exact this
          empty := fun p hp => by
            by_cases hpn : p < n
            · apply Classical.byContradiction
              intro hc; exact hp ((hfmem p).mpr ⟨hpn, hc⟩)
            · exact table_of_ge (by rw [hnn]; omega)
          l2v_len := by simp [hl2v]
          l2v_eq := fun p hp => by
            simp only [List.length_range] at hp
            simp only [range_getD hp] }
      have hpre0 : ∀ p, p < n → (List.range n).getD p 0 < n := fun p hp => by
        rw [range_getD hp]; exact hp
      have hinj0 : ∀ p q, p < n → q < n → (List.range n).getD p 0 = (List.range n).getD q 0 → p = q :=
        fun p q hp hq e => by rwa [range_getD hp, range_getD hq] at e
      have hntlen : neTarget.length = fromNe.length := by rw [← hnt]; simp
      have hntget : ∀ k, k < fromNe.length → neTarget.getD k 0 = target.getD (fromNe.getD k 0) 0 := by
        intro k hk
        have e : fromNe.getD k 0 = fromNe[k] := by
          simp [List.getD_eq_getElem?_getD, List.getElem?_eq_getElem hk]
        rw [← hnt, e]
        simp only [List.getD_eq_getElem?_getD, List.getElem?_map, List.getElem?_eq_getElem hk,
          Option.map_some, Option.getD_some]
        have := hself fromNe[k] (hflt _ (List.getElem_mem _))
        simpa [List.getD_eq_getElem?_getD] using this
      have hntget0 : ∀ k, k < fromNe.length →
          neTarget.getD k 0 = target.getD ((List.range n).getD (fromNe.getD k 0) 0) 0 := by
        intro k hk
        rw [hntget k hk, range_getD (hflt _ (getD_mem hk))]
      -- the bubble sort
      have hsw := bubbleSort_swaps neTarget neTarget.length
      rw [hbs] at hsw
      have hsorted1 : Sorted bs.1 := hbs ▸ bubbleSort_sorted neTarget neTarget.length (Nat.le_refl _)
      have hswlt : ∀ i ∈ bs.2, i + 1 < fromNe.length :=
        fun i hi => hntlen ▸ validSwaps_lt hsw.2.1 i hi
      have hr0lt : ∀ p ∈ fromNe, p < (RState.mk s.absS (List.range n) l2v).toPre.length := by
        intro p hp; simp only [List.length_range]; exact hflt p hp
      obtain ⟨t1, t2, t3, t4⟩ := swapsG_track al id hfs (fun ℓ => target.getD ℓ 0) n bs.2 hswlt
        (r := ⟨s.absS, List.range n, l2v⟩) (seq := neTarget) hr0lt hntlen hntget0
        (by simpa using hpre0) (by simpa using hinj0)
      rw [hsw.1] at t1
      simp only [List.length_range] at t3 t4
      have hbs1len : bs.1.length = fromNe.length := by rw [← hsw.1, applySwaps_length]; exact hntlen
      -- the swaps on the hashed tables
      have hrH0 : RHInv hash ext fromNe l2v id (RStateH.mk s (List.range n) l2v) :=
        ⟨hr0, TInv.of_hinv hi⟩
      refine Good.bind (swapsGH_spec hal hfs bs.2 hswlt hrH0
        (fun p hp => by simp only [List.length_range]; exact hflt p hp)) ?_
      rintro r1 ⟨⟨pos1, hr1⟩, htp1, hsz1, hev1⟩
      have htp1' : r1.abs.toPre = (swapsG al id fromNe ⟨s.absS, List.range n, l2v⟩ bs.2).toPre := htp1
      rw [← htp1'] at t1 t2 t3 t4
      have hlen1 : r1.abs.toPre.length = n := by
        rw [htp1', swapsG_toPre_length]; simp
      have hspec := tailNS_spec (ext := ext) (s := s.absS) (n := n) (l2v := l2v) (target := target)
        (fromNe := fromNe) (bs1 := bs.1) (pos1 := pos1) (r1 := r1.abs)
        htlen htlt' htinj hfs hflt hr1.rinv hlen1 hev1 hsorted1 hbs1len t1 t2 t3 t4
      unfold tailNS at hspec
      by_cases hall : fromNe.length = n
      · simp only [hall, if_true] at hspec ⊢
        exact finishH hr1.tinv hspec
      · simp only [hall, if_false, Bool.false_eq_true] at hspec ⊢
        rw [← step2H_abs] at hspec
        exact finishH (step2H_tinv _ _ _ _ hr1.tinv).1 hspec
    · -- no swap needed: move the views
      rw [if_neg hns] at hS
      rw [if_neg hns]
      have e0 : (RStateH.mk s (List.range n) l2v).abs = ⟨s.absS, List.range n, l2v⟩ := rfl
      rw [← e0, ← step2H_abs] at hS
      exact finishH (step2H_tinv _ _ _ _ (TInv.of_hinv hi)).1 hS

end OxiddModel.Reorder.SwapHashed
