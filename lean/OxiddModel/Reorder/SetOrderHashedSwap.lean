import OxiddModel.Reorder.SetOrderHashed

/-!
# The general lazy `level_swap` of `set_var_order` on hashed tables, and the fold over it

`RHInv`: the state of the manager during `set_var_order` on the hashed tables — the lazy reorder
invariant `RInv` (`SwapStoreGen.lean`) of the abstraction, and every level table a keyed set w.r.t.
the current children (`TInv`).  `levelSwapGH_spec`: one call of the `swap` closure preserves it,
permutes `to_pre`/the level→variable map exactly like the list model, and every handle keeps its
value; `swapsGH_spec`: the whole first step.  The iteration order of each swap is the slot order
of the taken table as the earlier swaps left it.
-/
namespace OxiddModel.Reorder.SwapHashed
open OxiddModel.HashTbl OxiddModel.HashTbl.Tbl OxiddModel.Bdd OxiddModel.Bdd.BDD OxiddModel.Bdd.Refine
open OxiddModel.Bdd.LevelTable OxiddModel.Reorder OxiddModel.Reorder.SwapStore

variable {hash : Hash} {ext : Nat → Nat} {fromNe l2v0 : List Nat} {pos : Nat → Nat} {r : RStateH}
  {u l : Nat} {al : Heap → Nat}

structure RHInv (hash : Hash) (ext : Nat → Nat) (fromNe l2v0 : List Nat) (pos : Nat → Nat)
    (r : RStateH) : Prop where
  rinv : RInv ext fromNe l2v0 pos r.abs
  tinv : TInv hash r.s

theorem tbl_setG (s : HStore) (h : Heap) {u l : Nat} (_hul : u ≠ l) (hu : u < s.tables.size)
    (hl : l < s.tables.size) (tu tl : Tbl) (p : Nat) :
    (HStore.mk h ((s.tables.setIfInBounds u tu).setIfInBounds l tl)).tbl p =
      if p = l then tl else if p = u then tu else s.tbl p := by
  unfold HStore.tbl
  simp only
  rw [getD_setIfInBounds _ _ _ _ (by rw [Array.size_setIfInBounds]; exact hl)]
  split
  · rfl
  · rw [getD_setIfInBounds _ _ _ _ hu]

/-- the loop invariant at the entry of a general lazy swap (as inside `levelSwapG_res`) -/
theorem InvL.linit {ext : Nat → Nat} {lab : List Nat} {pos : Nat → Nat} {s : SStore} {u l : Nat}
    (hinv : InvL ext lab pos s) (hul : u < l) (hl : l < lab.length)
    (hgap : ∀ p, u < p → p < l → s.table p = []) :
    SwapStore.LInv (lab.getD u 0) (lab.getD l 0) (BelowL pos l) s.h.sh (s.table u) ext
      (fun k => (s.table u).count k + (othG (lab.getD u 0) (lab.getD l 0) s.h.sh k + ext k))
      ⟨s.h, s.table l, []⟩ (s.table u) := by
  have hu : u < lab.length := by omega
  have hp := hinv.pre hul hl hgap
  exact
    { j := J.init hp (hinv.tbl_iff l hl) (hinv.tbl_nodup l) (fun i => Iff.rfl) (hinv.tbl_nodup u)
      rc := by
        refine hinv.rc.congr (fun k => ?_)
        simp only [wOf, List.count_nil, hinv.count_table hl, hinv.count_table hu, othG, live01]
        have hab := hp.ab
        generalize lab.getD u 0 = a at hab ⊢
        generalize lab.getD l 0 = b at hab ⊢
        cases hs : s.h.sh k with
        | none => simp
        | some n =>
          simp only [Option.isSome_some, if_true]
          by_cases h1 : n.level = a
          · simp [h1, hab]
          · by_cases h2 : n.level = b
            · simp [h2, Ne.symm hab]
            · simp [h1, h2] }

theorem levelSwapGH_spec (hal : AllocOK al) (hr : RHInv hash ext fromNe l2v0 pos r)
    (hul : u < l) (hl : l < r.toPre.length) (hu' : u ∈ fromNe) (hl' : l ∈ fromNe)
    (hgap : ∀ p, u < p → p < l → p ∉ fromNe) :
    Good (fun r' => (∃ pos', RHInv hash ext fromNe l2v0 pos' r') ∧
        r'.toPre = (levelSwapG al id r.abs u l).toPre ∧
        r'.l2v = (levelSwapG al id r.abs u l).l2v ∧
        r'.s.tables.size = r.s.tables.size ∧
        (∀ σ k v, 0 < ext k → Ev r.s.h.sh σ (.inner k) v → Ev r'.s.h.sh σ (.inner k) v))
      (levelSwapGH hash al r u l) := by
  have hu : u < r.toPre.length := by omega
  have hinv := hr.rinv.inv
  have hlenT : r.toPre.length = r.s.tables.size := by
    have := hinv.len
    rw [show r.abs.s.tables.length = r.s.tables.size from absS_length r.s] at this
    exact this
  have hgap' : ∀ p, u < p → p < l → r.abs.s.table p = [] :=
    fun p h1 h2 => hr.rinv.empty p (hgap p h1 h2)
  obtain ⟨pos', hr', hev'⟩ := levelSwapG_spec (al := al) (ord := id) hal orderOK_id hr.rinv hul hl hu' hl' hgap
  obtain ⟨up, lo, hres⟩ := levelSwapG_res (al := al) hal (ord := id) orderOK_id hinv hul hl hgap' r.l2v
  have hp := hinv.pre hul hl hgap'
  have hku : r.abs.s.table u = (r.s.tbl u).keys := absS_table r.s u
  have hgu : r.toPre.getD u u = r.toPre.getD u 0 := getD_self_eq hu
  have hgl : r.toPre.getD l l = r.toPre.getD l 0 := getD_self_eq hl
  -- the loop invariant at entry (as in `levelSwapG_res`)
  have hinit : SwapStore.LInv (r.toPre.getD u 0) (r.toPre.getD l 0) (BelowL pos l) r.s.h.sh
      (r.abs.s.table u) ext
      (fun k => (r.abs.s.table u).count k + (othG (r.toPre.getD u 0) (r.toPre.getD l 0) r.s.h.sh k + ext k))
      ⟨r.s.h, r.abs.s.table l, []⟩ (r.abs.s.table u) := InvL.linit hinv hul hl hgap'
  rw [hku] at hinit hp
  have hold : TC hash r.s.h (r.s.tbl u) (r.s.tbl u).keys := TC.keys (hr.tinv u)
  have hlow : TC hash r.s.h (r.s.tbl l) (r.abs.s.table l) := by
    rw [show r.abs.s.table l = (r.s.tbl l).keys from absS_table r.s l]
    exact TC.keys (hr.tinv l)
  have hsw := levelSwapH_sim (hash := hash) (ext := ext) (al := al)
    (a := r.toPre.getD u 0) (b := r.toPre.getD l 0) hal (h := r.s.h)
    (told := r.s.tbl u) (tlow := r.s.tbl l) (low := r.abs.s.table l) hp
    (R' := fun k => othG (r.toPre.getD u 0) (r.toPre.getD l 0) r.s.h.sh k + ext k)
    (fun k => by omega) hinit hold hlow
  unfold levelSwapGH
  simp only [hgu, hgl]
  refine Good.bind hsw ?_
  rintro ⟨rh, ru, rl⟩ ⟨e1, e2, e3⟩
  simp only at e1 e2 e3
  -- the list model, unfolded the same way
  have hS : levelSwapG al id r.abs u l =
      (let res := levelSwapS al (r.toPre.getD u 0) (r.toPre.getD l 0) r.s.h (r.s.tbl u).keys
          (r.abs.s.table l) (r.s.tbl u).keys
       { s := ⟨res.h, (r.abs.s.tables.set u res.up).set l res.lo⟩
         toPre := (r.toPre.set u (r.toPre.getD l 0)).set l (r.toPre.getD u 0)
         l2v := swapIdx r.l2v u l }) := by
    unfold levelSwapG
    show _ = _
    simp only [RStateH.abs, hgu, hgl, id]
    rw [show r.s.absS.table u = (r.s.tbl u).keys from absS_table r.s u]
    rfl
  generalize hres' : levelSwapS al (r.toPre.getD u 0) (r.toPre.getD l 0) r.s.h (r.s.tbl u).keys
      (r.abs.s.table l) (r.s.tbl u).keys = res at e1 e2 e3 hS
  subst e1
  dsimp only
  have hSs : (levelSwapG al id r.abs u l).s =
      ⟨res.h, (r.abs.s.tables.set u res.up).set l res.lo⟩ := by rw [hS]
  have hulne : u ≠ l := by omega
  have huT : u < r.s.tables.size := hlenT ▸ hu
  have hlT : l < r.s.tables.size := hlenT ▸ hl
  have huL : u < r.abs.s.tables.length := by
    show u < r.s.absS.tables.length
    rw [absS_length]; exact huT
  have hlL : l < r.abs.s.tables.length := by
    show l < r.s.absS.tables.length
    rw [absS_length]; exact hlT
  -- the tables of the result
  have htc : ∀ p, TC hash res.h
      ((HStore.mk res.h ((r.s.tables.setIfInBounds u ru).setIfInBounds l rl)).tbl p)
      ((levelSwapG al id r.abs u l).s.table p) := by
    intro p
    rw [hSs, tbl_setG r.s _ hulne huT hlT, table_setG _ _ u l _ _ hulne huL hlL p]
    by_cases h1 : p = l
    · rw [if_pos h1, if_pos h1]; exact e3
    · rw [if_neg h1, if_neg h1]
      by_cases h2 : p = u
      · rw [if_pos h2, if_pos h2]; exact e2
      · rw [if_neg h2, if_neg h2]
        have hbase : TC hash r.s.h (r.s.tbl p) (r.abs.s.table p) := by
          rw [show r.abs.s.table p = (r.s.tbl p).keys from absS_table r.s p]
          exact TC.keys (hr.tinv p)
        refine hbase.congr_sh (fun k hk => ?_)
        by_cases hpl : p < r.toPre.length
        · obtain ⟨n, hn, hlv⟩ := (hinv.tbl_iff p hpl k).1 hk
          have hne1 : n.level ≠ r.toPre.getD u 0 := by
            rw [hlv]; intro h; exact h2 (hinv.lab_inj hpl hu h)
          have hne2 : n.level ≠ r.toPre.getD l 0 := by
            rw [hlv]; intro h; exact h1 (hinv.lab_inj hpl hl h)
          have := hres.j.frame k n hn hne1 hne2
          have hh : (levelSwapG al id ⟨r.abs.s, r.abs.toPre, r.l2v⟩ u l).s.h = res.h := by
            show (levelSwapG al id r.abs u l).s.h = _
            rw [hSs]
          rw [hh] at this
          rw [this]; exact hn.symm
        · exfalso
          have : r.abs.s.table p = [] := table_of_ge (by rw [← hinv.len]; exact Nat.le_of_not_lt hpl)
          rw [this] at hk; cases hk
  refine Good.ok ⟨⟨pos', ?_, fun p => (htc p).k⟩, by rw [hS], by rw [hS], by simp, ?_⟩
  · -- the lazy invariant of the abstraction
    refine RInv.of_mem hr' ?_ ?_ (fun p x => ?_) (fun p => ?_) (by rw [hS]; rfl) (by rw [hS]; rfl)
    · show res.h = (levelSwapG al id r.abs u l).s.h
      rw [hSs]
    · show (HStore.absS _).tables.length = _
      rw [absS_length, hSs]
      simp only [Array.size_setIfInBounds, List.length_set]
      exact (absS_length r.s).symm
    · show x ∈ (HStore.absS _).table p ↔ _
      rw [absS_table, mem_keys_iff]; exact (htc p).m x
    · show ((HStore.absS _).table p).Nodup
      rw [absS_table]; exact (keys_nodup (htc p).k.inv).1
  · intro σ k v hk hv
    have := hev' σ (.inner k) v hv (fun k' m hk' _ _ => by cases hk'; exact hk)
    have hh : (levelSwapG al id r.abs u l).s.h = res.h := by rw [hSs]
    rw [hh] at this
    exact this

/-- **the first step of `set_var_order` on the hashed tables** -/
theorem swapsGH_spec (hal : AllocOK al) (hs : fromNe.Pairwise (· < ·))
    (sw : List Nat) (hsw : ∀ i ∈ sw, i + 1 < fromNe.length) {r : RStateH} {pos : Nat → Nat}
    (hr : RHInv hash ext fromNe l2v0 pos r) (hlt : ∀ p ∈ fromNe, p < r.toPre.length) :
    Good (fun r' => (∃ pos', RHInv hash ext fromNe l2v0 pos' r') ∧
        r'.toPre = (swapsG al id fromNe r.abs sw).toPre ∧
        r'.s.tables.size = r.s.tables.size ∧
        (∀ σ k v, 0 < ext k → Ev r.s.h.sh σ (.inner k) v → Ev r'.s.h.sh σ (.inner k) v))
      (swapsGH hash al fromNe r sw) := by
  induction sw generalizing r pos with
  | nil => exact Good.ok ⟨⟨pos, hr⟩, rfl, rfl, fun _ _ _ _ h => h⟩
  | cons i rest ih =>
    unfold swapsGH
    obtain ⟨h1, h2, h3, h4⟩ := sorted_consecutive hs (hsw i (by simp))
    refine Good.bind (levelSwapGH_spec hal hr h1 (hlt _ h3) h2 h3 h4) ?_
    rintro r1 ⟨⟨pos1, hr1⟩, htp1, _, hsz1, hev1⟩
    have hlen : r1.toPre.length = r.toPre.length := by
      rw [htp1]; exact levelSwapG_toPre_length al id r.abs _ _
    refine (ih (fun j hj => hsw j (by simp [hj])) hr1 (fun p hp => by rw [hlen]; exact hlt p hp)).mono ?_
    rintro r2 ⟨hr2, htp2, hsz2, hev2⟩
    refine ⟨hr2, ?_, hsz2.trans hsz1, fun σ k v hk hv => hev2 σ k v hk (hev1 σ k v hk hv)⟩
    rw [htp2]
    -- `to_pre` evolves independently of the stores
    have hind : ∀ (sw : List Nat) (ra rb : RState), ra.toPre = rb.toPre →
        (swapsG al id fromNe ra sw).toPre = (swapsG al id fromNe rb sw).toPre := by
      intro sw
      induction sw with
      | nil => intro ra rb h; exact h
      | cons j sw ih' =>
        intro ra rb h
        unfold swapsG
        simp only [List.foldl_cons]
        exact ih' _ _ (by simp only [levelSwapG, h])
    show (swapsG al id fromNe r1.abs rest).toPre = (swapsG al id fromNe r.abs (i :: rest)).toPre
    have : swapsG al id fromNe r.abs (i :: rest) =
        swapsG al id fromNe (levelSwapG al id r.abs (fromNe.getD i 0) (fromNe.getD (i + 1) 0)) rest := rfl
    rw [this]
    exact hind rest _ _ htp1

end OxiddModel.Reorder.SwapHashed
