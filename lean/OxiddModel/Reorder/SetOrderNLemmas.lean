import OxiddModel.Reorder.Lemmas
import OxiddModel.Reorder.Properties
import OxiddModel.Reorder.SwapStoreNGen
import OxiddModel.Reorder.SwapStoreNCheck

/-!
# `set_var_order` on the store of `k`-ary nodes: lemmas about the node-free parts

`k`-ary port of `SetOrderLemmas.lean` (nodes `⟨level, ch⟩` with a list of `k` children, terminal
type `T`). For `setVarOrderS` (`SwapStoreN.lean`) = `set_var_order_common`: exchanging two positions of a
list, the second step (the level views are moved to their target positions without touching a
node: `step2_spec`), the invariant without the order of the positions (`InvW`), `update_levels`
(`updateLevels_sh`), evaluation under relabelling (`Ev.relabel`), how `to_pre` follows the bubble
sort of the first step (`swapsG_track`), and a few list facts. The assembly is in
`SetOrderNProof.lean`.
-/
namespace OxiddModel.Reorder.SwapStoreN

variable {T : Type}

/-! ## exchanging two positions of a list -/

theorem swapIdx_length {α : Type} [Inhabited α] (l : List α) (i j : Nat) :
    (swapIdx l i j).length = l.length := by simp [swapIdx]

theorem swapIdx_getD {α : Type} [Inhabited α] (l : List α) {i j : Nat} (hi : i < l.length)
    (hj : j < l.length) (p : Nat) :
    (swapIdx l i j).getD p default =
      if p = j then l.getD i default else if p = i then l.getD j default else l.getD p default := by
  unfold swapIdx
  simp only [List.getD_eq_getElem?_getD, List.getElem?_set, List.length_set]
  by_cases h1 : p = j
  · subst h1; simp [hj]
  · by_cases h2 : p = i
    · subst h2
      have : ¬ (j = p) := fun h => h1 h.symm
      simp [this, hi, h1]
    · have h3 : ¬ (j = p) := fun h => h1 h.symm
      have h4 : ¬ (i = p) := fun h => h2 h.symm
      simp [h1, h2, h3, h4]

theorem swapIdx_getD_nat (l : List Nat) {i j : Nat} (hi : i < l.length) (hj : j < l.length)
    (p : Nat) : (swapIdx l i j).getD p 0 =
      if p = j then l.getD i 0 else if p = i then l.getD j 0 else l.getD p 0 :=
  swapIdx_getD l hi hj p

/-- the views at positions `i` and `j` exchanged (tables, `to_pre`, level→variable map) -/
def RState.swapViews (r : RState T) (i j : Nat) : RState T :=
  { s := ⟨r.s.h, swapIdx r.s.tables i j⟩, toPre := swapIdx r.toPre i j, l2v := swapIdx r.l2v i j }

theorem swapViews_table (r : RState T) {i j : Nat} (hi : i < r.s.tables.length)
    (hj : j < r.s.tables.length) (p : Nat) :
    (r.swapViews i j).s.table p =
      if p = j then r.s.table i else if p = i then r.s.table j else r.s.table p := by
  unfold RState.swapViews SStore.table
  exact swapIdx_getD r.s.tables hi hj p

/-! ## sums over `range n` -/

def sumTo (F : Nat → Nat) (n : Nat) : Nat := ((List.range n).map F).sum

theorem sumTo_succ (F : Nat → Nat) (n : Nat) : sumTo F (n + 1) = sumTo F n + F n := by
  simp [sumTo, List.range_succ]

theorem sumTo_congr {F G : Nat → Nat} {n : Nat} (h : ∀ p, p < n → G p = F p) :
    sumTo G n = sumTo F n := by
  induction n with
  | zero => rfl
  | succ n ih =>
    rw [sumTo_succ, sumTo_succ, ih (fun p hp => h p (by omega)), h n (by omega)]

theorem sumTo_one {F G : Nat → Nat} {n i : Nat} (hi : i < n) (h : ∀ p, p ≠ i → G p = F p) :
    sumTo G n + F i = sumTo F n + G i := by
  induction n with
  | zero => omega
  | succ n ih =>
    rw [sumTo_succ, sumTo_succ]
    by_cases hin : i = n
    · subst hin
      rw [sumTo_congr (F := F) (G := G) (fun p hp => h p (by omega))]; omega
    · have := ih (by omega)
      rw [h n (fun h' => hin h'.symm)]; omega

theorem sumTo_two {F G : Nat → Nat} {n i j : Nat} (hi : i < n) (hj : j < n) (hij : i ≠ j)
    (h : ∀ p, p ≠ i → p ≠ j → G p = F p) :
    sumTo G n + F i + F j = sumTo F n + G i + G j := by
  -- go through the function that agrees with `G` except at `j`
  let H : Nat → Nat := fun p => if p = j then F j else G p
  have h1 : sumTo H n + F i = sumTo F n + H i := by
    apply sumTo_one hi
    intro p hp
    by_cases hpj : p = j
    · simp [H, hpj]
    · simp only [H, hpj, if_false]; exact h p hp hpj
  have h2 : sumTo G n + H j = sumTo H n + G j := by
    apply sumTo_one hj
    intro p hp; simp [H, hp]
  have e1 : H i = G i := by simp [H, hij]
  have e2 : H j = F j := by simp [H]
  omega

theorem sumTo_zero {F : Nat → Nat} {n : Nat} (h : sumTo F n = 0) : ∀ p, p < n → F p = 0 := by
  induction n with
  | zero => intro p hp; omega
  | succ n ih =>
    rw [sumTo_succ] at h
    intro p hp
    by_cases hpn : p = n
    · subst hpn; omega
    · exact ih (by omega) p (by omega)


/-! ## the second step of `set_var_order`: moving the level views to their target positions -/

/-- the transposition of `i` and `j` -/
def tr (i j p : Nat) : Nat := if p = j then i else if p = i then j else p

theorem tr_tr (i j p : Nat) : tr i j (tr i j p) = p := by
  unfold tr; split <;> split <;> (try split) <;> (try split) <;> omega

theorem tr_lt {i j p n : Nat} (hi : i < n) (hj : j < n) (hp : p < n) : tr i j p < n := by
  unfold tr; split <;> (try split) <;> omega

theorem swapIdx_getD_tr (l : List Nat) {i j : Nat} (hi : i < l.length) (hj : j < l.length)
    (p : Nat) : (swapIdx l i j).getD p 0 = l.getD (tr i j p) 0 := by
  rw [swapIdx_getD_nat l hi hj]; unfold tr
  split
  · rfl
  · split <;> rfl

/-- number of positions below `n` that are not yet at their target -/
def nonfix (tgt : List Nat) (n : Nat) : Nat := sumTo (fun p => if tgt.getD p 0 = p then 0 else 1) n

theorem step2_unfold (fuel i : Nat) (r : RState T) (tgt : List Nat) :
    step2 (fuel + 1) i r tgt =
      match tgt[i]? with
      | none => r
      | some j => if j = i then step2 fuel (i + 1) r tgt
        else step2 fuel i (r.swapViews i j) (swapIdx tgt i j) := rfl

/-- `step2` as an induction principle: a property of (state, target list) that is preserved by
exchanging two views together with their targets holds at the end, where every view is at its
target position -/
theorem step2_spec {n : Nat} (Φ : RState T → List Nat → Prop)
    (hΦ : ∀ r tgt i j, Φ r tgt → i < n → j < n → Φ (r.swapViews i j) (swapIdx tgt i j)) :
    ∀ fuel i r tgt, tgt.length = n → (∀ p, p < n → tgt.getD p 0 < n) →
      (∀ p q, p < n → q < n → tgt.getD p 0 = tgt.getD q 0 → p = q) →
      (∀ p, p < i → tgt.getD p 0 = p) → i ≤ n → (n - i) + nonfix tgt n ≤ fuel → Φ r tgt →
      ∃ tgt', Φ (step2 fuel i r tgt) tgt' ∧ tgt'.length = n ∧ ∀ p, p < n → tgt'.getD p 0 = p := by
  intro fuel
  induction fuel with
  | zero =>
    intro i r tgt hlen hlt hinj hfix hin hm hphi
    refine ⟨tgt, hphi, hlen, fun p hp => ?_⟩
    have hz : nonfix tgt n = 0 := by omega
    have : (if tgt.getD p 0 = p then 0 else 1) = 0 := sumTo_zero hz p hp
    split at this
    · assumption
    · cases this
  | succ fuel ih =>
    intro i r tgt hlen hlt hinj hfix hin hm hphi
    rw [step2_unfold]
    by_cases hi : i < n
    · have hget : tgt[i]? = some (tgt.getD i 0) := by
        rw [List.getD_eq_getElem?_getD, List.getElem?_eq_getElem (hlen ▸ hi)]; rfl
      rw [hget]; simp only
      by_cases hji : tgt.getD i 0 = i
      · rw [if_pos hji]
        exact ih (i + 1) r tgt hlen hlt hinj
          (fun p hp => by by_cases h : p = i; exact h ▸ hji; exact hfix p (by omega))
          (by omega) (by omega) hphi
      · rw [if_neg hji]
        generalize hj : tgt.getD i 0 = j at hji
        have hjn : j < n := hj ▸ hlt i hi
        have hgt : ∀ p, (swapIdx tgt i j).getD p 0 =
            if p = j then tgt.getD i 0 else if p = i then tgt.getD j 0 else tgt.getD p 0 :=
          fun p => swapIdx_getD_nat tgt (hlen ▸ hi) (hlen ▸ hjn) p
        have hij : i < j := by
          apply Classical.byContradiction
          intro hc
          have : j < i := by omega
          have := hinj j i hjn hi ((hfix j this).trans hj.symm)
          omega
        -- `j` was not at its target, now it is
        have hjnf : tgt.getD j 0 ≠ j := fun h => by
          have := hinj j i hjn hi (h.trans hj.symm); omega
        have hmeasure : nonfix (swapIdx tgt i j) n + 1 ≤ nonfix tgt n := by
          have hs := sumTo_two (F := fun p => if tgt.getD p 0 = p then 0 else 1)
            (G := fun p => if (swapIdx tgt i j).getD p 0 = p then 0 else 1) hi hjn (by omega)
            (fun p h1 h2 => by simp only [hgt, h1, h2, if_false])
          have fi : (if tgt.getD i 0 = i then 0 else 1) = 1 := by rw [hj, if_neg hji]
          have fj : (if tgt.getD j 0 = j then 0 else 1) = 1 := by rw [if_neg hjnf]
          have gj : (if (swapIdx tgt i j).getD j 0 = j then 0 else 1) = 0 := by
            rw [hgt, if_pos rfl, hj, if_pos rfl]
          have gi : (if (swapIdx tgt i j).getD i 0 = i then 0 else 1) ≤ 1 := by split <;> omega
          simp only [fi, fj, gj] at hs
          unfold nonfix
          omega
        refine ih i (r.swapViews i j) (swapIdx tgt i j) (by rw [swapIdx_length, hlen]) ?_ ?_ ?_ hin
          (by omega) (hΦ r tgt i j hphi hi hjn)
        · intro p hp
          rw [hgt]
          split
          · exact hlt i hi
          · split
            · exact hlt j hjn
            · exact hlt p hp
        · intro p q hp hq hpq
          rw [swapIdx_getD_tr tgt (hlen ▸ hi) (hlen ▸ hjn), swapIdx_getD_tr tgt (hlen ▸ hi) (hlen ▸ hjn)] at hpq
          have := hinj _ _ (tr_lt hi hjn hp) (tr_lt hi hjn hq) hpq
          rw [← tr_tr i j p, this, tr_tr]
        · intro p hp
          rw [hgt]
          have h1 : p ≠ j := by omega
          have h2 : p ≠ i := by omega
          simp only [h1, h2, if_false]
          exact hfix p hp
    · have hn : tgt[i]? = none := List.getElem?_eq_none (by omega)
      rw [hn]; simp only
      have hin' : i = n := by omega
      exact ⟨tgt, hphi, hlen, fun p hp => hfix p (by omega)⟩


/-! ## the invariant without the order of the positions -/

/-- `InvL` minus "ordered": what survives while the level views are being moved around -/
structure InvW (k : Nat) (ext : Nat → Nat) (lab : List Nat) (s : SStore T) : Prop where
  kpos : 0 < k
  arity : ∀ i n, s.h.sh i = some n → n.ch.length = k
  len : lab.length = s.tables.length
  inj : ∀ p q, p < lab.length → q < lab.length → lab.getD p 0 = lab.getD q 0 → p = q
  tbl_iff : ∀ p, p < lab.length → ∀ i,
    i ∈ s.table p ↔ ∃ n, s.h.sh i = some n ∧ n.level = lab.getD p 0
  live_lab : ∀ i n, s.h.sh i = some n → ∃ p, p < lab.length ∧ lab.getD p 0 = n.level
  tbl_nodup : ∀ p, (s.table p).Nodup
  closed : ∀ i n, s.h.sh i = some n → ∀ j, .inner j ∈ n.ch → s.h.sh j ≠ none
  nored : ∀ i n, s.h.sh i = some n → ¬ Red n.ch
  uniq : ∀ i j n, s.h.sh i = some n → s.h.sh j = some n → i = j
  rc : RCx (fun i => live01 s.h i + ext i) s.h

theorem InvL.toW {k : Nat} {ext : Nat → Nat} {lab : List Nat} {pos : Nat → Nat} {s : SStore T}
    (h : InvL k ext lab pos s) : InvW k ext lab s where
  kpos := h.kpos
  arity := h.arity
  len := h.len
  inj := fun p q hp hq e => h.lab_inj hp hq e
  tbl_iff := h.tbl_iff
  live_lab := fun i n hn => ⟨pos n.level, (h.live_lab i n hn).1, (h.live_lab i n hn).2⟩
  tbl_nodup := h.tbl_nodup
  closed := fun i n hn k hc => by
    obtain ⟨m, hm, _⟩ := h.ordered i n hn k hc
    rw [hm]; simp
  nored := h.nored
  uniq := h.uniq
  rc := h.rc

theorem InvW.swapViews {k : Nat} {ext : Nat → Nat} {r : RState T} (h : InvW k ext r.toPre r.s)
    {i j : Nat} (hi : i < r.toPre.length) (hj : j < r.toPre.length) :
    InvW k ext (r.swapViews i j).toPre (r.swapViews i j).s := by
  have hti : i < r.s.tables.length := h.len ▸ hi
  have htj : j < r.s.tables.length := h.len ▸ hj
  have hlab : ∀ p, (r.swapViews i j).toPre.getD p 0 = r.toPre.getD (tr i j p) 0 :=
    fun p => swapIdx_getD_tr r.toPre hi hj p
  have htab : ∀ p, (r.swapViews i j).s.table p = r.s.table (tr i j p) := by
    intro p
    rw [swapViews_table r hti htj]; unfold tr
    split
    · rfl
    · split <;> rfl
  have hlen : (r.swapViews i j).toPre.length = r.toPre.length := swapIdx_length _ _ _
  have hsh : (r.swapViews i j).s.h = r.s.h := rfl
  refine { kpos := h.kpos, arity := h.arity, len := ?_, inj := ?_, tbl_iff := ?_, live_lab := ?_, tbl_nodup := ?_, closed := ?_,
           nored := ?_, uniq := ?_, rc := ?_ }
  · show (swapIdx r.toPre i j).length = (swapIdx r.s.tables i j).length
    rw [swapIdx_length, swapIdx_length]; exact h.len
  · intro p q hp hq e
    rw [hlen] at hp hq
    rw [hlab, hlab] at e
    have := h.inj _ _ (tr_lt hi hj hp) (tr_lt hi hj hq) e
    rw [← tr_tr i j p, this, tr_tr]
  · intro p hp k
    rw [hlen] at hp
    rw [htab, hlab, hsh]
    exact h.tbl_iff _ (tr_lt hi hj hp) k
  · intro k n hn
    rw [hsh] at hn
    obtain ⟨p, hp, e⟩ := h.live_lab k n hn
    refine ⟨tr i j p, by rw [hlen]; exact tr_lt hi hj hp, ?_⟩
    rw [hlab, tr_tr]; exact e
  · intro p; rw [htab]; exact h.tbl_nodup _
  · exact h.closed
  · exact h.nored
  · exact h.uniq
  · exact h.rc

/-! ## `update_level_no` (ported from `SwapStoreStep.lean` / `SwapStoreFinal.lean`) -/

/-- relabel a shape -/
def relabel (l : Nat) (o : Option (Node T)) : Option (Node T) := o.map fun n => ⟨l, n.ch⟩

theorem relabel_relabel (l : Nat) (o : Option (Node T)) : relabel l (relabel l o) = relabel l o := by
  cases o <;> rfl

theorem sh_setLevel' (h : Heap T) (i l j : Nat) :
    (setLevel h i l).sh j = if j = i then relabel l (h.sh i) else h.sh j := by
  unfold setLevel
  cases hm : h.get? i with
  | none =>
    simp only
    split
    · rename_i hk; subst hk; rw [sh_eq_none.mpr hm]; rfl
    · rfl
  | some m =>
    simp only [sh_put]
    split
    · simp [Heap.sh, hm, relabel, SNode.toNode]
    · rfl

theorem sh_updateLevelNo (h : Heap T) (tbl : List Nat) (l j : Nat) :
    (updateLevelNo h tbl l).sh j = if j ∈ tbl then relabel l (h.sh j) else h.sh j := by
  unfold updateLevelNo
  induction tbl generalizing h with
  | nil => simp
  | cons i rest ih =>
    simp only [List.foldl_cons]
    rw [ih, sh_setLevel']
    by_cases hk : j = i
    · subst hk
      simp only [if_true, List.mem_cons, true_or]
      split
      · exact relabel_relabel _ _
      · rfl
    · simp [hk]

theorem RCx_updateLevelNo {w : Nat → Nat} {h : Heap T} (hr : RCx w h) (tbl : List Nat) (l : Nat) :
    RCx w (updateLevelNo h tbl l) := by
  unfold updateLevelNo
  induction tbl generalizing h with
  | nil => exact hr
  | cons i rest ih => exact ih (RCx_setLevel i l hr)

/-! ## `update_levels` -/

theorem sh_updateLevelNo_of_mem {h : Heap T} {tbl : List Nat} {l k : Nat} (hk : k ∈ tbl) :
    (updateLevelNo h tbl l).sh k = relabel l (h.sh k) := by
  rw [sh_updateLevelNo, if_pos hk]

theorem sh_updateLevelNo_of_not_mem {h : Heap T} {tbl : List Nat} {l k : Nat} (hk : k ∉ tbl) :
    (updateLevelNo h tbl l).sh k = h.sh k := by
  rw [sh_updateLevelNo, if_neg hk]

/-- the loop of `update_levels_seq` over a list of positions -/
def updLoop (r : RState T) (ps : List Nat) (h : Heap T) : Heap T :=
  ps.foldl (fun h p => if p ≠ r.toPre.getD p p then updateLevelNo h (r.s.table p) p else h) h

theorem updateLevels_eq (r : RState T) :
    updateLevels r = ⟨updLoop r (List.range r.s.tables.length) r.s.h, r.s.tables⟩ := rfl

/-- after `update_levels` every live node carries the position of its level view -/
theorem updLoop_sh {k : Nat} {ext : Nat → Nat} {r : RState T} (hw : InvW k ext r.toPre r.s)
    (ps : List Nat)
    (hps : ∀ p ∈ ps, p < r.toPre.length) {i p : Nat} {n : Node T}
    (hn : r.s.h.sh i = some n) (hp : p < r.toPre.length) (hlp : r.toPre.getD p 0 = n.level)
    {h : Heap T} {lv : Nat} (hh : h.sh i = some ⟨lv, n.ch⟩) (hlv : lv = n.level ∨ lv = p) :
    ∃ lv', (updLoop r ps h).sh i = some ⟨lv', n.ch⟩ ∧ (lv' = n.level ∨ lv' = p) ∧
      ((p ∈ ps ∨ lv = p) → lv' = p) := by
  unfold updLoop
  induction ps generalizing h lv with
  | nil => exact ⟨lv, hh, hlv, fun h' => by rcases h' with h' | h'; simp at h'; exact h'⟩
  | cons q qs ih =>
    simp only [List.foldl_cons]
    have hq : q < r.toPre.length := hps q (by simp)
    have hmem : i ∈ r.s.table q ↔ q = p := by
      rw [hw.tbl_iff q hq]
      constructor
      · rintro ⟨n', hn', hl⟩
        rw [hn] at hn'; cases hn'
        exact hw.inj q p hq hp (hl.symm.trans hlp.symm)
      · rintro rfl; exact ⟨n, hn, hlp.symm⟩
    have hqq : r.toPre.getD q q = r.toPre.getD q 0 := getD_self_eq hq
    by_cases hqp : q = p
    · subst hqp
      have hres : (if q ≠ r.toPre.getD q q then updateLevelNo h (r.s.table q) q else h).sh i =
          some ⟨q, n.ch⟩ := by
        by_cases hc : q ≠ r.toPre.getD q q
        · rw [if_pos hc, sh_updateLevelNo_of_mem (hmem.mpr rfl), hh]; rfl
        · rw [if_neg hc]
          have : n.level = q := by
            rw [← hlp, ← hqq]; exact (Classical.not_not.mp hc).symm
          rw [hh]
          rcases hlv with hlv | hlv
          · rw [hlv, this]
          · rw [hlv]
      obtain ⟨lv', h1, h2, h3⟩ := ih (fun p' hp' => hps p' (by simp [hp'])) hres (Or.inr rfl)
      exact ⟨lv', h1, h2, fun _ => h3 (Or.inr rfl)⟩
    · have hni : i ∉ r.s.table q := fun h' => hqp (hmem.mp h')
      have hres : (if q ≠ r.toPre.getD q q then updateLevelNo h (r.s.table q) q else h).sh i =
          some ⟨lv, n.ch⟩ := by
        split
        · rw [sh_updateLevelNo_of_not_mem hni]; exact hh
        · exact hh
      obtain ⟨lv', h1, h2, h3⟩ := ih (fun p' hp' => hps p' (by simp [hp'])) hres hlv
      refine ⟨lv', h1, h2, fun h' => h3 ?_⟩
      rcases h' with h' | h'
      · rcases List.mem_cons.mp h' with h' | h'
        · exact absurd h'.symm hqp
        · exact Or.inl h'
      · exact Or.inr h'

theorem updLoop_sh_none {r : RState T} (ps : List Nat) {h : Heap T} {i : Nat} (hn : h.sh i = none) :
    (updLoop r ps h).sh i = none := by
  unfold updLoop
  induction ps generalizing h with
  | nil => exact hn
  | cons q qs ih =>
    simp only [List.foldl_cons]
    apply ih
    split
    · rw [sh_updateLevelNo]; split <;> rw [hn] <;> rfl
    · exact hn

theorem RCx_updLoop {w : Nat → Nat} {r : RState T} (ps : List Nat) {h : Heap T} (hr : RCx w h) :
    RCx w (updLoop r ps h) := by
  unfold updLoop
  induction ps generalizing h with
  | nil => exact hr
  | cons q qs ih =>
    simp only [List.foldl_cons]
    apply ih
    split
    · exact RCx_updateLevelNo hr _ _
    · exact hr

/-- the shape of every slot after `update_levels` -/
theorem updateLevels_sh {k : Nat} {ext : Nat → Nat} {r : RState T} (hw : InvW k ext r.toPre r.s)
    {i p : Nat} {n : Node T} (hn : r.s.h.sh i = some n) (hp : p < r.toPre.length)
    (hlp : r.toPre.getD p 0 = n.level) : (updateLevels r).h.sh i = some ⟨p, n.ch⟩ := by
  rw [updateLevels_eq]
  obtain ⟨lv', h1, _, h3⟩ := updLoop_sh hw (List.range r.s.tables.length)
    (fun q hq => by rw [hw.len]; exact List.mem_range.mp hq) hn hp hlp
    (h := r.s.h) (lv := n.level) (by rw [hn]) (Or.inl rfl)
  rw [h1, h3 (Or.inl (List.mem_range.mpr (hw.len ▸ hp)))]

theorem updateLevels_sh_none {r : RState T} {i : Nat} (hn : r.s.h.sh i = none) :
    (updateLevels r).h.sh i = none := by
  rw [updateLevels_eq]; exact updLoop_sh_none _ hn

/-! ## evaluation under relabelling -/

theorem Ev.relabel {sh sh' : Nat → Option (Node T)} {σ σ' : Nat → Nat} (f : Nat → Nat)
    (hsh : ∀ i n, sh i = some n → sh' i = some ⟨f n.level, n.ch⟩ ∧ σ' (f n.level) = σ n.level)
    {x : Edge T} {v : T} (hv : Ev sh σ x v) : Ev sh' σ' x v := by
  induction hv with
  | term => exact .term
  | @inner i ℓ cs c v hi hc _ ih =>
    obtain ⟨h1, h2⟩ := hsh i _ hi
    simp only at h1 h2
    exact Ev.inner h1 (by rw [h2]; exact hc) ih



/-! ## the first step: `to_pre` follows the bubble sort -/

theorem sorted_getD_lt {L : List Nat} (hs : L.Pairwise (· < ·)) {k1 k2 : Nat} (h12 : k1 < k2)
    (h2 : k2 < L.length) : L.getD k1 0 < L.getD k2 0 := by
  have h1 : k1 < L.length := by omega
  have e1 : L.getD k1 0 = L[k1] := by simp [List.getD_eq_getElem?_getD, List.getElem?_eq_getElem h1]
  have e2 : L.getD k2 0 = L[k2] := by simp [List.getD_eq_getElem?_getD, List.getElem?_eq_getElem h2]
  rw [e1, e2]
  exact List.pairwise_iff_getElem.mp hs k1 k2 h1 h2 h12

theorem sorted_getD_inj {L : List Nat} (hs : L.Pairwise (· < ·)) {k1 k2 : Nat}
    (h1 : k1 < L.length) (h2 : k2 < L.length) (e : L.getD k1 0 = L.getD k2 0) : k1 = k2 := by
  rcases Nat.lt_trichotomy k1 k2 with h | h | h
  · have := sorted_getD_lt hs h h2; omega
  · exact h
  · have := sorted_getD_lt hs h h1; omega

theorem getD_mem {L : List Nat} {k : Nat} (hk : k < L.length) : L.getD k 0 ∈ L := by
  have : L.getD k 0 = L[k] := by simp [List.getD_eq_getElem?_getD, List.getElem?_eq_getElem hk]
  rw [this]; exact List.getElem_mem _

theorem swapAdj_getD (i : Nat) (l : List Nat) (h : i + 1 < l.length) (k : Nat) :
    (swapAdj i l).getD k 0 =
      if k = i then l.getD (i + 1) 0 else if k = i + 1 then l.getD i 0 else l.getD k 0 := by
  simp only [List.getD_eq_getElem?_getD, getElem?_swapAdj i l h k]
  split
  · rfl
  · split <;> rfl

theorem tr_left (i j : Nat) : tr i j i = j := by
  unfold tr; split <;> simp_all
theorem tr_right (i j : Nat) : tr i j j = i := by
  unfold tr; simp
theorem tr_other {i j p : Nat} (h1 : p ≠ i) (h2 : p ≠ j) : tr i j p = p := by
  unfold tr; simp [h1, h2]

section
variable [DecidableEq T]

theorem swapsG_toPre_length (k : Nat) (al : Heap T → Nat) (ord : List Nat → List Nat)
    (fromNe : List Nat) (r : RState T) (sw : List Nat) :
    (swapsG k al ord fromNe r sw).toPre.length = r.toPre.length := by
  unfold swapsG
  induction sw generalizing r with
  | nil => rfl
  | cons i rest ih => simp only [List.foldl_cons]; rw [ih, levelSwapG_toPre_length]

/-- replaying the swaps of the bubble sort on the manager: the sequence being sorted stays the
image of `to_pre` at the non-empty positions under any function `g` of the labels -/
theorem swapsG_track (k : Nat) (al : Heap T → Nat) (ord : List Nat → List Nat) {fromNe : List Nat}
    (hs : fromNe.Pairwise (· < ·)) (g : Nat → Nat) (N : Nat) (sw : List Nat)
    (hsw : ∀ i ∈ sw, i + 1 < fromNe.length) {r : RState T} {seq : List Nat}
    (hlt : ∀ p ∈ fromNe, p < r.toPre.length) (hlen : seq.length = fromNe.length)
    (htr : ∀ c, c < fromNe.length → seq.getD c 0 = g (r.toPre.getD (fromNe.getD c 0) 0))
    (hN : ∀ p, p < r.toPre.length → r.toPre.getD p 0 < N)
    (hinj : ∀ p q, p < r.toPre.length → q < r.toPre.length →
      r.toPre.getD p 0 = r.toPre.getD q 0 → p = q) :
    (∀ c, c < fromNe.length → (applySwaps sw seq).getD c 0 =
      g ((swapsG k al ord fromNe r sw).toPre.getD (fromNe.getD c 0) 0)) ∧
    (∀ p, p ∉ fromNe → (swapsG k al ord fromNe r sw).toPre.getD p 0 = r.toPre.getD p 0) ∧
    (∀ p, p < r.toPre.length → (swapsG k al ord fromNe r sw).toPre.getD p 0 < N) ∧
    (∀ p q, p < r.toPre.length → q < r.toPre.length →
      (swapsG k al ord fromNe r sw).toPre.getD p 0 = (swapsG k al ord fromNe r sw).toPre.getD q 0 → p = q) := by
  induction sw generalizing r seq with
  | nil => exact ⟨htr, fun _ _ => rfl, hN, hinj⟩
  | cons i rest ih =>
    have hi : i + 1 < fromNe.length := hsw i (by simp)
    have hu := hlt _ (getD_mem (show i < fromNe.length by omega))
    have hl := hlt _ (getD_mem hi)
    have hul : fromNe.getD i 0 < fromNe.getD (i + 1) 0 := sorted_getD_lt hs (by omega) hi
    have hlen1 := levelSwapG_toPre_length k al ord r (fromNe.getD i 0) (fromNe.getD (i + 1) 0)
    have htp : ∀ p, (levelSwapG k al ord r (fromNe.getD i 0) (fromNe.getD (i + 1) 0)).toPre.getD p 0 =
        r.toPre.getD (tr (fromNe.getD i 0) (fromNe.getD (i + 1) 0) p) 0 := by
      intro p
      rw [levelSwapG_toPre k al ord r hu hl]
      exact swapIdx_getD_tr r.toPre hu hl p
    have := ih (r := levelSwapG k al ord r (fromNe.getD i 0) (fromNe.getD (i + 1) 0))
      (seq := swapAdj i seq) (fun j hj => hsw j (by simp [hj]))
      (fun p hp => by rw [hlen1]; exact hlt p hp) (by rw [swapAdj_length]; exact hlen)
      (fun c hc => by
        rw [swapAdj_getD i seq (hlen ▸ hi), htp]
        by_cases h1 : c = i
        · subst h1
          rw [if_pos rfl, tr_left]; exact htr (c + 1) hi
        · by_cases h2 : c = i + 1
          · subst h2
            rw [if_neg h1, if_pos rfl, tr_right]; exact htr i (by omega)
          · have c1 : fromNe.getD c 0 ≠ fromNe.getD (i + 1) 0 :=
              fun e => h2 (sorted_getD_inj hs hc hi e)
            have c2 : fromNe.getD c 0 ≠ fromNe.getD i 0 :=
              fun e => h1 (sorted_getD_inj hs hc (by omega) e)
            rw [if_neg h1, if_neg h2, tr_other c2 c1]; exact htr c hc)
      (fun p hp => by rw [hlen1] at hp; rw [htp]; exact hN _ (tr_lt hu hl hp))
      (fun p q hp hq e => by
        rw [hlen1] at hp hq
        rw [htp, htp] at e
        have := hinj _ _ (tr_lt hu hl hp) (tr_lt hu hl hq) e
        rw [← tr_tr (fromNe.getD i 0) (fromNe.getD (i + 1) 0) p, this, tr_tr])
    obtain ⟨t1, t2, t3, t4⟩ := this
    refine ⟨t1, fun p hp => ?_, fun p hp => t3 p (by rw [hlen1]; exact hp),
      fun p q hp hq => t4 p q (by rw [hlen1]; exact hp) (by rw [hlen1]; exact hq)⟩
    show (swapsG k al ord fromNe (levelSwapG k al ord r _ _) rest).toPre.getD p 0 = _
    rw [t2 p hp, htp]
    have c1 : p ≠ fromNe.getD (i + 1) 0 := fun e => hp (e ▸ getD_mem hi)
    have c2 : p ≠ fromNe.getD i 0 := fun e => hp (e ▸ getD_mem (show i < fromNe.length by omega))
    rw [tr_other c2 c1]

end

/-! ## small list facts used by the assembly -/

theorem range_getD {n p : Nat} (hp : p < n) : (List.range n).getD p 0 = p := by
  simp [List.getD_eq_getElem?_getD, List.getElem?_range hp]

/-- `target_order[i] = v` for the pairs of `from_ne.zip(ne_target_order)` -/
def zipSet (t : List Nat) (ks vs : List Nat) : List Nat :=
  (ks.zip vs).foldl (fun t p => t.set p.1 p.2) t

theorem zipSet_length (t ks vs : List Nat) : (zipSet t ks vs).length = t.length := by
  unfold zipSet
  induction ks generalizing t vs with
  | nil => rfl
  | cons k ks ih =>
    cases vs with
    | nil => rfl
    | cons v vs => simp only [List.zip_cons_cons, List.foldl_cons]; rw [ih]; simp

theorem zipSet_not_mem (t ks vs : List Nat) {p : Nat} (hp : p ∉ ks) :
    (zipSet t ks vs).getD p 0 = t.getD p 0 := by
  unfold zipSet
  induction ks generalizing t vs with
  | nil => rfl
  | cons k ks ih =>
    cases vs with
    | nil => rfl
    | cons v vs =>
      simp only [List.zip_cons_cons, List.foldl_cons]
      rw [ih _ _ (fun h => hp (by simp [h]))]
      have : k ≠ p := fun h => hp (by simp [h])
      simp [List.getD_eq_getElem?_getD, this]

theorem zipSet_mem (t ks vs : List Nat) (hnd : ks.Nodup) (hlen : vs.length = ks.length)
    (hlt : ∀ k ∈ ks, k < t.length) {i : Nat} (hi : i < ks.length) :
    (zipSet t ks vs).getD (ks.getD i 0) 0 = vs.getD i 0 := by
  induction ks generalizing t vs i with
  | nil => simp at hi
  | cons k ks ih =>
    cases vs with
    | nil => simp at hlen
    | cons v vs =>
      have hnd' := List.nodup_cons.mp hnd
      cases i with
      | zero =>
        show (zipSet (t.set k v) ks vs).getD k 0 = v
        rw [zipSet_not_mem _ _ _ hnd'.1]
        have := hlt k (by simp)
        simp [List.getD_eq_getElem?_getD, this]
      | succ i =>
        show (zipSet (t.set k v) ks vs).getD (ks.getD i 0) 0 = vs.getD i 0
        exact ih (t.set k v) vs hnd'.2 (by simpa using hlen)
          (fun k' hk' => by rw [List.length_set]; exact hlt k' (by simp [hk'])) (by simpa using hi)

/-- a strictly increasing sequence of `n` numbers below `n` is `0, 1, …, n-1` -/
theorem strictInc_id {L : List Nat} (hs : L.Pairwise (· < ·)) (hlt : ∀ x ∈ L, x < L.length)
    {k : Nat} (hk : k < L.length) : L.getD k 0 = k := by
  have hstep : ∀ d k, k + d < L.length → L.getD k 0 + d ≤ L.getD (k + d) 0 := by
    intro d
    induction d with
    | zero => intro k _; simp
    | succ d ih =>
      intro k hkd
      have h1 := ih k (by omega)
      have h2 := sorted_getD_lt hs (show k + d < k + (d + 1) by omega) hkd
      omega
  have lo := hstep k 0 (by omega)
  have hi := hstep (L.length - 1 - k) k (by omega)
  have hm := hlt _ (getD_mem (show k + (L.length - 1 - k) < L.length by omega))
  simp only [Nat.zero_add] at lo
  omega

theorem chainLe_sorted : ∀ (last : Nat) (l : List Nat), chainLe last l = true →
    (∀ x ∈ l, last ≤ x) ∧ Sorted l
  | _, [], _ => ⟨fun _ h => by simp at h, List.Pairwise.nil⟩
  | last, x :: xs, h => by
    simp only [chainLe, Bool.and_eq_true, decide_eq_true_eq] at h
    obtain ⟨h1, h2⟩ := chainLe_sorted x xs h.2
    refine ⟨fun y hy => ?_, List.pairwise_cons.mpr ⟨h1, h2⟩⟩
    rcases List.mem_cons.mp hy with rfl | hy
    · exact h.1
    · exact Nat.le_trans h.1 (h1 y hy)

/-- the swaps emitted by a valid replay are in range (from `SwapStoreSeq.lean`) -/
theorem validSwaps_lt {sw : List Nat} {l : List Nat} (h : ValidSwaps sw l) :
    ∀ u ∈ sw, u + 1 < l.length := by
  induction sw generalizing l with
  | nil => intro u hu; simp at hu
  | cons i sw ih =>
    intro u hu
    obtain ⟨⟨hlt, _⟩, h2⟩ := h
    rcases List.mem_cons.mp hu with rfl | hu
    · exact hlt
    · have := ih h2 u hu
      rwa [swapAdj_length] at this

/-- the store invariant is the lazy invariant for the identity labelling -/
theorem Inv.toL {k : Nat} {ext : Nat → Nat} {s : SStore T} (hinv : Inv k ext s) :
    InvL k ext (List.range s.tables.length) id s where
  kpos := hinv.kpos
  arity := hinv.arity
  len := List.length_range
  pos_lab := fun p hp => by rw [List.length_range] at hp; rw [range_getD hp]; rfl
  tbl_iff := fun p hp i => by
    rw [List.length_range] at hp; rw [range_getD hp]; exact hinv.tbl_iff p i
  live_lab := fun i n hn => by
    have hlt : n.level < s.tables.length := by
      apply Classical.byContradiction
      intro hc
      have := (hinv.tbl_iff n.level i).mpr ⟨n, hn, rfl⟩
      rw [table_of_ge (by omega)] at this; cases this
    exact ⟨by rw [List.length_range]; exact hlt, range_getD hlt⟩
  tbl_nodup := hinv.tbl_nodup
  ordered := hinv.ordered
  nored := hinv.nored
  uniq := hinv.uniq
  rc := hinv.rc

end OxiddModel.Reorder.SwapStoreN
