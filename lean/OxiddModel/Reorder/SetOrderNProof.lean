import OxiddModel.Reorder.SetOrderNLemmas

/-!
# `set_var_order` on the store of `k`-ary nodes: the theorem

`k`-ary port of `SetOrderProof.lean` and of the headline `setVarOrderS_correct`
(`PropertiesStore.lean`), here `setVarOrderN_correct`.

`setVarOrderS_spec`: the model of `set_var_order_common` (first step: bubble sort of the
non-empty level views by the general lazy `level_swap`, `swapsG_spec`; second step: the level
views are moved to their target positions, `step2_spec`; `update_levels`) re-establishes the
store invariant, places every level view at its target and preserves the value of every handle.
-/
namespace OxiddModel.Reorder.SwapStoreN

variable {T : Type}

/-! ## from the state after the two steps to the final store -/

theorem mem_getD_of_mem {L : List Nat} {x : Nat} (h : x ∈ L) : ∃ c, c < L.length ∧ L.getD c 0 = x := by
  obtain ⟨k, hk, e⟩ := List.mem_iff_getElem.mp h
  exact ⟨k, hk, by simp [List.getD_eq_getElem?_getD, List.getElem?_eq_getElem hk, e]⟩

theorem sorted_getD_le {L : List Nat} (hs : Sorted L) {k1 k2 : Nat} (h12 : k1 < k2)
    (h2 : k2 < L.length) : L.getD k1 0 ≤ L.getD k2 0 := by
  have h1 : k1 < L.length := by omega
  have e1 : L.getD k1 0 = L[k1] := by simp [List.getD_eq_getElem?_getD, List.getElem?_eq_getElem h1]
  have e2 : L.getD k2 0 = L[k2] := by simp [List.getD_eq_getElem?_getD, List.getElem?_eq_getElem h2]
  rw [e1, e2]
  exact List.pairwise_iff_getElem.mp hs k1 k2 h1 h2 h12

theorem finish {k : Nat} {ext : Nat → Nat} {fromNe l2v0 target seq1 : List Nat} {pos1 : Nat → Nat}
    {r1 r2 : RState T} {n : Nat}
    (hr1 : RInv k ext fromNe l2v0 pos1 r1) (hn : r1.toPre.length = n)
    (hfs : fromNe.Pairwise (· < ·))
    (hseq_len : seq1.length = fromNe.length) (hsorted : Sorted seq1)
    (hseq : ∀ c, c < fromNe.length →
      seq1.getD c 0 = target.getD (r1.toPre.getD (fromNe.getD c 0) 0) 0)
    (htinj : ∀ a b, a < n → b < n → target.getD a 0 = target.getD b 0 → a = b)
    (hpre1 : ∀ p, p < n → r1.toPre.getD p 0 < n)
    (hw2 : InvW k ext r2.toPre r2.s) (hheap : r2.s.h = r1.s.h) (hn2 : r2.toPre.length = n)
    (hpre2 : ∀ p, p < n → r2.toPre.getD p 0 < n)
    (hT : ∀ p, p < n → target.getD (r2.toPre.getD p 0) 0 = p) :
    Inv k ext (updateLevels r2) ∧ (updateLevels r2).tables.length = n ∧
    ∀ i nd, r1.s.h.sh i = some nd →
      (updateLevels r2).h.sh i = some ⟨target.getD nd.level 0, nd.ch⟩ := by
  have hsh : ∀ i nd, r2.s.h.sh i = some nd →
      (updateLevels r2).h.sh i = some ⟨target.getD nd.level 0, nd.ch⟩ ∧
      target.getD nd.level 0 < n ∧ nd.level < n ∧ i ∈ r2.s.table (target.getD nd.level 0) := by
    intro i nd hnd
    obtain ⟨p, hp, hlp⟩ := hw2.live_lab i nd hnd
    have hpn : p < n := hn2 ▸ hp
    have hTp := hT p hpn
    rw [hlp] at hTp
    refine ⟨?_, hTp ▸ hpn, hlp ▸ hpre2 p hpn, ?_⟩
    · rw [hTp]; exact updateLevels_sh hw2 hnd hp hlp
    · rw [hTp]; exact (hw2.tbl_iff p hp i).mpr ⟨nd, hnd, hlp.symm⟩
  have hsh' : ∀ i n', (updateLevels r2).h.sh i = some n' →
      ∃ nd, r2.s.h.sh i = some nd ∧ n' = ⟨target.getD nd.level 0, nd.ch⟩ := by
    intro i n' hn'
    cases hs : r2.s.h.sh i with
    | none => rw [updateLevels_sh_none hs] at hn'; cases hn'
    | some nd =>
      refine ⟨nd, rfl, ?_⟩
      rw [(hsh i nd hs).1] at hn'; cases hn'; rfl
  have htl : (updateLevels r2).tables = r2.s.tables := rfl
  have htbl : ∀ p, (updateLevels r2).table p = r2.s.table p := fun p => rfl
  have hlen2 : r2.s.tables.length = n := by rw [← hw2.len, hn2]
  -- the order of the targets agrees with the order of the positions after the first step
  have hmono : ∀ j1 x1 j2 x2, r1.s.h.sh j1 = some x1 → r1.s.h.sh j2 = some x2 →
      pos1 x1.level < pos1 x2.level → target.getD x1.level 0 < target.getD x2.level 0 := by
    intro j1 x1 j2 x2 h1 h2 hlt
    have key : ∀ j x, r1.s.h.sh j = some x → ∃ c, c < fromNe.length ∧
        fromNe.getD c 0 = pos1 x.level ∧ seq1.getD c 0 = target.getD x.level 0 ∧ x.level < n := by
      intro j x hx
      obtain ⟨g1, g2⟩ := hr1.inv.live_lab j x hx
      have hmem : pos1 x.level ∈ fromNe := by
        apply Classical.byContradiction
        intro hc
        have := hr1.inv.table_empty hx
        rw [hr1.empty _ hc] at this; cases this
      obtain ⟨k, hk, e⟩ := mem_getD_of_mem hmem
      refine ⟨k, hk, e, ?_, ?_⟩
      · rw [hseq k hk, e, g2]
      · rw [← g2]; exact hpre1 _ (hn ▸ g1)
    obtain ⟨k1, hk1, e1, s1, l1⟩ := key j1 x1 h1
    obtain ⟨k2, hk2, e2, s2, l2⟩ := key j2 x2 h2
    have hk : k1 < k2 := by
      apply Classical.byContradiction
      intro hc
      rcases Nat.lt_or_ge k2 k1 with c | c
      · have := sorted_getD_lt hfs c hk1; omega
      · have : k1 = k2 := by omega
        subst this; omega
    have hle := sorted_getD_le hsorted hk (hseq_len ▸ hk2)
    rw [s1, s2] at hle
    rcases Nat.lt_or_ge (target.getD x1.level 0) (target.getD x2.level 0) with c | c
    · exact c
    · exfalso
      have := htinj _ _ l1 l2 (by omega)
      rw [this] at hlt; omega
  refine ⟨{ kpos := hw2.kpos, arity := ?_, tbl_iff := ?_, tbl_nodup := ?_, ordered := ?_,
            nored := ?_, uniq := ?_, rc := ?_ },
    hlen2, fun i nd h => (hsh i nd (hheap ▸ h)).1⟩
  · intro i n' hn'
    obtain ⟨nd, hnd, rfl⟩ := hsh' i n' hn'
    exact hw2.arity i nd hnd
  · intro l i
    rw [htbl]
    constructor
    · intro hi
      have hl : l < n := by
        apply Classical.byContradiction
        intro hc
        rw [table_of_ge (by omega)] at hi; cases hi
      obtain ⟨nd, hnd, hlv⟩ := (hw2.tbl_iff l (hn2 ▸ hl) i).mp hi
      refine ⟨_, (hsh i nd hnd).1, ?_⟩
      simp only; rw [hlv]; exact hT l hl
    · rintro ⟨n', hn', hl⟩
      obtain ⟨nd, hnd, rfl⟩ := hsh' i n' hn'
      simp only at hl
      rw [← hl]; exact (hsh i nd hnd).2.2.2
  · intro p; rw [htbl]; exact hw2.tbl_nodup p
  · intro i n' hn' j hc
    obtain ⟨nd, hnd, rfl⟩ := hsh' i n' hn'
    simp only at hc
    have hkl := hw2.closed i nd hnd j hc
    cases hm : r2.s.h.sh j with
    | none => exact absurd hm hkl
    | some m =>
      refine ⟨_, (hsh j m hm).1, ?_⟩
      simp only
      obtain ⟨m', hm', hlt⟩ := hr1.inv.ordered i nd (hheap ▸ hnd) j hc
      have : m' = m := by rw [← hheap, hm] at hm'; cases hm'; rfl
      subst this
      exact hmono i nd j m' (hheap ▸ hnd) hm' hlt
  · intro i n' hn'
    obtain ⟨nd, hnd, rfl⟩ := hsh' i n' hn'
    exact hw2.nored i nd hnd
  · intro i j n' hi hj
    obtain ⟨nd, hnd, e1⟩ := hsh' i n' hi
    obtain ⟨nd', hnd', e2⟩ := hsh' j n' hj
    rw [e1] at e2
    injection e2 with e3 e4
    have := htinj _ _ (hsh i nd hnd).2.2.1 (hsh j nd' hnd').2.2.1 e3
    have hndeq : nd = nd' := by cases nd; cases nd'; simp_all
    subst hndeq
    exact hw2.uniq i j nd hnd hnd'
  · have := RCx_updLoop (r := r2) (List.range r2.s.tables.length) hw2.rc
    have this : RCx (fun j => live01 r2.s.h j + ext j) (updateLevels r2).h := this
    refine this.congr (fun j => ?_)
    simp only [live01]
    cases hs : r2.s.h.sh j with
    | none => rw [updateLevels_sh_none hs]
    | some nd => rw [(hsh j nd hs).1]; rfl


/-! ## the result of `set_var_order` -/

/-- what `set_var_order` guarantees, relative to the target order `target` (`sort_order`):
the store invariant, the number of levels, a witness `lab` of where every level view came from
(position `p` finally holds the view — and the variable — that was at position `lab[p]`, and the
target of that view was `p`), and every external handle evaluates, under every assignment `ρ` of
the *variables*, to the same value as before. -/
structure SetOrderRes (k : Nat) (ext : Nat → Nat) (s : SStore T) (n : Nat) (l2v target : List Nat)
    (res : SStore T × List Nat) : Prop where
  inv : Inv k ext res.1
  len : res.1.tables.length = n
  placed : ∃ lab : List Nat, ∀ p, p < n →
    lab.getD p 0 < n ∧ target.getD (lab.getD p 0) 0 = p ∧
    res.2.getD p 0 = l2v.getD (lab.getD p 0) 0
  eval : ∀ i, 0 < ext i → ∀ (ρ : Nat → Nat) v, (∀ x, ρ x < k) →
    Ev s.h.sh (fun ℓ => ρ (l2v.getD ℓ 0)) (.inner i) v →
    Ev res.1.h.sh (fun p => ρ (res.2.getD p 0)) (.inner i) v

theorem nonfix_le (tgt : List Nat) (n : Nat) : nonfix tgt n ≤ n := by
  unfold nonfix
  induction n with
  | zero => simp [sumTo]
  | succ n ih => rw [sumTo_succ]; split <;> omega

/-- the facts about the state after the node-free part that the end of the proof needs -/
structure Phi (k : Nat) (ext : Nat → Nat) (l2v0 target : List Nat) (h1 : Heap T) (n : Nat)
    (r : RState T) (tgt : List Nat) : Prop where
  w : InvW k ext r.toPre r.s
  heap : r.s.h = h1
  len : r.toPre.length = n
  pre_lt : ∀ p, p < n → r.toPre.getD p 0 < n
  tgt_eq : ∀ p, p < n → tgt.getD p 0 = target.getD (r.toPre.getD p 0) 0
  l2v_eq : ∀ p, p < n → r.l2v.getD p 0 = l2v0.getD (r.toPre.getD p 0) 0

theorem Phi.swapViews {k : Nat} {ext : Nat → Nat} {l2v0 target : List Nat} {h1 : Heap T} {n : Nat}
    {r : RState T}
    {tgt : List Nat} (h : Phi k ext l2v0 target h1 n r tgt) (hl2v : r.l2v.length = n)
    (htl : tgt.length = n) {i j : Nat} (hi : i < n) (hj : j < n) :
    Phi k ext l2v0 target h1 n (r.swapViews i j) (swapIdx tgt i j) ∧
    (r.swapViews i j).l2v.length = n := by
  have hi' : i < r.toPre.length := h.len ▸ hi
  have hj' : j < r.toPre.length := h.len ▸ hj
  have e1 : ∀ p, (r.swapViews i j).toPre.getD p 0 = r.toPre.getD (tr i j p) 0 :=
    fun p => swapIdx_getD_tr r.toPre hi' hj' p
  have e2 : ∀ p, (swapIdx tgt i j).getD p 0 = tgt.getD (tr i j p) 0 :=
    fun p => swapIdx_getD_tr tgt (htl ▸ hi) (htl ▸ hj) p
  have e3 : ∀ p, (r.swapViews i j).l2v.getD p 0 = r.l2v.getD (tr i j p) 0 :=
    fun p => swapIdx_getD_tr r.l2v (hl2v ▸ hi) (hl2v ▸ hj) p
  refine ⟨{ w := h.w.swapViews hi' hj', heap := h.heap, len := ?_, pre_lt := ?_, tgt_eq := ?_,
            l2v_eq := ?_ }, ?_⟩
  · show (swapIdx r.toPre i j).length = n
    rw [swapIdx_length]; exact h.len
  · intro p hp; rw [e1]; exact h.pre_lt _ (tr_lt hi hj hp)
  · intro p hp; rw [e2, e1]; exact h.tgt_eq _ (tr_lt hi hj hp)
  · intro p hp; rw [e3, e1]; exact h.l2v_eq _ (tr_lt hi hj hp)
  · show (swapIdx r.l2v i j).length = n
    rw [swapIdx_length]; exact hl2v

/-- from the state after the first step (`r1`) and the state after the node-free second step
(`r2`) to the guarantees of `set_var_order` -/
theorem tail2 {k : Nat} {ext : Nat → Nat} {s : SStore T} {n : Nat}
    {l2v target fromNe seq1 : List Nat} {pos1 : Nat → Nat} {r1 r2 : RState T}
    (hr1 : RInv k ext fromNe l2v pos1 r1) (hn : r1.toPre.length = n)
    (hfs : fromNe.Pairwise (· < ·))
    (hseq_len : seq1.length = fromNe.length) (hsorted : Sorted seq1)
    (hseq : ∀ c, c < fromNe.length →
      seq1.getD c 0 = target.getD (r1.toPre.getD (fromNe.getD c 0) 0) 0)
    (htinj : ∀ a b, a < n → b < n → target.getD a 0 = target.getD b 0 → a = b)
    (hpre1 : ∀ p, p < n → r1.toPre.getD p 0 < n)
    (hev1 : ∀ σ i v, (∀ ℓ, σ ℓ < k) → 0 < ext i → Ev s.h.sh σ (.inner i) v →
      Ev r1.s.h.sh σ (.inner i) v)
    {tgt : List Nat} (hphi : Phi k ext l2v target r1.s.h n r2 tgt)
    (hT : ∀ p, p < n → tgt.getD p 0 = p) :
    SetOrderRes k ext s n l2v target (updateLevels r2, r2.l2v) := by
  have hT' : ∀ p, p < n → target.getD (r2.toPre.getD p 0) 0 = p :=
    fun p hp => (hphi.tgt_eq p hp).symm.trans (hT p hp)
  obtain ⟨hinv, hlen, hsh⟩ := finish hr1 hn hfs hseq_len hsorted hseq htinj hpre1 hphi.w hphi.heap
    hphi.len hphi.pre_lt hT'
  refine { inv := hinv, len := hlen, placed := ⟨r2.toPre, fun p hp =>
    ⟨hphi.pre_lt p hp, hT' p hp, hphi.l2v_eq p hp⟩⟩, eval := ?_ }
  intro j hj ρ v hρ hv
  have h1 := hev1 _ j v (fun ℓ => hρ _) hj hv
  refine Ev.relabel (fun ℓ => target.getD ℓ 0) (fun i nd hnd => ?_) h1
  refine ⟨hsh i nd hnd, ?_⟩
  obtain ⟨p, hp, hlp⟩ := hphi.w.live_lab i nd (hphi.heap ▸ hnd)
  have hpn : p < n := hphi.len ▸ hp
  have hTp := hT' p hpn
  rw [hlp] at hTp
  show ρ ((r2.l2v).getD (target.getD nd.level 0) 0) = ρ (l2v.getD nd.level 0)
  rw [hTp, hphi.l2v_eq p hpn, hlp]

/-! ## `set_var_order` -/

/-- **`setVarOrderS_spec`**: the model of `set_var_order_common` — bubble sort over the non-empty
level views with the lazy general `level_swap`, the node-free second step, `update_levels` —
re-establishes the store invariant, places every level view at its target position and
preserves the value of every external handle under every assignment of the variables. `input`
is the request translated to levels (`order.map var_to_level`), which `sort_order` requires to be
duplicate free and in range. -/
theorem setVarOrderS_spec [DecidableEq T] {k : Nat} {ext : Nat → Nat} {s : SStore T}
    {al : Heap T → Nat}
    {ord : List Nat → List Nat} (hal : AllocOK al) (hord : OrderOK ord) (hinv : Inv k ext s)
    (l2v order : List Nat) (hl2v : l2v.length = s.tables.length)
    (hnd : (order.map fun v => l2v.idxOf v).Nodup)
    (hlt : ∀ x ∈ order.map (fun v => l2v.idxOf v), x < s.tables.length) :
    SetOrderRes k ext s s.tables.length l2v
      (sortOrder s.tables.length (order.map fun v => l2v.idxOf v))
      (setVarOrderS k al ord s l2v order) := by
  generalize hn : s.tables.length = n at *
  generalize htg : sortOrder n (order.map fun v => l2v.idxOf v) = target
  obtain ⟨htlen, htlt, htnd⟩ := sortOrder_perm n _ hnd hlt
  rw [htg] at htlen htlt htnd
  have hgetD : ∀ a (ha : a < n), target.getD a 0 = target[a]'(htlen ▸ ha) := fun a ha => by
    simp [List.getD_eq_getElem?_getD, List.getElem?_eq_getElem (htlen ▸ ha)]
  have htlt' : ∀ a, a < n → target.getD a 0 < n := fun a ha => by
    rw [hgetD a ha]; exact htlt _ (List.getElem_mem _)
  have htinj : ∀ a b, a < n → b < n → target.getD a 0 = target.getD b 0 → a = b := by
    intro a b ha hb e
    rw [hgetD a ha, hgetD b hb] at e
    have hpw := List.pairwise_iff_getElem.mp (List.nodup_iff_pairwise_ne.mp htnd)
    rcases Nat.lt_trichotomy a b with c | c | c
    · exact absurd e (hpw a b _ _ c)
    · exact c
    · exact absurd e.symm (hpw b a _ _ c)
  have hself : ∀ a, a < n → target.getD a a = target.getD a 0 := fun a ha =>
    getD_self_eq (htlen ▸ ha)
  -- unfold the definition
  unfold setVarOrderS
  simp only [hn, htg]
  split
  · -- already sorted
    rename_i hsorted
    simp only [List.all_eq_true, List.mem_range, beq_iff_eq] at hsorted
    refine { inv := hinv, len := hn, placed := ⟨List.range n, fun p hp => ?_⟩,
             eval := fun _ _ ρ v _ hv => hv }
    rw [range_getD hp]
    have := hsorted p hp
    rw [hself p hp] at this
    exact ⟨hp, this, rfl⟩
  · -- the reordering
    generalize hfne : (List.range n).filter (fun l => !(s.table l).isEmpty) = fromNe
    have hfs : fromNe.Pairwise (· < ·) := hfne ▸ List.Pairwise.filter _ List.pairwise_lt_range
    have hfmem : ∀ p, p ∈ fromNe ↔ p < n ∧ s.table p ≠ [] := by
      intro p; rw [← hfne]; simp [List.mem_filter]
    have hflt : ∀ p ∈ fromNe, p < n := fun p hp => ((hfmem p).mp hp).1
    have hr0 : RInv k ext fromNe l2v id ⟨s, List.range n, l2v⟩ :=
      { inv := hn ▸ hinv.toL
        empty := fun p hp => by
          by_cases hpn : p < n
          · apply Classical.byContradiction
            intro hc; exact hp ((hfmem p).mpr ⟨hpn, hc⟩)
          · exact table_of_ge (by rw [hn]; omega)
        l2v_len := by simp [hl2v]
        l2v_eq := fun p hp => by
          simp only [List.length_range] at hp
          simp only [range_getD hp] }
    have hpre0 : ∀ p, p < n → (List.range n).getD p 0 < n := fun p hp => by rw [range_getD hp]; exact hp
    have hinj0 : ∀ p q, p < n → q < n → (List.range n).getD p 0 = (List.range n).getD q 0 → p = q :=
      fun p q hp hq e => by rwa [range_getD hp, range_getD hq] at e
    generalize hnt : fromNe.map (fun l => target.getD l l) = neTarget
    have hntlen : neTarget.length = fromNe.length := by rw [← hnt]; simp
    have hntget : ∀ c, c < fromNe.length → neTarget.getD c 0 = target.getD (fromNe.getD c 0) 0 := by
      intro c hc
      have e : fromNe.getD c 0 = fromNe[c] := by
        simp [List.getD_eq_getElem?_getD, List.getElem?_eq_getElem hc]
      rw [← hnt, e]
      simp only [List.getD_eq_getElem?_getD, List.getElem?_map, List.getElem?_eq_getElem hc,
        Option.map_some, Option.getD_some]
      have := hself fromNe[c] (hflt _ (List.getElem_mem _))
      simpa [List.getD_eq_getElem?_getD] using this
    have hntget0 : ∀ c, c < fromNe.length →
        neTarget.getD c 0 = target.getD ((List.range n).getD (fromNe.getD c 0) 0) 0 := by
      intro c hc
      rw [hntget c hc, range_getD (hflt _ (getD_mem hc))]
    -- the two node-free tails
    have htail : ∀ (pos1 : Nat → Nat) (r1 : RState T) (seq1 tgt : List Nat),
        RInv k ext fromNe l2v pos1 r1 → r1.toPre.length = n →
        seq1.length = fromNe.length → Sorted seq1 →
        (∀ c, c < fromNe.length →
          seq1.getD c 0 = target.getD (r1.toPre.getD (fromNe.getD c 0) 0) 0) →
        (∀ p, p < n → r1.toPre.getD p 0 < n) →
        (∀ σ i v, (∀ ℓ, σ ℓ < k) → 0 < ext i → Ev s.h.sh σ (.inner i) v →
          Ev r1.s.h.sh σ (.inner i) v) →
        tgt.length = n → (∀ p, p < n → tgt.getD p 0 = target.getD (r1.toPre.getD p 0) 0) →
        SetOrderRes k ext s n l2v target
          (updateLevels (step2 (n * n + n) 0 r1 tgt), (step2 (n * n + n) 0 r1 tgt).l2v) := by
      intro pos1 r1 seq1 tgt hr1 hlen1 hsl hss hsq hp1 hev1 htl hteq
      have hphi0 : Phi k ext l2v target r1.s.h n r1 tgt ∧ r1.l2v.length = n :=
        ⟨{ w := hr1.inv.toW, heap := rfl, len := hlen1, pre_lt := hp1, tgt_eq := hteq,
           l2v_eq := fun p hp => hr1.l2v_eq p (hlen1 ▸ hp) }, hr1.l2v_len.trans hlen1⟩
      obtain ⟨tgt', ⟨hphi', _⟩, _, hfix⟩ := step2_spec (n := n)
        (fun r t => Phi k ext l2v target r1.s.h n r t ∧ r.l2v.length = n ∧ t.length = n)
        (fun r t i j h hi hj => by
          obtain ⟨a, b⟩ := h.1.swapViews h.2.1 h.2.2 hi hj
          exact ⟨a, b, by rw [swapIdx_length]; exact h.2.2⟩)
        (n * n + n) 0 r1 tgt htl
        (fun p hp => by rw [hteq p hp]; exact htlt' _ (hp1 p hp))
        (fun p q hp hq e => by
          rw [hteq p hp, hteq q hq] at e
          have := htinj _ _ (hp1 p hp) (hp1 q hq) e
          exact hr1.inv.lab_inj (hlen1 ▸ hp) (hlen1 ▸ hq) this)
        (fun p hp => by omega) (Nat.zero_le _)
        (by have := nonfix_le tgt n
            have : n ≤ n * n := by
              cases n with
              | zero => omega
              | succ m => exact Nat.le_mul_of_pos_left _ (by omega)
            omega)
        ⟨hphi0.1, hphi0.2, htl⟩
      exact tail2 hr1 hlen1 hfs hsl hss hsq htinj hp1 hev1 hphi' hfix
    split
    · -- the non-empty levels have to be sorted
      rename_i hns
      generalize hbs : bubbleSort neTarget.length neTarget = bs
      have hsw := bubbleSort_swaps neTarget neTarget.length
      rw [hbs] at hsw
      have hsorted1 : Sorted bs.1 := hbs ▸ bubbleSort_sorted neTarget neTarget.length (Nat.le_refl _)
      have hswlt : ∀ i ∈ bs.2, i + 1 < fromNe.length :=
        fun i hi => hntlen ▸ validSwaps_lt hsw.2.1 i hi
      have hr0lt : ∀ p ∈ fromNe, p < (RState.mk s (List.range n) l2v : RState T).toPre.length := by
        intro p hp; simp only [List.length_range]; exact hflt p hp
      obtain ⟨pos1, hr1, hlen1, hev1⟩ := swapsG_spec hal hord hfs bs.2 hswlt hr0 hr0lt
      obtain ⟨t1, t2, t3, t4⟩ := swapsG_track k al ord hfs (fun ℓ => target.getD ℓ 0) n bs.2 hswlt
        (r := ⟨s, List.range n, l2v⟩) (seq := neTarget) hr0lt hntlen hntget0
        (by simpa using hpre0) (by simpa using hinj0)
      rw [hsw.1] at t1
      simp only [List.length_range] at hlen1 t3 t4
      have hbs1len : bs.1.length = fromNe.length := by rw [← hsw.1, applySwaps_length]; exact hntlen
      -- name the state after the first step
      have hfold : bs.2.foldl (fun r i => levelSwapG k al ord r (fromNe.getD i 0) (fromNe.getD (i + 1) 0))
          ⟨s, List.range n, l2v⟩ = swapsG k al ord fromNe ⟨s, List.range n, l2v⟩ bs.2 := rfl
      rw [hfold]
      generalize swapsG k al ord fromNe ⟨s, List.range n, l2v⟩ bs.2 = r1 at *
      split
      · -- all levels are non-empty: done after the first step
        rename_i hall
        simp only [if_true]
        have hfid : ∀ c, c < n → fromNe.getD c 0 = c := fun c hc =>
          strictInc_id hfs (fun x hx => hall ▸ hflt x hx) (hall ▸ hc)
        -- the sorted sequence of targets is `0 … n-1`
        have hb_inj : bs.1.Pairwise (· < ·) := by
          rw [List.pairwise_iff_getElem]
          intro a b ha hb hab
          have hle := sorted_getD_le hsorted1 hab hb
          have ea : bs.1.getD a 0 = bs.1[a] := by
            simp [List.getD_eq_getElem?_getD, List.getElem?_eq_getElem ha]
          have eb : bs.1.getD b 0 = bs.1[b] := by
            simp [List.getD_eq_getElem?_getD, List.getElem?_eq_getElem hb]
          rw [ea, eb] at hle
          rcases Nat.lt_or_ge bs.1[a] bs.1[b] with c | c
          · exact c
          · exfalso
            have han : a < n := by omega
            have hbn : b < n := by omega
            have e : bs.1.getD a 0 = bs.1.getD b 0 := by rw [ea, eb]; omega
            rw [t1 a (by omega), t1 b (by omega), hfid a han, hfid b hbn] at e
            have := t4 a b han hbn (htinj _ _ (t3 a han) (t3 b hbn) e)
            omega
        have hbid : ∀ c, c < n → bs.1.getD c 0 = c := by
          intro c hc
          apply strictInc_id hb_inj _ (by omega)
          intro x hx
          obtain ⟨c', hc', e⟩ := mem_getD_of_mem hx
          rw [← e, t1 c' (by omega), hbs1len, hall]
          exact htlt' _ (t3 _ (by rw [hfid c' (by omega)]; omega))
        have hT1 : ∀ p, p < n → target.getD (r1.toPre.getD p 0) 0 = p := by
          intro p hp
          have := t1 p (by omega)
          rw [hfid p hp, hbid p hp] at this
          exact this.symm
        have hphi : Phi k ext l2v target r1.s.h n r1 (List.range n) :=
          { w := hr1.inv.toW, heap := rfl, len := hlen1, pre_lt := t3,
            tgt_eq := fun p hp => by rw [range_getD hp, hT1 p hp]
            l2v_eq := fun p hp => hr1.l2v_eq p (hlen1 ▸ hp) }
        exact tail2 hr1 hlen1 hfs hbs1len hsorted1 t1 htinj t3 hev1 hphi (fun p hp => range_getD hp)
      · -- move the views (including the empty ones) to their positions
        rename_i hnall
        simp only [Bool.false_eq_true, if_false]
        have hfnd : fromNe.Nodup := hfs.imp (fun h => Nat.ne_of_lt h)
        refine htail pos1 r1 bs.1 _ hr1 hlen1 hbs1len hsorted1 t1 t3 hev1
          (by show (zipSet target fromNe bs.1).length = n; rw [zipSet_length]; exact htlen)
          (fun p hp => ?_)
        show (zipSet target fromNe bs.1).getD p 0 = _
        by_cases hpf : p ∈ fromNe
        · obtain ⟨c, hc, e⟩ := mem_getD_of_mem hpf
          rw [← e, zipSet_mem target fromNe bs.1 hfnd hbs1len (fun x hx => htlen ▸ hflt x hx) hc]
          exact t1 c hc
        · rw [zipSet_not_mem _ _ _ hpf, t2 p hpf, range_getD hp]
    · -- the non-empty levels are in the right relative order already
      rename_i hns
      simp only [Bool.false_eq_true, if_false]
      have hcl : chainLe 0 neTarget = true := by
        simpa using hns
      refine htail id ⟨s, List.range n, l2v⟩ neTarget target hr0 (by simp) hntlen
        (chainLe_sorted 0 neTarget hcl).2 hntget0 hpre0 (fun σ i v _ _ h => h) htlen
        (fun p hp => by rw [range_getD hp])


/-- every level view ends at its target: the variable of the old level `a` is at level
`target[a]` afterwards -/
theorem SetOrderRes.placed' {k : Nat} {ext : Nat → Nat} {s : SStore T} {n : Nat}
    {l2v target : List Nat}
    {res : SStore T × List Nat} (h : SetOrderRes k ext s n l2v target res)
    (htlt : ∀ a, a < n → target.getD a 0 < n)
    (htinj : ∀ a b, a < n → b < n → target.getD a 0 = target.getD b 0 → a = b)
    {a : Nat} (ha : a < n) : res.2.getD (target.getD a 0) 0 = l2v.getD a 0 := by
  obtain ⟨lab, hlab⟩ := h.placed
  obtain ⟨h1, h2, h3⟩ := hlab (target.getD a 0) (htlt a ha)
  rw [h3, htinj _ _ h1 ha h2]

/-- the request translated to levels is duplicate free and in range when the request is
duplicate free and names variables of the manager -/
theorem order_levels_ok {l2v order : List Nat} (hnd : order.Nodup) (hmem : ∀ v ∈ order, v ∈ l2v) :
    (order.map fun v => l2v.idxOf v).Nodup ∧
    ∀ x ∈ order.map (fun v => l2v.idxOf v), x < l2v.length := by
  constructor
  · induction order with
    | nil => exact List.nodup_nil
    | cons v vs ih =>
      have hv := List.nodup_cons.mp hnd
      rw [List.map_cons, List.nodup_cons]
      refine ⟨?_, ih hv.2 (fun w hw => hmem w (by simp [hw]))⟩
      intro hc
      obtain ⟨w, hw, e⟩ := List.mem_map.mp hc
      have h1 := hmem v (by simp)
      have h2 := hmem w (by simp [hw])
      have e1 := List.getElem_idxOf (List.idxOf_lt_length_of_mem h1)
      have e2 := List.getElem_idxOf (List.idxOf_lt_length_of_mem h2)
      have : w = v := by
        rw [← e1, ← e2]; simp only [e]
      exact hv.1 (this ▸ hw)
  · intro x hx
    obtain ⟨v, hv, rfl⟩ := List.mem_map.mp hx
    exact List.idxOf_lt_length_of_mem (hmem v hv)

/-- **`setVarOrderN_correct`** (C08 for `set_var_order`, nodes of arity `k`, terminal type `T`).
For a duplicate-free request naming variables of the manager, and for every iteration order of
the hash tables and every allocator:
1. the store invariant holds afterwards and the number of levels is unchanged;
2. **the requested order is established**: if `x` occurs before `y` in `order`, then `x` is at a
   smaller level than `y` in the new level→variable map;
3. **every handle keeps its function**: under every `k`-valued assignment `ρ` of the *variables*
   an externally referenced slot evaluates (with the new level→variable map) to the terminal it
   evaluated to before (with the old map). -/
theorem setVarOrderN_correct [DecidableEq T] {k : Nat} {ext : Nat → Nat} {s : SStore T}
    {al : Heap T → Nat} {ord : List Nat → List Nat} (hal : AllocOK al) (hord : OrderOK ord)
    (hinv : Inv k ext s) (l2v order : List Nat) (hl2v : l2v.length = s.tables.length)
    (hnd : order.Nodup) (hmem : ∀ v ∈ order, v ∈ l2v) :
    let res := setVarOrderS k al ord s l2v order
    (Inv k ext res.1 ∧ res.1.tables.length = s.tables.length) ∧
    (∀ i j (hij : i < j) (hj : j < order.length), ∃ p q, p < q ∧ q < s.tables.length ∧
      res.2.getD p 0 = order[i] ∧ res.2.getD q 0 = order[j]) ∧
    (∀ i v (ρ : Nat → Nat), (∀ x, ρ x < k) → 0 < ext i →
      Ev s.h.sh (fun l => ρ (l2v.getD l 0)) (.inner i) v →
      Ev res.1.h.sh (fun p => ρ (res.2.getD p 0)) (.inner i) v) := by
  intro res
  obtain ⟨h1, h2⟩ := order_levels_ok hnd hmem
  rw [hl2v] at h2
  have hspec := setVarOrderS_spec hal hord hinv l2v order hl2v h1 h2
  obtain ⟨htlen, htlt, htnd⟩ := sortOrder_perm s.tables.length _ h1 h2
  generalize htg : sortOrder s.tables.length (order.map fun v => l2v.idxOf v) = target at *
  have hgetD : ∀ a (ha : a < s.tables.length), target.getD a 0 = target[a]'(htlen ▸ ha) :=
    fun a ha => by simp [List.getD_eq_getElem?_getD, List.getElem?_eq_getElem (htlen ▸ ha)]
  have htlt' : ∀ a, a < s.tables.length → target.getD a 0 < s.tables.length := fun a ha => by
    rw [hgetD a ha]; exact htlt _ (List.getElem_mem _)
  have htinj : ∀ a b, a < s.tables.length → b < s.tables.length →
      target.getD a 0 = target.getD b 0 → a = b := by
    intro a b ha hb e
    rw [hgetD a ha, hgetD b hb] at e
    have hpw := List.pairwise_iff_getElem.mp (List.nodup_iff_pairwise_ne.mp htnd)
    rcases Nat.lt_trichotomy a b with c | c | c
    · exact absurd e (hpw a b _ _ c)
    · exact c
    · exact absurd e.symm (hpw b a _ _ c)
  refine ⟨⟨hspec.inv, hspec.len⟩, ?_, fun i v ρ hρ hi hv => hspec.eval i hi ρ v hρ hv⟩
  intro i j hij hj
  have hi : i < order.length := by omega
  -- the old levels of the two variables
  have hai := hmem _ (List.getElem_mem hi)
  have haj := hmem _ (List.getElem_mem hj)
  have hli : l2v.idxOf order[i] < s.tables.length := hl2v ▸ List.idxOf_lt_length_of_mem hai
  have hlj : l2v.idxOf order[j] < s.tables.length := hl2v ▸ List.idxOf_lt_length_of_mem haj
  have hresp := sortOrder_respects s.tables.length (order.map fun v => l2v.idxOf v) h1 h2 i j hij
    (by simpa using hj)
  simp only [List.getElem_map, htg] at hresp
  refine ⟨target.getD (l2v.idxOf order[i]) 0, target.getD (l2v.idxOf order[j]) 0, ?_,
    htlt' _ hlj, ?_, ?_⟩
  · rw [hgetD _ hli, hgetD _ hlj]; exact hresp
  · rw [hspec.placed' htlt' htinj hli]
    simp [List.getD_eq_getElem?_getD, List.getElem?_eq_getElem (List.idxOf_lt_length_of_mem hai)]
  · rw [hspec.placed' htlt' htinj hlj]
    simp [List.getD_eq_getElem?_getD, List.getElem?_eq_getElem (List.idxOf_lt_length_of_mem haj)]

/-! ## non-vacuity: a ternary node (`T/U/F`-style, terminals `Bool`) testing the variable of level 0,
two levels, one external handle; request "variable 1 above variable 0" -/

def svoEx : SStore Bool :=
  ⟨⟨[some ⟨0, [.term true, .term false, .term true], 2⟩]⟩, [[0], []]⟩
def svoExExt (i : Nat) : Nat := if i = 0 then 1 else 0

theorem svoEx_sh (i : Nat) : svoEx.h.sh i =
    if i = 0 then some ⟨0, [.term true, .term false, .term true]⟩ else none := by
  match i with
  | 0 => rfl
  | i + 1 => simp [svoEx, Heap.sh, Heap.get?]

theorem svoEx_table (l : Nat) : svoEx.table l = if l = 0 then [0] else [] := by
  match l with
  | 0 => rfl
  | 1 => rfl
  | _ + 2 => rfl

theorem svoEx_inv : Inv 3 svoExExt svoEx where
  kpos := by decide
  arity := fun i n h => by
    rw [svoEx_sh] at h; split at h
    · cases h; rfl
    · cases h
  tbl_iff := fun l i => by
    rw [svoEx_table, svoEx_sh]
    constructor
    · intro h
      split at h
      · rename_i hl; subst hl
        have : i = 0 := by simpa using h
        subst this; exact ⟨_, rfl, rfl⟩
      · cases h
    · rintro ⟨n, h, hl⟩
      split at h
      · rename_i hi; cases h; subst hi; simp at hl; subst hl; simp
      · cases h
  tbl_nodup := fun l => by rw [svoEx_table]; split <;> simp
  ordered := fun i n h j hj => by
    rw [svoEx_sh] at h; split at h
    · cases h; simp at hj
    · cases h
  nored := fun i n h => by
    rw [svoEx_sh] at h; split at h
    · cases h
      rintro ⟨x, hx, hall⟩
      have h1 := hall (.term true) (by simp)
      have h2 := hall (.term false) (by simp)
      rw [← h1] at h2; cases h2
    · cases h
  uniq := fun i j n hi hj => by
    rw [svoEx_sh] at hi hj
    split at hi
    · split at hj
      · omega
      · cases hj
    · cases hi
  rc := fun j => by
    show svoEx.h.rcOf j = live01 svoEx.h j + svoExExt j + svoEx.h.refs j
    unfold live01
    rw [svoEx_sh]
    match j with
    | 0 => simp [svoExExt, svoEx, Heap.rcOf, Heap.get?, Heap.refs, cntO, pts, pt]
    | j + 1 => simp [svoExExt, svoEx, Heap.rcOf, Heap.get?, Heap.refs, cntO, pts, pt]

example : Ev svoEx.h.sh (fun l => [2, 1].getD ([0, 1].getD l 0) 0) (.inner 0) true :=
  .inner (svoEx_sh 0) (c := .term true) rfl .term

/-- the hypotheses of the headline are jointly satisfiable and the handle `0` still evaluates to
the same terminal (here: child number 2 of the variable 0) in the reordered store -/
example : Ev (setVarOrderS 3 Heap.firstFree id svoEx [0, 1] [1, 0]).1.h.sh
    (fun p => [2, 1].getD ((setVarOrderS 3 Heap.firstFree id svoEx [0, 1] [1, 0]).2.getD p 0) 0)
    (.inner 0) true :=
  (setVarOrderN_correct allocOK_firstFree orderOK_id svoEx_inv [0, 1] [1, 0] rfl
    (by decide) (by decide)).2.2 0 true (fun x => [2, 1].getD x 0)
    (fun x => by
      match x with
      | 0 => decide
      | 1 => decide
      | _ + 2 => exact (by decide : 0 < 3))
    (by decide) (.inner (svoEx_sh 0) (c := .term true) rfl .term)

end OxiddModel.Reorder.SwapStoreN
