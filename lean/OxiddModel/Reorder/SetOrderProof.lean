import OxiddModel.Reorder.SwapStoreGen

/-!
# `set_var_order` on the store: proofs

`setVarOrderS` (`SetOrderStore.lean`) = `set_var_order_common`: first step (bubble sort of the
non-empty level views by the general lazy `level_swap`, `swapsG_spec`), second step (the level
views are moved to their target positions without touching a node, `step2_spec`),
`update_levels` (`updateLevels_sh`).
-/
namespace OxiddModel.Reorder.SwapStore
open OxiddModel.Bdd OxiddModel.Bdd.BDD OxiddModel.Bdd.Refine OxiddModel.Reorder

/-! ## exchanging two positions of a list -/

theorem swapIdx_length {α : Type} [Inhabited α] (l : List α) (i j : Nat) :
    (swapIdx l i j).length = l.length := by simp [swapIdx]

theorem swapIdx_getD {α : Type} [Inhabited α] (l : List α) {i j : Nat} (hi : i < l.length)
    (hj : j < l.length) (p : Nat) :
    (swapIdx l i j).getD p default =
      if p = j then l.getD i default else if p = i then l.getD j default else l.getD p default := by
  unfold swapIdx
  simp only [List.getD_eq_getElem?_getD, List.getElem?_set, List.length_set]
  by_cases h1 : p = j
  · subst h1; simp [hj]
  · by_cases h2 : p = i
    · subst h2
      have : ¬ (j = p) := fun h => h1 h.symm
      simp [this, hi, h1]
    · have h3 : ¬ (j = p) := fun h => h1 h.symm
      have h4 : ¬ (i = p) := fun h => h2 h.symm
      simp [h1, h2, h3, h4]

theorem swapIdx_getD_nat (l : List Nat) {i j : Nat} (hi : i < l.length) (hj : j < l.length)
    (p : Nat) : (swapIdx l i j).getD p 0 =
      if p = j then l.getD i 0 else if p = i then l.getD j 0 else l.getD p 0 :=
  swapIdx_getD l hi hj p

/-- the views at positions `i` and `j` exchanged (tables, `to_pre`, level→variable map) -/
def RState.swapViews (r : RState) (i j : Nat) : RState :=
  { s := ⟨r.s.h, swapIdx r.s.tables i j⟩, toPre := swapIdx r.toPre i j, l2v := swapIdx r.l2v i j }

theorem swapViews_table (r : RState) {i j : Nat} (hi : i < r.s.tables.length)
    (hj : j < r.s.tables.length) (p : Nat) :
    (r.swapViews i j).s.table p =
      if p = j then r.s.table i else if p = i then r.s.table j else r.s.table p := by
  unfold RState.swapViews SStore.table
  exact swapIdx_getD r.s.tables hi hj p

/-! ## sums over `range n` -/

def sumTo (F : Nat → Nat) (n : Nat) : Nat := ((List.range n).map F).sum

theorem sumTo_succ (F : Nat → Nat) (n : Nat) : sumTo F (n + 1) = sumTo F n + F n := by
  simp [sumTo, List.range_succ]

theorem sumTo_congr {F G : Nat → Nat} {n : Nat} (h : ∀ p, p < n → G p = F p) :
    sumTo G n = sumTo F n := by
  induction n with
  | zero => rfl
  | succ n ih =>
    rw [sumTo_succ, sumTo_succ, ih (fun p hp => h p (by omega)), h n (by omega)]

theorem sumTo_one {F G : Nat → Nat} {n i : Nat} (hi : i < n) (h : ∀ p, p ≠ i → G p = F p) :
    sumTo G n + F i = sumTo F n + G i := by
  induction n with
  | zero => omega
  | succ n ih =>
    rw [sumTo_succ, sumTo_succ]
    by_cases hin : i = n
    · subst hin
      rw [sumTo_congr (F := F) (G := G) (fun p hp => h p (by omega))]; omega
    · have := ih (by omega)
      rw [h n (fun h' => hin h'.symm)]; omega

theorem sumTo_two {F G : Nat → Nat} {n i j : Nat} (hi : i < n) (hj : j < n) (hij : i ≠ j)
    (h : ∀ p, p ≠ i → p ≠ j → G p = F p) :
    sumTo G n + F i + F j = sumTo F n + G i + G j := by
  -- go through the function that agrees with `G` except at `j`
  let H : Nat → Nat := fun p => if p = j then F j else G p
  have h1 : sumTo H n + F i = sumTo F n + H i := by
    apply sumTo_one hi
    intro p hp
    by_cases hpj : p = j
    · simp [H, hpj]
    · simp only [H, hpj, if_false]; exact h p hp hpj
  have h2 : sumTo G n + H j = sumTo H n + G j := by
    apply sumTo_one hj
    intro p hp; simp [H, hp]
  have e1 : H i = G i := by simp [H, hij]
  have e2 : H j = F j := by simp [H]
  omega

theorem sumTo_zero {F : Nat → Nat} {n : Nat} (h : sumTo F n = 0) : ∀ p, p < n → F p = 0 := by
  induction n with
  | zero => intro p hp; omega
  | succ n ih =>
    rw [sumTo_succ] at h
    intro p hp
    by_cases hpn : p = n
    · subst hpn; omega
    · exact ih (by omega) p (by omega)


/-! ## the second step of `set_var_order`: moving the level views to their target positions -/

/-- the transposition of `i` and `j` -/
def tr (i j p : Nat) : Nat := if p = j then i else if p = i then j else p

theorem tr_tr (i j p : Nat) : tr i j (tr i j p) = p := by
  unfold tr; split <;> split <;> (try split) <;> (try split) <;> omega

theorem tr_lt {i j p n : Nat} (hi : i < n) (hj : j < n) (hp : p < n) : tr i j p < n := by
  unfold tr; split <;> (try split) <;> omega

theorem swapIdx_getD_tr (l : List Nat) {i j : Nat} (hi : i < l.length) (hj : j < l.length)
    (p : Nat) : (swapIdx l i j).getD p 0 = l.getD (tr i j p) 0 := by
  rw [swapIdx_getD_nat l hi hj]; unfold tr
  split
  · rfl
  · split <;> rfl

/-- number of positions below `n` that are not yet at their target -/
def nonfix (tgt : List Nat) (n : Nat) : Nat := sumTo (fun p => if tgt.getD p 0 = p then 0 else 1) n

theorem step2_unfold (fuel i : Nat) (r : RState) (tgt : List Nat) :
    step2 (fuel + 1) i r tgt =
      match tgt[i]? with
      | none => r
      | some j => if j = i then step2 fuel (i + 1) r tgt
        else step2 fuel i (r.swapViews i j) (swapIdx tgt i j) := rfl

/-- `step2` as an induction principle: a property of (state, target list) that is preserved by
exchanging two views together with their targets holds at the end, where every view is at its
target position -/
theorem step2_spec {n : Nat} (Φ : RState → List Nat → Prop)
    (hΦ : ∀ r tgt i j, Φ r tgt → i < n → j < n → Φ (r.swapViews i j) (swapIdx tgt i j)) :
    ∀ fuel i r tgt, tgt.length = n → (∀ p, p < n → tgt.getD p 0 < n) →
      (∀ p q, p < n → q < n → tgt.getD p 0 = tgt.getD q 0 → p = q) →
      (∀ p, p < i → tgt.getD p 0 = p) → i ≤ n → (n - i) + nonfix tgt n ≤ fuel → Φ r tgt →
      ∃ tgt', Φ (step2 fuel i r tgt) tgt' ∧ tgt'.length = n ∧ ∀ p, p < n → tgt'.getD p 0 = p := by
  intro fuel
  induction fuel with
  | zero =>
    intro i r tgt hlen hlt hinj hfix hin hm hphi
    refine ⟨tgt, hphi, hlen, fun p hp => ?_⟩
    have hz : nonfix tgt n = 0 := by omega
    have : (if tgt.getD p 0 = p then 0 else 1) = 0 := sumTo_zero hz p hp
    split at this
    · assumption
    · cases this
  | succ fuel ih =>
    intro i r tgt hlen hlt hinj hfix hin hm hphi
    rw [step2_unfold]
    by_cases hi : i < n
    · have hget : tgt[i]? = some (tgt.getD i 0) := by
        rw [List.getD_eq_getElem?_getD, List.getElem?_eq_getElem (hlen ▸ hi)]; rfl
      rw [hget]; simp only
      by_cases hji : tgt.getD i 0 = i
      · rw [if_pos hji]
        exact ih (i + 1) r tgt hlen hlt hinj
          (fun p hp => by by_cases h : p = i; exact h ▸ hji; exact hfix p (by omega))
          (by omega) (by omega) hphi
      · rw [if_neg hji]
        generalize hj : tgt.getD i 0 = j at hji
        have hjn : j < n := hj ▸ hlt i hi
        have hgt : ∀ p, (swapIdx tgt i j).getD p 0 =
            if p = j then tgt.getD i 0 else if p = i then tgt.getD j 0 else tgt.getD p 0 :=
          fun p => swapIdx_getD_nat tgt (hlen ▸ hi) (hlen ▸ hjn) p
        have hij : i < j := by
          apply Classical.byContradiction
          intro hc
          have : j < i := by omega
          have := hinj j i hjn hi ((hfix j this).trans hj.symm)
          omega
        -- `j` was not at its target, now it is
        have hjnf : tgt.getD j 0 ≠ j := fun h => by
          have := hinj j i hjn hi (h.trans hj.symm); omega
        have hmeasure : nonfix (swapIdx tgt i j) n + 1 ≤ nonfix tgt n := by
          have hs := sumTo_two (F := fun p => if tgt.getD p 0 = p then 0 else 1)
            (G := fun p => if (swapIdx tgt i j).getD p 0 = p then 0 else 1) hi hjn (by omega)
            (fun p h1 h2 => by simp only [hgt, h1, h2, if_false])
          have fi : (if tgt.getD i 0 = i then 0 else 1) = 1 := by rw [hj, if_neg hji]
          have fj : (if tgt.getD j 0 = j then 0 else 1) = 1 := by rw [if_neg hjnf]
          have gj : (if (swapIdx tgt i j).getD j 0 = j then 0 else 1) = 0 := by
            rw [hgt, if_pos rfl, hj, if_pos rfl]
          have gi : (if (swapIdx tgt i j).getD i 0 = i then 0 else 1) ≤ 1 := by split <;> omega
          simp only [fi, fj, gj] at hs
          unfold nonfix
          omega
        refine ih i (r.swapViews i j) (swapIdx tgt i j) (by rw [swapIdx_length, hlen]) ?_ ?_ ?_ hin
          (by omega) (hΦ r tgt i j hphi hi hjn)
        · intro p hp
          rw [hgt]
          split
          · exact hlt i hi
          · split
            · exact hlt j hjn
            · exact hlt p hp
        · intro p q hp hq hpq
          rw [swapIdx_getD_tr tgt (hlen ▸ hi) (hlen ▸ hjn), swapIdx_getD_tr tgt (hlen ▸ hi) (hlen ▸ hjn)] at hpq
          have := hinj _ _ (tr_lt hi hjn hp) (tr_lt hi hjn hq) hpq
          rw [← tr_tr i j p, this, tr_tr]
        · intro p hp
          rw [hgt]
          have h1 : p ≠ j := by omega
          have h2 : p ≠ i := by omega
          simp only [h1, h2, if_false]
          exact hfix p hp
    · have hn : tgt[i]? = none := List.getElem?_eq_none (by omega)
      rw [hn]; simp only
      have hin' : i = n := by omega
      exact ⟨tgt, hphi, hlen, fun p hp => hfix p (by omega)⟩


/-! ## the invariant without the order of the positions -/

/-- `InvL` minus "ordered": what survives while the level views are being moved around -/
structure InvW (ext : Nat → Nat) (lab : List Nat) (s : SStore) : Prop where
  len : lab.length = s.tables.length
  inj : ∀ p q, p < lab.length → q < lab.length → lab.getD p 0 = lab.getD q 0 → p = q
  tbl_iff : ∀ p, p < lab.length → ∀ i,
    i ∈ s.table p ↔ ∃ n, s.h.sh i = some n ∧ n.level = lab.getD p 0
  live_lab : ∀ i n, s.h.sh i = some n → ∃ p, p < lab.length ∧ lab.getD p 0 = n.level
  tbl_nodup : ∀ p, (s.table p).Nodup
  closed : ∀ i n, s.h.sh i = some n → ∀ k, (n.t = .inner k ∨ n.e = .inner k) → s.h.sh k ≠ none
  nored : ∀ i n, s.h.sh i = some n → n.t ≠ n.e
  uniq : ∀ i j n, s.h.sh i = some n → s.h.sh j = some n → i = j
  rc : RCx (fun k => live01 s.h k + ext k) s.h

theorem InvL.toW {ext : Nat → Nat} {lab : List Nat} {pos : Nat → Nat} {s : SStore}
    (h : InvL ext lab pos s) : InvW ext lab s where
  len := h.len
  inj := fun p q hp hq e => h.lab_inj hp hq e
  tbl_iff := h.tbl_iff
  live_lab := fun i n hn => ⟨pos n.level, (h.live_lab i n hn).1, (h.live_lab i n hn).2⟩
  tbl_nodup := h.tbl_nodup
  closed := fun i n hn k hc => by
    obtain ⟨m, hm, _⟩ := h.ordered i n hn k hc
    rw [hm]; simp
  nored := h.nored
  uniq := h.uniq
  rc := h.rc

theorem InvW.swapViews {ext : Nat → Nat} {r : RState} (h : InvW ext r.toPre r.s) {i j : Nat}
    (hi : i < r.toPre.length) (hj : j < r.toPre.length) :
    InvW ext (r.swapViews i j).toPre (r.swapViews i j).s := by
  have hti : i < r.s.tables.length := h.len ▸ hi
  have htj : j < r.s.tables.length := h.len ▸ hj
  have hlab : ∀ p, (r.swapViews i j).toPre.getD p 0 = r.toPre.getD (tr i j p) 0 :=
    fun p => swapIdx_getD_tr r.toPre hi hj p
  have htab : ∀ p, (r.swapViews i j).s.table p = r.s.table (tr i j p) := by
    intro p
    rw [swapViews_table r hti htj]; unfold tr
    split
    · rfl
    · split <;> rfl
  have hlen : (r.swapViews i j).toPre.length = r.toPre.length := swapIdx_length _ _ _
  have hsh : (r.swapViews i j).s.h = r.s.h := rfl
  refine { len := ?_, inj := ?_, tbl_iff := ?_, live_lab := ?_, tbl_nodup := ?_, closed := ?_,
           nored := ?_, uniq := ?_, rc := ?_ }
  · show (swapIdx r.toPre i j).length = (swapIdx r.s.tables i j).length
    rw [swapIdx_length, swapIdx_length]; exact h.len
  · intro p q hp hq e
    rw [hlen] at hp hq
    rw [hlab, hlab] at e
    have := h.inj _ _ (tr_lt hi hj hp) (tr_lt hi hj hq) e
    rw [← tr_tr i j p, this, tr_tr]
  · intro p hp k
    rw [hlen] at hp
    rw [htab, hlab, hsh]
    exact h.tbl_iff _ (tr_lt hi hj hp) k
  · intro k n hn
    rw [hsh] at hn
    obtain ⟨p, hp, e⟩ := h.live_lab k n hn
    refine ⟨tr i j p, by rw [hlen]; exact tr_lt hi hj hp, ?_⟩
    rw [hlab, tr_tr]; exact e
  · intro p; rw [htab]; exact h.tbl_nodup _
  · exact h.closed
  · exact h.nored
  · exact h.uniq
  · exact h.rc

/-! ## `update_levels` -/

theorem sh_updateLevelNo_of_mem {h : Heap} {tbl : List Nat} {l k : Nat} (hk : k ∈ tbl) :
    (updateLevelNo h tbl l).sh k = relabel l (h.sh k) := by
  rw [sh_updateLevelNo, if_pos hk]

theorem sh_updateLevelNo_of_not_mem {h : Heap} {tbl : List Nat} {l k : Nat} (hk : k ∉ tbl) :
    (updateLevelNo h tbl l).sh k = h.sh k := by
  rw [sh_updateLevelNo, if_neg hk]

/-- the loop of `update_levels_seq` over a list of positions -/
def updLoop (r : RState) (ps : List Nat) (h : Heap) : Heap :=
  ps.foldl (fun h p => if p ≠ r.toPre.getD p p then updateLevelNo h (r.s.table p) p else h) h

theorem updateLevels_eq (r : RState) :
    updateLevels r = ⟨updLoop r (List.range r.s.tables.length) r.s.h, r.s.tables⟩ := rfl

/-- after `update_levels` every live node carries the position of its level view -/
theorem updLoop_sh {ext : Nat → Nat} {r : RState} (hw : InvW ext r.toPre r.s) (ps : List Nat)
    (hps : ∀ p ∈ ps, p < r.toPre.length) {i p : Nat} {n : Node}
    (hn : r.s.h.sh i = some n) (hp : p < r.toPre.length) (hlp : r.toPre.getD p 0 = n.level)
    {h : Heap} {lv : Nat} (hh : h.sh i = some ⟨lv, n.t, n.e⟩) (hlv : lv = n.level ∨ lv = p) :
    ∃ lv', (updLoop r ps h).sh i = some ⟨lv', n.t, n.e⟩ ∧ (lv' = n.level ∨ lv' = p) ∧
      ((p ∈ ps ∨ lv = p) → lv' = p) := by
  unfold updLoop
  induction ps generalizing h lv with
  | nil => exact ⟨lv, hh, hlv, fun h' => by rcases h' with h' | h'; simp at h'; exact h'⟩
  | cons q qs ih =>
    simp only [List.foldl_cons]
    have hq : q < r.toPre.length := hps q (by simp)
    have hmem : i ∈ r.s.table q ↔ q = p := by
      rw [hw.tbl_iff q hq]
      constructor
      · rintro ⟨n', hn', hl⟩
        rw [hn] at hn'; cases hn'
        exact hw.inj q p hq hp (hl.symm.trans hlp.symm)
      · rintro rfl; exact ⟨n, hn, hlp.symm⟩
    have hqq : r.toPre.getD q q = r.toPre.getD q 0 := getD_self_eq hq
    by_cases hqp : q = p
    · subst hqp
      have hres : (if q ≠ r.toPre.getD q q then updateLevelNo h (r.s.table q) q else h).sh i =
          some ⟨q, n.t, n.e⟩ := by
        by_cases hc : q ≠ r.toPre.getD q q
        · rw [if_pos hc, sh_updateLevelNo_of_mem (hmem.mpr rfl), hh]; rfl
        · rw [if_neg hc]
          have : n.level = q := by
            rw [← hlp, ← hqq]; exact (Classical.not_not.mp hc).symm
          rw [hh]
          rcases hlv with hlv | hlv
          · rw [hlv, this]
          · rw [hlv]
      obtain ⟨lv', h1, h2, h3⟩ := ih (fun p' hp' => hps p' (by simp [hp'])) hres (Or.inr rfl)
      exact ⟨lv', h1, h2, fun _ => h3 (Or.inr rfl)⟩
    · have hni : i ∉ r.s.table q := fun h' => hqp (hmem.mp h')
      have hres : (if q ≠ r.toPre.getD q q then updateLevelNo h (r.s.table q) q else h).sh i =
          some ⟨lv, n.t, n.e⟩ := by
        split
        · rw [sh_updateLevelNo_of_not_mem hni]; exact hh
        · exact hh
      obtain ⟨lv', h1, h2, h3⟩ := ih (fun p' hp' => hps p' (by simp [hp'])) hres hlv
      refine ⟨lv', h1, h2, fun h' => h3 ?_⟩
      rcases h' with h' | h'
      · rcases List.mem_cons.mp h' with h' | h'
        · exact absurd h'.symm hqp
        · exact Or.inl h'
      · exact Or.inr h'

theorem updLoop_sh_none {r : RState} (ps : List Nat) {h : Heap} {i : Nat} (hn : h.sh i = none) :
    (updLoop r ps h).sh i = none := by
  unfold updLoop
  induction ps generalizing h with
  | nil => exact hn
  | cons q qs ih =>
    simp only [List.foldl_cons]
    apply ih
    split
    · rw [sh_updateLevelNo]; split <;> rw [hn] <;> rfl
    · exact hn

theorem RCx_updLoop {w : Nat → Nat} {r : RState} (ps : List Nat) {h : Heap} (hr : RCx w h) :
    RCx w (updLoop r ps h) := by
  unfold updLoop
  induction ps generalizing h with
  | nil => exact hr
  | cons q qs ih =>
    simp only [List.foldl_cons]
    apply ih
    split
    · exact RCx_updateLevelNo hr _ _
    · exact hr

/-- the shape of every slot after `update_levels` -/
theorem updateLevels_sh {ext : Nat → Nat} {r : RState} (hw : InvW ext r.toPre r.s) {i p : Nat}
    {n : Node} (hn : r.s.h.sh i = some n) (hp : p < r.toPre.length)
    (hlp : r.toPre.getD p 0 = n.level) : (updateLevels r).h.sh i = some ⟨p, n.t, n.e⟩ := by
  rw [updateLevels_eq]
  obtain ⟨lv', h1, _, h3⟩ := updLoop_sh hw (List.range r.s.tables.length)
    (fun q hq => by rw [hw.len]; exact List.mem_range.mp hq) hn hp hlp
    (h := r.s.h) (lv := n.level) (by rw [hn]) (Or.inl rfl)
  rw [h1, h3 (Or.inl (List.mem_range.mpr (hw.len ▸ hp)))]

theorem updateLevels_sh_none {r : RState} {i : Nat} (hn : r.s.h.sh i = none) :
    (updateLevels r).h.sh i = none := by
  rw [updateLevels_eq]; exact updLoop_sh_none _ hn

/-! ## evaluation under relabelling -/

theorem Ev.relabel {sh sh' : Nat → Option Node} {σ σ' : Nat → Bool} (f : Nat → Nat)
    (hsh : ∀ i n, sh i = some n → sh' i = some ⟨f n.level, n.t, n.e⟩ ∧ σ' (f n.level) = σ n.level)
    {x : Edge} {v : Bool} (hv : Ev sh σ x v) : Ev sh' σ' x v := by
  induction hv with
  | term => exact .term
  | @inner i ℓ t e vt ve hi _ _ iht ihe =>
    obtain ⟨h1, h2⟩ := hsh i _ hi
    have := Ev.inner (σ := σ') h1 iht ihe
    simp only at h2
    rw [h2] at this; exact this



/-! ## the first step: `to_pre` follows the bubble sort -/

theorem sorted_getD_lt {L : List Nat} (hs : L.Pairwise (· < ·)) {k1 k2 : Nat} (h12 : k1 < k2)
    (h2 : k2 < L.length) : L.getD k1 0 < L.getD k2 0 := by
  have h1 : k1 < L.length := by omega
  have e1 : L.getD k1 0 = L[k1] := by simp [List.getD_eq_getElem?_getD, List.getElem?_eq_getElem h1]
  have e2 : L.getD k2 0 = L[k2] := by simp [List.getD_eq_getElem?_getD, List.getElem?_eq_getElem h2]
  rw [e1, e2]
  exact List.pairwise_iff_getElem.mp hs k1 k2 h1 h2 h12

theorem sorted_getD_inj {L : List Nat} (hs : L.Pairwise (· < ·)) {k1 k2 : Nat}
    (h1 : k1 < L.length) (h2 : k2 < L.length) (e : L.getD k1 0 = L.getD k2 0) : k1 = k2 := by
  rcases Nat.lt_trichotomy k1 k2 with h | h | h
  · have := sorted_getD_lt hs h h2; omega
  · exact h
  · have := sorted_getD_lt hs h h1; omega

theorem getD_mem {L : List Nat} {k : Nat} (hk : k < L.length) : L.getD k 0 ∈ L := by
  have : L.getD k 0 = L[k] := by simp [List.getD_eq_getElem?_getD, List.getElem?_eq_getElem hk]
  rw [this]; exact List.getElem_mem _

theorem swapAdj_getD (i : Nat) (l : List Nat) (h : i + 1 < l.length) (k : Nat) :
    (swapAdj i l).getD k 0 =
      if k = i then l.getD (i + 1) 0 else if k = i + 1 then l.getD i 0 else l.getD k 0 := by
  simp only [List.getD_eq_getElem?_getD, getElem?_swapAdj i l h k]
  split
  · rfl
  · split <;> rfl

theorem tr_left (i j : Nat) : tr i j i = j := by
  unfold tr; split <;> simp_all
theorem tr_right (i j : Nat) : tr i j j = i := by
  unfold tr; simp
theorem tr_other {i j p : Nat} (h1 : p ≠ i) (h2 : p ≠ j) : tr i j p = p := by
  unfold tr; simp [h1, h2]

theorem swapsG_toPre_length (al : Heap → Nat) (ord : List Nat → List Nat) (fromNe : List Nat)
    (r : RState) (sw : List Nat) : (swapsG al ord fromNe r sw).toPre.length = r.toPre.length := by
  unfold swapsG
  induction sw generalizing r with
  | nil => rfl
  | cons i rest ih => simp only [List.foldl_cons]; rw [ih, levelSwapG_toPre_length]

/-- replaying the swaps of the bubble sort on the manager: the sequence being sorted stays the
image of `to_pre` at the non-empty positions under any function `g` of the labels -/
theorem swapsG_track (al : Heap → Nat) (ord : List Nat → List Nat) {fromNe : List Nat}
    (hs : fromNe.Pairwise (· < ·)) (g : Nat → Nat) (N : Nat) (sw : List Nat)
    (hsw : ∀ i ∈ sw, i + 1 < fromNe.length) {r : RState} {seq : List Nat}
    (hlt : ∀ p ∈ fromNe, p < r.toPre.length) (hlen : seq.length = fromNe.length)
    (htr : ∀ k, k < fromNe.length → seq.getD k 0 = g (r.toPre.getD (fromNe.getD k 0) 0))
    (hN : ∀ p, p < r.toPre.length → r.toPre.getD p 0 < N)
    (hinj : ∀ p q, p < r.toPre.length → q < r.toPre.length →
      r.toPre.getD p 0 = r.toPre.getD q 0 → p = q) :
    (∀ k, k < fromNe.length → (applySwaps sw seq).getD k 0 =
      g ((swapsG al ord fromNe r sw).toPre.getD (fromNe.getD k 0) 0)) ∧
    (∀ p, p ∉ fromNe → (swapsG al ord fromNe r sw).toPre.getD p 0 = r.toPre.getD p 0) ∧
    (∀ p, p < r.toPre.length → (swapsG al ord fromNe r sw).toPre.getD p 0 < N) ∧
    (∀ p q, p < r.toPre.length → q < r.toPre.length →
      (swapsG al ord fromNe r sw).toPre.getD p 0 = (swapsG al ord fromNe r sw).toPre.getD q 0 → p = q) := by
  induction sw generalizing r seq with
  | nil => exact ⟨htr, fun _ _ => rfl, hN, hinj⟩
  | cons i rest ih =>
    have hi : i + 1 < fromNe.length := hsw i (by simp)
    have hu := hlt _ (getD_mem (show i < fromNe.length by omega))
    have hl := hlt _ (getD_mem hi)
    have hul : fromNe.getD i 0 < fromNe.getD (i + 1) 0 := sorted_getD_lt hs (by omega) hi
    have hlen1 := levelSwapG_toPre_length al ord r (fromNe.getD i 0) (fromNe.getD (i + 1) 0)
    have htp : ∀ p, (levelSwapG al ord r (fromNe.getD i 0) (fromNe.getD (i + 1) 0)).toPre.getD p 0 =
        r.toPre.getD (tr (fromNe.getD i 0) (fromNe.getD (i + 1) 0) p) 0 := by
      intro p
      rw [levelSwapG_toPre al ord r hu hl]
      exact swapIdx_getD_tr r.toPre hu hl p
    have := ih (r := levelSwapG al ord r (fromNe.getD i 0) (fromNe.getD (i + 1) 0))
      (seq := swapAdj i seq) (fun j hj => hsw j (by simp [hj]))
      (fun p hp => by rw [hlen1]; exact hlt p hp) (by rw [swapAdj_length]; exact hlen)
      (fun k hk => by
        rw [swapAdj_getD i seq (hlen ▸ hi), htp]
        by_cases h1 : k = i
        · subst h1
          rw [if_pos rfl, tr_left]; exact htr (k + 1) hi
        · by_cases h2 : k = i + 1
          · subst h2
            rw [if_neg h1, if_pos rfl, tr_right]; exact htr i (by omega)
          · have c1 : fromNe.getD k 0 ≠ fromNe.getD (i + 1) 0 :=
              fun e => h2 (sorted_getD_inj hs hk hi e)
            have c2 : fromNe.getD k 0 ≠ fromNe.getD i 0 :=
              fun e => h1 (sorted_getD_inj hs hk (by omega) e)
            rw [if_neg h1, if_neg h2, tr_other c2 c1]; exact htr k hk)
      (fun p hp => by rw [hlen1] at hp; rw [htp]; exact hN _ (tr_lt hu hl hp))
      (fun p q hp hq e => by
        rw [hlen1] at hp hq
        rw [htp, htp] at e
        have := hinj _ _ (tr_lt hu hl hp) (tr_lt hu hl hq) e
        rw [← tr_tr (fromNe.getD i 0) (fromNe.getD (i + 1) 0) p, this, tr_tr])
    obtain ⟨t1, t2, t3, t4⟩ := this
    refine ⟨t1, fun p hp => ?_, fun p hp => t3 p (by rw [hlen1]; exact hp),
      fun p q hp hq => t4 p q (by rw [hlen1]; exact hp) (by rw [hlen1]; exact hq)⟩
    show (swapsG al ord fromNe (levelSwapG al ord r _ _) rest).toPre.getD p 0 = _
    rw [t2 p hp, htp]
    have c1 : p ≠ fromNe.getD (i + 1) 0 := fun e => hp (e ▸ getD_mem hi)
    have c2 : p ≠ fromNe.getD i 0 := fun e => hp (e ▸ getD_mem (show i < fromNe.length by omega))
    rw [tr_other c2 c1]


/-! ## small list facts used by the assembly -/

theorem range_getD {n p : Nat} (hp : p < n) : (List.range n).getD p 0 = p := by
  simp [List.getD_eq_getElem?_getD, List.getElem?_range hp]

/-- `target_order[i] = v` for the pairs of `from_ne.zip(ne_target_order)` -/
def zipSet (t : List Nat) (ks vs : List Nat) : List Nat :=
  (ks.zip vs).foldl (fun t p => t.set p.1 p.2) t

theorem zipSet_length (t ks vs : List Nat) : (zipSet t ks vs).length = t.length := by
  unfold zipSet
  induction ks generalizing t vs with
  | nil => rfl
  | cons k ks ih =>
    cases vs with
    | nil => rfl
    | cons v vs => simp only [List.zip_cons_cons, List.foldl_cons]; rw [ih]; simp

theorem zipSet_not_mem (t ks vs : List Nat) {p : Nat} (hp : p ∉ ks) :
    (zipSet t ks vs).getD p 0 = t.getD p 0 := by
  unfold zipSet
  induction ks generalizing t vs with
  | nil => rfl
  | cons k ks ih =>
    cases vs with
    | nil => rfl
    | cons v vs =>
      simp only [List.zip_cons_cons, List.foldl_cons]
      rw [ih _ _ (fun h => hp (by simp [h]))]
      have : k ≠ p := fun h => hp (by simp [h])
      simp [List.getD_eq_getElem?_getD, List.getElem?_set, this]

theorem zipSet_mem (t ks vs : List Nat) (hnd : ks.Nodup) (hlen : vs.length = ks.length)
    (hlt : ∀ k ∈ ks, k < t.length) {i : Nat} (hi : i < ks.length) :
    (zipSet t ks vs).getD (ks.getD i 0) 0 = vs.getD i 0 := by
  induction ks generalizing t vs i with
  | nil => simp at hi
  | cons k ks ih =>
    cases vs with
    | nil => simp at hlen
    | cons v vs =>
      have hnd' := List.nodup_cons.mp hnd
      cases i with
      | zero =>
        show (zipSet (t.set k v) ks vs).getD k 0 = v
        rw [zipSet_not_mem _ _ _ hnd'.1]
        have := hlt k (by simp)
        simp [List.getD_eq_getElem?_getD, List.getElem?_set, this]
      | succ i =>
        show (zipSet (t.set k v) ks vs).getD (ks.getD i 0) 0 = vs.getD i 0
        exact ih (t.set k v) vs hnd'.2 (by simpa using hlen)
          (fun k' hk' => by rw [List.length_set]; exact hlt k' (by simp [hk'])) (by simpa using hi)

/-- a strictly increasing sequence of `n` numbers below `n` is `0, 1, …, n-1` -/
theorem strictInc_id {L : List Nat} (hs : L.Pairwise (· < ·)) (hlt : ∀ x ∈ L, x < L.length)
    {k : Nat} (hk : k < L.length) : L.getD k 0 = k := by
  have hstep : ∀ d k, k + d < L.length → L.getD k 0 + d ≤ L.getD (k + d) 0 := by
    intro d
    induction d with
    | zero => intro k _; simp
    | succ d ih =>
      intro k hkd
      have h1 := ih k (by omega)
      have h2 := sorted_getD_lt hs (show k + d < k + (d + 1) by omega) hkd
      omega
  have lo := hstep k 0 (by omega)
  have hi := hstep (L.length - 1 - k) k (by omega)
  have hm := hlt _ (getD_mem (show k + (L.length - 1 - k) < L.length by omega))
  simp only [Nat.zero_add] at lo
  omega

theorem chainLe_sorted : ∀ (last : Nat) (l : List Nat), chainLe last l = true →
    (∀ x ∈ l, last ≤ x) ∧ Sorted l
  | _, [], _ => ⟨fun _ h => by simp at h, List.Pairwise.nil⟩
  | last, x :: xs, h => by
    simp only [chainLe, Bool.and_eq_true, decide_eq_true_eq] at h
    obtain ⟨h1, h2⟩ := chainLe_sorted x xs h.2
    refine ⟨fun y hy => ?_, List.pairwise_cons.mpr ⟨h1, h2⟩⟩
    rcases List.mem_cons.mp hy with rfl | hy
    · exact h.1
    · exact Nat.le_trans h.1 (h1 y hy)

theorem Inv.toL {ext : Nat → Nat} {s : SStore} (hinv : Inv ext s) :
    InvL ext (List.range s.tables.length) id s where
  len := List.length_range
  pos_lab := fun p hp => by rw [List.length_range] at hp; rw [range_getD hp]; rfl
  tbl_iff := fun p hp i => by
    rw [List.length_range] at hp; rw [range_getD hp]; exact hinv.tbl_iff p i
  live_lab := fun i n hn => by
    have hlt : n.level < s.tables.length := by
      apply Classical.byContradiction
      intro hc
      have := (hinv.tbl_iff n.level i).mpr ⟨n, hn, rfl⟩
      rw [table_of_ge (by omega)] at this; cases this
    exact ⟨by rw [List.length_range]; exact hlt, range_getD hlt⟩
  tbl_nodup := hinv.tbl_nodup
  ordered := hinv.ordered
  nored := hinv.nored
  uniq := hinv.uniq
  rc := hinv.rc


/-! ## from the state after the two steps to the final store -/

theorem mem_getD_of_mem {L : List Nat} {x : Nat} (h : x ∈ L) : ∃ k, k < L.length ∧ L.getD k 0 = x := by
  obtain ⟨k, hk, e⟩ := List.mem_iff_getElem.mp h
  exact ⟨k, hk, by simp [List.getD_eq_getElem?_getD, List.getElem?_eq_getElem hk, e]⟩

theorem sorted_getD_le {L : List Nat} (hs : Sorted L) {k1 k2 : Nat} (h12 : k1 < k2)
    (h2 : k2 < L.length) : L.getD k1 0 ≤ L.getD k2 0 := by
  have h1 : k1 < L.length := by omega
  have e1 : L.getD k1 0 = L[k1] := by simp [List.getD_eq_getElem?_getD, List.getElem?_eq_getElem h1]
  have e2 : L.getD k2 0 = L[k2] := by simp [List.getD_eq_getElem?_getD, List.getElem?_eq_getElem h2]
  rw [e1, e2]
  exact List.pairwise_iff_getElem.mp hs k1 k2 h1 h2 h12

theorem finish {ext : Nat → Nat} {fromNe l2v0 target seq1 : List Nat} {pos1 : Nat → Nat}
    {r1 r2 : RState} {n : Nat}
    (hr1 : RInv ext fromNe l2v0 pos1 r1) (hn : r1.toPre.length = n)
    (hfs : fromNe.Pairwise (· < ·))
    (hseq_len : seq1.length = fromNe.length) (hsorted : Sorted seq1)
    (hseq : ∀ k, k < fromNe.length →
      seq1.getD k 0 = target.getD (r1.toPre.getD (fromNe.getD k 0) 0) 0)
    (htinj : ∀ a b, a < n → b < n → target.getD a 0 = target.getD b 0 → a = b)
    (hpre1 : ∀ p, p < n → r1.toPre.getD p 0 < n)
    (hw2 : InvW ext r2.toPre r2.s) (hheap : r2.s.h = r1.s.h) (hn2 : r2.toPre.length = n)
    (hpre2 : ∀ p, p < n → r2.toPre.getD p 0 < n)
    (hT : ∀ p, p < n → target.getD (r2.toPre.getD p 0) 0 = p) :
    Inv ext (updateLevels r2) ∧ (updateLevels r2).tables.length = n ∧
    ∀ i nd, r1.s.h.sh i = some nd →
      (updateLevels r2).h.sh i = some ⟨target.getD nd.level 0, nd.t, nd.e⟩ := by
  have hsh : ∀ i nd, r2.s.h.sh i = some nd →
      (updateLevels r2).h.sh i = some ⟨target.getD nd.level 0, nd.t, nd.e⟩ ∧
      target.getD nd.level 0 < n ∧ nd.level < n ∧ i ∈ r2.s.table (target.getD nd.level 0) := by
    intro i nd hnd
    obtain ⟨p, hp, hlp⟩ := hw2.live_lab i nd hnd
    have hpn : p < n := hn2 ▸ hp
    have hTp := hT p hpn
    rw [hlp] at hTp
    refine ⟨?_, hTp ▸ hpn, hlp ▸ hpre2 p hpn, ?_⟩
    · rw [hTp]; exact updateLevels_sh hw2 hnd hp hlp
    · rw [hTp]; exact (hw2.tbl_iff p hp i).mpr ⟨nd, hnd, hlp.symm⟩
  have hsh' : ∀ i n', (updateLevels r2).h.sh i = some n' →
      ∃ nd, r2.s.h.sh i = some nd ∧ n' = ⟨target.getD nd.level 0, nd.t, nd.e⟩ := by
    intro i n' hn'
    cases hs : r2.s.h.sh i with
    | none => rw [updateLevels_sh_none hs] at hn'; cases hn'
    | some nd =>
      refine ⟨nd, rfl, ?_⟩
      rw [(hsh i nd hs).1] at hn'; cases hn'; rfl
  have htl : (updateLevels r2).tables = r2.s.tables := rfl
  have htbl : ∀ p, (updateLevels r2).table p = r2.s.table p := fun p => rfl
  have hlen2 : r2.s.tables.length = n := by rw [← hw2.len, hn2]
  -- the order of the targets agrees with the order of the positions after the first step
  have hmono : ∀ j1 x1 j2 x2, r1.s.h.sh j1 = some x1 → r1.s.h.sh j2 = some x2 →
      pos1 x1.level < pos1 x2.level → target.getD x1.level 0 < target.getD x2.level 0 := by
    intro j1 x1 j2 x2 h1 h2 hlt
    have key : ∀ j x, r1.s.h.sh j = some x → ∃ k, k < fromNe.length ∧
        fromNe.getD k 0 = pos1 x.level ∧ seq1.getD k 0 = target.getD x.level 0 ∧ x.level < n := by
      intro j x hx
      obtain ⟨g1, g2⟩ := hr1.inv.live_lab j x hx
      have hmem : pos1 x.level ∈ fromNe := by
        apply Classical.byContradiction
        intro hc
        have := hr1.inv.table_empty hx
        rw [hr1.empty _ hc] at this; cases this
      obtain ⟨k, hk, e⟩ := mem_getD_of_mem hmem
      refine ⟨k, hk, e, ?_, ?_⟩
      · rw [hseq k hk, e, g2]
      · rw [← g2]; exact hpre1 _ (hn ▸ g1)
    obtain ⟨k1, hk1, e1, s1, l1⟩ := key j1 x1 h1
    obtain ⟨k2, hk2, e2, s2, l2⟩ := key j2 x2 h2
    have hk : k1 < k2 := by
      apply Classical.byContradiction
      intro hc
      rcases Nat.lt_or_ge k2 k1 with c | c
      · have := sorted_getD_lt hfs c hk1; omega
      · have : k1 = k2 := by omega
        subst this; omega
    have hle := sorted_getD_le hsorted hk (hseq_len ▸ hk2)
    rw [s1, s2] at hle
    rcases Nat.lt_or_ge (target.getD x1.level 0) (target.getD x2.level 0) with c | c
    · exact c
    · exfalso
      have := htinj _ _ l1 l2 (by omega)
      rw [this] at hlt; omega
  refine ⟨{ tbl_iff := ?_, tbl_nodup := ?_, ordered := ?_, nored := ?_, uniq := ?_, rc := ?_ },
    hlen2, fun i nd h => (hsh i nd (hheap ▸ h)).1⟩
  · intro l i
    rw [htbl]
    constructor
    · intro hi
      have hl : l < n := by
        apply Classical.byContradiction
        intro hc
        rw [table_of_ge (by omega)] at hi; cases hi
      obtain ⟨nd, hnd, hlv⟩ := (hw2.tbl_iff l (hn2 ▸ hl) i).mp hi
      refine ⟨_, (hsh i nd hnd).1, ?_⟩
      simp only; rw [hlv]; exact hT l hl
    · rintro ⟨n', hn', hl⟩
      obtain ⟨nd, hnd, rfl⟩ := hsh' i n' hn'
      simp only at hl
      rw [← hl]; exact (hsh i nd hnd).2.2.2
  · intro p; rw [htbl]; exact hw2.tbl_nodup p
  · intro i n' hn' k hc
    obtain ⟨nd, hnd, rfl⟩ := hsh' i n' hn'
    simp only at hc
    have hkl := hw2.closed i nd hnd k hc
    cases hm : r2.s.h.sh k with
    | none => exact absurd hm hkl
    | some m =>
      refine ⟨_, (hsh k m hm).1, ?_⟩
      simp only
      obtain ⟨m', hm', hlt⟩ := hr1.inv.ordered i nd (hheap ▸ hnd) k hc
      have : m' = m := by rw [← hheap, hm] at hm'; cases hm'; rfl
      subst this
      exact hmono i nd k m' (hheap ▸ hnd) hm' hlt
  · intro i n' hn'
    obtain ⟨nd, hnd, rfl⟩ := hsh' i n' hn'
    exact hw2.nored i nd hnd
  · intro i j n' hi hj
    obtain ⟨nd, hnd, e1⟩ := hsh' i n' hi
    obtain ⟨nd', hnd', e2⟩ := hsh' j n' hj
    rw [e1] at e2
    injection e2 with e3 e4 e5
    have := htinj _ _ (hsh i nd hnd).2.2.1 (hsh j nd' hnd').2.2.1 e3
    have hndeq : nd = nd' := by cases nd; cases nd'; simp_all
    subst hndeq
    exact hw2.uniq i j nd hnd hnd'
  · have := RCx_updLoop (r := r2) (List.range r2.s.tables.length) hw2.rc
    have this : RCx (fun k => live01 r2.s.h k + ext k) (updateLevels r2).h := this
    refine this.congr (fun k => ?_)
    simp only [live01]
    cases hs : r2.s.h.sh k with
    | none => rw [updateLevels_sh_none hs]
    | some nd => rw [(hsh k nd hs).1]; rfl


/-! ## the result of `set_var_order` -/

/-- what `set_var_order` guarantees, relative to the target order `target` (`sort_order`):
the store invariant, the number of levels, a witness `lab` of where every level view came from
(position `p` finally holds the view — and the variable — that was at position `lab[p]`, and the
target of that view was `p`), and every external handle evaluates, under every assignment `ρ` of
the *variables*, to the same value as before. -/
structure SetOrderRes (ext : Nat → Nat) (s : SStore) (n : Nat) (l2v target : List Nat)
    (res : SStore × List Nat) : Prop where
  inv : Inv ext res.1
  len : res.1.tables.length = n
  placed : ∃ lab : List Nat, ∀ p, p < n →
    lab.getD p 0 < n ∧ target.getD (lab.getD p 0) 0 = p ∧
    res.2.getD p 0 = l2v.getD (lab.getD p 0) 0
  eval : ∀ k, 0 < ext k → ∀ (ρ : Nat → Bool) v,
    Ev s.h.sh (fun ℓ => ρ (l2v.getD ℓ 0)) (.inner k) v →
    Ev res.1.h.sh (fun p => ρ (res.2.getD p 0)) (.inner k) v

theorem nonfix_le (tgt : List Nat) (n : Nat) : nonfix tgt n ≤ n := by
  unfold nonfix
  induction n with
  | zero => simp [sumTo]
  | succ n ih => rw [sumTo_succ]; split <;> omega

/-- the facts about the state after the node-free part that the end of the proof needs -/
structure Phi (ext : Nat → Nat) (l2v0 target : List Nat) (h1 : Heap) (n : Nat) (r : RState)
    (tgt : List Nat) : Prop where
  w : InvW ext r.toPre r.s
  heap : r.s.h = h1
  len : r.toPre.length = n
  pre_lt : ∀ p, p < n → r.toPre.getD p 0 < n
  tgt_eq : ∀ p, p < n → tgt.getD p 0 = target.getD (r.toPre.getD p 0) 0
  l2v_eq : ∀ p, p < n → r.l2v.getD p 0 = l2v0.getD (r.toPre.getD p 0) 0

theorem Phi.swapViews {ext : Nat → Nat} {l2v0 target : List Nat} {h1 : Heap} {n : Nat} {r : RState}
    {tgt : List Nat} (h : Phi ext l2v0 target h1 n r tgt) (hl2v : r.l2v.length = n)
    (htl : tgt.length = n) {i j : Nat} (hi : i < n) (hj : j < n) :
    Phi ext l2v0 target h1 n (r.swapViews i j) (swapIdx tgt i j) ∧
    (r.swapViews i j).l2v.length = n := by
  have hi' : i < r.toPre.length := h.len ▸ hi
  have hj' : j < r.toPre.length := h.len ▸ hj
  have e1 : ∀ p, (r.swapViews i j).toPre.getD p 0 = r.toPre.getD (tr i j p) 0 :=
    fun p => swapIdx_getD_tr r.toPre hi' hj' p
  have e2 : ∀ p, (swapIdx tgt i j).getD p 0 = tgt.getD (tr i j p) 0 :=
    fun p => swapIdx_getD_tr tgt (htl ▸ hi) (htl ▸ hj) p
  have e3 : ∀ p, (r.swapViews i j).l2v.getD p 0 = r.l2v.getD (tr i j p) 0 :=
    fun p => swapIdx_getD_tr r.l2v (hl2v ▸ hi) (hl2v ▸ hj) p
  refine ⟨{ w := h.w.swapViews hi' hj', heap := h.heap, len := ?_, pre_lt := ?_, tgt_eq := ?_,
            l2v_eq := ?_ }, ?_⟩
  · show (swapIdx r.toPre i j).length = n
    rw [swapIdx_length]; exact h.len
  · intro p hp; rw [e1]; exact h.pre_lt _ (tr_lt hi hj hp)
  · intro p hp; rw [e2, e1]; exact h.tgt_eq _ (tr_lt hi hj hp)
  · intro p hp; rw [e3, e1]; exact h.l2v_eq _ (tr_lt hi hj hp)
  · show (swapIdx r.l2v i j).length = n
    rw [swapIdx_length]; exact hl2v

/-- from the state after the first step (`r1`) and the state after the node-free second step
(`r2`) to the guarantees of `set_var_order` -/
theorem tail2 {ext : Nat → Nat} {s : SStore} {n : Nat} {l2v target fromNe seq1 : List Nat}
    {pos1 : Nat → Nat} {r1 r2 : RState}
    (hr1 : RInv ext fromNe l2v pos1 r1) (hn : r1.toPre.length = n)
    (hfs : fromNe.Pairwise (· < ·))
    (hseq_len : seq1.length = fromNe.length) (hsorted : Sorted seq1)
    (hseq : ∀ k, k < fromNe.length →
      seq1.getD k 0 = target.getD (r1.toPre.getD (fromNe.getD k 0) 0) 0)
    (htinj : ∀ a b, a < n → b < n → target.getD a 0 = target.getD b 0 → a = b)
    (hpre1 : ∀ p, p < n → r1.toPre.getD p 0 < n)
    (hev1 : ∀ σ k v, 0 < ext k → Ev s.h.sh σ (.inner k) v → Ev r1.s.h.sh σ (.inner k) v)
    {tgt : List Nat} (hphi : Phi ext l2v target r1.s.h n r2 tgt)
    (hT : ∀ p, p < n → tgt.getD p 0 = p) :
    SetOrderRes ext s n l2v target (updateLevels r2, r2.l2v) := by
  have hT' : ∀ p, p < n → target.getD (r2.toPre.getD p 0) 0 = p :=
    fun p hp => (hphi.tgt_eq p hp).symm.trans (hT p hp)
  obtain ⟨hinv, hlen, hsh⟩ := finish hr1 hn hfs hseq_len hsorted hseq htinj hpre1 hphi.w hphi.heap
    hphi.len hphi.pre_lt hT'
  refine { inv := hinv, len := hlen, placed := ⟨r2.toPre, fun p hp =>
    ⟨hphi.pre_lt p hp, hT' p hp, hphi.l2v_eq p hp⟩⟩, eval := ?_ }
  intro k hk ρ v hv
  have h1 := hev1 _ k v hk hv
  refine Ev.relabel (fun ℓ => target.getD ℓ 0) (fun i nd hnd => ?_) h1
  refine ⟨hsh i nd hnd, ?_⟩
  obtain ⟨p, hp, hlp⟩ := hphi.w.live_lab i nd (hphi.heap ▸ hnd)
  have hpn : p < n := hphi.len ▸ hp
  have hTp := hT' p hpn
  rw [hlp] at hTp
  show ρ ((r2.l2v).getD (target.getD nd.level 0) 0) = ρ (l2v.getD nd.level 0)
  rw [hTp, hphi.l2v_eq p hpn, hlp]

/-! ## `set_var_order` -/

/-- **`setVarOrderS_spec`**: the model of `set_var_order_common` — bubble sort over the non-empty
level views with the lazy general `level_swap`, the node-free second step, `update_levels` —
re-establishes the store invariant, places every level view at its target position and
preserves the value of every external handle under every assignment of the variables. `input`
is the request translated to levels (`order.map var_to_level`), which `sort_order` requires to be
duplicate free and in range. -/
theorem setVarOrderS_spec {ext : Nat → Nat} {s : SStore} {al : Heap → Nat}
    {ord : List Nat → List Nat} (hal : AllocOK al) (hord : OrderOK ord) (hinv : Inv ext s)
    (l2v order : List Nat) (hl2v : l2v.length = s.tables.length)
    (hnd : (order.map fun v => l2v.idxOf v).Nodup)
    (hlt : ∀ x ∈ order.map (fun v => l2v.idxOf v), x < s.tables.length) :
    SetOrderRes ext s s.tables.length l2v
      (sortOrder s.tables.length (order.map fun v => l2v.idxOf v))
      (setVarOrderS al ord s l2v order) := by
  generalize hn : s.tables.length = n at *
  generalize htg : sortOrder n (order.map fun v => l2v.idxOf v) = target
  obtain ⟨htlen, htlt, htnd⟩ := sortOrder_perm n _ hnd hlt
  rw [htg] at htlen htlt htnd
  have hgetD : ∀ a (ha : a < n), target.getD a 0 = target[a]'(htlen ▸ ha) := fun a ha => by
    simp [List.getD_eq_getElem?_getD, List.getElem?_eq_getElem (htlen ▸ ha)]
  have htlt' : ∀ a, a < n → target.getD a 0 < n := fun a ha => by
    rw [hgetD a ha]; exact htlt _ (List.getElem_mem _)
  have htinj : ∀ a b, a < n → b < n → target.getD a 0 = target.getD b 0 → a = b := by
    intro a b ha hb e
    rw [hgetD a ha, hgetD b hb] at e
    have hpw := List.pairwise_iff_getElem.mp (List.nodup_iff_pairwise_ne.mp htnd)
    rcases Nat.lt_trichotomy a b with c | c | c
    · exact absurd e (hpw a b _ _ c)
    · exact c
    · exact absurd e.symm (hpw b a _ _ c)
  have hself : ∀ a, a < n → target.getD a a = target.getD a 0 := fun a ha =>
    getD_self_eq (htlen ▸ ha)
  -- unfold the definition
  unfold setVarOrderS
  simp only [hn, htg]
  split
  · -- already sorted
    rename_i hsorted
    simp only [List.all_eq_true, List.mem_range, beq_iff_eq] at hsorted
    refine { inv := hinv, len := hn, placed := ⟨List.range n, fun p hp => ?_⟩,
             eval := fun k _ ρ v hv => hv }
    rw [range_getD hp]
    have := hsorted p hp
    rw [hself p hp] at this
    exact ⟨hp, this, rfl⟩
  · -- the reordering
    generalize hfne : (List.range n).filter (fun l => !(s.table l).isEmpty) = fromNe
    have hfs : fromNe.Pairwise (· < ·) := hfne ▸ List.Pairwise.filter _ List.pairwise_lt_range
    have hfmem : ∀ p, p ∈ fromNe ↔ p < n ∧ s.table p ≠ [] := by
      intro p; rw [← hfne]; simp [List.mem_filter]
    have hflt : ∀ p ∈ fromNe, p < n := fun p hp => ((hfmem p).mp hp).1
    have hr0 : RInv ext fromNe l2v id ⟨s, List.range n, l2v⟩ :=
      { inv := hn ▸ hinv.toL
        empty := fun p hp => by
          by_cases hpn : p < n
          · apply Classical.byContradiction
            intro hc; exact hp ((hfmem p).mpr ⟨hpn, hc⟩)
          · exact table_of_ge (by rw [hn]; omega)
        l2v_len := by simp [hl2v]
        l2v_eq := fun p hp => by
          simp only [List.length_range] at hp
          simp only [range_getD hp] }
    have hpre0 : ∀ p, p < n → (List.range n).getD p 0 < n := fun p hp => by rw [range_getD hp]; exact hp
    have hinj0 : ∀ p q, p < n → q < n → (List.range n).getD p 0 = (List.range n).getD q 0 → p = q :=
      fun p q hp hq e => by rwa [range_getD hp, range_getD hq] at e
    generalize hnt : fromNe.map (fun l => target.getD l l) = neTarget
    have hntlen : neTarget.length = fromNe.length := by rw [← hnt]; simp
    have hntget : ∀ k, k < fromNe.length → neTarget.getD k 0 = target.getD (fromNe.getD k 0) 0 := by
      intro k hk
      have e : fromNe.getD k 0 = fromNe[k] := by
        simp [List.getD_eq_getElem?_getD, List.getElem?_eq_getElem hk]
      rw [← hnt, e]
      simp only [List.getD_eq_getElem?_getD, List.getElem?_map, List.getElem?_eq_getElem hk,
        Option.map_some, Option.getD_some]
      have := hself fromNe[k] (hflt _ (List.getElem_mem _))
      simpa [List.getD_eq_getElem?_getD] using this
    have hntget0 : ∀ k, k < fromNe.length →
        neTarget.getD k 0 = target.getD ((List.range n).getD (fromNe.getD k 0) 0) 0 := by
      intro k hk
      rw [hntget k hk, range_getD (hflt _ (getD_mem hk))]
    -- the two node-free tails
    have htail : ∀ (pos1 : Nat → Nat) (r1 : RState) (seq1 tgt : List Nat),
        RInv ext fromNe l2v pos1 r1 → r1.toPre.length = n →
        seq1.length = fromNe.length → Sorted seq1 →
        (∀ k, k < fromNe.length →
          seq1.getD k 0 = target.getD (r1.toPre.getD (fromNe.getD k 0) 0) 0) →
        (∀ p, p < n → r1.toPre.getD p 0 < n) →
        (∀ σ k v, 0 < ext k → Ev s.h.sh σ (.inner k) v → Ev r1.s.h.sh σ (.inner k) v) →
        tgt.length = n → (∀ p, p < n → tgt.getD p 0 = target.getD (r1.toPre.getD p 0) 0) →
        SetOrderRes ext s n l2v target
          (updateLevels (step2 (n * n + n) 0 r1 tgt), (step2 (n * n + n) 0 r1 tgt).l2v) := by
      intro pos1 r1 seq1 tgt hr1 hlen1 hsl hss hsq hp1 hev1 htl hteq
      have hphi0 : Phi ext l2v target r1.s.h n r1 tgt ∧ r1.l2v.length = n :=
        ⟨{ w := hr1.inv.toW, heap := rfl, len := hlen1, pre_lt := hp1, tgt_eq := hteq,
           l2v_eq := fun p hp => hr1.l2v_eq p (hlen1 ▸ hp) }, hr1.l2v_len.trans hlen1⟩
      obtain ⟨tgt', ⟨hphi', _⟩, _, hfix⟩ := step2_spec (n := n)
        (fun r t => Phi ext l2v target r1.s.h n r t ∧ r.l2v.length = n ∧ t.length = n)
        (fun r t i j h hi hj => by
          obtain ⟨a, b⟩ := h.1.swapViews h.2.1 h.2.2 hi hj
          exact ⟨a, b, by rw [swapIdx_length]; exact h.2.2⟩)
        (n * n + n) 0 r1 tgt htl
        (fun p hp => by rw [hteq p hp]; exact htlt' _ (hp1 p hp))
        (fun p q hp hq e => by
          rw [hteq p hp, hteq q hq] at e
          have := htinj _ _ (hp1 p hp) (hp1 q hq) e
          exact hr1.inv.lab_inj (hlen1 ▸ hp) (hlen1 ▸ hq) this)
        (fun p hp => by omega) (Nat.zero_le _)
        (by have := nonfix_le tgt n
            have : n ≤ n * n := by
              cases n with
              | zero => omega
              | succ m => exact Nat.le_mul_of_pos_left _ (by omega)
            omega)
        ⟨hphi0.1, hphi0.2, htl⟩
      exact tail2 hr1 hlen1 hfs hsl hss hsq htinj hp1 hev1 hphi' hfix
    split
    · -- the non-empty levels have to be sorted
      rename_i hns
      generalize hbs : bubbleSort neTarget.length neTarget = bs
      have hsw := bubbleSort_swaps neTarget neTarget.length
      rw [hbs] at hsw
      have hsorted1 : Sorted bs.1 := hbs ▸ bubbleSort_sorted neTarget neTarget.length (Nat.le_refl _)
      have hswlt : ∀ i ∈ bs.2, i + 1 < fromNe.length :=
        fun i hi => hntlen ▸ validSwaps_lt hsw.2.1 i hi
      have hr0lt : ∀ p ∈ fromNe, p < (RState.mk s (List.range n) l2v).toPre.length := by
        intro p hp; simp only [List.length_range]; exact hflt p hp
      obtain ⟨pos1, hr1, hlen1, hev1⟩ := swapsG_spec hal hord hfs bs.2 hswlt hr0 hr0lt
      obtain ⟨t1, t2, t3, t4⟩ := swapsG_track al ord hfs (fun ℓ => target.getD ℓ 0) n bs.2 hswlt
        (r := ⟨s, List.range n, l2v⟩) (seq := neTarget) hr0lt hntlen hntget0
        (by simpa using hpre0) (by simpa using hinj0)
      rw [hsw.1] at t1
      simp only [List.length_range] at hlen1 t3 t4
      have hbs1len : bs.1.length = fromNe.length := by rw [← hsw.1, applySwaps_length]; exact hntlen
      -- name the state after the first step
      have hfold : bs.2.foldl (fun r i => levelSwapG al ord r (fromNe.getD i 0) (fromNe.getD (i + 1) 0))
          ⟨s, List.range n, l2v⟩ = swapsG al ord fromNe ⟨s, List.range n, l2v⟩ bs.2 := rfl
      rw [hfold]
      generalize swapsG al ord fromNe ⟨s, List.range n, l2v⟩ bs.2 = r1 at *
      split
      · -- all levels are non-empty: done after the first step
        rename_i hall
        simp only [if_true]
        have hfid : ∀ k, k < n → fromNe.getD k 0 = k := fun k hk =>
          strictInc_id hfs (fun x hx => hall ▸ hflt x hx) (hall ▸ hk)
        -- the sorted sequence of targets is `0 … n-1`
        have hb_inj : bs.1.Pairwise (· < ·) := by
          rw [List.pairwise_iff_getElem]
          intro a b ha hb hab
          have hle := sorted_getD_le hsorted1 hab hb
          have ea : bs.1.getD a 0 = bs.1[a] := by
            simp [List.getD_eq_getElem?_getD, List.getElem?_eq_getElem ha]
          have eb : bs.1.getD b 0 = bs.1[b] := by
            simp [List.getD_eq_getElem?_getD, List.getElem?_eq_getElem hb]
          rw [ea, eb] at hle
          rcases Nat.lt_or_ge bs.1[a] bs.1[b] with c | c
          · exact c
          · exfalso
            have han : a < n := by omega
            have hbn : b < n := by omega
            have e : bs.1.getD a 0 = bs.1.getD b 0 := by rw [ea, eb]; omega
            rw [t1 a (by omega), t1 b (by omega), hfid a han, hfid b hbn] at e
            have := t4 a b han hbn (htinj _ _ (t3 a han) (t3 b hbn) e)
            omega
        have hbid : ∀ k, k < n → bs.1.getD k 0 = k := by
          intro k hk
          apply strictInc_id hb_inj _ (by omega)
          intro x hx
          obtain ⟨k', hk', e⟩ := mem_getD_of_mem hx
          rw [← e, t1 k' (by omega), hbs1len, hall]
          exact htlt' _ (t3 _ (by rw [hfid k' (by omega)]; omega))
        have hT1 : ∀ p, p < n → target.getD (r1.toPre.getD p 0) 0 = p := by
          intro p hp
          have := t1 p (by omega)
          rw [hfid p hp, hbid p hp] at this
          exact this.symm
        have hphi : Phi ext l2v target r1.s.h n r1 (List.range n) :=
          { w := hr1.inv.toW, heap := rfl, len := hlen1, pre_lt := t3,
            tgt_eq := fun p hp => by rw [range_getD hp, hT1 p hp]
            l2v_eq := fun p hp => hr1.l2v_eq p (hlen1 ▸ hp) }
        exact tail2 hr1 hlen1 hfs hbs1len hsorted1 t1 htinj t3 hev1 hphi (fun p hp => range_getD hp)
      · -- move the views (including the empty ones) to their positions
        rename_i hnall
        simp only [Bool.false_eq_true, if_false]
        have hfnd : fromNe.Nodup := hfs.imp (fun h => Nat.ne_of_lt h)
        refine htail pos1 r1 bs.1 _ hr1 hlen1 hbs1len hsorted1 t1 t3 hev1
          (by show (zipSet target fromNe bs.1).length = n; rw [zipSet_length]; exact htlen)
          (fun p hp => ?_)
        show (zipSet target fromNe bs.1).getD p 0 = _
        by_cases hpf : p ∈ fromNe
        · obtain ⟨k, hk, e⟩ := mem_getD_of_mem hpf
          rw [← e, zipSet_mem target fromNe bs.1 hfnd hbs1len (fun x hx => htlen ▸ hflt x hx) hk]
          exact t1 k hk
        · rw [zipSet_not_mem _ _ _ hpf, t2 p hpf, range_getD hp]
    · -- the non-empty levels are in the right relative order already
      rename_i hns
      simp only [Bool.false_eq_true, if_false]
      have hcl : chainLe 0 neTarget = true := by
        simpa using hns
      refine htail id ⟨s, List.range n, l2v⟩ neTarget target hr0 (by simp) hntlen
        (chainLe_sorted 0 neTarget hcl).2 hntget0 hpre0 (fun σ k v _ h => h) htlen
        (fun p hp => by rw [range_getD hp])

end OxiddModel.Reorder.SwapStore

namespace OxiddModel.Reorder.SwapStore
open OxiddModel.Bdd OxiddModel.Bdd.BDD OxiddModel.Bdd.Refine OxiddModel.Reorder

/-- every level view ends at its target: the variable of the old level `a` is at level
`target[a]` afterwards -/
theorem SetOrderRes.placed' {ext : Nat → Nat} {s : SStore} {n : Nat} {l2v target : List Nat}
    {res : SStore × List Nat} (h : SetOrderRes ext s n l2v target res)
    (htlt : ∀ a, a < n → target.getD a 0 < n)
    (htinj : ∀ a b, a < n → b < n → target.getD a 0 = target.getD b 0 → a = b)
    {a : Nat} (ha : a < n) : res.2.getD (target.getD a 0) 0 = l2v.getD a 0 := by
  obtain ⟨lab, hlab⟩ := h.placed
  obtain ⟨h1, h2, h3⟩ := hlab (target.getD a 0) (htlt a ha)
  rw [h3, htinj _ _ h1 ha h2]

/-- the request translated to levels is duplicate free and in range when the request is
duplicate free and names variables of the manager -/
theorem order_levels_ok {l2v order : List Nat} (hnd : order.Nodup) (hmem : ∀ v ∈ order, v ∈ l2v) :
    (order.map fun v => l2v.idxOf v).Nodup ∧
    ∀ x ∈ order.map (fun v => l2v.idxOf v), x < l2v.length := by
  constructor
  · induction order with
    | nil => exact List.nodup_nil
    | cons v vs ih =>
      have hv := List.nodup_cons.mp hnd
      rw [List.map_cons, List.nodup_cons]
      refine ⟨?_, ih hv.2 (fun w hw => hmem w (by simp [hw]))⟩
      intro hc
      obtain ⟨w, hw, e⟩ := List.mem_map.mp hc
      have h1 := hmem v (by simp)
      have h2 := hmem w (by simp [hw])
      have e1 := List.getElem_idxOf (List.idxOf_lt_length_of_mem h1)
      have e2 := List.getElem_idxOf (List.idxOf_lt_length_of_mem h2)
      have : w = v := by
        rw [← e1, ← e2]; simp only [e]
      exact hv.1 (this ▸ hw)
  · intro x hx
    obtain ⟨v, hv, rfl⟩ := List.mem_map.mp hx
    exact List.idxOf_lt_length_of_mem (hmem v hv)

end OxiddModel.Reorder.SwapStore
#print axioms OxiddModel.Reorder.SwapStore.setVarOrderS_spec
