import OxiddModel.Reorder.SwapStore
import OxiddModel.Reorder.Model

/-!
# `set_var_order` on the node store (model)

`set_var_order_common` (crates/oxidd-reorder/src/set_var_order/mod.rs) on the store model of
`SwapStore.lean`: compute the target order (`sortOrder`, `Model.lean`), bring the **non-empty**
levels into the right relative order by `bubble_sort`, where the swap of the `i`-th and `i+1`-th
non-empty level is the general `level_swap(u, l, up, lp)` with the *lazy* level numbers
`to_pre` (the numbers stored in the nodes are only rewritten at the very end), then move the
level views to their final positions without touching nodes, and finally `update_levels`.

`levelSwapS` of `SwapStore.lean` already is the general `level_swap` (it takes the two tables and
the two stored level numbers); `levelSwapG` adds the bookkeeping of the caller's closure
(`to_pre`) and of `LevelView::swap` (the level↔variable map).
-/
namespace OxiddModel.Reorder.SwapStore
open OxiddModel.Bdd OxiddModel.Bdd.Refine OxiddModel.Reorder

/-- exchange two positions of a list -/
def swapIdx {α : Type} [Inhabited α] (l : List α) (i j : Nat) : List α :=
  (l.set i (l.getD j default)).set j (l.getD i default)

/-- the manager during `reorder`: store, `to_pre` (level number stored in the nodes of each
level view) and the level→variable map -/
structure RState where
  s : SStore
  toPre : List Nat
  l2v : List Nat
deriving Repr, DecidableEq

/-- the `swap` closure of `set_var_order_common`: `level_swap(u, l, to_pre[u], to_pre[l])` and the
update of `to_pre`; `LevelView::swap` also swaps the two entries of the level↔variable map -/
def levelSwapG (al : Heap → Nat) (ord : List Nat → List Nat) (r : RState) (u l : Nat) : RState :=
  let up := r.toPre.getD u u
  let lp := r.toPre.getD l l
  let res := levelSwapS al up lp r.s.h (r.s.table u) (r.s.table l) (ord (r.s.table u))
  { s := ⟨res.h, (r.s.tables.set u res.up).set l res.lo⟩
    toPre := (r.toPre.set u lp).set l up
    l2v := swapIdx r.l2v u l }

/-- `ne_sorted`: `target >= last_ne_target` along the non-empty levels, starting from 0 -/
def chainLe : Nat → List Nat → Bool
  | _, [] => true
  | last, x :: xs => decide (last ≤ x) && chainLe x xs

/-- second step: move the level views to their target positions (no node is touched) -/
def step2 : Nat → Nat → RState → List Nat → RState
  | 0, _, r, _ => r
  | fuel + 1, i, r, tgt =>
    match tgt[i]? with
    | none => r
    | some j =>
      if j = i then step2 fuel (i + 1) r tgt
      else
        step2 fuel i
          { s := ⟨r.s.h, swapIdx r.s.tables i j⟩, toPre := swapIdx r.toPre i j,
            l2v := swapIdx r.l2v i j }
          (swapIdx tgt i j)

/-- `update_levels_seq`: write the level number into the nodes of every level whose stored
number differs -/
def updateLevels (r : RState) : SStore :=
  let h := (List.range r.s.tables.length).foldl (fun h p =>
    if p ≠ r.toPre.getD p p then updateLevelNo h (r.s.table p) p else h) r.s.h
  ⟨h, r.s.tables⟩

/-- `set_var_order_common(manager, order, bubble_sort, update_levels_seq)`; `order` lists
variables. Result: the store and the new level→variable map. -/
def setVarOrderS (al : Heap → Nat) (ord : List Nat → List Nat) (s : SStore) (l2v : List Nat)
    (order : List Nat) : SStore × List Nat :=
  let n := s.tables.length
  let target := sortOrder n (order.map fun v => l2v.idxOf v)
  let levels := List.range n
  let fromNe := levels.filter fun l => !(s.table l).isEmpty
  let neTarget := fromNe.map fun l => target.getD l l
  let sorted := levels.all fun l => target.getD l l == l
  if sorted then (s, l2v)
  else
    let r0 : RState := ⟨s, levels, l2v⟩
    let neSorted := chainLe 0 neTarget
    -- first step
    let r1 : RState × List Nat × Bool :=
      if !neSorted then
        let bs := bubbleSort neTarget.length neTarget
        let r := bs.2.foldl (fun r i => levelSwapG al ord r (fromNe.getD i 0) (fromNe.getD (i + 1) 0)) r0
        if fromNe.length = n then (r, target, true)
        else (r, (fromNe.zip bs.1).foldl (fun t p => t.set p.1 p.2) target, false)
      else (r0, target, false)
    let r2 := if r1.2.2 then r1.1 else step2 (n * n + n) 0 r1.1 r1.2.1
    (updateLevels r2, r2.l2v)

end OxiddModel.Reorder.SwapStore
