import OxiddModel.Reorder.SetOrderProof

/-!
# `set_var_order` after the swaps of the first step, as a function of the state they left

`setVarOrderS_spec` (`SetOrderProof.lean`) is stated for the list model whose every `level_swap`
iterates its taken table in the order `ord (table)` for one fixed function `ord`.  On the real
hash tables the iteration order of the `k`-th swap is the slot order of the table as the earlier
swaps left it, which is not a function of the set of ids.  What the correctness proof of
`set_var_order` needs of the swaps, however, is only the state `r1` they leave: the lazy invariant
`RInv`, how `to_pre` was permuted, and that every handle kept its value.

`tailNS` is the rest of `set_var_order_common` (the branch in which the non-empty levels are not
yet in the right relative order) as a function of `r1`; `setVarOrderS_eq_tail` shows that
`setVarOrderS` is `tailNS` of the state after its swaps, and `tailNS_spec` is the part of the proof
of `setVarOrderS_spec` after the swaps, for **any** such `r1` (same proof, hypotheses made
explicit).  `SetOrderHashed.lean` applies it to the abstraction of the hashed state.
-/
namespace OxiddModel.Reorder.SwapStore
open OxiddModel.Bdd OxiddModel.Bdd.BDD OxiddModel.Bdd.Refine OxiddModel.Reorder

/-- the non-empty positions of a store -/
def fromNeOf (s : SStore) : List Nat :=
  (List.range s.tables.length).filter fun l => !(s.table l).isEmpty

/-- `set_var_order_common` after the first step's swaps left `r1` (branch `!ne_sorted`) -/
def tailNS (n : Nat) (target fromNe bs1 : List Nat) (r1 : RState) : SStore × List Nat :=
  let p : RState × List Nat × Bool :=
    if fromNe.length = n then (r1, target, true)
    else (r1, (fromNe.zip bs1).foldl (fun t p => t.set p.1 p.2) target, false)
  let r2 := if p.2.2 then p.1 else step2 (n * n + n) 0 p.1 p.2.1
  (updateLevels r2, r2.l2v)

/-- `setVarOrderS` with the part after the swaps factored out: the three ways
`set_var_order_common` ends -/
def setVarOrderT (al : Heap → Nat) (ord : List Nat → List Nat) (s : SStore) (l2v order : List Nat) :
    SStore × List Nat :=
  let n := s.tables.length
  let target := sortOrder n (order.map fun v => l2v.idxOf v)
  let fromNe := fromNeOf s
  let neTarget := fromNe.map fun l => target.getD l l
  let bs := bubbleSort neTarget.length neTarget
  if (List.range n).all (fun l => target.getD l l == l) then (s, l2v)
  else if !chainLe 0 neTarget then
    tailNS n target fromNe bs.1 (swapsG al ord fromNe ⟨s, List.range n, l2v⟩ bs.2)
  else
    (updateLevels (step2 (n * n + n) 0 ⟨s, List.range n, l2v⟩ target),
      (step2 (n * n + n) 0 ⟨s, List.range n, l2v⟩ target).l2v)

theorem setVarOrderS_eq_tail (al : Heap → Nat) (ord : List Nat → List Nat) (s : SStore)
    (l2v order : List Nat) : setVarOrderS al ord s l2v order = setVarOrderT al ord s l2v order := by
  unfold setVarOrderS setVarOrderT tailNS swapsG fromNeOf
  simp only []
  by_cases h1 : ((List.range s.tables.length).all fun l =>
      (sortOrder s.tables.length (order.map fun v => l2v.idxOf v)).getD l l == l) = true
  · rw [if_pos h1, if_pos h1]
  · rw [if_neg h1, if_neg h1]
    by_cases hns : (!chainLe 0 (((List.range s.tables.length).filter fun l => !(s.table l).isEmpty).map
        fun l => (sortOrder s.tables.length (order.map fun v => l2v.idxOf v)).getD l l)) = true
    · simp only [hns, if_true]
    · simp only [hns, if_false, Bool.false_eq_true]

section
variable {ext : Nat → Nat} {s : SStore} {n : Nat} {l2v target fromNe bs1 : List Nat}
  {pos1 : Nat → Nat} {r1 : RState}

/-- **the end of `set_var_order` for any state `r1` the swaps may have left** -/
theorem tailNS_spec
    (htlen : target.length = n)
    (htlt' : ∀ a, a < n → target.getD a 0 < n)
    (htinj : ∀ a b, a < n → b < n → target.getD a 0 = target.getD b 0 → a = b)
    (hfs : fromNe.Pairwise (· < ·)) (hflt : ∀ p ∈ fromNe, p < n)
    (hr1 : RInv ext fromNe l2v pos1 r1) (hlen1 : r1.toPre.length = n)
    (hev1 : ∀ σ k v, 0 < ext k → Ev s.h.sh σ (.inner k) v → Ev r1.s.h.sh σ (.inner k) v)
    (hsorted1 : Sorted bs1) (hbs1len : bs1.length = fromNe.length)
    (t1 : ∀ k, k < fromNe.length →
      bs1.getD k 0 = target.getD (r1.toPre.getD (fromNe.getD k 0) 0) 0)
    (t2 : ∀ p, p ∉ fromNe → r1.toPre.getD p 0 = (List.range n).getD p 0)
    (t3 : ∀ p, p < n → r1.toPre.getD p 0 < n)
    (t4 : ∀ p q, p < n → q < n → r1.toPre.getD p 0 = r1.toPre.getD q 0 → p = q) :
    SetOrderRes ext s n l2v target (tailNS n target fromNe bs1 r1) := by
  -- the node-free tail
  have htail : ∀ (tgt : List Nat),
      tgt.length = n → (∀ p, p < n → tgt.getD p 0 = target.getD (r1.toPre.getD p 0) 0) →
      SetOrderRes ext s n l2v target
        (updateLevels (step2 (n * n + n) 0 r1 tgt), (step2 (n * n + n) 0 r1 tgt).l2v) := by
    intro tgt htl hteq
    have hphi0 : Phi ext l2v target r1.s.h n r1 tgt ∧ r1.l2v.length = n :=
      ⟨{ w := hr1.inv.toW, heap := rfl, len := hlen1, pre_lt := t3, tgt_eq := hteq,
         l2v_eq := fun p hp => hr1.l2v_eq p (hlen1 ▸ hp) }, hr1.l2v_len.trans hlen1⟩
    obtain ⟨tgt', ⟨hphi', _⟩, _, hfix⟩ := step2_spec (n := n)
      (fun r t => Phi ext l2v target r1.s.h n r t ∧ r.l2v.length = n ∧ t.length = n)
      (fun r t i j h hi hj => by
        obtain ⟨a, b⟩ := h.1.swapViews h.2.1 h.2.2 hi hj
        exact ⟨a, b, by rw [swapIdx_length]; exact h.2.2⟩)
      (n * n + n) 0 r1 tgt htl
      (fun p hp => by rw [hteq p hp]; exact htlt' _ (t3 p hp))
      (fun p q hp hq e => by
        rw [hteq p hp, hteq q hq] at e
        have := htinj _ _ (t3 p hp) (t3 q hq) e
        exact hr1.inv.lab_inj (hlen1 ▸ hp) (hlen1 ▸ hq) this)
      (fun p hp => by omega) (Nat.zero_le _)
      (by have := nonfix_le tgt n
          have : n ≤ n * n := by
            cases n with
            | zero => omega
            | succ m => exact Nat.le_mul_of_pos_left _ (by omega)
          omega)
      ⟨hphi0.1, hphi0.2, htl⟩
    exact tail2 hr1 hlen1 hfs hbs1len hsorted1 t1 htinj t3 hev1 hphi' hfix
  unfold tailNS
  by_cases hall : fromNe.length = n
  · -- all levels are non-empty: done after the first step
    simp only [hall, if_true]
    have hfid : ∀ k, k < n → fromNe.getD k 0 = k := fun k hk =>
      strictInc_id hfs (fun x hx => hall ▸ hflt x hx) (hall ▸ hk)
    have hb_inj : bs1.Pairwise (· < ·) := by
      rw [List.pairwise_iff_getElem]
      intro a b ha hb hab
      have hle := sorted_getD_le hsorted1 hab hb
      have ea : bs1.getD a 0 = bs1[a] := by
        simp [List.getD_eq_getElem?_getD, List.getElem?_eq_getElem ha]
      have eb : bs1.getD b 0 = bs1[b] := by
        simp [List.getD_eq_getElem?_getD, List.getElem?_eq_getElem hb]
      rw [ea, eb] at hle
      rcases Nat.lt_or_ge bs1[a] bs1[b] with c | c
      · exact c
      · exfalso
        have han : a < n := by omega
        have hbn : b < n := by omega
        have e : bs1.getD a 0 = bs1.getD b 0 := by rw [ea, eb]; omega
        rw [t1 a (by omega), t1 b (by omega), hfid a han, hfid b hbn] at e
        have := t4 a b han hbn (htinj _ _ (t3 a han) (t3 b hbn) e)
        omega
    have hbid : ∀ k, k < n → bs1.getD k 0 = k := by
      intro k hk
      apply strictInc_id hb_inj _ (by omega)
      intro x hx
      obtain ⟨k', hk', e⟩ := mem_getD_of_mem hx
      rw [← e, t1 k' (by omega), hbs1len, hall]
      exact htlt' _ (t3 _ (by rw [hfid k' (by omega)]; omega))
    have hT1 : ∀ p, p < n → target.getD (r1.toPre.getD p 0) 0 = p := by
      intro p hp
      have := t1 p (by omega)
      rw [hfid p hp, hbid p hp] at this
      exact this.symm
    have hphi : Phi ext l2v target r1.s.h n r1 (List.range n) :=
      { w := hr1.inv.toW, heap := rfl, len := hlen1, pre_lt := t3,
        tgt_eq := fun p hp => by rw [range_getD hp, hT1 p hp]
        l2v_eq := fun p hp => hr1.l2v_eq p (hlen1 ▸ hp) }
    exact tail2 hr1 hlen1 hfs hbs1len hsorted1 t1 htinj t3 hev1 hphi (fun p hp => range_getD hp)
  · -- move the views (including the empty ones) to their positions
    simp only [hall, if_false, Bool.false_eq_true]
    have hfnd : fromNe.Nodup := hfs.imp (fun h => Nat.ne_of_lt h)
    refine htail _
      (by show (zipSet target fromNe bs1).length = n; rw [zipSet_length]; exact htlen)
      (fun p hp => ?_)
    show (zipSet target fromNe bs1).getD p 0 = _
    by_cases hpf : p ∈ fromNe
    · obtain ⟨k, hk, e⟩ := mem_getD_of_mem hpf
      rw [← e, zipSet_mem target fromNe bs1 hfnd hbs1len (fun x hx => htlen ▸ hflt x hx) hk]
      exact t1 k hk
    · rw [zipSet_not_mem _ _ _ hpf, t2 p hpf, range_getD hp]

end

end OxiddModel.Reorder.SwapStore
