import OxiddModel.Bdd.Canon

/-!
# `level_swap` on BDD trees

The effect of `oxidd_reorder::level_swap(u, u+1)` on the unfolding of a BDD in normal form.
Trees are over *levels* (`OxiddModel.Bdd.BDD`); swapping the two levels also swaps the
variable↔level map, so "every handle denotes the same function of the variables" reads
`(swapTree u t).eval σ = t.eval (σ ∘ swapLv u)`.

Case structure of `level_swap` (crates/oxidd-reorder/src/lib.rs), per node of the old upper
level `u` (`old_upper.iter()`):
* no child at the old lower level `u+1` ⇒ the node is re-inserted into the new lower level
  (`lower.insert_unchecked`), children unchanged;
* otherwise the grand-cofactors are collected (`Rules::cofactors` for a child at `u+1`, the child
  itself twice for a child below), the new children are `reduce(level, [gc[t][i], gc[e][i]])`,
  i.e. `mk (u+1) f11 f01` and `mk (u+1) f10 f00`, and the node keeps its identity at the new
  upper level (`set_child`, `set_level(lower_no_pre)`, `upper.insert_unchecked`); it is *not*
  passed through `reduce` — `swapTree_nf` shows that its two new children are indeed distinct.
Nodes of the old lower level `u+1` stay in their level view, which has become the upper one
(`upper.swap(&mut lower)`); nodes of other levels are not touched.
-/
namespace OxiddModel.Reorder
open OxiddModel.Bdd OxiddModel.Bdd.BDD

/-- the transposition of the levels `u` and `u+1` -/
def swapLv (u : Nat) (x : Nat) : Nat := if x = u then u + 1 else if x = u + 1 then u else x

theorem swapLv_invol (u x : Nat) : swapLv u (swapLv u x) = x := by
  unfold swapLv; split <;> (try split) <;> (try split) <;> omega

theorem swapLv_of_gt (u x : Nat) (h : u + 1 < x) : swapLv u x = x := by
  unfold swapLv; split <;> (try split) <;> omega

/-- `node.level() == lower_no_pre` -/
def atLevel (l : Nat) : BDD → Bool
  | .node l' _ _ => l' == l
  | .leaf _ => false

/-- the two cofactors of a child w.r.t. level `l`: `Rules::cofactors` if the child is at level
`l`, the child itself twice otherwise -/
def cof (l : Nat) : BDD → BDD × BDD
  | .node l' t e => if l' = l then (t, e) else (.node l' t e, .node l' t e)
  | .leaf b => (.leaf b, .leaf b)

/-- swapping the adjacent levels `u` and `u+1` -/
def swapTree (u : Nat) : BDD → BDD
  | .leaf b => .leaf b
  | .node l t e =>
    if l < u then .node l (swapTree u t) (swapTree u e)
    else if l = u then
      if !atLevel (u + 1) t && !atLevel (u + 1) e then .node (u + 1) t e
      else .node u (mk (u + 1) (cof (u + 1) t).1 (cof (u + 1) e).1)
                   (mk (u + 1) (cof (u + 1) t).2 (cof (u + 1) e).2)
    else if l = u + 1 then .node u t e
    else .node l t e

/-! ## cofactors -/

theorem cof_node_eq (l : Nat) (a b : BDD) : cof l (.node l a b) = (a, b) := by simp [cof]
theorem cof_node_ne {l l' : Nat} (a b : BDD) (h : l' ≠ l) :
    cof l (.node l' a b) = (.node l' a b, .node l' a b) := by simp [cof, h]

theorem cof_eval {l : Nat} {t : BDD} (h : Ordered l t) (τ : Nat → Bool) :
    t.eval τ = if τ l then (cof l t).1.eval τ else (cof l t).2.eval τ := by
  cases t with
  | leaf b => simp [cof, eval]
  | node l' a b =>
    by_cases h' : l' = l
    · subst h'; rw [cof_node_eq]; simp [eval]
    · rw [cof_node_ne a b h']; simp

theorem cof_ordered {l : Nat} {t : BDD} (h : Ordered l t) :
    Ordered (l + 1) (cof l t).1 ∧ Ordered (l + 1) (cof l t).2 := by
  cases h with
  | leaf => exact ⟨.leaf, .leaf⟩
  | node hl ht he =>
    rename_i l' a b
    by_cases h' : l' = l
    · subst h'; rw [cof_node_eq]; exact ⟨ht, he⟩
    · rw [cof_node_ne a b h']; exact ⟨.node (by omega) ht he, .node (by omega) ht he⟩

theorem cof_reduced {l : Nat} {t : BDD} (h : Reduced t) :
    Reduced (cof l t).1 ∧ Reduced (cof l t).2 := by
  cases t with
  | leaf b => exact ⟨trivial, trivial⟩
  | node l' a b =>
    by_cases h' : l' = l
    · subst h'; rw [cof_node_eq]; exact ⟨h.2.1, h.2.2⟩
    · rw [cof_node_ne a b h']; exact ⟨h, h⟩

theorem ordered_of_not_atLevel {l : Nat} {t : BDD} (h : Ordered l t) (hn : atLevel l t = false) :
    Ordered (l + 1) t := by
  cases h with
  | leaf => exact .leaf
  | node hl ht he =>
    simp [atLevel] at hn
    exact .node (by omega) ht he

/-- `reduce` is injective on children that live strictly below the level -/
theorem mk_inj {l : Nat} {a b c d : BDD} (ha : Ordered (l + 1) a) (hc : Ordered (l + 1) c)
    (h : mk l a b = mk l c d) : a = c ∧ b = d := by
  unfold mk at h
  split at h <;> split at h
  · rename_i h1 h2; subst h1 h2; exact ⟨h, h⟩
  · subst h; cases ha with | node hl _ _ => omega
  · subst h; cases hc with | node hl _ _ => omega
  · injection h with _ h1 h2; exact ⟨h1, h2⟩

/-! ## semantics -/

/-- **`swapTree_sem`**: after the swap every diagram denotes the same function of the
*variables* (the assignment of the levels is transposed along with the level↔variable map) -/
theorem swapTree_sem (u : Nat) {n : Nat} {t : BDD} (h : Ordered n t) (σ : Nat → Bool) :
    (swapTree u t).eval σ = t.eval (σ ∘ swapLv u) := by
  induction h with
  | leaf => rfl
  | node hl ht he iht ihe =>
    rename_i n l a b
    have hbelow : ∀ {x : BDD}, Ordered (u + 2) x → x.eval σ = x.eval (σ ∘ swapLv u) := fun hx =>
      eval_indep hx _ _ (fun v hv => by simp [Function.comp, swapLv_of_gt u v (by omega)])
    unfold swapTree
    split
    · rename_i hlu
      have : swapLv u l = l := by unfold swapLv; split <;> (try split) <;> omega
      simp only [eval, iht, ihe, Function.comp, this]
    split
    · rename_i _ hlu; subst hlu
      have hsu : swapLv l l = l + 1 := by simp [swapLv]
      have hsu1 : swapLv l (l + 1) = l := by simp [swapLv]
      split
      · rename_i hc
        simp only [Bool.and_eq_true, Bool.not_eq_true'] at hc
        have ha := ordered_of_not_atLevel ht hc.1
        have hb := ordered_of_not_atLevel he hc.2
        simp only [eval, Function.comp, hsu]
        rw [hbelow ha, hbelow hb]
      · have hca := cof_ordered ht
        have hcb := cof_ordered he
        simp only [eval, mk_eval, Function.comp, hsu]
        rw [cof_eval ht (σ ∘ swapLv l), cof_eval he (σ ∘ swapLv l)]
        simp only [Function.comp, hsu1]
        rw [hbelow hca.1, hbelow hca.2, hbelow hcb.1, hbelow hcb.2]
        cases σ l <;> cases σ (l + 1) <;> simp
    split
    · rename_i _ _ hlu; subst hlu
      have hsu1 : swapLv u (u + 1) = u := by simp [swapLv]
      simp only [eval, Function.comp, hsu1]
      rw [hbelow ht, hbelow he]
    · rename_i h1 h2 h3
      have : swapLv u l = l := swapLv_of_gt u l (by omega)
      simp only [eval, Function.comp, this]
      rw [hbelow (ht.mono (by omega)), hbelow (he.mono (by omega))]

/-! ## normal form -/

theorem swapTree_ordered (u : Nat) {n : Nat} {t : BDD} (h : Ordered n t) (hn : n ≤ u) :
    Ordered n (swapTree u t) := by
  induction h with
  | leaf => exact .leaf
  | node hl ht he iht ihe =>
    rename_i n l a b
    unfold swapTree
    split
    · exact .node hl (iht (by omega)) (ihe (by omega))
    split
    · rename_i _ hlu; subst hlu
      split
      · rename_i hc
        simp only [Bool.and_eq_true, Bool.not_eq_true'] at hc
        exact .node (by omega) (ordered_of_not_atLevel ht hc.1) (ordered_of_not_atLevel he hc.2)
      · have hca := cof_ordered ht
        have hcb := cof_ordered he
        exact .node hl (mk_ordered (Nat.le_refl _) hca.1 hcb.1) (mk_ordered (Nat.le_refl _) hca.2 hcb.2)
    split
    · rename_i _ _ hlu; subst hlu
      exact .node hn (ht.mono (by omega)) (he.mono (by omega))
    · exact .node hl ht he

theorem cof_ne_of_atLevel {l : Nat} {t : BDD} (h : atLevel l t = true) (hr : Reduced t) :
    (cof l t).1 ≠ (cof l t).2 := by
  cases t with
  | leaf b => simp [atLevel] at h
  | node l' a b =>
    simp [atLevel] at h
    subst h
    rw [cof_node_eq]; exact hr.1

/-- `swapTree` is injective on normal forms: distinct handles stay distinct -/
theorem swapTree_inj (u : Nat) {n : Nat} {a b : BDD} (ha : NF n a) (hb : NF n b)
    (h : swapTree u a = swapTree u b) : a = b := by
  apply canon a b n ha.1 hb.1 ha.2 hb.2
  intro σ
  have h1 := swapTree_sem u ha.1 (σ ∘ swapLv u)
  have h2 := swapTree_sem u hb.1 (σ ∘ swapLv u)
  have : (σ ∘ swapLv u) ∘ swapLv u = σ := by
    funext x; simp [Function.comp, swapLv_invol]
  rw [this] at h1 h2
  rw [← h1, ← h2, h]

theorem swapTree_reduced (u : Nat) {n : Nat} {t : BDD} (h : Ordered n t) (hr : Reduced t) :
    Reduced (swapTree u t) := by
  induction h with
  | leaf => trivial
  | node hl ht he iht ihe =>
    rename_i n l a b
    unfold swapTree
    split
    · exact ⟨fun heq => hr.1 (swapTree_inj u ⟨ht, hr.2.1⟩ ⟨he, hr.2.2⟩ heq), iht hr.2.1, ihe hr.2.2⟩
    split
    · rename_i _ hlu; subst hlu
      split
      · exact hr
      · rename_i hc
        have hca := cof_ordered ht
        have hcb := cof_ordered he
        have hra := cof_reduced (l := l + 1) hr.2.1
        have hrb := cof_reduced (l := l + 1) hr.2.2
        refine ⟨?_, mk_reduced hra.1 hrb.1, mk_reduced hra.2 hrb.2⟩
        intro heq
        have := mk_inj hca.1 hca.2 heq
        simp only [Bool.and_eq_true, Bool.not_eq_true', not_and, Bool.not_eq_false] at hc
        by_cases hat : atLevel (l + 1) a = true
        · exact cof_ne_of_atLevel hat hr.2.1 this.1
        · exact cof_ne_of_atLevel (hc (by simpa using hat)) hr.2.2 this.2
    split
    · exact hr
    · exact hr

/-- **`swapTree_nf`**: the swapped diagram is again ordered and reduced -/
theorem swapTree_nf (u : Nat) {n : Nat} {t : BDD} (h : NF n t) (hn : n ≤ u) :
    NF n (swapTree u t) :=
  ⟨swapTree_ordered u h.1 hn, swapTree_reduced u h.1 h.2⟩

/-- **canonicity after the swap**: the swapped diagram is *the* normal-form diagram of the same
function of the variables under the new order -/
theorem swapTree_canonical (u : Nat) {t t' : BDD} (h : NF 0 t) (h' : NF 0 t')
    (hsem : ∀ σ, t'.eval σ = t.eval (σ ∘ swapLv u)) : t' = swapTree u t := by
  have hs := swapTree_nf u h (Nat.zero_le _)
  exact canon t' _ 0 h'.1 hs.1 h'.2 hs.2 (fun σ => by rw [hsem, swapTree_sem u h.1])

/-- **`swapTree_invol`**: swapping twice restores the diagram -/
theorem swapTree_invol (u : Nat) {n : Nat} {t : BDD} (h : NF n t) (hn : n ≤ u) :
    swapTree u (swapTree u t) = t := by
  have hs := swapTree_nf u h hn
  have hss := swapTree_nf u hs hn
  apply canon _ _ n hss.1 h.1 hss.2 h.2
  intro σ
  rw [swapTree_sem u hs.1, swapTree_sem u h.1]
  congr 1
  funext x; simp [Function.comp, swapLv_invol]

/-- handles are equal after the swap iff they were equal before -/
theorem swapTree_eq_iff (u : Nat) {n : Nat} {a b : BDD} (ha : NF n a) (hb : NF n b) :
    swapTree u a = swapTree u b ↔ a = b :=
  ⟨swapTree_inj u ha hb, fun h => h ▸ rfl⟩

/-! non-vacuity: x0 ∧ x1 ∨ x2 with levels 0,1 swapped; a node that only moves down; the
grand-cofactor case where the rebuilt children differ -/
example : swapTree 0 (.node 0 (.node 1 (.leaf true) (.node 2 (.leaf true) (.leaf false)))
      (.node 2 (.leaf true) (.leaf false))) =
    .node 0 (.node 1 (.leaf true) (.node 2 (.leaf true) (.leaf false)))
      (.node 2 (.leaf true) (.leaf false)) := by decide
example : swapTree 0 (.node 0 (.node 1 (.leaf true) (.leaf false)) (.leaf true)) =
    .node 0 (.leaf true) (.node 1 (.leaf false) (.leaf true)) := by decide
example : swapTree 1 (.node 1 (.node 3 (.leaf true) (.leaf false)) (.leaf true)) =
    .node 2 (.node 3 (.leaf true) (.leaf false)) (.leaf true) := by decide

end OxiddModel.Reorder

