import OxiddModel.Bdd.LevelTableReinsert
import OxiddModel.Reorder.SwapStore

/-!
# `level_swap` on the hashed level tables (model)

`SwapStore.lean` models `oxidd_reorder::level_swap` on an id-indexed heap whose per-level unique
tables are **lists** of ids (`lookup` = linear search by the current children, `tblInsert` = cons,
`tblRemove` = erase).  `Bdd/LevelTable*.lean` models the per-level unique table as it is
implemented: `LevelViewSet` on `linear_hashtbl::RawTable` (`HashTbl.Tbl`, slot for slot, arbitrary
hash of the children, tombstones, growth).  This file writes the swap over the **hashed** tables,
mirroring the Rust control flow of `/repo/crates/oxidd-reorder/src/lib.rs`:

* `upper.swap(&mut lower)`; `old_upper = LevelView::take(&mut lower)` — the level gets
  `RawTable::default()`; `lower.reserve(old_upper.len())` (growth of the empty table);
* `for e in old_upper.iter()` — the iteration order is the **slot order** of the taken table
  (`Tbl.iter`), whatever the table's history (tombstones, rehashes) made it;
* `old_upper.get(&node)` — `RawTable::get` on the taken table whose nodes are being rewritten in
  place (stale entries), `LevelTable.findTaken`;
* `lower.get_or_insert_unchecked(node)` — `find_or_find_insert_slot` (`reserve(1)` first: the table
  may be rehashed between the lookup and the insertion, also on a hit), `Store::add_node`,
  `insert_in_slot_unchecked`;
* `lower.insert_unchecked(e)` / `upper.insert_unchecked(e)` — `LevelViewSet::insert` (on a hit the
  edge is released);
* `upper.remove(child_node)` — `RawTable::remove_entry` = `find` + `remove_at_slot_unchecked`
  (FREE if the next slot — cyclically — is FREE, else TOMBSTONE), then
  `Store::drop_unique_table_edge`;
* `drop(old_upper)` — `TakenLevelView::drop`: `drain()` in slot order, `drop_unique_table_edge`
  for every entry;
* `update_level_no` — `level.iter()` in slot order.

The heap (`SwapStore.Heap`: slots with level, children and reference counter) and the heap
primitives (`incRc`, `decRc`, `dropTableEdge`, `setChildT`, …) are those of `SwapStore.lean`; the
table primitives (`findOrFindInsertSlotP`, `getP`, `removeP`, `insertInSlot`, `reserve`, `iter`,
`drain`) are those of `HashTbl/Model.lean` / `Bdd/LevelTableProbe.lean`, with the closure
`LevelTable.eqc` ("the node at this id has these children", read from the current heap).

Every hashed operation may fail (`Except Err`): `Err.capacity` is the panic of
`Status::check_capacity` (a level table with more than `2^31` slots), `Err.panic`/`Err.diverge`
are violated debug assertions / a probe loop that never returns — the theorems show that under the
invariant only `Err.capacity` is possible.
-/
namespace OxiddModel.Reorder.SwapHashed
open OxiddModel.HashTbl OxiddModel.HashTbl.Tbl OxiddModel.Bdd OxiddModel.Bdd.Refine
open OxiddModel.Bdd.LevelTable OxiddModel.Reorder.SwapStore

/-- sequencing of fallible steps (`?` / a panic propagating) -/
def bindE {α β : Type} (r : Except Err α) (f : α → Except Err β) : Except Err β :=
  match r with
  | .ok x => f x
  | .error e => .error e

/-- the slot array the equality closure of `LevelViewSet::eq` reads -/
def nodesOf (h : Heap) : Array (Option Node) := h.abs.nodes

/-! ## the table primitives with reference counting -/

/-- `LevelView::insert_unchecked(edge)` = `LevelViewSet::insert(nodes, edge)` with an owned edge
to slot `i`: `find_or_find_insert_slot(hash_node(node), eq)`; `Ok(_)` — an equal node is
present, the edge is released; `Err(slot)` — `insert_in_slot_unchecked`. -/
def insertH (hash : Hash) (h : Heap) (tb : Tbl) (i : Nat) : Except Err (Heap × Tbl) :=
  match h.get? i with
  | none => .error .panic                  -- `nodes.inner_node(&edge)` on a free slot
  | some n =>
    bindE (findOrFindInsertSlotP tb (hash n.t n.e) (eqc (nodesOf h) n.t n.e)) fun
      | (tb1, .found _) => .ok (decRc h (.inner i), tb1)
      | (tb1, .vacant slot) =>
        bindE (tb1.insertInSlot (hash n.t n.e) slot i) fun tb2 => .ok (h, tb2)
      | (_, .diverge) => .error .diverge

/-- `LevelView::remove(node)`: `RawTable::remove_entry(hash_node(node), eq)`, then
`Store::drop_unique_table_edge` on the removed edge -/
def removeH (hash : Hash) (h : Heap) (tb : Tbl) (a b : Edge) : Except Err (Heap × Tbl) :=
  bindE (removeP tb (hash a b) (eqc (nodesOf h) a b)) fun
    | (tb', some j) => .ok (dropTableEdge h j, tb')
    | (tb', none) => .ok (h, tb')

/-- one element of `new_children`: clone the grandchildren, `reduce`, `old_upper.get(&node)`,
else `lower.get_or_insert_unchecked(node)`.  State: heap and the new lower table. -/
def mkChildH (hash : Hash) (al : Heap → Nat) (upPre : Nat) (old : Tbl) (st : Heap × Tbl)
    (a b : Edge) : Except Err ((Heap × Tbl) × Edge) :=
  let h1 := incRc (incRc st.1 a) b
  if a = b then .ok ((decRc h1 b, st.2), a)
  else
    bindE (findTaken hash (nodesOf h1) old a b) fun
      | some j => .ok ((incRc (decRc (decRc h1 a) b) (.inner j), st.2), .inner j)
      | none =>
        bindE (findOrFindInsertSlotP st.2 (hash a b) (eqc (nodesOf h1) a b)) fun
          | (tb, .found slot) =>
            -- `drop(node)`; `clone_edge_unchecked(get_at_slot_unchecked(slot))`
            match tb.get slot with
            | .occ _ j => .ok ((incRc (decRc (decRc h1 a) b) (.inner j), tb), .inner j)
            | _ => .error .panic
          | (tb, .vacant slot) =>
            -- `insert(node)?` = `Store::add_node` (rc 2), `insert_in_slot_unchecked`
            let j := al h1
            bindE (tb.insertInSlot (hash a b) slot j) fun tb' =>
              .ok ((h1.put j (some ⟨upPre, a, b, 2⟩), tb'), .inner j)
          | (_, .diverge) => .error .diverge

/-- the orphan check for one old child -/
def orphanH (hash : Hash) (lowPre : Nat) (st : Heap × Tbl) (c : Edge) : Except Err (Heap × Tbl) :=
  match c with
  | .inner j =>
    match st.1.get? j with
    | some m => if m.level = lowPre ∧ m.rc = 1 then removeH hash st.1 st.2 m.t m.e else .ok st
    | none => .ok st
  | .term _ => .ok st

/-- loop state: heap, the new upper table (starts as the old lower one) and the new lower table
(starts empty, reserved) -/
structure HLS where
  h : Heap
  up : Tbl
  lo : Tbl
deriving Repr, DecidableEq

/-- the body of `for e in old_upper.iter()` for the entry `i` -/
def stepNodeH (hash : Hash) (al : Heap → Nat) (upPre lowPre : Nat) (old : Tbl) (st : HLS)
    (i : Nat) : Except Err HLS :=
  match st.h.get? i with
  | none => .ok st
  | some n =>
    if !lvlIs st.h lowPre n.t && !lvlIs st.h lowPre n.e then
      bindE (insertH hash (incRc st.h (.inner i)) st.lo i) fun r =>
        .ok { st with h := r.1, lo := r.2 }
    else
      let gt := cofE st.h lowPre n.t
      let ge := cofE st.h lowPre n.e
      bindE (mkChildH hash al upPre old (st.h, st.lo) gt.1 ge.1) fun r0 =>
      bindE (mkChildH hash al upPre old r0.1 gt.2 ge.2) fun r1 =>
        let h2 := setChildT r1.1.1 i r0.2
        let h3 := setChildE h2 i r1.2
        let h4 := setLevel h3 i lowPre
        bindE (insertH hash (incRc h4 (.inner i)) st.up i) fun r5 =>
        bindE (orphanH hash lowPre r5 n.t) fun r6 =>
        bindE (if n.e = n.t then .ok r6 else orphanH hash lowPre r6 n.e) fun r7 =>
          .ok { h := r7.1, up := r7.2, lo := r1.1.2 }

/-- the loop over the entries of the taken table in the order `order` -/
def levelSwapLoopH (hash : Hash) (al : Heap → Nat) (upPre lowPre : Nat) (old : Tbl) :
    List Nat → HLS → Except Err HLS
  | [], st => .ok st
  | i :: rest, st =>
    bindE (stepNodeH hash al upPre lowPre old st i) (levelSwapLoopH hash al upPre lowPre old rest)

/-- `level_swap` on the two level tables: `tUpper`/`tLower` are the tables of the two levels at
entry.  `take` + `reserve(old_upper.len())`, the loop in the slot order of the taken table
(`iter`), `drop(old_upper)` (`drain` in slot order). -/
def levelSwapH (hash : Hash) (al : Heap → Nat) (upPre lowPre : Nat) (h : Heap)
    (tUpper tLower : Tbl) : Except Err HLS :=
  bindE tUpper.iter fun order =>
  bindE (Tbl.new.reserve tUpper.len) fun lo0 =>
  bindE (levelSwapLoopH hash al upPre lowPre tUpper order ⟨h, tLower, lo0⟩) fun r =>
  bindE tUpper.drain fun d =>
    .ok { r with h := dropOld r.h d.2 }

/-! ## the whole store -/

/-- heap + one `RawTable` per level -/
structure HStore where
  h : Heap
  tables : Array Tbl
deriving Repr, DecidableEq

def HStore.tbl (s : HStore) (l : Nat) : Tbl := (s.tables[l]?).getD Tbl.new

/-- forget the reference counters: the `LStore` of `Bdd/LevelTable.lean` -/
def HStore.toL (s : HStore) : LStore := ⟨nodesOf s.h, s.tables⟩

/-- forget the slot arrays of the tables: the `SStore` of `SwapStore.lean`, every table listed in
**slot order** (the order `iter`/`drain` yield) -/
def HStore.absS (s : HStore) : SStore := ⟨s.h, s.tables.toList.map Tbl.keys⟩

/-- `update_level_no(manager, level)`: `for e in level.iter() { node.set_level(level_no) }` -/
def updateLevelNoH (h : Heap) (tb : Tbl) (l : Nat) : Except Err Heap :=
  bindE tb.iter fun ks => .ok (updateLevelNo h ks l)

/-- `level_down(manager, u)`; `assert!(upper_no + 1 < num_levels)` is `Err.panic` -/
def levelDownH (hash : Hash) (al : Heap → Nat) (s : HStore) (u : Nat) : Except Err HStore :=
  if u + 1 < s.tables.size then
    bindE (levelSwapH hash al u (u + 1) s.h (s.tbl u) (s.tbl (u + 1))) fun r =>
    bindE (updateLevelNoH r.h r.up u) fun h1 =>
    bindE (updateLevelNoH h1 r.lo (u + 1)) fun h2 =>
      .ok { h := h2, tables := (s.tables.setIfInBounds u r.up).setIfInBounds (u + 1) r.lo }
  else .error .panic

/-- a sequence of adjacent swaps -/
def swapsH (hash : Hash) (al : Heap → Nat) : HStore → List Nat → Except Err HStore
  | s, [] => .ok s
  | s, u :: us => bindE (levelDownH hash al s u) fun s' => swapsH hash al s' us

end OxiddModel.Reorder.SwapHashed
