import OxiddModel.Reorder.SwapHashedStep
import OxiddModel.Reorder.PropertiesStore

/-!
# `level_swap` / `level_down` on hashed tables refine the list model

* `levelSwapH_sim`: the whole `level_swap` (take + reserve, loop in slot order, `drop(old_upper)` by
  `drain`) on coupled tables computes the heap of `levelSwapS` run with the slot order of the taken
  table as iteration order, and tables coupled with its result lists.
* `HInv hash ext s`: the hashed store satisfies `LevelTable.LInv` (every level table a keyed set
  of exactly the live ids of its level) **and** its list abstraction `absS` (tables listed in slot
  order) satisfies the reorder store invariant `SwapStore.Inv` (ordered, reduced, duplicate free,
  exact reference counts).
* `levelDownH_sim`: under `HInv`, `level_down` on the hashed store either stops with the capacity
  panic or returns a store `s'` with `Sim s' (levelDownS al id s.absS u)` — the **same heap**, and
  every level table holding exactly the ids of the list model's table — and `HInv` holds again.
-/
namespace OxiddModel.Reorder.SwapHashed
open OxiddModel.HashTbl OxiddModel.HashTbl.Tbl OxiddModel.Bdd OxiddModel.Bdd.Refine
open OxiddModel.Bdd.LevelTable OxiddModel.Reorder.SwapStore

variable {hash : Hash}

/-! ## `level_swap` -/

theorem levelSwapH_sim {a b : Nat} {P : Nat → Prop} {ext : Nat → Nat} {al : Heap → Nat}
    (hal : ∀ h : Heap, h.get? (al h) = none) {h : Heap} {told tlow : Tbl} {low : List Nat}
    (hp : Pre a b P h.sh told.keys) {R' : Nat → Nat}
    (hR : ∀ k, ext k ≤ told.keys.count k + R' k)
    (hinit : SwapStore.LInv a b P h.sh told.keys ext (fun k => told.keys.count k + R' k)
      ⟨h, low, []⟩ told.keys)
    (hold : TC hash h told told.keys) (hlow : TC hash h tlow low) :
    Good (fun r =>
        r.h = (levelSwapS al a b h told.keys low told.keys).h ∧
        TC hash r.h r.up (levelSwapS al a b h told.keys low told.keys).up ∧
        TC hash r.h r.lo (levelSwapS al a b h told.keys low told.keys).lo)
      (levelSwapH hash al a b h told tlow) := by
  unfold levelSwapH
  rw [(iter_spec hold.k.inv).1]
  simp only [bindE]
  -- `lower.reserve(old_upper.len())` on the fresh table
  have hres : Good (fun t' => TC hash h t' []) (Tbl.new.reserve told.len) := by
    rcases reserve_spec (new_inv (KH hash h).hf) told.len with ⟨t', h1, h2, h3, _⟩ | ⟨h1, _⟩
    · rw [h1]; exact Good.ok ((TC.new hash h).of_mem h2 h3)
    · rw [h1]; exact Good.cap
  refine Good.bind hres ?_
  intro lo0 hlo0
  have hloop := levelSwapLoop_spec (al := al) hal hp hR _ hinit
  refine Good.bind (levelSwapLoopH_sim hal hp hR ⟨h, rfl, hold⟩ told.keys hinit
    (hs := ⟨h, tlow, lo0⟩) ⟨rfl, hlow, hlo0⟩) ?_
  intro r hc
  obtain ⟨t', hd, _⟩ := drain_spec hold.k.inv
  rw [hd]
  simp only [levelSwapS]
  generalize hst : levelSwapLoop al a b told.keys told.keys ⟨h, low, []⟩ = st at hloop hc
  have hJ := hloop.j
  have hdrop := dropOld_spec (w := fun k => st.up.count k + st.lo.count k + R' k)
    told.keys (h := st.h)
    (hloop.rc.congr (fun k => by simp only [wOf]; omega))
    (fun j hj => by
      rcases hJ.oldC j hj with h' | h' | h'
      · simp at h'
      · have : 0 < st.lo.count j := List.count_pos_iff.mpr h'
        show 0 < _; omega
      · have : 0 < st.up.count j := List.count_pos_iff.mpr h'
        show 0 < _; omega)
  obtain ⟨hh, hup, hlo⟩ := hc
  refine Good.ok ?_
  show (dropOld r.h told.keys = dropOld st.h told.keys) ∧
    TC hash (dropOld r.h told.keys) r.up st.up ∧ TC hash (dropOld r.h told.keys) r.lo st.lo
  rw [hh]
  exact ⟨rfl, hup.congr_sh (fun k _ => by rw [hdrop.1]), hlo.congr_sh (fun k _ => by rw [hdrop.1])⟩

/-! ## `update_level_no` does not depend on the iteration order -/

theorem put_comm (h : Heap) {i j : Nat} (hij : i ≠ j) (hi : i < h.slots.length)
    (hj : j < h.slots.length) (x y : Option SNode) :
    (h.put i x).put j y = (h.put j y).put i x := by
  unfold Heap.put
  simp only [hi, hj, if_true, List.length_set]
  rw [List.set_comm _ _ hij]

theorem lt_of_get? {h : Heap} {i : Nat} {m : SNode} (hm : h.get? i = some m) : i < h.slots.length := by
  unfold Heap.get? at hm
  by_cases hlt : i < h.slots.length
  · exact hlt
  · rw [List.getElem?_eq_none (by omega)] at hm; cases hm

theorem setLevel_comm (h : Heap) (i j l : Nat) :
    setLevel (setLevel h i l) j l = setLevel (setLevel h j l) i l := by
  by_cases hij : i = j
  · subst hij; rfl
  · have hji : ¬ j = i := fun h' => hij h'.symm
    unfold setLevel
    cases hi : h.get? i with
    | none =>
      simp only
      cases hj : h.get? j with
      | none => simp only [hi]
      | some mj => simp only [SwapStore.get?_put, hij, if_false, hi]
    | some mi =>
      simp only
      cases hj : h.get? j with
      | none => simp only [SwapStore.get?_put, hji, if_false, hj, hi]
      | some mj =>
        simp only [SwapStore.get?_put, hij, hji, if_false, hj, hi]
        exact put_comm h hij (lt_of_get? hi) (lt_of_get? hj) _ _

theorem updateLevelNo_perm {l1 l2 : List Nat} (hp : l1.Perm l2) (h : Heap) (l : Nat) :
    updateLevelNo h l1 l = updateLevelNo h l2 l := by
  unfold updateLevelNo
  exact hp.foldl_eq' (fun x _ y _ z => setLevel_comm z x y l) h

theorem kidsOf_relabel (l : Nat) (o : Option Node) : kidsOf (relabel l o) = kidsOf o := by
  cases o <;> rfl

theorem kidsOf_updateLevelNo (h : Heap) (tbl : List Nat) (l k : Nat) :
    kidsOf ((updateLevelNo h tbl l).sh k) = kidsOf (h.sh k) := by
  rw [sh_updateLevelNo]
  split
  · exact kidsOf_relabel _ _
  · rfl

/-! ## the store invariant -/

theorem absS_table (s : HStore) (l : Nat) : s.absS.table l = (s.tbl l).keys := by
  unfold HStore.absS SStore.table HStore.tbl
  simp only [List.getD_eq_getElem?_getD, List.getElem?_map, Array.getElem?_toList]
  cases s.tables[l]? <;> rfl

theorem absS_length (s : HStore) : s.absS.tables.length = s.tables.size := by
  simp [HStore.absS]

/-- `LInv` of the hashed tables and the reorder store invariant of the list abstraction -/
structure HInv (hash : Hash) (ext : Nat → Nat) (s : HStore) : Prop where
  linv : LevelTable.LInv hash s.toL
  inv : SwapStore.Inv ext s.absS

theorem HInv.tc {ext : Nat → Nat} {s : HStore} (hi : HInv hash ext s) (l : Nat) :
    TC hash s.h (s.tbl l) (s.absS.table l) := by
  rw [absS_table]
  exact TC.keys (hi.linv.tbl l)

/-- the hashed store and a list store: same heap, same number of levels, every level table
holds exactly the ids of the list (both duplicate free) -/
structure Sim (hash : Hash) (s : HStore) (ss : SStore) : Prop where
  h : s.h = ss.h
  len : s.tables.size = ss.tables.length
  tc : ∀ l, TC hash s.h (s.tbl l) (ss.table l)

theorem Sim.perm {s : HStore} {ss : SStore} (hs : Sim hash s ss) (l : Nat) :
    (s.absS.table l).Perm (ss.table l) := by
  rw [absS_table]; exact (hs.tc l).perm

theorem Sim.mem {s : HStore} {ss : SStore} (hs : Sim hash s ss) (l x : Nat) :
    x ∈ s.absS.table l ↔ x ∈ ss.table l := (hs.perm l).mem_iff

/-- the store invariant only looks at the tables as sets -/
theorem Inv.of_mem {ext : Nat → Nat} {s1 s2 : SStore} (hinv : SwapStore.Inv ext s2) (hh : s1.h = s2.h)
    (hm : ∀ l x, x ∈ s1.table l ↔ x ∈ s2.table l) (hnd : ∀ l, (s1.table l).Nodup) :
    SwapStore.Inv ext s1 where
  tbl_iff := fun l i => by rw [hm, hh]; exact hinv.tbl_iff l i
  tbl_nodup := hnd
  ordered := by rw [hh]; exact hinv.ordered
  nored := by rw [hh]; exact hinv.nored
  uniq := by rw [hh]; exact hinv.uniq
  rc := by
    have : (fun k => live01 s1.h k + ext k) = (fun k => live01 s2.h k + ext k) := by rw [hh]
    rw [this, hh]; exact hinv.rc

/-- a simulated store whose list store satisfies the reorder invariant satisfies `HInv` -/
theorem Sim.hinv {ext : Nat → Nat} {s : HStore} {ss : SStore} (hs : Sim hash s ss)
    (hinv : SwapStore.Inv ext ss) : HInv hash ext s := by
  refine ⟨⟨fun l => (hs.tc l).k, fun l id => ?_⟩, ?_⟩
  · show (s.tbl l).Mem id ↔ ∃ n, s.h.abs.get? id = some n ∧ n.level = l
    rw [(hs.tc l).m id, hinv.tbl_iff l id, abs_get?, hs.h]
  · refine Inv.of_mem hinv hs.h (hs.mem) (fun l => ?_)
    rw [absS_table]
    exact (keys_nodup (hs.tc l).k.inv).1

/-! ## `level_down` -/

theorem tbl_set2 (s : HStore) (h : Heap) {u : Nat} (hu : u + 1 < s.tables.size) (tu tl : Tbl) (l : Nat) :
    (HStore.mk h ((s.tables.setIfInBounds u tu).setIfInBounds (u + 1) tl)).tbl l =
      if l = u + 1 then tl else if l = u then tu else s.tbl l := by
  unfold HStore.tbl
  simp only
  rw [getD_setIfInBounds _ _ _ _ (by rw [Array.size_setIfInBounds]; exact hu)]
  split
  · rfl
  · rw [getD_setIfInBounds _ _ _ _ (by omega)]

theorem levelDownH_sim {ext : Nat → Nat} {al : Heap → Nat} (hal : AllocOK al) {s : HStore} {u : Nat}
    (hi : HInv hash ext s) (hu : u + 1 < s.tables.size) :
    Good (fun s' => Sim hash s' (levelDownS al id s.absS u)) (levelDownH hash al s u) := by
  have hinv := hi.inv
  have hu' : u + 1 < s.absS.tables.length := by rw [absS_length]; exact hu
  obtain ⟨shF, up, lo, hres⟩ := levelDownS_res (al := al) hal (ord := id) (fun _ => List.Perm.refl _)
    hinv hu'
  unfold levelDownH
  rw [if_pos hu]
  have hku : s.absS.table u = (s.tbl u).keys := absS_table s u
  have hinit := hinv.linv_init (u := u) (order := s.absS.table u) (fun _ => Iff.rfl) (hinv.tbl_nodup u)
  have hpre := hinv.pre (u := u)
  rw [hku] at hinit hpre
  have hold := hi.tc u
  rw [hku] at hold
  have hlow := hi.tc (u + 1)
  have hsw := levelSwapH_sim (hash := hash) (ext := ext) (al := al) hal (h := s.h) (told := s.tbl u)
    (tlow := s.tbl (u + 1)) (low := s.absS.table (u + 1)) hpre
    (R' := fun k => oth u s.h.sh k + ext k) (fun k => by omega)
    (by
      have : (fun k => (s.tbl u).keys.count k + (oth u s.h.sh k + ext k)) =
          (fun k => (s.tbl u).keys.count k + oth u s.h.sh k + ext k) := by
        funext k; omega
      rw [this]; exact hinit)
    hold hlow
  refine Good.bind hsw ?_
  rintro ⟨rh, ru, rl⟩ ⟨e1, e2, e3⟩
  simp only at e1 e2 e3
  -- the list model, unfolded the same way
  have hS : levelDownS al id s.absS u =
      (let r := levelSwapS al u (u + 1) s.h (s.tbl u).keys (s.absS.table (u + 1)) (s.tbl u).keys
       let h1 := updateLevelNo r.h r.up u
       let h2 := updateLevelNo h1 r.lo (u + 1)
       { h := h2, tables := (s.absS.tables.set u r.up).set (u + 1) r.lo }) := by
    unfold levelDownS
    rw [if_pos hu', hku]
    rfl
  generalize hr : levelSwapS al u (u + 1) s.h (s.tbl u).keys (s.absS.table (u + 1)) (s.tbl u).keys = r
    at e1 e2 e3 hS
  subst e1
  -- `update_level_no` twice
  unfold updateLevelNoH
  rw [(iter_spec e2.k.inv).1]
  simp only [bindE]
  rw [(iter_spec e3.k.inv).1]
  simp only
  have hp1 : updateLevelNo r.h ru.keys u = updateLevelNo r.h r.up u := updateLevelNo_perm e2.perm _ _
  have hp2 : updateLevelNo (updateLevelNo r.h r.up u) rl.keys (u + 1) =
      updateLevelNo (updateLevelNo r.h r.up u) r.lo (u + 1) := updateLevelNo_perm e3.perm _ _
  rw [hp1, hp2]
  have hkid : ∀ k, kidsOf ((updateLevelNo (updateLevelNo r.h r.up u) r.lo (u + 1)).sh k) = kidsOf (r.h.sh k) :=
    fun k => by rw [kidsOf_updateLevelNo, kidsOf_updateLevelNo]
  rw [hS] at hres ⊢
  simp only at hres ⊢
  refine Good.ok ⟨rfl, by simp [absS_length], fun l => ?_⟩
  rw [tbl_set2 s _ hu, table_set _ u _ _ hu' l]
  by_cases h1 : l = u + 1
  · rw [if_pos h1, if_pos h1]
    exact (e3.congr (fun k _ => hkid k))
  · rw [if_neg h1, if_neg h1]
    by_cases h2 : l = u
    · rw [if_pos h2, if_pos h2]
      exact (e2.congr (fun k _ => hkid k))
    · rw [if_neg h2, if_neg h2]
      refine (hi.tc l).congr_sh (fun k hk => ?_)
      obtain ⟨n, hn, hl⟩ := (hinv.tbl_iff l k).1 hk
      have := (hres.frame_sh hinv hn (by omega) (by omega)).2.2
      simp only at this
      rw [this]; exact hn.symm

/-- **one swap**: the result satisfies `HInv` again, the number of levels is unchanged -/
theorem levelDownH_hinv {ext : Nat → Nat} {al : Heap → Nat} (hal : AllocOK al) {s : HStore} {u : Nat}
    (hi : HInv hash ext s) (hu : u + 1 < s.tables.size) :
    Good (fun s' => Sim hash s' (levelDownS al id s.absS u) ∧ HInv hash ext s' ∧
      s'.tables.size = s.tables.size) (levelDownH hash al s u) := by
  refine (levelDownH_sim hal hi hu).mono ?_
  intro s' hs
  have hu' : u + 1 < s.absS.tables.length := by rw [absS_length]; exact hu
  refine ⟨hs, hs.hinv (levelDownS_inv hal orderOK_id hi.inv hu'), ?_⟩
  rw [hs.len, levelDownS_len, absS_length]

end OxiddModel.Reorder.SwapHashed
