import OxiddModel.Reorder.SwapHashedSeq

/-!
# Negative witnesses: four defects in the intersection of reordering and the hashed tables

A switchable copy of the hashed swap (`levelDownV v`), tied to the verified one
(`levelDownV_fixed : levelDownV .fixed = levelDownH`), with one switch per defect:

* `findTomb` — `RawTable::find` returns `None` at a TOMBSTONE (seeded change
  `R4-C01-find-stops-at-tombstone`; `find` is only used by `LevelView::get`/`remove`, i.e. during
  reordering): `old_upper.get` misses a live node behind a tombstone, `get_or_insert` creates a
  second node with the same children, and the original ends up in no table.
* `lastFree` — `remove_at_slot_unchecked` treats "no next element" at the last slot as FREE although
  the probe sequence wraps to slot 0 (`R4-C08-remove-last-slot-free`): a live node filed behind
  the wrap becomes unreachable.
* `skipDead` — `level_swap` skips entries of the old upper level with `ref_count() == 0` instead of
  re-inserting them (`R4-C03-levelswap-skips-dead-node`): a later `old_upper.get` revives such a
  node, which is then listed in no table.
* `insertFirst` — the rewritten node is filed in the new upper table *before* `set_child` (stale
  hash; cause 1 of /repo 1415cc0, compare `LevelTable.stale_hash_breaks`): the node is filed under
  the hash of its old children and the lookup by its new children misses it.

Each witness is a concrete store satisfying `HInv` (so the verified swap is correct on it, by
`levelSwapH_refines`) on which the variant returns a store violating `HInv`.
-/
namespace OxiddModel.Reorder.SwapHashed
open OxiddModel.HashTbl OxiddModel.HashTbl.Tbl OxiddModel.Bdd OxiddModel.Bdd.BDD OxiddModel.Bdd.Refine
open OxiddModel.Bdd.LevelTable OxiddModel.Reorder OxiddModel.Reorder.SwapStore

structure Variant where
  findTomb : Bool
  lastFree : Bool
  skipDead : Bool
  insertFirst : Bool
deriving DecidableEq, Repr

def Variant.fixed : Variant := ⟨false, false, false, false⟩

/-! ## the switchable table functions -/

/-- `RawTable::find`'s loop; `findTomb`: `else if !slot.status.is_hash() { return None }` -/
def findLoopV (v : Variant) (t : Tbl) (hs : Nat) (eq : Nat → Bool) : Nat → Nat → FindRes
  | 0, _ => .diverge
  | fuel + 1, i =>
    match t.get i with
    | .occ st k =>
      if st = hs then
        if eq k then .found i else findLoopV v t hs eq fuel (nextIdx t.cap i)
      else findLoopV v t hs eq fuel (nextIdx t.cap i)
    | .free => .absent
    | .tomb => if v.findTomb then .absent else findLoopV v t hs eq fuel (nextIdx t.cap i)

def findV (v : Variant) (t : Tbl) (h : Nat) (eq : Nat → Bool) : Except Err (Option Nat) :=
  if t.len = 0 then .ok none
  else if t.free = 0 then .error .panic
  else if t.cap = 0 then .error .panic
  else
    match findLoopV v t (fromHash h) eq t.cap (h &&& (t.cap - 1)) with
    | .found i => .ok (some i)
    | .absent => .ok none
    | .diverge => .error .diverge

def getV (v : Variant) (t : Tbl) (h : Nat) (eq : Nat → Bool) : Except Err (Option Nat) :=
  match findV v t h eq with
  | .error e => .error e
  | .ok none => .ok none
  | .ok (some i) => .ok (t.get i).key?

/-- `remove_at_slot_unchecked`; `lastFree`: `match self.data.get(slot + 1) { Some(next) =>
next.status == FREE, None => true }` -/
def removeAtSlotV (v : Variant) (t : Tbl) (slot : Nat) : Except Err Tbl :=
  if t.len = 0 then .error .panic
  else if (if v.lastFree then (if slot + 1 < t.cap then (t.get (slot + 1)).isFree else true)
      else (t.get (nextIdx t.cap slot)).isFree) then
    .ok { (t.set slot .free) with len := t.len - 1, free := t.free + 1 }
  else
    .ok { (t.set slot .tomb) with len := t.len - 1 }

def removeV (v : Variant) (t : Tbl) (h : Nat) (eq : Nat → Bool) : Except Err (Tbl × Option Nat) :=
  match findV v t h eq with
  | .error e => .error e
  | .ok none => .ok (t, none)
  | .ok (some i) =>
    match removeAtSlotV v t i with
    | .error e => .error e
    | .ok t' => .ok (t', (t.get i).key?)

theorem findLoopV_fixed (t : Tbl) (hs : Nat) (eq : Nat → Bool) : ∀ fuel i,
    findLoopV .fixed t hs eq fuel i = findLoopP t hs eq fuel i := by
  intro fuel
  induction fuel with
  | zero => intro i; rfl
  | succ fuel ih =>
    intro i
    unfold findLoopV findLoopP
    cases t.get i with
    | free => rfl
    | tomb => exact ih _
    | occ st k =>
      simp only [ih]

theorem findV_fixed (t : Tbl) (h : Nat) (eq : Nat → Bool) : findV .fixed t h eq = findP t h eq := by
  unfold findV findP
  rw [findLoopV_fixed]
  cases findLoopP t (fromHash h) eq t.cap (h &&& (t.cap - 1)) <;> rfl

theorem getV_fixed (t : Tbl) (h : Nat) (eq : Nat → Bool) : getV .fixed t h eq = getP t h eq := by
  unfold getV getP
  rw [findV_fixed]
  cases findP t h eq with
  | error e => rfl
  | ok o => cases o <;> rfl

theorem removeAtSlotV_fixed (t : Tbl) (slot : Nat) : removeAtSlotV .fixed t slot = removeAtSlot t slot := by
  unfold removeAtSlotV removeAtSlot
  rfl

theorem removeV_fixed (t : Tbl) (h : Nat) (eq : Nat → Bool) : removeV .fixed t h eq = removeP t h eq := by
  unfold removeV removeP
  rw [findV_fixed]
  cases findP t h eq with
  | error e => rfl
  | ok o =>
    cases o with
    | none => rfl
    | some i =>
      simp only [removeAtSlotV_fixed]
      cases removeAtSlot t i <;> rfl

/-! ## the switchable swap -/

def removeHV (v : Variant) (hash : Hash) (h : Heap) (tb : Tbl) (a b : Edge) : Except Err (Heap × Tbl) :=
  bindE (removeV v tb (hash a b) (eqc (nodesOf h) a b)) fun
    | (tb', some j) => .ok (dropTableEdge h j, tb')
    | (tb', none) => .ok (h, tb')

def mkChildV (v : Variant) (hash : Hash) (al : Heap → Nat) (upPre : Nat) (old : Tbl) (st : Heap × Tbl)
    (a b : Edge) : Except Err ((Heap × Tbl) × Edge) :=
  let h1 := incRc (incRc st.1 a) b
  if a = b then .ok ((decRc h1 b, st.2), a)
  else
    bindE (getV v old (hash a b) (eqc (nodesOf h1) a b)) fun
      | some j => .ok ((incRc (decRc (decRc h1 a) b) (.inner j), st.2), .inner j)
      | none =>
        bindE (findOrFindInsertSlotP st.2 (hash a b) (eqc (nodesOf h1) a b)) fun
          | (tb, .found slot) =>
            match tb.get slot with
            | .occ _ j => .ok ((incRc (decRc (decRc h1 a) b) (.inner j), tb), .inner j)
            | _ => .error .panic
          | (tb, .vacant slot) =>
            let j := al h1
            bindE (tb.insertInSlot (hash a b) slot j) fun tb' =>
              .ok ((h1.put j (some ⟨upPre, a, b, 2⟩), tb'), .inner j)
          | (_, .diverge) => .error .diverge

def orphanV (v : Variant) (hash : Hash) (lowPre : Nat) (st : Heap × Tbl) (c : Edge) :
    Except Err (Heap × Tbl) :=
  match c with
  | .inner j =>
    match st.1.get? j with
    | some m => if m.level = lowPre ∧ m.rc = 1 then removeHV v hash st.1 st.2 m.t m.e else .ok st
    | none => .ok st
  | .term _ => .ok st

def stepNodeV (v : Variant) (hash : Hash) (al : Heap → Nat) (upPre lowPre : Nat) (old : Tbl)
    (st : HLS) (i : Nat) : Except Err HLS :=
  match st.h.get? i with
  | none => .ok st
  | some n =>
    if v.skipDead && n.rc == 1 then .ok st       -- `if node.ref_count() == 0 { continue; }`
    else if !lvlIs st.h lowPre n.t && !lvlIs st.h lowPre n.e then
      bindE (insertH hash (incRc st.h (.inner i)) st.lo i) fun r =>
        .ok { st with h := r.1, lo := r.2 }
    else
      let gt := cofE st.h lowPre n.t
      let ge := cofE st.h lowPre n.e
      bindE (mkChildV v hash al upPre old (st.h, st.lo) gt.1 ge.1) fun r0 =>
      bindE (mkChildV v hash al upPre old r0.1 gt.2 ge.2) fun r1 =>
        if v.insertFirst then
          -- `upper.insert_unchecked(clone_edge(e))` before `set_child`/`set_level`
          bindE (insertH hash (incRc r1.1.1 (.inner i)) st.up i) fun r5 =>
            let h2 := setChildT r5.1 i r0.2
            let h3 := setChildE h2 i r1.2
            let h4 := setLevel h3 i lowPre
            bindE (orphanV v hash lowPre (h4, r5.2) n.t) fun r6 =>
            bindE (if n.e = n.t then .ok r6 else orphanV v hash lowPre r6 n.e) fun r7 =>
              .ok { h := r7.1, up := r7.2, lo := r1.1.2 }
        else
          let h2 := setChildT r1.1.1 i r0.2
          let h3 := setChildE h2 i r1.2
          let h4 := setLevel h3 i lowPre
          bindE (insertH hash (incRc h4 (.inner i)) st.up i) fun r5 =>
          bindE (orphanV v hash lowPre r5 n.t) fun r6 =>
          bindE (if n.e = n.t then .ok r6 else orphanV v hash lowPre r6 n.e) fun r7 =>
            .ok { h := r7.1, up := r7.2, lo := r1.1.2 }

def levelSwapLoopV (v : Variant) (hash : Hash) (al : Heap → Nat) (upPre lowPre : Nat) (old : Tbl) :
    List Nat → HLS → Except Err HLS
  | [], st => .ok st
  | i :: rest, st =>
    bindE (stepNodeV v hash al upPre lowPre old st i) (levelSwapLoopV v hash al upPre lowPre old rest)

def levelSwapV (v : Variant) (hash : Hash) (al : Heap → Nat) (upPre lowPre : Nat) (h : Heap)
    (tUpper tLower : Tbl) : Except Err HLS :=
  bindE tUpper.iter fun order =>
  bindE (Tbl.new.reserve tUpper.len) fun lo0 =>
  bindE (levelSwapLoopV v hash al upPre lowPre tUpper order ⟨h, tLower, lo0⟩) fun r =>
  bindE tUpper.drain fun d =>
    .ok { r with h := dropOld r.h d.2 }

def levelDownV (v : Variant) (hash : Hash) (al : Heap → Nat) (s : HStore) (u : Nat) : Except Err HStore :=
  if u + 1 < s.tables.size then
    bindE (levelSwapV v hash al u (u + 1) s.h (s.tbl u) (s.tbl (u + 1))) fun r =>
    bindE (updateLevelNoH r.h r.up u) fun h1 =>
    bindE (updateLevelNoH h1 r.lo (u + 1)) fun h2 =>
      .ok { h := h2, tables := (s.tables.setIfInBounds u r.up).setIfInBounds (u + 1) r.lo }
  else .error .panic

/-! ## the variant with all switches off is the verified swap -/

theorem removeHV_fixed (hash : Hash) (h : Heap) (tb : Tbl) (a b : Edge) :
    removeHV .fixed hash h tb a b = removeH hash h tb a b := by
  unfold removeHV removeH
  rw [removeV_fixed]
  cases removeP tb (hash a b) (eqc (nodesOf h) a b) with
  | error e => rfl
  | ok p =>
    obtain ⟨tb', o⟩ := p
    cases o <;> rfl

theorem mkChildV_fixed (hash : Hash) (al : Heap → Nat) (upPre : Nat) (old : Tbl) (st : Heap × Tbl)
    (a b : Edge) : mkChildV .fixed hash al upPre old st a b = mkChildH hash al upPre old st a b := by
  unfold mkChildV mkChildH findTaken
  simp only [getV_fixed]
  split
  · rfl
  · cases getP old (hash a b) (eqc (nodesOf (incRc (incRc st.1 a) b)) a b) with
    | error e => rfl
    | ok o =>
      cases o with
      | some j => rfl
      | none =>
        simp only [bindE]
        cases findOrFindInsertSlotP st.2 (hash a b) (eqc (nodesOf (incRc (incRc st.1 a) b)) a b) with
        | error e => rfl
        | ok p =>
          obtain ⟨tb, r⟩ := p
          cases r with
          | found slot => simp only; cases tb.get slot <;> rfl
          | vacant slot => rfl
          | diverge => rfl

theorem orphanV_fixed (hash : Hash) (lowPre : Nat) (st : Heap × Tbl) (c : Edge) :
    orphanV .fixed hash lowPre st c = orphanH hash lowPre st c := by
  unfold orphanV orphanH
  cases c with
  | term v => rfl
  | inner j =>
    simp only
    cases st.1.get? j with
    | none => rfl
    | some m => simp only [removeHV_fixed]

theorem stepNodeV_fixed (hash : Hash) (al : Heap → Nat) (upPre lowPre : Nat) (old : Tbl) (st : HLS)
    (i : Nat) : stepNodeV .fixed hash al upPre lowPre old st i = stepNodeH hash al upPre lowPre old st i := by
  unfold stepNodeV stepNodeH
  cases st.h.get? i with
  | none => rfl
  | some n =>
    have e1 : Variant.fixed.skipDead = false := rfl
    have e2 : Variant.fixed.insertFirst = false := rfl
    simp only [mkChildV_fixed, orphanV_fixed, e1, e2, Bool.false_and, Bool.false_eq_true, if_false]

theorem levelSwapLoopV_fixed (hash : Hash) (al : Heap → Nat) (upPre lowPre : Nat) (old : Tbl) :
    ∀ (order : List Nat) (st : HLS), levelSwapLoopV .fixed hash al upPre lowPre old order st =
      levelSwapLoopH hash al upPre lowPre old order st := by
  intro order
  induction order with
  | nil => intro st; rfl
  | cons i rest ih =>
    intro st
    unfold levelSwapLoopV levelSwapLoopH
    rw [stepNodeV_fixed]
    cases stepNodeH hash al upPre lowPre old st i with
    | error e => rfl
    | ok st' => exact ih st'

/-- **the switchable swap with every switch off is `levelDownH`** -/
theorem levelDownV_fixed (hash : Hash) (al : Heap → Nat) (s : HStore) (u : Nat) :
    levelDownV .fixed hash al s u = levelDownH hash al s u := by
  unfold levelDownV levelDownH levelSwapV levelSwapH
  simp only [levelSwapLoopV_fixed]

/-! ## what a broken result looks like -/

/-- a live node that is in no table of its level contradicts `HInv` -/
theorem not_hinv_of_unfiled {hash : Hash} {ext : Nat → Nat} {s : HStore} {k : Nat} {n : Node}
    (hk : s.h.sh k = some n) (hn : k ∉ s.absS.table n.level) : ¬ HInv hash ext s :=
  fun hi => hn ((hi.inv.tbl_iff n.level k).2 ⟨n, hk, rfl⟩)

/-- a live node that the hashed lookup by its own children misses contradicts `HInv` -/
theorem not_hinv_of_missed {hash : Hash} {ext : Nat → Nat} {s : HStore} {k : Nat} {n : Node}
    (hk : s.h.sh k = some n) (hl : n.level < s.tables.size)
    (hm : find hash s.toL n.level n.t n.e = .ok none) : ¬ HInv hash ext s := by
  intro hi
  have := (find_some_iff hi.linv (level := n.level) hl n.t n.e k).2
    (by show s.h.abs.get? k = _; rw [abs_get?, hk])
  rw [hm] at this
  cases this

/-! ## (a) `find` stops at a tombstone

Levels `x0 < x1 < x2`.  Slot 0 = `x2`, slot 1 = `x1 ∧ x2`, slot 2 = `X = x0 ∧ x2` (handle),
slot 3 = `Y = x0 ∧ x1 ∧ x2` (handle).  The table of level 0 has a tombstone in slot 0 (an earlier
removal), then `Y`, then `X` — all in one probe chain.  Swapping levels 0 and 1 rewrites `Y`; its
new then-child has the children of `X`, so `old_upper.get` must find `X`. -/

def wAH (x : Nat) : Heap :=
  ⟨[some ⟨2, .term true, .term false, 3⟩, some ⟨1, .inner 0, .term false, 2⟩,
    some ⟨0, .inner 0, .term false, 1 + x⟩, some ⟨0, .inner 1, .term false, 2⟩]⟩

def wA : HStore :=
  ⟨wAH 1, #[tblOf (KH hZero (wAH 1)).hf [.ins 9, .ins 3, .ins 2, .rem 9],
           tblOf (KH hZero (wAH 1)).hf [.ins 1], tblOf (KH hZero (wAH 1)).hf [.ins 0]]⟩

theorem wA_hinv : HInv hZero (extOf [0, 0, 1, 1]) wA := by
  refine HInv.of_tables (fun l => ?_) (checkInv_sound (by decide +kernel))
  match l with
  | 0 => exact tblOf_inv (KH hZero (wAH 1)).hf [.ins 9, .ins 3, .ins 2, .rem 9]
  | 1 => exact tblOf_inv (KH hZero (wAH 1)).hf [.ins 1]
  | 2 => exact tblOf_inv (KH hZero (wAH 1)).hf [.ins 0]
  | l + 3 => exact new_inv (KH hZero (wAH 1)).hf

def vFindTomb : Variant := ⟨true, false, false, false⟩

def wA' : HStore :=
  match levelDownV vFindTomb hZero Heap.firstFree wA 0 with
  | .ok s => s
  | .error _ => wA

/-- **`find_stops_at_tombstone_breaks`** (`R4-C01-find-stops-at-tombstone`): on a store satisfying
`HInv`, with a tombstone in front of the live entries of the taken table, the variant misses `X`
in `old_upper.get`, `get_or_insert` creates a **second** node with `X`'s children (slot 4), and when
`X` itself is visited `insert` finds that duplicate and drops `X`'s edge: `X` — externally
referenced — is live in **no table** (its level number is never updated, its counter is short by
one).  `HInv` fails; the verified swap (`levelSwapH_refines`) is correct on the same store. -/
theorem find_stops_at_tombstone_breaks :
    HInv hZero (extOf [0, 0, 1, 1]) wA ∧
    (wA.tbl 0).slots.toList.take 3 = [.tomb, .occ 0 3, .occ 0 2] ∧
    levelDownV vFindTomb hZero Heap.firstFree wA 0 = .ok wA' ∧
    wA'.absS.tables = [[3], [4], [0]] ∧
    wA'.h.sh 2 = some ⟨0, .inner 0, .term false⟩ ∧ wA'.h.sh 4 = some ⟨1, .inner 0, .term false⟩ ∧
    wA'.h.rcOf 2 = 1 ∧
    ¬ HInv hZero (extOf [0, 0, 1, 1]) wA' ∧
    (levelDownH hZero Heap.firstFree wA 0).map (fun s => (s.absS.tables, s.h.sh 4)) =
      .ok ([[3], [2], [0]], none) := by
  have h2 : wA'.h.sh 2 = some ⟨0, .inner 0, .term false⟩ := by decide +kernel
  refine ⟨wA_hinv, by decide +kernel, by decide +kernel, by decide +kernel, h2, by decide +kernel,
    by decide +kernel, not_hinv_of_unfiled h2 (by decide +kernel), by decide +kernel⟩

/-! ## (c) skipping unreferenced nodes of the old upper level

The same diagram, but `X` (slot 2) is dead (`ref_count() == 0`: only the table refers to it) and
comes *before* `Y` in the slot order of the taken table. -/

def wC : HStore :=
  ⟨wAH 0, #[tblOf (KH hZero (wAH 0)).hf [.ins 2, .ins 3],
           tblOf (KH hZero (wAH 0)).hf [.ins 1], tblOf (KH hZero (wAH 0)).hf [.ins 0]]⟩

theorem wC_hinv : HInv hZero (extOf [0, 0, 0, 1]) wC := by
  refine HInv.of_tables (fun l => ?_) (checkInv_sound (by decide +kernel))
  match l with
  | 0 => exact tblOf_inv (KH hZero (wAH 0)).hf [.ins 2, .ins 3]
  | 1 => exact tblOf_inv (KH hZero (wAH 0)).hf [.ins 1]
  | 2 => exact tblOf_inv (KH hZero (wAH 0)).hf [.ins 0]
  | l + 3 => exact new_inv (KH hZero (wAH 0)).hf

def vSkipDead : Variant := ⟨false, false, true, false⟩

def wC' : HStore :=
  match levelDownV vSkipDead hZero Heap.firstFree wC 0 with
  | .ok s => s
  | .error _ => wC

/-- **`skip_dead_node_breaks`** (`R4-C03-levelswap-skips-dead-node`): the dead node `X` is skipped
(not re-inserted); rewriting `Y` then finds `X` in the taken table and takes it as its new
then-child (`clone_edge`: the node is revived).  After `drop(old_upper)` the revived node is live,
referenced by `Y`, and listed in **no table** (the new lower table is empty) — with its old level
number 0, the same as its parent's.  The verified swap moves `X` to the new lower table. -/
theorem skip_dead_node_breaks :
    HInv hZero (extOf [0, 0, 0, 1]) wC ∧
    levelDownV vSkipDead hZero Heap.firstFree wC 0 = .ok wC' ∧
    wC'.absS.tables = [[3], [], [0]] ∧
    wC'.h.sh 2 = some ⟨0, .inner 0, .term false⟩ ∧ wC'.h.sh 3 = some ⟨0, .inner 2, .term false⟩ ∧
    ¬ HInv hZero (extOf [0, 0, 0, 1]) wC' ∧
    (levelDownH hZero Heap.firstFree wC 0).map (fun s => (s.absS.tables, s.h.sh 2)) =
      .ok ([[3], [2], [0]], some ⟨1, .inner 0, .term false⟩) := by
  have h2 : wC'.h.sh 2 = some ⟨0, .inner 0, .term false⟩ := by decide +kernel
  refine ⟨wC_hinv, by decide +kernel, by decide +kernel, h2, by decide +kernel,
    not_hinv_of_unfiled h2 (by decide +kernel), by decide +kernel⟩

/-! ## (b) removal of the last slot marked FREE although the chain wraps

`h15` sends every node to home slot 15 of the 16-slot tables.  Level 1 holds `A = x1` (slot 1 of the
heap, table slot 15) and `B = x1 ∧ x2` (heap slot 2, handle; table slot 0 — behind the wrap).
`Y = x0 ∧ x1` (heap slot 3, handle) is the only parent of `A`: the swap rewrites `Y`, files it in the
new upper table (table slot 1) and removes the orphan `A` from table slot 15. -/

def wBH : Heap :=
  ⟨[some ⟨2, .term true, .term false, 2⟩, some ⟨1, .term true, .term false, 2⟩,
    some ⟨1, .inner 0, .term false, 2⟩, some ⟨0, .inner 1, .term false, 2⟩]⟩

def wB : HStore :=
  ⟨wBH, #[tblOf (KH h15 wBH).hf [.ins 3], tblOf (KH h15 wBH).hf [.ins 1, .ins 2],
          tblOf (KH h15 wBH).hf [.ins 0]]⟩

theorem wB_hinv : HInv h15 (extOf [0, 0, 1, 1]) wB := by
  refine HInv.of_tables (fun l => ?_) (checkInv_sound (by decide +kernel))
  match l with
  | 0 => exact tblOf_inv (KH h15 wBH).hf [.ins 3]
  | 1 => exact tblOf_inv (KH h15 wBH).hf [.ins 1, .ins 2]
  | 2 => exact tblOf_inv (KH h15 wBH).hf [.ins 0]
  | l + 3 => exact new_inv (KH h15 wBH).hf

def vLastFree : Variant := ⟨false, true, false, false⟩

def wB' : HStore :=
  match levelDownV vLastFree h15 Heap.firstFree wB 0 with
  | .ok s => s
  | .error _ => wB

/-- **`remove_last_slot_free_breaks`** (`R4-C08-remove-last-slot-free`): the variant marks table
slot 15 FREE although the probe sequence continues in slot 0.  Afterwards `B` and the rewritten `Y`
are still stored in the table of level 0 and live in the heap, but every lookup starting at home
slot 15 stops at once: `LevelViewSet::get` by `B`'s own children answers `None`, so the next
`reduce` would create a second `B`.  `HInv` fails.  The verified `remove_at_slot` leaves a TOMBSTONE
and the lookup finds `B`. -/
theorem remove_last_slot_free_breaks :
    HInv h15 (extOf [0, 0, 1, 1]) wB ∧
    ((wB.tbl 1).get 15, (wB.tbl 1).get 0) = (.occ 15 1, .occ 15 2) ∧
    levelDownV vLastFree h15 Heap.firstFree wB 0 = .ok wB' ∧
    wB'.absS.tables = [[2, 3], [4], [0]] ∧ (wB'.tbl 0).get 15 = .free ∧
    wB'.h.sh 2 = some ⟨0, .inner 0, .term false⟩ ∧
    find h15 wB'.toL 0 (.inner 0) (.term false) = .ok none ∧
    ¬ HInv h15 (extOf [0, 0, 1, 1]) wB' ∧
    (levelDownH h15 Heap.firstFree wB 0).map
      (fun s => ((s.tbl 0).get 15, find h15 s.toL 0 (.inner 0) (.term false))) =
      .ok (.tomb, .ok (some 2)) := by
  have h2 : wB'.h.sh 2 = some ⟨0, .inner 0, .term false⟩ := by decide +kernel
  have hm : find h15 wB'.toL 0 (.inner 0) (.term false) = .ok none := by decide +kernel
  refine ⟨wB_hinv, by decide +kernel, by decide +kernel, by decide +kernel, by decide +kernel, h2, hm,
    not_hinv_of_missed h2 (by decide +kernel) hm, by decide +kernel⟩

/-! ## (d) filing the rewritten node before `set_child` (stale hash)

The same diagram with the separating hash `hKid` of `PropertiesLevelTable.lean`. -/

def wD : HStore :=
  ⟨wBH, #[tblOf (KH hKid wBH).hf [.ins 3], tblOf (KH hKid wBH).hf [.ins 1, .ins 2],
          tblOf (KH hKid wBH).hf [.ins 0]]⟩

theorem wD_hinv : HInv hKid (extOf [0, 0, 1, 1]) wD := by
  refine HInv.of_tables (fun l => ?_) (checkInv_sound (by decide +kernel))
  match l with
  | 0 => exact tblOf_inv (KH hKid wBH).hf [.ins 3]
  | 1 => exact tblOf_inv (KH hKid wBH).hf [.ins 1, .ins 2]
  | 2 => exact tblOf_inv (KH hKid wBH).hf [.ins 0]
  | l + 3 => exact new_inv (KH hKid wBH).hf

def vInsertFirst : Variant := ⟨false, false, false, true⟩

def wD' : HStore :=
  match levelDownV vInsertFirst hKid Heap.firstFree wD 0 with
  | .ok s => s
  | .error _ => wD

/-- **`insert_before_set_child_breaks`** (cause 1 of /repo 1415cc0; `LevelTable.stale_hash_breaks`
inside a swap): `Y` is filed in the new upper table while it still has its old children, then
rewritten in place.  It is stored under the hash of `(x1, ⊥)`; the lookup by its current children
`(slot 4, ⊥)` misses it.  `HInv` fails.  The verified order (`set_child`, `set_level`, then
`insert`) files it under the hash of the new children. -/
theorem insert_before_set_child_breaks :
    HInv hKid (extOf [0, 0, 1, 1]) wD ∧
    levelDownV vInsertFirst hKid Heap.firstFree wD 0 = .ok wD' ∧
    wD'.absS.tables = [[2, 3], [4], [0]] ∧
    wD'.h.sh 3 = some ⟨0, .inner 4, .term false⟩ ∧
    find hKid wD'.toL 0 (.inner 4) (.term false) = .ok none ∧
    ¬ HInv hKid (extOf [0, 0, 1, 1]) wD' ∧
    (levelDownH hKid Heap.firstFree wD 0).map
      (fun s => (s.h.sh 3, find hKid s.toL 0 (.inner 4) (.term false))) =
      .ok (some ⟨0, .inner 4, .term false⟩, .ok (some 3)) := by
  have h3 : wD'.h.sh 3 = some ⟨0, .inner 4, .term false⟩ := by decide +kernel
  have hm : find hKid wD'.toL 0 (.inner 4) (.term false) = .ok none := by decide +kernel
  refine ⟨wD_hinv, by decide +kernel, by decide +kernel, h3, hm,
    not_hinv_of_missed h3 (by decide +kernel) hm, by decide +kernel⟩

end OxiddModel.Reorder.SwapHashed
