import OxiddModel.Reorder.SwapHashedDown

/-!
# Sequences of swaps on hashed tables; building concrete stores with `HInv`

* `swapsH_spec`: any sequence of in-range `level_down` calls on a hashed store with `HInv` either
  stops with the capacity panic or ends in a store with `HInv` in which every externally
  referenced slot denotes the diagram obtained by replaying the swaps on trees (`swapTrees`).
* `HInv.of_tables`: `HInv` from the C17 invariant of every level table (for the hash of the
  current children) and the reorder invariant of the list abstraction; `tblOf`: a table with the
  C17 invariant from **any** history of table operations (`HashTbl.tbl_history`) — this is how the
  examples get tables with tombstones and wrapped probe chains.
-/
namespace OxiddModel.Reorder.SwapHashed
open OxiddModel.HashTbl OxiddModel.HashTbl.Tbl OxiddModel.Bdd OxiddModel.Bdd.BDD OxiddModel.Bdd.Refine
open OxiddModel.Bdd.LevelTable OxiddModel.Reorder OxiddModel.Reorder.SwapStore

variable {hash : Hash}

/-! ## concrete stores -/

/-- the hash function that maps **every** node to 0: all ids of a table are in one probe chain -/
def hZero : Hash := fun _ _ => 0

/-- … to 15: the home slot is the last slot of a 16-slot table, every chain wraps around -/
def h15 : Hash := fun _ _ => 15

/-- the table a history of `RawTable` operations leaves (`hf`: hash of a stored id) -/
def tblOf (hf : Nat → Nat) (ops : List HashTbl.Op) : Tbl :=
  match run hf Tbl.new ops with
  | .ok (t, _) => t
  | .error _ => Tbl.new

theorem tblOf_inv (hf : Nat → Nat) (ops : List HashTbl.Op) : Tbl.Inv hf (tblOf hf ops) := by
  unfold tblOf
  cases hr : run hf Tbl.new ops with
  | error e => exact new_inv hf
  | ok p =>
    obtain ⟨t, obs⟩ := p
    exact (tbl_history hf ops t obs hr).1

theorem HInv.of_tables {ext : Nat → Nat} {s : HStore}
    (hT : ∀ l, Tbl.Inv (KH hash s.h).hf (s.tbl l)) (hinv : SwapStore.Inv ext s.absS) :
    HInv hash ext s := by
  have hmem : ∀ l id, (s.tbl l).Mem id ↔ ∃ n, s.h.sh id = some n ∧ n.level = l := by
    intro l id
    rw [← mem_keys_iff, ← absS_table]
    exact hinv.tbl_iff l id
  refine ⟨⟨fun l => ⟨hT l, fun id hid => ?_, fun x y hx hy hk => ?_⟩, fun l id => ?_⟩, hinv⟩
  · obtain ⟨n, hn, _⟩ := (hmem l id).1 hid
    exact ⟨(n.t, n.e), by show (KH hash s.h).kf id = _; rw [KH_kf, hn]; rfl⟩
  · obtain ⟨n, hn, hl⟩ := (hmem l x).1 hx
    obtain ⟨n', hn', hl'⟩ := (hmem l y).1 hy
    have hk' : (KH hash s.h).kf x = (KH hash s.h).kf y := hk
    rw [KH_kf, KH_kf, hn, hn'] at hk'
    simp only [kidsOf, Option.map_some, Option.some.injEq, Prod.mk.injEq] at hk'
    have : n = n' := by
      cases n; cases n'; simp only [Node.mk.injEq] at *
      exact ⟨hl.trans hl'.symm, hk'.1, hk'.2⟩
    subst this
    exact hinv.uniq x y n hn hn'
  · show (s.tbl l).Mem id ↔ ∃ n, s.h.abs.get? id = some n ∧ n.level = l
    rw [abs_get?]; exact hmem l id

/-! ## sequences of swaps -/

theorem swapsH_spec {ext : Nat → Nat} {al : Heap → Nat} (hal : AllocOK al) (us : List Nat)
    {s : HStore} (hi : HInv hash ext s) (hus : ∀ u ∈ us, u + 1 < s.tables.size) :
    Good (fun s' => HInv hash ext s' ∧ s'.tables.size = s.tables.size ∧
      ∀ k t, 0 < ext k → Denotes s.h.abs (.inner k) t →
        Denotes s'.h.abs (.inner k) (swapTrees us t)) (swapsH hash al s us) := by
  induction us generalizing s with
  | nil => exact Good.ok ⟨hi, rfl, fun k t _ hd => hd⟩
  | cons u us ih =>
    have hu := hus u (by simp)
    have hu' : u + 1 < s.absS.tables.length := by rw [absS_length]; exact hu
    unfold swapsH
    refine Good.bind (levelDownH_hinv hal hi hu) ?_
    rintro s1 ⟨hsim, hi1, hsz⟩
    refine (ih hi1 (fun v hv => by rw [hsz]; exact hus v (by simp [hv]))).mono ?_
    rintro s' ⟨h1, h2, h3⟩
    refine ⟨h1, h2.trans hsz, fun k t hk hd => ?_⟩
    have := levelDownS_handle hal orderOK_id hi.inv hu' hk hd
    rw [← hsim.h] at this
    exact h3 k (swapTree u t) hk this

end OxiddModel.Reorder.SwapHashed
