import OxiddModel.Reorder.SwapHashedTbl
import OxiddModel.Reorder.SwapStoreLoop

/-!
# The loop of `level_swap` on hashed tables simulates the loop on lists

`Cpl`: the hashed loop state and the list loop state have the same heap and coupled tables
(`TC`).  One iteration of the hashed loop body (`stepNodeH`) on coupled states either stops with
the capacity panic or yields states coupled again with `stepNode` of the list model
(`stepNodeH_sim`), for every hash function.

Only one place needs the loop invariant `J` of `SwapStoreInv.lean`: the lookup in the **taken**
table (`old_upper.get`), whose entries are stale for the nodes already rewritten.  `J` says that a
rewritten node never has two children below both levels (`J.old_bel`), while the searched
children are grandchildren, i.e. below both levels — so no stale entry can answer, and no stale
entry hides a live one (`findTaken_spec'`).
-/
namespace OxiddModel.Reorder.SwapHashed
open OxiddModel.HashTbl OxiddModel.HashTbl.Tbl OxiddModel.Bdd OxiddModel.Bdd.Refine
open OxiddModel.Bdd.LevelTable OxiddModel.Reorder.SwapStore

variable {hash : Hash}
variable {a b : Nat} {P : Nat → Prop} {sh0 : Nat → Option Node} {old : List Nat} {ext : Nat → Nat}

/-- the taken table: a keyed set w.r.t. the heap **at entry**, holding the ids `old` -/
def Taken (hash : Hash) (sh0 : Nat → Option Node) (told : Tbl) (old : List Nat) : Prop :=
  ∃ h0 : Heap, h0.sh = sh0 ∧ TC hash h0 told old

/-- `old_upper.get(&node)` during the loop is the list lookup in `old` -/
theorem findTaken_sim (hp : Pre a b P sh0 old) {h : Heap} {up lo todo : List Nat}
    (hj : J a b P sh0 old ext h.sh up lo todo) {told : Tbl} (hold : Taken hash sh0 told old)
    {x y : Edge} (hx : Bel a b P sh0 x) (hy : Bel a b P sh0 y) :
    findTaken hash (nodesOf h) told x y = .ok (lookup h old x y) := by
  obtain ⟨h0, hsh, tc⟩ := hold
  -- an entry of `old` that now has the children `(x, y)` is unchanged since entry
  have hunch : ∀ id ∈ old, ∀ lv, h.sh id = some ⟨lv, x, y⟩ → sh0 id = h.sh id ∧ lv = a := by
    intro id hid lv hs
    obtain ⟨hm, hl⟩ := hj.old_bel hp hid hs hx hy
    refine ⟨?_, hl⟩
    rcases hm with hm | hm
    · obtain ⟨_, _, _, _, _, _, g, _⟩ := hj.loC id hm
      exact g hid
    · exact ((hj.todoSh id hm).2).symm
  have hst : ∀ id, told.Mem id →
      kidsAt (nodesOf h) id = kidsAt (nodesOf h0) id ∨ kidsAt (nodesOf h) id ≠ some (x, y) := by
    intro id hid
    by_cases hk : kidsAt (nodesOf h) id = some (x, y)
    · left
      have hk' : (KH hash h).kf id = some (x, y) := hk
      rw [KH_kf] at hk'
      obtain ⟨lv, hs⟩ := kidsOf_eq_some.1 hk'
      have := (hunch id ((tc.m id).1 hid) lv hs).1
      show (KH hash h).kf id = (KH hash h0).kf id
      rw [KH_kf, KH_kf, hsh, this]
    · exact .inr hk
  rcases findTaken_spec' (h := hash) (nodes0 := nodesOf h0) (nodes := nodesOf h) tc.k x y hst with
    ⟨id, h1, h2, h3, _⟩ | ⟨h1, h2⟩
  · rw [h1]
    have h3' : (KH hash h).kf id = some (x, y) := h3
    rw [KH_kf] at h3'
    obtain ⟨lv, hs⟩ := kidsOf_eq_some.1 h3'
    have hid := (tc.m id).1 h2
    rw [lookup_of_unique hid ⟨lv, hs⟩]
    intro j hj' lv' hsj
    have e1 := hunch id hid lv hs
    have e2 := hunch j hj' lv' hsj
    obtain ⟨n, hn, _⟩ := (hp.old_iff id).1 hid
    have : sh0 j = some n := by rw [e2.1, hsj, e2.2, ← e1.2, ← hs, ← e1.1, hn]
    exact hp.uniq j id n this hn
  · rw [h1, lookup_none_of]
    intro j hj' lv hsj
    refine h2 j ((tc.m j).2 hj') ?_
    show (KH hash h).kf j = some (x, y)
    rw [KH_kf, hsj]; rfl

/-- one `new_children` element: the hashed version computes what the list version computes -/
theorem mkChildH_sim {al : Heap → Nat} (hal : ∀ h : Heap, h.get? (al h) = none)
    (hp : Pre a b P sh0 old) {h : Heap} {up lo todo : List Nat}
    (hj : J a b P sh0 old ext h.sh up lo todo) {told : Tbl} (hold : Taken hash sh0 told old)
    {tl : Tbl} (hlo : TC hash h tl lo) {x y : Edge} (hx : Bel a b P sh0 x) (hy : Bel a b P sh0 y) :
    Good (fun r => r.1.1 = (mkChild al a old (h, lo) x y).1.1 ∧ r.2 = (mkChild al a old (h, lo) x y).2 ∧
        TC hash r.1.1 r.1.2 (mkChild al a old (h, lo) x y).1.2)
      (mkChildH hash al a told (h, tl) x y) := by
  unfold mkChildH mkChild
  simp only
  have hs1 : (incRc (incRc h x) y).sh = h.sh := by rw [sh_incRc, sh_incRc]
  generalize incRc (incRc h x) y = h1 at hs1
  have hlo1 : TC hash h1 tl lo := hlo.congr_sh (fun k _ => by rw [hs1])
  by_cases hxy : x = y
  · simp only [hxy, if_true]
    exact Good.ok ⟨rfl, rfl, hlo1.congr_sh (fun k _ => by rw [sh_decRc])⟩
  · simp only [hxy, if_false]
    have hj1 : J a b P sh0 old ext h1.sh up lo todo := hs1 ▸ hj
    rw [findTaken_sim hp hj1 hold hx hy]
    simp only [bindE]
    cases hlk : lookup h1 old x y with
    | some j =>
      simp only
      refine Good.ok ⟨rfl, rfl, hlo1.congr_sh (fun k _ => by rw [sh_incRc, sh_decRc, sh_decRc])⟩
    | none =>
      simp only
      refine Good.bind (hlo1.probe x y) ?_
      rintro ⟨tb, r⟩ ⟨hc1, hr⟩
      rcases hr with ⟨s, id, st, hr, hg, hl⟩ | ⟨s, hr, hv, hl, hno⟩
      · simp only at hr hg; subst hr
        simp only [hg, hl]
        exact Good.ok ⟨rfl, rfl, hc1.congr_sh (fun k _ => by rw [sh_incRc, sh_decRc, sh_decRc])⟩
      · simp only at hr; subst hr
        simp only [hl]
        have hfree := hal h1
        have hjl : al h1 ∉ lo := fun hm => hlo1.live hm (sh_eq_none.2 hfree)
        refine Good.bind (hc1.insertSlot (h' := h1.put (al h1) (some ⟨a, x, y, 2⟩)) hv hno ?_ hjl
          ⟨a, by rw [sh_put]; simp [SNode.toNode]⟩) ?_
        · intro k hk
          rw [sh_put, if_neg (fun hkj : k = al h1 => hjl (hkj ▸ hk))]
        · intro tb' h2
          exact Good.ok ⟨rfl, rfl, h2⟩

/-! ## the loop body -/

/-- hashed and list loop state: same heap, coupled tables -/
structure Cpl (hash : Hash) (hs : HLS) (st : LS) : Prop where
  h : hs.h = st.h
  up : TC hash st.h hs.up st.up
  lo : TC hash st.h hs.lo st.lo

theorem stepNodeH_sim {al : Heap → Nat} (hal : ∀ h : Heap, h.get? (al h) = none)
    (hp : Pre a b P sh0 old) {R : Nat → Nat} (_hR : ∀ k, ext k ≤ R k) {st : LS}
    {i : Nat} {todo : List Nat} (hinv : LInv a b P sh0 old ext R st (i :: todo))
    {told : Tbl} (hold : Taken hash sh0 told old) {hs : HLS} (hc : Cpl hash hs st) :
    Good (fun hs' => Cpl hash hs' (stepNode al a b old st i)) (stepNodeH hash al a b told hs i) := by
  have hj := hinv.j
  have hit : i ∈ i :: todo := by simp
  obtain ⟨n, hsi, hn, hla⟩ := hj.todo_live hp hit
  obtain ⟨m, hm, hmn⟩ := sh_eq_some.mp hsi
  subst hmn
  have hcf_t := hj.child_facts hp hit hn (c := m.t) (Or.inl rfl)
  have hcf_e := hj.child_facts hp hit hn (c := m.e) (Or.inr rfl)
  have hiu : i ∉ st.up := fun h => hj.dUT i h hit
  have hil : i ∉ st.lo := fun h => hj.dLT i h hit
  obtain ⟨hsh, hsu, hsl⟩ := hs
  obtain ⟨hh, hup, hlo⟩ := hc
  simp only at hh hup hlo
  subst hh
  unfold stepNodeH stepNode
  simp only [hm]
  by_cases hcond : (!lvlIs st.h b m.t && !lvlIs st.h b m.e) = true
  · rw [if_pos hcond, if_pos hcond]
    -- the node only moves
    have hlo' : TC hash (incRc st.h (.inner i)) hsl st.lo := hlo.congr_sh (fun k _ => by rw [sh_incRc])
    have hlive : (incRc st.h (.inner i)).get? i ≠ none := by
      intro hc'
      have : (incRc st.h (.inner i)).sh i = none := sh_eq_none.2 hc'
      rw [sh_incRc, hsi] at this; cases this
    refine Good.bind (insertH_sim hlo' hlive hil) ?_
    rintro ⟨h', tl'⟩ ⟨e1, e2⟩
    simp only at e1 e2
    subst e1
    refine Good.ok ⟨rfl, ?_, e2⟩
    simp only
    refine hup.congr_sh (fun k _ => ?_)
    rw [sh_tblInsert, sh_incRc]
  · rw [if_neg hcond, if_neg hcond]
    rw [cofE_of_child hcf_t.2.1, cofE_of_child hcf_e.2.1]
    have hk := hp.upKids i _ hn hla
    have hbt : Bel a b P sh0 (cof0 b sh0 m.t).1 ∧ Bel a b P sh0 (cof0 b sh0 m.t).2 := bel_cof0 hp hk.1
    have hbe : Bel a b P sh0 (cof0 b sh0 m.e).1 ∧ Bel a b P sh0 (cof0 b sh0 m.e).2 := bel_cof0 hp hk.2
    -- first new child
    obtain ⟨h0', lo0, c1, e0, J0, _M0, ⟨_d0, _hd0, RC0⟩, live0, sub0⟩ :=
      mkChild_spec hal hp hj hinv.rc hbt.1 hbe.1
    refine Good.bind (mkChildH_sim hal hp hj hold hlo hbt.1 hbe.1) ?_
    rintro ⟨⟨g0, tl0⟩, d1⟩ ⟨q1, q2, q3⟩
    simp only [e0] at q1 q2 q3
    subst q1 q2
    -- second new child
    obtain ⟨h1', lo1, c2, e1, J1, _M1, _, live1, sub1⟩ :=
      mkChild_spec hal hp J0 RC0 hbt.2 hbe.2
    refine Good.bind (mkChildH_sim hal hp J0 hold q3 hbt.2 hbe.2) ?_
    rintro ⟨⟨g1, tl1⟩, d2⟩ ⟨p1, p2, p3⟩
    simp only [e0, e1] at p1 p2 p3 ⊢
    subst p1 p2
    have hlive : ∀ k, st.h.sh k ≠ none → g1.sh k = st.h.sh k := fun k hk' => by
      rw [live1 k (by rw [live0 k hk']; exact hk'), live0 k hk']
    have hsi1 : g1.sh i = some ⟨a, m.t, m.e⟩ := by
      rw [hlive i (by simp [hsi]), hsi, ← hla]; rfl
    have sh2 := sh_setChildT hsi1 d1
    have hsi2 : (setChildT g1 i d1).sh i = some ⟨a, d1, m.e⟩ := by rw [sh2]; simp
    have sh3 := sh_setChildE hsi2 d2
    have hsi3 : (setChildE (setChildT g1 i d1) i d2).sh i = some ⟨a, d1, d2⟩ := by rw [sh3]; simp
    have sh4 := sh_setLevel hsi3 b
    rw [sh3, sh2, upd_upd, upd_upd] at sh4
    generalize setLevel (setChildE (setChildT g1 i d1) i d2) i b = h4 at sh4
    have sh5 : (incRc h4 (.inner i)).sh = upd g1.sh i (some ⟨b, d1, d2⟩) := by rw [sh_incRc, sh4]
    generalize incRc h4 (.inner i) = h5 at sh5
    have hil1 : i ∉ lo1 := fun h => J1.dLT i h hit
    -- the tables w.r.t. the rewritten heap
    have hup5 : TC hash h5 hsu st.up := hup.congr_sh (fun k hk' => by
      have hki : k ≠ i := fun h => hiu (h ▸ hk')
      rw [sh5, SwapStore.upd_ne _ _ hki]
      exact hlive k (hup.live hk'))
    have hlo5 : TC hash h5 tl1 lo1 := p3.congr_sh (fun k hk' => by
      have hki : k ≠ i := fun h => hil1 (h ▸ hk')
      rw [sh5, SwapStore.upd_ne _ _ hki])
    have hlive5 : h5.get? i ≠ none := by
      intro hc'
      have : h5.sh i = none := sh_eq_none.2 hc'
      rw [sh5] at this; simp at this
    -- insert into the new upper table
    refine Good.bind (insertH_sim hup5 hlive5 hiu) ?_
    rintro ⟨g5, tu5⟩ ⟨r1, r2⟩
    simp only at r1 r2
    subst r1
    have hsub5 : ∀ k ∈ (tblInsert h5 st.up i).2, k = i ∨ k ∈ st.up := by
      intro k hk'
      unfold tblInsert at hk'
      cases hg : h5.get? i with
      | none => rw [hg] at hk'; exact .inr hk'
      | some n5 =>
        rw [hg] at hk'
        simp only at hk'
        cases hl5 : lookup h5 st.up n5.t n5.e with
        | none => rw [hl5] at hk'; simpa using hk'
        | some j5 => rw [hl5] at hk'; exact .inr hk'
    have hdisj5 : ∀ k ∈ (tblInsert h5 st.up i).2, k ∉ lo1 := by
      intro k hk'
      rcases hsub5 k hk' with rfl | hk'
      · exact hil1
      · exact J1.dUL k hk'
    -- the orphan checks
    refine Good.bind (orphanH_sim r2 b m.t) ?_
    rintro ⟨g6, tu6⟩ ⟨s1, s2⟩
    simp only at s1 s2
    subst s1
    have hos6 := orphan_sub b (tblInsert h5 st.up i).1 (tblInsert h5 st.up i).2 m.t
    have hlo6 : TC hash (orphan b (tblInsert h5 st.up i) m.t).1 tl1 lo1 :=
      hlo5.congr_sh (fun k hk' => by
        rw [show tblInsert h5 st.up i = ((tblInsert h5 st.up i).1, (tblInsert h5 st.up i).2) from rfl,
          hos6.2 k (fun hc' => hdisj5 k hc' hk'), sh_tblInsert])
    by_cases hte : m.e = m.t
    · simp only [hte, if_true]
      refine Good.bind (Good.ok (P := fun r : Heap × Tbl =>
          r.1 = (orphan b (tblInsert h5 st.up i) m.t).1 ∧
          TC hash r.1 r.2 (orphan b (tblInsert h5 st.up i) m.t).2)
        ⟨rfl, s2⟩) ?_
      rintro ⟨g7, tu7⟩ ⟨t1, t2⟩
      simp only at t1 t2
      subst t1
      exact Good.ok ⟨rfl, t2, hlo6⟩
    · simp only [hte, if_false]
      have s2' : TC hash (orphan b (tblInsert h5 st.up i) m.t).1 tu6
          (orphan b ((tblInsert h5 st.up i).1, (tblInsert h5 st.up i).2) m.t).2 := s2
      refine Good.bind (orphanH_sim s2 b m.e) ?_
      rintro ⟨g7, tu7⟩ ⟨t1, t2⟩
      simp only at t1 t2
      subst t1
      refine Good.ok ⟨rfl, t2, ?_⟩
      have hos7 := orphan_sub b (orphan b (tblInsert h5 st.up i) m.t).1
        (orphan b (tblInsert h5 st.up i) m.t).2 m.e
      refine hlo6.congr_sh (fun k hk' => ?_)
      exact hos7.2 k (fun hc' => hdisj5 k (hos6.1 k hc') hk')

/-- the whole loop -/
theorem levelSwapLoopH_sim {al : Heap → Nat} (hal : ∀ h : Heap, h.get? (al h) = none)
    (hp : Pre a b P sh0 old) {R : Nat → Nat} (hR : ∀ k, ext k ≤ R k)
    {told : Tbl} (hold : Taken hash sh0 told old) (order : List Nat) {st : LS}
    (hinv : LInv a b P sh0 old ext R st order) {hs : HLS} (hc : Cpl hash hs st) :
    Good (fun hs' => Cpl hash hs' (levelSwapLoop al a b old order st))
      (levelSwapLoopH hash al a b told order hs) := by
  induction order generalizing st hs with
  | nil => exact Good.ok hc
  | cons i rest ih =>
    unfold levelSwapLoopH
    refine Good.bind (stepNodeH_sim hal hp hR hinv hold hc) ?_
    intro hs' hc'
    have := ih (stepNode_spec hal hp hR hinv) hc'
    simpa [levelSwapLoop] using this

end OxiddModel.Reorder.SwapHashed
