import OxiddModel.Reorder.SwapHashed
import OxiddModel.Reorder.SwapStoreFinal
import OxiddModel.Bdd.PropertiesLevelTable

/-!
# A hashed table and a list of ids that hold the same keyed set: the operations commute

`TC hash h tb l`: the `RawTable` `tb` is a keyed set w.r.t. the **current** children of the nodes
in heap `h` (`KInv`: C17 invariant with "stored status = hash of the current children", ids
pairwise different children) and stores exactly the ids of the duplicate-free list `l`.

Under `TC`, and for every hash function and table history,
* `RawTable::get` with the closure of `LevelViewSet::eq` is the list `lookup` (`TC.get`),
* `LevelViewSet::insert` is `tblInsert` (`insertH_sim`; both outcomes),
* `LevelView::remove` is `tblRemove` (`removeH_sim`; both outcomes), hence the orphan check
  (`orphanH_sim`),
and `TC` holds again between the results.  None of this needs the loop invariant of the swap: the
uniqueness of keys that makes the linear search deterministic is part of `KInv`.
-/
namespace OxiddModel.Reorder.SwapHashed
open OxiddModel.HashTbl OxiddModel.HashTbl.Tbl OxiddModel.Bdd OxiddModel.Bdd.Refine
open OxiddModel.Bdd.LevelTable OxiddModel.Reorder.SwapStore

/-! ## outcomes: a value with a property, or the capacity panic -/

/-- the run returns a value satisfying `P`, or stops with the capacity panic of a level table
(an inductive predicate, so that a statement about a concrete run is not evaluated by `whnf`) -/
inductive Good {α : Type} (P : α → Prop) : Except Err α → Prop
  | ok {x : α} : P x → Good P (.ok x)
  | cap : Good P (.error .capacity)

theorem Good.ok_iff {α : Type} {P : α → Prop} {x : α} : Good P (.ok x) ↔ P x :=
  ⟨fun h => by cases h; assumption, Good.ok⟩

theorem Good.bind {α β : Type} {P : α → Prop} {Q : β → Prop} {r : Except Err α}
    {f : α → Except Err β} (h : Good P r) (hf : ∀ x, P x → Good Q (f x)) : Good Q (bindE r f) := by
  cases h with
  | ok hx => exact hf _ hx
  | cap => exact Good.cap

theorem Good.mono {α : Type} {P Q : α → Prop} {r : Except Err α} (h : Good P r)
    (hpq : ∀ x, P x → Q x) : Good Q r := by
  cases h with
  | ok hx => exact Good.ok (hpq _ hx)
  | cap => exact Good.cap

theorem Good.of_ok {α : Type} {P : α → Prop} {r : Except Err α} {x : α} (h : Good P r)
    (hr : r = .ok x) : P x := by
  subst hr; exact Good.ok_iff.1 h

theorem Good.cases {α : Type} {P : α → Prop} {r : Except Err α} (h : Good P r) :
    (∃ x, r = .ok x ∧ P x) ∨ r = .error .capacity := by
  cases h with
  | ok hx => exact .inl ⟨_, rfl, hx⟩
  | cap => exact .inr rfl

/-! ## keys of the ids: the children of the node in the heap -/

/-- what the level tables are keyed by, read from the heap -/
def KH (hash : Hash) (h : Heap) : Keyed (Edge × Edge) := keyed hash (nodesOf h)

def kidsOf (o : Option Node) : Option (Edge × Edge) := o.map fun n => (n.t, n.e)

theorem KH_kf (hash : Hash) (h : Heap) (x : Nat) : (KH hash h).kf x = kidsOf (h.sh x) := by
  show kidsAt (nodesOf h) x = _
  rw [kidsAt_eq]
  show (h.abs.get? x).map _ = _
  rw [abs_get?]; rfl

theorem KH_h (hash : Hash) (h : Heap) (a b : Edge) : (KH hash h).h (a, b) = hash a b := rfl

theorem kidsOf_eq_some {o : Option Node} {a b : Edge} :
    kidsOf o = some (a, b) ↔ ∃ lv, o = some ⟨lv, a, b⟩ := by
  cases o with
  | none => simp [kidsOf]
  | some n =>
    obtain ⟨lv, t, e⟩ := n
    simp only [kidsOf, Option.map_some, Option.some.injEq, Prod.mk.injEq, Node.mk.injEq]
    constructor
    · rintro ⟨rfl, rfl⟩; exact ⟨lv, rfl, rfl, rfl⟩
    · rintro ⟨lv', _, rfl, rfl⟩; exact ⟨rfl, rfl⟩

theorem eqc_KH (hash : Hash) (h : Heap) (a b : Edge) :
    eqc (nodesOf h) a b = (KH hash h).eq (a, b) := eqc_eq hash (nodesOf h) a b

/-! ## the list `lookup` under uniqueness -/

theorem lookup_of_unique {h : Heap} {l : List Nat} {a b : Edge} {id : Nat} (hid : id ∈ l)
    (hs : ∃ lv, h.sh id = some ⟨lv, a, b⟩)
    (hu : ∀ j ∈ l, ∀ lv, h.sh j = some ⟨lv, a, b⟩ → j = id) : lookup h l a b = some id := by
  cases hl : lookup h l a b with
  | none =>
    obtain ⟨lv, hs⟩ := hs
    exact absurd hs (lookup_none hl id hid lv)
  | some j =>
    obtain ⟨hj, lv, hsj⟩ := lookup_some hl
    rw [hu j hj lv hsj]

theorem lookup_none_of {h : Heap} {l : List Nat} {a b : Edge}
    (hno : ∀ j ∈ l, ∀ lv, h.sh j ≠ some ⟨lv, a, b⟩) : lookup h l a b = none := by
  cases hl : lookup h l a b with
  | none => rfl
  | some j =>
    obtain ⟨hj, lv, hsj⟩ := lookup_some hl
    exact absurd hsj (hno j hj lv)

/-! ## the coupling of one table -/

structure TC (hash : Hash) (h : Heap) (tb : Tbl) (l : List Nat) : Prop where
  k : KInv (KH hash h) tb
  m : ∀ x, tb.Mem x ↔ x ∈ l
  nd : l.Nodup

variable {hash : Hash}

/-- only the children of the listed ids matter -/
theorem TC.congr {h h' : Heap} {tb : Tbl} {l : List Nat} (hc : TC hash h tb l)
    (hs : ∀ x ∈ l, kidsOf (h'.sh x) = kidsOf (h.sh x)) : TC hash h' tb l :=
  ⟨hc.k.congr rfl (fun x hx => by rw [KH_kf, KH_kf]; exact hs x ((hc.m x).1 hx)), hc.m, hc.nd⟩

theorem TC.congr_sh {h h' : Heap} {tb : Tbl} {l : List Nat} (hc : TC hash h tb l)
    (hs : ∀ x ∈ l, h'.sh x = h.sh x) : TC hash h' tb l :=
  hc.congr (fun x hx => by rw [hs x hx])

theorem TC.live {h : Heap} {tb : Tbl} {l : List Nat} (hc : TC hash h tb l) {x : Nat} (hx : x ∈ l) :
    h.sh x ≠ none := by
  obtain ⟨k, hk⟩ := hc.k.keyed x ((hc.m x).2 hx)
  rw [KH_kf] at hk
  intro hn; rw [hn] at hk; cases hk

theorem TC.unique {h : Heap} {tb : Tbl} {l : List Nat} (hc : TC hash h tb l) {x y : Nat}
    (hx : x ∈ l) (hy : y ∈ l) (hk : kidsOf (h.sh x) = kidsOf (h.sh y)) : x = y :=
  hc.k.inj x y ((hc.m x).2 hx) ((hc.m y).2 hy) (by rw [KH_kf, KH_kf]; exact hk)

theorem TC.new (hash : Hash) (h : Heap) : TC hash h Tbl.new [] :=
  ⟨KInv.new _, fun x => ⟨fun hm => (new_not_mem x hm).elim, fun hx => by cases hx⟩, List.nodup_nil⟩

/-- the same set in another table (`reserve`, rehash) -/
theorem TC.of_mem {h : Heap} {tb tb' : Tbl} {l : List Nat} (hc : TC hash h tb l)
    (hinv : Inv (KH hash h).hf tb') (hm : ∀ x, tb'.Mem x ↔ tb.Mem x) : TC hash h tb' l :=
  ⟨hc.k.of_mem hinv (fun x hx => (hm x).1 hx), fun x => (hm x).trans (hc.m x), hc.nd⟩

/-- the listed ids are the table's `keys` up to order -/
theorem TC.perm {h : Heap} {tb : Tbl} {l : List Nat} (hc : TC hash h tb l) : tb.keys.Perm l :=
  (List.perm_ext_iff_of_nodup (keys_nodup hc.k.inv).1 hc.nd).2
    (fun x => (mem_keys_iff tb x).trans (hc.m x))

theorem TC.keys {h : Heap} {tb : Tbl} (hk : KInv (KH hash h) tb) : TC hash h tb tb.keys :=
  ⟨hk, fun x => (mem_keys_iff tb x).symm, (keys_nodup hk.inv).1⟩

/-- `RawTable::get(hash_node(node), eq)` on a coupled table is the list `lookup` -/
theorem TC.get {h : Heap} {tb : Tbl} {l : List Nat} (hc : TC hash h tb l) (a b : Edge) :
    getP tb (hash a b) (eqc (nodesOf h) a b) = .ok (lookup h l a b) := by
  rw [eqc_KH hash]
  rcases lookupK_spec hc.k (a, b) with ⟨id, h1, h2, h3⟩ | ⟨h1, h2⟩
  · have h1' : getP tb (hash a b) ((KH hash h).eq (a, b)) = .ok (some id) := h1
    rw [h1']
    rw [KH_kf] at h3
    rw [lookup_of_unique ((hc.m id).1 h2) (kidsOf_eq_some.1 h3)]
    intro j hj lv hsj
    exact hc.unique hj ((hc.m id).1 h2) (by rw [h3, hsj]; rfl)
  · have h1' : getP tb (hash a b) ((KH hash h).eq (a, b)) = .ok none := h1
    rw [h1']
    rw [lookup_none_of]
    intro j hj lv hsj
    exact h2 j ((hc.m j).2 hj) (by rw [KH_kf, hsj]; rfl)

/-- `find_or_find_insert_slot` on a coupled table: a hit on the id the list `lookup` finds, or an
insert slot iff the list `lookup` finds nothing; the table may have been rehashed -/
theorem TC.probe {h : Heap} {tb : Tbl} {l : List Nat} (hc : TC hash h tb l) (a b : Edge) :
    Good (fun r => TC hash h r.1 l ∧
      ((∃ i id st, r.2 = .found i ∧ r.1.get i = .occ st id ∧ lookup h l a b = some id) ∨
       (∃ s, r.2 = .vacant s ∧ Vacant r.1 (hash a b) s ∧ lookup h l a b = none ∧
         ∀ id, r.1.Mem id → (KH hash h).kf id ≠ some (a, b))))
      (findOrFindInsertSlotP tb (hash a b) (eqc (nodesOf h) a b)) := by
  rw [eqc_KH hash]
  rcases probeK_spec hc.k (a, b) with ⟨t1, r, h1, h2, h3, h4⟩ | ⟨h1, _⟩
  · have h1' : findOrFindInsertSlotP tb (hash a b) ((KH hash h).eq (a, b)) = .ok (t1, r) := h1
    rw [h1']
    refine Good.ok ⟨hc.of_mem h2.inv h3, ?_⟩
    rcases h4 with ⟨i, id, rfl, g1, g2, g3⟩ | ⟨s, rfl, gv, gno⟩
    · left
      refine ⟨i, id, _, rfl, g1, ?_⟩
      rw [KH_kf] at g3
      apply lookup_of_unique ((hc.m id).1 g2) (kidsOf_eq_some.1 g3)
      intro j hj lv hsj
      exact hc.unique hj ((hc.m id).1 g2) (by rw [g3, hsj]; rfl)
    · right
      refine ⟨s, rfl, gv, ?_, fun id hid => gno id ((h3 id).1 hid)⟩
      apply lookup_none_of
      intro j hj lv hsj
      exact gno j ((hc.m j).2 hj) (by rw [KH_kf, hsj]; rfl)
  · have h1' : findOrFindInsertSlotP tb (hash a b) ((KH hash h).eq (a, b)) = .error .capacity := h1
    rw [h1']; exact Good.cap

/-- `insert_in_slot_unchecked` of an id outside the table, whose node (in the heap `h'`, which
agrees with `h` on the stored ids) has the searched children -/
theorem TC.insertSlot {h h' : Heap} {tb : Tbl} {l : List Nat} (hc : TC hash h tb l) {a b : Edge}
    {s : Nat} (hv : Vacant tb (hash a b) s)
    (hno : ∀ id, tb.Mem id → (KH hash h).kf id ≠ some (a, b))
    (hag : ∀ x ∈ l, kidsOf (h'.sh x) = kidsOf (h.sh x))
    {j : Nat} (hj : j ∉ l) (hkj : ∃ lv, h'.sh j = some ⟨lv, a, b⟩) :
    Good (fun tb' => TC hash h' tb' (j :: l)) (tb.insertInSlot (hash a b) s j) := by
  obtain ⟨t2, k1, k2, _, k4⟩ := insertK_spec (K := KH hash h) (K' := KH hash h') hc.k
    (k := (a, b)) hv hno rfl
    (fun x hx => by rw [KH_kf, KH_kf]; exact hag x ((hc.m x).1 hx))
    (a := j) (fun hm => hj ((hc.m j).1 hm)) (by rw [KH_kf]; exact kidsOf_eq_some.2 hkj)
  have k1' : tb.insertInSlot (hash a b) s j = .ok t2 := k1
  rw [k1']
  refine Good.ok ⟨k2, fun x => ?_, List.nodup_cons.2 ⟨hj, hc.nd⟩⟩
  rw [k4 x, hc.m x, List.mem_cons]

/-! ## `LevelViewSet::insert` is `tblInsert` -/

theorem insertH_sim {h : Heap} {tb : Tbl} {l : List Nat} (hc : TC hash h tb l) {i : Nat}
    (hi : h.get? i ≠ none) (hil : i ∉ l) :
    Good (fun r => r.1 = (tblInsert h l i).1 ∧ TC hash r.1 r.2 (tblInsert h l i).2)
      (insertH hash h tb i) := by
  unfold insertH tblInsert
  cases hn : h.get? i with
  | none => exact absurd hn hi
  | some n =>
    simp only
    have hsi : h.sh i = some n.toNode := by simp [Heap.sh, hn]
    refine Good.bind (hc.probe n.t n.e) ?_
    rintro ⟨tb1, r⟩ ⟨hc1, hr⟩
    rcases hr with ⟨s, id, st, hr, _, hl⟩ | ⟨s, hr, hv, hl, hno⟩
    · simp only at hr; subst hr
      simp only [hl]
      exact Good.ok ⟨rfl, hc1.congr_sh (fun x _ => by rw [sh_decRc])⟩
    · simp only at hr; subst hr
      simp only [hl]
      refine Good.bind (hc1.insertSlot hv hno (fun _ _ => rfl) hil ⟨n.level, hsi⟩) ?_
      intro tb2 h2
      exact Good.ok ⟨rfl, h2⟩

/-! ## `LevelView::remove` is `tblRemove` -/

theorem sh_dropTableEdge_ne (h : Heap) {j k : Nat} (hk : k ≠ j) :
    (dropTableEdge h j).sh k = h.sh k := by
  cases hm : h.get? j with
  | none => unfold dropTableEdge; rw [hm]
  | some m =>
    by_cases hrc : m.rc = 1
    · rw [sh_dropTableEdge_free hm hrc, SwapStore.upd_ne _ _ hk]
    · rw [sh_dropTableEdge_keep hm hrc]

theorem removeH_sim {h : Heap} {tb : Tbl} {l : List Nat} (hc : TC hash h tb l) (a b : Edge) :
    Good (fun r => r.1 = (tblRemove h l a b).1 ∧ TC hash r.1 r.2 (tblRemove h l a b).2)
      (removeH hash h tb a b) := by
  unfold removeH tblRemove
  rw [eqc_KH hash]
  rcases removeK_spec hc.k (a, b) with ⟨t', id, h1, h2, _, h4, h5, h6⟩ | ⟨h1, h2⟩
  · have h1' : removeP tb (hash a b) ((KH hash h).eq (a, b)) = .ok (t', some id) := h1
    rw [h1']
    rw [KH_kf] at h5
    have hl : lookup h l a b = some id := by
      apply lookup_of_unique ((hc.m id).1 h4) (kidsOf_eq_some.1 h5)
      intro j hj lv hsj
      exact hc.unique hj ((hc.m id).1 h4) (by rw [h5, hsj]; rfl)
    simp only [bindE, hl]
    refine Good.ok ⟨rfl, ?_, fun x => ?_, hc.nd.erase id⟩
    · refine (h2.congr rfl ?_)
      intro x hx
      have hne : x ≠ id := ((h6 x).1 hx).2
      rw [KH_kf, KH_kf, sh_dropTableEdge_ne h hne]
    · rw [h6 x, hc.m x, hc.nd.mem_erase_iff, and_comm]
  · have h1' : removeP tb (hash a b) ((KH hash h).eq (a, b)) = .ok (tb, none) := h1
    rw [h1']
    have hl : lookup h l a b = none := by
      apply lookup_none_of
      intro j hj lv hsj
      exact h2 j ((hc.m j).2 hj) (by rw [KH_kf, hsj]; rfl)
    simp only [bindE, hl]
    exact Good.ok ⟨rfl, hc⟩

/-- the orphan check on a coupled table is the orphan check on the list -/
theorem orphanH_sim {h : Heap} {tb : Tbl} {l : List Nat} (hc : TC hash h tb l) (lowPre : Nat)
    (c : Edge) :
    Good (fun r => r.1 = (orphan lowPre (h, l) c).1 ∧ TC hash r.1 r.2 (orphan lowPre (h, l) c).2)
      (orphanH hash lowPre (h, tb) c) := by
  unfold orphanH orphan
  cases c with
  | term v => exact Good.ok ⟨rfl, hc⟩
  | inner j =>
    simp only
    cases hm : h.get? j with
    | none => exact Good.ok ⟨rfl, hc⟩
    | some m =>
      simp only
      by_cases hcond : m.level = lowPre ∧ m.rc = 1
      · rw [if_pos hcond, if_pos hcond]
        exact removeH_sim hc m.t m.e
      · rw [if_neg hcond, if_neg hcond]
        exact Good.ok ⟨rfl, hc⟩

/-- what the list-level orphan check leaves alone -/
theorem orphan_sub (lowPre : Nat) (h : Heap) (l : List Nat) (c : Edge) :
    (∀ k ∈ (orphan lowPre (h, l) c).2, k ∈ l) ∧
    (∀ k, k ∉ l → (orphan lowPre (h, l) c).1.sh k = h.sh k) := by
  unfold orphan
  cases c with
  | term v => exact ⟨fun _ hk => hk, fun _ _ => rfl⟩
  | inner j =>
    simp only
    cases hm : h.get? j with
    | none => exact ⟨fun _ hk => hk, fun _ _ => rfl⟩
    | some m =>
      simp only
      by_cases hcond : m.level = lowPre ∧ m.rc = 1
      · rw [if_pos hcond]
        unfold tblRemove
        cases hl : lookup h l m.t m.e with
        | none => exact ⟨fun _ hk => hk, fun _ _ => rfl⟩
        | some j' =>
          simp only
          have hj' := (lookup_some hl).1
          refine ⟨fun k hk => List.mem_of_mem_erase hk, fun k hk => ?_⟩
          exact sh_dropTableEdge_ne h (fun hkj => hk (hkj ▸ hj'))
      · rw [if_neg hcond]
        exact ⟨fun _ hk => hk, fun _ _ => rfl⟩

end OxiddModel.Reorder.SwapHashed
