import OxiddModel.Bdd.StoreRefine
import OxiddModel.Reorder.Swap

/-!
# `level_swap` on the node store (model)

The tree-level model of `Swap.lean` (`swapTree`) says what a level swap does to the *unfolding*
of a diagram. The real `oxidd_reorder::level_swap` (crates/oxidd-reorder/src/lib.rs) works on the
id-indexed node store of the manager: it mutates the nodes of the old upper level **in place**
(`set_child`, `set_level`), so that every existing edge (an id) keeps its meaning, it moves
edges between the per-level unique tables, creates new nodes, and frees nodes of the old lower
level that lost their last reference. This file models that code:

* `Heap`: slot id ↦ `SNode = (level_pre, t, e, rc)`; `rc` is the slot's reference counter *as the
  index manager counts it*: external handles + parent edges + one for every unique-table entry
  (`InnerNode::new` starts at 2 = table + returned edge, `ref_count()` reports `rc - 1`).
* a unique table (`LevelViewSet`) is the list of the ids it holds; equality (and the hash) of
  nodes looks at the children only (`impl PartialEq for NodeWithLevel`), so `lookup` compares the
  *current* children of the referenced slots.
* `stepNode` is the body of `for e in old_upper.iter()`, `levelSwapLoop` the loop (the iteration
  order of the hash table is a parameter), `levelSwapS` = `level_swap` (loop + drop of the taken
  `old_upper` view), `levelDownS` = `level_down` (`level_swap` + `update_level_no` twice).
* allocation always succeeds (the out-of-memory abort is a recorded finding); *which* free slot
  is used is a parameter `al` (the real store pops a thread-local LIFO free list, so slots freed
  earlier in the same swap are reused) — the theorems hold for every `al` returning a free slot.

`upPre`/`lowPre` are the level numbers stored in the nodes of the two levels
(`upper_no_pre`/`lower_no_pre`); for `level_down` they are `u` and `u + 1`.

Files of the development (all under `OxiddModel/Reorder/`):
`SwapStore` (this model), `SetOrderStore` (model of `set_var_order_common`),
`SwapStoreHeap` (heap and reference-count lemmas), `SwapStoreInv` (the loop invariant `J` on
shapes and its four micro steps), `SwapStoreStep` (the loop body preserves `J` and the
reference-count equation), `SwapStoreLoop` (the loop, entry state, `drop(old_upper)`),
`SwapStoreFinal` (`Inv`, `level_down` re-establishes it), `SwapStoreSem` (refinement of
`swapTree`), `SwapStoreCheck` (executable `checkInv`, `treeOf`), `SwapStoreSeq` (sequences of
swaps), `SwapStoreGarbage` (exactly which nodes are freed), `SwapStoreNeg` (regression
witnesses), `SwapStoreGen` (general lazy `level_swap`: `InvL`, `Ev`), `SetOrderLemmas` /
`SetOrderProof` (`set_var_order`), `PropertiesStore` (headline theorems), `DriverStore`
(protocol `reorder-store`).
-/
namespace OxiddModel.Reorder.SwapStore
open OxiddModel.Bdd OxiddModel.Bdd.Refine

/-- a slot of the node store -/
structure SNode where
  level : Nat
  t : Edge
  e : Edge
  rc : Nat
deriving DecidableEq, Repr

/-- the slots of the store, indexed by node id -/
structure Heap where
  slots : List (Option SNode)
deriving Repr, DecidableEq

def Heap.get? (h : Heap) (i : Nat) : Option SNode := (h.slots[i]?).join

/-- overwrite slot `i` (growing the slot list if necessary) -/
def Heap.put (h : Heap) (i : Nat) (o : Option SNode) : Heap :=
  if i < h.slots.length then ⟨h.slots.set i o⟩
  else ⟨h.slots ++ List.replicate (i - h.slots.length) none ++ [o]⟩

/-- default allocation policy: first free slot, else grow -/
def Heap.firstFree (h : Heap) : Nat := h.slots.findIdx (· == none)

/-- number of child edges of `n` that point to slot `i` -/
def cntN (n : SNode) (i : Nat) : Nat :=
  (if n.t = .inner i then 1 else 0) + (if n.e = .inner i then 1 else 0)

def cntO (o : Option SNode) (i : Nat) : Nat :=
  match o with
  | some n => cntN n i
  | none => 0

/-- number of parent edges pointing to slot `i` -/
def Heap.refs (h : Heap) (i : Nat) : Nat := (h.slots.map (cntO · i)).sum

/-! ## primitives of the manager -/

/-- `Manager::clone_edge` (`retain`: `rc += 1`; terminals are not counted here) -/
def incRc (h : Heap) : Edge → Heap
  | .term _ => h
  | .inner i =>
    match h.get? i with
    | some n => h.put i (some { n with rc := n.rc + 1 })
    | none => h

/-- `Manager::drop_edge` (`release`: `rc -= 1`; never frees the slot) -/
def decRc (h : Heap) : Edge → Heap
  | .term _ => h
  | .inner i =>
    match h.get? i with
    | some n => h.put i (some { n with rc := n.rc - 1 })
    | none => h

/-- `LevelViewSet::get`: the entry of the table whose node has the children `(a, b)` -/
def lookup (h : Heap) (tbl : List Nat) (a b : Edge) : Option Nat :=
  tbl.find? fun j =>
    match h.get? j with
    | some n => n.t == a && n.e == b
    | none => false

/-- `LevelView::insert_unchecked(edge)` with an owned edge to slot `i`: if an equal node is
already present the edge is released and nothing is inserted -/
def tblInsert (h : Heap) (tbl : List Nat) (i : Nat) : Heap × List Nat :=
  match h.get? i with
  | none => (h, tbl)
  | some n =>
    match lookup h tbl n.t n.e with
    | some _ => (decRc h (.inner i), tbl)
    | none => (h, i :: tbl)

/-- `Store::drop_unique_table_edge`: release; if that was the last reference, `free_slot`
(drop the node's children, put the slot on the free list) -/
def dropTableEdge (h : Heap) (j : Nat) : Heap :=
  match h.get? j with
  | none => h
  | some m =>
    if m.rc = 1 then decRc (decRc (h.put j none) m.t) m.e
    else h.put j (some { m with rc := m.rc - 1 })

/-- `LevelView::remove(node)`: remove the entry equal to `node`, drop the table's edge -/
def tblRemove (h : Heap) (tbl : List Nat) (a b : Edge) : Heap × List Nat :=
  match lookup h tbl a b with
  | some j => (dropTableEdge h j, tbl.erase j)
  | none => (h, tbl)

/-- `manager.get_node(c).level() == l` (terminals have no such level) -/
def lvlIs (h : Heap) (l : Nat) : Edge → Bool
  | .inner j =>
    match h.get? j with
    | some m => m.level == l
    | none => false
  | .term _ => false

/-- the grandchildren: `Rules::cofactors` for a child at level `l`, else the child twice -/
def cofE (h : Heap) (l : Nat) (c : Edge) : Edge × Edge :=
  match c with
  | .inner j =>
    match h.get? j with
    | some m => if m.level = l then (m.t, m.e) else (c, c)
    | none => (c, c)
  | .term _ => (c, c)

/-! ## the loop body -/

/-- one element of `new_children`: clone the two grandchildren, `reduce` (BDD rule: equal
children collapse), look the new node up in `old_upper`, then `get_or_insert` into the new lower
table. State: heap and new lower table. -/
def mkChild (al : Heap → Nat) (upPre : Nat) (old : List Nat) (st : Heap × List Nat)
    (a b : Edge) : (Heap × List Nat) × Edge :=
  let h1 := incRc (incRc st.1 a) b
  if a = b then ((decRc h1 b, st.2), a)
  else
    match lookup h1 old a b with
    | some j => ((incRc (decRc (decRc h1 a) b) (.inner j), st.2), .inner j)
    | none =>
      match lookup h1 st.2 a b with
      | some j => ((incRc (decRc (decRc h1 a) b) (.inner j), st.2), .inner j)
      | none =>
        let j := al h1
        ((h1.put j (some ⟨upPre, a, b, 2⟩), j :: st.2), .inner j)

/-- `manager.drop_edge(node.set_child(0, c))` -/
def setChildT (h : Heap) (i : Nat) (c : Edge) : Heap :=
  match h.get? i with
  | some m => decRc (h.put i (some { m with t := c })) m.t
  | none => h

/-- `manager.drop_edge(node.set_child(1, c))` -/
def setChildE (h : Heap) (i : Nat) (c : Edge) : Heap :=
  match h.get? i with
  | some m => decRc (h.put i (some { m with e := c })) m.e
  | none => h

/-- `node.set_level(l)` -/
def setLevel (h : Heap) (i : Nat) (l : Nat) : Heap :=
  match h.get? i with
  | some m => h.put i (some { m with level := l })
  | none => h

/-- the orphan check for one old child -/
def orphan (lowPre : Nat) (st : Heap × List Nat) (c : Edge) : Heap × List Nat :=
  match c with
  | .inner j =>
    match st.1.get? j with
    | some m => if m.level = lowPre ∧ m.rc = 1 then tblRemove st.1 st.2 m.t m.e else st
    | none => st
  | .term _ => st

/-- loop state: heap, new upper table (starts as the old lower one), new lower table (starts
empty) -/
structure LS where
  h : Heap
  up : List Nat
  lo : List Nat
deriving Repr, DecidableEq

/-- the body of `for e in old_upper.iter()` for the entry `i` -/
def stepNode (al : Heap → Nat) (upPre lowPre : Nat) (old : List Nat) (st : LS) (i : Nat) : LS :=
  match st.h.get? i with
  | none => st
  | some n =>
    if !lvlIs st.h lowPre n.t && !lvlIs st.h lowPre n.e then
      -- all children below the lower level: move the node
      let r := tblInsert (incRc st.h (.inner i)) st.lo i
      { st with h := r.1, lo := r.2 }
    else
      let gt := cofE st.h lowPre n.t
      let ge := cofE st.h lowPre n.e
      let r0 := mkChild al upPre old (st.h, st.lo) gt.1 ge.1
      let r1 := mkChild al upPre old r0.1 gt.2 ge.2
      let h2 := setChildT r1.1.1 i r0.2
      let h3 := setChildE h2 i r1.2
      let h4 := setLevel h3 i lowPre
      let r5 := tblInsert (incRc h4 (.inner i)) st.up i
      let r6 := orphan lowPre r5 n.t
      let r7 := if n.e = n.t then r6 else orphan lowPre r6 n.e
      { h := r7.1, up := r7.2, lo := r1.1.2 }

/-- the loop of `level_swap` over `old_upper` in the iteration order `order` -/
def levelSwapLoop (al : Heap → Nat) (upPre lowPre : Nat) (old order : List Nat) (st : LS) : LS :=
  order.foldl (stepNode al upPre lowPre old) st

/-- `drop(old_upper)` (`TakenLevelView::drop`): every entry is released -/
def dropOld (h : Heap) (old : List Nat) : Heap := old.foldl dropTableEdge h

/-- `level_swap`: `oldLower`/`oldUpper` are the contents of the two level views at entry; the
result holds the heap and the contents of the new upper and the new lower view -/
def levelSwapS (al : Heap → Nat) (upPre lowPre : Nat) (h : Heap) (oldUpper oldLower : List Nat)
    (order : List Nat) : LS :=
  let r := levelSwapLoop al upPre lowPre oldUpper order ⟨h, oldLower, []⟩
  { r with h := dropOld r.h oldUpper }

/-- `update_level_no` -/
def updateLevelNo (h : Heap) (tbl : List Nat) (l : Nat) : Heap :=
  tbl.foldl (fun h i => setLevel h i l) h

/-! ## the whole store -/

/-- heap + one unique table per level -/
structure SStore where
  h : Heap
  tables : List (List Nat)
deriving Repr, DecidableEq

def SStore.table (s : SStore) (l : Nat) : List Nat := s.tables.getD l []

/-- `level_down(manager, u)`; `ord` picks the iteration order of the old upper table (any
permutation). The `assert!(upper_no + 1 < num_levels)` failure is modelled as "no change". -/
def levelDownS (al : Heap → Nat) (ord : List Nat → List Nat) (s : SStore) (u : Nat) : SStore :=
  if u + 1 < s.tables.length then
    let r := levelSwapS al u (u + 1) s.h (s.table u) (s.table (u + 1)) (ord (s.table u))
    let h1 := updateLevelNo r.h r.up u
    let h2 := updateLevelNo h1 r.lo (u + 1)
    { h := h2, tables := (s.tables.set u r.up).set (u + 1) r.lo }
  else s

/-- a sequence of adjacent swaps (what `set_var_order`'s bubble sort issues) -/
def swapsS (al : Heap → Nat) (ord : List Nat → List Nat) (s : SStore) (us : List Nat) : SStore :=
  us.foldl (levelDownS al ord) s

/-- forget reference counts: the plain node store of `Bdd/StoreRefine.lean` -/
def SNode.toNode (n : SNode) : Node := ⟨n.level, n.t, n.e⟩

def Heap.abs (h : Heap) : Store := ⟨(h.slots.map (Option.map SNode.toNode)).toArray⟩

end OxiddModel.Reorder.SwapStore
