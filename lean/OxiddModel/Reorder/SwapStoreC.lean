import OxiddModel.Bcdd.StoreRefine
import OxiddModel.Reorder.SetOrderStore

/-!
# `level_swap` / `set_var_order` on a node store with complement edges (model)

The store model of `SwapStore.lean` / `SetOrderStore.lean` for diagram rules with **tagged
edges**: an edge is `EdgeC = (neg, tgt)` (`Bcdd/StoreRefine.lean`; `tgt` is the single terminal
`⊤` or a slot id, `⊥` is the complemented edge to `⊤`), a slot holds `(level_pre, t, e, rc)` with
two *edges* as children — `node.set_child` writes an edge with its tag, so that the then-edge of a
stored node is regular is an invariant to be proved, not a property of the type.

The rule set is a parameter (`Rules`): `level_swap` uses `Rules::cofactors(tag, node)` (`cof`: how
the tag of the incoming edge is pushed into a child) and `DiagramRules::reduce` (after the common
`t == e` test: `norm`, the children of the node to be created and the tag of the returned edge).
`Rules.bcdd` are the complement-edge rules (crates/oxidd-rules-bdd/src/complement_edge/mod.rs);
`Rules.bdd` the simple rules in the same encoding (`⊥ = ¬⊤`, no other tag is ever set).

Everything else is as in `SwapStore.lean`; the one structural difference in `level_swap` is that
the de-duplication of the old children in the orphan loop compares `node_id()`s, i.e. ignores tags
(`x ? ¬g : g` has the same child twice).
-/
namespace OxiddModel.Reorder.SwapStoreC
open OxiddModel.Bcdd.Refine (EdgeC Tgt)
open OxiddModel.Reorder.SwapStore (swapIdx chainLe)
open OxiddModel.Reorder

abbrev Edge := EdgeC

/-- level and children of a slot -/
structure Node where
  level : Nat
  t : Edge
  e : Edge
deriving DecidableEq, Repr

/-- a slot of the node store -/
structure SNode where
  level : Nat
  t : Edge
  e : Edge
  rc : Nat
deriving DecidableEq, Repr

def SNode.toNode (n : SNode) : Node := ⟨n.level, n.t, n.e⟩

/-- `e.with_tag(tag ⊕ e.tag)` -/
def push (g : Bool) (e : Edge) : Edge := ⟨g != e.neg, e.tgt⟩

/-- the diagram rules as far as `level_swap` uses them -/
structure Rules where
  /-- `Rules::cofactors(tag, node)`: the child `e` of a node reached through an edge with tag `tag` -/
  cof : Bool → Edge → Edge
  /-- `DiagramRules::reduce` for `t ≠ e`: children of the new node, tag of the returned edge -/
  norm : Edge → Edge → Edge × Edge × Bool

/-- complement edges: the tag is pushed into the children; a complemented then-edge is
normalised by complementing both children and the result -/
def Rules.bcdd : Rules where
  cof := push
  norm := fun t e => (⟨false, t.tgt⟩, push t.neg e, t.neg)

/-- the simple BDD rules (edges to inner nodes are never tagged) -/
def Rules.bdd : Rules where
  cof := fun _ e => e
  norm := fun t e => (t, e, false)

structure Heap where
  slots : List (Option SNode)
deriving Repr, DecidableEq

def Heap.get? (h : Heap) (i : Nat) : Option SNode := (h.slots[i]?).join

def Heap.put (h : Heap) (i : Nat) (o : Option SNode) : Heap :=
  if i < h.slots.length then ⟨h.slots.set i o⟩
  else ⟨h.slots ++ List.replicate (i - h.slots.length) none ++ [o]⟩

def Heap.firstFree (h : Heap) : Nat := h.slots.findIdx (· == none)

/-- `1` if the edge points to slot `j` (whatever its tag) -/
def pt (x : Edge) (j : Nat) : Nat := if x.tgt = .inner j then 1 else 0

def cntN (n : SNode) (i : Nat) : Nat := pt n.t i + pt n.e i

def cntO (o : Option SNode) (i : Nat) : Nat :=
  match o with
  | some n => cntN n i
  | none => 0

def Heap.refs (h : Heap) (i : Nat) : Nat := (h.slots.map (cntO · i)).sum

/-! ## primitives of the manager -/

def incRc (h : Heap) (x : Edge) : Heap :=
  match x.tgt with
  | .term => h
  | .inner i =>
    match h.get? i with
    | some n => h.put i (some { n with rc := n.rc + 1 })
    | none => h

def decRc (h : Heap) (x : Edge) : Heap :=
  match x.tgt with
  | .term => h
  | .inner i =>
    match h.get? i with
    | some n => h.put i (some { n with rc := n.rc - 1 })
    | none => h

/-- `LevelViewSet::get`: node equality compares the children, tags included -/
def lookup (h : Heap) (tbl : List Nat) (a b : Edge) : Option Nat :=
  tbl.find? fun j =>
    match h.get? j with
    | some n => n.t == a && n.e == b
    | none => false

def tblInsert (h : Heap) (tbl : List Nat) (i : Nat) : Heap × List Nat :=
  match h.get? i with
  | none => (h, tbl)
  | some n =>
    match lookup h tbl n.t n.e with
    | some _ => (decRc h ⟨false, .inner i⟩, tbl)
    | none => (h, i :: tbl)

def dropTableEdge (h : Heap) (j : Nat) : Heap :=
  match h.get? j with
  | none => h
  | some m =>
    if m.rc = 1 then decRc (decRc (h.put j none) m.t) m.e
    else h.put j (some { m with rc := m.rc - 1 })

def tblRemove (h : Heap) (tbl : List Nat) (a b : Edge) : Heap × List Nat :=
  match lookup h tbl a b with
  | some j => (dropTableEdge h j, tbl.erase j)
  | none => (h, tbl)

def lvlIs (h : Heap) (l : Nat) (c : Edge) : Bool :=
  match c.tgt with
  | .inner j =>
    match h.get? j with
    | some m => m.level == l
    | none => false
  | .term => false

/-- the grandchildren: `Rules::cofactors(c.tag(), node)` for a child at level `l`, else the child
twice -/
def cofE (ru : Rules) (h : Heap) (l : Nat) (c : Edge) : Edge × Edge :=
  match c.tgt with
  | .inner j =>
    match h.get? j with
    | some m => if m.level = l then (ru.cof c.neg m.t, ru.cof c.neg m.e) else (c, c)
    | none => (c, c)
  | .term => (c, c)

/-! ## the loop body -/

/-- one element of `new_children`: clone the grandchildren, `reduce`, look the new node up in
`old_upper`, then `get_or_insert` into the new lower table, `with_tag_owned(tag)` -/
def mkChild (ru : Rules) (al : Heap → Nat) (upPre : Nat) (old : List Nat) (st : Heap × List Nat)
    (a b : Edge) : (Heap × List Nat) × Edge :=
  let h1 := incRc (incRc st.1 a) b
  if a = b then ((decRc h1 b, st.2), a)
  else
    let nb := ru.norm a b
    match lookup h1 old nb.1 nb.2.1 with
    | some j => ((incRc (decRc (decRc h1 a) b) ⟨false, .inner j⟩, st.2), ⟨nb.2.2, .inner j⟩)
    | none =>
      match lookup h1 st.2 nb.1 nb.2.1 with
      | some j => ((incRc (decRc (decRc h1 a) b) ⟨false, .inner j⟩, st.2), ⟨nb.2.2, .inner j⟩)
      | none =>
        let j := al h1
        ((h1.put j (some ⟨upPre, nb.1, nb.2.1, 2⟩), j :: st.2), ⟨nb.2.2, .inner j⟩)

def setChildT (h : Heap) (i : Nat) (c : Edge) : Heap :=
  match h.get? i with
  | some m => decRc (h.put i (some { m with t := c })) m.t
  | none => h

def setChildE (h : Heap) (i : Nat) (c : Edge) : Heap :=
  match h.get? i with
  | some m => decRc (h.put i (some { m with e := c })) m.e
  | none => h

def setLevel (h : Heap) (i : Nat) (l : Nat) : Heap :=
  match h.get? i with
  | some m => h.put i (some { m with level := l })
  | none => h

def orphan (lowPre : Nat) (st : Heap × List Nat) (c : Edge) : Heap × List Nat :=
  match c.tgt with
  | .inner j =>
    match st.1.get? j with
    | some m => if m.level = lowPre ∧ m.rc = 1 then tblRemove st.1 st.2 m.t m.e else st
    | none => st
  | .term => st

structure LS where
  h : Heap
  up : List Nat
  lo : List Nat
deriving Repr, DecidableEq

/-- the body of `for e in old_upper.iter()` for the entry `i` -/
def stepNode (ru : Rules) (al : Heap → Nat) (upPre lowPre : Nat) (old : List Nat) (st : LS)
    (i : Nat) : LS :=
  match st.h.get? i with
  | none => st
  | some n =>
    if !lvlIs st.h lowPre n.t && !lvlIs st.h lowPre n.e then
      let r := tblInsert (incRc st.h ⟨false, .inner i⟩) st.lo i
      { st with h := r.1, lo := r.2 }
    else
      let gt := cofE ru st.h lowPre n.t
      let ge := cofE ru st.h lowPre n.e
      let r0 := mkChild ru al upPre old (st.h, st.lo) gt.1 ge.1
      let r1 := mkChild ru al upPre old r0.1 gt.2 ge.2
      let h2 := setChildT r1.1.1 i r0.2
      let h3 := setChildE h2 i r1.2
      let h4 := setLevel h3 i lowPre
      let r5 := tblInsert (incRc h4 ⟨false, .inner i⟩) st.up i
      let r6 := orphan lowPre r5 n.t
      -- `children[..i].iter().any(|c| c.node_id() == child.node_id())`: tags are ignored
      let r7 := if n.e.tgt = n.t.tgt then r6 else orphan lowPre r6 n.e
      { h := r7.1, up := r7.2, lo := r1.1.2 }

def levelSwapLoop (ru : Rules) (al : Heap → Nat) (upPre lowPre : Nat) (old order : List Nat)
    (st : LS) : LS :=
  order.foldl (stepNode ru al upPre lowPre old) st

def dropOld (h : Heap) (old : List Nat) : Heap := old.foldl dropTableEdge h

def levelSwapS (ru : Rules) (al : Heap → Nat) (upPre lowPre : Nat) (h : Heap)
    (oldUpper oldLower : List Nat) (order : List Nat) : LS :=
  let r := levelSwapLoop ru al upPre lowPre oldUpper order ⟨h, oldLower, []⟩
  { r with h := dropOld r.h oldUpper }

def updateLevelNo (h : Heap) (tbl : List Nat) (l : Nat) : Heap :=
  tbl.foldl (fun h i => setLevel h i l) h

/-! ## the whole store -/

structure SStore where
  h : Heap
  tables : List (List Nat)
deriving Repr, DecidableEq

def SStore.table (s : SStore) (l : Nat) : List Nat := s.tables.getD l []

/-- `level_down(manager, u)` -/
def levelDownS (ru : Rules) (al : Heap → Nat) (ord : List Nat → List Nat) (s : SStore) (u : Nat) :
    SStore :=
  if u + 1 < s.tables.length then
    let r := levelSwapS ru al u (u + 1) s.h (s.table u) (s.table (u + 1)) (ord (s.table u))
    let h1 := updateLevelNo r.h r.up u
    let h2 := updateLevelNo h1 r.lo (u + 1)
    { h := h2, tables := (s.tables.set u r.up).set (u + 1) r.lo }
  else s

def swapsS (ru : Rules) (al : Heap → Nat) (ord : List Nat → List Nat) (s : SStore) (us : List Nat) :
    SStore :=
  us.foldl (levelDownS ru al ord) s

/-! ## `set_var_order_common` -/

structure RState where
  s : SStore
  toPre : List Nat
  l2v : List Nat
deriving Repr, DecidableEq

def levelSwapG (ru : Rules) (al : Heap → Nat) (ord : List Nat → List Nat) (r : RState) (u l : Nat) :
    RState :=
  let up := r.toPre.getD u u
  let lp := r.toPre.getD l l
  let res := levelSwapS ru al up lp r.s.h (r.s.table u) (r.s.table l) (ord (r.s.table u))
  { s := ⟨res.h, (r.s.tables.set u res.up).set l res.lo⟩
    toPre := (r.toPre.set u lp).set l up
    l2v := swapIdx r.l2v u l }

def step2 : Nat → Nat → RState → List Nat → RState
  | 0, _, r, _ => r
  | fuel + 1, i, r, tgt =>
    match tgt[i]? with
    | none => r
    | some j =>
      if j = i then step2 fuel (i + 1) r tgt
      else
        step2 fuel i
          { s := ⟨r.s.h, swapIdx r.s.tables i j⟩, toPre := swapIdx r.toPre i j,
            l2v := swapIdx r.l2v i j }
          (swapIdx tgt i j)

def updateLevels (r : RState) : SStore :=
  let h := (List.range r.s.tables.length).foldl (fun h p =>
    if p ≠ r.toPre.getD p p then updateLevelNo h (r.s.table p) p else h) r.s.h
  ⟨h, r.s.tables⟩

def setVarOrderS (ru : Rules) (al : Heap → Nat) (ord : List Nat → List Nat) (s : SStore)
    (l2v : List Nat) (order : List Nat) : SStore × List Nat :=
  let n := s.tables.length
  let target := sortOrder n (order.map fun v => l2v.idxOf v)
  let levels := List.range n
  let fromNe := levels.filter fun l => !(s.table l).isEmpty
  let neTarget := fromNe.map fun l => target.getD l l
  let sorted := levels.all fun l => target.getD l l == l
  if sorted then (s, l2v)
  else
    let r0 : RState := ⟨s, levels, l2v⟩
    let neSorted := chainLe 0 neTarget
    let r1 : RState × List Nat × Bool :=
      if !neSorted then
        let bs := bubbleSort neTarget.length neTarget
        let r := bs.2.foldl (fun r i => levelSwapG ru al ord r (fromNe.getD i 0) (fromNe.getD (i + 1) 0)) r0
        if fromNe.length = n then (r, target, true)
        else (r, (fromNe.zip bs.1).foldl (fun t p => t.set p.1 p.2) target, false)
      else (r0, target, false)
    let r2 := if r1.2.2 then r1.1 else step2 (n * n + n) 0 r1.1 r1.2.1
    (updateLevels r2, r2.l2v)

end OxiddModel.Reorder.SwapStoreC
