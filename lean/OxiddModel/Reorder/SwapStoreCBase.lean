import OxiddModel.Reorder.SwapStoreCLoop
import OxiddModel.Reorder.SwapStoreSeq

/-!
# Store invariant, `update_level_no` and the executable checks for the complement-edge store

`Inv ext s` is the invariant of `SwapStoreFinal.lean` for tagged edges, with one more clause:
the then-edge of every stored node is regular (`thenReg`) — the canonical form of complement-edge
diagrams, which `level_swap` has to preserve although it rewrites nodes in place.
-/
namespace OxiddModel.Reorder.SwapStoreC
open OxiddModel.Bcdd.Refine (EdgeC Tgt)
open OxiddModel.Reorder.SwapStore (OrderOK)

/-- an allocation policy: it returns a free slot -/
def AllocOK (al : Heap → Nat) : Prop := ∀ h : Heap, h.get? (al h) = none

theorem get?_firstFree' (h : Heap) : h.get? h.firstFree = none := get?_firstFree h
theorem allocOK_firstFree : AllocOK Heap.firstFree := get?_firstFree

/-! ## `update_level_no` -/

def relabel (l : Nat) (o : Option Node) : Option Node := o.map fun n => ⟨l, n.t, n.e⟩

theorem relabel_relabel (l : Nat) (o : Option Node) : relabel l (relabel l o) = relabel l o := by
  cases o <;> rfl

theorem relabel_some {l : Nat} {o : Option Node} {l' : Nat} {x y : Edge} (h : o = some ⟨l', x, y⟩) :
    relabel l o = some ⟨l, x, y⟩ := by subst h; rfl

theorem sh_setLevel' (h : Heap) (i l k : Nat) :
    (setLevel h i l).sh k = if k = i then relabel l (h.sh i) else h.sh k := by
  unfold setLevel
  cases hm : h.get? i with
  | none =>
    simp only
    split
    · rename_i hk; subst hk; rw [sh_eq_none.mpr hm]; rfl
    · rfl
  | some m =>
    simp only [sh_put]
    split
    · simp [Heap.sh, hm, relabel, SNode.toNode]
    · rfl

theorem sh_updateLevelNo (h : Heap) (tbl : List Nat) (l k : Nat) :
    (updateLevelNo h tbl l).sh k = if k ∈ tbl then relabel l (h.sh k) else h.sh k := by
  unfold updateLevelNo
  induction tbl generalizing h with
  | nil => simp
  | cons i rest ih =>
    simp only [List.foldl_cons]
    rw [ih, sh_setLevel']
    by_cases hk : k = i
    · subst hk
      simp only [if_true, List.mem_cons, true_or]
      split
      · exact relabel_relabel _ _
      · rfl
    · simp [hk]

theorem RCx_updateLevelNo {w : Nat → Nat} {h : Heap} (hr : RCx w h) (tbl : List Nat) (l : Nat) :
    RCx w (updateLevelNo h tbl l) := by
  unfold updateLevelNo
  induction tbl generalizing h with
  | nil => exact hr
  | cons i rest ih => exact ih (RCx_setLevel i l hr)

/-! ## the store invariant -/

def live01 (h : Heap) (k : Nat) : Nat := if (h.sh k).isSome then 1 else 0

structure Inv (ext : Nat → Nat) (s : SStore) : Prop where
  tbl_iff : ∀ l i, i ∈ s.table l ↔ ∃ n, s.h.sh i = some n ∧ n.level = l
  tbl_nodup : ∀ l, (s.table l).Nodup
  ordered : ∀ i n, s.h.sh i = some n → ∀ k, (n.t.tgt = .inner k ∨ n.e.tgt = .inner k) →
    ∃ m, s.h.sh k = some m ∧ n.level < m.level
  nored : ∀ i n, s.h.sh i = some n → n.t ≠ n.e
  uniq : ∀ i j n, s.h.sh i = some n → s.h.sh j = some n → i = j
  /-- the then-edge of every stored node is regular -/
  thenReg : ∀ i n, s.h.sh i = some n → n.t.neg = false
  rc : RCx (fun k => live01 s.h k + ext k) s.h

/-! ## small facts about slots and tables -/

theorem sh_none_of_ge {h : Heap} {i : Nat} (hi : h.slots.length ≤ i) : h.sh i = none := by
  unfold Heap.sh Heap.get?
  rw [List.getElem?_eq_none hi]; rfl

theorem lt_of_sh_some {h : Heap} {i : Nat} {n : Node} (hs : h.sh i = some n) :
    i < h.slots.length := by
  apply Classical.byContradiction
  intro hi
  rw [sh_none_of_ge (by omega)] at hs; cases hs

theorem refs_eq_zero {h : Heap} {k : Nat}
    (hno : ∀ p nd, h.sh p = some nd → nd.t.tgt ≠ .inner k ∧ nd.e.tgt ≠ .inner k) : h.refs k = 0 := by
  unfold Heap.refs
  apply SwapStore.sum_map_zero
  intro o ho
  obtain ⟨p, hp, rfl⟩ := List.mem_iff_getElem.mp ho
  rw [cntO_eq_cntS]
  cases hs : h.slots[p] with
  | none => rfl
  | some nd =>
    have : h.sh p = some nd.toNode := by
      unfold Heap.sh Heap.get?
      rw [List.getElem?_eq_getElem hp, hs]; rfl
    have := hno p _ this
    simp only [Option.map, cntS_some, pt, SNode.toNode] at this ⊢
    simp [this.1, this.2]

theorem table_of_ge {s : SStore} {l : Nat} (hl : s.tables.length ≤ l) : s.table l = [] := by
  unfold SStore.table
  rw [List.getD_eq_getElem?_getD, List.getElem?_eq_none hl]; rfl

theorem table_setG (h : Heap) (tables : List (List Nat)) (u l : Nat) (up lo : List Nat)
    (hul : u ≠ l) (hu : u < tables.length) (hl : l < tables.length) (p : Nat) :
    (SStore.mk h ((tables.set u up).set l lo)).table p =
      if p = l then lo else if p = u then up else (SStore.mk h tables).table p := by
  unfold SStore.table
  simp only [List.getD_eq_getElem?_getD, List.getElem?_set, List.length_set]
  by_cases h1 : p = l
  · subst h1; simp [hl]
  · by_cases h2 : p = u
    · subst h2
      have : ¬ (l = p) := fun h => h1 h.symm
      simp [this, hu, h1]
    · have h3 : ¬ (l = p) := fun h => h1 h.symm
      have h4 : ¬ (u = p) := fun h => h2 h.symm
      simp [h1, h2, h3, h4]

/-! ## an executable check of the invariant -/

def extOf (e : List Nat) : Nat → Nat := fun k => e.getD k 0

def okChild (h : Heap) (lvl : Nat) (c : Edge) : Bool :=
  match c.tgt with
  | .term => true
  | .inner k =>
    match h.sh k with
    | some m => decide (lvl < m.level)
    | none => false

def checkInv (e : List Nat) (s : SStore) : Bool :=
  let n := s.h.slots.length
  ((List.range s.tables.length).all fun l => (s.table l).all fun i =>
      match s.h.sh i with
      | some nd => nd.level == l
      | none => false) &&
  ((List.range n).all fun i =>
      match s.h.sh i with
      | some nd => (s.table nd.level).contains i
      | none => true) &&
  ((List.range s.tables.length).all fun l => decide (s.table l).Nodup) &&
  ((List.range n).all fun i =>
      match s.h.sh i with
      | some nd => okChild s.h nd.level nd.t && okChild s.h nd.level nd.e && nd.t != nd.e &&
          !nd.t.neg
      | none => true) &&
  ((List.range n).all fun i => (List.range n).all fun j =>
      (s.h.sh i).isNone || s.h.sh i != s.h.sh j || i == j) &&
  ((List.range n).all fun k => s.h.rcOf k == live01 s.h k + e.getD k 0 + s.h.refs k) &&
  decide (e.length ≤ n)

theorem checkInv_sound {e : List Nat} {s : SStore} (hc : checkInv e s = true) :
    Inv (extOf e) s := by
  simp only [checkInv, Bool.and_eq_true, List.all_eq_true, List.mem_range, decide_eq_true_eq] at hc
  obtain ⟨⟨⟨⟨⟨⟨c1, c2⟩, c3⟩, c4⟩, c5⟩, c6⟩, c7⟩ := hc
  have hkids : ∀ i nd, s.h.sh i = some nd →
      okChild s.h nd.level nd.t = true ∧ okChild s.h nd.level nd.e = true ∧ nd.t ≠ nd.e ∧
      nd.t.neg = false := by
    intro i nd hs
    have := c4 i (lt_of_sh_some hs)
    rw [hs] at this
    simp only [Bool.and_eq_true, bne_iff_ne, ne_eq, Bool.not_eq_true'] at this
    exact ⟨this.1.1.1, this.1.1.2, this.1.2, this.2⟩
  have hok : ∀ lvl c k, okChild s.h lvl c = true → c.tgt = .inner k →
      ∃ m, s.h.sh k = some m ∧ lvl < m.level := by
    intro lvl c k h hk
    simp only [okChild, hk] at h
    cases hm : s.h.sh k with
    | none => rw [hm] at h; cases h
    | some m => rw [hm] at h; exact ⟨m, rfl, by simpa using h⟩
  refine { tbl_iff := ?_, tbl_nodup := ?_, ordered := ?_, nored := ?_, uniq := ?_,
           thenReg := fun i nd hs => (hkids i nd hs).2.2.2, rc := ?_ }
  · intro l i
    constructor
    · intro hi
      by_cases hl : l < s.tables.length
      · have := c1 l hl i hi
        cases hs : s.h.sh i with
        | none => rw [hs] at this; cases this
        | some nd => rw [hs] at this; exact ⟨nd, rfl, by simpa using this⟩
      · rw [table_of_ge (by omega)] at hi; cases hi
    · rintro ⟨nd, hs, hl⟩
      have := c2 i (lt_of_sh_some hs)
      rw [hs] at this
      subst hl
      simpa using this
  · intro l
    by_cases hl : l < s.tables.length
    · exact c3 l hl
    · rw [table_of_ge (by omega)]; exact List.nodup_nil
  · intro i nd hs k hk
    obtain ⟨h1, h2, _⟩ := hkids i nd hs
    rcases hk with hk | hk
    · exact hok _ _ k h1 hk
    · exact hok _ _ k h2 hk
  · intro i nd hs
    exact (hkids i nd hs).2.2.1
  · intro i j nd hi hj
    have := c5 i (lt_of_sh_some hi) j (lt_of_sh_some hj)
    rw [hi, hj] at this
    simpa using this
  · intro k
    by_cases hk : k < s.h.slots.length
    · have := c6 k hk
      show _ = live01 s.h k + extOf e k + _
      simpa [extOf] using this
    · have hn : s.h.sh k = none := sh_none_of_ge (by omega)
      have hz : s.h.refs k = 0 := by
        apply refs_eq_zero
        intro p nd hs
        obtain ⟨h1, h2, _⟩ := hkids p nd hs
        constructor
        · intro hc
          obtain ⟨m, hm, _⟩ := hok _ _ k h1 hc
          rw [hn] at hm; cases hm
        · intro hc
          obtain ⟨m, hm, _⟩ := hok _ _ k h2 hc
          rw [hn] at hm; cases hm
      have he : extOf e k = 0 := by
        unfold extOf
        rw [List.getD_eq_getElem?_getD, List.getElem?_eq_none (by omega)]; rfl
      show _ = live01 s.h k + extOf e k + _
      rw [rcOf_of_none (sh_eq_none.mp hn), hz, he]
      simp [live01, hn]

end OxiddModel.Reorder.SwapStoreC
