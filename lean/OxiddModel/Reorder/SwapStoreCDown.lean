import OxiddModel.Reorder.SetOrderCProof

/-!
# `level_down` with complement edges

`level_down(u)` is the lazy general `level_swap` of the neighbouring views `u`, `u + 1`
(`SwapStoreCGen.lean`) followed by `update_level_no` on both, which writes the positions back
into the nodes (`InvL.toInv`).
-/
namespace OxiddModel.Reorder.SwapStoreC
open OxiddModel.Bcdd.Refine (EdgeC Tgt)
open OxiddModel.Reorder.SwapStore (OrderOK swapLab swapPos swapLab_getD swapLab_length BelowL swapIdx)
open OxiddModel.Reorder

/-! ## from the lazy invariant back to `Inv`: writing the positions into the nodes -/

/-- if every live node gets the position of its level view as level number, the lazy invariant
becomes the ordinary one -/
theorem InvL.toInv {ext : Nat → Nat} {lab : List Nat} {pos : Nat → Nat} {s s' : SStore}
    (hinv : InvL ext lab pos s) (htab : s'.tables = s.tables)
    (hsh : ∀ i, s'.h.sh i = (s.h.sh i).map fun n => ⟨pos n.level, n.t, n.e⟩)
    (hrc : RCx (fun k => live01 s.h k + ext k) s'.h) : Inv ext s' := by
  have htbl : ∀ p, s'.table p = s.table p := fun p => by unfold SStore.table; rw [htab]
  have hsome : ∀ i nd, s.h.sh i = some nd → s'.h.sh i = some ⟨pos nd.level, nd.t, nd.e⟩ :=
    fun i nd h => by rw [hsh, h]; rfl
  have hinv' : ∀ i n', s'.h.sh i = some n' →
      ∃ nd, s.h.sh i = some nd ∧ n' = ⟨pos nd.level, nd.t, nd.e⟩ := by
    intro i n' hn'
    rw [hsh] at hn'
    cases hs : s.h.sh i with
    | none => rw [hs] at hn'; cases hn'
    | some nd => rw [hs] at hn'; cases hn'; exact ⟨nd, rfl, rfl⟩
  have hposinj : ∀ i j nd nd', s.h.sh i = some nd → s.h.sh j = some nd' →
      pos nd.level = pos nd'.level → nd.level = nd'.level := by
    intro i j nd nd' h1 h2 e
    rw [← (hinv.live_lab i nd h1).2, ← (hinv.live_lab j nd' h2).2, e]
  refine { tbl_iff := ?_, tbl_nodup := ?_, ordered := ?_, nored := ?_, uniq := ?_,
           thenReg := ?_, rc := ?_ }
  · intro l i
    rw [htbl]
    constructor
    · intro hi
      have hl : l < lab.length := by
        apply Classical.byContradiction
        intro hc
        rw [table_of_ge (by rw [← hinv.len]; omega)] at hi; cases hi
      obtain ⟨nd, hnd, hlv⟩ := (hinv.tbl_iff l hl i).mp hi
      exact ⟨_, hsome i nd hnd, by simp only; rw [hlv]; exact hinv.pos_lab l hl⟩
    · rintro ⟨n', hn', hl⟩
      obtain ⟨nd, hnd, rfl⟩ := hinv' i n' hn'
      simp only at hl
      rw [← hl]; exact hinv.table_empty hnd
  · intro p; rw [htbl]; exact hinv.tbl_nodup p
  · intro i n' hn' k hc
    obtain ⟨nd, hnd, rfl⟩ := hinv' i n' hn'
    obtain ⟨m, hm, hlt⟩ := hinv.ordered i nd hnd k hc
    exact ⟨_, hsome k m hm, hlt⟩
  · intro i n' hn'
    obtain ⟨nd, hnd, rfl⟩ := hinv' i n' hn'
    exact hinv.nored i nd hnd
  · intro i j n' hi hj
    obtain ⟨nd, hnd, e1⟩ := hinv' i n' hi
    obtain ⟨nd', hnd', e2⟩ := hinv' j n' hj
    rw [e1] at e2
    injection e2 with e3 e4 e5
    have := hposinj i j nd nd' hnd hnd' e3
    have hndeq : nd = nd' := by cases nd; cases nd'; simp_all
    subst hndeq
    exact hinv.uniq i j nd hnd hnd'
  · intro i n' hn'
    obtain ⟨nd, hnd, rfl⟩ := hinv' i n' hn'
    exact hinv.thenReg i nd hnd
  · refine hrc.congr (fun k => ?_)
    simp only [live01]
    rw [hsh]
    cases s.h.sh k <;> rfl

/-! ## `level_down` = the lazy swap of two neighbouring views + `update_level_no` -/

theorem range_getD_self {n p : Nat} (hp : p < n) : (List.range n).getD p p = p := by
  simp [List.getD_eq_getElem?_getD, List.getElem?_range hp]

theorem levelDownS_eq (ru : Rules) (al : Heap → Nat) (ord : List Nat → List Nat) (s : SStore)
    (l2v : List Nat) {u : Nat} (hu : u + 1 < s.tables.length) :
    levelDownS ru al ord s u =
      ⟨updateLevelNo (updateLevelNo
          (levelSwapG ru al ord ⟨s, List.range s.tables.length, l2v⟩ u (u + 1)).s.h
          ((levelSwapG ru al ord ⟨s, List.range s.tables.length, l2v⟩ u (u + 1)).s.table u) u)
          ((levelSwapG ru al ord ⟨s, List.range s.tables.length, l2v⟩ u (u + 1)).s.table (u + 1))
          (u + 1),
        (levelSwapG ru al ord ⟨s, List.range s.tables.length, l2v⟩ u (u + 1)).s.tables⟩ := by
  have hu0 : u < s.tables.length := by omega
  unfold levelDownS levelSwapG
  rw [if_pos hu]
  simp only [range_getD_self hu0, range_getD_self hu]
  rw [table_setG _ _ u (u + 1) _ _ (by omega) hu0 hu u,
    table_setG _ _ u (u + 1) _ _ (by omega) hu0 hu (u + 1)]
  simp

section
variable {ext : Nat → Nat} {s : SStore} {u : Nat} {al : Heap → Nat} {ord : List Nat → List Nat}

/-- **`level_down` for complement edges**: the invariant (including regular then-edges) is
re-established, and every edge that is still there — every external handle — evaluates under `σ`
to what it evaluated to under `σ` with the values of the two levels exchanged -/
theorem levelDownS_spec (hal : AllocOK al) (hord : OrderOK ord) (hinv : Inv ext s)
    (hu : u + 1 < s.tables.length) :
    Inv ext (levelDownS Rules.bcdd al ord s u) ∧
    (levelDownS Rules.bcdd al ord s u).tables.length = s.tables.length ∧
    ∀ (σ : Nat → Bool) x v, Ev s.h.sh (σ ∘ swapLv u) x v →
      (∀ k m, x.tgt = .inner k → s.h.sh k = some m → m.level = u + 1 → 0 < ext k) →
      Ev (levelDownS Rules.bcdd al ord s u).h.sh σ x v := by
  generalize hn : s.tables.length = n at hu
  have hu0 : u < n := by omega
  have hr0 : RInv ext (List.range n) (List.range n) id ⟨s, List.range n, List.range n⟩ :=
    { inv := hn ▸ hinv.toL
      empty := fun p hp => table_of_ge (by rw [hn]; simpa using hp)
      l2v_len := rfl
      l2v_eq := fun p hp => by
        simp only [List.length_range] at hp
        simp only [range_getD hp] }
  obtain ⟨pos', hr1, hev⟩ := levelSwapG_spec (u := u) (l := u + 1) hal hord hr0 (by omega)
    (by simpa using hu) (by simpa using hu0) (by simpa using hu) (fun p h1 h2 => by omega)
  have hE := levelDownS_eq Rules.bcdd al ord s (List.range n) (hn ▸ hu)
  rw [hn] at hE
  have hlab := levelSwapG_toPre al ord ⟨s, List.range n, List.range n⟩ (u := u) (l := u + 1)
    (by simpa using hu0) (by simpa using hu)
  simp only at hlab
  generalize levelSwapG Rules.bcdd al ord ⟨s, List.range n, List.range n⟩ u (u + 1) = r1
    at hr1 hev hE hlab
  have hinv1 := hr1.inv
  rw [hlab] at hinv1
  have hlen1 : (swapLab (List.range n) u (u + 1)).length = n := by rw [swapLab_length]; simp
  have hgetD : ∀ p, p < n → (swapLab (List.range n) u (u + 1)).getD p 0 =
      if p = u + 1 then u else if p = u then u + 1 else p := by
    intro p hp
    rw [swapLab_getD (by simpa using hu0) (by simpa using hu), range_getD hu0, range_getD hu,
      range_getD hp]
  -- the position of a live label is the label with the two levels exchanged
  have hpos : ∀ i nd, r1.s.h.sh i = some nd → pos' nd.level = swapLv u nd.level ∧
      (i ∈ r1.s.table u ↔ nd.level = u + 1) ∧ (i ∈ r1.s.table (u + 1) ↔ nd.level = u) := by
    intro i nd hnd
    obtain ⟨g1, g2⟩ := hinv1.live_lab i nd hnd
    rw [hlen1] at g1
    rw [hgetD _ g1] at g2
    have t1 := hinv1.tbl_iff u (by rw [hlen1]; exact hu0) i
    have t2 := hinv1.tbl_iff (u + 1) (by rw [hlen1]; exact hu) i
    rw [hgetD _ hu0] at t1
    rw [hgetD _ hu] at t2
    have hne : ¬ (u = u + 1) := by omega
    simp only [hne, if_false, if_true] at t1 t2
    refine ⟨?_, ?_, ?_⟩
    · by_cases q1 : pos' nd.level = u + 1
      · rw [if_pos q1] at g2; rw [q1, ← g2]; simp [swapLv]
      · rw [if_neg q1] at g2
        by_cases q2 : pos' nd.level = u
        · rw [if_pos q2] at g2; rw [q2, ← g2]; simp [swapLv]
        · rw [if_neg q2] at g2
          rw [g2] at q1 q2
          rw [g2]; simp [swapLv, q1, q2]
    · rw [t1]
      constructor
      · rintro ⟨n', hn', hl⟩; rw [hnd] at hn'; cases hn'; exact hl
      · intro hl; exact ⟨nd, hnd, hl⟩
    · rw [t2]
      constructor
      · rintro ⟨n', hn', hl⟩; rw [hnd] at hn'; cases hn'; exact hl
      · intro hl; exact ⟨nd, hnd, hl⟩
  have hsh' : ∀ i, (levelDownS Rules.bcdd al ord s u).h.sh i =
      (r1.s.h.sh i).map fun nd => ⟨swapLv u nd.level, nd.t, nd.e⟩ := by
    intro i
    rw [hE]
    simp only [sh_updateLevelNo]
    cases hs : r1.s.h.sh i with
    | none =>
      have n1 : i ∉ r1.s.table u := fun h => by
        obtain ⟨n', hn', _⟩ := (hinv1.tbl_iff u (by rw [hlen1]; exact hu0) i).mp h
        rw [hs] at hn'; cases hn'
      have n2 : i ∉ r1.s.table (u + 1) := fun h => by
        obtain ⟨n', hn', _⟩ := (hinv1.tbl_iff (u + 1) (by rw [hlen1]; exact hu) i).mp h
        rw [hs] at hn'; cases hn'
      simp [n1, n2]
    | some nd =>
      obtain ⟨_, m1, m2⟩ := hpos i nd hs
      by_cases c1 : nd.level = u
      · have c2 : ¬ (nd.level = u + 1) := by omega
        have k1 : i ∈ r1.s.table (u + 1) := m2.mpr c1
        have k2 : i ∉ r1.s.table u := fun h => c2 (m1.mp h)
        simp [k1, k2, relabel, swapLv, c1]
      · by_cases c2 : nd.level = u + 1
        · have k1 : i ∉ r1.s.table (u + 1) := fun h => c1 (m2.mp h)
          have k2 : i ∈ r1.s.table u := m1.mpr c2
          simp [k1, k2, relabel, swapLv, c2]
        · have k1 : i ∉ r1.s.table (u + 1) := fun h => c1 (m2.mp h)
          have k2 : i ∉ r1.s.table u := fun h => c2 (m1.mp h)
          simp [k1, k2, swapLv, c1, c2]
  have hinvF : Inv ext (levelDownS Rules.bcdd al ord s u) := by
    refine hinv1.toInv (by rw [hE]) (fun i => ?_) ?_
    · rw [hsh']
      cases hs : r1.s.h.sh i with
      | none => rfl
      | some nd => simp only [Option.map]; rw [(hpos i nd hs).1]
    · rw [hE]; exact RCx_updateLevelNo (RCx_updateLevelNo hinv1.rc _ _) _ _
  refine ⟨hinvF, ?_, ?_⟩
  · rw [hE]; show r1.s.tables.length = n
    rw [← hinv1.len, hlen1]
  · intro σ x v hv hal'
    have h1 := hev (σ ∘ swapLv u) x v hv (fun k m hk hm hl => hal' k m hk hm (by
      rw [range_getD hu] at hl; exact hl))
    refine Ev.relabel (swapLv u) (fun i nd hnd => ⟨?_, rfl⟩) h1
    rw [hsh', hnd]; rfl
end
end OxiddModel.Reorder.SwapStoreC
