import OxiddModel.Reorder.SwapStoreCBase
import OxiddModel.Reorder.SetOrderLemmas

/-!
# The general `level_swap` with lazy level numbers, complement-edge rules

Port of `SwapStoreGen.lean`.

During `set_var_order` the level numbers stored in the nodes are *not* the positions of their
level views: `to_pre[p]` is the number stored in the nodes of the view at position `p`.
`InvL ext lab pos s` is the store invariant for that situation (`lab = to_pre`, `pos` its inverse
on the labels in use): as `Inv`, but the table at position `p` holds the nodes labelled `lab[p]` and
"ordered" refers to the positions `pos label`.

`level_swap(u, l, lab[u], lab[l])` for `u < l` with only empty level views strictly between the
two re-establishes `InvL` for `to_pre` with the two entries exchanged (`swapG_inv`) and every
surviving edge evaluates to the same value under every assignment of the *labels*
(`swapG_eval`): the label of a variable does not change before `update_levels`.
-/
namespace OxiddModel.Reorder.SwapStoreC
open OxiddModel.Bcdd.Refine (EdgeC Tgt)
open OxiddModel.Reorder.SwapStore (OrderOK swapLab swapPos swapLab_getD swapLab_length BelowL)
open OxiddModel.Reorder

structure InvL (ext : Nat → Nat) (lab : List Nat) (pos : Nat → Nat) (s : SStore) : Prop where
  len : lab.length = s.tables.length
  pos_lab : ∀ p, p < lab.length → pos (lab.getD p 0) = p
  tbl_iff : ∀ p, p < lab.length → ∀ i,
    i ∈ s.table p ↔ ∃ n, s.h.sh i = some n ∧ n.level = lab.getD p 0
  live_lab : ∀ i n, s.h.sh i = some n →
    pos n.level < lab.length ∧ lab.getD (pos n.level) 0 = n.level
  tbl_nodup : ∀ p, (s.table p).Nodup
  ordered : ∀ i n, s.h.sh i = some n → ∀ k, (n.t.tgt = .inner k ∨ n.e.tgt = .inner k) →
    ∃ m, s.h.sh k = some m ∧ pos n.level < pos m.level
  nored : ∀ i n, s.h.sh i = some n → n.t ≠ n.e
  uniq : ∀ i j n, s.h.sh i = some n → s.h.sh j = some n → i = j
  thenReg : ∀ i n, s.h.sh i = some n → n.t.neg = false
  rc : RCx (fun k => live01 s.h k + ext k) s.h

section
variable {ext : Nat → Nat} {lab : List Nat} {pos : Nat → Nat} {s : SStore} {u l : Nat}


theorem InvL.lab_inj (hinv : InvL ext lab pos s) {p q : Nat} (hp : p < lab.length)
    (hq : q < lab.length) (h : lab.getD p 0 = lab.getD q 0) : p = q := by
  rw [← hinv.pos_lab p hp, ← hinv.pos_lab q hq, h]

theorem InvL.table_empty (hinv : InvL ext lab pos s) {i : Nat} {n : Node} (hn : s.h.sh i = some n) :
    i ∈ s.table (pos n.level) := by
  obtain ⟨h1, h2⟩ := hinv.live_lab i n hn
  exact (hinv.tbl_iff _ h1 i).mpr ⟨n, hn, h2.symm⟩

theorem InvL.pre (hinv : InvL ext lab pos s) (hul : u < l) (hl : l < lab.length)
    (hgap : ∀ p, u < p → p < l → s.table p = []) :
    Pre (lab.getD u 0) (lab.getD l 0) (BelowL pos l) s.h.sh (s.table u) := by
  have hu : u < lab.length := by omega
  have hpu := hinv.pos_lab u hu
  have hpl := hinv.pos_lab l hl
  have hchild : ∀ i n, s.h.sh i = some n → u ≤ pos n.level → ∀ c, (c = n.t ∨ c = n.e) →
      Bel (lab.getD u 0) (lab.getD l 0) (BelowL pos l) s.h.sh c ∨ AtB (lab.getD l 0) s.h.sh c := by
    intro i n hn hpn c hc
    cases hct : c.tgt with
    | term => exact Or.inl (Bel_term hct)
    | inner k =>
      obtain ⟨m, hm, hlt⟩ := hinv.ordered i n hn k
        (by rcases hc with h | h; exact Or.inl (h ▸ hct); exact Or.inr (h ▸ hct))
      by_cases h1 : pos m.level = l
      · right
        refine ⟨k, m, hct, hm, ?_⟩
        have := (hinv.live_lab k m hm).2
        rw [h1] at this; exact this.symm
      · by_cases h2 : l < pos m.level
        · left
          refine (Bel_inner hct).mpr ⟨m, hm, ?_, ?_, h2⟩
          · intro h; rw [h, hpu] at h2; omega
          · intro h; rw [h, hpl] at h2; omega
        · exfalso
          have := hinv.table_empty hm
          rw [hgap (pos m.level) (by omega) (by omega)] at this
          cases this
  refine
    { ab := fun h => by have := hinv.lab_inj hu hl h; omega
      old_iff := hinv.tbl_iff u hu
      old_nodup := hinv.tbl_nodup u
      lowKids := ?_, upKids := ?_, nored := hinv.nored, uniq := hinv.uniq,
      thenReg := hinv.thenReg }
  · intro i n hn hlv
    have hpn : pos n.level = l := by rw [hlv, hpl]
    have key : ∀ c, (c = n.t ∨ c = n.e) →
        Bel (lab.getD u 0) (lab.getD l 0) (BelowL pos l) s.h.sh c := by
      intro c hc
      cases hct : c.tgt with
      | term => exact Bel_term hct
      | inner k =>
        obtain ⟨m, hm, hlt⟩ := hinv.ordered i n hn k
          (by rcases hc with h | h; exact Or.inl (h ▸ hct); exact Or.inr (h ▸ hct))
        rw [hpn] at hlt
        refine (Bel_inner hct).mpr ⟨m, hm, ?_, ?_, hlt⟩
        · intro h; rw [h, hpu] at hlt; omega
        · intro h; rw [h, hpl] at hlt; omega
    exact ⟨key _ (Or.inl rfl), key _ (Or.inr rfl)⟩
  · intro i n hn hlv
    have hpn : pos n.level = u := by rw [hlv, hpu]
    exact ⟨hchild i n hn (by omega) _ (Or.inl rfl), hchild i n hn (by omega) _ (Or.inr rfl)⟩

end
section
variable {ext : Nat → Nat} {lab : List Nat} {pos : Nat → Nat} {s : SStore} {u l : Nat}

/-- table entries of the views other than the two that are swapped -/
def othG (a b : Nat) (sh : Nat → Option Node) (k : Nat) : Nat :=
  match sh k with
  | some n => if n.level = a ∨ n.level = b then 0 else 1
  | none => 0

theorem InvL.count_table (hinv : InvL ext lab pos s) {p : Nat} (hp : p < lab.length) (k : Nat) :
    (s.table p).count k = match s.h.sh k with
      | some n => if n.level = lab.getD p 0 then 1 else 0
      | none => 0 := by
  rw [(hinv.tbl_nodup p).count]
  have := hinv.tbl_iff p hp k
  cases hs : s.h.sh k with
  | none =>
    rw [hs] at this
    simp only
    rw [if_neg]; intro h; obtain ⟨n, hn, _⟩ := this.mp h; cases hn
  | some n =>
    rw [hs] at this
    simp only
    by_cases hl : n.level = lab.getD p 0
    · rw [if_pos (this.mpr ⟨n, rfl, hl⟩), if_pos hl]
    · rw [if_neg hl, if_neg]
      intro h; obtain ⟨n', hn', hl'⟩ := this.mp h; cases hn'; exact hl hl'

/-- what the general `level_swap` leaves -/
structure SwapResG (ext : Nat → Nat) (lab : List Nat) (pos : Nat → Nat) (s : SStore) (u l : Nat)
    (s' : SStore) (up lo : List Nat) : Prop where
  j : J (lab.getD u 0) (lab.getD l 0) (BelowL pos l) s.h.sh (s.table u) ext s'.h.sh up lo []
  tables : ∀ p, s'.table p = if p = l then lo else if p = u then up else s.table p
  rc : RCx (fun k => up.count k + lo.count k + othG (lab.getD u 0) (lab.getD l 0) s.h.sh k + ext k) s'.h
  len : s'.tables.length = s.tables.length

theorem levelSwapG_res {al : Heap → Nat} (hal : AllocOK al) {ord : List Nat → List Nat}
    (hord : OrderOK ord) (hinv : InvL ext lab pos s) (hul : u < l) (hl : l < lab.length)
    (hgap : ∀ p, u < p → p < l → s.table p = []) (l2v : List Nat) :
    ∃ up lo, SwapResG ext lab pos s u l (levelSwapG Rules.bcdd al ord ⟨s, lab, l2v⟩ u l).s up lo := by
  have hu : u < lab.length := by omega
  have hp := hinv.pre hul hl hgap
  have hperm := hord (s.table u)
  have hinit : LInv (lab.getD u 0) (lab.getD l 0) (BelowL pos l) s.h.sh (s.table u) ext
      (fun k => (s.table u).count k + othG (lab.getD u 0) (lab.getD l 0) s.h.sh k + ext k)
      ⟨s.h, s.table l, []⟩ (ord (s.table u)) :=
    { j := J.init hp (hinv.tbl_iff l hl) (hinv.tbl_nodup l) (fun i => hperm.mem_iff)
        (hperm.nodup_iff.mpr (hinv.tbl_nodup u))
      rc := by
        refine hinv.rc.congr (fun k => ?_)
        simp only [wOf, List.count_nil, hinv.count_table hl, hinv.count_table hu, othG, live01]
        have hab := hp.ab
        generalize lab.getD u 0 = a at hab ⊢
        generalize lab.getD l 0 = b at hab ⊢
        cases hs : s.h.sh k with
        | none => simp
        | some n =>
          simp only [Option.isSome_some, if_true]
          by_cases h1 : n.level = a
          · simp [h1, hab]
          · by_cases h2 : n.level = b
            · simp [h2, Ne.symm hab]
            · simp [h1, h2] }
  have hR : ∀ k, ext k ≤ (s.table u).count k + othG (lab.getD u 0) (lab.getD l 0) s.h.sh k + ext k :=
    fun k => by omega
  have hloop := levelSwapLoop_spec (al := al) hal hp hR _ hinit
  generalize hst : levelSwapLoop Rules.bcdd al (lab.getD u 0) (lab.getD l 0) (s.table u) (ord (s.table u))
    ⟨s.h, s.table l, []⟩ = st at hloop
  have hJ := hloop.j
  have hdrop := dropOld_spec
    (w := fun k => st.up.count k + st.lo.count k + othG (lab.getD u 0) (lab.getD l 0) s.h.sh k + ext k)
    (s.table u) (h := st.h)
    (hloop.rc.congr (fun k => by simp only [wOf]; omega))
    (fun j hj => by
      rcases hJ.oldC j hj with h | h | h
      · simp at h
      · have : 0 < st.lo.count j := List.count_pos_iff.mpr h
        show 0 < _; omega
      · have : 0 < st.up.count j := List.count_pos_iff.mpr h
        show 0 < _; omega)
  refine ⟨st.up, st.lo, ?_⟩
  have hgu : lab.getD u u = lab.getD u 0 := by
    simp [List.getD_eq_getElem?_getD, List.getElem?_eq_getElem hu]
  have hgl : lab.getD l l = lab.getD l 0 := by
    simp [List.getD_eq_getElem?_getD, List.getElem?_eq_getElem hl]
  unfold levelSwapG
  simp only [levelSwapS, hgu, hgl, hst]
  refine { j := ?_, tables := ?_, rc := hdrop.2, len := by simp }
  · show J _ _ _ _ _ _ (dropOld st.h (s.table u)).sh _ _ _
    rw [hdrop.1]; exact hJ
  · intro p
    exact table_setG _ _ u l _ _ (by omega) (hinv.len ▸ hu) (hinv.len ▸ hl) p

/-! ## the classes of slots after the general swap -/

section
variable {s' : SStore} {up lo : List Nat} {a b : Nat}

/-- `SwapResG` with the two labels named -/
structure ResG (ext : Nat → Nat) (pos : Nat → Nat) (s : SStore) (u l a b : Nat)
    (s' : SStore) (up lo : List Nat) : Prop where
  j : J a b (BelowL pos l) s.h.sh (s.table u) ext s'.h.sh up lo []
  tables : ∀ p, s'.table p = if p = l then lo else if p = u then up else s.table p
  rc : RCx (fun k => up.count k + lo.count k + othG a b s.h.sh k + ext k) s'.h
  len : s'.tables.length = s.tables.length

theorem SwapResG.toResG (h : SwapResG ext lab pos s u l s' up lo) :
    ResG ext pos s u l (lab.getD u 0) (lab.getD l 0) s' up lo := ⟨h.j, h.tables, h.rc, h.len⟩

theorem ResG.up_sh (hres : ResG ext pos s u l a b s' up lo) {k : Nat} (hk : k ∈ up) :
    k ∉ lo ∧ ∃ x y, s'.h.sh k = some ⟨b, x, y⟩ :=
  ⟨hres.j.dUL k hk, hres.j.up_level hk⟩

theorem ResG.lo_sh (hres : ResG ext pos s u l a b s' up lo) {k : Nat} (hk : k ∈ lo) :
    k ∉ up ∧ ∃ x y, s'.h.sh k = some ⟨a, x, y⟩ ∧
      Bel a b (BelowL pos l) s.h.sh x ∧ Bel a b (BelowL pos l) s.h.sh y ∧ x ≠ y ∧ x.neg = false := by
  obtain ⟨x, y, hs, hxr, hx, hy, hxy, _⟩ := hres.j.loC k hk
  exact ⟨fun h => hres.j.dUL k h hk, x, y, hs, hx, hy, hxy, hxr⟩

theorem ResG.frame_sh (hp : Pre a b (BelowL pos l) s.h.sh (s.table u))
    (hres : ResG ext pos s u l a b s' up lo) {k : Nat} {n : Node}
    (hn : s.h.sh k = some n) (h1 : n.level ≠ a) (h2 : n.level ≠ b) :
    k ∉ up ∧ k ∉ lo ∧ s'.h.sh k = some n := by
  have hku : k ∉ up := by
    intro hk
    rcases hres.j.upC k hk with ⟨n', hn', hl, _⟩ | ⟨g1, _⟩
    · rw [hn] at hn'; cases hn'; exact h2 hl
    · obtain ⟨n', hn', hl⟩ := (hp.old_iff k).mp g1
      rw [hn] at hn'; cases hn'; exact h1 hl
  have hkl : k ∉ lo := by
    intro hk
    obtain ⟨x, y, _, _, _, _, _, g1, g2⟩ := hres.j.loC k hk
    by_cases hko : k ∈ s.table u
    · obtain ⟨n', hn', hl⟩ := (hp.old_iff k).mp hko
      rw [hn] at hn'; cases hn'; exact h1 hl
    · rcases g2 hko with h | ⟨n', hn', hl⟩
      · rw [hn] at h; cases h
      · rw [hn] at hn'; cases hn'; exact h2 hl
  exact ⟨hku, hkl, hres.j.frame k n hn h1 h2⟩

theorem ResG.cases (hres : ResG ext pos s u l a b s' up lo) {k : Nat} {n' : Node}
    (hk : s'.h.sh k = some n') :
    (s.h.sh k = some n' ∧ n'.level ≠ a ∧ n'.level ≠ b ∧ k ∉ up ∧ k ∉ lo) ∨ k ∈ up ∨ k ∈ lo := by
  by_cases hkl : k ∈ lo
  · exact Or.inr (Or.inr hkl)
  · by_cases hku : k ∈ up
    · exact Or.inr (Or.inl hku)
    · left
      rcases hres.j.live k (by rw [hk]; simp) with ⟨n, hn, h1, h2⟩ | h | h | h
      · have := hres.j.frame k n hn h1 h2
        rw [hk] at this; cases this
        exact ⟨hn, h1, h2, hku, hkl⟩
      · simp at h
      · exact absurd h hku
      · exact absurd h hkl

theorem ResG.bel_sh (hp : Pre a b (BelowL pos l) s.h.sh (s.table u))
    (hres : ResG ext pos s u l a b s' up lo) {k : Nat} {c : Edge} (hck : c.tgt = .inner k)
    (hb : Bel a b (BelowL pos l) s.h.sh c) :
    ∃ n, s.h.sh k = some n ∧ s'.h.sh k = some n ∧ l < pos n.level ∧ n.level ≠ a ∧ n.level ≠ b := by
  obtain ⟨n, hn, h1, h2, h3⟩ := (Bel_inner hck).mp hb
  exact ⟨n, hn, (hres.frame_sh hp hn h1 h2).2.2, h3, h1, h2⟩


theorem ResG.mkR_pos (hp : Pre a b (BelowL pos l) s.h.sh (s.table u))
    (hres : ResG ext pos s u l a b s' up lo) (hul : u < l) {x y c : Edge}
    (hx : Bel a b (BelowL pos l) s.h.sh x) (hm : MkR a s'.h.sh lo [] x y c) {k : Nat}
    (hc : c.tgt = .inner k) : ∃ m, s'.h.sh k = some m ∧ u < swapPos pos a b u l m.level := by
  rcases hm with ⟨_, h2⟩ | ⟨_, j, hj, h2, h3⟩
  · subst h2
    obtain ⟨n, _, h4, h5, h6, h7⟩ := hres.bel_sh hp hc hx
    exact ⟨n, h4, by simp only [swapPos, h6, h7, if_false]; omega⟩
  · rw [h2] at hc; injection hc with hc; subst hc
    exact ⟨_, h3, by simp [swapPos]; omega⟩

/-- **the polarity of a rewritten node cannot change**: the then-grandchild over the then-child
is reached through regular edges only, so `reduce` returns an untagged edge for the new
then-child -/
theorem cof0_fst_reg {P : Nat → Prop} {sh0 : Nat → Option Node} {old : List Nat} {a b : Nat}
    (hp : Pre a b P sh0 old) {i : Nat} {n : Node} (hn : sh0 i = some n) (hla : n.level = a) :
    (cof0 b sh0 n.t).1.neg = false := by
  have hr := hp.thenReg i n hn
  rcases (hp.upKids i n hn hla).1 with hb | ⟨k, m, hk, hm, hlv⟩
  · rw [cof0_of_bel hb]; exact hr
  · rw [cof0_atB hk hm hlv]
    simp [push, hr, hp.thenReg k m hm]

/-- **the general `level_swap` re-establishes the lazy store invariant**, with the labels and
positions of the two level views exchanged -/
theorem ResG.invL (hinv : InvL ext lab pos s) (hul : u < l) (hl : l < lab.length)
    (hgap : ∀ p, u < p → p < l → s.table p = [])
    (ha : lab.getD u 0 = a) (hb : lab.getD l 0 = b) (hres : ResG ext pos s u l a b s' up lo) :
    InvL ext (swapLab lab u l) (swapPos pos a b u l) s' := by
  have hu : u < lab.length := by omega
  have hp : Pre a b (BelowL pos l) s.h.sh (s.table u) := ha ▸ hb ▸ hinv.pre hul hl hgap
  have hJ := hres.j
  have hpa : pos a = u := ha ▸ hinv.pos_lab u hu
  have hpb : pos b = l := hb ▸ hinv.pos_lab l hl
  have hab : a ≠ b := hp.ab
  have hlabp : ∀ p, p < lab.length → p ≠ u → p ≠ l → lab.getD p 0 ≠ a ∧ lab.getD p 0 ≠ b := by
    intro p hpl h1 h2
    exact ⟨fun h => h1 (hinv.lab_inj hpl hu (h.trans ha.symm)),
      fun h => h2 (hinv.lab_inj hpl hl (h.trans hb.symm))⟩
  have hposne : ∀ x, x ≠ a → x ≠ b → swapPos pos a b u l x = pos x := by
    intro x h1 h2; simp [swapPos, h1, h2]
  have hposa : swapPos pos a b u l a = l := by simp [swapPos]
  have hposb : swapPos pos a b u l b = u := by simp [swapPos, Ne.symm hab]
  -- a node outside the two views lies above `u` or below `l`
  have hframe_pos : ∀ i n, s.h.sh i = some n → n.level ≠ a → n.level ≠ b →
      pos n.level < u ∨ l < pos n.level := by
    intro i n hn h1 h2
    obtain ⟨g1, g2⟩ := hinv.live_lab i n hn
    have hne : s.table (pos n.level) ≠ [] := by
      intro h; have := hinv.table_empty hn; rw [h] at this; cases this
    by_cases c1 : pos n.level < u
    · exact Or.inl c1
    · by_cases c2 : l < pos n.level
      · exact Or.inr c2
      · exfalso
        by_cases c3 : pos n.level = u
        · rw [c3, ha] at g2; exact h1 g2.symm
        · by_cases c4 : pos n.level = l
          · rw [c4, hb] at g2; exact h2 g2.symm
          · exact hne (hgap _ (by omega) (by omega))
  refine { len := ?_, pos_lab := ?_, tbl_iff := ?_, live_lab := ?_, tbl_nodup := ?_,
           ordered := ?_, nored := ?_, uniq := ?_, thenReg := ?_, rc := ?_ }
  · rw [swapLab_length, hinv.len, hres.len]
  · intro p hpl
    rw [swapLab_length] at hpl
    rw [swapLab_getD hu hl]
    by_cases h1 : p = l
    · subst h1; simp only [if_true]; rw [ha]; exact hposa
    · by_cases h2 : p = u
      · subst h2; simp only [h1, if_false, if_true]; rw [hb]; exact hposb
      · simp only [h1, h2, if_false]
        have := hlabp p hpl h2 h1
        rw [hposne _ this.1 this.2]; exact hinv.pos_lab p hpl
  · intro p hpl i
    rw [swapLab_length] at hpl
    rw [hres.tables, swapLab_getD hu hl]
    by_cases h1 : p = l
    · subst h1; simp only [if_true]; rw [ha]
      constructor
      · intro hi
        obtain ⟨_, x, y, h2, _⟩ := hres.lo_sh hi
        exact ⟨_, h2, rfl⟩
      · rintro ⟨n, hn, hlv⟩
        rcases hres.cases hn with ⟨_, h3, _⟩ | h | h
        · exact absurd hlv h3
        · obtain ⟨_, x, y, h2⟩ := hres.up_sh h
          rw [hn] at h2; cases h2; exact absurd hlv (Ne.symm hab)
        · exact h
    · by_cases h2 : p = u
      · subst h2; simp only [h1, if_false, if_true]; rw [hb]
        constructor
        · intro hi
          obtain ⟨_, x, y, h2⟩ := hres.up_sh hi
          exact ⟨_, h2, rfl⟩
        · rintro ⟨n, hn, hlv⟩
          rcases hres.cases hn with ⟨_, _, h3, _⟩ | h | h
          · exact absurd hlv h3
          · exact h
          · obtain ⟨_, x, y, h2, _⟩ := hres.lo_sh h
            rw [hn] at h2; cases h2; exact absurd hlv hab
      · simp only [h1, h2, if_false]
        have hne := hlabp p hpl h2 h1
        rw [hinv.tbl_iff p hpl]
        constructor
        · rintro ⟨n, hn, hlv⟩
          exact ⟨n, (hres.frame_sh hp hn (hlv ▸ hne.1) (hlv ▸ hne.2)).2.2, hlv⟩
        · rintro ⟨n, hn, hlv⟩
          rcases hres.cases hn with ⟨h3, _⟩ | h | h
          · exact ⟨n, h3, hlv⟩
          · obtain ⟨_, x, y, h4⟩ := hres.up_sh h
            rw [hn] at h4; cases h4; exact absurd hlv.symm hne.2
          · obtain ⟨_, x, y, h4, _⟩ := hres.lo_sh h
            rw [hn] at h4; cases h4; exact absurd hlv.symm hne.1
  · intro i n hn
    rw [swapLab_length, swapLab_getD hu hl]
    rcases hres.cases hn with ⟨h0, h1, h2, _, _⟩ | h | h
    · obtain ⟨g1, g2⟩ := hinv.live_lab i n h0
      rw [hposne _ h1 h2]
      refine ⟨g1, ?_⟩
      have c1 : pos n.level ≠ l := fun c => h2 (by rw [c, hb] at g2; exact g2.symm)
      have c2 : pos n.level ≠ u := fun c => h1 (by rw [c, ha] at g2; exact g2.symm)
      simp only [c1, c2, if_false]; exact g2
    · obtain ⟨_, x, y, h4⟩ := hres.up_sh h
      rw [hn] at h4; cases h4
      simp only [hposb]
      have : ¬ (u = l) := by omega
      simp only [this, if_false, if_true]
      exact ⟨hu, hb⟩
    · obtain ⟨_, x, y, h4, _⟩ := hres.lo_sh h
      rw [hn] at h4; cases h4
      simp only [hposa, if_true]
      exact ⟨hl, ha⟩
  · intro p
    rw [hres.tables]
    split
    · exact hJ.ndLo
    · split
      · exact hJ.ndUp
      · exact hinv.tbl_nodup p
  · -- ordered
    intro i n hn k hc
    rcases hres.cases hn with ⟨h0, h1, h2, _, _⟩ | hi | hi
    · obtain ⟨m, hm, hlt⟩ := hinv.ordered i n h0 k hc
      rw [hposne _ h1 h2]
      by_cases hmb : m.level = b
      · have hku : k ∈ up := by
          apply Classical.byContradiction
          intro hku
          have := (hJ.dead k m hm hmb hku).2 i n h0 (Or.inl ⟨h1, h2⟩)
          rcases hc with hc | hc
          · exact this.1 hc
          · exact this.2 hc
        obtain ⟨_, x, y, h4⟩ := hres.up_sh hku
        refine ⟨_, h4, ?_⟩
        simp only [hposb]
        rw [hmb, hpb] at hlt
        rcases hframe_pos i n h0 h1 h2 with c | c <;> omega
      · by_cases hma : m.level = a
        · rw [hma, hpa] at hlt
          have hko : k ∈ s.table u := (hp.old_iff k).mpr ⟨m, hm, hma⟩
          rcases hJ.oldC k hko with h | h | h
          · simp at h
          · obtain ⟨_, x, y, h4, _⟩ := hres.lo_sh h
            exact ⟨_, h4, by simp only [hposa]; omega⟩
          · obtain ⟨_, x, y, h4⟩ := hres.up_sh h
            exact ⟨_, h4, by simp only [hposb]; omega⟩
        · refine ⟨m, (hres.frame_sh hp hm hma hmb).2.2, ?_⟩
          rw [hposne _ hma hmb]; exact hlt
    · obtain ⟨_, x, y, hs'⟩ := hres.up_sh hi
      rw [hn] at hs'; cases hs'
      simp only [hposb]
      rcases hJ.upC i hi with hsv | ⟨g1, _, n0, c1, c2, g3, _, g5, g6, g7⟩
      · have hbl := survL_bel hp hsv hn
        have : ∃ m, s'.h.sh k = some m ∧ l < pos m.level ∧ m.level ≠ a ∧ m.level ≠ b := by
          rcases hc with hc | hc
          · obtain ⟨m, _, h4, h5, h6, h7⟩ := hres.bel_sh hp hc hbl.1; exact ⟨m, h4, h5, h6, h7⟩
          · obtain ⟨m, _, h4, h5, h6, h7⟩ := hres.bel_sh hp hc hbl.2; exact ⟨m, h4, h5, h6, h7⟩
        obtain ⟨m, h4, h5, h6, h7⟩ := this
        exact ⟨m, h4, by rw [hposne _ h6 h7]; omega⟩
      · rw [hn] at g5; cases g5
        obtain ⟨n0', hn0', hl0⟩ := (hp.old_iff i).mp g1
        rw [g3] at hn0'; cases hn0'
        have hk0 := hp.upKids i n0 g3 hl0
        rcases hc with hc | hc
        · exact hres.mkR_pos hp hul (bel_cof0 hp hk0.1).1 g6 hc
        · exact hres.mkR_pos hp hul (bel_cof0 hp hk0.1).2 g7 hc
    · obtain ⟨_, x, y, hs', hx, hy, _⟩ := hres.lo_sh hi
      rw [hn] at hs'; cases hs'
      simp only [hposa]
      have : ∃ m, s'.h.sh k = some m ∧ l < pos m.level ∧ m.level ≠ a ∧ m.level ≠ b := by
        rcases hc with hc | hc
        · obtain ⟨m, _, h4, h5, h6, h7⟩ := hres.bel_sh hp hc hx; exact ⟨m, h4, h5, h6, h7⟩
        · obtain ⟨m, _, h4, h5, h6, h7⟩ := hres.bel_sh hp hc hy; exact ⟨m, h4, h5, h6, h7⟩
      obtain ⟨m, h4, h5, h6, h7⟩ := this
      exact ⟨m, h4, by rw [hposne _ h6 h7]; exact h5⟩
  · -- no redundant node
    intro i n hn
    rcases hres.cases hn with ⟨h0, _⟩ | hi | hi
    · exact hinv.nored i n h0
    · rcases hJ.upC i hi with ⟨n0, h1, _, h3⟩ | ⟨g1, _, n0, c1, c2, g3, g4, g5, g6, g7⟩
      · rw [hn] at h3; cases h3
        exact hinv.nored i _ h1
      · rw [hn] at g5; cases g5
        obtain ⟨n0', hn0', hl0⟩ := (hp.old_iff i).mp g1
        rw [g3] at hn0'; cases hn0'
        have hk0 := hp.upKids i n0 g3 hl0
        intro hcc
        simp only at hcc
        subst hcc
        have h12 := g6.inj hJ (bel_cof0 hp hk0.1).1 (bel_cof0 hp hk0.1).2 g7
        have hone : ∀ c, (Bel a b (BelowL pos l) s.h.sh c ∨ AtB b s.h.sh c) →
            (cof0 b s.h.sh c).1 = (cof0 b s.h.sh c).2 → Bel a b (BelowL pos l) s.h.sh c := by
          intro c hc heq
          rcases hc with hc | ⟨k, m, hk, hm, hlv⟩
          · exact hc
          · rw [cof0_atB hk hm hlv] at heq
            exact absurd (push_inj heq) (hinv.nored k m hm)
        exact g4 ⟨hone _ hk0.1 h12.1, hone _ hk0.2 h12.2⟩
    · obtain ⟨_, x, y, hs', _, _, hxy, _⟩ := hres.lo_sh hi
      rw [hn] at hs'; cases hs'
      exact hxy
  · -- no duplicates
    intro i j n hi hj
    rcases hres.cases hi with ⟨h0, h1, h2, _, _⟩ | hiu | hil
    · rcases hres.cases hj with ⟨h0', _⟩ | hju | hjl
      · exact hinv.uniq i j n h0 h0'
      · obtain ⟨_, x, y, h4⟩ := hres.up_sh hju
        rw [hj] at h4; cases h4; exact absurd rfl h2
      · obtain ⟨_, x, y, h4, _⟩ := hres.lo_sh hjl
        rw [hj] at h4; cases h4; exact absurd rfl h1
    · obtain ⟨_, x, y, h4⟩ := hres.up_sh hiu
      rw [hi] at h4; cases h4
      rcases hres.cases hj with ⟨_, _, h2, _⟩ | hju | hjl
      · exact absurd rfl h2
      · exact hJ.up_unique hp hiu hju hi hj
      · obtain ⟨_, x', y', h4', _⟩ := hres.lo_sh hjl
        rw [hj] at h4'; cases h4'; exact absurd rfl hab.symm
    · obtain ⟨_, x, y, h4, _⟩ := hres.lo_sh hil
      rw [hi] at h4; cases h4
      rcases hres.cases hj with ⟨_, h1, _⟩ | hju | hjl
      · exact absurd rfl h1
      · obtain ⟨_, x', y', h4'⟩ := hres.up_sh hju
        rw [hj] at h4'; cases h4'; exact absurd rfl hab
      · exact hJ.loU i hil j hjl (hi.trans hj.symm)
  · -- the then-edges stay regular: the rewritten node receives regular new then-children
    intro i n hn
    rcases hres.cases hn with ⟨h0, _⟩ | hi | hi
    · exact hinv.thenReg i n h0
    · rcases hJ.upC i hi with ⟨n0, h1, _, h3⟩ | ⟨g1, _, n0, c1, c2, g3, _, g5, g6, _⟩
      · rw [hn] at h3; cases h3
        exact hinv.thenReg i _ h1
      · rw [hn] at g5; cases g5
        obtain ⟨n0', hn0', hl0⟩ := (hp.old_iff i).mp g1
        rw [g3] at hn0'; cases hn0'
        show c1.neg = false
        rw [g6.neg_eq]
        exact cof0_fst_reg hp g3 hl0
    · obtain ⟨_, x, y, hs', _, _, _, hxr⟩ := hres.lo_sh hi
      rw [hn] at hs'; cases hs'
      exact hxr
  · -- reference counts
    refine hres.rc.congr (fun k => ?_)
    rw [hJ.ndUp.count, hJ.ndLo.count]
    simp only [live01]
    by_cases hku : k ∈ up
    · obtain ⟨hkl, x, y, h4⟩ := hres.up_sh hku
      have ho : othG a b s.h.sh k = 0 := by
        simp only [othG]
        rcases hJ.upC k hku with ⟨n0, h1, h2, _⟩ | ⟨g1, _⟩
        · simp [h1, h2]
        · obtain ⟨n0, h1, h2⟩ := (hp.old_iff k).mp g1
          simp [h1, h2]
      simp [hku, hkl, ho, h4]
    · by_cases hkl : k ∈ lo
      · obtain ⟨_, x, y, h4, _⟩ := hres.lo_sh hkl
        have ho : othG a b s.h.sh k = 0 := by
          simp only [othG]
          obtain ⟨_, _, _, _, _, _, _, g1, g2⟩ := hJ.loC k hkl
          by_cases hko : k ∈ s.table u
          · obtain ⟨n0, h1, h2⟩ := (hp.old_iff k).mp hko
            simp [h1, h2]
          · rcases g2 hko with h | ⟨n0, h1, h2⟩
            · simp [h]
            · simp [h1, h2]
        simp [hku, hkl, ho, h4]
      · simp only [hku, hkl, if_false]
        cases hs' : s'.h.sh k with
        | none =>
          have ho : othG a b s.h.sh k = 0 := by
            simp only [othG]
            cases h0 : s.h.sh k with
            | none => rfl
            | some n0 =>
              simp only
              by_cases h1 : n0.level = a ∨ n0.level = b
              · simp [h1]
              · have := (hres.frame_sh hp h0 (fun h => h1 (Or.inl h)) (fun h => h1 (Or.inr h))).2.2
                rw [hs'] at this; cases this
          simp [ho]
        | some n' =>
          rcases hres.cases hs' with ⟨h0, h1, h2, _, _⟩ | h | h
          · have ho : othG a b s.h.sh k = 1 := by simp [othG, h0, h1, h2]
            simp [ho]
          · exact absurd h hku
          · exact absurd h hkl
end
end


/-! ## evaluation of an edge under an assignment of the stored level numbers -/

/-- `EvN sh σ tgt v`: the node `tgt` (the terminal `⊤` or a slot) evaluates to `v` when the
variable whose nodes carry the stored level number `ℓ` has the value `σ ℓ`; a complemented child
edge negates the value of the child -/
inductive EvN (sh : Nat → Option Node) (σ : Nat → Bool) : Tgt → Bool → Prop
  | term : EvN sh σ .term true
  | inner : sh i = some ⟨ℓ, t, e⟩ → EvN sh σ t.tgt vt → EvN sh σ e.tgt ve →
      EvN sh σ (.inner i) (if σ ℓ then (t.neg != vt) else (e.neg != ve))

/-- the value of an edge: the tag negates -/
def Ev (sh : Nat → Option Node) (σ : Nat → Bool) (x : Edge) (v : Bool) : Prop :=
  ∃ w, EvN sh σ x.tgt w ∧ v = (x.neg != w)

theorem EvN.functional {sh : Nat → Option Node} {σ : Nat → Bool} {x : Tgt} {v w : Bool}
    (hv : EvN sh σ x v) (hw : EvN sh σ x w) : v = w := by
  induction hv generalizing w with
  | term => cases hw; rfl
  | inner hi _ _ iht ihe =>
    cases hw with
    | inner hi' ht' he' =>
      rw [hi] at hi'; cases hi'
      rw [iht ht', ihe he']

theorem Ev.functional {sh : Nat → Option Node} {σ : Nat → Bool} {x : Edge} {v w : Bool}
    (hv : Ev sh σ x v) (hw : Ev sh σ x w) : v = w := by
  obtain ⟨a, ha, rfl⟩ := hv
  obtain ⟨b, hb, rfl⟩ := hw
  rw [ha.functional hb]

theorem Ev.push {sh : Nat → Option Node} {σ : Nat → Bool} {x : Edge} {v : Bool} (g : Bool)
    (hv : Ev sh σ x v) : Ev sh σ (push g x) (g != v) := by
  obtain ⟨w, hw, rfl⟩ := hv
  exact ⟨w, hw, by simp only [SwapStoreC.push]; cases g <;> cases x.neg <;> cases w <;> rfl⟩

theorem Ev.of_tgt {sh : Nat → Option Node} {σ : Nat → Bool} {x : Edge} {v : Bool}
    (hv : Ev sh σ x v) (g : Bool) : Ev sh σ ⟨g, x.tgt⟩ (g != (x.neg != v)) := by
  obtain ⟨w, hw, rfl⟩ := hv
  exact ⟨w, hw, by cases g <;> cases x.neg <;> cases w <;> rfl⟩

/-- the value of an edge to an inner node -/
theorem Ev.inner {sh : Nat → Option Node} {σ : Nat → Bool} {i ℓ : Nat} {t e : Edge} {vt ve : Bool}
    (g : Bool) (hi : sh i = some ⟨ℓ, t, e⟩) (ht : Ev sh σ t vt) (he : Ev sh σ e ve) :
    Ev sh σ ⟨g, .inner i⟩ (g != (if σ ℓ then vt else ve)) := by
  obtain ⟨wt, hwt, rfl⟩ := ht
  obtain ⟨we, hwe, rfl⟩ := he
  exact ⟨_, EvN.inner hi hwt hwe, rfl⟩

/-- inversion -/
theorem Ev.inv {sh : Nat → Option Node} {σ : Nat → Bool} {x : Edge} {v : Bool} (hv : Ev sh σ x v)
    {i : Nat} (hx : x.tgt = .inner i) :
    ∃ ℓ t e vt ve, sh i = some ⟨ℓ, t, e⟩ ∧ Ev sh σ t vt ∧ Ev sh σ e ve ∧
      v = (x.neg != (if σ ℓ then vt else ve)) := by
  obtain ⟨w, hw, rfl⟩ := hv
  rw [hx] at hw
  cases hw with
  | @inner _ ℓ t e vt ve hi ht he =>
    exact ⟨ℓ, t, e, _, _, hi, ⟨vt, ht, rfl⟩, ⟨ve, he, rfl⟩, rfl⟩

theorem Ev.term {sh : Nat → Option Node} {σ : Nat → Bool} {x : Edge} (hx : x.tgt = .term) :
    Ev sh σ x (!x.neg) := ⟨true, hx ▸ EvN.term, by cases x.neg <;> rfl⟩

section
variable {ext : Nat → Nat} {lab : List Nat} {pos : Nat → Nat} {s s' : SStore} {u l a b : Nat}
  {up lo : List Nat} {σ : Nat → Bool}

/-- the cofactors of an edge evaluate to the two branches on the lower label -/
theorem ev_cof {sh : Nat → Option Node} {c : Edge} {vc : Bool} (hv : Ev sh σ c vc) (b : Nat) :
    ∃ v1 v2, Ev sh σ (cof0 b sh c).1 v1 ∧ Ev sh σ (cof0 b sh c).2 v2 ∧
      vc = if σ b then v1 else v2 := by
  cases hct : c.tgt with
  | term =>
    simp only [cof0, hct]
    exact ⟨vc, vc, hv, hv, by simp⟩
  | inner i =>
    obtain ⟨ℓ, t, e, vt, ve, hi, ht, he, rfl⟩ := hv.inv hct
    simp only [cof0, hct, hi]
    by_cases hl : ℓ = b
    · subst hl; simp only [if_true]
      refine ⟨_, _, ht.push c.neg, he.push c.neg, ?_⟩
      cases σ ℓ <;> simp
    · simp only [hl, if_false]
      have : Ev sh σ c (c.neg != (if σ ℓ then vt else ve)) := by
        have := Ev.inner (σ := σ) c.neg hi ht he
        have hc : c = ⟨c.neg, .inner i⟩ := edge_ext rfl hct
        rw [hc]; exact this
      exact ⟨_, _, this, this, by simp⟩

/-- a diagram that lies entirely below the two level views is untouched -/
theorem ResG.evN_below (hinv : InvL ext lab pos s) (hul : u < l) (hl : l < lab.length)
    (ha : lab.getD u 0 = a) (hb : lab.getD l 0 = b)
    (hp : Pre a b (BelowL pos l) s.h.sh (s.table u))
    (hres : ResG ext pos s u l a b s' up lo) {x : Tgt} {v : Bool}
    (hv : EvN s.h.sh σ x v) (hbel : Bel a b (BelowL pos l) s.h.sh ⟨false, x⟩) :
    EvN s'.h.sh σ x v := by
  have hu : u < lab.length := by omega
  have hpa : pos a = u := ha ▸ hinv.pos_lab u hu
  have hpb : pos b = l := hb ▸ hinv.pos_lab l hl
  induction hv with
  | term => exact .term
  | @inner i ℓ t e vt ve hi _ _ iht ihe =>
    obtain ⟨n, hn, hn', hlt, _, _⟩ := hres.bel_sh hp (c := ⟨false, .inner i⟩) rfl hbel
    rw [hi] at hn; cases hn
    have hchild : ∀ c : Edge, (c = t ∨ c = e) → Bel a b (BelowL pos l) s.h.sh ⟨false, c.tgt⟩ := by
      intro c hc
      cases hct : c.tgt with
      | term => exact Bel_term rfl
      | inner k =>
        obtain ⟨m, hm, hlt'⟩ := hinv.ordered i _ hi k
          (by rcases hc with h | h; exact Or.inl (h ▸ hct); exact Or.inr (h ▸ hct))
        have h3 : l < pos m.level := by simp only at hlt hlt'; omega
        refine (Bel_inner (c := ⟨false, .inner k⟩) rfl).mpr ⟨m, hm, ?_, ?_, h3⟩
        · intro h; rw [h, hpa] at h3; omega
        · intro h; rw [h, hpb] at h3; omega
    exact .inner hn' (iht (hchild t (Or.inl rfl))) (ihe (hchild e (Or.inr rfl)))

theorem ResG.ev_below (hinv : InvL ext lab pos s) (hul : u < l) (hl : l < lab.length)
    (ha : lab.getD u 0 = a) (hb : lab.getD l 0 = b)
    (hp : Pre a b (BelowL pos l) s.h.sh (s.table u))
    (hres : ResG ext pos s u l a b s' up lo) {x : Edge} {v : Bool}
    (hv : Ev s.h.sh σ x v) (hbel : Bel a b (BelowL pos l) s.h.sh x) : Ev s'.h.sh σ x v := by
  obtain ⟨w, hw, rfl⟩ := hv
  exact ⟨w, hres.evN_below hinv hul hl ha hb hp hw ((Bel_of_tgt (c := ⟨false, x.tgt⟩) rfl).mpr hbel), rfl⟩

theorem ResG.mkR_ev (_hres : ResG ext pos s u l a b s' up lo) {x y c : Edge} {vx vy : Bool}
    (hm : MkR a s'.h.sh lo [] x y c) (hx : Ev s'.h.sh σ x vx) (hy : Ev s'.h.sh σ y vy) :
    Ev s'.h.sh σ c (if σ a then vx else vy) := by
  rcases hm with ⟨h1, h2⟩ | ⟨_, j, _, h2, h3⟩
  · subst h1 h2
    have := hx.functional hy
    subst this
    simp only [ite_self]; exact hx
  · subst h2
    have := Ev.inner (σ := σ) x.neg h3 (hx.of_tgt false) (hy.push x.neg)
    have heq : (x.neg != if σ a then (false != (x.neg != vx)) else (x.neg != vy)) =
        (if σ a then vx else vy) := by
      cases σ a <;> cases x.neg <;> cases vx <;> cases vy <;> rfl
    rw [heq] at this; exact this

/-- **every surviving edge keeps its value** under every assignment of the labels -/
theorem ResG.evalN (hinv : InvL ext lab pos s) (hul : u < l) (hl : l < lab.length)
    (hgap : ∀ p, u < p → p < l → s.table p = [])
    (ha : lab.getD u 0 = a) (hb : lab.getD l 0 = b)
    (hres : ResG ext pos s u l a b s' up lo) {x : Tgt} {v : Bool}
    (hv : EvN s.h.sh σ x v)
    (halive : ∀ k m, x = .inner k → s.h.sh k = some m → m.level = b → k ∈ up) :
    EvN s'.h.sh σ x v := by
  have hp : Pre a b (BelowL pos l) s.h.sh (s.table u) := ha ▸ hb ▸ hinv.pre hul hl hgap
  have hJ := hres.j
  have hbelow : ∀ {x v}, Ev s.h.sh σ x v → Bel a b (BelowL pos l) s.h.sh x → Ev s'.h.sh σ x v :=
    fun h1 h2 => hres.ev_below hinv hul hl ha hb hp h1 h2
  have hbelowN : ∀ {c : Edge} {v}, EvN s.h.sh σ c.tgt v → Bel a b (BelowL pos l) s.h.sh c →
      EvN s'.h.sh σ c.tgt v :=
    fun h1 h2 => hres.evN_below hinv hul hl ha hb hp h1 ((Bel_of_tgt (c := ⟨false, _⟩) rfl).mpr h2)
  induction hv with
  | term => exact .term
  | @inner i ℓ t e vt ve hi ht he iht ihe =>
    by_cases h1 : ℓ = a
    · subst h1
      have hio : i ∈ s.table u := (hp.old_iff i).mpr ⟨_, hi, rfl⟩
      have hk0 := hp.upKids i _ hi rfl
      rcases hJ.oldC i hio with h | h | h
      · simp at h
      · -- moved
        obtain ⟨x', y', g1, _, hx, hy, _, g5, _⟩ := hJ.loC i h
        have := g5 hio
        rw [hi, g1] at this; cases this
        exact .inner g1 (hbelowN ht hx) (hbelowN he hy)
      · -- rewritten
        rcases hJ.upC i h with ⟨n0, g1, g2, _⟩ | ⟨_, _, n0, c1, c2, g3, g4, g5, g6, g7⟩
        · rw [hi] at g1; cases g1; exact absurd g2 hp.ab
        · rw [hi] at g3; cases g3
          have evt : Ev s.h.sh σ t (t.neg != vt) := ⟨vt, ht, rfl⟩
          have eve : Ev s.h.sh σ e (e.neg != ve) := ⟨ve, he, rfl⟩
          obtain ⟨t1, t2, ht1, ht2, et⟩ := ev_cof evt b
          obtain ⟨e1, e2, he1, he2, ee⟩ := ev_cof eve b
          have bt := bel_cof0 hp hk0.1
          have be := bel_cof0 hp hk0.2
          have r1 := hres.mkR_ev g6 (hbelow ht1 bt.1) (hbelow he1 be.1)
          have r2 := hres.mkR_ev g7 (hbelow ht2 bt.2) (hbelow he2 be.2)
          obtain ⟨w1, hw1, q1⟩ := r1
          obtain ⟨w2, hw2, q2⟩ := r2
          have := EvN.inner (σ := σ) g5 hw1 hw2
          have heq : (if σ b then (c1.neg != w1) else (c2.neg != w2)) =
              (if σ ℓ then (t.neg != vt) else (e.neg != ve)) := by
            rw [← q1, ← q2, et, ee]
            cases σ b <;> cases σ ℓ <;> simp
          rw [heq] at this; exact this
    · by_cases h2 : ℓ = b
      · subst h2
        have hiu := halive i _ rfl hi rfl
        rcases hJ.upC i hiu with ⟨n0, g1, _, g3⟩ | ⟨g1, _⟩
        · rw [hi] at g1; cases g1
          have hk := hp.lowKids i _ hi rfl
          exact .inner g3 (hbelowN ht hk.1) (hbelowN he hk.2)
        · obtain ⟨n0, g2, g3⟩ := (hp.old_iff i).mp g1
          rw [hi] at g2; cases g2; exact absurd g3 (Ne.symm hp.ab)
      · have hs' := (hres.frame_sh hp hi h1 h2).2.2
        have hal : ∀ c : Edge, (c = t ∨ c = e) → ∀ k m, c.tgt = .inner k → s.h.sh k = some m →
            m.level = b → k ∈ up := by
          intro c hc k m hck hm hmb
          apply Classical.byContradiction
          intro hku
          have := (hJ.dead k m hm hmb hku).2 i _ hi (Or.inl ⟨h1, h2⟩)
          rcases hc with hc | hc
          · exact this.1 (hc ▸ hck)
          · exact this.2 (hc ▸ hck)
        exact .inner hs' (iht (hal t (Or.inl rfl))) (ihe (hal e (Or.inr rfl)))

theorem ResG.eval (hinv : InvL ext lab pos s) (hul : u < l) (hl : l < lab.length)
    (hgap : ∀ p, u < p → p < l → s.table p = [])
    (ha : lab.getD u 0 = a) (hb : lab.getD l 0 = b)
    (hres : ResG ext pos s u l a b s' up lo) {x : Edge} {v : Bool}
    (hv : Ev s.h.sh σ x v)
    (halive : ∀ k m, x.tgt = .inner k → s.h.sh k = some m → m.level = b → k ∈ up) :
    Ev s'.h.sh σ x v := by
  obtain ⟨w, hw, rfl⟩ := hv
  exact ⟨w, hres.evalN hinv hul hl hgap ha hb hw halive, rfl⟩
end

/-! ## one call of the `swap` closure of `set_var_order` -/

/-- the state of the manager during `set_var_order`: the lazy invariant, the level views that were
empty at the start are still empty, and the level→variable map follows `to_pre` -/
structure RInv (ext : Nat → Nat) (fromNe l2v0 : List Nat) (pos : Nat → Nat) (r : RState) : Prop where
  inv : InvL ext r.toPre pos r.s
  empty : ∀ p, p ∉ fromNe → r.s.table p = []
  l2v_len : r.l2v.length = r.toPre.length
  l2v_eq : ∀ p, p < r.toPre.length → r.l2v.getD p 0 = l2v0.getD (r.toPre.getD p 0) 0

theorem getD_self_eq {lab : List Nat} {p : Nat} (hp : p < lab.length) : lab.getD p p = lab.getD p 0 := by
  simp [List.getD_eq_getElem?_getD, List.getElem?_eq_getElem hp]

theorem levelSwapG_toPre (al : Heap → Nat) (ord : List Nat → List Nat) (r : RState) {u l : Nat}
    (hu : u < r.toPre.length) (hl : l < r.toPre.length) :
    (levelSwapG Rules.bcdd al ord r u l).toPre = swapLab r.toPre u l := by
  simp only [levelSwapG, swapLab, getD_self_eq hu, getD_self_eq hl]

theorem levelSwapG_l2v (al : Heap → Nat) (ord : List Nat → List Nat) (r : RState) (u l : Nat) :
    (levelSwapG Rules.bcdd al ord r u l).l2v = swapLab r.l2v u l := rfl

section
variable {ext : Nat → Nat} {fromNe l2v0 : List Nat} {pos : Nat → Nat} {r : RState} {u l : Nat}
  {al : Heap → Nat} {ord : List Nat → List Nat}

/-- **one `level_swap` of `set_var_order`**: the invariant of the reordering is preserved and
every edge that is still there — in particular every external handle — keeps its value under
every assignment of the labels -/
theorem levelSwapG_spec (hal : AllocOK al) (hord : OrderOK ord) (hr : RInv ext fromNe l2v0 pos r)
    (hul : u < l) (hl : l < r.toPre.length) (hu' : u ∈ fromNe) (hl' : l ∈ fromNe)
    (hgap : ∀ p, u < p → p < l → p ∉ fromNe) :
    ∃ pos', RInv ext fromNe l2v0 pos' (levelSwapG Rules.bcdd al ord r u l) ∧
      ∀ σ x v, Ev r.s.h.sh σ x v →
        (∀ k m, x.tgt = .inner k → r.s.h.sh k = some m → m.level = r.toPre.getD l 0 → 0 < ext k) →
        Ev (levelSwapG Rules.bcdd al ord r u l).s.h.sh σ x v := by
  have hu : u < r.toPre.length := by omega
  have hgap' : ∀ p, u < p → p < l → r.s.table p = [] := fun p h1 h2 => hr.empty p (hgap p h1 h2)
  obtain ⟨up, lo, hres⟩ := levelSwapG_res hal hord hr.inv hul hl hgap' r.l2v
  have hres' := hres.toResG
  have hinv' := hres'.invL hr.inv hul hl hgap' rfl rfl
  refine ⟨swapPos pos (r.toPre.getD u 0) (r.toPre.getD l 0) u l, ⟨?_, ?_, ?_, ?_⟩, ?_⟩
  · show InvL ext (levelSwapG Rules.bcdd al ord r u l).toPre _ (levelSwapG Rules.bcdd al ord ⟨r.s, r.toPre, r.l2v⟩ u l).s
    rw [levelSwapG_toPre al ord r hu hl]; exact hinv'
  · intro p hp
    show (levelSwapG Rules.bcdd al ord ⟨r.s, r.toPre, r.l2v⟩ u l).s.table p = []
    rw [hres'.tables]
    have h1 : p ≠ l := fun h => hp (h ▸ hl')
    have h2 : p ≠ u := fun h => hp (h ▸ hu')
    simp only [h1, h2, if_false]
    exact hr.empty p hp
  · rw [levelSwapG_l2v, levelSwapG_toPre al ord r hu hl, swapLab_length, swapLab_length]
    exact hr.l2v_len
  · intro p hp
    rw [levelSwapG_toPre al ord r hu hl] at hp ⊢
    rw [swapLab_length] at hp
    rw [levelSwapG_l2v, swapLab_getD (hr.l2v_len ▸ hu) (hr.l2v_len ▸ hl), swapLab_getD hu hl]
    by_cases h1 : p = l
    · simp only [h1, if_true]; exact hr.l2v_eq u hu
    · by_cases h2 : p = u
      · simp only [h2, if_true]
        have : ¬ (u = l) := by omega
        simp only [this, if_false]; exact hr.l2v_eq l hl
      · simp only [h1, h2, if_false]; exact hr.l2v_eq p hp
  · intro σ x v hv hal'
    refine hres'.eval hr.inv hul hl hgap' rfl rfl hv (fun k m hk hm hlv => ?_)
    apply Classical.byContradiction
    intro hku
    have h0 := (hres'.j.dead k m hm hlv hku).1
    have := hal' k m hk hm hlv
    omega

/-! ## the first step of `set_var_order`: a sequence of swaps of neighbouring non-empty levels -/

theorem sorted_consecutive {L : List Nat} (hs : L.Pairwise (· < ·)) {i : Nat} (hi : i + 1 < L.length) :
    L.getD i 0 < L.getD (i + 1) 0 ∧ L.getD i 0 ∈ L ∧ L.getD (i + 1) 0 ∈ L ∧
    ∀ p, L.getD i 0 < p → p < L.getD (i + 1) 0 → p ∉ L := by
  have hi0 : i < L.length := by omega
  have e0 : L.getD i 0 = L[i] := by simp [List.getD_eq_getElem?_getD, List.getElem?_eq_getElem hi0]
  have e1 : L.getD (i + 1) 0 = L[i + 1] := by
    simp [List.getD_eq_getElem?_getD, List.getElem?_eq_getElem hi]
  rw [e0, e1]
  have hpw := List.pairwise_iff_getElem.mp hs
  refine ⟨hpw i (i + 1) hi0 hi (by omega), List.getElem_mem _, List.getElem_mem _, ?_⟩
  intro p h1 h2 hp
  obtain ⟨j, hj, rfl⟩ := List.mem_iff_getElem.mp hp
  by_cases c1 : j < i
  · have := hpw j i hj hi0 c1; omega
  · by_cases c2 : j = i
    · subst c2; omega
    · by_cases c3 : j = i + 1
      · subst c3; omega
      · have := hpw (i + 1) j hi hj (by omega); omega

/-- the `swap` closure applied to a list of indices into `from_ne` -/
def swapsG (al : Heap → Nat) (ord : List Nat → List Nat) (fromNe : List Nat) (r : RState)
    (sw : List Nat) : RState :=
  sw.foldl (fun r i => levelSwapG Rules.bcdd al ord r (fromNe.getD i 0) (fromNe.getD (i + 1) 0)) r

theorem levelSwapG_toPre_length (al : Heap → Nat) (ord : List Nat → List Nat) (r : RState) (u l : Nat) :
    (levelSwapG Rules.bcdd al ord r u l).toPre.length = r.toPre.length := by
  simp [levelSwapG]

theorem swapsG_spec (hal : AllocOK al) (hord : OrderOK ord) (hs : fromNe.Pairwise (· < ·))
    (sw : List Nat) (hsw : ∀ i ∈ sw, i + 1 < fromNe.length)
    (hr : RInv ext fromNe l2v0 pos r) (hlt : ∀ p ∈ fromNe, p < r.toPre.length) :
    ∃ pos', RInv ext fromNe l2v0 pos' (swapsG al ord fromNe r sw) ∧
      (swapsG al ord fromNe r sw).toPre.length = r.toPre.length ∧
      ∀ σ g k v, 0 < ext k → Ev r.s.h.sh σ ⟨g, .inner k⟩ v →
        Ev (swapsG al ord fromNe r sw).s.h.sh σ ⟨g, .inner k⟩ v := by
  unfold swapsG
  induction sw generalizing r pos with
  | nil => exact ⟨pos, hr, rfl, fun _ _ _ _ _ h => h⟩
  | cons i rest ih =>
    simp only [List.foldl_cons]
    obtain ⟨h1, h2, h3, h4⟩ := sorted_consecutive hs (hsw i (by simp))
    obtain ⟨pos1, hr1, hev1⟩ := levelSwapG_spec hal hord hr h1 (hlt _ h3) h2 h3 h4
    have hlen := levelSwapG_toPre_length al ord r (fromNe.getD i 0) (fromNe.getD (i + 1) 0)
    obtain ⟨pos2, hr2, hlen2, hev2⟩ := ih (fun j hj => hsw j (by simp [hj])) hr1
      (fun p hp => by rw [hlen]; exact hlt p hp)
    refine ⟨pos2, hr2, hlen2.trans hlen, fun σ g k v hk hv => hev2 σ g k v hk ?_⟩
    exact hev1 σ _ v hv (fun k' m hk' _ _ => by injection hk' with hk'; subst hk'; exact hk)
end

end OxiddModel.Reorder.SwapStoreC
