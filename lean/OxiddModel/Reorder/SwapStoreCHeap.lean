import OxiddModel.Reorder.SwapStoreC

/-!
# Heap lemmas for the store-level `level_swap` model with tagged edges (port of `SwapStoreHeap.lean`)

`get?_put`, `refs_put` (the parent-edge count changes by the difference of the overwritten slot),
and the effect of every primitive on the *shape* `Heap.sh` (level and children of a slot) and on
the *reference counter* `Heap.rcOf` of every slot.
-/
namespace OxiddModel.Reorder.SwapStoreC
open OxiddModel.Bcdd.Refine (EdgeC Tgt)

/-- level and children of slot `j` -/
def Heap.sh (h : Heap) (j : Nat) : Option Node := (h.get? j).map SNode.toNode

/-- the reference counter of slot `j` (0 for a free slot) -/
def Heap.rcOf (h : Heap) (j : Nat) : Nat :=
  match h.get? j with
  | some n => n.rc
  | none => 0

theorem get?_put (h : Heap) (i j : Nat) (o : Option SNode) :
    (h.put i o).get? j = if j = i then o else h.get? j := by
  unfold Heap.put Heap.get?
  by_cases hi : i < h.slots.length
  · simp only [hi, if_true, List.getElem?_set]
    by_cases hj : j = i
    · subst hj; simp
    · simp [hj, Ne.symm hj]
  · simp only [hi, if_false]
    by_cases hj : j = i
    · subst hj
      have : j = (h.slots ++ List.replicate (j - h.slots.length) none).length := by
        simp; omega
      rw [if_pos rfl, List.getElem?_append_right (by simp; omega)]
      have h0 : j - (h.slots ++ List.replicate (j - h.slots.length) none).length = 0 := by
        simp; omega
      rw [h0]; rfl
    · rw [if_neg hj]
      by_cases hlt : j < h.slots.length
      · rw [List.append_assoc, List.getElem?_append_left hlt]
      · have hn : h.slots[j]? = none := by simp; omega
        rw [hn]
        by_cases hji : j < i
        · rw [List.getElem?_append_left (by simp; omega), List.getElem?_append_right (by omega)]
          rw [List.getElem?_replicate]
          split <;> rfl
        · rw [List.getElem?_eq_none (by simp; omega)]

theorem get?_firstFree (h : Heap) : h.get? h.firstFree = none := by
  unfold Heap.firstFree Heap.get?
  by_cases hlt : h.slots.findIdx (· == none) < h.slots.length
  · have := List.findIdx_getElem (xs := h.slots) (p := (· == none)) (w := hlt)
    simp only [beq_iff_eq] at this
    rw [List.getElem?_eq_getElem hlt, this]; rfl
  · rw [List.getElem?_eq_none (by omega)]; rfl

/-! ## parent-edge counts -/

theorem sum_map_set {α : Type} (f : α → Nat) (l : List α) (i : Nat) (a : α) (hi : i < l.length) :
    ((l.set i a).map f).sum + f l[i] = (l.map f).sum + f a := by
  induction l generalizing i with
  | nil => simp at hi
  | cons x xs ih =>
    cases i with
    | zero => simp; omega
    | succ i =>
      simp at hi
      have := ih i hi
      simp only [List.set_cons_succ, List.map_cons, List.sum_cons, List.getElem_cons_succ]
      omega

theorem cntO_get?_none {h : Heap} {p i : Nat} (hp : ¬ p < h.slots.length) :
    cntO (h.get? p) i = 0 := by
  unfold Heap.get?
  rw [List.getElem?_eq_none (by omega)]; rfl

theorem refs_put (h : Heap) (p i : Nat) (o : Option SNode) :
    (h.put p o).refs i + cntO (h.get? p) i = h.refs i + cntO o i := by
  unfold Heap.put Heap.refs
  by_cases hp : p < h.slots.length
  · simp only [hp, if_true]
    have := sum_map_set (cntO · i) h.slots p o hp
    have hg : h.get? p = h.slots[p] := by
      unfold Heap.get?; rw [List.getElem?_eq_getElem hp]; rfl
    rw [hg]; exact this
  · simp only [hp, if_false]
    rw [cntO_get?_none hp]
    have : ((List.replicate (p - h.slots.length) (none : Option SNode)).map (cntO · i)).sum = 0 := by
      generalize p - h.slots.length = k
      induction k with
      | zero => rfl
      | succ k ih => simp [List.replicate_succ, cntO] at ih ⊢
    simp only [List.map_append, List.sum_append, this]
    simp

theorem cntO_le_refs (h : Heap) (p i : Nat) : cntO (h.get? p) i ≤ h.refs i := by
  unfold Heap.refs Heap.get?
  by_cases hp : p < h.slots.length
  · rw [List.getElem?_eq_getElem hp]
    have : ∀ (l : List (Option SNode)) (p : Nat) (hp : p < l.length),
        cntO l[p] i ≤ (l.map (cntO · i)).sum := by
      intro l
      induction l with
      | nil => intro p hp; simp at hp
      | cons x xs ih =>
        intro p hp
        cases p with
        | zero => simp
        | succ p => simp at hp; have := ih p hp; simp; omega
    exact this _ _ hp
  · rw [List.getElem?_eq_none (by omega)]; simp [cntO]

end OxiddModel.Reorder.SwapStoreC

namespace OxiddModel.Reorder.SwapStoreC
open OxiddModel.Bcdd.Refine (EdgeC Tgt)

/-! ## shape / counter view of `put` -/

theorem sh_put (h : Heap) (i j : Nat) (o : Option SNode) :
    (h.put i o).sh j = if j = i then o.map SNode.toNode else h.sh j := by
  unfold Heap.sh; rw [get?_put]; split <;> rfl

theorem rcOf_put (h : Heap) (i j : Nat) (o : Option SNode) :
    (h.put i o).rcOf j = if j = i then (match o with | some n => n.rc | none => 0) else h.rcOf j := by
  unfold Heap.rcOf; rw [get?_put]
  by_cases hj : j = i <;> simp [hj]

theorem sh_eq_none {h : Heap} {j : Nat} : h.sh j = none ↔ h.get? j = none := by
  unfold Heap.sh; cases h.get? j <;> simp

theorem sh_eq_some {h : Heap} {j : Nat} {n : Node} :
    h.sh j = some n ↔ ∃ m, h.get? j = some m ∧ m.toNode = n := by
  unfold Heap.sh; cases h.get? j <;> simp

theorem rcOf_of_get? {h : Heap} {j : Nat} {m : SNode} (hm : h.get? j = some m) :
    h.rcOf j = m.rc := by
  unfold Heap.rcOf; rw [hm]

theorem rcOf_of_none {h : Heap} {j : Nat} (hm : h.get? j = none) : h.rcOf j = 0 := by
  unfold Heap.rcOf; rw [hm]

/-- the child-edge count only depends on the shape -/
def cntS (o : Option Node) (i : Nat) : Nat :=
  match o with
  | some n => pt n.t i + pt n.e i
  | none => 0

theorem cntO_eq_cntS (o : Option SNode) (i : Nat) : cntO o i = cntS (o.map SNode.toNode) i := by
  cases o <;> rfl

theorem refs_put' (h : Heap) (p i : Nat) (o : Option SNode) :
    (h.put p o).refs i + cntS (h.sh p) i = h.refs i + cntS (o.map SNode.toNode) i := by
  have := refs_put h p i o
  rw [cntO_eq_cntS, cntO_eq_cntS] at this
  exact this

theorem refs_put_same (h : Heap) (p : Nat) (o : Option SNode) (hs : o.map SNode.toNode = h.sh p)
    (i : Nat) : (h.put p o).refs i = h.refs i := by
  have := refs_put' h p i o
  rw [hs] at this; omega

theorem cntS_le_refs (h : Heap) (p i : Nat) : cntS (h.sh p) i ≤ h.refs i := by
  have := cntO_le_refs h p i
  rw [cntO_eq_cntS] at this; exact this

/-- a slot that is the child of a live slot has a positive parent count -/
theorem refs_pos_of_child {h : Heap} {p i : Nat} {n : Node} (hp : h.sh p = some n)
    (hc : n.t.tgt = .inner i ∨ n.e.tgt = .inner i) : 0 < h.refs i := by
  have := cntS_le_refs h p i
  rw [hp] at this
  simp only [cntS, pt] at this
  rcases hc with hc | hc <;> simp [hc] at this <;> omega

theorem no_child_of_refs_zero {h : Heap} {i : Nat} (hz : h.refs i = 0) {p : Nat} {n : Node}
    (hp : h.sh p = some n) : n.t.tgt ≠ .inner i ∧ n.e.tgt ≠ .inner i := by
  constructor <;> intro hc
  · have := refs_pos_of_child hp (Or.inl hc); omega
  · have := refs_pos_of_child hp (Or.inr hc); omega

/-! ## `clone_edge` / `drop_edge` -/

theorem sh_incRc (h : Heap) (x : Edge) : (incRc h x).sh = h.sh := by
  funext j
  unfold incRc
  cases hx : x.tgt with
  | term => rfl
  | inner i =>
    simp only
    cases hi : h.get? i with
    | none => rfl
    | some n =>
      simp only [sh_put]
      split
      · rename_i hj; subst hj; simp [Heap.sh, hi, SNode.toNode]
      · rfl

theorem sh_decRc (h : Heap) (x : Edge) : (decRc h x).sh = h.sh := by
  funext j
  unfold decRc
  cases hx : x.tgt with
  | term => rfl
  | inner i =>
    simp only
    cases hi : h.get? i with
    | none => rfl
    | some n =>
      simp only [sh_put]
      split
      · rename_i hj; subst hj; simp [Heap.sh, hi, SNode.toNode]
      · rfl

theorem refs_incRc (h : Heap) (x : Edge) : (incRc h x).refs = h.refs := by
  funext j
  unfold incRc
  cases hx : x.tgt with
  | term => rfl
  | inner i =>
    simp only
    cases hi : h.get? i with
    | none => rfl
    | some n => exact refs_put_same _ _ _ (by simp [Heap.sh, hi, SNode.toNode]) _

theorem refs_decRc (h : Heap) (x : Edge) : (decRc h x).refs = h.refs := by
  funext j
  unfold decRc
  cases hx : x.tgt with
  | term => rfl
  | inner i =>
    simp only
    cases hi : h.get? i with
    | none => rfl
    | some n => exact refs_put_same _ _ _ (by simp [Heap.sh, hi, SNode.toNode]) _

theorem pt_inner {x : Edge} {i : Nat} (hx : x.tgt = .inner i) (j : Nat) :
    pt x j = if j = i then 1 else 0 := by
  unfold pt; rw [hx]
  by_cases hj : j = i
  · subst hj; simp
  · have : ¬ (Tgt.inner i = Tgt.inner j) := by intro h'; injection h' with h'; exact hj h'.symm
    simp [hj, this]

theorem pt_term {x : Edge} (hx : x.tgt = .term) (j : Nat) : pt x j = 0 := by
  unfold pt; rw [hx]; simp

theorem rcOf_incRc (h : Heap) (x : Edge) (hl : ∀ k, x.tgt = .inner k → h.get? k ≠ none) (j : Nat) :
    (incRc h x).rcOf j = h.rcOf j + pt x j := by
  unfold incRc
  cases hx : x.tgt with
  | term => simp [pt_term hx]
  | inner i =>
    simp only [pt_inner hx]
    cases hi : h.get? i with
    | none => exact absurd hi (hl i hx)
    | some n =>
      simp only [rcOf_put]
      by_cases hj : j = i
      · subst hj; simp [rcOf_of_get? hi]
      · simp [hj]

theorem rcOf_decRc (h : Heap) (x : Edge) (j : Nat) :
    (decRc h x).rcOf j = h.rcOf j - pt x j := by
  unfold decRc
  cases hx : x.tgt with
  | term => simp [pt_term hx]
  | inner i =>
    simp only [pt_inner hx]
    cases hi : h.get? i with
    | none =>
      by_cases hj : j = i
      · subst hj; simp [rcOf_of_none hi]
      · simp [hj]
    | some n =>
      simp only [rcOf_put]
      by_cases hj : j = i
      · subst hj; simp [rcOf_of_get? hi]
      · simp [hj]

/-! ## the reference-count equation

`RCx w h`: the counter of every slot equals its *weight* (table entries + external handles +
owned edges in local variables) plus the number of parent edges; free slots count as 0, so the
equation also says that nothing refers to a free slot. -/

def RCx (w : Nat → Nat) (h : Heap) : Prop := ∀ j, h.rcOf j = w j + h.refs j

theorem RCx.congr {w w' : Nat → Nat} {h : Heap} (hr : RCx w h) (hw : ∀ j, w' j = w j) :
    RCx w' h := fun j => by rw [hw]; exact hr j

theorem RCx.live {w : Nat → Nat} {h : Heap} (hr : RCx w h) {j : Nat}
    (hp : 0 < w j + h.refs j) : h.get? j ≠ none := by
  intro hn
  have := hr j
  rw [rcOf_of_none hn] at this; omega

theorem RCx.live_child {w : Nat → Nat} {h : Heap} (hr : RCx w h) {p : Nat} {n : Node}
    (hp : h.sh p = some n) {k : Nat} (hc : n.t.tgt = .inner k ∨ n.e.tgt = .inner k) :
    h.get? k ≠ none :=
  hr.live (by have := refs_pos_of_child hp hc; omega)

theorem RCx.incRc {w : Nat → Nat} {h : Heap} (hr : RCx w h) (x : Edge)
    (hl : ∀ k, x.tgt = .inner k → h.get? k ≠ none) :
    RCx (fun j => w j + pt x j) (incRc h x) := by
  intro j
  show _ = w j + pt x j + _
  rw [rcOf_incRc h x hl, refs_incRc, hr j]; omega

theorem RCx.decRc {w : Nat → Nat} {h : Heap} (x : Edge)
    (hr : RCx (fun j => w j + pt x j) h) : RCx w (decRc h x) := by
  intro j
  have := hr j
  simp only [] at this
  rw [rcOf_decRc, refs_decRc, this]; omega

end OxiddModel.Reorder.SwapStoreC
