import OxiddModel.Reorder.SwapStoreCHeap

/-!
# The loop invariant of `level_swap` with complement edges, on shapes (port of `SwapStoreInv.lean`)

`J` describes the heap *shape* (level and children of every slot, no counters) and the two new
tables during the loop, relative to the shape `sh0` at entry; `todo` is the part of the old upper
table that has not been visited yet. The four *micro steps* the loop body is made of
(`J.move`, `J.alloc`, `J.rewrite`, `J.remove`) preserve it.
-/
namespace OxiddModel.Reorder.SwapStoreC
open OxiddModel.Bcdd.Refine (EdgeC Tgt)

/-- pointwise update -/
def upd {α : Type} (f : Nat → α) (i : Nat) (v : α) : Nat → α := fun k => if k = i then v else f k

@[simp] theorem upd_same {α : Type} (f : Nat → α) (i : Nat) (v : α) : upd f i v i = v := by simp [upd]
theorem upd_ne {α : Type} (f : Nat → α) {i k : Nat} (v : α) (h : k ≠ i) : upd f i v k = f k := by
  simp [upd, h]

theorem sh_put_upd (h : Heap) (i : Nat) (o : Option SNode) :
    (h.put i o).sh = upd h.sh i (o.map SNode.toNode) := by
  funext j; rw [sh_put]; rfl

section
variable (a b : Nat) (P : Nat → Prop) (sh0 : Nat → Option Node)

/-- the edge points below both levels: a terminal or a node whose level is neither `a` nor `b` -/
def Bel (c : Edge) : Prop :=
  match c.tgt with
  | .term => True
  | .inner k => ∃ n, sh0 k = some n ∧ n.level ≠ a ∧ n.level ≠ b ∧ P n.level

/-- the edge points to a node of level `b` -/
def AtB (c : Edge) : Prop := ∃ k n, c.tgt = .inner k ∧ sh0 k = some n ∧ n.level = b

/-- the cofactors w.r.t. level `b` in the entry shape -/
def cof0 (c : Edge) : Edge × Edge :=
  match c.tgt with
  | .inner k =>
    match sh0 k with
    | some m => if m.level = b then (push c.neg m.t, push c.neg m.e) else (c, c)
    | none => (c, c)
  | .term => (c, c)

/-- what the entry store has to satisfy around the two levels -/
structure Pre (old : List Nat) : Prop where
  ab : a ≠ b
  old_iff : ∀ i, i ∈ old ↔ ∃ n, sh0 i = some n ∧ n.level = a
  old_nodup : old.Nodup
  lowKids : ∀ i n, sh0 i = some n → n.level = b → Bel a b P sh0 n.t ∧ Bel a b P sh0 n.e
  upKids : ∀ i n, sh0 i = some n → n.level = a →
    (Bel a b P sh0 n.t ∨ AtB b sh0 n.t) ∧ (Bel a b P sh0 n.e ∨ AtB b sh0 n.e)
  nored : ∀ i n, sh0 i = some n → n.t ≠ n.e
  uniq : ∀ i j n, sh0 i = some n → sh0 j = some n → i = j
  /-- the then-edge of every stored node is regular -/
  thenReg : ∀ i n, sh0 i = some n → n.t.neg = false

/-- the result of `reduce` (complement-edge rules) + lookups for the grandchildren `(x, y)`: the
new node has the children `(x, y)` with the tag of `x` moved to the returned edge -/
def MkR (sh : Nat → Option Node) (lo todo : List Nat) (x y c : Edge) : Prop :=
  (x = y ∧ c = x) ∨ (x ≠ y ∧ ∃ j, (j ∈ lo ∨ j ∈ todo) ∧ c = ⟨x.neg, .inner j⟩ ∧
    sh j = some ⟨a, ⟨false, x.tgt⟩, push x.neg y⟩)

/-- a node of the old lower level that is still there -/
def SurvL (sh : Nat → Option Node) (i : Nat) : Prop :=
  ∃ n, sh0 i = some n ∧ n.level = b ∧ sh i = some n

/-- a rewritten node of the old upper level -/
def Rew (old : List Nat) (sh : Nat → Option Node) (lo todo : List Nat) (i : Nat) : Prop :=
  i ∈ old ∧ i ∉ todo ∧ ∃ n c1 c2, sh0 i = some n ∧ ¬ (Bel a b P sh0 n.t ∧ Bel a b P sh0 n.e) ∧
    sh i = some ⟨b, c1, c2⟩ ∧
    MkR a sh lo todo (cof0 b sh0 n.t).1 (cof0 b sh0 n.e).1 c1 ∧
    MkR a sh lo todo (cof0 b sh0 n.t).2 (cof0 b sh0 n.e).2 c2

structure J (old : List Nat) (ext : Nat → Nat) (sh : Nat → Option Node) (up lo todo : List Nat) :
    Prop where
  frame : ∀ k n, sh0 k = some n → n.level ≠ a → n.level ≠ b → sh k = some n
  todoSh : ∀ i ∈ todo, i ∈ old ∧ sh i = sh0 i
  upC : ∀ i ∈ up, SurvL b sh0 sh i ∨ Rew a b P sh0 old sh lo todo i
  loC : ∀ j ∈ lo, ∃ x y, sh j = some ⟨a, x, y⟩ ∧ x.neg = false ∧ Bel a b P sh0 x ∧ Bel a b P sh0 y ∧ x ≠ y ∧
    (j ∈ old → sh0 j = sh j) ∧ (j ∉ old → sh0 j = none ∨ ∃ n, sh0 j = some n ∧ n.level = b)
  loU : ∀ j ∈ lo, ∀ k ∈ lo, sh j = sh k → j = k
  loT : ∀ j ∈ lo, ∀ i ∈ todo, sh j ≠ sh i
  ndUp : up.Nodup
  ndLo : lo.Nodup
  ndTodo : todo.Nodup
  dUL : ∀ k, k ∈ up → k ∉ lo
  dUT : ∀ k, k ∈ up → k ∉ todo
  dLT : ∀ k, k ∈ lo → k ∉ todo
  oldC : ∀ i ∈ old, i ∈ todo ∨ i ∈ lo ∨ i ∈ up
  live : ∀ k, sh k ≠ none →
    (∃ n, sh0 k = some n ∧ n.level ≠ a ∧ n.level ≠ b) ∨ k ∈ todo ∨ k ∈ up ∨ k ∈ lo
  dead : ∀ i n, sh0 i = some n → n.level = b → i ∉ up →
    ext i = 0 ∧ ∀ p m, sh0 p = some m → ((m.level ≠ a ∧ m.level ≠ b) ∨ p ∈ todo) →
      m.t.tgt ≠ .inner i ∧ m.e.tgt ≠ .inner i

end

section
variable {a b : Nat} {P : Nat → Prop} {sh0 : Nat → Option Node} {old : List Nat} {ext : Nat → Nat}

theorem MkR.mono {sh sh' : Nat → Option Node} {lo lo' todo todo' : List Nat} {x y c : Edge}
    (h : MkR a sh lo todo x y c)
    (hm : ∀ j, (j ∈ lo ∨ j ∈ todo) → sh j = some ⟨a, ⟨false, x.tgt⟩, push x.neg y⟩ →
      (j ∈ lo' ∨ j ∈ todo') ∧ sh' j = sh j) :
    MkR a sh' lo' todo' x y c := by
  rcases h with h | ⟨hne, j, hj, hc, hs⟩
  · exact Or.inl h
  · have := hm j hj hs
    exact Or.inr ⟨hne, j, this.1, hc, this.2 ▸ hs⟩

theorem J.up_live {sh : Nat → Option Node} {up lo todo : List Nat}
    (hj : J a b P sh0 old ext sh up lo todo) {i : Nat} (hi : i ∈ up) : sh i ≠ none := by
  rcases hj.upC i hi with ⟨n, _, _, h⟩ | ⟨_, _, n, c1, c2, _, _, h, _⟩ <;> simp [h]

theorem J.lo_live {sh : Nat → Option Node} {up lo todo : List Nat}
    (hj : J a b P sh0 old ext sh up lo todo) {i : Nat} (hi : i ∈ lo) : sh i ≠ none := by
  obtain ⟨x, y, h, _⟩ := hj.loC i hi; simp [h]

theorem J.todo_live {sh : Nat → Option Node} {up lo todo : List Nat} (hp : Pre a b P sh0 old)
    (hj : J a b P sh0 old ext sh up lo todo) {i : Nat} (hi : i ∈ todo) :
    ∃ n, sh i = some n ∧ sh0 i = some n ∧ n.level = a := by
  obtain ⟨ho, hs⟩ := hj.todoSh i hi
  obtain ⟨n, hn, hl⟩ := (hp.old_iff i).mp ho
  exact ⟨n, hs ▸ hn, hn, hl⟩


theorem J.move {sh : Nat → Option Node} {up lo todo : List Nat} {i : Nat} {n : Node}
    (hp : Pre a b P sh0 old) (hj : J a b P sh0 old ext sh up lo (i :: todo))
    (hn : sh0 i = some n) (ht : Bel a b P sh0 n.t) (he : Bel a b P sh0 n.e) :
    J a b P sh0 old ext sh up (i :: lo) todo := by
  have hit : i ∉ todo := (List.nodup_cons.mp hj.ndTodo).1
  obtain ⟨hio, hsi⟩ := hj.todoSh i (by simp)
  have hla : n.level = a := by
    obtain ⟨n', hn', hl⟩ := (hp.old_iff i).mp hio
    rw [hn] at hn'; cases hn'; exact hl
  refine
    { frame := hj.frame
      todoSh := fun k hk => hj.todoSh k (by simp [hk])
      upC := ?_, loC := ?_, loU := ?_, loT := ?_
      ndUp := hj.ndUp
      ndLo := ?_
      ndTodo := (List.nodup_cons.mp hj.ndTodo).2
      dUL := ?_, dUT := ?_, dLT := ?_, oldC := ?_, live := ?_, dead := ?_ }
  · intro k hk
    rcases hj.upC k hk with h | ⟨h1, h2, n', c1, c2, h3, h4, h5, h6, h7⟩
    · exact Or.inl h
    · refine Or.inr ⟨h1, fun h => h2 (by simp [h]), n', c1, c2, h3, h4, h5, ?_, ?_⟩
      · exact h6.mono (fun j hj _ => ⟨by grind, rfl⟩)
      · exact h7.mono (fun j hj _ => ⟨by grind, rfl⟩)
  · intro j hjl
    rcases List.mem_cons.mp hjl with rfl | hjl
    · refine ⟨n.t, n.e, ?_, hp.thenReg _ _ hn, ht, he, hp.nored _ _ hn, fun _ => hsi.symm,
        fun h => absurd hio h⟩
      rw [hsi, hn, ← hla]
    · exact hj.loC j hjl
  · intro j hj1 k hk1 hjk
    rcases List.mem_cons.mp hj1 with hji | hj2 <;> rcases List.mem_cons.mp hk1 with hki | hk2
    · rw [hji, hki]
    · subst hji; exact absurd hjk.symm (hj.loT k hk2 _ (by simp))
    · subst hki; exact absurd hjk (hj.loT j hj2 _ (by simp))
    · exact hj.loU j hj2 k hk2 hjk
  · intro j hj1 k hk hjk
    rcases List.mem_cons.mp hj1 with rfl | hj1
    · obtain ⟨hko, hsk⟩ := hj.todoSh k (by simp [hk])
      rw [hsi, hsk] at hjk
      obtain ⟨nk, hnk, _⟩ := (hp.old_iff k).mp hko
      have := hp.uniq j k n hn (hjk ▸ hn)
      exact hit (this ▸ hk)
    · exact hj.loT j hj1 k (by simp [hk]) hjk
  · exact List.nodup_cons.mpr ⟨fun h => hj.dLT i h (by simp), hj.ndLo⟩
  · intro k hk hkl
    rcases List.mem_cons.mp hkl with rfl | hkl
    · exact hj.dUT k hk (by simp)
    · exact hj.dUL k hk hkl
  · intro k hk hkt; exact hj.dUT k hk (by simp [hkt])
  · intro k hk hkt
    rcases List.mem_cons.mp hk with rfl | hk
    · exact hit hkt
    · exact hj.dLT k hk (by simp [hkt])
  · intro k hk
    rcases hj.oldC k hk with h | h | h
    · rcases List.mem_cons.mp h with rfl | h
      · exact Or.inr (Or.inl (by simp))
      · exact Or.inl h
    · exact Or.inr (Or.inl (by simp [h]))
    · exact Or.inr (Or.inr h)
  · intro k hk
    rcases hj.live k hk with h | h | h | h
    · exact Or.inl h
    · rcases List.mem_cons.mp h with rfl | h
      · exact Or.inr (Or.inr (Or.inr (by simp)))
      · exact Or.inr (Or.inl h)
    · exact Or.inr (Or.inr (Or.inl h))
    · exact Or.inr (Or.inr (Or.inr (by simp [h])))
  · intro k nk hnk hl hku
    obtain ⟨h1, h2⟩ := hj.dead k nk hnk hl hku
    exact ⟨h1, fun p m hm hc => h2 p m hm (by rcases hc with h | h; exact Or.inl h; exact Or.inr (by simp [h]))⟩


theorem J.alloc {sh : Nat → Option Node} {up lo todo : List Nat} {j : Nat} {x y : Edge}
    (hp : Pre a b P sh0 old) (hj : J a b P sh0 old ext sh up lo todo)
    (hfree : sh j = none) (hxy : x ≠ y) (hxr : x.neg = false) (hx : Bel a b P sh0 x)
    (hy : Bel a b P sh0 y)
    (hno : ∀ k, (k ∈ old ∨ k ∈ lo) → ∀ l, sh k ≠ some ⟨l, x, y⟩) :
    J a b P sh0 old ext (upd sh j (some ⟨a, x, y⟩)) up (j :: lo) todo := by
  have hsame : ∀ k, sh k ≠ none → upd sh j (some ⟨a, x, y⟩) k = sh k := fun k hk =>
    upd_ne _ _ (fun h => hk (h ▸ hfree))
  have hju : j ∉ up := fun h => hj.up_live h hfree
  have hjl : j ∉ lo := fun h => hj.lo_live h hfree
  have hjt : j ∉ todo := fun h => by
    obtain ⟨n, h1, _⟩ := hj.todo_live hp h; rw [hfree] at h1; cases h1
  have hjo : j ∉ old := fun h => by
    rcases hj.oldC j h with h | h | h
    · exact hjt h
    · exact hjl h
    · exact hju h
  refine
    { frame := fun k n h1 h2 h3 => by rw [hsame k (by rw [hj.frame k n h1 h2 h3]; simp)]; exact hj.frame k n h1 h2 h3
      todoSh := fun k hk => ?_
      upC := ?_, loC := ?_, loU := ?_, loT := ?_
      ndUp := hj.ndUp
      ndLo := List.nodup_cons.mpr ⟨hjl, hj.ndLo⟩
      ndTodo := hj.ndTodo
      dUL := ?_, dUT := hj.dUT, dLT := ?_, oldC := ?_, live := ?_, dead := hj.dead }
  · obtain ⟨h1, h2⟩ := hj.todoSh k hk
    obtain ⟨n, h3, _⟩ := hj.todo_live hp hk
    exact ⟨h1, by rw [hsame k (by simp [h3])]; exact h2⟩
  · intro k hk
    have hkl := hj.up_live hk
    rcases hj.upC k hk with ⟨n, h1, h2, h3⟩ | ⟨h1, h2, n', c1, c2, h3, h4, h5, h6, h7⟩
    · exact Or.inl ⟨n, h1, h2, by rw [hsame k hkl]; exact h3⟩
    · refine Or.inr ⟨h1, h2, n', c1, c2, h3, h4, by rw [hsame k hkl]; exact h5, ?_, ?_⟩
      · exact h6.mono (fun m hm hs => ⟨by simp; grind, hsame m (by simp [hs])⟩)
      · exact h7.mono (fun m hm hs => ⟨by simp; grind, hsame m (by simp [hs])⟩)
  · intro k hk
    rcases List.mem_cons.mp hk with rfl | hk
    · refine ⟨x, y, by simp, hxr, hx, hy, hxy, fun h => absurd h hjo, fun _ => ?_⟩
      cases h0 : sh0 k with
      | none => exact Or.inl rfl
      | some n =>
        right
        refine ⟨n, rfl, ?_⟩
        by_cases hb : n.level = b
        · exact hb
        · by_cases ha : n.level = a
          · exact absurd ((hp.old_iff k).mpr ⟨n, h0, ha⟩) hjo
          · have := hj.frame k n h0 ha hb; rw [hfree] at this; cases this
    · rw [hsame k (hj.lo_live hk)]; exact hj.loC k hk
  · intro k hk m hm hkm
    rcases List.mem_cons.mp hk with hkj | hk2 <;> rcases List.mem_cons.mp hm with hmj | hm2
    · rw [hkj, hmj]
    · subst hkj
      rw [hsame m (hj.lo_live hm2), upd_same] at hkm
      exact absurd hkm.symm (hno m (Or.inr hm2) a)
    · subst hmj
      rw [hsame k (hj.lo_live hk2), upd_same] at hkm
      exact absurd hkm (hno k (Or.inr hk2) a)
    · rw [hsame k (hj.lo_live hk2), hsame m (hj.lo_live hm2)] at hkm
      exact hj.loU k hk2 m hm2 hkm
  · intro k hk i hi hki
    obtain ⟨n, h3, _⟩ := hj.todo_live hp hi
    rw [hsame i (by simp [h3])] at hki
    rcases List.mem_cons.mp hk with hkj | hk2
    · subst hkj
      rw [upd_same] at hki
      exact hno i (Or.inl (hj.todoSh i hi).1) a hki.symm
    · rw [hsame k (hj.lo_live hk2)] at hki
      exact hj.loT k hk2 i hi hki
  · intro k hk hkl
    rcases List.mem_cons.mp hkl with rfl | hkl
    · exact hju hk
    · exact hj.dUL k hk hkl
  · intro k hk hkt
    rcases List.mem_cons.mp hk with rfl | hk
    · exact hjt hkt
    · exact hj.dLT k hk hkt
  · intro k hk
    rcases hj.oldC k hk with h | h | h
    · exact Or.inl h
    · exact Or.inr (Or.inl (by simp [h]))
    · exact Or.inr (Or.inr h)
  · intro k hk
    by_cases hkj : k = j
    · subst hkj; exact Or.inr (Or.inr (Or.inr (by simp)))
    · rw [upd_ne _ _ hkj] at hk
      rcases hj.live k hk with h | h | h | h
      · exact Or.inl h
      · exact Or.inr (Or.inl h)
      · exact Or.inr (Or.inr (Or.inl h))
      · exact Or.inr (Or.inr (Or.inr (by simp [h])))

theorem Bel_of_tgt {c c' : Edge} (h : c.tgt = c'.tgt) : Bel a b P sh0 c ↔ Bel a b P sh0 c' := by
  unfold Bel; rw [h]

theorem Bel_push (g : Bool) (e : Edge) : Bel a b P sh0 (push g e) ↔ Bel a b P sh0 e :=
  Bel_of_tgt rfl

theorem Bel_inner {c : Edge} {k : Nat} (h : c.tgt = .inner k) :
    Bel a b P sh0 c ↔ ∃ n, sh0 k = some n ∧ n.level ≠ a ∧ n.level ≠ b ∧ P n.level := by
  unfold Bel; rw [h]

theorem Bel_term {c : Edge} (h : c.tgt = .term) : Bel a b P sh0 c := by
  unfold Bel; rw [h]; trivial

theorem bel_cof0 (hp : Pre a b P sh0 old) {c : Edge} (hc : Bel a b P sh0 c ∨ AtB b sh0 c) :
    Bel a b P sh0 (cof0 b sh0 c).1 ∧ Bel a b P sh0 (cof0 b sh0 c).2 := by
  rcases hc with hc | ⟨k, n, hk, hn, hl⟩
  · cases hct : c.tgt with
    | term => simp only [cof0, hct]; exact ⟨hc, hc⟩
    | inner k =>
      obtain ⟨n, hn, h1, h2, h3⟩ := (Bel_inner hct).mp hc
      simp only [cof0, hct, hn, h2, if_false]
      exact ⟨hc, hc⟩
  · simp only [cof0, hk, hn, hl, if_true]
    have := hp.lowKids k n hn hl
    exact ⟨(Bel_push _ _).mpr this.1, (Bel_push _ _).mpr this.2⟩

theorem cof0_of_bel {c : Edge} (hc : Bel a b P sh0 c) : cof0 b sh0 c = (c, c) := by
  cases hct : c.tgt with
  | term => simp only [cof0, hct]
  | inner k =>
    obtain ⟨n, hn, h1, h2, _⟩ := (Bel_inner hct).mp hc
    simp only [cof0, hct, hn, h2, if_false]

theorem not_bel_of_atB {c : Edge} (hc : AtB b sh0 c) : ¬ Bel a b P sh0 c := by
  obtain ⟨k, n, hk, hn, hl⟩ := hc
  intro hb
  obtain ⟨n', hn', _, h2, _⟩ := (Bel_inner hk).mp hb
  rw [hn] at hn'; cases hn'; exact h2 hl

theorem J.rewrite {sh : Nat → Option Node} {up lo todo : List Nat} {i : Nat} {n : Node}
    {c1 c2 : Edge}
    (hp : Pre a b P sh0 old) (hj : J a b P sh0 old ext sh up lo (i :: todo))
    (hn : sh0 i = some n) (hnb : ¬ (Bel a b P sh0 n.t ∧ Bel a b P sh0 n.e))
    (h1 : MkR a sh lo (i :: todo) (cof0 b sh0 n.t).1 (cof0 b sh0 n.e).1 c1)
    (h2 : MkR a sh lo (i :: todo) (cof0 b sh0 n.t).2 (cof0 b sh0 n.e).2 c2) :
    J a b P sh0 old ext (upd sh i (some ⟨b, c1, c2⟩)) (i :: up) lo todo := by
  have hit : i ∉ todo := (List.nodup_cons.mp hj.ndTodo).1
  obtain ⟨hio, hsi⟩ := hj.todoSh i (by simp)
  have hla : n.level = a := by
    obtain ⟨n', hn', hl⟩ := (hp.old_iff i).mp hio
    rw [hn] at hn'; cases hn'; exact hl
  have hiu : i ∉ up := fun h => hj.dUT i h (by simp)
  have hil : i ∉ lo := fun h => hj.dLT i h (by simp)
  have hsame : ∀ k, k ≠ i → upd sh i (some ⟨b, c1, c2⟩) k = sh k := fun k hk => upd_ne _ _ hk
  have hni : ∀ x y, Bel a b P sh0 x → Bel a b P sh0 y → sh i ≠ some ⟨a, x, y⟩ := by
    intro x y hx hy h
    rw [hsi, hn] at h; cases h; exact hnb ⟨hx, hy⟩
  -- monotonicity of `MkR` for Bel grandchildren
  have hmk : ∀ {x y c : Edge}, Bel a b P sh0 x → Bel a b P sh0 y → MkR a sh lo (i :: todo) x y c →
      MkR a (upd sh i (some ⟨b, c1, c2⟩)) lo todo x y c := by
    intro x y c hx hy h
    refine h.mono (fun m hm hs => ?_)
    have hmi : m ≠ i := fun h' =>
      hni _ _ ((Bel_of_tgt (c := ⟨false, x.tgt⟩) rfl).mpr hx) ((Bel_push _ _).mpr hy) (h' ▸ hs)
    refine ⟨?_, hsame m hmi⟩
    rcases hm with hm | hm
    · exact Or.inl hm
    · rcases List.mem_cons.mp hm with hm | hm
      · exact absurd hm hmi
      · exact Or.inr hm
  have hcofs : ∀ k n', k ∈ old → sh0 k = some n' →
      (Bel a b P sh0 (cof0 b sh0 n'.t).1 ∧ Bel a b P sh0 (cof0 b sh0 n'.t).2) ∧
      (Bel a b P sh0 (cof0 b sh0 n'.e).1 ∧ Bel a b P sh0 (cof0 b sh0 n'.e).2) := by
    intro k n' hk hn'
    obtain ⟨n'', hn'', hl⟩ := (hp.old_iff k).mp hk
    rw [hn'] at hn''; cases hn''
    have := hp.upKids k n' hn' hl
    exact ⟨bel_cof0 hp this.1, bel_cof0 hp this.2⟩
  refine
    { frame := fun k m f1 f2 f3 => by
        rw [hsame k (fun h => by subst h; rw [hn] at f1; cases f1; exact f2 hla)]
        exact hj.frame k m f1 f2 f3
      todoSh := fun k hk => ?_
      upC := ?_, loC := ?_, loU := ?_, loT := ?_
      ndUp := List.nodup_cons.mpr ⟨hiu, hj.ndUp⟩
      ndLo := hj.ndLo
      ndTodo := (List.nodup_cons.mp hj.ndTodo).2
      dUL := ?_, dUT := ?_, dLT := fun k hk hkt => hj.dLT k hk (by simp [hkt])
      oldC := ?_, live := ?_, dead := ?_ }
  · obtain ⟨f1, f2⟩ := hj.todoSh k (by simp [hk])
    exact ⟨f1, by rw [hsame k (fun h => hit (h ▸ hk))]; exact f2⟩
  · intro k hk
    rcases List.mem_cons.mp hk with rfl | hk
    · have hc := hcofs k n hio hn
      exact Or.inr ⟨hio, hit, n, c1, c2, hn, hnb, by simp, hmk hc.1.1 hc.2.1 h1, hmk hc.1.2 hc.2.2 h2⟩
    · have hki : k ≠ i := fun h => hiu (h ▸ hk)
      rcases hj.upC k hk with ⟨m, f1, f2, f3⟩ | ⟨g1, g2, n', d1, d2, g3, g4, g5, g6, g7⟩
      · exact Or.inl ⟨m, f1, f2, by rw [hsame k hki]; exact f3⟩
      · have hc := hcofs k n' g1 g3
        exact Or.inr ⟨g1, fun h => g2 (by simp [h]), n', d1, d2, g3, g4, by rw [hsame k hki]; exact g5,
          hmk hc.1.1 hc.2.1 g6, hmk hc.1.2 hc.2.2 g7⟩
  · intro k hk
    rw [hsame k (fun h => hil (h ▸ hk))]; exact hj.loC k hk
  · intro k hk m hm hkm
    rw [hsame k (fun h => hil (h ▸ hk)), hsame m (fun h => hil (h ▸ hm))] at hkm
    exact hj.loU k hk m hm hkm
  · intro k hk m hm hkm
    rw [hsame k (fun h => hil (h ▸ hk)), hsame m (fun h => hit (h ▸ hm))] at hkm
    exact hj.loT k hk m (by simp [hm]) hkm
  · intro k hk hkl
    rcases List.mem_cons.mp hk with rfl | hk
    · exact hil hkl
    · exact hj.dUL k hk hkl
  · intro k hk hkt
    rcases List.mem_cons.mp hk with rfl | hk
    · exact hit hkt
    · exact hj.dUT k hk (by simp [hkt])
  · intro k hk
    rcases hj.oldC k hk with h | h | h
    · rcases List.mem_cons.mp h with rfl | h
      · exact Or.inr (Or.inr (by simp))
      · exact Or.inl h
    · exact Or.inr (Or.inl h)
    · exact Or.inr (Or.inr (by simp [h]))
  · intro k hk
    by_cases hki : k = i
    · subst hki; exact Or.inr (Or.inr (Or.inl (by simp)))
    · rw [hsame k hki] at hk
      rcases hj.live k hk with h | h | h | h
      · exact Or.inl h
      · rcases List.mem_cons.mp h with h | h
        · exact absurd h hki
        · exact Or.inr (Or.inl h)
      · exact Or.inr (Or.inr (Or.inl (by simp [h])))
      · exact Or.inr (Or.inr (Or.inr h))
  · intro k nk hnk hl hku
    obtain ⟨g1, g2⟩ := hj.dead k nk hnk hl (fun h => hku (by simp [h]))
    exact ⟨g1, fun p m hm hc => g2 p m hm (by rcases hc with h | h; exact Or.inl h; exact Or.inr (by simp [h]))⟩

theorem J.remove {sh : Nat → Option Node} {up lo todo : List Nat} {j : Nat}
    (hp : Pre a b P sh0 old) (hj : J a b P sh0 old ext sh up lo todo)
    (hju : j ∈ up) (hs : SurvL b sh0 sh j) (hext : ext j = 0)
    (hnoref : ∀ p m, sh p = some m → m.t.tgt ≠ .inner j ∧ m.e.tgt ≠ .inner j) :
    J a b P sh0 old ext (upd sh j none) (up.erase j) lo todo := by
  obtain ⟨nj, hnj, hlj, hsj⟩ := hs
  have hjl : j ∉ lo := hj.dUL j hju
  have hjt : j ∉ todo := hj.dUT j hju
  have hsame : ∀ k, k ≠ j → upd sh j none k = sh k := fun k hk => upd_ne _ _ hk
  have hmem : ∀ k, k ∈ up.erase j ↔ k ≠ j ∧ k ∈ up := fun k => hj.ndUp.mem_erase_iff
  have hmk : ∀ {x y c : Edge}, MkR a sh lo todo x y c → MkR a (upd sh j none) lo todo x y c := by
    intro x y c h
    refine h.mono (fun m hm _ => ⟨hm, hsame m ?_⟩)
    rintro rfl
    rcases hm with hm | hm
    · exact hjl hm
    · exact hjt hm
  refine
    { frame := fun k m f1 f2 f3 => by
        rw [hsame k (fun h => by subst h; rw [hnj] at f1; cases f1; exact f3 hlj)]
        exact hj.frame k m f1 f2 f3
      todoSh := fun k hk => ?_
      upC := ?_, loC := ?_, loU := ?_, loT := ?_
      ndUp := hj.ndUp.erase j
      ndLo := hj.ndLo
      ndTodo := hj.ndTodo
      dUL := fun k hk => hj.dUL k ((hmem k).mp hk).2
      dUT := fun k hk => hj.dUT k ((hmem k).mp hk).2
      dLT := hj.dLT
      oldC := ?_, live := ?_, dead := ?_ }
  · obtain ⟨f1, f2⟩ := hj.todoSh k hk
    exact ⟨f1, by rw [hsame k (fun h => hjt (h ▸ hk))]; exact f2⟩
  · intro k hk
    obtain ⟨hkj, hk⟩ := (hmem k).mp hk
    rcases hj.upC k hk with ⟨m, f1, f2, f3⟩ | ⟨g1, g2, n', d1, d2, g3, g4, g5, g6, g7⟩
    · exact Or.inl ⟨m, f1, f2, by rw [hsame k hkj]; exact f3⟩
    · exact Or.inr ⟨g1, g2, n', d1, d2, g3, g4, by rw [hsame k hkj]; exact g5, hmk g6, hmk g7⟩
  · intro k hk
    rw [hsame k (fun h => hjl (h ▸ hk))]; exact hj.loC k hk
  · intro k hk m hm hkm
    rw [hsame k (fun h => hjl (h ▸ hk)), hsame m (fun h => hjl (h ▸ hm))] at hkm
    exact hj.loU k hk m hm hkm
  · intro k hk m hm hkm
    rw [hsame k (fun h => hjl (h ▸ hk)), hsame m (fun h => hjt (h ▸ hm))] at hkm
    exact hj.loT k hk m hm hkm
  · intro k hk
    rcases hj.oldC k hk with h | h | h
    · exact Or.inl h
    · exact Or.inr (Or.inl h)
    · refine Or.inr (Or.inr ((hmem k).mpr ⟨?_, h⟩))
      rintro rfl
      obtain ⟨n', hn', hl'⟩ := (hp.old_iff k).mp hk
      rw [hnj] at hn'; cases hn'; exact hp.ab (hl'.symm.trans hlj)
  · intro k hk
    by_cases hkj : k = j
    · subst hkj; simp at hk
    · rw [hsame k hkj] at hk
      rcases hj.live k hk with h | h | h | h
      · exact Or.inl h
      · exact Or.inr (Or.inl h)
      · exact Or.inr (Or.inr (Or.inl ((hmem k).mpr ⟨hkj, h⟩)))
      · exact Or.inr (Or.inr (Or.inr h))
  · intro k nk hnk hl hku
    by_cases hkj : k = j
    · subst hkj
      refine ⟨hext, fun p m hm hc => ?_⟩
      rcases hc with ⟨c1, c2⟩ | hc
      · exact hnoref p m (hj.frame p m hm c1 c2)
      · obtain ⟨_, f2⟩ := hj.todoSh p hc
        exact hnoref p m (f2 ▸ hm)
    · exact hj.dead k nk hnk hl (fun h => hku ((hmem k).mpr ⟨hkj, h⟩))


/-! ## consequences of `J`: no duplicates in the new upper table -/

/-- a node of level `a` in the current shape is not "below" -/
theorem J.not_bel_of_level_a {sh : Nat → Option Node} {up lo todo : List Nat}
    (hj : J a b P sh0 old ext sh up lo todo) {j : Nat} {x y c : Edge} (hc : c.tgt = .inner j)
    (hs : sh j = some ⟨a, x, y⟩) : ¬ Bel a b P sh0 c := by
  intro hb
  obtain ⟨m, hm, h1, h2, _⟩ := (Bel_inner hc).mp hb
  have := hj.frame j m hm h1 h2
  rw [hs] at this; cases this; exact h1 rfl

theorem edge_ext {x y : Edge} (h1 : x.neg = y.neg) (h2 : x.tgt = y.tgt) : x = y := by
  cases x; cases y; simp_all

theorem push_inj {g : Bool} {x y : Edge} (h : push g x = push g y) : x = y := by
  unfold push at h
  injection h with h1 h2
  apply edge_ext _ h2
  cases g <;> simp_all

theorem MkR.inj {sh : Nat → Option Node} {up lo todo : List Nat}
    (hj : J a b P sh0 old ext sh up lo todo) {x y x' y' c : Edge}
    (hx : Bel a b P sh0 x) (hx' : Bel a b P sh0 x')
    (h : MkR a sh lo todo x y c) (h' : MkR a sh lo todo x' y' c) : x = x' ∧ y = y' := by
  rcases h with ⟨e1, e2⟩ | ⟨_, j, _, e2, e3⟩ <;> rcases h' with ⟨f1, f2⟩ | ⟨_, j', _, f2, f3⟩
  · subst e1 f1; rw [e2] at f2; exact ⟨f2, f2⟩
  · subst e1; rw [e2] at f2
    exact absurd hx (hj.not_bel_of_level_a (by rw [f2]) f3)
  · subst f1; rw [f2] at e2
    exact absurd hx' (hj.not_bel_of_level_a (by rw [e2]) e3)
  · rw [e2] at f2
    injection f2 with g1 g2
    injection g2 with g2; subst g2
    rw [e3] at f3; injection f3 with f3; injection f3 with _ f4 f5
    injection f4 with _ f4
    have hxx : x = x' := edge_ext g1 f4
    subst hxx
    exact ⟨rfl, push_inj f5⟩

theorem MkR.eq_of_bel {sh : Nat → Option Node} {up lo todo : List Nat}
    (hj : J a b P sh0 old ext sh up lo todo) {x y c : Edge}
    (h : MkR a sh lo todo x y c) (hc : Bel a b P sh0 c) : x = y := by
  rcases h with ⟨e1, _⟩ | ⟨_, j, _, e2, e3⟩
  · exact e1
  · exact absurd hc (hj.not_bel_of_level_a (by rw [e2]) e3)

/-- the tag of the edge returned by `reduce` is the tag of its first argument -/
theorem MkR.neg_eq {sh : Nat → Option Node} {lo todo : List Nat} {x y c : Edge}
    (h : MkR a sh lo todo x y c) : c.neg = x.neg := by
  rcases h with ⟨_, e2⟩ | ⟨_, j, _, e2, _⟩ <;> rw [e2]

theorem cof0_atB {c : Edge} {k : Nat} {n : Node} (hk : c.tgt = .inner k) (hn : sh0 k = some n)
    (hl : n.level = b) : cof0 b sh0 c = (push c.neg n.t, push c.neg n.e) := by
  simp only [cof0, hk, hn, hl, if_true]

theorem cof0_inj (hp : Pre a b P sh0 old) {c c' : Edge}
    (hc : Bel a b P sh0 c ∨ AtB b sh0 c) (hc' : Bel a b P sh0 c' ∨ AtB b sh0 c')
    (h : cof0 b sh0 c = cof0 b sh0 c') : c = c' := by
  rcases hc with hc | ⟨k, n, hk, hn, hl⟩ <;> rcases hc' with hc' | ⟨k', n', hk', hn', hl'⟩
  · rw [cof0_of_bel hc, cof0_of_bel hc'] at h; injection h
  · rw [cof0_of_bel hc, cof0_atB hk' hn' hl'] at h
    injection h with h1 h2
    exact absurd (push_inj (h1.symm.trans h2)) (hp.nored k' n' hn')
  · rw [cof0_of_bel hc', cof0_atB hk hn hl] at h
    injection h with h1 h2
    exact absurd (push_inj (h1.trans h2.symm)) (hp.nored k n hn)
  · rw [cof0_atB hk hn hl, cof0_atB hk' hn' hl'] at h
    injection h with h1 h2
    have r1 := hp.thenReg k n hn
    have r2 := hp.thenReg k' n' hn'
    have hneg : c.neg = c'.neg := by
      have := congrArg EdgeC.neg h1
      simp only [push, r1, r2] at this
      cases hcn : c.neg <;> cases hcn' : c'.neg <;> simp_all
    rw [hneg] at h1 h2
    have ht := push_inj h1
    have he := push_inj h2
    have : n = n' := by
      cases n; cases n'; simp only [Node.mk.injEq] at *; exact ⟨hl.trans hl'.symm, ht, he⟩
    subst this
    have hkk := hp.uniq k k' n hn hn'
    subst hkk
    exact edge_ext hneg (hk.trans hk'.symm)

/-- the two new children of a rewritten node are not both below -/
theorem J.rew_not_bel {sh : Nat → Option Node} {up lo todo : List Nat}
    (hp : Pre a b P sh0 old) (hj : J a b P sh0 old ext sh up lo todo) {i : Nat} {n : Node}
    {c1 c2 : Edge} (hn : sh0 i = some n) (hla : n.level = a)
    (h1 : MkR a sh lo todo (cof0 b sh0 n.t).1 (cof0 b sh0 n.e).1 c1)
    (h2 : MkR a sh lo todo (cof0 b sh0 n.t).2 (cof0 b sh0 n.e).2 c2) :
    ¬ (Bel a b P sh0 c1 ∧ Bel a b P sh0 c2) := by
  rintro ⟨b1, b2⟩
  have e1 := h1.eq_of_bel hj b1
  have e2 := h2.eq_of_bel hj b2
  have hk := hp.upKids i n hn hla
  have : cof0 b sh0 n.t = cof0 b sh0 n.e := Prod.ext e1 e2
  exact hp.nored i n hn (cof0_inj hp hk.1 hk.2 this)

/-- two rewritten nodes with the same new children are the same node -/
theorem J.rew_inj {sh : Nat → Option Node} {up lo todo : List Nat}
    (hp : Pre a b P sh0 old) (hj : J a b P sh0 old ext sh up lo todo) {i i' : Nat} {n n' : Node}
    {c1 c2 : Edge} (hn : sh0 i = some n) (hla : n.level = a)
    (hn' : sh0 i' = some n') (hla' : n'.level = a)
    (h1 : MkR a sh lo todo (cof0 b sh0 n.t).1 (cof0 b sh0 n.e).1 c1)
    (h2 : MkR a sh lo todo (cof0 b sh0 n.t).2 (cof0 b sh0 n.e).2 c2)
    (h1' : MkR a sh lo todo (cof0 b sh0 n'.t).1 (cof0 b sh0 n'.e).1 c1)
    (h2' : MkR a sh lo todo (cof0 b sh0 n'.t).2 (cof0 b sh0 n'.e).2 c2) : i = i' := by
  have hk := hp.upKids i n hn hla
  have hk' := hp.upKids i' n' hn' hla'
  have g1 := h1.inj hj (bel_cof0 hp hk.1).1 (bel_cof0 hp hk'.1).1 h1'
  have g2 := h2.inj hj (bel_cof0 hp hk.1).2 (bel_cof0 hp hk'.1).2 h2'
  have et : n.t = n'.t := cof0_inj hp hk.1 hk'.1 (Prod.ext g1.1 g2.1)
  have ee : n.e = n'.e := cof0_inj hp hk.2 hk'.2 (Prod.ext g1.2 g2.2)
  have : n = n' := by
    cases n; cases n'; simp only [Node.mk.injEq] at *; exact ⟨hla.trans hla'.symm, et, ee⟩
  subst this
  exact hp.uniq i i' n hn hn'

/-- the entries of the new upper table all have level `b` -/
theorem J.up_level {sh : Nat → Option Node} {up lo todo : List Nat}
    (hj : J a b P sh0 old ext sh up lo todo) {k : Nat} (hk : k ∈ up) :
    ∃ x y, sh k = some ⟨b, x, y⟩ := by
  rcases hj.upC k hk with ⟨n, _, hl, hs⟩ | ⟨_, _, n, c1, c2, _, _, hs, _⟩
  · exact ⟨n.t, n.e, by rw [hs, ← hl]⟩
  · exact ⟨c1, c2, hs⟩

/-- a surviving node of the old lower level has both children below -/
theorem survL_bel (hp : Pre a b P sh0 old) {sh : Nat → Option Node} {k : Nat} {l : Nat} {x y : Edge}
    (hs : SurvL b sh0 sh k) (hk : sh k = some ⟨l, x, y⟩) : Bel a b P sh0 x ∧ Bel a b P sh0 y := by
  obtain ⟨n, hn, hl, hs'⟩ := hs
  rw [hk] at hs'; cases hs'
  exact hp.lowKids k _ hn hl

/-- a (candidate) rewritten node collides with no entry of the new upper table but itself -/
theorem J.rew_vs_up {sh : Nat → Option Node} {up lo todo : List Nat}
    (hp : Pre a b P sh0 old) (hj : J a b P sh0 old ext sh up lo todo) {i : Nat} {n : Node}
    {c1 c2 : Edge} (hn : sh0 i = some n) (hla : n.level = a)
    (h1 : MkR a sh lo todo (cof0 b sh0 n.t).1 (cof0 b sh0 n.e).1 c1)
    (h2 : MkR a sh lo todo (cof0 b sh0 n.t).2 (cof0 b sh0 n.e).2 c2)
    {k l : Nat} (hk : k ∈ up) (hs : sh k = some ⟨l, c1, c2⟩) : k = i := by
  rcases hj.upC k hk with hsv | ⟨g1, _, n', d1, d2, g3, _, g5, g6, g7⟩
  · exact absurd (survL_bel hp hsv hs) (hj.rew_not_bel hp hn hla h1 h2)
  · rw [hs] at g5; injection g5 with g5; injection g5 with _ e1 e2
    subst e1 e2
    obtain ⟨n'', hn'', hl'⟩ := (hp.old_iff k).mp g1
    rw [g3] at hn''; cases hn''
    exact hj.rew_inj hp g3 hl' hn hla g6 g7 h1 h2

/-- **no duplicates in the new upper table**: two entries with the same children coincide -/
theorem J.up_unique {sh : Nat → Option Node} {up lo todo : List Nat}
    (hp : Pre a b P sh0 old) (hj : J a b P sh0 old ext sh up lo todo) {k m l l' : Nat} {x y : Edge}
    (hk : k ∈ up) (hm : m ∈ up) (hsk : sh k = some ⟨l, x, y⟩) (hsm : sh m = some ⟨l', x, y⟩) :
    k = m := by
  rcases hj.upC m hm with hsv | ⟨g1, _, n', d1, d2, g3, _, g5, g6, g7⟩
  · rcases hj.upC k hk with hsv' | ⟨f1, _, n'', e1, e2, f3, _, f5, f6, f7⟩
    · obtain ⟨n1, h1, h2, h3⟩ := hsv
      obtain ⟨n2, h1', h2', h3'⟩ := hsv'
      rw [hsm] at h3; rw [hsk] at h3'
      cases h3; cases h3'
      simp only at h2 h2'
      subst h2
      rw [h2'] at h1'
      exact hp.uniq k m _ h1' h1
    · rw [hsk] at f5; injection f5 with f5; injection f5 with _ q1 q2
      subst q1 q2
      obtain ⟨n3, hn3, hl3⟩ := (hp.old_iff k).mp f1
      rw [f3] at hn3; cases hn3
      exact absurd (survL_bel hp hsv hsm) (hj.rew_not_bel hp f3 hl3 f6 f7)
  · rw [hsm] at g5; injection g5 with g5; injection g5 with _ q1 q2
    subst q1 q2
    obtain ⟨n3, hn3, hl3⟩ := (hp.old_iff m).mp g1
    rw [g3] at hn3; cases hn3
    exact hj.rew_vs_up hp g3 hl3 g6 g7 hk hsk


end
end OxiddModel.Reorder.SwapStoreC
