import OxiddModel.Reorder.SwapStoreCStep

/-!
# The whole loop of `level_swap` (complement edges), the entry state and `drop(old_upper)`

Port of `SwapStoreLoop.lean`.
-/
namespace OxiddModel.Reorder.SwapStoreC
open OxiddModel.Bcdd.Refine (EdgeC Tgt)
section
variable {a b : Nat} {P : Nat → Prop} {sh0 : Nat → Option Node} {old : List Nat} {ext : Nat → Nat}

/-- **one iteration of the loop preserves the invariant** -/
theorem stepNode_spec {al : Heap → Nat} (hal : ∀ h : Heap, h.get? (al h) = none)
    (hp : Pre a b P sh0 old) {R : Nat → Nat} (hR : ∀ k, ext k ≤ R k) {st : LS}
    {i : Nat} {todo : List Nat} (hinv : LInv a b P sh0 old ext R st (i :: todo)) :
    LInv a b P sh0 old ext R (stepNode Rules.bcdd al a b old st i) todo := by
  have hj := hinv.j
  have hit : i ∈ i :: todo := by simp
  obtain ⟨n, hsi, hn, hla⟩ := hj.todo_live hp hit
  obtain ⟨m, hm, hmn⟩ := sh_eq_some.mp hsi
  subst hmn
  have hcf_t := hj.child_facts hp hit hn (c := m.t) (Or.inl rfl)
  have hcf_e := hj.child_facts hp hit hn (c := m.e) (Or.inr rfl)
  have hlt := lvlIs_of_child (a := a) (h := st.h) hcf_t.2.1 hcf_t.1
  have hle := lvlIs_of_child (a := a) (h := st.h) hcf_e.2.1 hcf_e.1
  unfold stepNode
  rw [hm]; simp only
  by_cases hcond : (!lvlIs st.h b m.t && !lvlIs st.h b m.e) = true
  · rw [if_pos hcond]
    simp only [Bool.and_eq_true, Bool.not_eq_true', ← Bool.not_eq_true] at hcond
    have ht : Bel a b P sh0 m.t := by
      rcases hcf_t.1 with h | h
      · exact h
      · exact absurd (hlt.mpr h) hcond.1
    have he : Bel a b P sh0 m.e := by
      rcases hcf_e.1 with h | h
      · exact h
      · exact absurd (hle.mpr h) hcond.2
    exact stepNode_move hp hinv hm hn ht he
  · rw [if_neg hcond]
    have hnb : ¬ (Bel a b P sh0 m.t ∧ Bel a b P sh0 m.e) := by
      rintro ⟨ht, he⟩
      apply hcond
      have h1 : lvlIs st.h b m.t = false := by
        rw [← Bool.not_eq_true, hlt]; exact fun h => not_bel_of_atB h ht
      have h2 : lvlIs st.h b m.e = false := by
        rw [← Bool.not_eq_true, hle]; exact fun h => not_bel_of_atB h he
      simp [h1, h2]
    rw [cofE_of_child hcf_t.2.1, cofE_of_child hcf_e.2.1]
    exact stepNode_rewrite hal hp hR hinv hm hn hnb

/-- **the loop**: from the invariant for the whole iteration order to the invariant with nothing
left to visit -/
theorem levelSwapLoop_spec {al : Heap → Nat} (hal : ∀ h : Heap, h.get? (al h) = none)
    (hp : Pre a b P sh0 old) {R : Nat → Nat} (hR : ∀ k, ext k ≤ R k) (order : List Nat) {st : LS}
    (hinv : LInv a b P sh0 old ext R st order) :
    LInv a b P sh0 old ext R (levelSwapLoop Rules.bcdd al a b old order st) [] := by
  unfold levelSwapLoop
  induction order generalizing st with
  | nil => exact hinv
  | cons i rest ih => exact ih (stepNode_spec hal hp hR hinv)

/-- the invariant holds at loop entry -/
theorem J.init (hp : Pre a b P sh0 old) {low order : List Nat}
    (hlow : ∀ i, i ∈ low ↔ ∃ n, sh0 i = some n ∧ n.level = b) (hlnd : low.Nodup)
    (hord : ∀ i, i ∈ order ↔ i ∈ old) (hond : order.Nodup) :
    J a b P sh0 old ext sh0 low [] order := by
  refine
    { frame := fun k n h _ _ => h
      todoSh := fun i hi => ⟨(hord i).mp hi, rfl⟩
      upC := fun i hi => by
        obtain ⟨n, hn, hl⟩ := (hlow i).mp hi
        exact Or.inl ⟨n, hn, hl, hn⟩
      loC := fun j hj => by simp at hj
      loU := fun j hj => by simp at hj
      loT := fun j hj => by simp at hj
      ndUp := hlnd
      ndLo := List.nodup_nil
      ndTodo := hond
      dUL := fun k _ hk => by simp at hk
      dUT := fun k hk hk' => by
        obtain ⟨n, hn, hl⟩ := (hlow k).mp hk
        obtain ⟨n', hn', hl'⟩ := (hp.old_iff k).mp ((hord k).mp hk')
        rw [hn] at hn'; cases hn'; exact hp.ab (hl'.symm.trans hl)
      dLT := fun k hk => by simp at hk
      oldC := fun i hi => Or.inl ((hord i).mpr hi)
      live := fun k hk => ?_
      dead := fun i n hn hl hiu => absurd ((hlow i).mpr ⟨n, hn, hl⟩) hiu }
  cases hn : sh0 k with
  | none => exact absurd hn hk
  | some n =>
    by_cases ha : n.level = a
    · exact Or.inr (Or.inl ((hord k).mpr ((hp.old_iff k).mpr ⟨n, hn, ha⟩)))
    · by_cases hb : n.level = b
      · exact Or.inr (Or.inr (Or.inl ((hlow k).mpr ⟨n, hn, hb⟩)))
      · exact Or.inl ⟨n, rfl, ha, hb⟩

/-! ## `drop(old_upper)` -/

theorem dropOld_spec {w : Nat → Nat} (l : List Nat) {h : Heap}
    (hr : RCx (fun k => l.count k + w k) h)
    (hpos : ∀ j ∈ l, 0 < w j + h.refs j) :
    (dropOld h l).sh = h.sh ∧ RCx w (dropOld h l) := by
  unfold dropOld
  induction l generalizing h with
  | nil => exact ⟨rfl, hr.congr (fun k => by simp)⟩
  | cons j rest ih =>
    simp only [List.foldl_cons]
    have hrj := hr j
    simp only [List.count_cons_self] at hrj
    have hpj := hpos j (by simp)
    cases hm : h.get? j with
    | none => rw [rcOf_of_none hm] at hrj; omega
    | some m =>
      rw [rcOf_of_get? hm] at hrj
      have hrc : m.rc ≠ 1 := by omega
      have hsh := sh_dropTableEdge_keep hm hrc
      have hr' : RCx (fun k => rest.count k + w k) (dropTableEdge h j) := by
        apply RCx_dropTableEdge _ hm
        refine hr.congr (fun k => ?_)
        simp only [List.count_cons]
        by_cases hk : k = j
        · subst hk; rw [pt_self]; simp; omega
        · have h2 : ¬ (j = k) := fun h' => hk h'.symm
          rw [pt_ne hk]; simp [h2]
      have hrefs : (dropTableEdge h j).refs = h.refs := by
        unfold dropTableEdge
        rw [hm]; simp only [hrc, if_false]
        funext k
        exact refs_put_same _ _ _ (by simp [Heap.sh, hm, SNode.toNode]) _
      have := ih hr' (fun k hk => by rw [hrefs]; exact hpos k (by simp [hk]))
      exact ⟨this.1.trans hsh, this.2⟩
end
end OxiddModel.Reorder.SwapStoreC
