import OxiddModel.Reorder.SwapStoreCDown

/-!
# Sequences of swaps with complement edges, and the link to the BCDD tree model

`swapsS_spec` (any sequence of `level_down`s), the abstraction `Heap.absC` to the plain BCDD store
of `Bcdd/StoreRefine.lean` with `ev_of_den` (the evaluation relation `Ev` agrees with `eval` of the
denoted tree edge), totality and normal form of the denoted trees (`Inv.total`, `Inv.nfN`), and an
executable unfolding `treeOfE` with its soundness.
-/
namespace OxiddModel.Reorder.SwapStoreC
open OxiddModel.Bcdd OxiddModel.Bcdd.CNode
open OxiddModel.Bcdd.Refine (EdgeC Tgt StoreC NodeC DenN DenotesC)
open OxiddModel.Reorder.SwapStore (OrderOK)
open OxiddModel.Reorder

/-! ## sequences of adjacent swaps -/

section
variable {ext : Nat → Nat} {s : SStore} {al : Heap → Nat} {ord : List Nat → List Nat}

theorem levelDownS_len (ru : Rules) (al : Heap → Nat) (ord : List Nat → List Nat) (s : SStore)
    (u : Nat) : (levelDownS ru al ord s u).tables.length = s.tables.length := by
  unfold levelDownS
  split
  · simp
  · rfl

theorem swapsS_len (ru : Rules) (al : Heap → Nat) (ord : List Nat → List Nat) (s : SStore)
    (us : List Nat) : (swapsS ru al ord s us).tables.length = s.tables.length := by
  unfold swapsS
  induction us generalizing s with
  | nil => rfl
  | cons u us ih => simp only [List.foldl_cons]; rw [ih, levelDownS_len]

/-- any sequence of in-range adjacent swaps: the invariant is preserved and every external
handle evaluates, under every assignment `ρ` of the variables, to what it did before (the
level→variable map being permuted by the same swaps) -/
theorem swapsS_spec (hal : AllocOK al) (hord : OrderOK ord) (us : List Nat) (hinv : Inv ext s)
    (hus : ∀ u ∈ us, u + 1 < s.tables.length) (l2v : List Nat) (hl : l2v.length = s.tables.length) :
    Inv ext (swapsS Rules.bcdd al ord s us) ∧
    ∀ (ρ : Nat → Bool) g k v, 0 < ext k → Ev s.h.sh (ρ ∘ lvFun l2v) ⟨g, .inner k⟩ v →
      Ev (swapsS Rules.bcdd al ord s us).h.sh (ρ ∘ lvFun (applySwaps us l2v)) ⟨g, .inner k⟩ v := by
  unfold swapsS
  induction us generalizing s l2v with
  | nil => exact ⟨hinv, fun _ _ _ _ _ h => h⟩
  | cons u us ih =>
    simp only [List.foldl_cons, applySwaps_cons]
    have hu := hus u (by simp)
    obtain ⟨hinv1, hlen1, hev1⟩ := levelDownS_spec hal hord hinv hu
    obtain ⟨hinv2, hev2⟩ := ih hinv1 (fun v hv => by rw [hlen1]; exact hus v (by simp [hv]))
      (swapAdj u l2v) (by rw [swapAdj_length, hl, hlen1])
    refine ⟨hinv2, fun ρ g k v hk hv => hev2 ρ g k v hk ?_⟩
    refine hev1 (ρ ∘ lvFun (swapAdj u l2v)) _ v ?_ (fun k' m hk' _ _ => by
      injection hk' with hk'; subst hk'; exact hk)
    have : (ρ ∘ lvFun (swapAdj u l2v)) ∘ swapLv u = ρ ∘ lvFun l2v := by
      funext x
      simp only [Function.comp]
      rw [lvFun_swapAdj l2v u (hl ▸ hu)]
    rw [this]; exact hv
end

/-! ## the link to the tree model: `DenotesC` on the plain BCDD store -/

/-- forget reference counts and the (regular) tag of the then-edge: the store of
`Bcdd/StoreRefine.lean` -/
def Heap.absC (h : Heap) : StoreC :=
  ⟨(h.slots.map (Option.map fun n => (⟨n.level, n.t.tgt, n.e⟩ : NodeC))).toArray⟩

theorem absC_get? (h : Heap) (i : Nat) :
    h.absC.get? i = (h.sh i).map fun n => (⟨n.level, n.t.tgt, n.e⟩ : NodeC) := by
  unfold Heap.absC StoreC.get? Heap.sh Heap.get?
  simp only [List.getElem?_toArray, List.getElem?_map]
  cases h.slots[i]? with
  | none => rfl
  | some o => cases o <;> rfl

/-- the value of a target is the value of the tree node it denotes -/
theorem evN_of_den {h : Heap} (hreg : ∀ i n, h.sh i = some n → n.t.neg = false) {x : Tgt}
    {a : CNode} (hd : DenN h.absC x a) (σ : Nat → Bool) : EvN h.sh σ x (a.eval σ) := by
  induction hd with
  | term => exact .term
  | @inner i l t en e tt te hi _ _ iht ihe =>
    rw [absC_get?] at hi
    cases hs : h.sh i with
    | none => rw [hs] at hi; cases hi
    | some nd =>
      rw [hs] at hi
      simp only [Option.map, Option.some.injEq, NodeC.mk.injEq] at hi
      obtain ⟨h1, h2, h3⟩ := hi
      have hr := hreg i nd hs
      have := EvN.inner (σ := σ) (show h.sh i = some ⟨nd.level, nd.t, nd.e⟩ from hs)
        (h2 ▸ iht) (by rw [h3]; exact ihe)
      rw [hr, h3, h1] at this
      simpa [CNode.eval] using this

theorem ev_of_den {h : Heap} (hreg : ∀ i n, h.sh i = some n → n.t.neg = false) {x : Edge}
    {a : Bcdd.Edge} (hd : DenotesC h.absC x a) (σ : Nat → Bool) : Ev h.sh σ x (a.eval σ) :=
  ⟨_, evN_of_den hreg hd.2 σ, by simp [Bcdd.Edge.eval, hd.1]⟩

section
variable {ext : Nat → Nat} {s : SStore}

theorem Inv.absC_unique (hinv : Inv ext s) : s.h.absC.Unique := by
  intro i j n hi hj
  rw [absC_get?] at hi hj
  cases h1 : s.h.sh i with
  | none => rw [h1] at hi; cases hi
  | some a =>
    cases h2 : s.h.sh j with
    | none => rw [h2] at hj; cases hj
    | some b =>
      rw [h1] at hi; rw [h2] at hj
      simp only [Option.map, Option.some.injEq] at hi hj
      have ra := hinv.thenReg i a h1
      have rb := hinv.thenReg j b h2
      have : a = b := by
        obtain ⟨al, at', ae⟩ := a
        obtain ⟨bl, bt, be⟩ := b
        rw [← hj] at hi
        simp only [NodeC.mk.injEq] at hi
        simp only at ra rb
        have ht : at' = bt := edge_ext (ra.trans rb.symm) hi.2.1
        simp [hi.1, ht, hi.2.2]
      subst this
      exact hinv.uniq i j a h1 h2

/-- every live slot denotes a tree node -/
theorem Inv.total (hinv : Inv ext s) :
    ∀ m k nd, s.h.sh k = some nd → s.tables.length - nd.level ≤ m →
      ∃ a, DenN s.h.absC (.inner k) a := by
  intro m
  induction m with
  | zero =>
    intro k nd hk hm
    have := (hinv.tbl_iff nd.level k).mpr ⟨nd, hk, rfl⟩
    rw [table_of_ge (by omega)] at this; cases this
  | succ m ih =>
    intro k nd hk hm
    have hlv : nd.level < s.tables.length := by
      apply Classical.byContradiction
      intro hc
      have := (hinv.tbl_iff nd.level k).mpr ⟨nd, hk, rfl⟩
      rw [table_of_ge (by omega)] at this; cases this
    have hchild : ∀ c : Edge, (c = nd.t ∨ c = nd.e) → ∃ a, DenN s.h.absC c.tgt a := by
      intro c hc
      cases hct : c.tgt with
      | term => exact ⟨_, .term⟩
      | inner j =>
        obtain ⟨mj, hmj, hlt⟩ := hinv.ordered k nd hk j
          (by rcases hc with h | h; exact Or.inl (h ▸ hct); exact Or.inr (h ▸ hct))
        exact ih j mj hmj (by omega)
    obtain ⟨ta, hta⟩ := hchild nd.t (Or.inl rfl)
    obtain ⟨tb, htb⟩ := hchild nd.e (Or.inr rfl)
    refine ⟨.node nd.level ta nd.e.neg tb, .inner (l := nd.level) (t := nd.t.tgt) (en := nd.e.neg)
      (e := nd.e.tgt) ?_ hta htb⟩
    rw [absC_get?, hk]; rfl

theorem Inv.live_of_ext (hinv : Inv ext s) {k : Nat} (hk : 0 < ext k) : s.h.sh k ≠ none := by
  intro hn
  have := hinv.rc k
  simp only [live01, hn] at this
  rw [rcOf_of_none (sh_eq_none.mp hn)] at this
  simp at this; omega

/-- the diagrams of a store satisfying the invariant are ordered and reduced -/
theorem Inv.nfN (hinv : Inv ext s) {x : Tgt} {a : CNode} (hd : DenN s.h.absC x a) :
    (∀ n, (∀ k m, x = .inner k → s.h.sh k = some m → n ≤ m.level) → a.Ordered n) ∧ a.Reduced := by
  induction hd with
  | term => exact ⟨fun n _ => .top, trivial⟩
  | @inner i l t en e tt te hi ht he iht ihe =>
    rw [absC_get?] at hi
    cases hs : s.h.sh i with
    | none => rw [hs] at hi; cases hi
    | some nd =>
      rw [hs] at hi
      simp only [Option.map, Option.some.injEq, NodeC.mk.injEq] at hi
      obtain ⟨h1, h2, h3⟩ := hi
      constructor
      · intro n hn
        refine .node (h1 ▸ hn i nd rfl hs) (iht.1 _ ?_) (ihe.1 _ ?_)
        · intro k m hk hm
          obtain ⟨m', hm', hlt⟩ := hinv.ordered i nd hs k (Or.inl (h2.trans hk))
          rw [hm] at hm'; cases hm'; omega
        · intro k m hk hm
          have : nd.e.tgt = .inner k := by rw [h3]; exact hk
          obtain ⟨m', hm', hlt⟩ := hinv.ordered i nd hs k (Or.inr this)
          rw [hm] at hm'; cases hm'; omega
      · refine ⟨?_, iht.2, ihe.2⟩
        rintro ⟨hen, hte⟩
        subst hte
        have := Refine.injN_of_unique hinv.absC_unique _ _ _ ht he
        apply hinv.nored i nd hs
        have hr := hinv.thenReg i nd hs
        apply edge_ext
        · rw [hr, h3]; exact hen.symm
        · rw [h2, h3]; exact this
end

/-! ## executable unfolding -/

/-- unfold a target to the tree node it denotes (fuel = maximal depth); fails on a complemented
then-edge -/
def nodeOfT (h : Heap) : Nat → Tgt → Option CNode
  | _, .term => some .top
  | 0, .inner _ => none
  | f + 1, .inner i =>
    match h.sh i with
    | some n =>
      match nodeOfT h f n.t.tgt, nodeOfT h f n.e.tgt with
      | some a, some b => if n.t.neg then none else some (.node n.level a n.e.neg b)
      | _, _ => none
    | none => none

def treeOfE (h : Heap) (fuel : Nat) (x : Edge) : Option Bcdd.Edge :=
  (nodeOfT h fuel x.tgt).map fun n => ⟨x.neg, n⟩

theorem nodeOfT_sound {h : Heap} {f : Nat} {x : Tgt} {a : CNode} (ht : nodeOfT h f x = some a) :
    DenN h.absC x a := by
  induction f generalizing x a with
  | zero =>
    cases x with
    | term => simp only [nodeOfT] at ht; cases ht; exact .term
    | inner i => simp [nodeOfT] at ht
  | succ f ih =>
    cases x with
    | term => simp only [nodeOfT] at ht; cases ht; exact .term
    | inner i =>
      simp only [nodeOfT] at ht
      cases hs : h.sh i with
      | none => rw [hs] at ht; cases ht
      | some n =>
        rw [hs] at ht
        simp only at ht
        cases ha : nodeOfT h f n.t.tgt with
        | none => rw [ha] at ht; cases ht
        | some ta =>
          cases hb : nodeOfT h f n.e.tgt with
          | none => rw [ha, hb] at ht; cases ht
          | some tb =>
            rw [ha, hb] at ht
            simp only at ht
            split at ht
            · cases ht
            · cases ht
              refine .inner (l := n.level) (t := n.t.tgt) (en := n.e.neg) (e := n.e.tgt) ?_
                (ih ha) (ih hb)
              rw [absC_get?, hs]; rfl

theorem treeOfE_sound {h : Heap} {f : Nat} {x : Edge} {a : Bcdd.Edge}
    (ht : treeOfE h f x = some a) : DenotesC h.absC x a := by
  unfold treeOfE at ht
  cases hn : nodeOfT h f x.tgt with
  | none => rw [hn] at ht; cases ht
  | some n =>
    rw [hn] at ht
    cases ht
    exact ⟨rfl, nodeOfT_sound hn⟩

end OxiddModel.Reorder.SwapStoreC
