import OxiddModel.Reorder.SwapStoreCInv

/-!
# The loop body of `level_swap` (complement-edge rules) preserves the loop invariant

Port of `SwapStoreStep.lean`.

Shape and reference-count effect of the remaining primitives (`lookup`, `set_child`, `set_level`,
table insertion/removal, `drop_unique_table_edge`), then `mkChild_spec` and `stepNode_spec`.
-/
namespace OxiddModel.Reorder.SwapStoreC
open OxiddModel.Bcdd.Refine (EdgeC Tgt)

/-! ## lookups only see shapes -/

theorem get?_match_sh {α : Type} (h : Heap) (j : Nat) (f : Node → α) (d : α) :
    (match h.get? j with | some n => f n.toNode | none => d) =
    (match h.sh j with | some n => f n | none => d) := by
  unfold Heap.sh; cases h.get? j <;> rfl

theorem lookup_eq (h : Heap) (tbl : List Nat) (x y : Edge) :
    lookup h tbl x y = tbl.find? fun j =>
      match h.sh j with
      | some n => n.t == x && n.e == y
      | none => false := by
  unfold lookup
  congr 1; funext j
  exact get?_match_sh h j (fun n => n.t == x && n.e == y) false

theorem lookup_congr {h h' : Heap} (hs : h.sh = h'.sh) (tbl : List Nat) (x y : Edge) :
    lookup h tbl x y = lookup h' tbl x y := by
  rw [lookup_eq, lookup_eq, hs]

theorem lookup_some {h : Heap} {tbl : List Nat} {x y : Edge} {j : Nat}
    (hl : lookup h tbl x y = some j) : j ∈ tbl ∧ ∃ l, h.sh j = some ⟨l, x, y⟩ := by
  rw [lookup_eq] at hl
  refine ⟨List.mem_of_find?_eq_some hl, ?_⟩
  have := List.find?_some hl
  cases hs : h.sh j with
  | none => simp [hs] at this
  | some n =>
    simp only [hs, Bool.and_eq_true, beq_iff_eq] at this
    obtain ⟨l, t, e⟩ := n
    simp only at this
    exact ⟨l, by rw [this.1, this.2]⟩

theorem lookup_none {h : Heap} {tbl : List Nat} {x y : Edge}
    (hl : lookup h tbl x y = none) : ∀ j ∈ tbl, ∀ l, h.sh j ≠ some ⟨l, x, y⟩ := by
  rw [lookup_eq] at hl
  intro j hj l hs
  have := List.find?_eq_none.mp hl j hj
  simp [hs] at this

theorem lvlIs_eq (h : Heap) (l : Nat) (c : Edge) :
    lvlIs h l c = match c.tgt with
      | .inner j => (match h.sh j with | some m => m.level == l | none => false)
      | .term => false := by
  unfold lvlIs
  cases c.tgt with
  | term => rfl
  | inner j => exact get?_match_sh h j (fun n => n.level == l) false

theorem cofE_eq (h : Heap) (l : Nat) (c : Edge) : cofE Rules.bcdd h l c = cof0 l h.sh c := by
  unfold cofE cof0
  cases c.tgt with
  | term => rfl
  | inner j =>
    exact get?_match_sh h j
      (fun m => if m.level = l then (push c.neg m.t, push c.neg m.e) else (c, c)) (c, c)

/-! ## shapes after the in-place updates -/

theorem sh_setChildT {h : Heap} {i l : Nat} {t e : Edge} (hs : h.sh i = some ⟨l, t, e⟩) (c : Edge) :
    (setChildT h i c).sh = upd h.sh i (some ⟨l, c, e⟩) := by
  obtain ⟨m, hm, hmn⟩ := sh_eq_some.mp hs
  unfold setChildT
  rw [hm]; simp only
  rw [sh_decRc, sh_put_upd]
  cases m; cases hmn; rfl

theorem sh_setChildE {h : Heap} {i l : Nat} {t e : Edge} (hs : h.sh i = some ⟨l, t, e⟩) (c : Edge) :
    (setChildE h i c).sh = upd h.sh i (some ⟨l, t, c⟩) := by
  obtain ⟨m, hm, hmn⟩ := sh_eq_some.mp hs
  unfold setChildE
  rw [hm]; simp only
  rw [sh_decRc, sh_put_upd]
  cases m; cases hmn; rfl

theorem sh_setLevel {h : Heap} {i l : Nat} {t e : Edge} (hs : h.sh i = some ⟨l, t, e⟩) (l' : Nat) :
    (setLevel h i l').sh = upd h.sh i (some ⟨l', t, e⟩) := by
  obtain ⟨m, hm, hmn⟩ := sh_eq_some.mp hs
  unfold setLevel
  rw [hm]; simp only
  rw [sh_put_upd]
  cases m; cases hmn; rfl

theorem sh_tblInsert (h : Heap) (tbl : List Nat) (i : Nat) : (tblInsert h tbl i).1.sh = h.sh := by
  unfold tblInsert
  cases h.get? i with
  | none => rfl
  | some n =>
    simp only
    cases lookup h tbl n.t n.e with
    | none => rfl
    | some j => exact sh_decRc _ _

/-- with no equal node in the table the edge is inserted and the heap is untouched -/
theorem tblInsert_fresh {h : Heap} {tbl : List Nat} {i l : Nat} {t e : Edge}
    (hs : h.sh i = some ⟨l, t, e⟩) (hno : ∀ k ∈ tbl, ∀ l', h.sh k ≠ some ⟨l', t, e⟩) :
    tblInsert h tbl i = (h, i :: tbl) := by
  obtain ⟨m, hm, hmn⟩ := sh_eq_some.mp hs
  unfold tblInsert
  rw [hm]; simp only
  obtain ⟨ml, mt, me, mrc⟩ := m
  simp only [SNode.toNode, Node.mk.injEq] at hmn
  obtain ⟨rfl, rfl, rfl⟩ := hmn
  simp only
  cases hl : lookup h tbl mt me with
  | none => rfl
  | some j =>
    obtain ⟨h1, l', h2⟩ := lookup_some hl
    exact absurd h2 (hno j h1 l')

/-! ## reference counts of the in-place updates -/

theorem cntS_some (n : Node) (j : Nat) : cntS (some n) j = pt n.t j + pt n.e j := rfl
theorem cntS_none (j : Nat) : cntS none j = 0 := rfl
theorem pt_self (j : Nat) : pt ⟨false, .inner j⟩ j = 1 := by simp [pt]
theorem pt_ne {j k : Nat} (h : k ≠ j) : pt ⟨false, .inner j⟩ k = 0 := by
  simp only [pt]; rw [if_neg]; intro h'; injection h' with h'; exact h h'.symm

theorem rcOf_put_same_rc {h : Heap} {i : Nat} {m m' : SNode} (hm : h.get? i = some m)
    (hrc : m'.rc = m.rc) (j : Nat) : (h.put i (some m')).rcOf j = h.rcOf j := by
  rw [rcOf_put]
  split
  · rename_i hj; subst hj; rw [rcOf_of_get? hm]; exact hrc
  · rfl

theorem RCx_setChildT {w : Nat → Nat} {h : Heap} {i l : Nat} {t e : Edge} (c : Edge)
    (hr : RCx (fun j => w j + pt c j) h) (hs : h.sh i = some ⟨l, t, e⟩) :
    RCx w (setChildT h i c) := by
  obtain ⟨m, hm, hmn⟩ := sh_eq_some.mp hs
  unfold setChildT
  rw [hm]; simp only
  apply RCx.decRc
  intro j
  have h1 := refs_put' h i j (some { m with t := c })
  have h2 := hr j
  simp only [] at h2
  rw [rcOf_put_same_rc hm (m' := { m with t := c }) rfl, h2]
  rw [hs] at h1
  cases m; cases hmn
  simp only [cntS_some, Option.map, SNode.toNode] at h1 ⊢
  omega

theorem RCx_setChildE {w : Nat → Nat} {h : Heap} {i l : Nat} {t e : Edge} (c : Edge)
    (hr : RCx (fun j => w j + pt c j) h) (hs : h.sh i = some ⟨l, t, e⟩) :
    RCx w (setChildE h i c) := by
  obtain ⟨m, hm, hmn⟩ := sh_eq_some.mp hs
  unfold setChildE
  rw [hm]; simp only
  apply RCx.decRc
  intro j
  have h1 := refs_put' h i j (some { m with e := c })
  have h2 := hr j
  simp only [] at h2
  rw [rcOf_put_same_rc hm (m' := { m with e := c }) rfl, h2]
  rw [hs] at h1
  cases m; cases hmn
  simp only [cntS_some, Option.map, SNode.toNode] at h1 ⊢
  omega

theorem RCx_setLevel {w : Nat → Nat} {h : Heap} (i l : Nat) (hr : RCx w h) :
    RCx w (setLevel h i l) := by
  unfold setLevel
  cases hm : h.get? i with
  | none => exact hr
  | some m =>
    intro j
    simp only
    rw [rcOf_put_same_rc hm (m' := { m with level := l }) rfl, hr j]
    congr 1
    have h1 := refs_put' h i j (some { m with level := l })
    have : h.sh i = some m.toNode := by simp [Heap.sh, hm]
    rw [this] at h1
    simp only [cntS_some, Option.map, SNode.toNode] at h1
    omega

/-! ## `drop_unique_table_edge` -/

theorem sh_dropTableEdge_keep {h : Heap} {j : Nat} {m : SNode} (hm : h.get? j = some m)
    (hrc : m.rc ≠ 1) : (dropTableEdge h j).sh = h.sh := by
  unfold dropTableEdge
  rw [hm]; simp only [hrc, if_false]
  rw [sh_put_upd]
  funext k
  by_cases hk : k = j
  · subst hk; simp [Heap.sh, hm, SNode.toNode]
  · rw [upd_ne _ _ hk]

theorem sh_dropTableEdge_free {h : Heap} {j : Nat} {m : SNode} (hm : h.get? j = some m)
    (hrc : m.rc = 1) : (dropTableEdge h j).sh = upd h.sh j none := by
  unfold dropTableEdge
  rw [hm]; simp only [hrc, if_true]
  rw [sh_decRc, sh_decRc, sh_put_upd]; rfl

theorem RCx_dropTableEdge {w : Nat → Nat} {h : Heap} {j : Nat} {m : SNode}
    (hr : RCx (fun k => w k + pt ⟨false, .inner j⟩ k) h) (hm : h.get? j = some m) :
    RCx w (dropTableEdge h j) := by
  unfold dropTableEdge
  rw [hm]; simp only
  have hj := hr j
  simp only [pt_self] at hj
  rw [rcOf_of_get? hm] at hj
  split
  · rename_i hrc
    have hz : h.refs j = 0 := by omega
    have hw : w j = 0 := by omega
    apply RCx.decRc; apply RCx.decRc
    intro k
    have h1 := refs_put' h j k none
    have h2 := hr k
    simp only [] at h2
    have hsj : h.sh j = some m.toNode := by simp [Heap.sh, hm]
    rw [hsj] at h1
    rw [rcOf_put]
    by_cases hk : k = j
    · subst hk
      have hc := cntS_le_refs h k k
      rw [hsj, hz] at hc
      simp only [cntS_some, cntS_none, SNode.toNode, Option.map] at h1 hc ⊢
      simp only [if_true]
      omega
    · simp only [cntS_some, cntS_none, SNode.toNode, Option.map, pt_ne hk, hk, if_false] at h1 h2 ⊢
      omega
  · rename_i hrc
    intro k
    have h2 := hr k
    simp only [] at h2
    rw [rcOf_put, refs_put_same _ _ _ (by simp [Heap.sh, hm, SNode.toNode])]
    by_cases hk : k = j
    · subst hk; simp only [if_true]; omega
    · simp only [pt_ne hk, hk, if_false] at h2 ⊢
      omega

macro "rcarith" : tactic => `(tactic| first | omega | (simp only []; omega))
section
variable {a b : Nat} {P : Nat → Prop} {sh0 : Nat → Option Node} {old : List Nat} {ext : Nat → Nat}

theorem J.bel_live {sh : Nat → Option Node} {up lo todo : List Nat}
    (hj : J a b P sh0 old ext sh up lo todo) {x : Edge} (hx : Bel a b P sh0 x) {k : Nat}
    (hk : x.tgt = .inner k) : sh k ≠ none := by
  obtain ⟨n, hn, h1, h2, _⟩ := (Bel_inner hk).mp hx
  rw [hj.frame k n hn h1 h2]; simp

/-- an entry of `old_upper` whose children are both below is a node that only moves: it is
unvisited or already in the new lower table, never a rewritten node -/
theorem J.old_bel {sh : Nat → Option Node} {up lo todo : List Nat}
    (hp : Pre a b P sh0 old) (hj : J a b P sh0 old ext sh up lo todo) {j l : Nat} {x y : Edge}
    (hjo : j ∈ old) (hs : sh j = some ⟨l, x, y⟩) (hx : Bel a b P sh0 x) (hy : Bel a b P sh0 y) :
    (j ∈ lo ∨ j ∈ todo) ∧ l = a := by
  rcases hj.oldC j hjo with h | h | h
  · obtain ⟨n, h1, _, h3⟩ := hj.todo_live hp h
    rw [hs] at h1; cases h1
    exact ⟨Or.inr h, h3⟩
  · obtain ⟨x', y', h1, _⟩ := hj.loC j h
    rw [hs] at h1; cases h1
    exact ⟨Or.inl h, rfl⟩
  · exfalso
    rcases hj.upC j h with ⟨n, h1, h2, _⟩ | ⟨_, _, n, c1, c2, g3, _, g5, g6, g7⟩
    · obtain ⟨n', hn', hl'⟩ := (hp.old_iff j).mp hjo
      rw [h1] at hn'; cases hn'; exact hp.ab (hl'.symm.trans h2)
    · obtain ⟨n', hn', hl'⟩ := (hp.old_iff j).mp hjo
      rw [g3] at hn'; cases hn'
      rw [hs] at g5; cases g5
      exact hj.rew_not_bel hp g3 hl' g6 g7 ⟨hx, hy⟩

theorem pt_mk_tgt (g : Bool) (x : Edge) (k : Nat) : pt ⟨g, x.tgt⟩ k = pt x k := rfl
theorem pt_push (g : Bool) (y : Edge) (k : Nat) : pt (push g y) k = pt y k := rfl

theorem norm_ne {x y : Edge} (hxy : x ≠ y) : (⟨false, x.tgt⟩ : Edge) ≠ push x.neg y := by
  intro h
  apply hxy
  unfold push at h
  injection h with h1 h2
  apply edge_ext _ h2
  cases hx : x.neg <;> cases hy : y.neg <;> simp_all

theorem mkChild_spec {al : Heap → Nat} (hal : ∀ h : Heap, h.get? (al h) = none) (hp : Pre a b P sh0 old)
    {h : Heap} {up lo todo : List Nat} (hj : J a b P sh0 old ext h.sh up lo todo)
    {w : Nat → Nat} (hr : RCx w h) {x y : Edge} (hx : Bel a b P sh0 x) (hy : Bel a b P sh0 y) :
    ∃ h' lo' c, mkChild Rules.bcdd al a old (h, lo) x y = ((h', lo'), c) ∧
      J a b P sh0 old ext h'.sh up lo' todo ∧ MkR a h'.sh lo' todo x y c ∧
      (∃ d : Nat → Nat, (∀ k, lo'.count k = lo.count k + d k) ∧
        RCx (fun k => w k + pt c k + d k) h') ∧
      (∀ k, h.sh k ≠ none → h'.sh k = h.sh k) ∧ (∀ k ∈ lo, k ∈ lo') := by
  have hxl : ∀ k, x.tgt = .inner k → h.get? k ≠ none := fun k hk =>
    fun hn => hj.bel_live hx hk (sh_eq_none.mpr hn)
  have hyl : ∀ k, y.tgt = .inner k → (incRc h x).get? k ≠ none := fun k hk =>
    fun hn => hj.bel_live hy hk (by rw [← sh_incRc h x]; exact sh_eq_none.mpr hn)
  have hr1 : RCx (fun k => w k + pt x k + pt y k) (incRc (incRc h x) y) :=
    (hr.incRc x hxl).incRc y hyl
  have hs1 : (incRc (incRc h x) y).sh = h.sh := by rw [sh_incRc, sh_incRc]
  have hxn : Bel a b P sh0 (⟨false, x.tgt⟩ : Edge) := (Bel_of_tgt (c := ⟨false, x.tgt⟩) rfl).mpr hx
  have hyn : Bel a b P sh0 (push x.neg y) := (Bel_push _ _).mpr hy
  unfold mkChild
  simp only [Rules.bcdd]
  generalize hh1 : incRc (incRc h x) y = h1 at hr1 hs1
  by_cases hxy : x = y
  · simp only [hxy, if_true]
    refine ⟨_, _, _, rfl, ?_, Or.inl ⟨rfl, rfl⟩, ⟨fun _ => 0, fun k => rfl, ?_⟩, ?_, fun k hk => hk⟩
    · rw [sh_decRc, hs1]; exact hj
    · apply RCx.decRc y
      exact hr1.congr (fun k => by subst hxy; rcarith)
    · intro k _; rw [sh_decRc, hs1]
  · simp only [hxy, if_false]
    have hfound : ∀ j l, (j ∈ lo ∨ j ∈ todo) →
        h.sh j = some ⟨l, ⟨false, x.tgt⟩, push x.neg y⟩ → l = a →
        J a b P sh0 old ext (incRc (decRc (decRc h1 x) y) ⟨false, .inner j⟩).sh up lo todo ∧
        MkR a (incRc (decRc (decRc h1 x) y) ⟨false, .inner j⟩).sh lo todo x y ⟨x.neg, .inner j⟩ ∧
        (∃ d : Nat → Nat, (∀ k, lo.count k = lo.count k + d k) ∧
          RCx (fun k => w k + pt ⟨x.neg, .inner j⟩ k + d k)
            (incRc (decRc (decRc h1 x) y) ⟨false, .inner j⟩)) ∧
        (∀ k, h.sh k ≠ none → (incRc (decRc (decRc h1 x) y) ⟨false, .inner j⟩).sh k = h.sh k) ∧
        (∀ k ∈ lo, k ∈ lo) := by
      intro j l hjm hsj hl
      subst hl
      have hsh : (incRc (decRc (decRc h1 x) y) ⟨false, .inner j⟩).sh = h.sh := by
        rw [sh_incRc, sh_decRc, sh_decRc, hs1]
      refine ⟨hsh ▸ hj, Or.inr ⟨hxy, j, hjm, rfl, by rw [hsh]; exact hsj⟩,
        ⟨fun _ => 0, fun k => rfl, ?_⟩, fun k _ => by rw [hsh], fun k hk => hk⟩
      have hr2 : RCx w (decRc (decRc h1 x) y) := by
        apply RCx.decRc y; apply RCx.decRc x
        exact hr1.congr (fun k => by rcarith)
      have := hr2.incRc ⟨false, .inner j⟩ (fun k hk => by
        injection hk with hk; subst hk
        intro hn
        have : (decRc (decRc h1 x) y).sh j = none := sh_eq_none.mpr hn
        rw [sh_decRc, sh_decRc, hs1, hsj] at this; cases this)
      exact this.congr (fun k => by
        show w k + pt ⟨false, .inner j⟩ k + 0 = w k + pt ⟨false, .inner j⟩ k
        omega)
    cases hlo : lookup h1 old ⟨false, x.tgt⟩ (push x.neg y) with
    | some j =>
      simp only
      obtain ⟨hjo, l, hsj⟩ := lookup_some hlo
      rw [hs1] at hsj
      have := hj.old_bel hp hjo hsj hxn hyn
      exact ⟨_, _, _, rfl, hfound j l this.1 hsj this.2⟩
    | none =>
      simp only
      cases hll : lookup h1 lo ⟨false, x.tgt⟩ (push x.neg y) with
      | some j =>
        simp only
        obtain ⟨hjl, l, hsj⟩ := lookup_some hll
        rw [hs1] at hsj
        obtain ⟨x', y', h1', _⟩ := hj.loC j hjl
        have hl : l = a := by rw [hsj] at h1'; cases h1'; rfl
        exact ⟨_, _, _, rfl, hfound j l (Or.inl hjl) hsj hl⟩
      | none =>
        simp only
        have hfree : h.sh (al h1) = none := by
          rw [← hs1]; exact sh_eq_none.mpr (hal h1)
        have hno : ∀ k, (k ∈ old ∨ k ∈ lo) → ∀ l,
            h.sh k ≠ some ⟨l, ⟨false, x.tgt⟩, push x.neg y⟩ := by
          intro k hk l
          rw [← hs1]
          rcases hk with hk | hk
          · exact lookup_none hlo k hk l
          · exact lookup_none hll k hk l
        have hsh : (h1.put (al h1) (some ⟨a, ⟨false, x.tgt⟩, push x.neg y, 2⟩)).sh =
            upd h.sh (al h1) (some ⟨a, ⟨false, x.tgt⟩, push x.neg y⟩) := by
          rw [sh_put_upd, hs1]; rfl
        refine ⟨_, _, _, rfl, ?_, ?_, ⟨fun k => if k = al h1 then 1 else 0, ?_, ?_⟩, ?_, ?_⟩
        · rw [hsh]; exact hj.alloc hp hfree (norm_ne hxy) rfl hxn hyn hno
        · exact Or.inr ⟨hxy, al h1, Or.inl (by simp), rfl, by rw [hsh]; simp⟩
        · intro k
          rw [List.count_cons]
          by_cases hk : k = al h1
          · subst hk; simp
          · have : ¬ (al h1 = k) := fun h' => hk h'.symm
            simp [hk, this]
        · intro k
          have h1k := hr1 k
          simp only [] at h1k
          have hrf := refs_put' h1 (al h1) k (some ⟨a, ⟨false, x.tgt⟩, push x.neg y, 2⟩)
          rw [sh_eq_none.mpr (hal h1)] at hrf
          simp only [cntS_none, Option.map, SNode.toNode, cntS_some, pt_mk_tgt, pt_push] at hrf
          rw [rcOf_put]
          by_cases hk : k = al h1
          · subst hk
            rw [rcOf_of_none (hal h1)] at h1k
            simp only [if_true]
            show 2 = w _ + pt ⟨false, .inner (al h1)⟩ (al h1) + 1 + _
            rw [pt_self]
            omega
          · simp only [hk, if_false]
            show _ = w k + pt ⟨false, .inner (al h1)⟩ k + 0 + _
            rw [pt_ne hk]
            omega
        · intro k hk
          rw [hsh, upd_ne]
          rintro rfl; exact hk hfree
        · intro k hk; simp [hk]
end

section
variable {a b : Nat} {P : Nat → Prop} {sh0 : Nat → Option Node} {old : List Nat} {ext : Nat → Nat}

/-- weight of a slot during the loop: its entries in the two new tables + the rest
(`old_upper`, tables of other levels, external handles) -/
def wOf (R : Nat → Nat) (up lo : List Nat) : Nat → Nat := fun k => up.count k + lo.count k + R k

/-- a child of an unvisited node is seen by the loop as it was at entry -/
theorem J.child_facts {sh : Nat → Option Node} {up lo todo : List Nat}
    (hp : Pre a b P sh0 old) (hj : J a b P sh0 old ext sh up lo todo) {i : Nat} {n : Node}
    (hi : i ∈ todo) (hn : sh0 i = some n) {c : Edge} (hc : c = n.t ∨ c = n.e) :
    (Bel a b P sh0 c ∨ AtB b sh0 c) ∧ (∀ k, c.tgt = .inner k → sh k = sh0 k) ∧
    (AtB b sh0 c → ∃ k, c.tgt = .inner k ∧ k ∈ up ∧ SurvL b sh0 sh k) := by
  obtain ⟨n', _, hn', hla⟩ := hj.todo_live hp hi
  rw [hn] at hn'; cases hn'
  have hk := hp.upKids i n hn hla
  have hba : Bel a b P sh0 c ∨ AtB b sh0 c := by rcases hc with rfl | rfl; exact hk.1; exact hk.2
  have hat : AtB b sh0 c → ∃ k, c.tgt = .inner k ∧ k ∈ up ∧ SurvL b sh0 sh k := by
    rintro ⟨k, m, hck, hm, hl⟩
    have hku : k ∈ up := by
      apply Classical.byContradiction
      intro hku
      have := (hj.dead k m hm hl hku).2 i n hn (Or.inr hi)
      rcases hc with hc | hc
      · exact this.1 (hc ▸ hck)
      · exact this.2 (hc ▸ hck)
    refine ⟨k, hck, hku, ?_⟩
    rcases hj.upC k hku with h | ⟨g1, _⟩
    · exact h
    · obtain ⟨m', hm', hl'⟩ := (hp.old_iff k).mp g1
      rw [hm] at hm'; cases hm'; exact absurd (hl'.symm.trans hl) hp.ab
  refine ⟨hba, ?_, hat⟩
  intro k hck
  rcases hba with hb | hb
  · obtain ⟨m, hm, h1, h2, _⟩ := (Bel_inner hck).mp hb
    rw [hj.frame k m hm h1 h2, hm]
  · obtain ⟨k', hk', _, m, hm, _, hs⟩ := hat hb
    rw [hck] at hk'; injection hk' with hk'; subst hk'
    rw [hs, hm]

theorem lvlIs_of_child {h : Heap} {c : Edge} (hs : ∀ k, c.tgt = .inner k → h.sh k = sh0 k)
    (hba : Bel a b P sh0 c ∨ AtB b sh0 c) : lvlIs h b c = true ↔ AtB b sh0 c := by
  rw [lvlIs_eq]
  cases hct : c.tgt with
  | term =>
    simp only [Bool.false_eq_true, false_iff]
    rintro ⟨k, m, hc, _⟩; rw [hct] at hc; cases hc
  | inner k =>
    simp only [hs k hct]
    rcases hba with hb | ⟨k', m, hc, hm, hl⟩
    · obtain ⟨m, hm, h1, h2, _⟩ := (Bel_inner hct).mp hb
      simp only [hm, beq_iff_eq]
      constructor
      · intro h; exact absurd h h2
      · rintro ⟨k', m', hc, hm', hl⟩
        rw [hct] at hc
        injection hc with hc; subst hc; rw [hm] at hm'; cases hm'; exact hl
    · rw [hct] at hc
      injection hc with hc; subst hc
      simp only [hm, beq_iff_eq, hl, true_iff]
      exact ⟨k, m, hct, hm, hl⟩

theorem cofE_of_child {h : Heap} {c : Edge} (hs : ∀ k, c.tgt = .inner k → h.sh k = sh0 k) :
    cofE Rules.bcdd h b c = cof0 b sh0 c := by
  rw [cofE_eq]
  unfold cof0
  cases hct : c.tgt with
  | term => rfl
  | inner k => simp only [hs k hct]

theorem upd_upd {α : Type} (f : Nat → α) (i : Nat) (v v' : α) : upd (upd f i v) i v' = upd f i v' := by
  funext k; simp only [upd]; split <;> rfl

theorem count_erase_add {l : List Nat} {j : Nat} (hj : j ∈ l) (k : Nat) :
    l.count k = (l.erase j).count k + (if k = j then 1 else 0) := by
  by_cases hk : k = j
  · subst hk
    have : 0 < l.count k := List.count_pos_iff.mpr hj
    rw [List.count_erase_self]; simp; omega
  · rw [List.count_erase_of_ne hk]; simp [hk]

/-- the orphan check for one old child `c` of the node just rewritten -/
theorem orphan_spec (hp : Pre a b P sh0 old) {R : Nat → Nat} (hR : ∀ k, ext k ≤ R k)
    {h : Heap} {up lo todo : List Nat} (hj : J a b P sh0 old ext h.sh up lo todo)
    (hr : RCx (wOf R up lo) h) {c : Edge}
    (hc : Bel a b P sh0 c ∨ ∃ k, c.tgt = .inner k ∧ k ∈ up ∧ SurvL b sh0 h.sh k) :
    ∃ h' up', orphan b (h, up) c = (h', up') ∧ J a b P sh0 old ext h'.sh up' lo todo ∧
      RCx (wOf R up' lo) h' ∧ (∀ k ∈ up', k ∈ up ∧ h'.sh k = h.sh k) ∧
      (∀ k ∈ up, k ∉ up' → c.tgt = .inner k) := by
  obtain ⟨cn, ct⟩ := c
  have hkeep : ∃ h' up', (h, up) = (h', up') ∧ J a b P sh0 old ext h'.sh up' lo todo ∧
      RCx (wOf R up' lo) h' ∧ (∀ k ∈ up', k ∈ up ∧ h'.sh k = h.sh k) ∧
      (∀ k ∈ up, k ∉ up' → ct = .inner k) :=
    ⟨h, up, rfl, hj, hr, fun k hk => ⟨hk, rfl⟩, fun k hk hk' => absurd hk hk'⟩
  unfold orphan
  cases ct with
  | term => exact hkeep
  | inner j =>
    have hct : (⟨cn, .inner j⟩ : Edge).tgt = .inner j := rfl
    simp only
    cases hm : h.get? j with
    | none => exact hkeep
    | some m =>
      simp only
      have hsj : h.sh j = some m.toNode := by simp [Heap.sh, hm]
      by_cases hcond : m.level = b ∧ m.rc = 1
      · rw [if_pos hcond]
        rcases hc with hb | ⟨k, hk, hju, hsv⟩
        · exfalso
          obtain ⟨n', hn', h1, h2, _⟩ := (Bel_inner hct).mp hb
          have := hj.frame j n' hn' h1 h2
          rw [hsj] at this; cases this
          exact h2 hcond.1
        · rw [hct] at hk; injection hk with hk; subst hk
          -- the lookup finds `j` itself
          have hlk : lookup h up m.t m.e = some j := by
            cases hl : lookup h up m.t m.e with
            | none => exact absurd hsj (lookup_none hl j hju m.level)
            | some j' =>
              obtain ⟨h1, l, h2⟩ := lookup_some hl
              rw [hj.up_unique hp h1 hju h2 hsj]
          unfold tblRemove
          rw [hlk]; simp only
          have hrj := hr j
          rw [rcOf_of_get? hm, hcond.2] at hrj
          simp only [wOf] at hrj
          have hcnt : 0 < up.count j := List.count_pos_iff.mpr hju
          have hz : h.refs j = 0 := by omega
          have hRj : R j = 0 := by omega
          have hext : ext j = 0 := by have := hR j; omega
          have hsh : (dropTableEdge h j).sh = upd h.sh j none := sh_dropTableEdge_free hm hcond.2
          refine ⟨_, _, rfl, ?_, ?_, ?_, ?_⟩
          · rw [hsh]
            exact hj.remove hp hju hsv hext (fun p m' hm' => no_child_of_refs_zero hz hm')
          · apply RCx_dropTableEdge _ hm
            refine hr.congr (fun k => ?_)
            have := count_erase_add hju k
            simp only [wOf]
            by_cases hk : k = j
            · subst hk; rw [pt_self]; simp only [if_true] at this; omega
            · rw [pt_ne hk]; simp only [hk, if_false] at this; omega
          · intro k hk
            have := hj.ndUp.mem_erase_iff.mp hk
            exact ⟨this.2, by rw [hsh, upd_ne _ _ this.1]⟩
          · intro k hk hk'
            by_cases hkj : k = j
            · rw [hkj]
            · exact absurd (hj.ndUp.mem_erase_iff.mpr ⟨hkj, hk⟩) hk'
      · rw [if_neg hcond]; exact hkeep
end

section
variable {a b : Nat} {P : Nat → Prop} {sh0 : Nat → Option Node} {old : List Nat} {ext : Nat → Nat}

/-- reference counters around the orphan check: the entries that stay in the new upper table
keep their counter, and an old child that stays had a counter different from 1 (it is still
referenced) -/
theorem orphan_rc (hp : Pre a b P sh0 old)
    {h : Heap} {up lo todo : List Nat} (hj : J a b P sh0 old ext h.sh up lo todo) {c : Edge}
    (hc : Bel a b P sh0 c ∨ ∃ k, c.tgt = .inner k ∧ k ∈ up ∧ SurvL b sh0 h.sh k)
    {h' : Heap} {up' : List Nat} (he : orphan b (h, up) c = (h', up')) :
    (∀ k ∈ up', h'.rcOf k = h.rcOf k) ∧
    (∀ k, c.tgt = .inner k → k ∈ up' → (∃ mk, h.sh k = some mk ∧ mk.level = b) → h.rcOf k ≠ 1) := by
  unfold orphan at he
  cases hct : c.tgt with
  | term =>
    rw [hct] at he
    cases he
    exact ⟨fun _ _ => rfl, fun k hk => by cases hk⟩
  | inner j =>
    rw [hct] at he
    simp only at he
    cases hm : h.get? j with
    | none =>
      rw [hm] at he; cases he
      refine ⟨fun _ _ => rfl, fun k hk _ hex => ?_⟩
      injection hk with hk; subst hk
      obtain ⟨mk, hmk, _⟩ := hex
      rw [sh_eq_none.mpr hm] at hmk; cases hmk
    | some m =>
      rw [hm] at he
      simp only at he
      have hsj : h.sh j = some m.toNode := by simp [Heap.sh, hm]
      by_cases hcond : m.level = b ∧ m.rc = 1
      · rw [if_pos hcond] at he
        rcases hc with hb | ⟨k, hk, hju, hsv⟩
        · exfalso
          obtain ⟨n', hn', h1, h2, _⟩ := (Bel_inner hct).mp hb
          have := hj.frame j n' hn' h1 h2
          rw [hsj] at this; cases this
          exact h2 hcond.1
        · rw [hct] at hk; injection hk with hk; subst hk
          have hlk : lookup h up m.t m.e = some j := by
            cases hl : lookup h up m.t m.e with
            | none => exact absurd hsj (lookup_none hl j hju m.level)
            | some j' =>
              obtain ⟨h1, l, h2⟩ := lookup_some hl
              rw [hj.up_unique hp h1 hju h2 hsj]
          unfold tblRemove at he
          rw [hlk] at he; simp only at he
          cases he
          have hbel := survL_bel hp hsv hsj
          refine ⟨fun k hk => ?_, fun k hk hk' _ => ?_⟩
          · have hkj := hj.ndUp.mem_erase_iff.mp hk
            -- `k` is not a child of the freed node: its children are below, `k` is in the table
            have hnb : ∀ c' : Edge, c'.tgt = .inner k → ¬ Bel a b P sh0 c' := by
              intro c' hc' hbc
              obtain ⟨nk, hnk, g1, g2, _⟩ := (Bel_inner hc').mp hbc
              rcases hj.upC k hkj.2 with ⟨n0, f1, f2, _⟩ | ⟨f1, _⟩
              · rw [hnk] at f1; cases f1; exact g2 f2
              · obtain ⟨n0, f2, f3⟩ := (hp.old_iff k).mp f1
                rw [hnk] at f2; cases f2; exact g1 f3
            have ht : pt m.t k = 0 := by
              simp only [pt]; rw [if_neg]; intro h'; exact hnb _ h' hbel.1
            have he' : pt m.e k = 0 := by
              simp only [pt]; rw [if_neg]; intro h'; exact hnb _ h' hbel.2
            unfold dropTableEdge
            rw [hm]; simp only [hcond.2, if_true]
            rw [rcOf_decRc, rcOf_decRc, rcOf_put, if_neg hkj.1, ht, he']
            omega
          · injection hk with hk; subst hk
            exact absurd hk' (fun h' => (hj.ndUp.mem_erase_iff.mp h').1 rfl)
      · rw [if_neg hcond] at he; cases he
        refine ⟨fun _ _ => rfl, fun k hk _ hex => ?_⟩
        injection hk with hk; subst hk
        obtain ⟨mk, hmk, hlv⟩ := hex
        rw [hsj] at hmk; cases hmk
        rw [rcOf_of_get? hm]
        exact fun h1 => hcond ⟨hlv, h1⟩

/-- the loop invariant: shapes (`J`) and reference counts -/
structure LInv (a b : Nat) (P : Nat → Prop) (sh0 : Nat → Option Node) (old : List Nat) (ext : Nat → Nat)
    (R : Nat → Nat) (st : LS) (todo : List Nat) : Prop where
  j : J a b P sh0 old ext st.h.sh st.up st.lo todo
  rc : RCx (wOf R st.up st.lo) st.h

theorem stepNode_move (hp : Pre a b P sh0 old) {R : Nat → Nat} {st : LS}
    {i : Nat} {todo : List Nat} (hinv : LInv a b P sh0 old ext R st (i :: todo))
    {m : SNode} (hm : st.h.get? i = some m) (hn : sh0 i = some m.toNode)
    (ht : Bel a b P sh0 m.t) (he : Bel a b P sh0 m.e) :
    LInv a b P sh0 old ext R
      (let r := tblInsert (incRc st.h ⟨false, .inner i⟩) st.lo i; { st with h := r.1, lo := r.2 }) todo := by
  have hj := hinv.j
  have hsi : st.h.sh i = some m.toNode := by simp [Heap.sh, hm]
  have hfresh : tblInsert (incRc st.h ⟨false, .inner i⟩) st.lo i = (incRc st.h ⟨false, .inner i⟩, i :: st.lo) := by
    apply tblInsert_fresh (l := m.level) (t := m.t) (e := m.e)
    · rw [sh_incRc]; exact hsi
    · intro k hk l' hs
      rw [sh_incRc] at hs
      obtain ⟨x, y, h1, _⟩ := hj.loC k hk
      rw [hs] at h1; injection h1 with h1; injection h1 with e1 e2 e3
      obtain ⟨n', h2, _, h3⟩ := hj.todo_live hp (show i ∈ i :: todo by simp)
      rw [hsi] at h2; cases h2
      refine hj.loT k hk i (by simp) ?_
      rw [hs, hsi, e1, ← h3]; rfl
  simp only [hfresh]
  refine ⟨?_, ?_⟩
  · show J a b P sh0 old ext (incRc st.h ⟨false, .inner i⟩).sh st.up (i :: st.lo) todo
    rw [sh_incRc]
    exact hj.move hp hn ht he
  · show RCx (wOf R st.up (i :: st.lo)) (incRc st.h ⟨false, .inner i⟩)
    have := hinv.rc.incRc ⟨false, .inner i⟩ (fun k hk => by injection hk with hk; subst hk; rw [hm]; simp)
    refine this.congr (fun k => ?_)
    simp only [wOf, List.count_cons]
    by_cases hk : k = i
    · subst hk; rw [pt_self]; simp; omega
    · have h2 : ¬ (i = k) := fun h' => hk h'.symm
      rw [pt_ne hk]; simp [h2]

theorem SurvL.congr {sh sh' : Nat → Option Node} {k : Nat} (h : SurvL b sh0 sh k) (he : sh' k = sh k) :
    SurvL b sh0 sh' k := by
  obtain ⟨n, h1, h2, h3⟩ := h
  exact ⟨n, h1, h2, he ▸ h3⟩

/-- the loop state after rewriting entry `i` (`gt`, `ge`: the grandchildren) -/
def rewriteLS (al : Heap → Nat) (a b : Nat) (old : List Nat) (st : LS) (i : Nat) (m : SNode)
    (gt ge : Edge × Edge) : LS :=
  let r0 := mkChild Rules.bcdd al a old (st.h, st.lo) gt.1 ge.1
  let r1 := mkChild Rules.bcdd al a old r0.1 gt.2 ge.2
  let h2 := setChildT r1.1.1 i r0.2
  let h3 := setChildE h2 i r1.2
  let h4 := setLevel h3 i b
  let r5 := tblInsert (incRc h4 ⟨false, .inner i⟩) st.up i
  let r6 := orphan b r5 m.t
  let r7 := if m.e.tgt = m.t.tgt then r6 else orphan b r6 m.e
  { h := r7.1, up := r7.2, lo := r1.1.2 }

theorem stepNode_rewrite_full {al : Heap → Nat} (hal : ∀ h : Heap, h.get? (al h) = none)
    (hp : Pre a b P sh0 old) {R : Nat → Nat} (hR : ∀ k, ext k ≤ R k) {st : LS}
    {i : Nat} {todo : List Nat} (hinv : LInv a b P sh0 old ext R st (i :: todo))
    {m : SNode} (hm : st.h.get? i = some m) (hn : sh0 i = some m.toNode)
    (hnb : ¬ (Bel a b P sh0 m.t ∧ Bel a b P sh0 m.e)) :
    LInv a b P sh0 old ext R
      (rewriteLS al a b old st i m (cof0 b sh0 m.t) (cof0 b sh0 m.e)) todo ∧
    (∀ k ∈ (rewriteLS al a b old st i m (cof0 b sh0 m.t) (cof0 b sh0 m.e)).up, k = i ∨ k ∈ st.up) ∧
    (∀ k, (m.t.tgt = .inner k ∨ m.e.tgt = .inner k) →
      k ∈ (rewriteLS al a b old st i m (cof0 b sh0 m.t) (cof0 b sh0 m.e)).up →
      (∃ mk, sh0 k = some mk ∧ mk.level = b) →
      (rewriteLS al a b old st i m (cof0 b sh0 m.t) (cof0 b sh0 m.e)).h.rcOf k ≠ 1) ∧
    (∀ k ∈ st.up, k ∉ (rewriteLS al a b old st i m (cof0 b sh0 m.t) (cof0 b sh0 m.e)).up →
      (m.t.tgt = .inner k ∨ m.e.tgt = .inner k)) := by
  unfold rewriteLS
  have hj := hinv.j
  have hit : i ∈ i :: todo := by simp
  obtain ⟨n', hsi, hn', hla⟩ := hj.todo_live hp hit
  rw [hn] at hn'; cases hn'
  have hla : m.level = a := hla
  have hk := hp.upKids i _ hn hla
  have hbt : Bel a b P sh0 (cof0 b sh0 m.t).1 ∧ Bel a b P sh0 (cof0 b sh0 m.t).2 := bel_cof0 hp hk.1
  have hbe : Bel a b P sh0 (cof0 b sh0 m.e).1 ∧ Bel a b P sh0 (cof0 b sh0 m.e).2 := bel_cof0 hp hk.2
  have hcf_t := hj.child_facts hp hit hn (c := m.t) (Or.inl rfl)
  have hcf_e := hj.child_facts hp hit hn (c := m.e) (Or.inr rfl)
  have hiu : i ∉ st.up := fun h => hj.dUT i h hit
  obtain ⟨h0', lo0, c1, e0, J0, M0, ⟨d0, hd0, RC0⟩, live0, sub0⟩ :=
    mkChild_spec hal hp hj hinv.rc hbt.1 hbe.1
  obtain ⟨h1', lo1, c2, e1, J1, M1, ⟨d1, hd1, RC1⟩, live1, sub1⟩ :=
    mkChild_spec hal hp J0 RC0 hbt.2 hbe.2
  simp only [e0, e1]
  have hlive : ∀ k, st.h.sh k ≠ none → h1'.sh k = st.h.sh k := fun k hk => by
    rw [live1 k (by rw [live0 k hk]; exact hk), live0 k hk]
  have M0' : MkR a h1'.sh lo1 (i :: todo) (cof0 b sh0 m.t).1 (cof0 b sh0 m.e).1 c1 :=
    M0.mono (fun j hj' hs => ⟨by rcases hj' with h | h; exact Or.inl (sub1 j h); exact Or.inr h,
      live1 j (by simp [hs])⟩)
  have hsi1 : h1'.sh i = some ⟨a, m.t, m.e⟩ := by
    rw [hlive i (by simp [hsi]), hsi, ← hla]; rfl
  -- set_child 0
  have sh2 := sh_setChildT hsi1 c1
  have RC2 : RCx (fun k => wOf R st.up st.lo k + d0 k + d1 k + pt c2 k) (setChildT h1' i c1) :=
    RCx_setChildT c1 (RC1.congr (fun k => by rcarith)) hsi1
  have hsi2 : (setChildT h1' i c1).sh i = some ⟨a, c1, m.e⟩ := by rw [sh2]; simp
  -- set_child 1
  have sh3 := sh_setChildE hsi2 c2
  have RC3 : RCx (fun k => wOf R st.up st.lo k + d0 k + d1 k) (setChildE (setChildT h1' i c1) i c2) :=
    RCx_setChildE c2 RC2 hsi2
  have hsi3 : (setChildE (setChildT h1' i c1) i c2).sh i = some ⟨a, c1, c2⟩ := by rw [sh3]; simp
  -- set_level
  have sh4 := sh_setLevel hsi3 b
  have RC4 := RCx_setLevel i b RC3
  rw [sh3, sh2, upd_upd, upd_upd] at sh4
  generalize hh4 : setLevel (setChildE (setChildT h1' i c1) i c2) i b = h4 at sh4 RC4
  -- insert into the new upper table
  have hfresh : tblInsert (incRc h4 ⟨false, .inner i⟩) st.up i = (incRc h4 ⟨false, .inner i⟩, i :: st.up) := by
    apply tblInsert_fresh (l := b) (t := c1) (e := c2)
    · rw [sh_incRc, sh4]; simp
    · intro k hk l' hs
      have hki : k ≠ i := fun h => hiu (h ▸ hk)
      rw [sh_incRc, sh4, upd_ne _ _ hki] at hs
      exact hki (J1.rew_vs_up hp hn hla M0' M1 hk hs)
  simp only [hfresh]
  have sh5 : (incRc h4 ⟨false, .inner i⟩).sh = upd h1'.sh i (some ⟨b, c1, c2⟩) := by rw [sh_incRc, sh4]
  have J5 : J a b P sh0 old ext (incRc h4 ⟨false, .inner i⟩).sh (i :: st.up) lo1 todo := by
    rw [sh5]; exact J1.rewrite hp hn hnb M0' M1
  have RC5 : RCx (wOf R (i :: st.up) lo1) (incRc h4 ⟨false, .inner i⟩) := by
    have := RC4.incRc ⟨false, .inner i⟩ (fun k hk => by
      cases hk
      intro hn'
      have : h4.sh i = none := sh_eq_none.mpr hn'
      rw [sh4] at this; simp at this)
    refine this.congr (fun k => ?_)
    have e0k := hd0 k
    have e1k := hd1 k
    simp only [wOf, List.count_cons]
    by_cases hk : k = i
    · subst hk; rw [pt_self]; simp; omega
    · have h2 : ¬ (i = k) := fun h' => hk h'.symm
      rw [pt_ne hk]; simp [h2]; omega
  generalize incRc h4 ⟨false, .inner i⟩ = h5 at sh5 J5 RC5
  -- the old children as seen after the rewrite
  have hchild : ∀ c, (Bel a b P sh0 c ∨ AtB b sh0 c) →
      (AtB b sh0 c → ∃ k, c.tgt = .inner k ∧ k ∈ st.up ∧ SurvL b sh0 st.h.sh k) →
      Bel a b P sh0 c ∨ ∃ k, c.tgt = .inner k ∧ k ∈ i :: st.up ∧ SurvL b sh0 h5.sh k := by
    intro c hc hat
    rcases hc with hc | hc
    · exact Or.inl hc
    · obtain ⟨k, hck, hku, hsv⟩ := hat hc
      refine Or.inr ⟨k, hck, by simp [hku], hsv.congr ?_⟩
      have hki : k ≠ i := fun h => hiu (h ▸ hku)
      rw [sh5, upd_ne _ _ hki]
      exact hlive k (hj.up_live hku)
  obtain ⟨h6, up6, e6, J6, RC6, keep6, rem6⟩ :=
    orphan_spec hp hR J5 RC5 (hchild m.t hcf_t.1 hcf_t.2.2)
  have rc6 := orphan_rc hp J5 (hchild m.t hcf_t.1 hcf_t.2.2) e6
  -- an old child at the old lower level is seen unchanged after the rewrite
  have hsurv5 : ∀ c, (Bel a b P sh0 c ∨ AtB b sh0 c) →
      (AtB b sh0 c → ∃ k, c.tgt = .inner k ∧ k ∈ st.up ∧ SurvL b sh0 st.h.sh k) →
      ∀ k, c.tgt = .inner k → (∃ mk, sh0 k = some mk ∧ mk.level = b) →
      ∃ mk, h5.sh k = some mk ∧ mk.level = b := by
    intro c hc1 hc2 k hck hex
    rcases hchild c hc1 hc2 with hb | ⟨k', hck', _, n0, f1, f2, f3⟩
    · obtain ⟨nk, hnk, _, g2, _⟩ := (Bel_inner hck).mp hb
      obtain ⟨mk, hmk, hlv⟩ := hex
      rw [hnk] at hmk; cases hmk; exact absurd hlv g2
    · rw [hck] at hck'; injection hck' with hck'; subst hck'
      exact ⟨n0, f3, f2⟩
  simp only [e6]
  by_cases hte : m.e.tgt = m.t.tgt
  · simp only [hte, if_true]
    refine ⟨⟨J6, RC6⟩, fun k hk => ?_, fun k hc hk hex => ?_, fun k hk hk' => ?_⟩
    · rcases List.mem_cons.mp (keep6 k hk).1 with h | h
      · exact Or.inl h
      · exact Or.inr h
    · have hct : m.t.tgt = .inner k := by rcases hc with h | h; exact h; exact hte ▸ h
      rw [rc6.1 k hk]
      exact rc6.2 k hct hk (hsurv5 m.t hcf_t.1 hcf_t.2.2 k hct hex)
    · exact Or.inl (rem6 k (by simp [hk]) hk')
  · simp only [hte, if_false]
    have hce : Bel a b P sh0 m.e ∨ ∃ k, m.e.tgt = .inner k ∧ k ∈ up6 ∧ SurvL b sh0 h6.sh k := by
      rcases hchild m.e hcf_e.1 hcf_e.2.2 with h | ⟨k, hck, hku, hsv⟩
      · exact Or.inl h
      · have hk6 : k ∈ up6 := by
          apply Classical.byContradiction
          intro hk6
          exact hte (hck.trans (rem6 k hku hk6).symm)
        exact Or.inr ⟨k, hck, hk6, hsv.congr (keep6 k hk6).2⟩
    obtain ⟨h7, up7, e7, J7, RC7, keep7, rem7⟩ := orphan_spec hp hR J6 RC6 hce
    have rc7 := orphan_rc hp J6 hce e7
    simp only [e7]
    refine ⟨⟨J7, RC7⟩, fun k hk => ?_, fun k hc hk hex => ?_, fun k hk hk' => ?_⟩
    · rcases List.mem_cons.mp (keep6 k (keep7 k hk).1).1 with h | h
      · exact Or.inl h
      · exact Or.inr h
    · have hk6 := (keep7 k hk).1
      rw [rc7.1 k hk]
      rcases hc with hct | hce'
      · rw [rc6.1 k hk6]
        exact rc6.2 k hct hk6 (hsurv5 m.t hcf_t.1 hcf_t.2.2 k hct hex)
      · obtain ⟨mk, hmk, hlv⟩ := hsurv5 m.e hcf_e.1 hcf_e.2.2 k hce' hex
        exact rc7.2 k hce' hk ⟨mk, by rw [(keep6 k hk6).2]; exact hmk, hlv⟩
    · by_cases hk6 : k ∈ up6
      · exact Or.inr (rem7 k hk6 hk')
      · exact Or.inl (rem6 k (by simp [hk]) hk6)

theorem stepNode_rewrite {al : Heap → Nat} (hal : ∀ h : Heap, h.get? (al h) = none)
    (hp : Pre a b P sh0 old) {R : Nat → Nat} (hR : ∀ k, ext k ≤ R k) {st : LS}
    {i : Nat} {todo : List Nat} (hinv : LInv a b P sh0 old ext R st (i :: todo))
    {m : SNode} (hm : st.h.get? i = some m) (hn : sh0 i = some m.toNode)
    (hnb : ¬ (Bel a b P sh0 m.t ∧ Bel a b P sh0 m.e)) :
    LInv a b P sh0 old ext R
      (rewriteLS al a b old st i m (cof0 b sh0 m.t) (cof0 b sh0 m.e)) todo :=
  (stepNode_rewrite_full hal hp hR hinv hm hn hnb).1
end

end OxiddModel.Reorder.SwapStoreC
