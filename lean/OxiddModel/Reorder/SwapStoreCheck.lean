import OxiddModel.Reorder.SwapStoreFinal

/-!
# An executable check of the store invariant

`checkInv e s` decides `Inv (extOf e) s` for a concrete store (`e` lists the number of external
handles per slot); `checkInv_sound` is the soundness direction. It is used for the non-vacuity
examples and by the `reorder-store` driver (which evaluates it after every swap).
-/
namespace OxiddModel.Reorder.SwapStore
open OxiddModel.Bdd OxiddModel.Bdd.Refine

/-- external handle counts given as a list indexed by slot id -/
def extOf (e : List Nat) : Nat → Nat := fun k => e.getD k 0

def okChild (h : Heap) (lvl : Nat) : Edge → Bool
  | .term _ => true
  | .inner k =>
    match h.sh k with
    | some m => decide (lvl < m.level)
    | none => false

def checkInv (e : List Nat) (s : SStore) : Bool :=
  let n := s.h.slots.length
  ((List.range s.tables.length).all fun l => (s.table l).all fun i =>
      match s.h.sh i with
      | some nd => nd.level == l
      | none => false) &&
  ((List.range n).all fun i =>
      match s.h.sh i with
      | some nd => (s.table nd.level).contains i
      | none => true) &&
  ((List.range s.tables.length).all fun l => decide (s.table l).Nodup) &&
  ((List.range n).all fun i =>
      match s.h.sh i with
      | some nd => okChild s.h nd.level nd.t && okChild s.h nd.level nd.e && nd.t != nd.e
      | none => true) &&
  ((List.range n).all fun i => (List.range n).all fun j =>
      (s.h.sh i).isNone || s.h.sh i != s.h.sh j || i == j) &&
  ((List.range n).all fun k => s.h.rcOf k == live01 s.h k + e.getD k 0 + s.h.refs k) &&
  decide (e.length ≤ n)

theorem sh_none_of_ge {h : Heap} {i : Nat} (hi : h.slots.length ≤ i) : h.sh i = none := by
  unfold Heap.sh Heap.get?
  rw [List.getElem?_eq_none hi]; rfl

theorem lt_of_sh_some {h : Heap} {i : Nat} {n : Node} (hs : h.sh i = some n) :
    i < h.slots.length := by
  apply Classical.byContradiction
  intro hi
  rw [sh_none_of_ge (by omega)] at hs; cases hs

theorem sum_map_zero {α : Type} (f : α → Nat) (l : List α) (hz : ∀ x ∈ l, f x = 0) :
    (l.map f).sum = 0 := by
  induction l with
  | nil => rfl
  | cons x xs ih =>
    simp only [List.map_cons, List.sum_cons]
    rw [hz x (by simp), ih (fun y hy => hz y (by simp [hy]))]

theorem refs_eq_zero {h : Heap} {k : Nat}
    (hno : ∀ p nd, h.sh p = some nd → nd.t ≠ .inner k ∧ nd.e ≠ .inner k) : h.refs k = 0 := by
  unfold Heap.refs
  apply sum_map_zero
  intro o ho
  obtain ⟨p, hp, rfl⟩ := List.mem_iff_getElem.mp ho
  rw [cntO_eq_cntS]
  cases hs : h.slots[p] with
  | none => rfl
  | some nd =>
    have : h.sh p = some nd.toNode := by
      unfold Heap.sh Heap.get?
      rw [List.getElem?_eq_getElem hp, hs]; rfl
    have := hno p _ this
    simp only [Option.map, cntS_some, pt, this.1, this.2, if_false]

theorem table_of_ge {s : SStore} {l : Nat} (hl : s.tables.length ≤ l) : s.table l = [] := by
  unfold SStore.table
  rw [List.getD_eq_getElem?_getD, List.getElem?_eq_none hl]; rfl

theorem checkInv_sound {e : List Nat} {s : SStore} (hc : checkInv e s = true) :
    Inv (extOf e) s := by
  simp only [checkInv, Bool.and_eq_true, List.all_eq_true, List.mem_range, decide_eq_true_eq] at hc
  obtain ⟨⟨⟨⟨⟨⟨c1, c2⟩, c3⟩, c4⟩, c5⟩, c6⟩, c7⟩ := hc
  have hkids : ∀ i nd, s.h.sh i = some nd →
      okChild s.h nd.level nd.t = true ∧ okChild s.h nd.level nd.e = true ∧ nd.t ≠ nd.e := by
    intro i nd hs
    have := c4 i (lt_of_sh_some hs)
    rw [hs] at this
    simp only [Bool.and_eq_true, bne_iff_ne, ne_eq] at this
    exact ⟨this.1.1, this.1.2, this.2⟩
  have hok : ∀ lvl c k, okChild s.h lvl c = true → c = .inner k →
      ∃ m, s.h.sh k = some m ∧ lvl < m.level := by
    intro lvl c k h hk
    subst hk
    simp only [okChild] at h
    cases hm : s.h.sh k with
    | none => rw [hm] at h; cases h
    | some m => rw [hm] at h; exact ⟨m, rfl, by simpa using h⟩
  refine { tbl_iff := ?_, tbl_nodup := ?_, ordered := ?_, nored := ?_, uniq := ?_, rc := ?_ }
  · intro l i
    constructor
    · intro hi
      by_cases hl : l < s.tables.length
      · have := c1 l hl i hi
        cases hs : s.h.sh i with
        | none => rw [hs] at this; cases this
        | some nd => rw [hs] at this; exact ⟨nd, rfl, by simpa using this⟩
      · rw [table_of_ge (by omega)] at hi; cases hi
    · rintro ⟨nd, hs, hl⟩
      have := c2 i (lt_of_sh_some hs)
      rw [hs] at this
      subst hl
      simpa using this
  · intro l
    by_cases hl : l < s.tables.length
    · exact c3 l hl
    · rw [table_of_ge (by omega)]; exact List.nodup_nil
  · intro i nd hs k hk
    obtain ⟨h1, h2, _⟩ := hkids i nd hs
    rcases hk with hk | hk
    · exact hok _ _ k h1 hk
    · exact hok _ _ k h2 hk
  · intro i nd hs
    exact (hkids i nd hs).2.2
  · intro i j nd hi hj
    have := c5 i (lt_of_sh_some hi) j (lt_of_sh_some hj)
    rw [hi, hj] at this
    simpa using this
  · intro k
    by_cases hk : k < s.h.slots.length
    · have := c6 k hk
      show _ = live01 s.h k + extOf e k + _
      simpa [extOf] using this
    · have hn : s.h.sh k = none := sh_none_of_ge (by omega)
      have hz : s.h.refs k = 0 := by
        apply refs_eq_zero
        intro p nd hs
        obtain ⟨h1, h2, _⟩ := hkids p nd hs
        constructor
        · intro hc
          obtain ⟨m, hm, _⟩ := hok _ _ k h1 hc
          rw [hn] at hm; cases hm
        · intro hc
          obtain ⟨m, hm, _⟩ := hok _ _ k h2 hc
          rw [hn] at hm; cases hm
      have he : extOf e k = 0 := by
        unfold extOf
        rw [List.getD_eq_getElem?_getD, List.getElem?_eq_none (by omega)]; rfl
      show _ = live01 s.h k + extOf e k + _
      rw [rcOf_of_none (sh_eq_none.mp hn), hz, he]
      simp [live01, hn]

end OxiddModel.Reorder.SwapStore

namespace OxiddModel.Reorder.SwapStore
open OxiddModel.Bdd OxiddModel.Bdd.BDD OxiddModel.Bdd.Refine

/-- unfold an edge to the tree it denotes (fuel = maximal depth) -/
def treeOf (h : Heap) : Nat → Edge → Option BDD
  | _, .term b => some (.leaf b)
  | 0, .inner _ => none
  | f + 1, .inner i =>
    match h.sh i with
    | some n =>
      match treeOf h f n.t, treeOf h f n.e with
      | some a, some b => some (.node n.level a b)
      | _, _ => none
    | none => none

theorem treeOf_sound {h : Heap} {f : Nat} {x : Edge} {t : BDD} (ht : treeOf h f x = some t) :
    Denotes h.abs x t := by
  induction f generalizing x t with
  | zero =>
    cases x with
    | term b => simp only [treeOf] at ht; cases ht; exact .term
    | inner i => simp [treeOf] at ht
  | succ f ih =>
    cases x with
    | term b => simp only [treeOf] at ht; cases ht; exact .term
    | inner i =>
      simp only [treeOf] at ht
      cases hs : h.sh i with
      | none => rw [hs] at ht; cases ht
      | some n =>
        rw [hs] at ht
        simp only at ht
        cases ha : treeOf h f n.t with
        | none => rw [ha] at ht; cases ht
        | some a =>
          cases hb : treeOf h f n.e with
          | none => rw [ha, hb] at ht; cases ht
          | some b =>
            rw [ha, hb] at ht
            cases ht
            obtain ⟨l, t', e'⟩ := n
            exact .inner (by rw [abs_get?]; exact hs) (ih ha) (ih hb)

end OxiddModel.Reorder.SwapStore
