import OxiddModel.Reorder.SwapStoreLoop

/-!
# `level_down` on the whole store: the store invariant is re-established

`Inv ext s`: the invariant of a store with per-level unique tables — tables partition the live
slots by their stored level, edges go to live slots of strictly larger level (ordered), no
redundant node, no duplicate, and the reference counter of every slot is exactly
`[slot is in a table] + external handles + parent edges`.
-/
namespace OxiddModel.Reorder.SwapStore
open OxiddModel.Bdd OxiddModel.Bdd.Refine

theorem abs_get? (h : Heap) (i : Nat) : h.abs.get? i = h.sh i := by
  unfold Heap.abs Store.get? Heap.sh Heap.get?
  simp only [List.getElem?_toArray, List.getElem?_map]
  cases h.slots[i]? with
  | none => rfl
  | some o => cases o <;> rfl

/-! ## `update_level_no` -/

/-- relabel a shape -/
def relabel (l : Nat) (o : Option Node) : Option Node := o.map fun n => ⟨l, n.t, n.e⟩

theorem relabel_relabel (l : Nat) (o : Option Node) : relabel l (relabel l o) = relabel l o := by
  cases o <;> rfl

theorem sh_setLevel' (h : Heap) (i l k : Nat) :
    (setLevel h i l).sh k = if k = i then relabel l (h.sh i) else h.sh k := by
  unfold setLevel
  cases hm : h.get? i with
  | none =>
    simp only
    split
    · rename_i hk; subst hk; rw [sh_eq_none.mpr hm]; rfl
    · rfl
  | some m =>
    simp only [sh_put]
    split
    · simp [Heap.sh, hm, relabel, SNode.toNode]
    · rfl

theorem sh_updateLevelNo (h : Heap) (tbl : List Nat) (l k : Nat) :
    (updateLevelNo h tbl l).sh k = if k ∈ tbl then relabel l (h.sh k) else h.sh k := by
  unfold updateLevelNo
  induction tbl generalizing h with
  | nil => simp
  | cons i rest ih =>
    simp only [List.foldl_cons]
    rw [ih, sh_setLevel']
    by_cases hk : k = i
    · subst hk
      simp only [if_true, List.mem_cons, true_or]
      split
      · exact relabel_relabel _ _
      · rfl
    · simp [hk]

theorem RCx_updateLevelNo {w : Nat → Nat} {h : Heap} (hr : RCx w h) (tbl : List Nat) (l : Nat) :
    RCx w (updateLevelNo h tbl l) := by
  unfold updateLevelNo
  induction tbl generalizing h with
  | nil => exact hr
  | cons i rest ih => exact ih (RCx_setLevel i l hr)

/-! ## the tables after `level_down` -/

theorem table_set (tables : List (List Nat)) (u : Nat) (up lo : List Nat)
    (hu : u + 1 < tables.length) (l : Nat) :
    (SStore.mk h ((tables.set u up).set (u + 1) lo)).table l =
      if l = u + 1 then lo else if l = u then up else (SStore.mk h tables).table l := by
  unfold SStore.table
  simp only [List.getD_eq_getElem?_getD, List.getElem?_set, List.length_set]
  by_cases h1 : l = u + 1
  · subst h1; simp [hu]
  · by_cases h2 : l = u
    · subst h2
      have h5 : l < tables.length := by omega
      simp [h5]
    · have h3 : ¬ (u + 1 = l) := fun h => h1 h.symm
      have h4 : ¬ (u = l) := fun h => h2 h.symm
      simp [h1, h2, h3, h4]

/-! ## the store invariant -/

/-- `1` for a live slot -/
def live01 (h : Heap) (k : Nat) : Nat := if (h.sh k).isSome then 1 else 0

structure Inv (ext : Nat → Nat) (s : SStore) : Prop where
  tbl_iff : ∀ l i, i ∈ s.table l ↔ ∃ n, s.h.sh i = some n ∧ n.level = l
  tbl_nodup : ∀ l, (s.table l).Nodup
  ordered : ∀ i n, s.h.sh i = some n → ∀ k, (n.t = .inner k ∨ n.e = .inner k) →
    ∃ m, s.h.sh k = some m ∧ n.level < m.level
  nored : ∀ i n, s.h.sh i = some n → n.t ≠ n.e
  uniq : ∀ i j n, s.h.sh i = some n → s.h.sh j = some n → i = j
  rc : RCx (fun k => live01 s.h k + ext k) s.h

section
variable {ext : Nat → Nat} {s : SStore} {u : Nat}

/-- "below both levels" for `level_down u` -/
abbrev BelowP (u : Nat) : Nat → Prop := fun l => u + 1 < l

theorem Inv.bel_of_child (hinv : Inv ext s) {i : Nat} {n : Node} (hn : s.h.sh i = some n)
    (hl : u + 1 ≤ n.level) {c : Edge} (hc : c = n.t ∨ c = n.e) :
    Bel u (u + 1) (BelowP u) s.h.sh c := by
  cases c with
  | term v => trivial
  | inner k =>
    obtain ⟨m, hm, hlt⟩ := hinv.ordered i n hn k (by rcases hc with h | h; exact Or.inl h.symm; exact Or.inr h.symm)
    exact ⟨m, hm, by omega, by omega, by show u + 1 < m.level; omega⟩

theorem Inv.bel_or_atB (hinv : Inv ext s) {i : Nat} {n : Node} (hn : s.h.sh i = some n)
    (hl : n.level = u) {c : Edge} (hc : c = n.t ∨ c = n.e) :
    Bel u (u + 1) (BelowP u) s.h.sh c ∨ AtB (u + 1) s.h.sh c := by
  cases c with
  | term v => exact Or.inl trivial
  | inner k =>
    obtain ⟨m, hm, hlt⟩ := hinv.ordered i n hn k (by rcases hc with h | h; exact Or.inl h.symm; exact Or.inr h.symm)
    by_cases h1 : m.level = u + 1
    · exact Or.inr ⟨k, m, rfl, hm, h1⟩
    · exact Or.inl ⟨m, hm, by omega, by omega, by show u + 1 < m.level; omega⟩

theorem Inv.pre (hinv : Inv ext s) : Pre u (u + 1) (BelowP u) s.h.sh (s.table u) where
  ab := by omega
  old_iff := hinv.tbl_iff u
  old_nodup := hinv.tbl_nodup u
  lowKids := fun i n hn hl =>
    ⟨hinv.bel_of_child hn (by omega) (Or.inl rfl), hinv.bel_of_child hn (by omega) (Or.inr rfl)⟩
  upKids := fun i n hn hl => ⟨hinv.bel_or_atB hn hl (Or.inl rfl), hinv.bel_or_atB hn hl (Or.inr rfl)⟩
  nored := hinv.nored
  uniq := hinv.uniq

/-- table entries of the levels other than `u`, `u + 1` -/
def oth (u : Nat) (sh : Nat → Option Node) (k : Nat) : Nat :=
  match sh k with
  | some n => if n.level = u ∨ n.level = u + 1 then 0 else 1
  | none => 0

theorem Inv.count_table (hinv : Inv ext s) (l k : Nat) :
    (s.table l).count k = match s.h.sh k with
      | some n => if n.level = l then 1 else 0
      | none => 0 := by
  rw [(hinv.tbl_nodup l).count]
  have := hinv.tbl_iff l k
  cases hs : s.h.sh k with
  | none =>
    rw [hs] at this
    simp only
    rw [if_neg]; intro h; obtain ⟨n, hn, _⟩ := this.mp h; cases hn
  | some n =>
    rw [hs] at this
    simp only
    by_cases hl : n.level = l
    · rw [if_pos (this.mpr ⟨n, rfl, hl⟩), if_pos hl]
    · rw [if_neg hl, if_neg]
      intro h; obtain ⟨n', hn', hl'⟩ := this.mp h; cases hn'; exact hl hl'

/-- the invariant at loop entry -/
theorem Inv.linv_init (hinv : Inv ext s) {order : List Nat}
    (hord : ∀ i, i ∈ order ↔ i ∈ s.table u) (hond : order.Nodup) :
    LInv u (u + 1) (BelowP u) s.h.sh (s.table u) ext
      (fun k => (s.table u).count k + oth u s.h.sh k + ext k)
      ⟨s.h, s.table (u + 1), []⟩ order where
  j := J.init hinv.pre (hinv.tbl_iff (u + 1)) (hinv.tbl_nodup (u + 1)) hord hond
  rc := by
    refine hinv.rc.congr (fun k => ?_)
    simp only [wOf, List.count_nil, hinv.count_table, oth, live01]
    cases hs : s.h.sh k with
    | none => simp
    | some n =>
      simp only [Option.isSome_some, if_true]
      by_cases h1 : n.level = u
      · have : ¬ (n.level = u + 1) := by omega
        simp [h1]
      · by_cases h2 : n.level = u + 1
        · simp [h2]
        · simp [h1, h2]
end
section
variable {ext : Nat → Nat} {s : SStore} {u : Nat}

/-- what `level_down u` leaves, in terms of the state at loop exit (`shF`, `up`, `lo`) -/
structure SwapRes (ext : Nat → Nat) (s : SStore) (u : Nat) (s' : SStore)
    (shF : Nat → Option Node) (up lo : List Nat) : Prop where
  j : J u (u + 1) (BelowP u) s.h.sh (s.table u) ext shF up lo []
  sh' : ∀ k, s'.h.sh k =
    if k ∈ lo then relabel (u + 1) (shF k) else if k ∈ up then relabel u (shF k) else shF k
  tables : ∀ l, s'.table l = if l = u + 1 then lo else if l = u then up else s.table l
  rc : RCx (fun k => up.count k + lo.count k + oth u s.h.sh k + ext k) s'.h
  len : s'.tables.length = s.tables.length

theorem levelDownS_res {al : Heap → Nat} (hal : ∀ h : Heap, h.get? (al h) = none)
    {ord : List Nat → List Nat} (hord : ∀ l, (ord l).Perm l)
    (hinv : Inv ext s) (hu : u + 1 < s.tables.length) :
    ∃ shF up lo, SwapRes ext s u (levelDownS al ord s u) shF up lo := by
  have hperm := hord (s.table u)
  have hinit := hinv.linv_init (u := u) (order := ord (s.table u))
    (fun i => hperm.mem_iff) (hperm.nodup_iff.mpr (hinv.tbl_nodup u))
  have hR : ∀ k, ext k ≤ (s.table u).count k + oth u s.h.sh k + ext k := fun k => by omega
  have hloop := levelSwapLoop_spec (al := al) hal hinv.pre hR _ hinit
  generalize hst : levelSwapLoop al u (u + 1) (s.table u) (ord (s.table u))
    ⟨s.h, s.table (u + 1), []⟩ = st at hloop
  have hJ := hloop.j
  -- drop(old_upper)
  have hdrop := dropOld_spec (w := fun k => st.up.count k + st.lo.count k + oth u s.h.sh k + ext k)
    (s.table u) (h := st.h)
    (hloop.rc.congr (fun k => by simp only [wOf]; omega))
    (fun j hj => by
      rcases hJ.oldC j hj with h | h | h
      · simp at h
      · have : 0 < st.lo.count j := List.count_pos_iff.mpr h
        show 0 < _; omega
      · have : 0 < st.up.count j := List.count_pos_iff.mpr h
        show 0 < _; omega)
  refine ⟨st.h.sh, st.up, st.lo, ?_⟩
  unfold levelDownS
  rw [if_pos hu]
  simp only [levelSwapS, hst]
  refine { j := hJ, sh' := ?_, tables := ?_, rc := ?_, len := by simp }
  · intro k
    rw [sh_updateLevelNo, sh_updateLevelNo, hdrop.1]
    by_cases hkl : k ∈ st.lo
    · have : k ∉ st.up := fun h => hJ.dUL k h hkl
      simp [hkl, this]
    · simp [hkl]
  · intro l
    exact table_set _ u _ _ hu l
  · exact RCx_updateLevelNo (RCx_updateLevelNo hdrop.2 _ _) _ _

/-! ## the classes of slots after the swap -/

section
variable {s' : SStore} {shF : Nat → Option Node} {up lo : List Nat}

theorem relabel_some {l : Nat} {o : Option Node} {l' : Nat} {x y : Edge} (h : o = some ⟨l', x, y⟩) :
    relabel l o = some ⟨l, x, y⟩ := by subst h; rfl

theorem SwapRes.up_sh (hres : SwapRes ext s u s' shF up lo) {k : Nat}
    (hk : k ∈ up) : k ∉ lo ∧ ∃ x y, shF k = some ⟨u + 1, x, y⟩ ∧ s'.h.sh k = some ⟨u, x, y⟩ := by
  have hkl := hres.j.dUL k hk
  obtain ⟨x, y, hs⟩ := hres.j.up_level hk
  refine ⟨hkl, x, y, hs, ?_⟩
  rw [hres.sh', if_neg hkl, if_pos hk]; exact relabel_some hs

theorem SwapRes.lo_sh (hres : SwapRes ext s u s' shF up lo) {k : Nat} (hk : k ∈ lo) :
    k ∉ up ∧ ∃ x y, shF k = some ⟨u, x, y⟩ ∧ s'.h.sh k = some ⟨u + 1, x, y⟩ ∧
      Bel u (u + 1) (BelowP u) s.h.sh x ∧ Bel u (u + 1) (BelowP u) s.h.sh y ∧ x ≠ y := by
  have hku : k ∉ up := fun h => hres.j.dUL k h hk
  obtain ⟨x, y, hs, hx, hy, hxy, _⟩ := hres.j.loC k hk
  refine ⟨hku, x, y, hs, ?_, hx, hy, hxy⟩
  rw [hres.sh', if_pos hk]; exact relabel_some hs

theorem SwapRes.frame_sh (hinv : Inv ext s) (hres : SwapRes ext s u s' shF up lo) {k : Nat} {n : Node}
    (hn : s.h.sh k = some n) (h1 : n.level ≠ u) (h2 : n.level ≠ u + 1) :
    k ∉ up ∧ k ∉ lo ∧ s'.h.sh k = some n := by
  have hku : k ∉ up := by
    intro hk
    rcases hres.j.upC k hk with ⟨n', hn', hl, _⟩ | ⟨g1, _⟩
    · rw [hn] at hn'; cases hn'; exact h2 hl
    · obtain ⟨n', hn', hl⟩ := (hinv.tbl_iff u k).mp g1
      rw [hn] at hn'; cases hn'; exact h1 hl
  have hkl : k ∉ lo := by
    intro hk
    obtain ⟨x, y, _, _, _, _, g1, g2⟩ := hres.j.loC k hk
    by_cases hko : k ∈ s.table u
    · obtain ⟨n', hn', hl⟩ := (hinv.tbl_iff u k).mp hko
      rw [hn] at hn'; cases hn'; exact h1 hl
    · rcases g2 hko with h | ⟨n', hn', hl⟩
      · rw [hn] at h; cases h
      · rw [hn] at hn'; cases hn'; exact h2 hl
  refine ⟨hku, hkl, ?_⟩
  rw [hres.sh', if_neg hkl, if_neg hku]
  exact hres.j.frame k n hn h1 h2

theorem SwapRes.bel_sh (hinv : Inv ext s) (hres : SwapRes ext s u s' shF up lo) {k : Nat}
    (hb : Bel u (u + 1) (BelowP u) s.h.sh (.inner k)) :
    ∃ n, s.h.sh k = some n ∧ s'.h.sh k = some n ∧ u + 1 < n.level := by
  obtain ⟨n, hn, h1, h2, h3⟩ := hb
  exact ⟨n, hn, (hres.frame_sh hinv hn h1 h2).2.2, h3⟩

theorem SwapRes.cases (hres : SwapRes ext s u s' shF up lo) {k : Nat} {n' : Node}
    (hk : s'.h.sh k = some n') :
    (s.h.sh k = some n' ∧ n'.level ≠ u ∧ n'.level ≠ u + 1 ∧ k ∉ up ∧ k ∉ lo) ∨ k ∈ up ∨ k ∈ lo := by
  by_cases hkl : k ∈ lo
  · exact Or.inr (Or.inr hkl)
  · by_cases hku : k ∈ up
    · exact Or.inr (Or.inl hku)
    · left
      have hs := hres.sh' k
      rw [if_neg hkl, if_neg hku, hk] at hs
      rcases hres.j.live k (by rw [← hs]; simp) with ⟨n, hn, h1, h2⟩ | h | h | h
      · have := hres.j.frame k n hn h1 h2
        rw [← hs] at this; cases this
        exact ⟨hn, h1, h2, hku, hkl⟩
      · simp at h
      · exact absurd h hku
      · exact absurd h hkl

/-- a node of the old lower level that is not in the new upper table had no external handle and
no parent above the two levels -/
theorem SwapRes.alive (hres : SwapRes ext s u s' shF up lo) {p k : Nat} {n m : Node}
    (hn : s.h.sh p = some n) (hl : n.level < u) (hc : n.t = .inner k ∨ n.e = .inner k)
    (hm : s.h.sh k = some m) (hmb : m.level = u + 1) : k ∈ up := by
  apply Classical.byContradiction
  intro hku
  have := (hres.j.dead k m hm hmb hku).2 p n hn (Or.inl ⟨by omega, by omega⟩)
  rcases hc with hc | hc
  · exact this.1 hc
  · exact this.2 hc


/-- the final level of an edge that is below both levels is larger than `u + 1` -/
theorem SwapRes.bel_level (hinv : Inv ext s) (hres : SwapRes ext s u s' shF up lo) {c : Edge}
    (hb : Bel u (u + 1) (BelowP u) s.h.sh c) {k : Nat} (hc : c = .inner k) :
    ∃ m, s'.h.sh k = some m ∧ u + 1 < m.level := by
  subst hc
  obtain ⟨n, _, h2, h3⟩ := hres.bel_sh hinv hb
  exact ⟨n, h2, h3⟩

theorem SwapRes.mkR_level (hinv : Inv ext s) (hres : SwapRes ext s u s' shF up lo) {x y c : Edge}
    (hx : Bel u (u + 1) (BelowP u) s.h.sh x) (hm : MkR u shF lo [] x y c) {k : Nat}
    (hc : c = .inner k) : ∃ m, s'.h.sh k = some m ∧ u < m.level := by
  rcases hm with ⟨_, h2⟩ | ⟨_, j, hj, h2, h3⟩
  · obtain ⟨m, h4, h5⟩ := hres.bel_level hinv hx (h2 ▸ hc)
    exact ⟨m, h4, by omega⟩
  · rw [hc] at h2; injection h2 with h2; subst h2
    rcases hj with hj | hj
    · obtain ⟨_, x', y', _, h5, _⟩ := hres.lo_sh hj
      exact ⟨_, h5, by simp⟩
    · simp at hj

/-- **`level_down` re-establishes the store invariant** -/
theorem SwapRes.inv (hinv : Inv ext s) (hres : SwapRes ext s u s' shF up lo) : Inv ext s' := by
  have hp : Pre u (u + 1) (BelowP u) s.h.sh (s.table u) := hinv.pre
  have hJ := hres.j
  refine { tbl_iff := ?_, tbl_nodup := ?_, ordered := ?_, nored := ?_, uniq := ?_, rc := ?_ }
  · -- tables ↔ stored levels
    intro l i
    rw [hres.tables]
    by_cases h1 : l = u + 1
    · subst h1; simp only [if_true]
      constructor
      · intro hi
        obtain ⟨_, x, y, _, h2, _⟩ := hres.lo_sh hi
        exact ⟨_, h2, rfl⟩
      · rintro ⟨n, hn, hl⟩
        rcases hres.cases hn with ⟨_, _, h3, _⟩ | h | h
        · exact absurd hl h3
        · obtain ⟨_, x, y, _, h2⟩ := hres.up_sh h
          rw [hn] at h2; cases h2; simp at hl
        · exact h
    · by_cases h2 : l = u
      · subst h2; simp only [h1, if_false, if_true]
        constructor
        · intro hi
          obtain ⟨_, x, y, _, h2⟩ := hres.up_sh hi
          exact ⟨_, h2, rfl⟩
        · rintro ⟨n, hn, hl⟩
          rcases hres.cases hn with ⟨_, h3, _⟩ | h | h
          · exact absurd hl h3
          · exact h
          · obtain ⟨_, x, y, _, h2, _⟩ := hres.lo_sh h
            rw [hn] at h2; cases h2; simp at hl
      · simp only [h1, h2, if_false]
        rw [hinv.tbl_iff]
        constructor
        · rintro ⟨n, hn, hl⟩
          exact ⟨n, (hres.frame_sh hinv hn (by omega) (by omega)).2.2, hl⟩
        · rintro ⟨n, hn, hl⟩
          rcases hres.cases hn with ⟨h3, _⟩ | h | h
          · exact ⟨n, h3, hl⟩
          · obtain ⟨_, x, y, _, h4⟩ := hres.up_sh h
            rw [hn] at h4; cases h4; exact absurd hl.symm h2
          · obtain ⟨_, x, y, _, h4, _⟩ := hres.lo_sh h
            rw [hn] at h4; cases h4; exact absurd hl.symm h1
  · intro l
    rw [hres.tables]
    split
    · exact hJ.ndLo
    · split
      · exact hJ.ndUp
      · exact hinv.tbl_nodup l
  · -- ordered
    intro i n hn k hc
    rcases hres.cases hn with ⟨h0, h1, h2, _, _⟩ | hi | hi
    · -- a node of another level
      obtain ⟨m, hm, hlt⟩ := hinv.ordered i n h0 k hc
      by_cases hmb : m.level = u + 1
      · have hku := hres.alive h0 (by omega) hc hm hmb
        obtain ⟨_, x, y, _, h4⟩ := hres.up_sh hku
        exact ⟨_, h4, by simp; omega⟩
      · by_cases hma : m.level = u
        · have hko : k ∈ s.table u := (hinv.tbl_iff u k).mpr ⟨m, hm, hma⟩
          rcases hJ.oldC k hko with h | h | h
          · simp at h
          · obtain ⟨_, x, y, _, h4, _⟩ := hres.lo_sh h
            exact ⟨_, h4, by simp; omega⟩
          · obtain ⟨_, x, y, _, h4⟩ := hres.up_sh h
            exact ⟨_, h4, by simp; omega⟩
        · exact ⟨m, (hres.frame_sh hinv hm hma hmb).2.2, hlt⟩
    · -- a node of the new upper level
      obtain ⟨_, x, y, hsF, hs'⟩ := hres.up_sh hi
      rw [hn] at hs'; cases hs'
      rcases hJ.upC i hi with hsv | ⟨g1, _, n0, c1, c2, g3, _, g5, g6, g7⟩
      · have hb := survL_bel hp hsv hsF
        have : Bel u (u + 1) (BelowP u) s.h.sh (.inner k) := by
          rcases hc with hc | hc
          · simp only at hc; rw [← hc]; exact hb.1
          · simp only at hc; rw [← hc]; exact hb.2
        obtain ⟨m, h4, h5⟩ := hres.bel_level hinv this rfl
        exact ⟨m, h4, by simp; omega⟩
      · rw [hsF] at g5; cases g5
        obtain ⟨n0', hn0', hl0⟩ := (hp.old_iff i).mp g1
        rw [g3] at hn0'; cases hn0'
        have hk0 := hp.upKids i n0 g3 hl0
        rcases hc with hc | hc
        · exact hres.mkR_level hinv (bel_cof0 hp hk0.1).1 g6 hc
        · exact hres.mkR_level hinv (bel_cof0 hp hk0.1).2 g7 hc
    · -- a node of the new lower level
      obtain ⟨_, x, y, _, hs', hx, hy, _⟩ := hres.lo_sh hi
      rw [hn] at hs'; cases hs'
      have : Bel u (u + 1) (BelowP u) s.h.sh (.inner k) := by
        rcases hc with hc | hc
        · simp only at hc; rw [← hc]; exact hx
        · simp only at hc; rw [← hc]; exact hy
      obtain ⟨m, h4, h5⟩ := hres.bel_level hinv this rfl
      exact ⟨m, h4, by simp; omega⟩
  · -- no redundant node
    intro i n hn
    rcases hres.cases hn with ⟨h0, _⟩ | hi | hi
    · exact hinv.nored i n h0
    · obtain ⟨_, x, y, hsF, hs'⟩ := hres.up_sh hi
      rw [hn] at hs'; cases hs'
      simp only
      rcases hJ.upC i hi with ⟨n0, h1, _, h3⟩ | ⟨g1, _, n0, c1, c2, g3, g4, g5, g6, g7⟩
      · rw [hsF] at h3; cases h3
        exact hinv.nored i _ h1
      · rw [hsF] at g5; cases g5
        obtain ⟨n0', hn0', hl0⟩ := (hp.old_iff i).mp g1
        rw [g3] at hn0'; cases hn0'
        have hk0 := hp.upKids i n0 g3 hl0
        intro hcc
        subst hcc
        have h12 := g6.inj hJ (bel_cof0 hp hk0.1).1 (bel_cof0 hp hk0.1).2 g7
        -- one child is at the old lower level; its two cofactors differ
        have hone : ∀ c, (Bel u (u + 1) (BelowP u) s.h.sh c ∨ AtB (u + 1) s.h.sh c) →
            (cof0 (u + 1) s.h.sh c).1 = (cof0 (u + 1) s.h.sh c).2 → Bel u (u + 1) (BelowP u) s.h.sh c := by
          intro c hc heq
          rcases hc with hc | ⟨k, m, rfl, hm, hl⟩
          · exact hc
          · simp only [cof0, hm, hl, if_true] at heq
            exact absurd heq (hinv.nored k m hm)
        exact g4 ⟨hone _ hk0.1 h12.1, hone _ hk0.2 h12.2⟩
    · obtain ⟨_, x, y, _, hs', _, _, hxy⟩ := hres.lo_sh hi
      rw [hn] at hs'; cases hs'
      exact hxy
  · -- no duplicates
    intro i j n hi hj
    rcases hres.cases hi with ⟨h0, h1, h2, _, _⟩ | hiu | hil
    · rcases hres.cases hj with ⟨h0', _⟩ | hju | hjl
      · exact hinv.uniq i j n h0 h0'
      · obtain ⟨_, x, y, _, h4⟩ := hres.up_sh hju
        rw [hj] at h4; cases h4; exact absurd rfl h1
      · obtain ⟨_, x, y, _, h4, _⟩ := hres.lo_sh hjl
        rw [hj] at h4; cases h4; exact absurd rfl h2
    · obtain ⟨_, x, y, hsF, h4⟩ := hres.up_sh hiu
      rw [hi] at h4; cases h4
      rcases hres.cases hj with ⟨_, h1, _⟩ | hju | hjl
      · exact absurd rfl h1
      · obtain ⟨_, x', y', hsF', h4'⟩ := hres.up_sh hju
        rw [hj] at h4'; cases h4'
        exact hJ.up_unique hp hiu hju hsF hsF'
      · obtain ⟨_, x', y', _, h4', _⟩ := hres.lo_sh hjl
        rw [hj] at h4'; cases h4'
    · obtain ⟨_, x, y, hsF, h4, _⟩ := hres.lo_sh hil
      rw [hi] at h4; cases h4
      rcases hres.cases hj with ⟨_, _, h2, _⟩ | hju | hjl
      · exact absurd rfl h2
      · obtain ⟨_, x', y', _, h4'⟩ := hres.up_sh hju
        rw [hj] at h4'; cases h4'
      · obtain ⟨_, x', y', hsF', h4', _⟩ := hres.lo_sh hjl
        rw [hj] at h4'; cases h4'
        exact hJ.loU i hil j hjl (hsF.trans hsF'.symm)
  · -- reference counts
    refine hres.rc.congr (fun k => ?_)
    rw [hJ.ndUp.count, hJ.ndLo.count]
    simp only [live01]
    by_cases hku : k ∈ up
    · obtain ⟨hkl, x, y, _, h4⟩ := hres.up_sh hku
      have ho : oth u s.h.sh k = 0 := by
        simp only [oth]
        rcases hJ.upC k hku with ⟨n0, h1, h2, _⟩ | ⟨g1, _⟩
        · simp [h1, h2]
        · obtain ⟨n0, h1, h2⟩ := (hp.old_iff k).mp g1
          simp [h1, h2]
      simp [hku, hkl, ho, h4]
    · by_cases hkl : k ∈ lo
      · obtain ⟨_, x, y, _, h4, _⟩ := hres.lo_sh hkl
        have ho : oth u s.h.sh k = 0 := by
          simp only [oth]
          obtain ⟨_, _, _, _, _, _, g1, g2⟩ := hJ.loC k hkl
          by_cases hko : k ∈ s.table u
          · obtain ⟨n0, h1, h2⟩ := (hp.old_iff k).mp hko
            simp [h1, h2]
          · rcases g2 hko with h | ⟨n0, h1, h2⟩
            · simp [h]
            · simp [h1, h2]
        simp [hku, hkl, ho, h4]
      · simp only [hku, hkl, if_false]
        cases hs' : s'.h.sh k with
        | none =>
          have ho : oth u s.h.sh k = 0 := by
            simp only [oth]
            cases h0 : s.h.sh k with
            | none => rfl
            | some n0 =>
              simp only
              by_cases h1 : n0.level = u ∨ n0.level = u + 1
              · simp [h1]
              · have := (hres.frame_sh hinv h0 (by omega) (by omega)).2.2
                rw [hs'] at this; cases this
          simp [ho]
        | some n' =>
          rcases hres.cases hs' with ⟨h0, h1, h2, _, _⟩ | h | h
          · have ho : oth u s.h.sh k = 1 := by simp [oth, h0, h1, h2]
            simp [ho]
          · exact absurd h hku
          · exact absurd h hkl
end
end

end OxiddModel.Reorder.SwapStore
