import OxiddModel.Reorder.SwapStoreSeq

/-!
# What `level_swap` leaves at the new upper level

The loop removes a node of the old lower level when it is the child of a node being rewritten and
its reference count has dropped to 0. `levelDownS_no_new_garbage`: this removes *every* node of the
old lower level that loses its last reference during the swap — a node of the old lower level
that is unreferenced afterwards (`ref_count() == 0`) was unreferenced before. (Such a node is
never inspected, because the loop only looks at children of nodes of the old upper level; it is
ordinary garbage for the next `gc`, exactly as before the swap.)

The argument: `NoOrphan` — as long as a surviving node of the old lower level without external
handle and without parent above has had a parent at the old upper level, one of these parents is
still unvisited. When the last of them is rewritten the counter of the node is 1, so the orphan
check of that very iteration removes it.
-/
namespace OxiddModel.Reorder.SwapStore
open OxiddModel.Bdd OxiddModel.Bdd.BDD OxiddModel.Bdd.Refine OxiddModel.Reorder

section
variable {a b : Nat} {P : Nat → Prop} {sh0 : Nat → Option Node} {old : List Nat} {ext : Nat → Nat}

/-- who can refer to a surviving node of the old lower level: a node of another level or an
unvisited node of the old upper level (rewritten nodes refer to new nodes or below) -/
theorem J.parent_of_survL {sh : Nat → Option Node} {up lo todo : List Nat}
    (hp : Pre a b P sh0 old) (hj : J a b P sh0 old ext sh up lo todo) {k : Nat} (hku : k ∈ up)
    {mk : Node} (hmk : sh0 k = some mk) (hlv : mk.level = b) {q : Nat} {nq : Node}
    (hq : sh q = some nq) (href : nq.t = .inner k ∨ nq.e = .inner k) :
    (sh0 q = some nq ∧ nq.level ≠ a ∧ nq.level ≠ b) ∨ (q ∈ todo ∧ sh0 q = some nq) := by
  have hnb : ¬ Bel a b P sh0 (.inner k) := by
    rintro ⟨n, hn, _, g2, _⟩
    rw [hmk] at hn; cases hn; exact g2 hlv
  have hbel : ∀ x y, Bel a b P sh0 x → Bel a b P sh0 y → (x = .inner k ∨ y = .inner k) → False := by
    intro x y hx hy h
    rcases h with h | h
    · exact hnb (h ▸ hx)
    · exact hnb (h ▸ hy)
  rcases hj.live q (by rw [hq]; simp) with ⟨n, hn, h1, h2⟩ | h | h | h
  · have := hj.frame q n hn h1 h2
    rw [hq] at this; cases this
    exact Or.inl ⟨hn, h1, h2⟩
  · obtain ⟨_, hs⟩ := hj.todoSh q h
    exact Or.inr ⟨h, hs ▸ hq⟩
  · exfalso
    rcases hj.upC q h with hsv | ⟨g1, _, n0, c1, c2, g3, _, g5, g6, g7⟩
    · have := survL_bel hp hsv (show sh q = some ⟨nq.level, nq.t, nq.e⟩ from hq)
      exact hbel _ _ this.1 this.2 href
    · rw [hq] at g5; cases g5
      obtain ⟨n0', hn0', hl0⟩ := (hp.old_iff q).mp g1
      rw [g3] at hn0'; cases hn0'
      have hk0 := hp.upKids q n0 g3 hl0
      have key : ∀ x y c, Bel a b P sh0 x → MkR a sh lo todo x y c → c = .inner k → False := by
        intro x y c hx hm hc
        rcases hm with ⟨_, e2⟩ | ⟨_, j, hjm, e2, _⟩
        · exact hnb (hc ▸ e2 ▸ hx)
        · rw [hc] at e2; injection e2 with e2; subst e2
          rcases hjm with hjm | hjm
          · exact hj.dUL k hku hjm
          · exact hj.dUT k hku hjm
      rcases href with h' | h'
      · exact key _ _ _ (bel_cof0 hp hk0.1).1 g6 h'
      · exact key _ _ _ (bel_cof0 hp hk0.1).2 g7 h'
  · exfalso
    obtain ⟨x, y, hs, hx, hy, _⟩ := hj.loC q h
    rw [hq] at hs; cases hs
    exact hbel _ _ hx hy href

/-- a surviving node of the old lower level that has no handle and no parent above, but had a
parent at the old upper level, still has an unvisited one -/
def NoOrphan (a b : Nat) (sh0 : Nat → Option Node) (old : List Nat) (ext : Nat → Nat)
    (up todo : List Nat) : Prop :=
  ∀ k mk, sh0 k = some mk → mk.level = b → k ∈ up → ext k = 0 →
    (∀ p n, sh0 p = some n → n.level ≠ a → n.level ≠ b → n.t ≠ .inner k ∧ n.e ≠ .inner k) →
    (∃ p ∈ old, ∃ n, sh0 p = some n ∧ (n.t = .inner k ∨ n.e = .inner k)) →
    ∃ q ∈ todo, ∃ n, sh0 q = some n ∧ (n.t = .inner k ∨ n.e = .inner k)

theorem exists_parent_of_refs_pos {h : Heap} {k : Nat} (hpos : h.refs k ≠ 0) :
    ∃ p nd, h.sh p = some nd ∧ (nd.t = .inner k ∨ nd.e = .inner k) := by
  apply Classical.byContradiction
  intro hc
  apply hpos
  apply refs_eq_zero
  intro p nd hs
  constructor
  · intro h1; exact hc ⟨p, nd, hs, Or.inl h1⟩
  · intro h1; exact hc ⟨p, nd, hs, Or.inr h1⟩

theorem stepNode_noOrphan {al : Heap → Nat} (hal : ∀ h : Heap, h.get? (al h) = none)
    (hp : Pre a b P sh0 old) {R : Nat → Nat} (hR : ∀ k, ext k ≤ R k)
    (hRb : ∀ k mk, sh0 k = some mk → mk.level = b → R k = ext k) {st : LS}
    {i : Nat} {todo : List Nat} (hinv : LInv a b P sh0 old ext R st (i :: todo))
    (hno : NoOrphan a b sh0 old ext st.up (i :: todo)) :
    NoOrphan a b sh0 old ext (stepNode al a b old st i).up todo := by
  have hj := hinv.j
  have hit : i ∈ i :: todo := by simp
  obtain ⟨n, hsi, hn, hla⟩ := hj.todo_live hp hit
  obtain ⟨m, hm, hmn⟩ := sh_eq_some.mp hsi
  subst hmn
  have hcf_t := hj.child_facts hp hit hn (c := m.t) (Or.inl rfl)
  have hcf_e := hj.child_facts hp hit hn (c := m.e) (Or.inr rfl)
  have hlt := lvlIs_of_child (a := a) (P := P) (h := st.h) hcf_t.2.1 hcf_t.1
  have hle := lvlIs_of_child (a := a) (P := P) (h := st.h) hcf_e.2.1 hcf_e.1
  -- a parent `q ∈ i :: todo` other than `i` is in `todo`
  have hsplit : ∀ k, (∃ q ∈ i :: todo, ∃ n, sh0 q = some n ∧ (n.t = .inner k ∨ n.e = .inner k)) →
      (m.t = .inner k ∨ m.e = .inner k) ∨
      ∃ q ∈ todo, ∃ n, sh0 q = some n ∧ (n.t = .inner k ∨ n.e = .inner k) := by
    rintro k ⟨q, hq, nq, hnq, href⟩
    rcases List.mem_cons.mp hq with rfl | hq
    · rw [hn] at hnq; cases hnq; exact Or.inl href
    · exact Or.inr ⟨q, hq, nq, hnq, href⟩
  unfold stepNode
  rw [hm]; simp only
  by_cases hcond : (!lvlIs st.h b m.t && !lvlIs st.h b m.e) = true
  · rw [if_pos hcond]
    simp only [Bool.and_eq_true, Bool.not_eq_true', ← Bool.not_eq_true] at hcond
    have ht : Bel a b P sh0 m.t := by
      rcases hcf_t.1 with h | h
      · exact h
      · exact absurd (hlt.mpr h) hcond.1
    have he : Bel a b P sh0 m.e := by
      rcases hcf_e.1 with h | h
      · exact h
      · exact absurd (hle.mpr h) hcond.2
    intro k mk hmk hlv hku hext hfr hold
    rcases hsplit k (hno k mk hmk hlv hku hext hfr hold) with hc | hc
    · exfalso
      have hnb : ¬ Bel a b P sh0 (.inner k) := by
        rintro ⟨n', hn', _, g2, _⟩
        rw [hmk] at hn'; cases hn'; exact g2 hlv
      rcases hc with hc | hc
      · exact hnb (hc ▸ ht)
      · exact hnb (hc ▸ he)
    · exact hc
  · rw [if_neg hcond]
    have hnb : ¬ (Bel a b P sh0 m.t ∧ Bel a b P sh0 m.e) := by
      rintro ⟨ht, he⟩
      apply hcond
      have h1 : lvlIs st.h b m.t = false := by
        rw [← Bool.not_eq_true, hlt]; exact fun h => not_bel_of_atB h ht
      have h2 : lvlIs st.h b m.e = false := by
        rw [← Bool.not_eq_true, hle]; exact fun h => not_bel_of_atB h he
      simp [h1, h2]
    rw [cofE_of_child hcf_t.2.1, cofE_of_child hcf_e.2.1]
    obtain ⟨hinv', e1, e2, _⟩ := stepNode_rewrite_full hal hp hR hinv hm hn hnb
    show NoOrphan a b sh0 old ext
      (rewriteLS al a b old st i m (cof0 b sh0 m.t) (cof0 b sh0 m.e)).up todo
    generalize rewriteLS al a b old st i m (cof0 b sh0 m.t) (cof0 b sh0 m.e) = st' at hinv' e1 e2
    intro k mk hmk hlv hku' hext hfr hold
    have hku : k ∈ st.up := by
      rcases e1 k hku' with h | h
      · subst h
        rw [hn] at hmk; cases hmk
        exact absurd (hla.symm.trans hlv) hp.ab
      · exact h
    rcases hsplit k (hno k mk hmk hlv hku hext hfr hold) with hc | hc
    · -- `i` was a parent: the counter of `k` after the step is not 1, so somebody refers to it
      have hrc := e2 k hc hku' ⟨mk, hmk, hlv⟩
      have hJ' := hinv'.j
      have hRC := hinv'.rc k
      simp only [wOf] at hRC
      have c1 : st'.up.count k = 1 := by rw [hJ'.ndUp.count, if_pos hku']
      have c2 : st'.lo.count k = 0 := List.count_eq_zero.mpr (hJ'.dUL k hku')
      have c3 : R k = 0 := by rw [hRb k mk hmk hlv, hext]
      have hpos : st'.h.refs k ≠ 0 := by omega
      obtain ⟨q, nq, hq, href⟩ := exists_parent_of_refs_pos hpos
      rcases hJ'.parent_of_survL hp hku' hmk hlv hq href with ⟨g1, g2, g3⟩ | ⟨g1, g2⟩
      · exfalso
        have := hfr q nq g1 g2 g3
        rcases href with h | h
        · exact this.1 h
        · exact this.2 h
      · exact ⟨q, g1, nq, g2, href⟩
    · exact hc

theorem levelSwapLoop_noOrphan {al : Heap → Nat} (hal : ∀ h : Heap, h.get? (al h) = none)
    (hp : Pre a b P sh0 old) {R : Nat → Nat} (hR : ∀ k, ext k ≤ R k)
    (hRb : ∀ k mk, sh0 k = some mk → mk.level = b → R k = ext k) (order : List Nat) {st : LS}
    (hinv : LInv a b P sh0 old ext R st order) (hno : NoOrphan a b sh0 old ext st.up order) :
    NoOrphan a b sh0 old ext (levelSwapLoop al a b old order st).up [] := by
  unfold levelSwapLoop
  induction order generalizing st with
  | nil => exact hno
  | cons i rest ih =>
    exact ih (stepNode_spec hal hp hR hinv) (stepNode_noOrphan hal hp hR hRb hinv hno)

/-- a node of the old lower level that has left the new upper table was a child of a node of the
old upper level -/
def RemReason (b : Nat) (sh0 : Nat → Option Node) (old up : List Nat) : Prop :=
  ∀ k mk, sh0 k = some mk → mk.level = b → k ∉ up →
    ∃ p ∈ old, ∃ n, sh0 p = some n ∧ (n.t = .inner k ∨ n.e = .inner k)

theorem stepNode_remReason {al : Heap → Nat} (hal : ∀ h : Heap, h.get? (al h) = none)
    (hp : Pre a b P sh0 old) {R : Nat → Nat} (hR : ∀ k, ext k ≤ R k) {st : LS}
    {i : Nat} {todo : List Nat} (hinv : LInv a b P sh0 old ext R st (i :: todo))
    (hrr : RemReason b sh0 old st.up) :
    RemReason b sh0 old (stepNode al a b old st i).up := by
  have hj := hinv.j
  have hit : i ∈ i :: todo := by simp
  obtain ⟨n, hsi, hn, hla⟩ := hj.todo_live hp hit
  obtain ⟨m, hm, hmn⟩ := sh_eq_some.mp hsi
  subst hmn
  have hcf_t := hj.child_facts hp hit hn (c := m.t) (Or.inl rfl)
  have hcf_e := hj.child_facts hp hit hn (c := m.e) (Or.inr rfl)
  have hlt := lvlIs_of_child (a := a) (P := P) (h := st.h) hcf_t.2.1 hcf_t.1
  have hle := lvlIs_of_child (a := a) (P := P) (h := st.h) hcf_e.2.1 hcf_e.1
  have hio : i ∈ old := (hj.todoSh i hit).1
  unfold stepNode
  rw [hm]; simp only
  by_cases hcond : (!lvlIs st.h b m.t && !lvlIs st.h b m.e) = true
  · rw [if_pos hcond]; exact hrr
  · rw [if_neg hcond]
    have hnb : ¬ (Bel a b P sh0 m.t ∧ Bel a b P sh0 m.e) := by
      rintro ⟨ht, he⟩
      apply hcond
      have h1 : lvlIs st.h b m.t = false := by
        rw [← Bool.not_eq_true, hlt]; exact fun h => not_bel_of_atB h ht
      have h2 : lvlIs st.h b m.e = false := by
        rw [← Bool.not_eq_true, hle]; exact fun h => not_bel_of_atB h he
      simp [h1, h2]
    rw [cofE_of_child hcf_t.2.1, cofE_of_child hcf_e.2.1]
    obtain ⟨_, _, _, e3⟩ := stepNode_rewrite_full hal hp hR hinv hm hn hnb
    show RemReason b sh0 old (rewriteLS al a b old st i m (cof0 b sh0 m.t) (cof0 b sh0 m.e)).up
    intro k mk hmk hlv hku'
    by_cases hku : k ∈ st.up
    · exact ⟨i, hio, _, hn, e3 k hku hku'⟩
    · exact hrr k mk hmk hlv hku

theorem levelSwapLoop_remReason {al : Heap → Nat} (hal : ∀ h : Heap, h.get? (al h) = none)
    (hp : Pre a b P sh0 old) {R : Nat → Nat} (hR : ∀ k, ext k ≤ R k) (order : List Nat) {st : LS}
    (hinv : LInv a b P sh0 old ext R st order) (hrr : RemReason b sh0 old st.up) :
    RemReason b sh0 old (levelSwapLoop al a b old order st).up := by
  unfold levelSwapLoop
  induction order generalizing st with
  | nil => exact hrr
  | cons i rest ih =>
    exact ih (stepNode_spec hal hp hR hinv) (stepNode_remReason hal hp hR hinv hrr)

end

/-! ## `level_down` -/

section
variable {ext : Nat → Nat} {s : SStore} {u : Nat} {al : Heap → Nat} {ord : List Nat → List Nat}

theorem levelDownS_table_u (al : Heap → Nat) (ord : List Nat → List Nat) (s : SStore) {u : Nat}
    (hu : u + 1 < s.tables.length) :
    (levelDownS al ord s u).table u =
      (levelSwapLoop al u (u + 1) (s.table u) (ord (s.table u)) ⟨s.h, s.table (u + 1), []⟩).up := by
  unfold levelDownS
  rw [if_pos hu]
  simp only [levelSwapS]
  rw [table_set _ u _ _ hu u]
  simp

/-- **no new garbage at the new upper level**: a node of the old lower level that is in the new
upper table with `ref_count() == 0` (counter 1) after `level_down` had `ref_count() == 0`
before. -/
theorem levelDownS_no_new_garbage (hal : AllocOK al) (hord : OrderOK ord) (hinv : Inv ext s)
    (hu : u + 1 < s.tables.length) {k : Nat} {mk : Node} (hmk : s.h.sh k = some mk)
    (hlv : mk.level = u + 1) (hk : k ∈ (levelDownS al ord s u).table u)
    (hrc : (levelDownS al ord s u).h.rcOf k = 1) : s.h.rcOf k = 1 := by
  obtain ⟨shF, up, lo, hres⟩ := levelDownS_res hal hord hinv hu
  have hinv' := hres.inv hinv
  have hp : Pre u (u + 1) (BelowP u) s.h.sh (s.table u) := hinv.pre
  -- after the swap: live, no handle, no parent
  have hku : k ∈ up := hres.table_u ▸ hk
  obtain ⟨_, x, y, _, hs'⟩ := hres.up_sh hku
  have hrc' := hinv'.rc k
  simp only [live01, hs', Option.isSome_some, if_true] at hrc'
  rw [hrc] at hrc'
  have hext : ext k = 0 := by omega
  have hrefs' : (levelDownS al ord s u).h.refs k = 0 := by omega
  -- no parent outside the two levels
  have hfr : ∀ p n, s.h.sh p = some n → n.level ≠ u → n.level ≠ u + 1 →
      n.t ≠ .inner k ∧ n.e ≠ .inner k := by
    intro p n hn h1 h2
    exact no_child_of_refs_zero hrefs' (hres.frame_sh hinv hn h1 h2).2.2
  -- no parent at the old upper level
  have hperm := hord (s.table u)
  have hinit := hinv.linv_init (u := u) (order := ord (s.table u))
    (fun i => hperm.mem_iff) (hperm.nodup_iff.mpr (hinv.tbl_nodup u))
  have hR : ∀ k, ext k ≤ (s.table u).count k + oth u s.h.sh k + ext k := fun k => by omega
  have hRb : ∀ k mk, s.h.sh k = some mk → mk.level = u + 1 →
      (s.table u).count k + oth u s.h.sh k + ext k = ext k := by
    intro k mk hmk hlv
    rw [hinv.count_table]
    simp [oth, hmk, hlv]
  have hno0 : NoOrphan u (u + 1) s.h.sh (s.table u) ext (s.table (u + 1)) (ord (s.table u)) := by
    intro k _ _ _ _ _ _ hold
    obtain ⟨p, hp', n, hn, href⟩ := hold
    exact ⟨p, hperm.mem_iff.mpr hp', n, hn, href⟩
  have hnoF := levelSwapLoop_noOrphan (al := al) hal hp hR hRb _ hinit hno0
  rw [← levelDownS_table_u al ord s hu] at hnoF
  have hold : ¬ ∃ p ∈ s.table u, ∃ n, s.h.sh p = some n ∧ (n.t = .inner k ∨ n.e = .inner k) := by
    intro hc
    obtain ⟨q, hq, _⟩ := hnoF k mk hmk hlv hk hext hfr hc
    simp at hq
  -- hence no parent at all before the swap
  have hrefs0 : s.h.refs k = 0 := by
    apply refs_eq_zero
    intro p n hn
    by_cases h1 : n.level = u
    · constructor
      · intro h; exact hold ⟨p, (hinv.tbl_iff u p).mpr ⟨n, hn, h1⟩, n, hn, Or.inl h⟩
      · intro h; exact hold ⟨p, (hinv.tbl_iff u p).mpr ⟨n, hn, h1⟩, n, hn, Or.inr h⟩
    · by_cases h2 : n.level = u + 1
      · constructor
        · intro h
          obtain ⟨m', hm', hlt⟩ := hinv.ordered p n hn k (Or.inl h)
          rw [hmk] at hm'; cases hm'; omega
        · intro h
          obtain ⟨m', hm', hlt⟩ := hinv.ordered p n hn k (Or.inr h)
          rw [hmk] at hm'; cases hm'; omega
      · exact hfr p n hn h1 h2
  have := hinv.rc k
  simp only [live01, hmk, Option.isSome_some, if_true] at this
  omega

/-- **exactly which nodes the swap frees**: a node of the old lower level leaves the store iff it
has no external handle, no parent above the two levels, and at least one parent at the old upper
level — independently of the iteration order and of the allocator -/
theorem levelDownS_removed_iff (hal : AllocOK al) (hord : OrderOK ord) (hinv : Inv ext s)
    (hu : u + 1 < s.tables.length) {k : Nat} {mk : Node} (hmk : s.h.sh k = some mk)
    (hlv : mk.level = u + 1) :
    k ∉ (levelDownS al ord s u).table u ↔
      (ext k = 0 ∧
       (∀ p n, s.h.sh p = some n → n.level ≠ u → n.level ≠ u + 1 →
          n.t ≠ .inner k ∧ n.e ≠ .inner k) ∧
       ∃ p ∈ s.table u, ∃ n, s.h.sh p = some n ∧ (n.t = .inner k ∨ n.e = .inner k)) := by
  have hp : Pre u (u + 1) (BelowP u) s.h.sh (s.table u) := hinv.pre
  have hperm := hord (s.table u)
  have hinit := hinv.linv_init (u := u) (order := ord (s.table u))
    (fun i => hperm.mem_iff) (hperm.nodup_iff.mpr (hinv.tbl_nodup u))
  have hR : ∀ k, ext k ≤ (s.table u).count k + oth u s.h.sh k + ext k := fun k => by omega
  constructor
  · intro hk
    have h12 := levelDownS_removed hal hord hinv hu hmk hlv hk
    refine ⟨h12.1, h12.2, ?_⟩
    have hrr0 : RemReason (u + 1) s.h.sh (s.table u) (s.table (u + 1)) := by
      intro k' mk' hmk' hlv' hk'
      exact absurd ((hinv.tbl_iff (u + 1) k').mpr ⟨mk', hmk', hlv'⟩) hk'
    have hrrF := levelSwapLoop_remReason (al := al) hal hp hR _ hinit hrr0
    rw [← levelDownS_table_u al ord s hu] at hrrF
    exact hrrF k mk hmk hlv hk
  · rintro ⟨hext, hfr, hold⟩ hk
    have hRb : ∀ k mk, s.h.sh k = some mk → mk.level = u + 1 →
        (s.table u).count k + oth u s.h.sh k + ext k = ext k := by
      intro k mk hmk hlv
      rw [hinv.count_table]
      simp [oth, hmk, hlv]
    have hno0 : NoOrphan u (u + 1) s.h.sh (s.table u) ext (s.table (u + 1)) (ord (s.table u)) := by
      intro k _ _ _ _ _ _ hold
      obtain ⟨p, hp', n, hn, href⟩ := hold
      exact ⟨p, hperm.mem_iff.mpr hp', n, hn, href⟩
    have hnoF := levelSwapLoop_noOrphan (al := al) hal hp hR hRb _ hinit hno0
    rw [← levelDownS_table_u al ord s hu] at hnoF
    obtain ⟨q, hq, _⟩ := hnoF k mk hmk hlv hk hext hfr hold
    simp at hq

end
end OxiddModel.Reorder.SwapStore
