import OxiddModel.Reorder.Model

/-!
# `level_swap` / `level_down` / `set_var_order` on the node store, for nodes of any arity

`SwapStore.lean` models `oxidd_reorder::level_swap` (crates/oxidd-reorder/src/lib.rs) for binary
nodes with two static terminals. The Rust function is generic in the node arity
(`InnerNode::ARITY`, `node.children()`) and in the rule set (`DiagramRules::reduce`,
`DiagramRules::cofactors`); TDDs (crates/oxidd-rules-tdd) instantiate it with ternary nodes and
the terminals `T/U/F`, MTBDDs (crates/oxidd-rules-mtbdd) with binary nodes and an arbitrary
terminal type. This file is the same model with

* `T` — the terminal type (any type with decidable equality). A terminal edge carries its value,
  is on no level and is not reference counted here (the terminal store of the MTBDD manager
  keeps its own counters: out of scope);
* `k` — `InnerNode::ARITY`; a node holds the **list** `ch` of its `k` children;
* the reduction rule of `TDDRules::reduce` / `MTBDDRules::reduce`: *all children equal ⇒ that
  child* (the surplus clones are dropped), else a new node; `cofactors` are the children.

The loop body follows the source line by line:
`children.iter().all(|c| level(c) != lower_no_pre)` → move; else the `ARITY × ARITY` matrix of
grand-cofactors (`cofE h l c q` is entry `[c][q]`: the `q`-th child of `c` if `c` is on the lower
level, **`c` itself for every `q`** otherwise), column `q` of which is `reduce`d to the new child
`q` (`mkChild`, in the order `q = 0, 1, …`: `mkChildren`), looked up in the taken `old_upper`
first, then `get_or_insert` into the new lower table; `set_child` for all `q` (`setChildren`),
`set_level`, re-insertion into the new upper table, and the orphan check of every *distinct* old
child (`orphans`: `children[..i].iter().any(|c| c.node_id() == child.node_id())` skips repeats).

Files: `SwapStoreN` (model), `SwapStoreNHeap`, `SwapStoreNInv` (`J` on shapes),
`SwapStoreNStep`, `SwapStoreNLoop`, `SwapStoreNGen` (lazy `level_swap`: `InvL`, `Ev`),
`SwapStoreNFinal` (`Inv`, `level_down`), `SwapStoreNGarbage`, `SetOrderNLemmas`/`SetOrderNProof`,
`SwapStoreNInst` (TDD / MTBDD instances), `SwapStoreNNeg`, `PropertiesStoreN`.
-/
namespace OxiddModel.Reorder.SwapStoreN

/-- an edge: a terminal (by value) or the id of an inner node -/
inductive Edge (T : Type) where
  | term (v : T)
  | inner (i : Nat)
deriving DecidableEq, Repr

/-- level and children of a node (the *shape* of a slot) -/
structure Node (T : Type) where
  level : Nat
  ch : List (Edge T)
deriving DecidableEq, Repr

/-- a slot of the node store -/
structure SNode (T : Type) where
  level : Nat
  ch : List (Edge T)
  rc : Nat
deriving DecidableEq, Repr

/-- the slots of the store, indexed by node id -/
structure Heap (T : Type) where
  slots : List (Option (SNode T))
deriving Repr, DecidableEq

variable {T : Type}

def Heap.get? (h : Heap T) (i : Nat) : Option (SNode T) := (h.slots[i]?).join

/-- overwrite slot `i` (growing the slot list if necessary) -/
def Heap.put (h : Heap T) (i : Nat) (o : Option (SNode T)) : Heap T :=
  if i < h.slots.length then ⟨h.slots.set i o⟩
  else ⟨h.slots ++ List.replicate (i - h.slots.length) none ++ [o]⟩

/-- default allocation policy: first free slot, else grow -/
def Heap.firstFree (h : Heap T) : Nat := h.slots.findIdx (·.isNone)

/-- `1` if the edge points to slot `j` -/
def pt (x : Edge T) (j : Nat) : Nat :=
  match x with
  | .inner i => if i = j then 1 else 0
  | .term _ => 0

/-- number of edges of the list that point to slot `j` -/
def pts (xs : List (Edge T)) (j : Nat) : Nat := (xs.map (pt · j)).sum

def cntO (o : Option (SNode T)) (i : Nat) : Nat :=
  match o with
  | some n => pts n.ch i
  | none => 0

/-- number of parent edges pointing to slot `i` -/
def Heap.refs (h : Heap T) (i : Nat) : Nat := (h.slots.map (cntO · i)).sum

/-! ## primitives of the manager -/

/-- `Manager::clone_edge` (`retain`: `rc += 1`; terminals are not counted here) -/
def incRc (h : Heap T) : Edge T → Heap T
  | .term _ => h
  | .inner i =>
    match h.get? i with
    | some n => h.put i (some { n with rc := n.rc + 1 })
    | none => h

/-- `Manager::drop_edge` (`release`: `rc -= 1`; never frees the slot) -/
def decRc (h : Heap T) : Edge T → Heap T
  | .term _ => h
  | .inner i =>
    match h.get? i with
    | some n => h.put i (some { n with rc := n.rc - 1 })
    | none => h

/-- clone every edge of a list, first to last -/
def incAll (h : Heap T) (xs : List (Edge T)) : Heap T := xs.foldl incRc h

/-- drop every edge of a list, first to last -/
def decAll (h : Heap T) (xs : List (Edge T)) : Heap T := xs.foldl decRc h

section
variable [DecidableEq T]

/-- `LevelViewSet::get`: the entry of the table whose node has the children `xs` -/
def lookup (h : Heap T) (tbl : List Nat) (xs : List (Edge T)) : Option Nat :=
  tbl.find? fun j =>
    match h.get? j with
    | some n => n.ch == xs
    | none => false

/-- `LevelView::insert_unchecked(edge)` with an owned edge to slot `i`: if an equal node is
already present the edge is released and nothing is inserted -/
def tblInsert (h : Heap T) (tbl : List Nat) (i : Nat) : Heap T × List Nat :=
  match h.get? i with
  | none => (h, tbl)
  | some n =>
    match lookup h tbl n.ch with
    | some _ => (decRc h (.inner i), tbl)
    | none => (h, i :: tbl)

/-- `Store::drop_unique_table_edge`: release; if that was the last reference, `free_slot`
(drop the node's children, put the slot on the free list) -/
def dropTableEdge (h : Heap T) (j : Nat) : Heap T :=
  match h.get? j with
  | none => h
  | some m =>
    if m.rc = 1 then decAll (h.put j none) m.ch
    else h.put j (some { m with rc := m.rc - 1 })

/-- `LevelView::remove(node)`: remove the entry equal to `node`, drop the table's edge -/
def tblRemove (h : Heap T) (tbl : List Nat) (xs : List (Edge T)) : Heap T × List Nat :=
  match lookup h tbl xs with
  | some j => (dropTableEdge h j, tbl.erase j)
  | none => (h, tbl)

/-- `manager.get_node(c).level() == l` (terminals have no such level) -/
def lvlIs (h : Heap T) (l : Nat) : Edge T → Bool
  | .inner j =>
    match h.get? j with
    | some m => m.level == l
    | none => false
  | .term _ => false

/-- entry `[c][q]` of the grand-cofactor matrix: `Rules::cofactors(c)[q]` for a child `c` on level
`l`, else `c` itself (for **every** `q`: "the child is below the lower level, so we always have
this child") -/
def cofE (h : Heap T) (l : Nat) (c : Edge T) (q : Nat) : Edge T :=
  match c with
  | .inner j =>
    match h.get? j with
    | some m => if m.level = l then m.ch.getD q c else c
    | none => c
  | .term _ => c

/-! ## the loop body -/

/-- one element of `new_children`: clone the grandchildren of one column, `reduce` (all equal:
drop all clones but the first and return it), else look the new node up in `old_upper`, then
`get_or_insert` into the new lower table. State: heap and new lower table. (The empty column does
not occur: `ARITY ≥ 1`; `reduce` would panic on `it.next().unwrap()`.) -/
def mkChild (al : Heap T → Nat) (upPre : Nat) (old : List Nat) (st : Heap T × List Nat)
    (xs : List (Edge T)) : (Heap T × List Nat) × Edge T :=
  let h1 := incAll st.1 xs
  match xs with
  | [] => (st, .inner 0)
  | x :: rest =>
    if rest.all (· == x) then ((decAll h1 rest, st.2), x)
    else
      match lookup h1 old xs with
      | some j => ((incRc (decAll h1 xs) (.inner j), st.2), .inner j)
      | none =>
        match lookup h1 st.2 xs with
        | some j => ((incRc (decAll h1 xs) (.inner j), st.2), .inner j)
        | none =>
          let j := al h1
          ((h1.put j (some ⟨upPre, xs, 2⟩), j :: st.2), .inner j)

/-- `new_children`: the columns `0, 1, …` in this order -/
def mkChildren (al : Heap T → Nat) (upPre : Nat) (old : List Nat) :
    Heap T × List Nat → List (List (Edge T)) → (Heap T × List Nat) × List (Edge T)
  | st, [] => (st, [])
  | st, xs :: rest =>
    let r := mkChild al upPre old st xs
    let r' := mkChildren al upPre old r.1 rest
    (r'.1, r.2 :: r'.2)

/-- `for (i, child) in new_children { manager.drop_edge(node.set_child(i, child)) }`: the children
are replaced and every old child edge is dropped (`set_child` only writes the child field and
`drop_edge` only a counter, so the interleaving of the source gives the same heap) -/
def setChildren (h : Heap T) (i : Nat) (cs : List (Edge T)) : Heap T :=
  match h.get? i with
  | some m => decAll (h.put i (some { m with ch := cs })) m.ch
  | none => h

/-- `node.set_level(l)` -/
def setLevel (h : Heap T) (i : Nat) (l : Nat) : Heap T :=
  match h.get? i with
  | some m => h.put i (some { m with level := l })
  | none => h

/-- the orphan check for one old child -/
def orphan (lowPre : Nat) (st : Heap T × List Nat) (c : Edge T) : Heap T × List Nat :=
  match c with
  | .inner j =>
    match st.1.get? j with
    | some m => if m.level = lowPre ∧ m.rc = 1 then tblRemove st.1 st.2 m.ch else st
    | none => st
  | .term _ => st

/-- "revisit the old children": every child that did not occur earlier in the list is checked -/
def orphans (lowPre : Nat) :
    Heap T × List Nat → List (Edge T) → List (Edge T) → Heap T × List Nat
  | st, _, [] => st
  | st, seen, c :: rest =>
    orphans lowPre (if seen.contains c then st else orphan lowPre st c) (seen ++ [c]) rest

end

/-- loop state: heap, new upper table (starts as the old lower one), new lower table (starts
empty) -/
structure LS (T : Type) where
  h : Heap T
  up : List Nat
  lo : List Nat
deriving Repr, DecidableEq

section
variable [DecidableEq T]

/-- the grand-cofactor matrix by columns -/
def columns (k : Nat) (h : Heap T) (lowPre : Nat) (ch : List (Edge T)) : List (List (Edge T)) :=
  (List.range k).map fun q => ch.map fun c => cofE h lowPre c q

/-- the body of `for e in old_upper.iter()` for the entry `i`; `k = InnerNode::ARITY` -/
def stepNode (k : Nat) (al : Heap T → Nat) (upPre lowPre : Nat) (old : List Nat) (st : LS T)
    (i : Nat) : LS T :=
  match st.h.get? i with
  | none => st
  | some n =>
    if n.ch.all (fun c => !lvlIs st.h lowPre c) then
      -- all children below the lower level: move the node
      let r := tblInsert (incRc st.h (.inner i)) st.lo i
      { st with h := r.1, lo := r.2 }
    else
      let r1 := mkChildren al upPre old (st.h, st.lo) (columns k st.h lowPre n.ch)
      let h3 := setChildren r1.1.1 i r1.2
      let h4 := setLevel h3 i lowPre
      let r5 := tblInsert (incRc h4 (.inner i)) st.up i
      let r7 := orphans lowPre r5 [] n.ch
      { h := r7.1, up := r7.2, lo := r1.1.2 }

/-- the loop of `level_swap` over `old_upper` in the iteration order `order` -/
def levelSwapLoop (k : Nat) (al : Heap T → Nat) (upPre lowPre : Nat) (old order : List Nat)
    (st : LS T) : LS T :=
  order.foldl (stepNode k al upPre lowPre old) st

/-- `drop(old_upper)` (`TakenLevelView::drop`): every entry is released -/
def dropOld (h : Heap T) (old : List Nat) : Heap T := old.foldl dropTableEdge h

/-- `level_swap`: `oldLower`/`oldUpper` are the contents of the two level views at entry; the
result holds the heap and the contents of the new upper and the new lower view -/
def levelSwapS (k : Nat) (al : Heap T → Nat) (upPre lowPre : Nat) (h : Heap T)
    (oldUpper oldLower : List Nat) (order : List Nat) : LS T :=
  let r := levelSwapLoop k al upPre lowPre oldUpper order ⟨h, oldLower, []⟩
  { r with h := dropOld r.h oldUpper }

/-- `update_level_no` -/
def updateLevelNo (h : Heap T) (tbl : List Nat) (l : Nat) : Heap T :=
  tbl.foldl (fun h i => setLevel h i l) h

end

/-! ## the whole store -/

/-- heap + one unique table per level -/
structure SStore (T : Type) where
  h : Heap T
  tables : List (List Nat)
deriving Repr, DecidableEq

def SStore.table (s : SStore T) (l : Nat) : List Nat := s.tables.getD l []

section
variable [DecidableEq T]

/-- `level_down(manager, u)`; `ord` picks the iteration order of the old upper table (any
permutation). The `assert!(upper_no + 1 < num_levels)` failure is modelled as "no change". -/
def levelDownS (k : Nat) (al : Heap T → Nat) (ord : List Nat → List Nat) (s : SStore T) (u : Nat) :
    SStore T :=
  if u + 1 < s.tables.length then
    let r := levelSwapS k al u (u + 1) s.h (s.table u) (s.table (u + 1)) (ord (s.table u))
    let h1 := updateLevelNo r.h r.up u
    let h2 := updateLevelNo h1 r.lo (u + 1)
    { h := h2, tables := (s.tables.set u r.up).set (u + 1) r.lo }
  else s

/-- a sequence of adjacent swaps -/
def swapsS (k : Nat) (al : Heap T → Nat) (ord : List Nat → List Nat) (s : SStore T)
    (us : List Nat) : SStore T :=
  us.foldl (levelDownS k al ord) s

end

/-- forget the reference counter -/
def SNode.toNode (n : SNode T) : Node T := ⟨n.level, n.ch⟩

/-! ## `set_var_order_common` (crates/oxidd-reorder/src/set_var_order/mod.rs)

as in `SetOrderStore.lean`: `sort_order`, bubble sort over the non-empty level views with the lazy
`level_swap(u, l, to_pre[u], to_pre[l])`, the node-free second step, `update_levels`. -/

/-- exchange two positions of a list -/
def swapIdx {α : Type} [Inhabited α] (l : List α) (i j : Nat) : List α :=
  (l.set i (l.getD j default)).set j (l.getD i default)

/-- the manager during `reorder`: store, `to_pre` and the level→variable map -/
structure RState (T : Type) where
  s : SStore T
  toPre : List Nat
  l2v : List Nat
deriving Repr, DecidableEq

/-- `ne_sorted`: `target >= last_ne_target` along the non-empty levels, starting from 0 -/
def chainLe : Nat → List Nat → Bool
  | _, [] => true
  | last, x :: xs => decide (last ≤ x) && chainLe x xs

/-- second step: move the level views to their target positions (no node is touched) -/
def step2 : Nat → Nat → RState T → List Nat → RState T
  | 0, _, r, _ => r
  | fuel + 1, i, r, tgt =>
    match tgt[i]? with
    | none => r
    | some j =>
      if j = i then step2 fuel (i + 1) r tgt
      else
        step2 fuel i
          { s := ⟨r.s.h, swapIdx r.s.tables i j⟩, toPre := swapIdx r.toPre i j,
            l2v := swapIdx r.l2v i j }
          (swapIdx tgt i j)

section
variable [DecidableEq T]

/-- the `swap` closure of `set_var_order_common` -/
def levelSwapG (k : Nat) (al : Heap T → Nat) (ord : List Nat → List Nat) (r : RState T)
    (u l : Nat) : RState T :=
  let up := r.toPre.getD u u
  let lp := r.toPre.getD l l
  let res := levelSwapS k al up lp r.s.h (r.s.table u) (r.s.table l) (ord (r.s.table u))
  { s := ⟨res.h, (r.s.tables.set u res.up).set l res.lo⟩
    toPre := (r.toPre.set u lp).set l up
    l2v := swapIdx r.l2v u l }

/-- `update_levels_seq` -/
def updateLevels (r : RState T) : SStore T :=
  let h := (List.range r.s.tables.length).foldl (fun h p =>
    if p ≠ r.toPre.getD p p then updateLevelNo h (r.s.table p) p else h) r.s.h
  ⟨h, r.s.tables⟩

/-- `set_var_order_common(manager, order, bubble_sort, update_levels_seq)`; `order` lists
variables. Result: the store and the new level→variable map. -/
def setVarOrderS (k : Nat) (al : Heap T → Nat) (ord : List Nat → List Nat) (s : SStore T)
    (l2v : List Nat) (order : List Nat) : SStore T × List Nat :=
  let n := s.tables.length
  let target := sortOrder n (order.map fun v => l2v.idxOf v)
  let levels := List.range n
  let fromNe := levels.filter fun l => !(s.table l).isEmpty
  let neTarget := fromNe.map fun l => target.getD l l
  let sorted := levels.all fun l => target.getD l l == l
  if sorted then (s, l2v)
  else
    let r0 : RState T := ⟨s, levels, l2v⟩
    let neSorted := chainLe 0 neTarget
    -- first step
    let r1 : RState T × List Nat × Bool :=
      if !neSorted then
        let bs := bubbleSort neTarget.length neTarget
        let r := bs.2.foldl
          (fun r i => levelSwapG k al ord r (fromNe.getD i 0) (fromNe.getD (i + 1) 0)) r0
        if fromNe.length = n then (r, target, true)
        else (r, (fromNe.zip bs.1).foldl (fun t p => t.set p.1 p.2) target, false)
      else (r0, target, false)
    let r2 := if r1.2.2 then r1.1 else step2 (n * n + n) 0 r1.1 r1.2.1
    (updateLevels r2, r2.l2v)

end

end OxiddModel.Reorder.SwapStoreN
