import OxiddModel.Reorder.SwapStoreNGen

/-!
# An executable check of the `k`-ary store invariant, and an executable evaluator

`checkInv k e s` decides `Inv k (extOf e) s` for a concrete store (`e` lists the number of external
handles per slot); `checkInv_sound` is the soundness direction. `evalE h σ fuel x` follows child
number `σ level` at every node; `evalE_sound` ties it to the evaluation relation `Ev`.
Both are written with structural recursion / `List.all` only, so that `decide` evaluates them on
small concrete stores (`SwapStoreNNeg.lean`).
-/
namespace OxiddModel.Reorder.SwapStoreN

variable {T : Type}

/-- external handle counts given as a list indexed by slot id -/
def extOf (e : List Nat) : Nat → Nat := fun i => e.getD i 0

/-- the edge is a terminal or goes to a live slot of a level strictly larger than `lvl` -/
def okChild (h : Heap T) (lvl : Nat) : Edge T → Bool
  | .term _ => true
  | .inner j =>
    match h.sh j with
    | some m => decide (lvl < m.level)
    | none => false

/-- `Red xs` (all children equal, `xs` non-empty) as a Boolean -/
def redB [DecidableEq T] (xs : List (Edge T)) : Bool :=
  match xs with
  | [] => false
  | x :: r => r.all (· == x)

def checkInv [DecidableEq T] (k : Nat) (e : List Nat) (s : SStore T) : Bool :=
  let n := s.h.slots.length
  decide (0 < k) &&
  ((List.range n).all fun i =>
      match s.h.sh i with
      | some nd => nd.ch.length == k
      | none => true) &&
  ((List.range s.tables.length).all fun l => (s.table l).all fun i =>
      match s.h.sh i with
      | some nd => nd.level == l
      | none => false) &&
  ((List.range n).all fun i =>
      match s.h.sh i with
      | some nd => (s.table nd.level).contains i
      | none => true) &&
  ((List.range s.tables.length).all fun l => decide (s.table l).Nodup) &&
  ((List.range n).all fun i =>
      match s.h.sh i with
      | some nd => nd.ch.all (okChild s.h nd.level) && !redB nd.ch
      | none => true) &&
  ((List.range n).all fun i => (List.range n).all fun j =>
      (s.h.sh i).isNone || s.h.sh i != s.h.sh j || i == j) &&
  ((List.range n).all fun i => s.h.rcOf i == live01 s.h i + e.getD i 0 + s.h.refs i) &&
  decide (e.length ≤ n)

theorem sh_none_of_ge {h : Heap T} {i : Nat} (hi : h.slots.length ≤ i) : h.sh i = none := by
  unfold Heap.sh Heap.get?
  rw [List.getElem?_eq_none hi]; rfl

theorem lt_of_sh_some {h : Heap T} {i : Nat} {n : Node T} (hs : h.sh i = some n) :
    i < h.slots.length := by
  apply Classical.byContradiction
  intro hi
  rw [sh_none_of_ge (by omega)] at hs; cases hs

theorem sum_map_zero {α : Type} (f : α → Nat) (l : List α) (hz : ∀ x ∈ l, f x = 0) :
    (l.map f).sum = 0 := by
  induction l with
  | nil => rfl
  | cons x xs ih =>
    simp only [List.map_cons, List.sum_cons]
    rw [hz x (by simp), ih (fun y hy => hz y (by simp [hy]))]

theorem refs_eq_zero {h : Heap T} {j : Nat}
    (hno : ∀ p nd, h.sh p = some nd → .inner j ∉ nd.ch) : h.refs j = 0 := by
  unfold Heap.refs
  apply sum_map_zero
  intro o ho
  obtain ⟨p, hp, rfl⟩ := List.mem_iff_getElem.mp ho
  rw [cntO_eq_cntS]
  cases hs : h.slots[p] with
  | none => rfl
  | some nd =>
    have : h.sh p = some nd.toNode := by
      unfold Heap.sh Heap.get?
      rw [List.getElem?_eq_getElem hp, hs]; rfl
    have := hno p _ this
    simp only [Option.map, cntS_some]
    exact pts_eq_zero this

theorem table_of_ge {s : SStore T} {l : Nat} (hl : s.tables.length ≤ l) : s.table l = [] := by
  unfold SStore.table
  rw [List.getD_eq_getElem?_getD, List.getElem?_eq_none hl]; rfl

theorem redB_of_Red [DecidableEq T] {xs : List (Edge T)} (h : Red xs) : redB xs = true := by
  obtain ⟨x, hx, hall⟩ := h
  cases xs with
  | nil => cases hx
  | cons a r =>
    simp only [redB, List.all_eq_true, beq_iff_eq]
    intro y hy
    rw [hall y (by simp [hy]), hall a (by simp)]

theorem checkInv_sound [DecidableEq T] {k : Nat} {e : List Nat} {s : SStore T}
    (hc : checkInv k e s = true) : Inv k (extOf e) s := by
  simp only [checkInv, Bool.and_eq_true, List.all_eq_true, List.mem_range, decide_eq_true_eq] at hc
  obtain ⟨⟨⟨⟨⟨⟨⟨⟨c0, ca⟩, c1⟩, c2⟩, c3⟩, c4⟩, c5⟩, c6⟩, c7⟩ := hc
  have hkids : ∀ i nd, s.h.sh i = some nd →
      (∀ c ∈ nd.ch, okChild s.h nd.level c = true) ∧ ¬ Red nd.ch := by
    intro i nd hs
    have := c4 i (lt_of_sh_some hs)
    rw [hs] at this
    simp only [Bool.and_eq_true, List.all_eq_true, Bool.not_eq_true', ] at this
    refine ⟨this.1, fun hr => ?_⟩
    rw [redB_of_Red hr] at this
    exact absurd this.2 (by decide)
  have hok : ∀ lvl j, okChild s.h lvl (.inner j) = true →
      ∃ m, s.h.sh j = some m ∧ lvl < m.level := by
    intro lvl j h
    simp only [okChild] at h
    cases hm : s.h.sh j with
    | none => rw [hm] at h; cases h
    | some m => rw [hm] at h; exact ⟨m, rfl, by simpa using h⟩
  refine { kpos := c0, arity := ?_, tbl_iff := ?_, tbl_nodup := ?_, ordered := ?_, nored := ?_,
           uniq := ?_, rc := ?_ }
  · intro i nd hs
    have := ca i (lt_of_sh_some hs)
    rw [hs] at this
    simpa using this
  · intro l i
    constructor
    · intro hi
      by_cases hl : l < s.tables.length
      · have := c1 l hl i hi
        cases hs : s.h.sh i with
        | none => rw [hs] at this; cases this
        | some nd => rw [hs] at this; exact ⟨nd, rfl, by simpa using this⟩
      · rw [table_of_ge (by omega)] at hi; cases hi
    · rintro ⟨nd, hs, hl⟩
      have := c2 i (lt_of_sh_some hs)
      rw [hs] at this
      subst hl
      simpa using this
  · intro l
    by_cases hl : l < s.tables.length
    · exact c3 l hl
    · rw [table_of_ge (by omega)]; exact List.nodup_nil
  · intro i nd hs j hj
    exact hok _ j ((hkids i nd hs).1 _ hj)
  · intro i nd hs
    exact (hkids i nd hs).2
  · intro i j nd hi hj
    have := c5 i (lt_of_sh_some hi) j (lt_of_sh_some hj)
    rw [hi, hj] at this
    simpa using this
  · intro j
    by_cases hj : j < s.h.slots.length
    · have := c6 j hj
      show _ = live01 s.h j + extOf e j + _
      simpa [extOf] using this
    · have hn : s.h.sh j = none := sh_none_of_ge (by omega)
      have hz : s.h.refs j = 0 := by
        apply refs_eq_zero
        intro p nd hs hc
        obtain ⟨m, hm, _⟩ := hok _ j ((hkids p nd hs).1 _ hc)
        rw [hn] at hm; cases hm
      have he : extOf e j = 0 := by
        unfold extOf
        rw [List.getD_eq_getElem?_getD, List.getElem?_eq_none (by omega)]; rfl
      show _ = live01 s.h j + extOf e j + _
      rw [rcOf_of_none (sh_eq_none.mp hn), hz, he]
      simp [live01, hn]

/-! ## an executable evaluator -/

/-- follow child number `σ level` from edge `x` down to a terminal (fuel = maximal depth) -/
def evalE (h : Heap T) (σ : Nat → Nat) : Nat → Edge T → Option T
  | _, .term v => some v
  | 0, .inner _ => none
  | f + 1, .inner i =>
    match h.sh i with
    | some n =>
      match n.ch[σ n.level]? with
      | some c => evalE h σ f c
      | none => none
    | none => none

theorem evalE_sound {h : Heap T} {σ : Nat → Nat} {f : Nat} {x : Edge T} {v : T}
    (he : evalE h σ f x = some v) : Ev h.sh σ x v := by
  induction f generalizing x with
  | zero =>
    cases x with
    | term b => simp only [evalE] at he; cases he; exact .term
    | inner i => simp [evalE] at he
  | succ f ih =>
    cases x with
    | term b => simp only [evalE] at he; cases he; exact .term
    | inner i =>
      simp only [evalE] at he
      cases hs : h.sh i with
      | none => rw [hs] at he; cases he
      | some n =>
        rw [hs] at he
        simp only at he
        cases hc : n.ch[σ n.level]? with
        | none => rw [hc] at he; cases he
        | some c =>
          rw [hc] at he
          obtain ⟨l, cs⟩ := n
          exact .inner hs hc (ih he)

end OxiddModel.Reorder.SwapStoreN
