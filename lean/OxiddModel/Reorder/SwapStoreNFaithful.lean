import OxiddModel.Reorder.SwapStoreNStep

/-!
# The interleaved `set_child` / `drop_edge` loop of `level_swap` agrees with `setChildren`

The source (`crates/oxidd-reorder/src/lib.rs`, `level_swap`) replaces the children of the node one
at a time and drops every old child edge right away:

```rust
for (i, child) in new_children.into_iter().enumerate() {
    manager.drop_edge(node.set_child(i, child));   // (inside an `un-safe` block in the source)
}
```

The model (`setChildren`) writes all children at once and then drops all old children in order.
`setChildrenSeq` is the loop of the source; `setChildrenSeq_eq` shows that both give the *same
heap* (not only the same observations) whenever the number of new children is the arity of the
node. The subtle case — an old child that is the node itself, so that `drop_edge` writes the slot
whose children are being replaced — is covered: both versions decrement the counter of the slot
once per such child and end with the new children.
-/
namespace OxiddModel.Reorder.SwapStoreN

variable {T : Type}

/-- the loop of the source: `q` is the index of the next child, `cs` the remaining new children -/
def setChildrenSeq (h : Heap T) (i : Nat) : Nat → List (Edge T) → Heap T
  | _, [] => h
  | q, c :: cs =>
    match h.get? i with
    | some m => setChildrenSeq (decRc (h.put i (some { m with ch := m.ch.set q c })) (m.ch.getD q c)) i (q + 1) cs
    | none => h

/-! ## heap extensionality and slot-list lengths -/

theorem Heap.ext_get? {h h' : Heap T} (hl : h.slots.length = h'.slots.length)
    (hg : ∀ j, h.get? j = h'.get? j) : h = h' := by
  cases h with | mk s =>
  cases h' with | mk s' =>
  congr 1
  apply List.ext_getElem?
  intro j
  have := hg j
  simp only [Heap.get?] at this hl
  by_cases hj : j < s.length
  · have hj' : j < s'.length := by omega
    rw [List.getElem?_eq_getElem hj, List.getElem?_eq_getElem hj'] at this ⊢
    simp only [Option.join_some] at this
    rw [this]
  · rw [List.getElem?_eq_none (by omega), List.getElem?_eq_none (by omega)]

theorem lt_length_of_get? {h : Heap T} {i : Nat} {m : SNode T} (hm : h.get? i = some m) :
    i < h.slots.length := by
  apply Classical.byContradiction
  intro hn
  unfold Heap.get? at hm
  rw [List.getElem?_eq_none (by omega)] at hm
  simp at hm

theorem length_put_of_get? {h : Heap T} {i : Nat} {m : SNode T} (hm : h.get? i = some m)
    (o : Option (SNode T)) : (h.put i o).slots.length = h.slots.length := by
  unfold Heap.put
  rw [if_pos (lt_length_of_get? hm)]
  simp

theorem length_decRc (h : Heap T) (x : Edge T) : (decRc h x).slots.length = h.slots.length := by
  cases x with
  | term v => rfl
  | inner k =>
    simp only [decRc]
    cases hk : h.get? k with
    | none => rfl
    | some n => exact length_put_of_get? hk _

theorem length_decAll (h : Heap T) (xs : List (Edge T)) :
    (decAll h xs).slots.length = h.slots.length := by
  unfold decAll
  induction xs generalizing h with
  | nil => rfl
  | cons x xs ih => rw [List.foldl_cons, ih, length_decRc]

/-! ## `drop_edge` on single slots -/

/-- `drop_edge` only changes the counter of the target slot -/
theorem get?_decRc (h : Heap T) (x : Edge T) (j : Nat) :
    (decRc h x).get? j = (h.get? j).map (fun n => { n with rc := n.rc - pt x j }) := by
  cases x with
  | term v =>
    simp only [decRc, pt]
    cases h.get? j <;> rfl
  | inner k =>
    simp only [decRc]
    by_cases hj : j = k
    · subst hj
      rw [pt_self]
      cases hk : h.get? j with
      | none => simp [hk]
      | some n => simp [get?_put]
    · rw [pt_ne hj]
      cases hk : h.get? k with
      | none => simp only; cases h.get? j <;> rfl
      | some n =>
        simp only [get?_put, if_neg hj]
        cases h.get? j <;> rfl

theorem get?_decAll (h : Heap T) (xs : List (Edge T)) (j : Nat) :
    (decAll h xs).get? j = (h.get? j).map (fun n => { n with rc := n.rc - pts xs j }) := by
  unfold decAll
  induction xs generalizing h with
  | nil => simp only [List.foldl_nil, pts_nil]; cases h.get? j <;> rfl
  | cons x xs ih =>
    rw [List.foldl_cons, ih, get?_decRc, pts_cons, Option.map_map]
    cases h.get? j with
    | none => rfl
    | some n => simp only [Option.map_some, Function.comp]; congr 2; omega

/-! ## closed forms -/

/-- the model: slot `i` gets the new children, every counter is decreased by the number of old
child edges to that slot -/
theorem get?_setChildren {h : Heap T} {i : Nat} {m : SNode T} (hm : h.get? i = some m)
    (cs : List (Edge T)) (j : Nat) :
    (setChildren h i cs).get? j =
      if j = i then some ⟨m.level, cs, m.rc - pts m.ch i⟩
      else (h.get? j).map (fun n => { n with rc := n.rc - pts m.ch j }) := by
  unfold setChildren
  rw [hm]; simp only
  rw [get?_decAll, get?_put]
  by_cases hj : j = i
  · subst hj; simp
  · simp [hj]

/-- the child list after writing `cs` from index `q` on, one `set_child` at a time -/
def setFrom (l : List (Edge T)) : Nat → List (Edge T) → List (Edge T)
  | _, [] => l
  | q, c :: cs => setFrom (l.set q c) (q + 1) cs

theorem setFrom_eq (l : List (Edge T)) (q : Nat) (cs : List (Edge T))
    (hq : q + cs.length ≤ l.length) :
    setFrom l q cs = l.take q ++ cs ++ l.drop (q + cs.length) := by
  induction cs generalizing l q with
  | nil => simp [setFrom]
  | cons c cs ih =>
    simp only [List.length_cons] at hq
    simp only [setFrom]
    rw [ih _ _ (by simp; omega)]
    have h1 : (l.set q c).take (q + 1) = l.take q ++ [c] := by
      rw [List.take_set, List.take_add_one]
      rw [List.set_append_right _ _ (by simp; omega)]
      have : l[q]? = some l[q] := List.getElem?_eq_getElem (by omega)
      simp [this, List.length_take, Nat.min_eq_left (show q ≤ l.length by omega)]
    have h2 : (l.set q c).drop (q + 1 + cs.length) = l.drop (q + (cs.length + 1)) := by
      rw [List.drop_set]
      rw [if_pos (by omega)]
      congr 1; omega
    rw [h1, h2]; simp

theorem setFrom_zero (l cs : List (Edge T)) (hl : cs.length = l.length) : setFrom l 0 cs = cs := by
  rw [setFrom_eq _ _ _ (by omega)]
  simp [hl]

/-- the old children `q, …, q + n - 1` -/
def oldSeg (l : List (Edge T)) (q n : Nat) : List (Edge T) := (l.drop q).take n

theorem pts_oldSeg_succ (l : List (Edge T)) (q n : Nat) (c : Edge T) (hq : q < l.length) (j : Nat) :
    pts (oldSeg l q (n + 1)) j = pt (l.getD q c) j + pts (oldSeg (l.set q c) (q + 1) n) j := by
  unfold oldSeg
  have h1 : l.drop q = l[q] :: l.drop (q + 1) := List.drop_eq_getElem_cons hq
  have h2 : (l.set q c).drop (q + 1) = l.drop (q + 1) := by
    rw [List.drop_set, if_pos (by omega)]
  have h3 : l.getD q c = l[q] := by
    rw [List.getD_eq_getElem?_getD, List.getElem?_eq_getElem hq]; rfl
  rw [h1, h2, h3, List.take_succ_cons, pts_cons]

theorem oldSeg_zero_length (l : List (Edge T)) : oldSeg l 0 l.length = l := by
  simp [oldSeg]

/-- the loop of the source, from index `q` on -/
theorem get?_setChildrenSeq (h : Heap T) (i q : Nat) (cs : List (Edge T)) (m : SNode T)
    (hm : h.get? i = some m) (hq : q + cs.length ≤ m.ch.length) (j : Nat) :
    (setChildrenSeq h i q cs).get? j =
      if j = i then some ⟨m.level, setFrom m.ch q cs, m.rc - pts (oldSeg m.ch q cs.length) i⟩
      else (h.get? j).map (fun n => { n with rc := n.rc - pts (oldSeg m.ch q cs.length) j }) := by
  induction cs generalizing h q m with
  | nil =>
    simp only [setChildrenSeq, setFrom, List.length_nil, oldSeg, List.take_zero, pts_nil,
      Nat.sub_zero]
    by_cases hj : j = i
    · subst hj; rw [if_pos rfl, hm]
    · rw [if_neg hj]; cases h.get? j <;> rfl
  | cons c cs ih =>
    simp only [List.length_cons] at hq ⊢
    simp only [setChildrenSeq]
    rw [hm]; simp only
    generalize hx : m.ch.getD q c = x
    have hgi : (decRc (h.put i (some { m with ch := m.ch.set q c })) x).get? i
        = some ⟨m.level, m.ch.set q c, m.rc - pt x i⟩ := by
      rw [get?_decRc, get?_put, if_pos rfl]; rfl
    rw [ih _ (q + 1) _ hgi (by simp; omega)]
    have hp := fun j => pts_oldSeg_succ m.ch q cs.length c (by omega) j
    rw [hx] at hp
    by_cases hj : j = i
    · subst hj
      rw [if_pos rfl, if_pos rfl]
      simp only [setFrom, hp]
      congr 2; omega
    · rw [if_neg hj, if_neg hj, get?_decRc, get?_put, if_neg hj, Option.map_map]
      cases h.get? j with
      | none => rfl
      | some n =>
        simp only [Option.map_some, Function.comp, hp]
        congr 2; omega

/-! ## the loop of the source and the model agree -/

/-- the interleaved version and the model's version agree on every slot -/
theorem setChildrenSeq_get? (h : Heap T) (i : Nat) (m : SNode T) (cs : List (Edge T))
    (hm : h.get? i = some m) (hlen : cs.length = m.ch.length) (j : Nat) :
    (setChildrenSeq h i 0 cs).get? j = (setChildren h i cs).get? j := by
  rw [get?_setChildrenSeq h i 0 cs m hm (by omega), get?_setChildren hm,
    setFrom_zero _ _ hlen, hlen, oldSeg_zero_length]

theorem length_setChildrenSeq (h : Heap T) (i q : Nat) (cs : List (Edge T)) :
    (setChildrenSeq h i q cs).slots.length = h.slots.length := by
  induction cs generalizing h q with
  | nil => rfl
  | cons c cs ih =>
    simp only [setChildrenSeq]
    cases hm : h.get? i with
    | none => rfl
    | some m =>
      simp only
      rw [ih, length_decRc, length_put_of_get? hm]

theorem length_setChildren (h : Heap T) (i : Nat) (cs : List (Edge T)) :
    (setChildren h i cs).slots.length = h.slots.length := by
  unfold setChildren
  cases hm : h.get? i with
  | none => rfl
  | some m =>
    simp only
    rw [length_decAll, length_put_of_get? hm]

/-- the interleaved version and the model's version give the same heap -/
theorem setChildrenSeq_eq (h : Heap T) (i : Nat) (m : SNode T) (cs : List (Edge T))
    (hm : h.get? i = some m) (hlen : cs.length = m.ch.length) :
    setChildrenSeq h i 0 cs = setChildren h i cs :=
  Heap.ext_get? (by rw [length_setChildrenSeq, length_setChildren])
    (setChildrenSeq_get? h i m cs hm hlen)

/-- in particular the parent-edge counts agree -/
theorem setChildrenSeq_refs (h : Heap T) (i : Nat) (m : SNode T) (cs : List (Edge T))
    (hm : h.get? i = some m) (hlen : cs.length = m.ch.length) :
    (setChildrenSeq h i 0 cs).refs = (setChildren h i cs).refs := by
  rw [setChildrenSeq_eq h i m cs hm hlen]

/-- a free slot: both versions do nothing -/
theorem setChildrenSeq_none (h : Heap T) (i q : Nat) (cs : List (Edge T)) (hm : h.get? i = none) :
    setChildrenSeq h i q cs = h := by
  cases cs with
  | nil => rfl
  | cons c cs => simp only [setChildrenSeq, hm]

/-! ## the loop body and the loop with the interleaved `set_child` / `drop_edge` -/

section
variable [DecidableEq T]

/-- `stepNode` with the loop of the source (`setChildrenSeq`) in place of `setChildren` -/
def stepNodeSeq (k : Nat) (al : Heap T → Nat) (upPre lowPre : Nat) (old : List Nat) (st : LS T)
    (i : Nat) : LS T :=
  match st.h.get? i with
  | none => st
  | some n =>
    if n.ch.all (fun c => !lvlIs st.h lowPre c) then
      -- all children below the lower level: move the node
      let r := tblInsert (incRc st.h (.inner i)) st.lo i
      { st with h := r.1, lo := r.2 }
    else
      let r1 := mkChildren al upPre old (st.h, st.lo) (columns k st.h lowPre n.ch)
      let h3 := setChildrenSeq r1.1.1 i 0 r1.2
      let h4 := setLevel h3 i lowPre
      let r5 := tblInsert (incRc h4 (.inner i)) st.up i
      let r7 := orphans lowPre r5 [] n.ch
      { h := r7.1, up := r7.2, lo := r1.1.2 }

/-- `levelSwapLoop` with `stepNodeSeq` as the body -/
def levelSwapLoopSeq (k : Nat) (al : Heap T → Nat) (upPre lowPre : Nat) (old order : List Nat)
    (st : LS T) : LS T :=
  order.foldl (stepNodeSeq k al upPre lowPre old) st

/-- `new_children` has one element per column -/
theorem mkChildren_length (al : Heap T → Nat) (upPre : Nat) (old : List Nat)
    (st : Heap T × List Nat) (cols : List (List (Edge T))) :
    (mkChildren al upPre old st cols).2.length = cols.length := by
  induction cols generalizing st with
  | nil => rfl
  | cons xs rest ih => simp only [mkChildren, List.length_cons, ih]

omit [DecidableEq T] in
theorem columns_length (k : Nat) (h : Heap T) (lowPre : Nat) (ch : List (Edge T)) :
    (columns k h lowPre ch).length = k := by
  simp [columns]

variable {a b : Nat} {P : Nat → Prop} {sh0 : Nat → Option (Node T)} {k : Nat} {old : List Nat}
  {ext : Nat → Nat}

/-- under the loop invariant the loop body with the interleaved `set_child` / `drop_edge` is the
loop body of the model: the entry `i` is live with `k` children, `mkChildren` keeps its slot and
returns `k` new children -/
theorem stepNodeSeq_eq {al : Heap T → Nat} (hal : ∀ h : Heap T, h.get? (al h) = none)
    (hp : Pre a b P sh0 k old) {R : Nat → Nat} {st : LS T} {i : Nat} {todo : List Nat}
    (hinv : LInv a b P sh0 k old ext R st (i :: todo)) :
    stepNodeSeq k al a b old st i = stepNode k al a b old st i := by
  have hj := hinv.j
  have hit : i ∈ i :: todo := by simp
  obtain ⟨n, hsi, hn, hla⟩ := hj.todo_live hp hit
  obtain ⟨m, hm, hmn⟩ := sh_eq_some.mp hsi
  subst hmn
  have hla : m.level = a := hla
  have harity : m.ch.length = k := hp.arity i _ hn
  have hcf : ∀ c ∈ m.ch, (Bel a b P sh0 c ∨ AtB b sh0 c) ∧ (∀ j, c = .inner j → st.h.sh j = sh0 j) ∧
      (AtB b sh0 c → ∃ j, c = .inner j ∧ j ∈ st.up ∧ SurvL b sh0 st.h.sh j) :=
    fun c hc => hj.child_facts hp hit hn (c := c) hc
  have hcols : columns k st.h b m.ch = cols0 b sh0 k m.ch := by
    unfold columns cols0 col0
    apply List.map_congr_left; intro q _
    apply List.map_congr_left; intro c hc
    exact cofE_of_child (hcf c hc).2.1 q
  have hbel : ∀ xs ∈ cols0 b sh0 k m.ch, xs.length = k ∧ ∀ x ∈ xs, Bel a b P sh0 x := by
    intro xs hxs
    obtain ⟨q, hq, rfl⟩ := List.mem_map.mp hxs
    have hq := List.mem_range.mp hq
    exact ⟨by rw [col0_length]; exact harity, bel_col0 hp hn hla hq⟩
  unfold stepNodeSeq stepNode
  rw [hm]; simp only
  by_cases hcond : (m.ch.all fun c => !lvlIs st.h b c) = true
  · rw [if_pos hcond, if_pos hcond]
  · rw [if_neg hcond, if_neg hcond]
    have hlen := mkChildren_length al a old (st.h, st.lo) (columns k st.h b m.ch)
    rw [columns_length] at hlen
    rw [hcols] at hlen ⊢
    obtain ⟨h1', lo1, cs, e1, _, _, _, _, live1, _⟩ :=
      mkChildren_spec hal hp (cols0 b sh0 k m.ch) hbel hj hinv.rc
    rw [e1] at hlen ⊢
    simp only at hlen ⊢
    have hsi1 : h1'.sh i = some m.toNode := by rw [live1 i (by simp [hsi]), hsi]
    obtain ⟨m1, hm1, hmn1⟩ := sh_eq_some.mp hsi1
    have hch : m1.ch = m.ch := congrArg Node.ch hmn1
    rw [setChildrenSeq_eq h1' i m1 cs hm1 (by rw [hlen, hch, harity])]

/-- the whole loop: the interleaved version computes the state of the model -/
theorem levelSwapLoopSeq_eq {al : Heap T → Nat} (hal : ∀ h : Heap T, h.get? (al h) = none)
    (hp : Pre a b P sh0 k old) {R : Nat → Nat} (hR : ∀ i, ext i ≤ R i) (order : List Nat)
    {st : LS T} (hinv : LInv a b P sh0 k old ext R st order) :
    levelSwapLoopSeq k al a b old order st = levelSwapLoop k al a b old order st := by
  unfold levelSwapLoopSeq levelSwapLoop
  induction order generalizing st with
  | nil => rfl
  | cons i rest ih =>
    rw [List.foldl_cons, List.foldl_cons, stepNodeSeq_eq hal hp hinv]
    exact ih (stepNode_spec hal hp hR hinv)

end

end OxiddModel.Reorder.SwapStoreN
