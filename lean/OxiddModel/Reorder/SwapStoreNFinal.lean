import OxiddModel.Reorder.SetOrderNLemmas

/-!
# `level_down` on the whole `k`-ary store

`level_down(u)` is the general `level_swap(u, u + 1, u, u + 1)` (lazy invariant `InvL` with the
identity labelling, `SwapStoreNGen`) followed by `update_level_no` for the two level views, which
turns the lazy invariant with the two labels exchanged back into the eager invariant `Inv`.
-/
namespace OxiddModel.Reorder.SwapStoreN

variable {T : Type}

/-- the level permutation of `level_down u` -/
def swapLv (u l : Nat) : Nat := if l = u then u + 1 else if l = u + 1 then u else l

theorem swapLv_swapLv (u l : Nat) : swapLv u (swapLv u l) = l := by
  unfold swapLv; split <;> (try split) <;> (try split) <;> (try split) <;> omega

/-- from the lazy to the eager invariant: every node is relabelled with the position of its level
view -/
theorem InvL.toInv {k : Nat} {ext : Nat → Nat} {lab : List Nat} {pos : Nat → Nat} {s1 s' : SStore T}
    (hinv : InvL k ext lab pos s1) (htab : s'.tables = s1.tables)
    (hsh : ∀ i, s'.h.sh i = (s1.h.sh i).map (fun n => ⟨pos n.level, n.ch⟩))
    (hrc : RCx (fun i => live01 s'.h i + ext i) s'.h) : Inv k ext s' := by
  have htbl : ∀ l, s'.table l = s1.table l := fun l => by unfold SStore.table; rw [htab]
  have hsome : ∀ i n', s'.h.sh i = some n' →
      ∃ n, s1.h.sh i = some n ∧ n' = ⟨pos n.level, n.ch⟩ := by
    intro i n' hi
    rw [hsh] at hi
    cases h1 : s1.h.sh i with
    | none => rw [h1] at hi; cases hi
    | some n => rw [h1] at hi; cases hi; exact ⟨n, rfl, rfl⟩
  have hof : ∀ i n, s1.h.sh i = some n → s'.h.sh i = some ⟨pos n.level, n.ch⟩ := by
    intro i n hi; rw [hsh, hi]; rfl
  refine { kpos := hinv.kpos, arity := ?_, tbl_iff := ?_, tbl_nodup := ?_, ordered := ?_,
           nored := ?_, uniq := ?_, rc := hrc }
  · intro i n' hi
    obtain ⟨n, hn, rfl⟩ := hsome i n' hi
    exact hinv.arity i n hn
  · intro l i
    rw [htbl]
    by_cases hl : l < lab.length
    · rw [hinv.tbl_iff l hl]
      constructor
      · rintro ⟨n, hn, hlv⟩
        exact ⟨_, hof i n hn, by show pos n.level = l; rw [hlv]; exact hinv.pos_lab l hl⟩
      · rintro ⟨n', hn', hlv⟩
        obtain ⟨n, hn, rfl⟩ := hsome i n' hn'
        refine ⟨n, hn, ?_⟩
        have := (hinv.live_lab i n hn).2
        simp only at hlv
        rw [hlv] at this; exact this.symm
    · have hemp : s1.table l = [] := by
        unfold SStore.table
        rw [List.getD_eq_getElem?_getD, List.getElem?_eq_none (by rw [← hinv.len]; omega)]; rfl
      rw [hemp]
      constructor
      · intro h; cases h
      · rintro ⟨n', hn', hlv⟩
        obtain ⟨n, hn, rfl⟩ := hsome i n' hn'
        have := (hinv.live_lab i n hn).1
        simp only at hlv
        omega
  · intro l; rw [htbl]; exact hinv.tbl_nodup l
  · intro i n' hi j hj
    obtain ⟨n, hn, rfl⟩ := hsome i n' hi
    obtain ⟨m, hm, hlt⟩ := hinv.ordered i n hn j hj
    exact ⟨_, hof j m hm, hlt⟩
  · intro i n' hi
    obtain ⟨n, hn, rfl⟩ := hsome i n' hi
    exact hinv.nored i n hn
  · intro i j n' hi hj
    obtain ⟨n1, hn1, e1⟩ := hsome i n' hi
    obtain ⟨n2, hn2, e2⟩ := hsome j n' hj
    rw [e1] at e2
    injection e2 with e3 e4
    have l1 := (hinv.live_lab i n1 hn1).2
    have l2 := (hinv.live_lab j n2 hn2).2
    rw [e3] at l1
    have : n1 = n2 := by
      cases n1; cases n2
      simp only at e4 l1 l2
      rw [Node.mk.injEq]; exact ⟨l1.symm.trans l2, e4⟩
    subst this
    exact hinv.uniq i j n1 hn1 hn2

section
variable [DecidableEq T]
variable {k : Nat} {ext : Nat → Nat} {s : SStore T} {u : Nat} {al : Heap T → Nat}
  {ord : List Nat → List Nat}

theorem levelDownS_len (k : Nat) (al : Heap T → Nat) (ord : List Nat → List Nat) (s : SStore T)
    (u : Nat) : (levelDownS k al ord s u).tables.length = s.tables.length := by
  unfold levelDownS
  split
  · simp
  · rfl

theorem range_getD_self (n u : Nat) : (List.range n).getD u u = u := by
  rw [List.getD_eq_getElem?_getD]
  by_cases h : u < n
  · rw [List.getElem?_eq_getElem (by simpa using h)]; simp
  · rw [List.getElem?_eq_none (by simpa using h)]; rfl

theorem range_getD_lt {n p : Nat} (hp : p < n) : (List.range n).getD p 0 = p := by
  rw [List.getD_eq_getElem?_getD, List.getElem?_eq_getElem (by simpa using hp)]; simp

/-- the store between `level_swap` and the two `update_level_no` -/
def midStore (k : Nat) (al : Heap T → Nat) (ord : List Nat → List Nat) (s : SStore T) (u : Nat) :
    SStore T :=
  (levelSwapG k al ord ⟨s, List.range s.tables.length, []⟩ u (u + 1)).s

/-- what `level_down u` leaves: the general swap result for the identity labelling, the lazy
invariant with the two labels exchanged, and the relabelled final store -/
structure DownRes (k : Nat) (ext : Nat → Nat) (s : SStore T) (u : Nat) (s1 s' : SStore T)
    (up lo : List Nat) : Prop where
  res : ResG k ext id s u (u + 1) u (u + 1) s1 up lo
  invL : InvL k ext (swapLab (List.range s.tables.length) u (u + 1))
    (swapPos id u (u + 1) u (u + 1)) s1
  tabs : s'.tables = s1.tables
  sh' : ∀ i, s'.h.sh i = (s1.h.sh i).map (fun n => ⟨swapLv u n.level, n.ch⟩)
  inv : Inv k ext s'

theorem swapPos_id (u x : Nat) : swapPos id u (u + 1) u (u + 1) x = swapLv u x := by
  unfold swapPos swapLv; rfl

theorem levelDownS_res (hal : AllocOK al) (hord : OrderOK ord) (hinv : Inv k ext s)
    (hu : u + 1 < s.tables.length) :
    ∃ up lo, DownRes k ext s u (midStore k al ord s u) (levelDownS k al ord s u) up lo := by
  have hL := hinv.toL
  have hlen : (List.range s.tables.length).length = s.tables.length := by simp
  have hul : u < u + 1 := by omega
  have hl : u + 1 < (List.range s.tables.length).length := by rw [hlen]; exact hu
  have hgap : ∀ p, u < p → p < u + 1 → s.table p = [] := fun p h1 h2 => by omega
  obtain ⟨up, lo, hres⟩ := levelSwapG_res hal hord hL hul hl hgap []
  have ha : (List.range s.tables.length).getD u 0 = u := range_getD_lt (by omega)
  have hb : (List.range s.tables.length).getD (u + 1) 0 = u + 1 := range_getD_lt hu
  rw [ha, hb] at hres
  have hinvL := hres.invL hL hul hl hgap ha hb
  replace hres : ResG k ext id s u (u + 1) u (u + 1) (midStore k al ord s u) up lo := hres
  replace hinvL : InvL k ext (swapLab (List.range s.tables.length) u (u + 1))
      (swapPos id u (u + 1) u (u + 1)) (midStore k al ord s u) := hinvL
  refine ⟨up, lo, ?_⟩
  have hmid : midStore k al ord s u =
      ⟨(levelSwapS k al u (u + 1) s.h (s.table u) (s.table (u + 1)) (ord (s.table u))).h,
       (s.tables.set u (levelSwapS k al u (u + 1) s.h (s.table u) (s.table (u + 1))
          (ord (s.table u))).up).set (u + 1)
         (levelSwapS k al u (u + 1) s.h (s.table u) (s.table (u + 1)) (ord (s.table u))).lo⟩ := by
    unfold midStore levelSwapG
    simp only [range_getD_self]
  have hupE : (levelSwapS k al u (u + 1) s.h (s.table u) (s.table (u + 1)) (ord (s.table u))).up = up := by
    have := hres.tables u
    have h2 := table_setG (levelSwapS k al u (u + 1) s.h (s.table u) (s.table (u + 1)) (ord (s.table u))).h
      s.tables u (u + 1)
      (levelSwapS k al u (u + 1) s.h (s.table u) (s.table (u + 1)) (ord (s.table u))).up
      (levelSwapS k al u (u + 1) s.h (s.table u) (s.table (u + 1)) (ord (s.table u))).lo
      (by omega) (by omega) hu u
    rw [hmid] at this
    rw [h2] at this
    have hne : ¬ (u = u + 1) := by omega
    simp only [hne, if_false, if_true] at this
    exact this
  have hloE : (levelSwapS k al u (u + 1) s.h (s.table u) (s.table (u + 1)) (ord (s.table u))).lo = lo := by
    have := hres.tables (u + 1)
    have h2 := table_setG (levelSwapS k al u (u + 1) s.h (s.table u) (s.table (u + 1)) (ord (s.table u))).h
      s.tables u (u + 1)
      (levelSwapS k al u (u + 1) s.h (s.table u) (s.table (u + 1)) (ord (s.table u))).up
      (levelSwapS k al u (u + 1) s.h (s.table u) (s.table (u + 1)) (ord (s.table u))).lo
      (by omega) (by omega) hu (u + 1)
    rw [hmid] at this
    rw [h2] at this
    simp only [if_true] at this
    exact this
  generalize hrr : levelSwapS k al u (u + 1) s.h (s.table u) (s.table (u + 1)) (ord (s.table u)) = r
    at hmid hupE hloE
  have hdown : levelDownS k al ord s u =
      ⟨updateLevelNo (updateLevelNo r.h up u) lo (u + 1), (s.tables.set u up).set (u + 1) lo⟩ := by
    unfold levelDownS
    rw [if_pos hu]
    simp only [hrr, hupE, hloE]
  have hmidh : (midStore k al ord s u).h = r.h := by rw [hmid]
  have hmidt : (midStore k al ord s u).tables = (s.tables.set u up).set (u + 1) lo := by
    rw [hmid, hupE, hloE]
  -- shapes after the two `update_level_no`
  have hshF : ∀ i, (levelDownS k al ord s u).h.sh i =
      ((midStore k al ord s u).h.sh i).map (fun n => ⟨swapLv u n.level, n.ch⟩) := by
    intro i
    rw [hdown, hmidh]
    show (updateLevelNo (updateLevelNo r.h up u) lo (u + 1)).sh i = _
    rw [sh_updateLevelNo, sh_updateLevelNo]
    rw [← hmidh]
    by_cases hil : i ∈ lo
    · obtain ⟨hiu, xs, hs, _⟩ := hres.lo_sh hil
      simp only [hil, hiu, if_true, if_false, hs, relabel, Option.map, swapLv]
    · by_cases hiu : i ∈ up
      · obtain ⟨_, cs, hs⟩ := hres.up_sh hiu
        have hne : ¬ (u + 1 = u) := by omega
        simp only [hil, hiu, if_true, if_false, hs, relabel, Option.map, swapLv, hne]
      · simp only [hil, hiu, if_false]
        cases hs : (midStore k al ord s u).h.sh i with
        | none => rfl
        | some n =>
          rcases hres.cases hs with ⟨_, h1, h2, _, _⟩ | h | h
          · simp only [Option.map, swapLv, h1, h2, if_false]
          · exact absurd h hiu
          · exact absurd h hil
  have hlive : ∀ i, live01 (levelDownS k al ord s u).h i = live01 (midStore k al ord s u).h i := by
    intro i
    simp only [live01, hshF]
    cases (midStore k al ord s u).h.sh i <;> rfl
  have hrcF : RCx (fun i => live01 (levelDownS k al ord s u).h i + ext i) (levelDownS k al ord s u).h := by
    have h0 := hinvL.rc
    rw [hmidh] at h0
    have := RCx_updateLevelNo (RCx_updateLevelNo h0 up u) lo (u + 1)
    rw [hdown]
    refine this.congr (fun i => ?_)
    have := hlive i
    rw [hdown, hmidh] at this
    show live01 (updateLevelNo (updateLevelNo r.h up u) lo (u + 1)) i + ext i = _
    rw [this]
  have htabs : (levelDownS k al ord s u).tables = (midStore k al ord s u).tables := by
    rw [hdown, hmidt]
  have hshF' : ∀ i, (levelDownS k al ord s u).h.sh i =
      ((midStore k al ord s u).h.sh i).map
        (fun n => ⟨swapPos id u (u + 1) u (u + 1) n.level, n.ch⟩) := by
    intro i; rw [hshF]; simp only [swapPos_id]
  exact ⟨hres, hinvL, htabs, hshF, hinvL.toInv htabs hshF' hrcF⟩

theorem levelDownS_inv (hal : AllocOK al) (hord : OrderOK ord) (hinv : Inv k ext s)
    (hu : u + 1 < s.tables.length) : Inv k ext (levelDownS k al ord s u) := by
  obtain ⟨up, lo, hres⟩ := levelDownS_res hal hord hinv hu
  exact hres.inv

omit [DecidableEq T] in
theorem DownRes.table_u {s1 s' : SStore T} {up lo : List Nat}
    (hres : DownRes k ext s u s1 s' up lo) : s'.table u = up := by
  have : s'.table u = s1.table u := by unfold SStore.table; rw [hres.tabs]
  rw [this, hres.res.tables]
  have : ¬ (u = u + 1) := by omega
  simp

/-- **every surviving edge keeps its function**: the value under `σ` before is the value after
under the assignment with the two level numbers exchanged (the nodes of the two level views were
relabelled by `update_level_no`) -/
theorem levelDownS_eval (hal : AllocOK al) (hord : OrderOK ord) (hinv : Inv k ext s)
    (hu : u + 1 < s.tables.length) {σ : Nat → Nat} (hσ : ∀ ℓ, σ ℓ < k) {x : Edge T} {v : T}
    (hv : Ev s.h.sh σ x v)
    (halive : ∀ i m, x = .inner i → s.h.sh i = some m → m.level = u + 1 →
      i ∈ (levelDownS k al ord s u).table u) :
    Ev (levelDownS k al ord s u).h.sh (fun l => σ (swapLv u l)) x v := by
  obtain ⟨up, lo, hres⟩ := levelDownS_res hal hord hinv hu
  have hL := hinv.toL
  have hlen : (List.range s.tables.length).length = s.tables.length := by simp
  have ha : (List.range s.tables.length).getD u 0 = u := range_getD_lt (by omega)
  have hb : (List.range s.tables.length).getD (u + 1) 0 = u + 1 := range_getD_lt hu
  have h1 := hres.res.eval hL (by omega) (by rw [hlen]; exact hu) (fun p h1 h2 => by omega) ha hb hσ hv
    (fun i m hi hm hl => hres.table_u ▸ halive i m hi hm hl)
  refine Ev.relabel (swapLv u) (fun i n hn => ⟨?_, ?_⟩) h1
  · rw [hres.sh', hn]; rfl
  · show σ (swapLv u (swapLv u n.level)) = σ n.level
    rw [swapLv_swapLv]

/-- which nodes of the old lower level can disappear: only those without an external handle and
without a parent above the two levels -/
theorem levelDownS_removed (hal : AllocOK al) (hord : OrderOK ord) (hinv : Inv k ext s)
    (hu : u + 1 < s.tables.length) {i : Nat} {m : Node T} (hm : s.h.sh i = some m)
    (hl : m.level = u + 1) (hi : i ∉ (levelDownS k al ord s u).table u) :
    ext i = 0 ∧ ∀ p n, s.h.sh p = some n → n.level ≠ u → n.level ≠ u + 1 → .inner i ∉ n.ch := by
  obtain ⟨up, lo, hres⟩ := levelDownS_res hal hord hinv hu
  rw [hres.table_u] at hi
  have := hres.res.j.dead i m hm hl hi
  exact ⟨this.1, fun p n hn h1 h2 => this.2 p n hn (Or.inl ⟨h1, h2⟩)⟩

/-- every other slot keeps its id: slots of other levels and of the old upper level stay live -/
theorem levelDownS_live (hal : AllocOK al) (hord : OrderOK ord) (hinv : Inv k ext s)
    (hu : u + 1 < s.tables.length) {i : Nat} {m : Node T} (hm : s.h.sh i = some m)
    (hl : m.level ≠ u + 1) : (levelDownS k al ord s u).h.sh i ≠ none := by
  obtain ⟨up, lo, hres⟩ := levelDownS_res hal hord hinv hu
  have hmid : (midStore k al ord s u).h.sh i ≠ none := by
    by_cases h1 : m.level = u
    · rcases hres.res.j.oldC i ((hinv.tbl_iff u i).mpr ⟨m, hm, h1⟩) with h | h | h
      · simp at h
      · obtain ⟨_, xs, h2, _⟩ := hres.res.lo_sh h; rw [h2]; simp
      · obtain ⟨_, cs, h2⟩ := hres.res.up_sh h; rw [h2]; simp
    · have hp := hinv.toL.pre (u := u) (l := u + 1) (by omega) (by simpa using hu)
        (fun p h1 h2 => by omega)
      rw [range_getD_lt (by omega), range_getD_lt hu] at hp
      rw [(hres.res.frame_sh hp hm h1 hl).2.2]; simp
  rw [hres.sh']
  cases h : (midStore k al ord s u).h.sh i with
  | none => exact absurd h hmid
  | some n => simp

/-- an externally referenced slot keeps its function -/
theorem levelDownS_handle (hal : AllocOK al) (hord : OrderOK ord) (hinv : Inv k ext s)
    (hu : u + 1 < s.tables.length) {σ : Nat → Nat} (hσ : ∀ ℓ, σ ℓ < k) {i : Nat} {v : T}
    (hi : 0 < ext i) (hv : Ev s.h.sh σ (.inner i) v) :
    Ev (levelDownS k al ord s u).h.sh (fun l => σ (swapLv u l)) (.inner i) v := by
  refine levelDownS_eval hal hord hinv hu hσ hv (fun i' m hi' hm hl => ?_)
  injection hi' with hi'; subst hi'
  apply Classical.byContradiction
  intro hn
  have := (levelDownS_removed hal hord hinv hu hm hl hn).1
  omega

/-! ## sequences of swaps -/

theorem swapsS_len (k : Nat) (al : Heap T → Nat) (ord : List Nat → List Nat) (s : SStore T)
    (us : List Nat) : (swapsS k al ord s us).tables.length = s.tables.length := by
  unfold swapsS
  induction us generalizing s with
  | nil => rfl
  | cons u rest ih => rw [List.foldl_cons, ih, levelDownS_len]

theorem swapsS_inv (hal : AllocOK al) (hord : OrderOK ord) (us : List Nat) (hinv : Inv k ext s)
    (hus : ∀ u ∈ us, u + 1 < s.tables.length) : Inv k ext (swapsS k al ord s us) := by
  unfold swapsS
  induction us generalizing s with
  | nil => exact hinv
  | cons u rest ih =>
    rw [List.foldl_cons]
    exact ih (levelDownS_inv hal hord hinv (hus u (by simp)))
      (fun u' hu' => by rw [levelDownS_len]; exact hus u' (by simp [hu']))

end
end OxiddModel.Reorder.SwapStoreN
