import OxiddModel.Reorder.SwapStoreNFinal

/-!
# What the `k`-ary `level_swap` leaves at the new upper level

`k`-ary version of `SwapStoreGarbage.lean`. The loop removes a node of the old lower level when it
is the child of a node being rewritten and its reference count has dropped to 0.
`levelDownS_no_new_garbage`: this removes *every* node of the old lower level that loses its last
reference during the swap — a node of the old lower level that is unreferenced afterwards
(`ref_count() == 0`) was unreferenced before. (Such a node is never inspected, because the loop
only looks at children of nodes of the old upper level; it is ordinary garbage for the next `gc`,
exactly as before the swap.) `levelDownS_removed_iff` characterises the freed nodes.

The argument: `NoOrphan` — as long as a surviving node of the old lower level without external
handle and without parent above has had a parent at the old upper level, one of these parents is
still unvisited. When the last of them is rewritten the counter of the node is 1, so the orphan
check of that very iteration removes it.
-/
namespace OxiddModel.Reorder.SwapStoreN

variable {T : Type}

/-! ## no parent edge, no parent -/

theorem exists_parent_of_refs_pos {h : Heap T} {i : Nat} (hpos : h.refs i ≠ 0) :
    ∃ p nd, h.sh p = some nd ∧ .inner i ∈ nd.ch := by
  apply Classical.byContradiction
  intro hc
  apply hpos
  apply refs_eq_zero
  intro p nd hs h1
  exact hc ⟨p, nd, hs, h1⟩

section
variable {a b : Nat} {P : Nat → Prop} {sh0 : Nat → Option (Node T)} {k : Nat} {old : List Nat}
  {ext : Nat → Nat}

/-- who can refer to a surviving node of the old lower level: a node of another level or an
unvisited node of the old upper level (rewritten nodes refer to new nodes or below) -/
theorem J.parent_of_survL {sh : Nat → Option (Node T)} {up lo todo : List Nat}
    (hp : Pre a b P sh0 k old) (hj : J a b P sh0 k old ext sh up lo todo) {i : Nat} (hiu : i ∈ up)
    {mi : Node T} (hmi : sh0 i = some mi) (hlv : mi.level = b) {q : Nat} {nq : Node T}
    (hq : sh q = some nq) (href : .inner i ∈ nq.ch) :
    (sh0 q = some nq ∧ nq.level ≠ a ∧ nq.level ≠ b) ∨ (q ∈ todo ∧ sh0 q = some nq) := by
  have hnb : ¬ Bel a b P sh0 (.inner i) := by
    rintro ⟨n, hn, _, g2, _⟩
    rw [hmi] at hn; cases hn; exact g2 hlv
  rcases hj.live q (by rw [hq]; simp) with ⟨n, hn, h1, h2⟩ | h | h | h
  · have := hj.frame q n hn h1 h2
    rw [hq] at this; cases this
    exact Or.inl ⟨hn, h1, h2⟩
  · obtain ⟨_, hs⟩ := hj.todoSh q h
    exact Or.inr ⟨h, hs ▸ hq⟩
  · exfalso
    rcases hj.upC q h with hsv | ⟨g1, _, n0, cs, g3, _, g5, g6, g7⟩
    · exact hnb (survL_bel hp hsv (show sh q = some ⟨nq.level, nq.ch⟩ from hq) _ href)
    · rw [hq] at g5; cases g5
      simp only at href
      obtain ⟨n0', hn0', hl0⟩ := (hp.old_iff q).mp g1
      rw [g3] at hn0'; cases hn0'
      obtain ⟨p, hpl, hpe⟩ := List.mem_iff_getElem.mp href
      have hpk : p < k := by omega
      have hm := g7 p _ (by rw [List.getElem?_eq_getElem hpl, hpe])
      rcases hm with ⟨x, hx, _, e2⟩ | ⟨_, j, hjm, e2, _⟩
      · exact hnb (e2 ▸ bel_col0 hp g3 hl0 hpk x hx)
      · injection e2 with e2; subst e2
        rcases hjm with hjm | hjm
        · exact hj.dUL _ hiu hjm
        · exact hj.dUT _ hiu hjm
  · exfalso
    obtain ⟨xs, hs, hx, _⟩ := hj.loC q h
    rw [hq] at hs; cases hs
    exact hnb (hx _ href)

/-- a surviving node of the old lower level that has no handle and no parent above, but had a
parent at the old upper level, still has an unvisited one -/
def NoOrphan (a b : Nat) (sh0 : Nat → Option (Node T)) (old : List Nat) (ext : Nat → Nat)
    (up todo : List Nat) : Prop :=
  ∀ i mi, sh0 i = some mi → mi.level = b → i ∈ up → ext i = 0 →
    (∀ p n, sh0 p = some n → n.level ≠ a → n.level ≠ b → .inner i ∉ n.ch) →
    (∃ p ∈ old, ∃ n, sh0 p = some n ∧ .inner i ∈ n.ch) →
    ∃ q ∈ todo, ∃ n, sh0 q = some n ∧ .inner i ∈ n.ch

/-- a node of the old lower level that has left the new upper table was a child of a node of the
old upper level -/
def RemReason (b : Nat) (sh0 : Nat → Option (Node T)) (old up : List Nat) : Prop :=
  ∀ i mi, sh0 i = some mi → mi.level = b → i ∉ up →
    ∃ p ∈ old, ∃ n, sh0 p = some n ∧ .inner i ∈ n.ch

variable [DecidableEq T]

theorem stepNode_noOrphan {al : Heap T → Nat} (hal : ∀ h : Heap T, h.get? (al h) = none)
    (hp : Pre a b P sh0 k old) {R : Nat → Nat} (hR : ∀ i, ext i ≤ R i)
    (hRb : ∀ i mi, sh0 i = some mi → mi.level = b → R i = ext i) {st : LS T}
    {i : Nat} {todo : List Nat} (hinv : LInv a b P sh0 k old ext R st (i :: todo))
    (hno : NoOrphan a b sh0 old ext st.up (i :: todo)) :
    NoOrphan a b sh0 old ext (stepNode k al a b old st i).up todo := by
  have hj := hinv.j
  have hit : i ∈ i :: todo := by simp
  obtain ⟨m, hm, hn, hcase⟩ := stepNode_eq hp hinv al
  obtain ⟨n', _, hn', hla⟩ := hj.todo_live hp hit
  rw [hn] at hn'; cases hn'
  -- a parent `q ∈ i :: todo` other than `i` is in `todo`
  have hsplit : ∀ j, (∃ q ∈ i :: todo, ∃ n, sh0 q = some n ∧ .inner j ∈ n.ch) →
      .inner j ∈ m.ch ∨ ∃ q ∈ todo, ∃ n, sh0 q = some n ∧ .inner j ∈ n.ch := by
    rintro j ⟨q, hq, nq, hnq, href⟩
    rcases List.mem_cons.mp hq with rfl | hq
    · rw [hn] at hnq; cases hnq; exact Or.inl href
    · exact Or.inr ⟨q, hq, nq, hnq, href⟩
  rcases hcase with ⟨hb, he⟩ | ⟨hnb, he⟩
  · rw [he]
    show NoOrphan a b sh0 old ext st.up todo
    intro j mj hmj hlv hju hext hfr hold
    rcases hsplit j (hno j mj hmj hlv hju hext hfr hold) with hc | hc
    · exfalso
      obtain ⟨n', hn', _, g2, _⟩ := hb _ hc
      rw [hmj] at hn'; cases hn'; exact g2 hlv
    · exact hc
  · rw [he]
    obtain ⟨hinv', e1, e2, _⟩ := stepNode_rewrite_full hal hp hR hinv hm hn hnb
    generalize rewriteLS al a b old st i m (cols0 b sh0 k m.ch) = st' at hinv' e1 e2
    intro j mj hmj hlv hju' hext hfr hold
    have hju : j ∈ st.up := by
      rcases e1 j hju' with h | h
      · subst h
        rw [hn] at hmj; cases hmj
        exact absurd (hla.symm.trans hlv) hp.ab
      · exact h
    rcases hsplit j (hno j mj hmj hlv hju hext hfr hold) with hc | hc
    · -- `i` was a parent: the counter of `j` after the step is not 1, so somebody refers to it
      have hrc := e2 j hc hju' ⟨mj, hmj, hlv⟩
      have hJ' := hinv'.j
      have hRC := hinv'.rc j
      simp only [wOf] at hRC
      have c1 : st'.up.count j = 1 := by rw [hJ'.ndUp.count, if_pos hju']
      have c2 : st'.lo.count j = 0 := List.count_eq_zero.mpr (hJ'.dUL j hju')
      have c3 : R j = 0 := by rw [hRb j mj hmj hlv, hext]
      have hpos : st'.h.refs j ≠ 0 := by omega
      obtain ⟨q, nq, hq, href⟩ := exists_parent_of_refs_pos hpos
      rcases hJ'.parent_of_survL hp hju' hmj hlv hq href with ⟨g1, g2, g3⟩ | ⟨g1, g2⟩
      · exact absurd href (hfr q nq g1 g2 g3)
      · exact ⟨q, g1, nq, g2, href⟩
    · exact hc

theorem levelSwapLoop_noOrphan {al : Heap T → Nat} (hal : ∀ h : Heap T, h.get? (al h) = none)
    (hp : Pre a b P sh0 k old) {R : Nat → Nat} (hR : ∀ i, ext i ≤ R i)
    (hRb : ∀ i mi, sh0 i = some mi → mi.level = b → R i = ext i) (order : List Nat) {st : LS T}
    (hinv : LInv a b P sh0 k old ext R st order) (hno : NoOrphan a b sh0 old ext st.up order) :
    NoOrphan a b sh0 old ext (levelSwapLoop k al a b old order st).up [] := by
  unfold levelSwapLoop
  induction order generalizing st with
  | nil => exact hno
  | cons i rest ih =>
    exact ih (stepNode_spec hal hp hR hinv) (stepNode_noOrphan hal hp hR hRb hinv hno)

theorem stepNode_remReason {al : Heap T → Nat} (hal : ∀ h : Heap T, h.get? (al h) = none)
    (hp : Pre a b P sh0 k old) {R : Nat → Nat} (hR : ∀ i, ext i ≤ R i) {st : LS T}
    {i : Nat} {todo : List Nat} (hinv : LInv a b P sh0 k old ext R st (i :: todo))
    (hrr : RemReason b sh0 old st.up) :
    RemReason b sh0 old (stepNode k al a b old st i).up := by
  have hj := hinv.j
  have hit : i ∈ i :: todo := by simp
  obtain ⟨m, hm, hn, hcase⟩ := stepNode_eq hp hinv al
  have hio : i ∈ old := (hj.todoSh i hit).1
  rcases hcase with ⟨_, he⟩ | ⟨hnb, he⟩
  · rw [he]; exact hrr
  · rw [he]
    obtain ⟨_, _, _, e3⟩ := stepNode_rewrite_full hal hp hR hinv hm hn hnb
    intro j mj hmj hlv hju'
    by_cases hju : j ∈ st.up
    · exact ⟨i, hio, _, hn, e3 j hju hju'⟩
    · exact hrr j mj hmj hlv hju

theorem levelSwapLoop_remReason {al : Heap T → Nat} (hal : ∀ h : Heap T, h.get? (al h) = none)
    (hp : Pre a b P sh0 k old) {R : Nat → Nat} (hR : ∀ i, ext i ≤ R i) (order : List Nat)
    {st : LS T} (hinv : LInv a b P sh0 k old ext R st order) (hrr : RemReason b sh0 old st.up) :
    RemReason b sh0 old (levelSwapLoop k al a b old order st).up := by
  unfold levelSwapLoop
  induction order generalizing st with
  | nil => exact hrr
  | cons i rest ih =>
    exact ih (stepNode_spec hal hp hR hinv) (stepNode_remReason hal hp hR hinv hrr)

end

/-! ## `level_down` -/

section
variable {k : Nat} {ext : Nat → Nat} {s : SStore T} {u : Nat}

/-- the precondition of the loop for `level_down u` (identity labelling) -/
theorem Inv.pre_down (hinv : Inv k ext s) (hu : u + 1 < s.tables.length) :
    Pre u (u + 1) (BelowL id (u + 1)) s.h.sh k (s.table u) := by
  have hp := hinv.toL.pre (u := u) (l := u + 1) (by omega) (by simpa using hu)
    (fun p h1 h2 => by omega)
  rw [range_getD_lt (by omega), range_getD_lt hu] at hp
  exact hp

theorem Inv.count_table (hinv : Inv k ext s) {p : Nat} (hp : p < s.tables.length) (i : Nat) :
    (s.table p).count i = match s.h.sh i with
      | some n => if n.level = p then 1 else 0
      | none => 0 := by
  have := hinv.toL.count_table (p := p) (by simpa using hp) i
  rw [range_getD_lt hp] at this
  exact this

/-- the loop invariant at the entry of the loop of `level_down u` -/
theorem Inv.linv_init_down (hinv : Inv k ext s) (hu : u + 1 < s.tables.length) {order : List Nat}
    (hord : ∀ i, i ∈ order ↔ i ∈ s.table u) (hond : order.Nodup) :
    LInv u (u + 1) (BelowL id (u + 1)) s.h.sh k (s.table u) ext
      (fun j => (s.table u).count j + othG u (u + 1) s.h.sh j + ext j)
      ⟨s.h, s.table (u + 1), []⟩ order :=
  { j := J.init (hinv.pre_down hu) (hinv.tbl_iff (u + 1)) (hinv.tbl_nodup (u + 1)) hord hond
    rc := by
      refine hinv.rc.congr (fun i => ?_)
      simp only [wOf, List.count_nil, hinv.count_table hu, hinv.count_table (show u < _ by omega),
        othG, live01]
      cases hs : s.h.sh i with
      | none => simp
      | some n =>
        simp only [Option.isSome_some, if_true]
        by_cases h1 : n.level = u
        · simp [h1]
        · by_cases h2 : n.level = u + 1
          · simp [h2]
          · simp [h1, h2] }

variable [DecidableEq T] {al : Heap T → Nat} {ord : List Nat → List Nat}

theorem levelDownS_table_u (k : Nat) (al : Heap T → Nat) (ord : List Nat → List Nat) (s : SStore T)
    {u : Nat} (hu : u + 1 < s.tables.length) :
    (levelDownS k al ord s u).table u =
      (levelSwapLoop k al u (u + 1) (s.table u) (ord (s.table u)) ⟨s.h, s.table (u + 1), []⟩).up := by
  unfold levelDownS
  rw [if_pos hu]
  simp only [levelSwapS]
  rw [table_setG _ _ u (u + 1) _ _ (by omega) (by omega) hu u]
  simp

/-- the two facts about the loop of `level_down u` that the theorems below rest on -/
theorem levelDownS_loop_facts (hal : AllocOK al) (hord : OrderOK ord) (hinv : Inv k ext s)
    (hu : u + 1 < s.tables.length) :
    NoOrphan u (u + 1) s.h.sh (s.table u) ext ((levelDownS k al ord s u).table u) [] ∧
    RemReason (u + 1) s.h.sh (s.table u) ((levelDownS k al ord s u).table u) := by
  have hp := hinv.pre_down hu
  have hperm := hord (s.table u)
  have hinit := hinv.linv_init_down hu (order := ord (s.table u))
    (fun i => hperm.mem_iff) (hperm.nodup_iff.mpr (hinv.tbl_nodup u))
  have hR : ∀ j, ext j ≤ (s.table u).count j + othG u (u + 1) s.h.sh j + ext j := fun j => by omega
  have hRb : ∀ j mj, s.h.sh j = some mj → mj.level = u + 1 →
      (s.table u).count j + othG u (u + 1) s.h.sh j + ext j = ext j := by
    intro j mj hmj hlv
    rw [hinv.count_table (show u < _ by omega)]
    simp [othG, hmj, hlv]
  have hno0 : NoOrphan u (u + 1) s.h.sh (s.table u) ext (s.table (u + 1)) (ord (s.table u)) := by
    intro j _ _ _ _ _ _ hold
    obtain ⟨p, hp', n, hn, href⟩ := hold
    exact ⟨p, hperm.mem_iff.mpr hp', n, hn, href⟩
  have hrr0 : RemReason (u + 1) s.h.sh (s.table u) (s.table (u + 1)) := by
    intro j mj hmj hlv hj
    exact absurd ((hinv.tbl_iff (u + 1) j).mpr ⟨mj, hmj, hlv⟩) hj
  have hnoF := levelSwapLoop_noOrphan (al := al) hal hp hR hRb _ hinit hno0
  have hrrF := levelSwapLoop_remReason (al := al) hal hp hR _ hinit hrr0
  rw [← levelDownS_table_u k al ord s hu] at hnoF hrrF
  exact ⟨hnoF, hrrF⟩

/-- **no new garbage at the new upper level**: a node of the old lower level that is in the new
upper table with `ref_count() == 0` (counter 1) after `level_down` had `ref_count() == 0`
before. -/
theorem levelDownS_no_new_garbage (hal : AllocOK al) (hord : OrderOK ord) (hinv : Inv k ext s)
    (hu : u + 1 < s.tables.length) {i : Nat} {mi : Node T} (hmi : s.h.sh i = some mi)
    (hlv : mi.level = u + 1) (hi : i ∈ (levelDownS k al ord s u).table u)
    (hrc : (levelDownS k al ord s u).h.rcOf i = 1) : s.h.rcOf i = 1 := by
  obtain ⟨up, lo, hres⟩ := levelDownS_res hal hord hinv hu
  have hinv' := hres.inv
  have hp := hinv.pre_down hu
  -- after the swap: live, no handle, no parent
  have hiu : i ∈ up := hres.table_u ▸ hi
  obtain ⟨_, cs, hs1⟩ := hres.res.up_sh hiu
  have hs' : (levelDownS k al ord s u).h.sh i = some ⟨swapLv u (u + 1), cs⟩ := by
    rw [hres.sh', hs1]; rfl
  have hrc' := hinv'.rc i
  simp only [live01, hs', Option.isSome_some, if_true] at hrc'
  rw [hrc] at hrc'
  have hext : ext i = 0 := by omega
  have hrefs' : (levelDownS k al ord s u).h.refs i = 0 := by omega
  -- no parent outside the two levels
  have hfr : ∀ p n, s.h.sh p = some n → n.level ≠ u → n.level ≠ u + 1 → .inner i ∉ n.ch := by
    intro p n hn h1 h2
    have hmid := (hres.res.frame_sh hp hn h1 h2).2.2
    have hfin : (levelDownS k al ord s u).h.sh p = some ⟨swapLv u n.level, n.ch⟩ := by
      rw [hres.sh', hmid]; rfl
    have := no_child_of_refs_zero hrefs' hfin
    exact this
  -- no parent at the old upper level
  have hnoF := (levelDownS_loop_facts hal hord hinv hu).1
  have hold : ¬ ∃ p ∈ s.table u, ∃ n, s.h.sh p = some n ∧ .inner i ∈ n.ch := by
    intro hc
    obtain ⟨q, hq, _⟩ := hnoF i mi hmi hlv hi hext hfr hc
    simp at hq
  -- hence no parent at all before the swap
  have hrefs0 : s.h.refs i = 0 := by
    apply refs_eq_zero
    intro p n hn href
    by_cases h1 : n.level = u
    · exact hold ⟨p, (hinv.tbl_iff u p).mpr ⟨n, hn, h1⟩, n, hn, href⟩
    · by_cases h2 : n.level = u + 1
      · obtain ⟨m', hm', hlt⟩ := hinv.ordered p n hn i href
        rw [hmi] at hm'; cases hm'; omega
      · exact hfr p n hn h1 h2 href
  have := hinv.rc i
  simp only [live01, hmi, Option.isSome_some, if_true] at this
  omega

/-- **exactly which nodes the swap frees**: a node of the old lower level leaves the store iff it
has no external handle, no parent above the two levels, and at least one parent at the old upper
level — independently of the iteration order and of the allocator -/
theorem levelDownS_removed_iff (hal : AllocOK al) (hord : OrderOK ord) (hinv : Inv k ext s)
    (hu : u + 1 < s.tables.length) {i : Nat} {mi : Node T} (hmi : s.h.sh i = some mi)
    (hlv : mi.level = u + 1) :
    i ∉ (levelDownS k al ord s u).table u ↔
      (ext i = 0 ∧
       (∀ p n, s.h.sh p = some n → n.level ≠ u → n.level ≠ u + 1 → .inner i ∉ n.ch) ∧
       ∃ p ∈ s.table u, ∃ n, s.h.sh p = some n ∧ .inner i ∈ n.ch) := by
  obtain ⟨hnoF, hrrF⟩ := levelDownS_loop_facts hal hord hinv hu
  constructor
  · intro hi
    have h12 := levelDownS_removed hal hord hinv hu hmi hlv hi
    exact ⟨h12.1, h12.2, hrrF i mi hmi hlv hi⟩
  · rintro ⟨hext, hfr, hold⟩ hi
    obtain ⟨q, hq, _⟩ := hnoF i mi hmi hlv hi hext hfr hold
    simp at hq

end
end OxiddModel.Reorder.SwapStoreN
