import OxiddModel.Reorder.SwapStoreNLoop

/-!
# The general `k`-ary `level_swap` with lazy level numbers (what `set_var_order` calls)

`k`-ary version of `SwapStoreGen.lean`. `Inv k ext s` is the store invariant when the level
numbers stored in the nodes are the positions of their level views; during `set_var_order` they
are not: `to_pre[p]` is the number stored in the nodes of the view at position `p`, and
`InvL k ext lab pos s` is the invariant for that situation (`lab = to_pre`, `pos` its inverse on
the labels in use).

`level_swap(u, l, lab[u], lab[l])` for `u < l` with only empty level views strictly between the
two re-establishes `InvL` for `to_pre` with the two entries exchanged (`ResG.invL`) and every
surviving edge evaluates to the same value under every `k`-valued assignment of the *labels*
(`ResG.eval`): the label of a variable does not change before `update_levels`.
-/
namespace OxiddModel.Reorder.SwapStoreN

variable {T : Type}

/-- every allocator that returns a free slot -/
def AllocOK (al : Heap T → Nat) : Prop := ∀ h : Heap T, h.get? (al h) = none

/-- every iteration order that is a permutation of the table -/
def OrderOK (ord : List Nat → List Nat) : Prop := ∀ l, (ord l).Perm l

theorem allocOK_firstFree : AllocOK (T := T) Heap.firstFree := get?_firstFree
theorem orderOK_id : OrderOK id := fun _ => List.Perm.refl _
theorem orderOK_reverse : OrderOK List.reverse := fun l => List.reverse_perm l

/-- `1` for a live slot -/
def live01 (h : Heap T) (i : Nat) : Nat := if (h.sh i).isSome then 1 else 0

/-- the invariant of a store with per-level unique tables, for nodes of arity `k`: every node has
`k` children; the tables partition the live slots by their stored level and are duplicate free;
every edge goes to a live slot of strictly larger level (ordered, no dangling edge); no node has
all children equal (`¬ Red`); no two slots have the same level and children; the counter of every
slot is exactly `[it is in a table] + ext slot + #parent edges` (free slots: 0, so nothing refers
to a free slot). -/
structure Inv (k : Nat) (ext : Nat → Nat) (s : SStore T) : Prop where
  kpos : 0 < k
  arity : ∀ i n, s.h.sh i = some n → n.ch.length = k
  tbl_iff : ∀ l i, i ∈ s.table l ↔ ∃ n, s.h.sh i = some n ∧ n.level = l
  tbl_nodup : ∀ l, (s.table l).Nodup
  ordered : ∀ i n, s.h.sh i = some n → ∀ j, .inner j ∈ n.ch →
    ∃ m, s.h.sh j = some m ∧ n.level < m.level
  nored : ∀ i n, s.h.sh i = some n → ¬ Red n.ch
  uniq : ∀ i j n, s.h.sh i = some n → s.h.sh j = some n → i = j
  rc : RCx (fun i => live01 s.h i + ext i) s.h

/-- the invariant with lazy level numbers: the table at position `p` holds the nodes labelled
`lab[p]`, "ordered" refers to the positions `pos label` -/
structure InvL (k : Nat) (ext : Nat → Nat) (lab : List Nat) (pos : Nat → Nat) (s : SStore T) :
    Prop where
  kpos : 0 < k
  arity : ∀ i n, s.h.sh i = some n → n.ch.length = k
  len : lab.length = s.tables.length
  pos_lab : ∀ p, p < lab.length → pos (lab.getD p 0) = p
  tbl_iff : ∀ p, p < lab.length → ∀ i,
    i ∈ s.table p ↔ ∃ n, s.h.sh i = some n ∧ n.level = lab.getD p 0
  live_lab : ∀ i n, s.h.sh i = some n →
    pos n.level < lab.length ∧ lab.getD (pos n.level) 0 = n.level
  tbl_nodup : ∀ p, (s.table p).Nodup
  ordered : ∀ i n, s.h.sh i = some n → ∀ j, .inner j ∈ n.ch →
    ∃ m, s.h.sh j = some m ∧ pos n.level < pos m.level
  nored : ∀ i n, s.h.sh i = some n → ¬ Red n.ch
  uniq : ∀ i j n, s.h.sh i = some n → s.h.sh j = some n → i = j
  rc : RCx (fun i => live01 s.h i + ext i) s.h

/-- the labels after the swap of the positions `u` and `l` -/
def swapLab (lab : List Nat) (u l : Nat) : List Nat :=
  (lab.set u (lab.getD l 0)).set l (lab.getD u 0)

/-- the positions after the swap -/
def swapPos (pos : Nat → Nat) (a b u l : Nat) : Nat → Nat :=
  fun x => if x = a then l else if x = b then u else pos x

theorem swapLab_getD {lab : List Nat} {u l : Nat} (hu : u < lab.length) (hl : l < lab.length)
    (p : Nat) : (swapLab lab u l).getD p 0 =
      if p = l then lab.getD u 0 else if p = u then lab.getD l 0 else lab.getD p 0 := by
  unfold swapLab
  simp only [List.getD_eq_getElem?_getD, List.getElem?_set, List.length_set]
  by_cases h1 : p = l
  · subst h1; simp [hl]
  · by_cases h2 : p = u
    · subst h2
      have : ¬ (l = p) := fun h => h1 h.symm
      simp [this, hu, h1]
    · have h3 : ¬ (l = p) := fun h => h1 h.symm
      have h4 : ¬ (u = p) := fun h => h2 h.symm
      simp [h1, h2, h3, h4]

theorem swapLab_length (lab : List Nat) (u l : Nat) : (swapLab lab u l).length = lab.length := by
  simp [swapLab]

/-- "below both positions" -/
abbrev BelowL (pos : Nat → Nat) (l : Nat) : Nat → Prop := fun x => l < pos x

section
variable {k : Nat} {ext : Nat → Nat} {lab : List Nat} {pos : Nat → Nat} {s : SStore T} {u l : Nat}

theorem InvL.lab_inj (hinv : InvL k ext lab pos s) {p q : Nat} (hp : p < lab.length)
    (hq : q < lab.length) (h : lab.getD p 0 = lab.getD q 0) : p = q := by
  rw [← hinv.pos_lab p hp, ← hinv.pos_lab q hq, h]

theorem InvL.table_empty (hinv : InvL k ext lab pos s) {i : Nat} {n : Node T}
    (hn : s.h.sh i = some n) : i ∈ s.table (pos n.level) := by
  obtain ⟨h1, h2⟩ := hinv.live_lab i n hn
  exact (hinv.tbl_iff _ h1 i).mpr ⟨n, hn, h2.symm⟩

theorem InvL.pre (hinv : InvL k ext lab pos s) (hul : u < l) (hl : l < lab.length)
    (hgap : ∀ p, u < p → p < l → s.table p = []) :
    Pre (lab.getD u 0) (lab.getD l 0) (BelowL pos l) s.h.sh k (s.table u) := by
  have hu : u < lab.length := by omega
  have hpu := hinv.pos_lab u hu
  have hpl := hinv.pos_lab l hl
  have hchild : ∀ i n, s.h.sh i = some n → u ≤ pos n.level → ∀ c ∈ n.ch,
      Bel (lab.getD u 0) (lab.getD l 0) (BelowL pos l) s.h.sh c ∨ AtB (lab.getD l 0) s.h.sh c := by
    intro i n hn hpn c hc
    cases c with
    | term v => exact Or.inl trivial
    | inner j =>
      obtain ⟨m, hm, hlt⟩ := hinv.ordered i n hn j hc
      by_cases h1 : pos m.level = l
      · right
        refine ⟨j, m, rfl, hm, ?_⟩
        have := (hinv.live_lab j m hm).2
        rw [h1] at this; exact this.symm
      · by_cases h2 : l < pos m.level
        · left
          refine ⟨m, hm, ?_, ?_, h2⟩
          · intro h; rw [h, hpu] at h2; omega
          · intro h; rw [h, hpl] at h2; omega
        · exfalso
          have := hinv.table_empty hm
          rw [hgap (pos m.level) (by omega) (by omega)] at this
          cases this
  refine
    { kpos := hinv.kpos
      ab := fun h => by have := hinv.lab_inj hu hl h; omega
      arity := hinv.arity
      old_iff := hinv.tbl_iff u hu
      old_nodup := hinv.tbl_nodup u
      lowKids := ?_, upKids := ?_, nored := hinv.nored, uniq := hinv.uniq }
  · intro i n hn hlv c hc
    have hpn : pos n.level = l := by rw [hlv, hpl]
    cases c with
    | term v => trivial
    | inner j =>
      obtain ⟨m, hm, hlt⟩ := hinv.ordered i n hn j hc
      rw [hpn] at hlt
      refine ⟨m, hm, ?_, ?_, hlt⟩
      · intro h; rw [h, hpu] at hlt; omega
      · intro h; rw [h, hpl] at hlt; omega
  · intro i n hn hlv c hc
    have hpn : pos n.level = u := by rw [hlv, hpu]
    exact hchild i n hn (by omega) c hc

/-- table entries of the views other than the two that are swapped -/
def othG (a b : Nat) (sh : Nat → Option (Node T)) (i : Nat) : Nat :=
  match sh i with
  | some n => if n.level = a ∨ n.level = b then 0 else 1
  | none => 0

theorem InvL.count_table (hinv : InvL k ext lab pos s) {p : Nat} (hp : p < lab.length) (i : Nat) :
    (s.table p).count i = match s.h.sh i with
      | some n => if n.level = lab.getD p 0 then 1 else 0
      | none => 0 := by
  rw [(hinv.tbl_nodup p).count]
  have := hinv.tbl_iff p hp i
  cases hs : s.h.sh i with
  | none =>
    rw [hs] at this
    simp only
    rw [if_neg]; intro h; obtain ⟨n, hn, _⟩ := this.mp h; cases hn
  | some n =>
    rw [hs] at this
    simp only
    by_cases hl : n.level = lab.getD p 0
    · rw [if_pos (this.mpr ⟨n, rfl, hl⟩), if_pos hl]
    · rw [if_neg hl, if_neg]
      intro h; obtain ⟨n', hn', hl'⟩ := this.mp h; cases hn'; exact hl hl'

theorem table_setG (h : Heap T) (tables : List (List Nat)) (u l : Nat) (up lo : List Nat)
    (hul : u ≠ l) (hu : u < tables.length) (hl : l < tables.length) (p : Nat) :
    (SStore.mk h ((tables.set u up).set l lo)).table p =
      if p = l then lo else if p = u then up else (SStore.mk h tables).table p := by
  unfold SStore.table
  simp only [List.getD_eq_getElem?_getD, List.getElem?_set, List.length_set]
  by_cases h1 : p = l
  · subst h1; simp [hl]
  · by_cases h2 : p = u
    · subst h2
      have : ¬ (l = p) := fun h => h1 h.symm
      simp [this, hu, h1]
    · have h3 : ¬ (l = p) := fun h => h1 h.symm
      have h4 : ¬ (u = p) := fun h => h2 h.symm
      simp [h1, h2, h3, h4]

/-- what the general `level_swap` leaves (the two labels named `a`, `b`) -/
structure ResG (k : Nat) (ext : Nat → Nat) (pos : Nat → Nat) (s : SStore T) (u l a b : Nat)
    (s' : SStore T) (up lo : List Nat) : Prop where
  j : J a b (BelowL pos l) s.h.sh k (s.table u) ext s'.h.sh up lo []
  tables : ∀ p, s'.table p = if p = l then lo else if p = u then up else s.table p
  rc : RCx (fun i => up.count i + lo.count i + othG a b s.h.sh i + ext i) s'.h
  len : s'.tables.length = s.tables.length

end

section
variable [DecidableEq T]
variable {k : Nat} {ext : Nat → Nat} {lab : List Nat} {pos : Nat → Nat} {s : SStore T} {u l : Nat}

theorem getD_self_eq' {lab : List Nat} {p : Nat} (hp : p < lab.length) :
    lab.getD p p = lab.getD p 0 := by
  simp [List.getD_eq_getElem?_getD, List.getElem?_eq_getElem hp]

/-- the model of `level_swap` (loop + `drop(old_upper)`) produces a `ResG` -/
theorem levelSwapG_res {al : Heap T → Nat} (hal : AllocOK al) {ord : List Nat → List Nat}
    (hord : OrderOK ord) (hinv : InvL k ext lab pos s) (hul : u < l) (hl : l < lab.length)
    (hgap : ∀ p, u < p → p < l → s.table p = []) (l2v : List Nat) :
    ∃ up lo, ResG k ext pos s u l (lab.getD u 0) (lab.getD l 0)
      (levelSwapG k al ord ⟨s, lab, l2v⟩ u l).s up lo := by
  have hu : u < lab.length := by omega
  have hp := hinv.pre hul hl hgap
  have hperm := hord (s.table u)
  have hinit : LInv (lab.getD u 0) (lab.getD l 0) (BelowL pos l) s.h.sh k (s.table u) ext
      (fun i => (s.table u).count i + othG (lab.getD u 0) (lab.getD l 0) s.h.sh i + ext i)
      ⟨s.h, s.table l, []⟩ (ord (s.table u)) :=
    { j := J.init hp (hinv.tbl_iff l hl) (hinv.tbl_nodup l) (fun i => hperm.mem_iff)
        (hperm.nodup_iff.mpr (hinv.tbl_nodup u))
      rc := by
        refine hinv.rc.congr (fun i => ?_)
        simp only [wOf, List.count_nil, hinv.count_table hl, hinv.count_table hu, othG, live01]
        have hab := hp.ab
        generalize lab.getD u 0 = a at hab ⊢
        generalize lab.getD l 0 = b at hab ⊢
        cases hs : s.h.sh i with
        | none => simp
        | some n =>
          simp only [Option.isSome_some, if_true]
          by_cases h1 : n.level = a
          · simp [h1, hab]
          · by_cases h2 : n.level = b
            · simp [h2, Ne.symm hab]
            · simp [h1, h2] }
  have hR : ∀ i, ext i ≤ (s.table u).count i + othG (lab.getD u 0) (lab.getD l 0) s.h.sh i + ext i :=
    fun i => by omega
  have hloop := levelSwapLoop_spec (al := al) hal hp hR _ hinit
  generalize hst : levelSwapLoop k al (lab.getD u 0) (lab.getD l 0) (s.table u) (ord (s.table u))
    ⟨s.h, s.table l, []⟩ = st at hloop
  have hJ := hloop.j
  have hdrop := dropOld_spec
    (w := fun i => st.up.count i + st.lo.count i + othG (lab.getD u 0) (lab.getD l 0) s.h.sh i + ext i)
    (s.table u) (h := st.h)
    (hloop.rc.congr (fun i => by simp only [wOf]; omega))
    (fun j hj => by
      rcases hJ.oldC j hj with h | h | h
      · simp at h
      · have : 0 < st.lo.count j := List.count_pos_iff.mpr h
        show 0 < _; omega
      · have : 0 < st.up.count j := List.count_pos_iff.mpr h
        show 0 < _; omega)
  refine ⟨st.up, st.lo, ?_⟩
  have hgu : lab.getD u u = lab.getD u 0 := getD_self_eq' hu
  have hgl : lab.getD l l = lab.getD l 0 := getD_self_eq' hl
  unfold levelSwapG
  simp only [levelSwapS, hgu, hgl, hst]
  refine { j := ?_, tables := ?_, rc := hdrop.2, len := by simp }
  · show J _ _ _ _ _ _ _ (dropOld st.h (s.table u)).sh _ _ _
    rw [hdrop.1]; exact hJ
  · intro p
    exact table_setG _ _ u l _ _ (by omega) (hinv.len ▸ hu) (hinv.len ▸ hl) p

end

/-! ## the classes of slots after the general swap -/

section
variable {k : Nat} {ext : Nat → Nat} {lab : List Nat} {pos : Nat → Nat} {s s' : SStore T}
  {u l a b : Nat} {up lo : List Nat}

theorem ResG.up_sh (hres : ResG k ext pos s u l a b s' up lo) {i : Nat} (hi : i ∈ up) :
    i ∉ lo ∧ ∃ cs, s'.h.sh i = some ⟨b, cs⟩ :=
  ⟨hres.j.dUL i hi, hres.j.up_level hi⟩

theorem ResG.lo_sh (hres : ResG k ext pos s u l a b s' up lo) {i : Nat} (hi : i ∈ lo) :
    i ∉ up ∧ ∃ xs, s'.h.sh i = some ⟨a, xs⟩ ∧
      (∀ x ∈ xs, Bel a b (BelowL pos l) s.h.sh x) ∧ ¬ Red xs ∧ xs.length = k := by
  obtain ⟨xs, hs, hx, hnr, hlen, _⟩ := hres.j.loC i hi
  exact ⟨fun h => hres.j.dUL i h hi, xs, hs, hx, hnr, hlen⟩

theorem ResG.frame_sh (hp : Pre a b (BelowL pos l) s.h.sh k (s.table u))
    (hres : ResG k ext pos s u l a b s' up lo) {i : Nat} {n : Node T}
    (hn : s.h.sh i = some n) (h1 : n.level ≠ a) (h2 : n.level ≠ b) :
    i ∉ up ∧ i ∉ lo ∧ s'.h.sh i = some n := by
  have hku : i ∉ up := by
    intro hk
    rcases hres.j.upC i hk with ⟨n', hn', hl, _⟩ | ⟨g1, _⟩
    · rw [hn] at hn'; cases hn'; exact h2 hl
    · obtain ⟨n', hn', hl⟩ := (hp.old_iff i).mp g1
      rw [hn] at hn'; cases hn'; exact h1 hl
  have hkl : i ∉ lo := by
    intro hk
    obtain ⟨xs, _, _, _, _, g1, g2⟩ := hres.j.loC i hk
    by_cases hko : i ∈ s.table u
    · obtain ⟨n', hn', hl⟩ := (hp.old_iff i).mp hko
      rw [hn] at hn'; cases hn'; exact h1 hl
    · rcases g2 hko with h | ⟨n', hn', hl⟩
      · rw [hn] at h; cases h
      · rw [hn] at hn'; cases hn'; exact h2 hl
  exact ⟨hku, hkl, hres.j.frame i n hn h1 h2⟩

theorem ResG.cases (hres : ResG k ext pos s u l a b s' up lo) {i : Nat} {n' : Node T}
    (hi : s'.h.sh i = some n') :
    (s.h.sh i = some n' ∧ n'.level ≠ a ∧ n'.level ≠ b ∧ i ∉ up ∧ i ∉ lo) ∨ i ∈ up ∨ i ∈ lo := by
  by_cases hkl : i ∈ lo
  · exact Or.inr (Or.inr hkl)
  · by_cases hku : i ∈ up
    · exact Or.inr (Or.inl hku)
    · left
      rcases hres.j.live i (by rw [hi]; simp) with ⟨n, hn, h1, h2⟩ | h | h | h
      · have := hres.j.frame i n hn h1 h2
        rw [hi] at this; cases this
        exact ⟨hn, h1, h2, hku, hkl⟩
      · simp at h
      · exact absurd h hku
      · exact absurd h hkl

theorem ResG.bel_sh (hp : Pre a b (BelowL pos l) s.h.sh k (s.table u))
    (hres : ResG k ext pos s u l a b s' up lo) {i : Nat}
    (hb : Bel a b (BelowL pos l) s.h.sh (.inner i)) :
    ∃ n, s.h.sh i = some n ∧ s'.h.sh i = some n ∧ l < pos n.level ∧ n.level ≠ a ∧ n.level ≠ b := by
  obtain ⟨n, hn, h1, h2, h3⟩ := hb
  exact ⟨n, hn, (hres.frame_sh hp hn h1 h2).2.2, h3, h1, h2⟩

/-- an inner result of `reduce` + lookups for a column of edges below lies below position `u` -/
theorem ResG.mkR_pos (hp : Pre a b (BelowL pos l) s.h.sh k (s.table u))
    (hres : ResG k ext pos s u l a b s' up lo) (hul : u < l) {xs : List (Edge T)} {c : Edge T}
    (hx : ∀ x ∈ xs, Bel a b (BelowL pos l) s.h.sh x) (hm : MkR a s'.h.sh lo [] xs c) {j : Nat}
    (hc : c = .inner j) : ∃ m, s'.h.sh j = some m ∧ u < swapPos pos a b u l m.level := by
  rcases hm with ⟨x, hxm, _, h2⟩ | ⟨_, j', hj, h2, h3⟩
  · subst h2; subst hc
    obtain ⟨n, _, h4, h5, h6, h7⟩ := hres.bel_sh hp (hx _ hxm)
    exact ⟨n, h4, by simp only [swapPos, h6, h7, if_false]; omega⟩
  · rw [hc] at h2; injection h2 with h2; subst h2
    exact ⟨_, h3, by simp [swapPos]; omega⟩

/-- **the general `level_swap` re-establishes the lazy store invariant**, with the labels and
positions of the two level views exchanged -/
theorem ResG.invL (hinv : InvL k ext lab pos s) (hul : u < l) (hl : l < lab.length)
    (hgap : ∀ p, u < p → p < l → s.table p = [])
    (ha : lab.getD u 0 = a) (hb : lab.getD l 0 = b) (hres : ResG k ext pos s u l a b s' up lo) :
    InvL k ext (swapLab lab u l) (swapPos pos a b u l) s' := by
  have hu : u < lab.length := by omega
  have hp : Pre a b (BelowL pos l) s.h.sh k (s.table u) := ha ▸ hb ▸ hinv.pre hul hl hgap
  have hJ := hres.j
  have hpa : pos a = u := ha ▸ hinv.pos_lab u hu
  have hpb : pos b = l := hb ▸ hinv.pos_lab l hl
  have hab : a ≠ b := hp.ab
  have hlabp : ∀ p, p < lab.length → p ≠ u → p ≠ l → lab.getD p 0 ≠ a ∧ lab.getD p 0 ≠ b := by
    intro p hpl h1 h2
    exact ⟨fun h => h1 (hinv.lab_inj hpl hu (h.trans ha.symm)),
      fun h => h2 (hinv.lab_inj hpl hl (h.trans hb.symm))⟩
  have hposne : ∀ x, x ≠ a → x ≠ b → swapPos pos a b u l x = pos x := by
    intro x h1 h2; simp [swapPos, h1, h2]
  have hposa : swapPos pos a b u l a = l := by simp [swapPos]
  have hposb : swapPos pos a b u l b = u := by simp [swapPos, Ne.symm hab]
  -- a node outside the two views lies above `u` or below `l`
  have hframe_pos : ∀ i n, s.h.sh i = some n → n.level ≠ a → n.level ≠ b →
      pos n.level < u ∨ l < pos n.level := by
    intro i n hn h1 h2
    obtain ⟨g1, g2⟩ := hinv.live_lab i n hn
    have hne : s.table (pos n.level) ≠ [] := by
      intro h; have := hinv.table_empty hn; rw [h] at this; cases this
    by_cases c1 : pos n.level < u
    · exact Or.inl c1
    · by_cases c2 : l < pos n.level
      · exact Or.inr c2
      · exfalso
        by_cases c3 : pos n.level = u
        · rw [c3, ha] at g2; exact h1 g2.symm
        · by_cases c4 : pos n.level = l
          · rw [c4, hb] at g2; exact h2 g2.symm
          · exact hne (hgap _ (by omega) (by omega))
  refine { kpos := hinv.kpos, arity := ?_, len := ?_, pos_lab := ?_, tbl_iff := ?_, live_lab := ?_,
           tbl_nodup := ?_, ordered := ?_, nored := ?_, uniq := ?_, rc := ?_ }
  · -- arity
    intro i n hn
    rcases hres.cases hn with ⟨h0, _⟩ | hi | hi
    · exact hinv.arity i n h0
    · rcases hJ.upC i hi with ⟨n0, h1, _, h3⟩ | ⟨_, _, n0, cs, _, _, g5, glen, _⟩
      · rw [hn] at h3; cases h3
        exact hinv.arity i _ h1
      · rw [hn] at g5; cases g5
        exact glen
    · obtain ⟨_, xs, hs', _, _, hlen⟩ := hres.lo_sh hi
      rw [hn] at hs'; cases hs'
      exact hlen
  · rw [swapLab_length, hinv.len, hres.len]
  · intro p hpl
    rw [swapLab_length] at hpl
    rw [swapLab_getD hu hl]
    by_cases h1 : p = l
    · subst h1; simp only [if_true]; rw [ha]; exact hposa
    · by_cases h2 : p = u
      · subst h2; simp only [h1, if_false, if_true]; rw [hb]; exact hposb
      · simp only [h1, h2, if_false]
        have := hlabp p hpl h2 h1
        rw [hposne _ this.1 this.2]; exact hinv.pos_lab p hpl
  · intro p hpl i
    rw [swapLab_length] at hpl
    rw [hres.tables, swapLab_getD hu hl]
    by_cases h1 : p = l
    · subst h1; simp only [if_true]; rw [ha]
      constructor
      · intro hi
        obtain ⟨_, xs, h2, _⟩ := hres.lo_sh hi
        exact ⟨_, h2, rfl⟩
      · rintro ⟨n, hn, hlv⟩
        rcases hres.cases hn with ⟨_, h3, _⟩ | h | h
        · exact absurd hlv h3
        · obtain ⟨_, cs, h2⟩ := hres.up_sh h
          rw [hn] at h2; cases h2; exact absurd hlv (Ne.symm hab)
        · exact h
    · by_cases h2 : p = u
      · subst h2; simp only [h1, if_false, if_true]; rw [hb]
        constructor
        · intro hi
          obtain ⟨_, cs, h2⟩ := hres.up_sh hi
          exact ⟨_, h2, rfl⟩
        · rintro ⟨n, hn, hlv⟩
          rcases hres.cases hn with ⟨_, _, h3, _⟩ | h | h
          · exact absurd hlv h3
          · exact h
          · obtain ⟨_, xs, h2, _⟩ := hres.lo_sh h
            rw [hn] at h2; cases h2; exact absurd hlv hab
      · simp only [h1, h2, if_false]
        have hne := hlabp p hpl h2 h1
        rw [hinv.tbl_iff p hpl]
        constructor
        · rintro ⟨n, hn, hlv⟩
          exact ⟨n, (hres.frame_sh hp hn (hlv ▸ hne.1) (hlv ▸ hne.2)).2.2, hlv⟩
        · rintro ⟨n, hn, hlv⟩
          rcases hres.cases hn with ⟨h3, _⟩ | h | h
          · exact ⟨n, h3, hlv⟩
          · obtain ⟨_, cs, h4⟩ := hres.up_sh h
            rw [hn] at h4; cases h4; exact absurd hlv.symm hne.2
          · obtain ⟨_, xs, h4, _⟩ := hres.lo_sh h
            rw [hn] at h4; cases h4; exact absurd hlv.symm hne.1
  · intro i n hn
    rw [swapLab_length, swapLab_getD hu hl]
    rcases hres.cases hn with ⟨h0, h1, h2, _, _⟩ | h | h
    · obtain ⟨g1, g2⟩ := hinv.live_lab i n h0
      rw [hposne _ h1 h2]
      refine ⟨g1, ?_⟩
      have c1 : pos n.level ≠ l := fun c => h2 (by rw [c, hb] at g2; exact g2.symm)
      have c2 : pos n.level ≠ u := fun c => h1 (by rw [c, ha] at g2; exact g2.symm)
      simp only [c1, c2, if_false]; exact g2
    · obtain ⟨_, cs, h4⟩ := hres.up_sh h
      rw [hn] at h4; cases h4
      simp only [hposb]
      have : ¬ (u = l) := by omega
      simp only [this, if_false, if_true]
      exact ⟨hu, hb⟩
    · obtain ⟨_, xs, h4, _⟩ := hres.lo_sh h
      rw [hn] at h4; cases h4
      simp only [hposa, if_true]
      exact ⟨hl, ha⟩
  · intro p
    rw [hres.tables]
    split
    · exact hJ.ndLo
    · split
      · exact hJ.ndUp
      · exact hinv.tbl_nodup p
  · -- ordered
    intro i n hn j hc
    rcases hres.cases hn with ⟨h0, h1, h2, _, _⟩ | hi | hi
    · obtain ⟨m, hm, hlt⟩ := hinv.ordered i n h0 j hc
      rw [hposne _ h1 h2]
      by_cases hmb : m.level = b
      · have hju : j ∈ up := by
          apply Classical.byContradiction
          intro hju
          exact (hJ.dead j m hm hmb hju).2 i n h0 (Or.inl ⟨h1, h2⟩) hc
        obtain ⟨_, cs, h4⟩ := hres.up_sh hju
        refine ⟨_, h4, ?_⟩
        simp only [hposb]
        rw [hmb, hpb] at hlt
        rcases hframe_pos i n h0 h1 h2 with c | c <;> omega
      · by_cases hma : m.level = a
        · rw [hma, hpa] at hlt
          have hjo : j ∈ s.table u := (hp.old_iff j).mpr ⟨m, hm, hma⟩
          rcases hJ.oldC j hjo with h | h | h
          · simp at h
          · obtain ⟨_, xs, h4, _⟩ := hres.lo_sh h
            exact ⟨_, h4, by simp only [hposa]; omega⟩
          · obtain ⟨_, cs, h4⟩ := hres.up_sh h
            exact ⟨_, h4, by simp only [hposb]; omega⟩
        · refine ⟨m, (hres.frame_sh hp hm hma hmb).2.2, ?_⟩
          rw [hposne _ hma hmb]; exact hlt
    · obtain ⟨_, cs, hs'⟩ := hres.up_sh hi
      rw [hn] at hs'; cases hs'
      simp only [hposb]
      rcases hJ.upC i hi with hsv | ⟨g1, _, n0, cs', g3, _, g5, glen, g6⟩
      · have hbl := survL_bel hp hsv hn
        obtain ⟨m, _, h4, h5, h6, h7⟩ := hres.bel_sh hp (hbl _ hc)
        exact ⟨m, h4, by rw [hposne _ h6 h7]; omega⟩
      · rw [hn] at g5; cases g5
        obtain ⟨n0', hn0', hl0⟩ := (hp.old_iff i).mp g1
        rw [g3] at hn0'; cases hn0'
        obtain ⟨q, hq, hqe⟩ := List.mem_iff_getElem.mp hc
        have hqk : q < k := glen ▸ hq
        exact hres.mkR_pos hp hul (bel_col0 hp g3 hl0 hqk)
          (g6 q _ (by rw [List.getElem?_eq_getElem hq, hqe])) rfl
    · obtain ⟨_, xs, hs', hx, _⟩ := hres.lo_sh hi
      rw [hn] at hs'; cases hs'
      simp only [hposa]
      obtain ⟨m, _, h4, h5, h6, h7⟩ := hres.bel_sh hp (hx _ hc)
      exact ⟨m, h4, by rw [hposne _ h6 h7]; exact h5⟩
  · -- no redundant node
    intro i n hn
    rcases hres.cases hn with ⟨h0, _⟩ | hi | hi
    · exact hinv.nored i n h0
    · rcases hJ.upC i hi with ⟨n0, h1, _, h3⟩ | ⟨g1, _, n0, cs', g3, g4, g5, glen, g6⟩
      · rw [hn] at h3; cases h3
        exact hinv.nored i _ h1
      · rw [hn] at g5; cases g5
        obtain ⟨n0', hn0', hl0⟩ := (hp.old_iff i).mp g1
        rw [g3] at hn0'; cases hn0'
        exact hJ.rew_nored hp g3 hl0 g4 glen g6
    · obtain ⟨_, xs, hs', _, hnr, _⟩ := hres.lo_sh hi
      rw [hn] at hs'; cases hs'
      exact hnr
  · -- no duplicates
    intro i j n hi hj
    rcases hres.cases hi with ⟨h0, h1, h2, _, _⟩ | hiu | hil
    · rcases hres.cases hj with ⟨h0', _⟩ | hju | hjl
      · exact hinv.uniq i j n h0 h0'
      · obtain ⟨_, cs, h4⟩ := hres.up_sh hju
        rw [hj] at h4; cases h4; exact absurd rfl h2
      · obtain ⟨_, xs, h4, _⟩ := hres.lo_sh hjl
        rw [hj] at h4; cases h4; exact absurd rfl h1
    · obtain ⟨_, cs, h4⟩ := hres.up_sh hiu
      rw [hi] at h4; cases h4
      rcases hres.cases hj with ⟨_, _, h2, _⟩ | hju | hjl
      · exact absurd rfl h2
      · exact hJ.up_unique hp hiu hju hi hj
      · obtain ⟨_, xs, h4', _⟩ := hres.lo_sh hjl
        rw [hj] at h4'; cases h4'; exact absurd rfl hab.symm
    · obtain ⟨_, xs, h4, _⟩ := hres.lo_sh hil
      rw [hi] at h4; cases h4
      rcases hres.cases hj with ⟨_, h1, _⟩ | hju | hjl
      · exact absurd rfl h1
      · obtain ⟨_, cs, h4'⟩ := hres.up_sh hju
        rw [hj] at h4'; cases h4'; exact absurd rfl hab
      · exact hJ.loU i hil j hjl (hi.trans hj.symm)
  · -- reference counts
    refine hres.rc.congr (fun i => ?_)
    rw [hJ.ndUp.count, hJ.ndLo.count]
    simp only [live01]
    by_cases hiu : i ∈ up
    · obtain ⟨hil, cs, h4⟩ := hres.up_sh hiu
      have ho : othG a b s.h.sh i = 0 := by
        simp only [othG]
        rcases hJ.upC i hiu with ⟨n0, h1, h2, _⟩ | ⟨g1, _⟩
        · simp [h1, h2]
        · obtain ⟨n0, h1, h2⟩ := (hp.old_iff i).mp g1
          simp [h1, h2]
      simp [hiu, hil, ho, h4]
    · by_cases hil : i ∈ lo
      · obtain ⟨_, xs, h4, _⟩ := hres.lo_sh hil
        have ho : othG a b s.h.sh i = 0 := by
          simp only [othG]
          obtain ⟨_, _, _, _, _, g1, g2⟩ := hJ.loC i hil
          by_cases hio : i ∈ s.table u
          · obtain ⟨n0, h1, h2⟩ := (hp.old_iff i).mp hio
            simp [h1, h2]
          · rcases g2 hio with h | ⟨n0, h1, h2⟩
            · simp [h]
            · simp [h1, h2]
        simp [hiu, hil, ho, h4]
      · simp only [hiu, hil, if_false]
        cases hs' : s'.h.sh i with
        | none =>
          have ho : othG a b s.h.sh i = 0 := by
            simp only [othG]
            cases h0 : s.h.sh i with
            | none => rfl
            | some n0 =>
              simp only
              by_cases h1 : n0.level = a ∨ n0.level = b
              · simp [h1]
              · have := (hres.frame_sh hp h0 (fun h => h1 (Or.inl h)) (fun h => h1 (Or.inr h))).2.2
                rw [hs'] at this; cases this
          simp [ho]
        | some n' =>
          rcases hres.cases hs' with ⟨h0, h1, h2, _, _⟩ | h | h
          · have ho : othG a b s.h.sh i = 1 := by simp [othG, h0, h1, h2]
            simp [ho]
          · exact absurd h hiu
          · exact absurd h hil

end

/-! ## evaluation of an edge under a `k`-valued assignment of the stored level numbers -/

/-- `Ev sh σ x v`: the diagram below edge `x` evaluates to the terminal `v` when at every node
carrying the stored level number `ℓ` the child number `σ ℓ` is taken (for `k = 2`: `0` = then,
`1` = else; for the TDD: `0` = true, `1` = unknown, `2` = false) -/
inductive Ev (sh : Nat → Option (Node T)) (σ : Nat → Nat) : Edge T → T → Prop
  | term {v : T} : Ev sh σ (.term v) v
  | inner {i ℓ : Nat} {cs : List (Edge T)} {c : Edge T} {v : T} :
      sh i = some ⟨ℓ, cs⟩ → cs[σ ℓ]? = some c → Ev sh σ c v → Ev sh σ (.inner i) v

theorem Ev.functional {sh : Nat → Option (Node T)} {σ : Nat → Nat} {x : Edge T} {v w : T}
    (hv : Ev sh σ x v) (hw : Ev sh σ x w) : v = w := by
  induction hv generalizing w with
  | term => cases hw; rfl
  | inner hi hc _ ih =>
    cases hw with
    | inner hi' hc' he' =>
      rw [hi] at hi'; cases hi'
      rw [hc] at hc'; cases hc'
      exact ih he'

section
variable {k : Nat} {ext : Nat → Nat} {lab : List Nat} {pos : Nat → Nat} {s s' : SStore T}
  {u l a b : Nat} {up lo : List Nat} {σ : Nat → Nat}

/-- the entry of the matrix row of `c` selected by `σ b` evaluates like `c` -/
theorem ev_cof {sh : Nat → Option (Node T)} {c : Edge T} {vc : T} (hv : Ev sh σ c vc) (b : Nat) :
    Ev sh σ (cof0 b sh c (σ b)) vc := by
  cases hv with
  | term => exact .term
  | @inner i ℓ cs c' v hi hc he =>
    simp only [cof0, hi]
    by_cases hl : ℓ = b
    · subst hl
      simp only [if_true]
      rw [List.getD_eq_getElem?_getD, hc]; exact he
    · simp only [hl, if_false]
      exact .inner hi hc he

/-- a diagram that lies entirely below the two level views is untouched -/
theorem ResG.ev_below (hinv : InvL k ext lab pos s) (hul : u < l) (hl : l < lab.length)
    (ha : lab.getD u 0 = a) (hb : lab.getD l 0 = b)
    (hp : Pre a b (BelowL pos l) s.h.sh k (s.table u))
    (hres : ResG k ext pos s u l a b s' up lo) {x : Edge T} {v : T}
    (hv : Ev s.h.sh σ x v) (hbel : Bel a b (BelowL pos l) s.h.sh x) : Ev s'.h.sh σ x v := by
  have hu : u < lab.length := by omega
  have hpa : pos a = u := ha ▸ hinv.pos_lab u hu
  have hpb : pos b = l := hb ▸ hinv.pos_lab l hl
  induction hv with
  | term => exact .term
  | @inner i ℓ cs c v hi hc _ ih =>
    obtain ⟨n, hn, hn', hlt, _, _⟩ := hres.bel_sh hp hbel
    rw [hi] at hn; cases hn
    have hchild : ∀ c ∈ cs, Bel a b (BelowL pos l) s.h.sh c := by
      intro c hcm
      cases c with
      | term w => trivial
      | inner j =>
        obtain ⟨m, hm, hlt'⟩ := hinv.ordered i _ hi j hcm
        have h3 : l < pos m.level := by simp only at hlt hlt'; omega
        refine ⟨m, hm, ?_, ?_, h3⟩
        · intro h; rw [h, hpa] at h3; omega
        · intro h; rw [h, hpb] at h3; omega
    exact .inner hn' hc (ih (hchild c (List.mem_of_getElem? hc)))

/-- the result of `reduce` + lookups for a column evaluates like the selected entry -/
theorem ResG.mkR_ev (_hres : ResG k ext pos s u l a b s' up lo) {xs : List (Edge T)}
    {c x : Edge T} {v : T} (hm : MkR a s'.h.sh lo [] xs c) (hx : xs[σ a]? = some x)
    (hv : Ev s'.h.sh σ x v) : Ev s'.h.sh σ c v := by
  rcases hm with ⟨y, _, hall, h2⟩ | ⟨_, j, _, h2, h3⟩
  · have := hall x (List.mem_of_getElem? hx)
    subst this; subst h2; exact hv
  · subst h2
    exact .inner h3 hx hv

/-- **every surviving edge keeps its value** under every `k`-valued assignment of the labels -/
theorem ResG.eval (hinv : InvL k ext lab pos s) (hul : u < l) (hl : l < lab.length)
    (hgap : ∀ p, u < p → p < l → s.table p = [])
    (ha : lab.getD u 0 = a) (hb : lab.getD l 0 = b)
    (hres : ResG k ext pos s u l a b s' up lo) (hσ : ∀ ℓ, σ ℓ < k) {x : Edge T} {v : T}
    (hv : Ev s.h.sh σ x v)
    (halive : ∀ i m, x = .inner i → s.h.sh i = some m → m.level = b → i ∈ up) :
    Ev s'.h.sh σ x v := by
  have hp : Pre a b (BelowL pos l) s.h.sh k (s.table u) := ha ▸ hb ▸ hinv.pre hul hl hgap
  have hJ := hres.j
  have hbelow : ∀ {x v}, Ev s.h.sh σ x v → Bel a b (BelowL pos l) s.h.sh x → Ev s'.h.sh σ x v :=
    fun h1 h2 => hres.ev_below hinv hul hl ha hb hp h1 h2
  induction hv with
  | term => exact .term
  | @inner i ℓ cs c v hi hc he ih =>
    have hcm : c ∈ cs := List.mem_of_getElem? hc
    by_cases h1 : ℓ = a
    · subst h1
      have hio : i ∈ s.table u := (hp.old_iff i).mpr ⟨_, hi, rfl⟩
      have hk0 := hp.upKids i _ hi rfl
      rcases hJ.oldC i hio with h | h | h
      · simp at h
      · -- moved
        obtain ⟨xs, g1, hx, _, _, g5, _⟩ := hJ.loC i h
        have := g5 hio
        rw [hi, g1] at this; cases this
        exact .inner g1 hc (hbelow he (hx _ hcm))
      · -- rewritten
        rcases hJ.upC i h with ⟨n0, g1, g2, _⟩ | ⟨_, _, n0, cs', g3, g4, g5, glen, g6⟩
        · rw [hi] at g1; cases g1; exact absurd g2 hp.ab
        · rw [hi] at g3; cases g3
          have hq : σ b < k := hσ b
          have hq' : σ b < cs'.length := by omega
          have hcq : cs'[σ b]? = some cs'[σ b] := List.getElem?_eq_getElem hq'
          have hm := g6 _ _ hcq
          have hcol : (col0 b s.h.sh cs (σ b))[σ ℓ]? = some (cof0 b s.h.sh c (σ b)) := by
            simp only [col0, List.getElem?_map, hc, Option.map_some]
          have e1 := ev_cof he b
          have e2 := hbelow e1 (bel_cof0 hp (hk0 c hcm) hq)
          have e3 := hres.mkR_ev hm hcol e2
          exact .inner g5 hcq e3
    · by_cases h2 : ℓ = b
      · subst h2
        have hiu := halive i _ rfl hi rfl
        rcases hJ.upC i hiu with ⟨n0, g1, _, g3⟩ | ⟨g1, _⟩
        · rw [hi] at g1; cases g1
          have hk := hp.lowKids i _ hi rfl
          exact .inner g3 hc (hbelow he (hk _ hcm))
        · obtain ⟨n0, g2, g3⟩ := (hp.old_iff i).mp g1
          rw [hi] at g2; cases g2; exact absurd g3 (Ne.symm hp.ab)
      · have hs' := (hres.frame_sh hp hi h1 h2).2.2
        refine .inner hs' hc (ih ?_)
        intro j m hcj hm hmb
        apply Classical.byContradiction
        intro hju
        exact (hJ.dead j m hm hmb hju).2 i _ hi (Or.inl ⟨h1, h2⟩) (hcj ▸ hcm)

end

/-! ## one call of the `swap` closure of `set_var_order` -/

/-- the state of the manager during `set_var_order`: the lazy invariant, the level views that were
empty at the start are still empty, and the level→variable map follows `to_pre` -/
structure RInv (k : Nat) (ext : Nat → Nat) (fromNe l2v0 : List Nat) (pos : Nat → Nat)
    (r : RState T) : Prop where
  inv : InvL k ext r.toPre pos r.s
  empty : ∀ p, p ∉ fromNe → r.s.table p = []
  l2v_len : r.l2v.length = r.toPre.length
  l2v_eq : ∀ p, p < r.toPre.length → r.l2v.getD p 0 = l2v0.getD (r.toPre.getD p 0) 0

theorem getD_self_eq {lab : List Nat} {p : Nat} (hp : p < lab.length) :
    lab.getD p p = lab.getD p 0 := by
  simp [List.getD_eq_getElem?_getD, List.getElem?_eq_getElem hp]

section
variable [DecidableEq T]

theorem levelSwapG_toPre (k : Nat) (al : Heap T → Nat) (ord : List Nat → List Nat) (r : RState T)
    {u l : Nat} (hu : u < r.toPre.length) (hl : l < r.toPre.length) :
    (levelSwapG k al ord r u l).toPre = swapLab r.toPre u l := by
  simp only [levelSwapG, swapLab, getD_self_eq hu, getD_self_eq hl]

theorem levelSwapG_l2v (k : Nat) (al : Heap T → Nat) (ord : List Nat → List Nat) (r : RState T)
    (u l : Nat) : (levelSwapG k al ord r u l).l2v = swapLab r.l2v u l := rfl

theorem levelSwapG_toPre_length (k : Nat) (al : Heap T → Nat) (ord : List Nat → List Nat)
    (r : RState T) (u l : Nat) :
    (levelSwapG k al ord r u l).toPre.length = r.toPre.length := by
  simp [levelSwapG]

variable {k : Nat} {ext : Nat → Nat} {fromNe l2v0 : List Nat} {pos : Nat → Nat} {r : RState T}
  {u l : Nat} {al : Heap T → Nat} {ord : List Nat → List Nat}

/-- **one `level_swap` of `set_var_order`**: the invariant of the reordering is preserved and
every edge that is still there — in particular every external handle — keeps its value under
every `k`-valued assignment of the labels -/
theorem levelSwapG_spec (hal : AllocOK al) (hord : OrderOK ord) (hr : RInv k ext fromNe l2v0 pos r)
    (hul : u < l) (hl : l < r.toPre.length) (hu' : u ∈ fromNe) (hl' : l ∈ fromNe)
    (hgap : ∀ p, u < p → p < l → p ∉ fromNe) :
    ∃ pos', RInv k ext fromNe l2v0 pos' (levelSwapG k al ord r u l) ∧
      ∀ σ x v, (∀ ℓ, σ ℓ < k) → Ev r.s.h.sh σ x v →
        (∀ i m, x = .inner i → r.s.h.sh i = some m → m.level = r.toPre.getD l 0 → 0 < ext i) →
        Ev (levelSwapG k al ord r u l).s.h.sh σ x v := by
  have hu : u < r.toPre.length := by omega
  have hgap' : ∀ p, u < p → p < l → r.s.table p = [] := fun p h1 h2 => hr.empty p (hgap p h1 h2)
  obtain ⟨up, lo, hres'⟩ := levelSwapG_res hal hord hr.inv hul hl hgap' r.l2v
  have hinv' := hres'.invL hr.inv hul hl hgap' rfl rfl
  refine ⟨swapPos pos (r.toPre.getD u 0) (r.toPre.getD l 0) u l, ⟨?_, ?_, ?_, ?_⟩, ?_⟩
  · show InvL k ext (levelSwapG k al ord r u l).toPre _
      (levelSwapG k al ord ⟨r.s, r.toPre, r.l2v⟩ u l).s
    rw [levelSwapG_toPre k al ord r hu hl]; exact hinv'
  · intro p hp
    show (levelSwapG k al ord ⟨r.s, r.toPre, r.l2v⟩ u l).s.table p = []
    rw [hres'.tables]
    have h1 : p ≠ l := fun h => hp (h ▸ hl')
    have h2 : p ≠ u := fun h => hp (h ▸ hu')
    simp only [h1, h2, if_false]
    exact hr.empty p hp
  · rw [levelSwapG_l2v, levelSwapG_toPre k al ord r hu hl, swapLab_length, swapLab_length]
    exact hr.l2v_len
  · intro p hp
    rw [levelSwapG_toPre k al ord r hu hl] at hp ⊢
    rw [swapLab_length] at hp
    rw [levelSwapG_l2v, swapLab_getD (hr.l2v_len ▸ hu) (hr.l2v_len ▸ hl), swapLab_getD hu hl]
    by_cases h1 : p = l
    · simp only [h1, if_true]; exact hr.l2v_eq u hu
    · by_cases h2 : p = u
      · simp only [h2, if_true]
        have : ¬ (u = l) := by omega
        simp only [this, if_false]; exact hr.l2v_eq l hl
      · simp only [h1, h2, if_false]; exact hr.l2v_eq p hp
  · intro σ x v hσ hv hal'
    refine hres'.eval hr.inv hul hl hgap' rfl rfl hσ hv (fun i m hi hm hlv => ?_)
    apply Classical.byContradiction
    intro hiu
    have h0 := (hres'.j.dead i m hm hlv hiu).1
    have := hal' i m hi hm hlv
    omega

end

/-! ## the first step of `set_var_order`: a sequence of swaps of neighbouring non-empty levels -/

theorem sorted_consecutive {L : List Nat} (hs : L.Pairwise (· < ·)) {i : Nat} (hi : i + 1 < L.length) :
    L.getD i 0 < L.getD (i + 1) 0 ∧ L.getD i 0 ∈ L ∧ L.getD (i + 1) 0 ∈ L ∧
    ∀ p, L.getD i 0 < p → p < L.getD (i + 1) 0 → p ∉ L := by
  have hi0 : i < L.length := by omega
  have e0 : L.getD i 0 = L[i] := by simp [List.getD_eq_getElem?_getD, List.getElem?_eq_getElem hi0]
  have e1 : L.getD (i + 1) 0 = L[i + 1] := by
    simp [List.getD_eq_getElem?_getD, List.getElem?_eq_getElem hi]
  rw [e0, e1]
  have hpw := List.pairwise_iff_getElem.mp hs
  refine ⟨hpw i (i + 1) hi0 hi (by omega), List.getElem_mem _, List.getElem_mem _, ?_⟩
  intro p h1 h2 hp
  obtain ⟨j, hj, rfl⟩ := List.mem_iff_getElem.mp hp
  by_cases c1 : j < i
  · have := hpw j i hj hi0 c1; omega
  · by_cases c2 : j = i
    · subst c2; omega
    · by_cases c3 : j = i + 1
      · subst c3; omega
      · have := hpw (i + 1) j hi hj (by omega); omega

section
variable [DecidableEq T]

/-- the `swap` closure applied to a list of indices into `from_ne` -/
def swapsG (k : Nat) (al : Heap T → Nat) (ord : List Nat → List Nat) (fromNe : List Nat)
    (r : RState T) (sw : List Nat) : RState T :=
  sw.foldl (fun r i => levelSwapG k al ord r (fromNe.getD i 0) (fromNe.getD (i + 1) 0)) r

variable {k : Nat} {ext : Nat → Nat} {fromNe l2v0 : List Nat} {pos : Nat → Nat} {r : RState T}
  {al : Heap T → Nat} {ord : List Nat → List Nat}

theorem swapsG_spec (hal : AllocOK al) (hord : OrderOK ord) (hs : fromNe.Pairwise (· < ·))
    (sw : List Nat) (hsw : ∀ i ∈ sw, i + 1 < fromNe.length)
    (hr : RInv k ext fromNe l2v0 pos r) (hlt : ∀ p ∈ fromNe, p < r.toPre.length) :
    ∃ pos', RInv k ext fromNe l2v0 pos' (swapsG k al ord fromNe r sw) ∧
      (swapsG k al ord fromNe r sw).toPre.length = r.toPre.length ∧
      ∀ σ i v, (∀ ℓ, σ ℓ < k) → 0 < ext i → Ev r.s.h.sh σ (.inner i) v →
        Ev (swapsG k al ord fromNe r sw).s.h.sh σ (.inner i) v := by
  unfold swapsG
  induction sw generalizing r pos with
  | nil => exact ⟨pos, hr, rfl, fun _ _ _ _ _ h => h⟩
  | cons i rest ih =>
    simp only [List.foldl_cons]
    obtain ⟨h1, h2, h3, h4⟩ := sorted_consecutive hs (hsw i (by simp))
    obtain ⟨pos1, hr1, hev1⟩ := levelSwapG_spec hal hord hr h1 (hlt _ h3) h2 h3 h4
    have hlen := levelSwapG_toPre_length k al ord r (fromNe.getD i 0) (fromNe.getD (i + 1) 0)
    obtain ⟨pos2, hr2, hlen2, hev2⟩ := ih (fun j hj => hsw j (by simp [hj])) hr1
      (fun p hp => by rw [hlen]; exact hlt p hp)
    refine ⟨pos2, hr2, hlen2.trans hlen, fun σ j v hσ hj hv => hev2 σ j v hσ hj ?_⟩
    exact hev1 σ _ v hσ hv (fun j' m hj' _ _ => by injection hj' with hj'; subst hj'; exact hj)

end

end OxiddModel.Reorder.SwapStoreN
