import OxiddModel.Reorder.SwapStoreN

/-!
# Heap lemmas for the `k`-ary store-level `level_swap` model

`get?_put`, `refs_put` (the parent-edge count changes by the difference of the overwritten slot),
and the effect of every primitive on the *shape* `Heap.sh` (level and children of a slot) and on
the *reference counter* `Heap.rcOf` of every slot; the reference-count equation `RCx`.
-/
namespace OxiddModel.Reorder.SwapStoreN

variable {T : Type}

/-- level and children of slot `j` -/
def Heap.sh (h : Heap T) (j : Nat) : Option (Node T) := (h.get? j).map SNode.toNode

/-- the reference counter of slot `j` (0 for a free slot) -/
def Heap.rcOf (h : Heap T) (j : Nat) : Nat :=
  match h.get? j with
  | some n => n.rc
  | none => 0

theorem get?_put (h : Heap T) (i j : Nat) (o : Option (SNode T)) :
    (h.put i o).get? j = if j = i then o else h.get? j := by
  unfold Heap.put Heap.get?
  by_cases hi : i < h.slots.length
  · simp only [hi, if_true, List.getElem?_set]
    by_cases hj : j = i
    · subst hj; simp
    · simp [hj, Ne.symm hj]
  · simp only [hi, if_false]
    by_cases hj : j = i
    · subst hj
      have : j = (h.slots ++ List.replicate (j - h.slots.length) none).length := by
        simp; omega
      rw [if_pos rfl, List.getElem?_append_right (by simp; omega)]
      have h0 : j - (h.slots ++ List.replicate (j - h.slots.length) none).length = 0 := by
        simp; omega
      rw [h0]; rfl
    · rw [if_neg hj]
      by_cases hlt : j < h.slots.length
      · rw [List.append_assoc, List.getElem?_append_left hlt]
      · have hn : h.slots[j]? = none := by simp; omega
        rw [hn]
        by_cases hji : j < i
        · rw [List.getElem?_append_left (by simp; omega), List.getElem?_append_right (by omega)]
          rw [List.getElem?_replicate]
          split <;> rfl
        · rw [List.getElem?_eq_none (by simp; omega)]

theorem get?_firstFree (h : Heap T) : h.get? h.firstFree = none := by
  unfold Heap.firstFree Heap.get?
  by_cases hlt : h.slots.findIdx (·.isNone) < h.slots.length
  · have := List.findIdx_getElem (xs := h.slots) (p := (·.isNone)) (w := hlt)
    rw [List.getElem?_eq_getElem hlt]
    cases hx : h.slots[List.findIdx (·.isNone) h.slots] with
    | none => rfl
    | some v => rw [hx] at this; simp at this
  · rw [List.getElem?_eq_none (by omega)]; rfl

/-! ## parent-edge counts -/

theorem sum_map_set {α : Type} (f : α → Nat) (l : List α) (i : Nat) (a : α) (hi : i < l.length) :
    ((l.set i a).map f).sum + f l[i] = (l.map f).sum + f a := by
  induction l generalizing i with
  | nil => simp at hi
  | cons x xs ih =>
    cases i with
    | zero => simp; omega
    | succ i =>
      simp at hi
      have := ih i hi
      simp only [List.set_cons_succ, List.map_cons, List.sum_cons, List.getElem_cons_succ]
      omega

theorem cntO_get?_none {h : Heap T} {p i : Nat} (hp : ¬ p < h.slots.length) :
    cntO (h.get? p) i = 0 := by
  unfold Heap.get?
  rw [List.getElem?_eq_none (by omega)]; rfl

theorem refs_put (h : Heap T) (p i : Nat) (o : Option (SNode T)) :
    (h.put p o).refs i + cntO (h.get? p) i = h.refs i + cntO o i := by
  unfold Heap.put Heap.refs
  by_cases hp : p < h.slots.length
  · simp only [hp, if_true]
    have := sum_map_set (cntO · i) h.slots p o hp
    have hg : h.get? p = h.slots[p] := by
      unfold Heap.get?; rw [List.getElem?_eq_getElem hp]; rfl
    rw [hg]; exact this
  · simp only [hp, if_false]
    rw [cntO_get?_none hp]
    have : ((List.replicate (p - h.slots.length) (none : Option (SNode T))).map (cntO · i)).sum = 0 := by
      generalize p - h.slots.length = k
      induction k with
      | zero => rfl
      | succ k ih => simp [List.replicate_succ, cntO] at ih ⊢
    simp only [List.map_append, List.sum_append, this]
    simp

theorem cntO_le_refs (h : Heap T) (p i : Nat) : cntO (h.get? p) i ≤ h.refs i := by
  unfold Heap.refs Heap.get?
  by_cases hp : p < h.slots.length
  · rw [List.getElem?_eq_getElem hp]
    have : ∀ (l : List (Option (SNode T))) (p : Nat) (hp : p < l.length),
        cntO l[p] i ≤ (l.map (cntO · i)).sum := by
      intro l
      induction l with
      | nil => intro p hp; simp at hp
      | cons x xs ih =>
        intro p hp
        cases p with
        | zero => simp
        | succ p => simp at hp; have := ih p hp; simp; omega
    exact this _ _ hp
  · rw [List.getElem?_eq_none (by omega)]; simp [cntO]

/-! ## `pt` / `pts` -/

theorem pt_self (j : Nat) : pt (Edge.inner j : Edge T) j = 1 := by simp [pt]
theorem pt_ne {j k : Nat} (h : k ≠ j) : pt (Edge.inner j : Edge T) k = 0 := by
  simp only [pt]; rw [if_neg]; exact fun h' => h h'.symm
theorem pt_term (v : T) (j : Nat) : pt (Edge.term v) j = 0 := rfl

theorem pt_pos {x : Edge T} {j : Nat} (h : 0 < pt x j) : x = .inner j := by
  cases x with
  | term v => simp [pt] at h
  | inner i =>
    simp only [pt] at h
    by_cases hi : i = j
    · rw [hi]
    · simp [hi] at h

theorem pt_inner_eq (i j : Nat) : pt (Edge.inner i : Edge T) j = if i = j then 1 else 0 := rfl

theorem pts_nil (j : Nat) : pts ([] : List (Edge T)) j = 0 := rfl
theorem pts_cons (x : Edge T) (xs : List (Edge T)) (j : Nat) : pts (x :: xs) j = pt x j + pts xs j := by
  simp [pts]
theorem pts_append (xs ys : List (Edge T)) (j : Nat) : pts (xs ++ ys) j = pts xs j + pts ys j := by
  simp [pts]

theorem pts_pos_iff {xs : List (Edge T)} {j : Nat} : 0 < pts xs j ↔ .inner j ∈ xs := by
  induction xs with
  | nil => simp [pts]
  | cons x xs ih =>
    rw [pts_cons, List.mem_cons]
    constructor
    · intro h
      by_cases hx : 0 < pt x j
      · exact Or.inl (pt_pos hx).symm
      · exact Or.inr (ih.mp (by omega))
    · rintro (h | h)
      · rw [← h, pt_self]; omega
      · have := ih.mpr h; omega

theorem pts_eq_zero {xs : List (Edge T)} {j : Nat} (h : .inner j ∉ xs) : pts xs j = 0 := by
  have := (pts_pos_iff (xs := xs) (j := j)).mp
  apply Classical.byContradiction
  intro hne
  exact h (this (by omega))

/-! ## shape / counter view of `put` -/

theorem sh_put (h : Heap T) (i j : Nat) (o : Option (SNode T)) :
    (h.put i o).sh j = if j = i then o.map SNode.toNode else h.sh j := by
  unfold Heap.sh; rw [get?_put]; split <;> rfl

theorem rcOf_put (h : Heap T) (i j : Nat) (o : Option (SNode T)) :
    (h.put i o).rcOf j = if j = i then (match o with | some n => n.rc | none => 0) else h.rcOf j := by
  unfold Heap.rcOf; rw [get?_put]
  by_cases hj : j = i <;> simp [hj]

theorem sh_eq_none {h : Heap T} {j : Nat} : h.sh j = none ↔ h.get? j = none := by
  unfold Heap.sh; cases h.get? j <;> simp

theorem sh_eq_some {h : Heap T} {j : Nat} {n : Node T} :
    h.sh j = some n ↔ ∃ m, h.get? j = some m ∧ m.toNode = n := by
  unfold Heap.sh; cases h.get? j <;> simp

theorem sh_of_get? {h : Heap T} {j : Nat} {m : SNode T} (hm : h.get? j = some m) :
    h.sh j = some m.toNode := by
  unfold Heap.sh; rw [hm]; rfl

theorem rcOf_of_get? {h : Heap T} {j : Nat} {m : SNode T} (hm : h.get? j = some m) :
    h.rcOf j = m.rc := by
  unfold Heap.rcOf; rw [hm]

theorem rcOf_of_none {h : Heap T} {j : Nat} (hm : h.get? j = none) : h.rcOf j = 0 := by
  unfold Heap.rcOf; rw [hm]

/-- the child-edge count only depends on the shape -/
def cntS (o : Option (Node T)) (i : Nat) : Nat :=
  match o with
  | some n => pts n.ch i
  | none => 0

theorem cntS_some (n : Node T) (j : Nat) : cntS (some n) j = pts n.ch j := rfl
theorem cntS_none (j : Nat) : cntS (none : Option (Node T)) j = 0 := rfl

theorem cntO_eq_cntS (o : Option (SNode T)) (i : Nat) : cntO o i = cntS (o.map SNode.toNode) i := by
  cases o <;> rfl

theorem refs_put' (h : Heap T) (p i : Nat) (o : Option (SNode T)) :
    (h.put p o).refs i + cntS (h.sh p) i = h.refs i + cntS (o.map SNode.toNode) i := by
  have := refs_put h p i o
  rw [cntO_eq_cntS, cntO_eq_cntS] at this
  exact this

theorem refs_put_same (h : Heap T) (p : Nat) (o : Option (SNode T))
    (hs : o.map SNode.toNode = h.sh p) (i : Nat) : (h.put p o).refs i = h.refs i := by
  have := refs_put' h p i o
  rw [hs] at this; omega

theorem cntS_le_refs (h : Heap T) (p i : Nat) : cntS (h.sh p) i ≤ h.refs i := by
  have := cntO_le_refs h p i
  rw [cntO_eq_cntS] at this; exact this

/-- a slot that is the child of a live slot has a positive parent count -/
theorem refs_pos_of_child {h : Heap T} {p i : Nat} {n : Node T} (hp : h.sh p = some n)
    (hc : .inner i ∈ n.ch) : 0 < h.refs i := by
  have := cntS_le_refs h p i
  rw [hp, cntS_some] at this
  have := pts_pos_iff.mpr hc
  omega

theorem no_child_of_refs_zero {h : Heap T} {i : Nat} (hz : h.refs i = 0) {p : Nat} {n : Node T}
    (hp : h.sh p = some n) : .inner i ∉ n.ch := by
  intro hc
  have := refs_pos_of_child hp hc; omega

/-! ## `clone_edge` / `drop_edge` -/

theorem sh_incRc (h : Heap T) (x : Edge T) : (incRc h x).sh = h.sh := by
  funext j
  cases x with
  | term b => rfl
  | inner i =>
    simp only [incRc]
    cases hi : h.get? i with
    | none => rfl
    | some n =>
      simp only [sh_put]
      split
      · rename_i hj; subst hj; simp [Heap.sh, hi, SNode.toNode]
      · rfl

theorem sh_decRc (h : Heap T) (x : Edge T) : (decRc h x).sh = h.sh := by
  funext j
  cases x with
  | term b => rfl
  | inner i =>
    simp only [decRc]
    cases hi : h.get? i with
    | none => rfl
    | some n =>
      simp only [sh_put]
      split
      · rename_i hj; subst hj; simp [Heap.sh, hi, SNode.toNode]
      · rfl

theorem refs_incRc (h : Heap T) (x : Edge T) : (incRc h x).refs = h.refs := by
  funext j
  cases x with
  | term b => rfl
  | inner i =>
    simp only [incRc]
    cases hi : h.get? i with
    | none => rfl
    | some n => exact refs_put_same _ _ _ (by simp [Heap.sh, hi, SNode.toNode]) _

theorem refs_decRc (h : Heap T) (x : Edge T) : (decRc h x).refs = h.refs := by
  funext j
  cases x with
  | term b => rfl
  | inner i =>
    simp only [decRc]
    cases hi : h.get? i with
    | none => rfl
    | some n => exact refs_put_same _ _ _ (by simp [Heap.sh, hi, SNode.toNode]) _

theorem rcOf_incRc (h : Heap T) (x : Edge T) (hl : ∀ k, x = .inner k → h.get? k ≠ none) (j : Nat) :
    (incRc h x).rcOf j = h.rcOf j + pt x j := by
  cases x with
  | term b => simp [incRc, pt]
  | inner i =>
    simp only [incRc, pt]
    cases hi : h.get? i with
    | none => exact absurd hi (hl i rfl)
    | some n =>
      simp only [rcOf_put]
      by_cases hj : j = i
      · subst hj; simp [rcOf_of_get? hi]
      · have : ¬ (i = j) := fun h' => hj h'.symm
        simp [hj, this]

theorem rcOf_decRc (h : Heap T) (x : Edge T) (j : Nat) :
    (decRc h x).rcOf j = h.rcOf j - pt x j := by
  cases x with
  | term b => simp [decRc, pt]
  | inner i =>
    simp only [decRc, pt]
    cases hi : h.get? i with
    | none =>
      by_cases hj : j = i
      · subst hj; simp [rcOf_of_none hi]
      · have : ¬ (i = j) := fun h' => hj h'.symm
        simp [this]
    | some n =>
      simp only [rcOf_put]
      by_cases hj : j = i
      · subst hj; simp [rcOf_of_get? hi]
      · have : ¬ (i = j) := fun h' => hj h'.symm
        simp [hj, this]

theorem sh_incAll (h : Heap T) (xs : List (Edge T)) : (incAll h xs).sh = h.sh := by
  unfold incAll
  induction xs generalizing h with
  | nil => rfl
  | cons x xs ih => rw [List.foldl_cons, ih, sh_incRc]

theorem sh_decAll (h : Heap T) (xs : List (Edge T)) : (decAll h xs).sh = h.sh := by
  unfold decAll
  induction xs generalizing h with
  | nil => rfl
  | cons x xs ih => rw [List.foldl_cons, ih, sh_decRc]

theorem rcOf_decAll (h : Heap T) (xs : List (Edge T)) (j : Nat) :
    (decAll h xs).rcOf j = h.rcOf j - pts xs j := by
  unfold decAll
  induction xs generalizing h with
  | nil => simp [pts]
  | cons x xs ih => rw [List.foldl_cons, ih, rcOf_decRc, pts_cons]; omega

/-! ## the reference-count equation

`RCx w h`: the counter of every slot equals its *weight* (table entries + external handles +
owned edges in local variables) plus the number of parent edges; free slots count as 0, so the
equation also says that nothing refers to a free slot. -/

def RCx (w : Nat → Nat) (h : Heap T) : Prop := ∀ j, h.rcOf j = w j + h.refs j

theorem RCx.congr {w w' : Nat → Nat} {h : Heap T} (hr : RCx w h) (hw : ∀ j, w' j = w j) :
    RCx w' h := fun j => by rw [hw]; exact hr j

theorem RCx.live {w : Nat → Nat} {h : Heap T} (hr : RCx w h) {j : Nat}
    (hp : 0 < w j + h.refs j) : h.get? j ≠ none := by
  intro hn
  have := hr j
  rw [rcOf_of_none hn] at this; omega

theorem RCx.live_child {w : Nat → Nat} {h : Heap T} (hr : RCx w h) {p : Nat} {n : Node T}
    (hp : h.sh p = some n) {k : Nat} (hc : .inner k ∈ n.ch) :
    h.get? k ≠ none :=
  hr.live (by have := refs_pos_of_child hp hc; omega)

theorem RCx.incRc {w : Nat → Nat} {h : Heap T} (hr : RCx w h) (x : Edge T)
    (hl : ∀ k, x = .inner k → h.get? k ≠ none) :
    RCx (fun j => w j + pt x j) (incRc h x) := by
  intro j
  show _ = w j + pt x j + _
  rw [rcOf_incRc h x hl, refs_incRc, hr j]; omega

theorem RCx.decRc {w : Nat → Nat} {h : Heap T} (x : Edge T)
    (hr : RCx (fun j => w j + pt x j) h) : RCx w (decRc h x) := by
  intro j
  have := hr j
  simp only [] at this
  rw [rcOf_decRc, refs_decRc, this]; omega

theorem RCx.incAll {w : Nat → Nat} {h : Heap T} (hr : RCx w h) (xs : List (Edge T))
    (hl : ∀ k, .inner k ∈ xs → h.sh k ≠ none) :
    RCx (fun j => w j + pts xs j) (incAll h xs) := by
  unfold SwapStoreN.incAll
  induction xs generalizing h w with
  | nil => exact hr.congr (fun j => by simp [pts])
  | cons x xs ih =>
    rw [List.foldl_cons]
    have h1 := hr.incRc x (fun k hk => by
      have := hl k (by simp [hk]); exact fun hn => this (sh_eq_none.mpr hn))
    have h2 := ih h1 (fun k hk => by rw [sh_incRc]; exact hl k (by simp [hk]))
    exact h2.congr (fun j => by rw [pts_cons]; omega)

theorem RCx.decAll {w : Nat → Nat} {h : Heap T} (xs : List (Edge T))
    (hr : RCx (fun j => w j + pts xs j) h) : RCx w (decAll h xs) := by
  unfold SwapStoreN.decAll
  induction xs generalizing h with
  | nil => exact hr.congr (fun j => by simp [pts])
  | cons x xs ih =>
    rw [List.foldl_cons]
    apply ih
    apply RCx.decRc x
    exact hr.congr (fun j => by rw [pts_cons]; omega)

end OxiddModel.Reorder.SwapStoreN
