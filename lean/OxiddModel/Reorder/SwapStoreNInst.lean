import OxiddModel.Reorder.SwapStoreNGen
import OxiddModel.Tdd.Properties
import OxiddModel.Mtbdd.Properties

/-!
# The `k`-ary node store and the tree-level models of TDDs and MTBDDs

`SwapStoreNGen.lean` states what `level_swap` does to a store of `k`-ary nodes in terms of the
evaluation relation `Ev` (follow child number `σ ℓ` at a node labelled `ℓ`). This file connects
that to the two tree-level models the other properties are stated on:

* generic: a fuel-bounded executable evaluator `evalF` (sound and complete for `Ev`), totality of
  `Ev` on the live slots of a store satisfying `Inv` (`Inv.ev_total`), and "an external handle
  points to a live slot" (`Inv.live_of_ext`);
* `T = Tdd.Tri`, `k = 3`: `DenT sh x t` — edge `x` unfolds to the tree `t : Tdd.TD` (children in
  the order of `collect_children`: true, unknown, false = child numbers 0, 1, 2 = `triIdx`);
  under `Inv 3` every live slot denotes a tree (`Inv.denT_total`), that tree is in normal form
  (`Inv.denT_nf`) and different edges denote different trees (`Inv.denT_inj`);
  `tdd_transfer` turns an `Ev`-preservation statement into one on `TD.eval`;
* `T` arbitrary, `k = 2`: the same for `Mtbdd.MT T` (`DenM`, `boolIdx`: `true ↦ 0` = then child);
* two small concrete stores `sTdd`, `sMt` for non-vacuity examples (with their invariants).
-/
namespace OxiddModel.Reorder.SwapStoreN

open OxiddModel.Tdd (Tri TD)
open OxiddModel.Mtbdd (MT)

variable {T : Type}

/-! ## generic part -/

theorem SStore.table_of_ge {s : SStore T} {l : Nat} (h : s.tables.length ≤ l) :
    s.table l = [] := by
  unfold SStore.table
  rw [List.getD_eq_getElem?_getD, List.getElem?_eq_none h]; rfl

section
variable {k : Nat} {ext : Nat → Nat} {s : SStore T}

/-- the level of a live node is the position of a level view -/
theorem Inv.level_lt (hinv : Inv k ext s) {i : Nat} {n : Node T} (hn : s.h.sh i = some n) :
    n.level < s.tables.length := by
  apply Classical.byContradiction
  intro hc
  have := (hinv.tbl_iff n.level i).mpr ⟨n, hn, rfl⟩
  rw [SStore.table_of_ge (by omega)] at this; cases this

/-- an external handle points to a live slot -/
theorem Inv.live_of_ext (hinv : Inv k ext s) {i : Nat} (hi : 0 < ext i) : s.h.sh i ≠ none := by
  intro hn
  have := hinv.rc i
  simp only [live01, hn] at this
  rw [rcOf_of_none (sh_eq_none.mp hn)] at this
  simp at this; omega

theorem Inv.ev_total_aux (hinv : Inv k ext s) {σ : Nat → Nat} (hσ : ∀ ℓ, σ ℓ < k) :
    ∀ m i n, s.h.sh i = some n → s.tables.length - n.level ≤ m →
      ∃ v, Ev s.h.sh σ (.inner i) v := by
  intro m
  induction m with
  | zero =>
    intro i n hn hm
    have := hinv.level_lt hn; omega
  | succ m ih =>
    intro i n hn hm
    have hlv := hinv.level_lt hn
    have hlen := hinv.arity i n hn
    have hq : σ n.level < n.ch.length := hlen ▸ hσ _
    have hc : n.ch[σ n.level]? = some n.ch[σ n.level] := List.getElem?_eq_getElem hq
    have hmem : n.ch[σ n.level] ∈ n.ch := List.getElem_mem _
    generalize n.ch[σ n.level] = c at hc hmem
    cases n with
    | mk ℓ cs =>
      cases c with
      | term v => exact ⟨v, .inner hn hc .term⟩
      | inner j =>
        obtain ⟨mj, hmj, hlt⟩ := hinv.ordered i _ hn j hmem
        simp only at hlt hm hlv
        obtain ⟨v, hv⟩ := ih j mj hmj (by omega)
        exact ⟨v, .inner hn hc hv⟩

/-- **every live slot evaluates** under every assignment that picks child numbers `< k` -/
theorem Inv.ev_total (hinv : Inv k ext s) {σ : Nat → Nat} (hσ : ∀ ℓ, σ ℓ < k) {i : Nat}
    {n : Node T} (hn : s.h.sh i = some n) : ∃ v, Ev s.h.sh σ (.inner i) v :=
  hinv.ev_total_aux hσ _ i n hn (Nat.le_refl _)

end

/-- executable evaluator: follow child `σ level` for at most `fuel` inner nodes -/
def evalF (sh : Nat → Option (Node T)) (σ : Nat → Nat) : Nat → Edge T → Option T
  | _, .term v => some v
  | 0, .inner _ => none
  | fuel + 1, .inner i =>
    match sh i with
    | some n =>
      match n.ch[σ n.level]? with
      | some c => evalF sh σ fuel c
      | none => none
    | none => none

theorem evalF_sound {sh : Nat → Option (Node T)} {σ : Nat → Nat} :
    ∀ (fuel : Nat) (x : Edge T) (v : T), evalF sh σ fuel x = some v → Ev sh σ x v := by
  intro fuel
  induction fuel with
  | zero =>
    intro x v h
    cases x with
    | term w => simp only [evalF, Option.some.injEq] at h; subst h; exact .term
    | inner i => simp [evalF] at h
  | succ fuel ih =>
    intro x v h
    cases x with
    | term w => simp only [evalF, Option.some.injEq] at h; subst h; exact .term
    | inner i =>
      simp only [evalF] at h
      cases hs : sh i with
      | none => rw [hs] at h; simp at h
      | some n =>
        rw [hs] at h
        simp only at h
        cases hc : n.ch[σ n.level]? with
        | none => rw [hc] at h; simp at h
        | some c =>
          rw [hc] at h
          simp only at h
          cases n with
          | mk ℓ cs => exact .inner hs hc (ih c v h)

theorem evalF_mono {sh : Nat → Option (Node T)} {σ : Nat → Nat} :
    ∀ (fuel : Nat) (x : Edge T) (v : T), evalF sh σ fuel x = some v →
      evalF sh σ (fuel + 1) x = some v := by
  intro fuel
  induction fuel with
  | zero =>
    intro x v h
    cases x with
    | term w => simpa [evalF] using h
    | inner i => simp [evalF] at h
  | succ fuel ih =>
    intro x v h
    cases x with
    | term w => simpa [evalF] using h
    | inner i =>
      rw [evalF] at h ⊢
      cases hs : sh i with
      | none => simp [hs] at h
      | some n =>
        simp only [hs] at h ⊢
        cases hc : n.ch[σ n.level]? with
        | none => simp [hc] at h
        | some c =>
          simp only [hc] at h ⊢
          exact ih c v h

/-- the evaluator finds every value of `Ev` with enough fuel -/
theorem evalF_complete {sh : Nat → Option (Node T)} {σ : Nat → Nat} {x : Edge T} {v : T}
    (h : Ev sh σ x v) : ∃ fuel, evalF sh σ fuel x = some v := by
  induction h with
  | term => exact ⟨0, rfl⟩
  | @inner i ℓ cs c v hi hc _ ih =>
    obtain ⟨fuel, hf⟩ := ih
    refine ⟨fuel + 1, ?_⟩
    rw [evalF, hi]
    simp only
    rw [hc]
    exact hf

/-! ## the TDD instance: `T = Tri`, `k = 3` -/

/-- the child number taken for a value of the variable (the order of `collect_children`) -/
def triIdx : Tri → Nat
  | .t => 0
  | .u => 1
  | .f => 2

def idxTri : Nat → Tri
  | 0 => .t
  | 1 => .u
  | _ => .f

theorem triIdx_lt (x : Tri) : triIdx x < 3 := by cases x <;> decide

@[simp] theorem idxTri_triIdx (x : Tri) : idxTri (triIdx x) = x := by cases x <;> rfl

theorem triIdx_idxTri {q : Nat} (hq : q < 3) : triIdx (idxTri q) = q := by
  match q, hq with
  | 0, _ => rfl
  | 1, _ => rfl
  | 2, _ => rfl

/-- edge `x` of the store unfolds to the tree `t` -/
inductive DenT (sh : Nat → Option (Node Tri)) : Edge Tri → TD → Prop
  | term {v : Tri} : DenT sh (.term v) (.leaf v)
  | inner {i l : Nat} {a b c : Edge Tri} {ta tb tc : TD} :
      sh i = some ⟨l, [a, b, c]⟩ → DenT sh a ta → DenT sh b tb → DenT sh c tc →
      DenT sh (.inner i) (.node l ta tb tc)

theorem DenT.functional {sh : Nat → Option (Node Tri)} {x : Edge Tri} {t t' : TD}
    (h : DenT sh x t) (h' : DenT sh x t') : t = t' := by
  induction h generalizing t' with
  | term => cases h'; rfl
  | inner hi _ _ _ iha ihb ihc =>
    cases h' with
    | inner hi' ha' hb' hc' =>
      rw [hi] at hi'
      injection hi' with hi'
      injection hi' with hl hcs
      injection hcs with e1 hcs
      injection hcs with e2 hcs
      injection hcs with e3 _
      subst hl; subst e1; subst e2; subst e3
      rw [iha ha', ihb hb', ihc hc']

/-- the tree evaluates like the diagram in the store -/
theorem denT_ev {sh : Nat → Option (Node Tri)} {x : Edge Tri} {t : TD} (h : DenT sh x t)
    (σ : Nat → Tri) : Ev sh (fun l => triIdx (σ l)) x (TD.eval σ t) := by
  induction h with
  | term => exact .term
  | @inner i l a b c ta tb tc hi _ _ _ iha ihb ihc =>
    simp only [TD.eval]
    cases hσ : σ l with
    | t => exact .inner hi (by simp only [hσ]; rfl) iha
    | u => exact .inner hi (by simp only [hσ]; rfl) ihb
    | f => exact .inner hi (by simp only [hσ]; rfl) ihc

theorem list_len3 {α : Type} {xs : List α} (h : xs.length = 3) : ∃ a b c, xs = [a, b, c] := by
  match xs, h with
  | [a, b, c], _ => exact ⟨a, b, c, rfl⟩

theorem list_len2 {α : Type} {xs : List α} (h : xs.length = 2) : ∃ a b, xs = [a, b] := by
  match xs, h with
  | [a, b], _ => exact ⟨a, b, rfl⟩

section
variable {ext : Nat → Nat} {s : SStore Tri}

theorem Inv.denT_total_aux (hinv : Inv 3 ext s) :
    ∀ m i n, s.h.sh i = some n → s.tables.length - n.level ≤ m →
      ∃ t, DenT s.h.sh (.inner i) t := by
  intro m
  induction m with
  | zero =>
    intro i n hn hm
    have := hinv.level_lt hn; omega
  | succ m ih =>
    intro i n hn hm
    have hlv := hinv.level_lt hn
    obtain ⟨a, b, c, hch⟩ := list_len3 (hinv.arity i n hn)
    cases n with
    | mk l cs =>
      simp only at hch hm hlv
      subst hch
      have hchild : ∀ x, x ∈ [a, b, c] → ∃ t, DenT s.h.sh x t := by
        intro x hx
        cases x with
        | term v => exact ⟨_, .term⟩
        | inner j =>
          obtain ⟨mj, hmj, hlt⟩ := hinv.ordered i _ hn j hx
          simp only at hlt
          exact ih j mj hmj (by omega)
      obtain ⟨ta, hta⟩ := hchild a (by simp)
      obtain ⟨tb, htb⟩ := hchild b (by simp)
      obtain ⟨tc, htc⟩ := hchild c (by simp)
      exact ⟨_, .inner hn hta htb htc⟩

/-- **every live slot denotes a tree** -/
theorem Inv.denT_total (hinv : Inv 3 ext s) {i : Nat} {n : Node Tri} (hn : s.h.sh i = some n) :
    ∃ t, DenT s.h.sh (.inner i) t :=
  hinv.denT_total_aux _ i n hn (Nat.le_refl _)

/-- **no two edges denote the same tree** (the store is duplicate free) -/
theorem Inv.denT_inj (hinv : Inv 3 ext s) {x y : Edge Tri} {t : TD} (hx : DenT s.h.sh x t)
    (hy : DenT s.h.sh y t) : x = y := by
  induction t generalizing x y with
  | leaf v =>
    cases hx; cases hy; rfl
  | node l ta tb tc iha ihb ihc =>
    cases hx with
    | inner hi ha hb hc =>
      cases hy with
      | inner hj ha' hb' hc' =>
        have e1 := iha ha ha'
        have e2 := ihb hb hb'
        have e3 := ihc hc hc'
        subst e1; subst e2; subst e3
        rw [hinv.uniq _ _ _ hi hj]

theorem Inv.denT_rootAbove (hinv : Inv 3 ext s) {i : Nat} {n : Node Tri}
    (hn : s.h.sh i = some n) {x : Edge Tri} (hx : x ∈ n.ch) {t : TD} (hd : DenT s.h.sh x t) :
    Tdd.rootAbove n.level t := by
  cases hd with
  | term => trivial
  | @inner j l a b c ta tb tc hj _ _ _ =>
    obtain ⟨m, hm, hlt⟩ := hinv.ordered i n hn j hx
    rw [hj] at hm; cases hm
    exact hlt

/-- **the denoted tree is in normal form** (ordered and reduced) -/
theorem Inv.denT_nf (hinv : Inv 3 ext s) {x : Edge Tri} {t : TD} (hd : DenT s.h.sh x t) :
    Tdd.NF t := by
  induction hd with
  | term => trivial
  | @inner i l a b c ta tb tc hi ha hb hc iha ihb ihc =>
    refine ⟨iha, ihb, ihc, hinv.denT_rootAbove hi (by simp) ha,
      hinv.denT_rootAbove hi (by simp) hb, hinv.denT_rootAbove hi (by simp) hc, ?_⟩
    rintro ⟨e1, e2⟩
    subst e1; subst e2
    have hab := hinv.denT_inj ha hb
    have hbc := hinv.denT_inj hb hc
    subst hab; subst hbc
    refine hinv.nored i _ hi ⟨a, by simp, ?_⟩
    intro y hy
    simp only [List.mem_cons, List.not_mem_nil, or_false, or_self] at hy
    exact hy

end

/-- **from `Ev`-preservation to the trees**: if the slot `i` survives a transformation of the store
that preserves the value of the diagram below it under every assignment of child numbers to the
*variables* (`f`/`g`: level ↦ variable before/after), then it denotes a normal form afterwards
whose function, read with the new level→variable map, is the old one. -/
theorem tdd_transfer {ext ext' : Nat → Nat} {s s' : SStore Tri} (hinv : Inv 3 ext s)
    (hinv' : Inv 3 ext' s') {i : Nat} {t : TD} (hd : DenT s.h.sh (.inner i) t)
    (hlive : s'.h.sh i ≠ none) (f g : Nat → Nat)
    (hev : ∀ (v : Tri) (ρ : Nat → Nat), (∀ x, ρ x < 3) →
      Ev s.h.sh (fun l => ρ (f l)) (.inner i) v → Ev s'.h.sh (fun p => ρ (g p)) (.inner i) v) :
    ∃ t', DenT s'.h.sh (.inner i) t' ∧ Tdd.NF t' ∧
      ∀ ρ : Nat → Tri, TD.eval (fun p => ρ (g p)) t' = TD.eval (fun l => ρ (f l)) t := by
  have _ := hinv
  obtain ⟨n', hn'⟩ := Option.ne_none_iff_exists'.mp hlive
  obtain ⟨t', ht'⟩ := hinv'.denT_total hn'
  refine ⟨t', ht', hinv'.denT_nf ht', fun ρ => ?_⟩
  have e1 : Ev s.h.sh (fun l => (fun x => triIdx (ρ x)) (f l)) (.inner i)
      (TD.eval (fun l => ρ (f l)) t) := denT_ev hd (fun l => ρ (f l))
  have e2 := hev _ (fun x => triIdx (ρ x)) (fun x => triIdx_lt _) e1
  have e3 : Ev s'.h.sh (fun p => (fun x => triIdx (ρ x)) (g p)) (.inner i)
      (TD.eval (fun p => ρ (g p)) t') := denT_ev ht' (fun p => ρ (g p))
  exact e3.functional e2

/-- two normal forms related by a renaming of the levels: the second is *the* reordered tree -/
theorem tdd_swap_canonical (π : Nat → Nat) (hπ : ∀ i j, π i = π j → i = j) {t t' : TD}
    (hn : Tdd.NF t) (hn' : Tdd.NF t')
    (h : ∀ σ, TD.eval σ t' = TD.eval (fun l => σ (π l)) t) : t' = Tdd.reorderTree π t :=
  Tdd.tdd_reorder_canonical π t t' hn (fun i j _ _ hij => hπ i j hij) hn' h

/-! ## the MTBDD instance: `T` arbitrary, `k = 2` -/

/-- the child number taken for a value of the variable (`true` = then child = child 0) -/
def boolIdx : Bool → Nat
  | true => 0
  | false => 1

def idxBool : Nat → Bool
  | 0 => true
  | _ => false

theorem boolIdx_lt (x : Bool) : boolIdx x < 2 := by cases x <;> decide

@[simp] theorem idxBool_boolIdx (x : Bool) : idxBool (boolIdx x) = x := by cases x <;> rfl

/-- edge `x` of the store unfolds to the tree `t` -/
inductive DenM (sh : Nat → Option (Node T)) : Edge T → MT T → Prop
  | term {v : T} : DenM sh (.term v) (.leaf v)
  | inner {i l : Nat} {a b : Edge T} {ta tb : MT T} :
      sh i = some ⟨l, [a, b]⟩ → DenM sh a ta → DenM sh b tb →
      DenM sh (.inner i) (.node l ta tb)

theorem DenM.functional {sh : Nat → Option (Node T)} {x : Edge T} {t t' : MT T}
    (h : DenM sh x t) (h' : DenM sh x t') : t = t' := by
  induction h generalizing t' with
  | term => cases h'; rfl
  | inner hi _ _ iha ihb =>
    cases h' with
    | inner hi' ha' hb' =>
      rw [hi] at hi'
      injection hi' with hi'
      injection hi' with hl hcs
      injection hcs with e1 hcs
      injection hcs with e2 _
      subst hl; subst e1; subst e2
      rw [iha ha', ihb hb']

/-- the tree evaluates like the diagram in the store -/
theorem denM_ev {sh : Nat → Option (Node T)} {x : Edge T} {t : MT T} (h : DenM sh x t)
    (σ : Nat → Bool) : Ev sh (fun l => boolIdx (σ l)) x (MT.eval σ t) := by
  induction h with
  | term => exact .term
  | @inner i l a b ta tb hi _ _ iha ihb =>
    simp only [MT.eval]
    cases hσ : σ l with
    | true => exact .inner hi (by simp only [hσ]; rfl) (by simpa using iha)
    | false => exact .inner hi (by simp only [hσ]; rfl) (by simpa using ihb)

section
variable {ext : Nat → Nat} {s : SStore T}

theorem Inv.denM_total_aux (hinv : Inv 2 ext s) :
    ∀ m i n, s.h.sh i = some n → s.tables.length - n.level ≤ m →
      ∃ t, DenM s.h.sh (.inner i) t := by
  intro m
  induction m with
  | zero =>
    intro i n hn hm
    have := hinv.level_lt hn; omega
  | succ m ih =>
    intro i n hn hm
    have hlv := hinv.level_lt hn
    obtain ⟨a, b, hch⟩ := list_len2 (hinv.arity i n hn)
    cases n with
    | mk l cs =>
      simp only at hch hm hlv
      subst hch
      have hchild : ∀ x, x ∈ [a, b] → ∃ t, DenM s.h.sh x t := by
        intro x hx
        cases x with
        | term v => exact ⟨_, .term⟩
        | inner j =>
          obtain ⟨mj, hmj, hlt⟩ := hinv.ordered i _ hn j hx
          simp only at hlt
          exact ih j mj hmj (by omega)
      obtain ⟨ta, hta⟩ := hchild a (by simp)
      obtain ⟨tb, htb⟩ := hchild b (by simp)
      exact ⟨_, .inner hn hta htb⟩

/-- **every live slot denotes a tree** -/
theorem Inv.denM_total (hinv : Inv 2 ext s) {i : Nat} {n : Node T} (hn : s.h.sh i = some n) :
    ∃ t, DenM s.h.sh (.inner i) t :=
  hinv.denM_total_aux _ i n hn (Nat.le_refl _)

/-- **no two edges denote the same tree** -/
theorem Inv.denM_inj (hinv : Inv 2 ext s) {x y : Edge T} {t : MT T} (hx : DenM s.h.sh x t)
    (hy : DenM s.h.sh y t) : x = y := by
  induction t generalizing x y with
  | leaf v =>
    cases hx; cases hy; rfl
  | node l ta tb iha ihb =>
    cases hx with
    | inner hi ha hb =>
      cases hy with
      | inner hj ha' hb' =>
        have e1 := iha ha ha'
        have e2 := ihb hb hb'
        subst e1; subst e2
        rw [hinv.uniq _ _ _ hi hj]

theorem Inv.denM_lbound (hinv : Inv 2 ext s) {i : Nat} {n : Node T}
    (hn : s.h.sh i = some n) {x : Edge T} (hx : x ∈ n.ch) {t : MT T} (hd : DenM s.h.sh x t) :
    Mtbdd.lbound (n.level + 1) t := by
  cases hd with
  | term => trivial
  | @inner j l a b ta tb hj _ _ =>
    obtain ⟨m, hm, hlt⟩ := hinv.ordered i n hn j hx
    rw [hj] at hm; cases hm
    exact hlt

/-- **the denoted tree is in normal form** (ordered and reduced) -/
theorem Inv.denM_nf (hinv : Inv 2 ext s) {x : Edge T} {t : MT T} (hd : DenM s.h.sh x t) :
    Mtbdd.NF t := by
  induction hd with
  | term => exact ⟨trivial, trivial⟩
  | @inner i l a b ta tb hi ha hb iha ihb =>
    refine ⟨⟨hinv.denM_lbound hi (by simp) ha, hinv.denM_lbound hi (by simp) hb, iha.1, ihb.1⟩,
      ?_, iha.2, ihb.2⟩
    intro e1
    subst e1
    have hab := hinv.denM_inj ha hb
    subst hab
    refine hinv.nored i _ hi ⟨a, by simp, ?_⟩
    intro y hy
    simp only [List.mem_cons, List.not_mem_nil, or_false, or_self] at hy
    exact hy

end

/-- **from `Ev`-preservation to the trees** (MTBDD version of `tdd_transfer`) -/
theorem mtbdd_transfer {ext ext' : Nat → Nat} {s s' : SStore T} (hinv : Inv 2 ext s)
    (hinv' : Inv 2 ext' s') {i : Nat} {t : MT T} (hd : DenM s.h.sh (.inner i) t)
    (hlive : s'.h.sh i ≠ none) (f g : Nat → Nat)
    (hev : ∀ (v : T) (ρ : Nat → Nat), (∀ x, ρ x < 2) →
      Ev s.h.sh (fun l => ρ (f l)) (.inner i) v → Ev s'.h.sh (fun p => ρ (g p)) (.inner i) v) :
    ∃ t', DenM s'.h.sh (.inner i) t' ∧ Mtbdd.NF t' ∧
      ∀ ρ : Nat → Bool, MT.eval (fun p => ρ (g p)) t' = MT.eval (fun l => ρ (f l)) t := by
  have _ := hinv
  obtain ⟨n', hn'⟩ := Option.ne_none_iff_exists'.mp hlive
  obtain ⟨t', ht'⟩ := hinv'.denM_total hn'
  refine ⟨t', ht', hinv'.denM_nf ht', fun ρ => ?_⟩
  have e1 : Ev s.h.sh (fun l => (fun x => boolIdx (ρ x)) (f l)) (.inner i)
      (MT.eval (fun l => ρ (f l)) t) := denM_ev hd (fun l => ρ (f l))
  have e2 := hev _ (fun x => boolIdx (ρ x)) (fun x => boolIdx_lt _) e1
  have e3 : Ev s'.h.sh (fun p => (fun x => boolIdx (ρ x)) (g p)) (.inner i)
      (MT.eval (fun p => ρ (g p)) t') := denM_ev ht' (fun p => ρ (g p))
  exact e3.functional e2

/-- two normal forms with the same function are the same tree -/
theorem mtbdd_swap_canonical [DecidableEq T] {t r : MT T} (hn : Mtbdd.NF t) (hr : Mtbdd.NF r)
    (h : ∀ σ, MT.eval σ r = MT.eval σ t) : r = t :=
  Mtbdd.mtbdd_canonical r t hr hn h

/-! ## two concrete stores (non-vacuity)

`sTdd`: the TDD `(x0: x1, U, F)` — a function that depends on both levels, so `level_swap(0, 1)`
has to rewrite its root. `sMt`: the MTBDD `(x0: (x1: 5, 7), 9)`. In both, slot 1 is the root and
carries the only external handle; slot 0 is referenced by its table and by slot 1. -/

def sTdd : SStore Tri :=
  { h := ⟨[some ⟨1, [.term .t, .term .u, .term .f], 2⟩,
           some ⟨0, [.inner 0, .term .u, .term .f], 2⟩]⟩
    tables := [[1], [0]] }

/-- one external handle, on slot 1 -/
def extRoot1 : Nat → Nat := fun i => if i = 1 then 1 else 0

/-- `(x0: x1, U, F)` -/
def tTdd : TD := .node 0 (.node 1 (.leaf .t) (.leaf .u) (.leaf .f)) (.leaf .u) (.leaf .f)

theorem sTdd_sh0 : sTdd.h.sh 0 = some ⟨1, [.term .t, .term .u, .term .f]⟩ := by decide
theorem sTdd_sh1 : sTdd.h.sh 1 = some ⟨0, [.inner 0, .term .u, .term .f]⟩ := by decide
theorem sTdd_sh_ge (i : Nat) : sTdd.h.sh (i + 2) = none := rfl
theorem sTdd_tables : sTdd.tables = [[1], [0]] := rfl
theorem sTdd_rc : sTdd.h.rcOf 0 = 2 ∧ sTdd.h.rcOf 1 = 2 ∧ sTdd.h.refs 0 = 1 ∧ sTdd.h.refs 1 = 0 := by
  decide

theorem sTdd_den0 : DenT sTdd.h.sh (.inner 0) (.node 1 (.leaf .t) (.leaf .u) (.leaf .f)) :=
  .inner sTdd_sh0 .term .term .term

theorem sTdd_den : DenT sTdd.h.sh (.inner 1) tTdd :=
  .inner sTdd_sh1 sTdd_den0 .term .term

theorem tTdd_nf : Tdd.NF tTdd := by decide

/-- the function of `sTdd`'s root depends on both levels -/
theorem tTdd_dep :
    TD.eval (fun _ => .t) tTdd = .t ∧ TD.eval (fun l => if l = 1 then .u else .t) tTdd = .u ∧
    TD.eval (fun l => if l = 0 then .f else .t) tTdd = .f := by decide

theorem sTdd_inv : Inv 3 extRoot1 sTdd where
  kpos := by decide
  arity := by
    intro i n hn
    rcases i with _ | _ | i
    · rw [sTdd_sh0] at hn; cases hn; rfl
    · rw [sTdd_sh1] at hn; cases hn; rfl
    · rw [sTdd_sh_ge] at hn; cases hn
  tbl_iff := by
    intro l i
    rcases l with _ | _ | l <;> rcases i with _ | _ | i <;>
      simp [SStore.table, sTdd_tables, sTdd_sh0, sTdd_sh1, sTdd_sh_ge]
  tbl_nodup := by
    intro l
    rcases l with _ | _ | l <;> simp [SStore.table, sTdd_tables]
  ordered := by
    intro i n hn j hj
    rcases i with _ | _ | i
    · rw [sTdd_sh0] at hn; cases hn; simp at hj
    · rw [sTdd_sh1] at hn; cases hn
      simp at hj; subst hj
      exact ⟨_, sTdd_sh0, by decide⟩
    · rw [sTdd_sh_ge] at hn; cases hn
  nored := by
    intro i n hn
    rcases i with _ | _ | i
    · rw [sTdd_sh0] at hn; cases hn
      rintro ⟨x, _, hx⟩
      have h1 := hx (.term .t) (by simp)
      have h2 := hx (.term .u) (by simp)
      rw [← h1] at h2; cases h2
    · rw [sTdd_sh1] at hn; cases hn
      rintro ⟨x, _, hx⟩
      have h1 := hx (.inner 0) (by simp)
      have h2 := hx (.term .u) (by simp)
      rw [← h1] at h2; cases h2
    · rw [sTdd_sh_ge] at hn; cases hn
  uniq := by
    intro i j n hi hj
    rcases i with _ | _ | i <;> rcases j with _ | _ | j <;>
      simp only [Nat.zero_add, sTdd_sh0, sTdd_sh1, sTdd_sh_ge] at hi hj <;> first
        | rfl
        | (cases hi; simp at hj)
        | (cases hi)
  rc := by
    intro j
    rcases j with _ | _ | j
    · decide
    · decide
    · simp [Heap.rcOf, Heap.refs, Heap.get?, sTdd, cntO, pts, pt, live01, extRoot1, Heap.sh]

def sMt : SStore Nat :=
  { h := ⟨[some ⟨1, [.term 5, .term 7], 2⟩, some ⟨0, [.inner 0, .term 9], 2⟩]⟩
    tables := [[1], [0]] }

/-- `(x0: (x1: 5, 7), 9)` -/
def tMt : MT Nat := .node 0 (.node 1 (.leaf 5) (.leaf 7)) (.leaf 9)

theorem sMt_sh0 : sMt.h.sh 0 = some ⟨1, [.term 5, .term 7]⟩ := by decide
theorem sMt_sh1 : sMt.h.sh 1 = some ⟨0, [.inner 0, .term 9]⟩ := by decide
theorem sMt_sh_ge (i : Nat) : sMt.h.sh (i + 2) = none := rfl
theorem sMt_tables : sMt.tables = [[1], [0]] := rfl
theorem sMt_rc : sMt.h.rcOf 0 = 2 ∧ sMt.h.rcOf 1 = 2 ∧ sMt.h.refs 0 = 1 ∧ sMt.h.refs 1 = 0 := by
  decide

theorem sMt_den0 : DenM sMt.h.sh (.inner 0) (.node 1 (.leaf 5) (.leaf 7)) :=
  .inner sMt_sh0 .term .term

theorem sMt_den : DenM sMt.h.sh (.inner 1) tMt :=
  .inner sMt_sh1 sMt_den0 .term

theorem tMt_nf : Mtbdd.NF tMt :=
  ⟨⟨(by show 0 + 1 ≤ 1; decide), trivial, ⟨trivial, trivial, trivial, trivial⟩, trivial⟩,
    ⟨by decide, ⟨by decide, trivial, trivial⟩, trivial⟩⟩

/-- the function of `sMt`'s root takes three values and depends on both levels -/
theorem tMt_dep :
    MT.eval (fun _ => true) tMt = 5 ∧ MT.eval (fun l => l != 1) tMt = 7 ∧
    MT.eval (fun l => l != 0) tMt = 9 := by decide

theorem sMt_inv : Inv 2 extRoot1 sMt where
  kpos := by decide
  arity := by
    intro i n hn
    rcases i with _ | _ | i
    · rw [sMt_sh0] at hn; cases hn; rfl
    · rw [sMt_sh1] at hn; cases hn; rfl
    · rw [sMt_sh_ge] at hn; cases hn
  tbl_iff := by
    intro l i
    rcases l with _ | _ | l <;> rcases i with _ | _ | i <;>
      simp [SStore.table, sMt_tables, sMt_sh0, sMt_sh1, sMt_sh_ge]
  tbl_nodup := by
    intro l
    rcases l with _ | _ | l <;> simp [SStore.table, sMt_tables]
  ordered := by
    intro i n hn j hj
    rcases i with _ | _ | i
    · rw [sMt_sh0] at hn; cases hn; simp at hj
    · rw [sMt_sh1] at hn; cases hn
      simp at hj; subst hj
      exact ⟨_, sMt_sh0, by decide⟩
    · rw [sMt_sh_ge] at hn; cases hn
  nored := by
    intro i n hn
    rcases i with _ | _ | i
    · rw [sMt_sh0] at hn; cases hn
      rintro ⟨x, _, hx⟩
      have h1 := hx (.term 5) (by simp)
      have h2 := hx (.term 7) (by simp)
      rw [← h1] at h2; cases h2
    · rw [sMt_sh1] at hn; cases hn
      rintro ⟨x, _, hx⟩
      have h1 := hx (.inner 0) (by simp)
      have h2 := hx (.term 9) (by simp)
      rw [← h1] at h2; cases h2
    · rw [sMt_sh_ge] at hn; cases hn
  uniq := by
    intro i j n hi hj
    rcases i with _ | _ | i <;> rcases j with _ | _ | j <;>
      simp only [Nat.zero_add, sMt_sh0, sMt_sh1, sMt_sh_ge] at hi hj <;> first
        | rfl
        | (cases hi; simp at hj)
        | (cases hi)
  rc := by
    intro j
    rcases j with _ | _ | j
    · decide
    · decide
    · simp [Heap.rcOf, Heap.refs, Heap.get?, sMt, cntO, pts, pt, live01, extRoot1, Heap.sh]

/-- the executable evaluator on the two stores -/
example : evalF sTdd.h.sh (fun l => triIdx (if l = 1 then .u else .t)) 2 (.inner 1) = some .u := by
  decide
example : evalF sMt.h.sh (fun l => boolIdx (l != 1)) 2 (.inner 1) = some 7 := by decide

end OxiddModel.Reorder.SwapStoreN
