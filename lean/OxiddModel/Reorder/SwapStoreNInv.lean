import OxiddModel.Reorder.SwapStoreN

/-!
# The loop invariant of the `k`-ary `level_swap`, on shapes

`J` describes the heap *shape* (level and children of every slot, no counters) and the two new
tables during the loop, relative to the shape `sh0` at entry; `todo` is the part of the old upper
table that has not been visited yet. The four *micro steps* the loop body is made of
(`J.move`, `J.alloc`, `J.rewrite`, `J.remove`) preserve it. (`k`-ary version of `SwapStoreInv`.)
-/
namespace OxiddModel.Reorder.SwapStoreN

variable {T : Type}

/-- pointwise update -/
def upd {α : Type} (f : Nat → α) (i : Nat) (v : α) : Nat → α := fun k => if k = i then v else f k

@[simp] theorem upd_same {α : Type} (f : Nat → α) (i : Nat) (v : α) : upd f i v i = v := by simp [upd]
theorem upd_ne {α : Type} (f : Nat → α) {i k : Nat} (v : α) (h : k ≠ i) : upd f i v k = f k := by
  simp [upd, h]

/-- `reduce` collapses the list: all entries are equal (to one of them) -/
def Red (xs : List (Edge T)) : Prop := ∃ x ∈ xs, ∀ y ∈ xs, y = x

section
variable (a b : Nat) (P : Nat → Prop) (sh0 : Nat → Option (Node T))

/-- the edge points below both levels: a terminal or a node whose level is neither `a` nor `b` -/
def Bel (c : Edge T) : Prop :=
  match c with
  | .term _ => True
  | .inner k => ∃ n, sh0 k = some n ∧ n.level ≠ a ∧ n.level ≠ b ∧ P n.level

/-- the edge points to a node of level `b` -/
def AtB (c : Edge T) : Prop := ∃ k n, c = .inner k ∧ sh0 k = some n ∧ n.level = b

/-- entry `[c][q]` of the grand-cofactor matrix w.r.t. level `b` in the entry shape -/
def cof0 (c : Edge T) (q : Nat) : Edge T :=
  match c with
  | .inner k =>
    match sh0 k with
    | some m => if m.level = b then m.ch.getD q c else c
    | none => c
  | .term _ => c

/-- column `q` of the grand-cofactor matrix of a node with the children `ch` -/
def col0 (ch : List (Edge T)) (q : Nat) : List (Edge T) := ch.map fun c => cof0 b sh0 c q

/-- what the entry store has to satisfy around the two levels; `k` is the arity -/
structure Pre (k : Nat) (old : List Nat) : Prop where
  kpos : 0 < k
  ab : a ≠ b
  arity : ∀ i n, sh0 i = some n → n.ch.length = k
  old_iff : ∀ i, i ∈ old ↔ ∃ n, sh0 i = some n ∧ n.level = a
  old_nodup : old.Nodup
  lowKids : ∀ i n, sh0 i = some n → n.level = b → ∀ c ∈ n.ch, Bel a b P sh0 c
  upKids : ∀ i n, sh0 i = some n → n.level = a → ∀ c ∈ n.ch, Bel a b P sh0 c ∨ AtB b sh0 c
  nored : ∀ i n, sh0 i = some n → ¬ Red n.ch
  uniq : ∀ i j n, sh0 i = some n → sh0 j = some n → i = j

/-- the result `c` of `reduce` + lookups for the column `xs` -/
def MkR (sh : Nat → Option (Node T)) (lo todo : List Nat) (xs : List (Edge T)) (c : Edge T) : Prop :=
  (∃ x ∈ xs, (∀ y ∈ xs, y = x) ∧ c = x) ∨
  (¬ Red xs ∧ ∃ j, (j ∈ lo ∨ j ∈ todo) ∧ c = .inner j ∧ sh j = some ⟨a, xs⟩)

/-- a node of the old lower level that is still there -/
def SurvL (sh : Nat → Option (Node T)) (i : Nat) : Prop :=
  ∃ n, sh0 i = some n ∧ n.level = b ∧ sh i = some n

/-- a rewritten node of the old upper level -/
def Rew (k : Nat) (old : List Nat) (sh : Nat → Option (Node T)) (lo todo : List Nat) (i : Nat) : Prop :=
  i ∈ old ∧ i ∉ todo ∧ ∃ n cs, sh0 i = some n ∧ ¬ (∀ c ∈ n.ch, Bel a b P sh0 c) ∧
    sh i = some ⟨b, cs⟩ ∧ cs.length = k ∧
    ∀ q c, cs[q]? = some c → MkR a sh lo todo (col0 b sh0 n.ch q) c

structure J (k : Nat) (old : List Nat) (ext : Nat → Nat) (sh : Nat → Option (Node T))
    (up lo todo : List Nat) : Prop where
  frame : ∀ i n, sh0 i = some n → n.level ≠ a → n.level ≠ b → sh i = some n
  todoSh : ∀ i ∈ todo, i ∈ old ∧ sh i = sh0 i
  upC : ∀ i ∈ up, SurvL b sh0 sh i ∨ Rew a b P sh0 k old sh lo todo i
  loC : ∀ j ∈ lo, ∃ xs, sh j = some ⟨a, xs⟩ ∧ (∀ x ∈ xs, Bel a b P sh0 x) ∧ ¬ Red xs ∧
    xs.length = k ∧
    (j ∈ old → sh0 j = sh j) ∧ (j ∉ old → sh0 j = none ∨ ∃ n, sh0 j = some n ∧ n.level = b)
  loU : ∀ j ∈ lo, ∀ m ∈ lo, sh j = sh m → j = m
  loT : ∀ j ∈ lo, ∀ i ∈ todo, sh j ≠ sh i
  ndUp : up.Nodup
  ndLo : lo.Nodup
  ndTodo : todo.Nodup
  dUL : ∀ i, i ∈ up → i ∉ lo
  dUT : ∀ i, i ∈ up → i ∉ todo
  dLT : ∀ i, i ∈ lo → i ∉ todo
  oldC : ∀ i ∈ old, i ∈ todo ∨ i ∈ lo ∨ i ∈ up
  live : ∀ i, sh i ≠ none →
    (∃ n, sh0 i = some n ∧ n.level ≠ a ∧ n.level ≠ b) ∨ i ∈ todo ∨ i ∈ up ∨ i ∈ lo
  dead : ∀ i n, sh0 i = some n → n.level = b → i ∉ up →
    ext i = 0 ∧ ∀ p m, sh0 p = some m → ((m.level ≠ a ∧ m.level ≠ b) ∨ p ∈ todo) →
      .inner i ∉ m.ch

end

section
variable {a b : Nat} {P : Nat → Prop} {sh0 : Nat → Option (Node T)} {k : Nat} {old : List Nat}
  {ext : Nat → Nat}

/-! ## helpers -/

theorem Node.ext' {n n' : Node T} (h1 : n.level = n'.level) (h2 : n.ch = n'.ch) : n = n' := by
  cases n; cases n'; simp_all

theorem lt_of_getElem?_eq_some {α : Type} {l : List α} {q : Nat} {c : α} (h : l[q]? = some c) :
    q < l.length := by
  obtain ⟨h', _⟩ := List.getElem?_eq_some_iff.mp h; exact h'

theorem red_of_const {xs : List (Edge T)} {c : Edge T} (hpos : 0 < xs.length)
    (h : ∀ q (hq : q < xs.length), xs[q] = c) : Red xs := by
  refine ⟨xs[0], List.getElem_mem _, fun y hy => ?_⟩
  obtain ⟨q, hq, rfl⟩ := List.mem_iff_getElem.mp hy
  rw [h q hq, h 0 hpos]

theorem cof0_at {j : Nat} {n : Node T} (hn : sh0 j = some n) (hl : n.level = b) {q : Nat}
    (hq : q < n.ch.length) : cof0 b sh0 (.inner j) q = n.ch[q] := by
  simp only [cof0, hn, hl, if_true]
  rw [List.getD_eq_getElem?_getD, List.getElem?_eq_getElem hq]; rfl

theorem mem_col0 {ch : List (Edge T)} {c : Edge T} (hc : c ∈ ch) (q : Nat) :
    cof0 b sh0 c q ∈ col0 b sh0 ch q := List.mem_map_of_mem hc

theorem MkR.mono {sh sh' : Nat → Option (Node T)} {lo lo' todo todo' : List Nat}
    {xs : List (Edge T)} {c : Edge T}
    (h : MkR a sh lo todo xs c)
    (hm : ∀ j, (j ∈ lo ∨ j ∈ todo) → sh j = some ⟨a, xs⟩ → (j ∈ lo' ∨ j ∈ todo') ∧ sh' j = sh j) :
    MkR a sh' lo' todo' xs c := by
  rcases h with h | ⟨hne, j, hj, hc, hs⟩
  · exact Or.inl h
  · have := hm j hj hs
    exact Or.inr ⟨hne, j, this.1, hc, this.2 ▸ hs⟩

theorem J.up_live {sh : Nat → Option (Node T)} {up lo todo : List Nat}
    (hj : J a b P sh0 k old ext sh up lo todo) {i : Nat} (hi : i ∈ up) : sh i ≠ none := by
  rcases hj.upC i hi with ⟨n, _, _, h⟩ | ⟨_, _, n, cs, _, _, h, _⟩ <;> simp [h]

theorem J.lo_live {sh : Nat → Option (Node T)} {up lo todo : List Nat}
    (hj : J a b P sh0 k old ext sh up lo todo) {i : Nat} (hi : i ∈ lo) : sh i ≠ none := by
  obtain ⟨xs, h, _⟩ := hj.loC i hi; simp [h]

theorem J.todo_live {sh : Nat → Option (Node T)} {up lo todo : List Nat} (hp : Pre a b P sh0 k old)
    (hj : J a b P sh0 k old ext sh up lo todo) {i : Nat} (hi : i ∈ todo) :
    ∃ n, sh i = some n ∧ sh0 i = some n ∧ n.level = a := by
  obtain ⟨ho, hs⟩ := hj.todoSh i hi
  obtain ⟨n, hn, hl⟩ := (hp.old_iff i).mp ho
  exact ⟨n, hs ▸ hn, hn, hl⟩

/-- micro step: the unvisited entry `i` has all children below and moves to the new lower table -/
theorem J.move {sh : Nat → Option (Node T)} {up lo todo : List Nat} {i : Nat} {n : Node T}
    (hp : Pre a b P sh0 k old) (hj : J a b P sh0 k old ext sh up lo (i :: todo))
    (hn : sh0 i = some n) (hb : ∀ c ∈ n.ch, Bel a b P sh0 c) :
    J a b P sh0 k old ext sh up (i :: lo) todo := by
  have hit : i ∉ todo := (List.nodup_cons.mp hj.ndTodo).1
  obtain ⟨hio, hsi⟩ := hj.todoSh i (by simp)
  have hla : n.level = a := by
    obtain ⟨n', hn', hl⟩ := (hp.old_iff i).mp hio
    rw [hn] at hn'; cases hn'; exact hl
  refine
    { frame := hj.frame
      todoSh := fun m hm => hj.todoSh m (by simp [hm])
      upC := ?_, loC := ?_, loU := ?_, loT := ?_
      ndUp := hj.ndUp
      ndLo := ?_
      ndTodo := (List.nodup_cons.mp hj.ndTodo).2
      dUL := ?_, dUT := ?_, dLT := ?_, oldC := ?_, live := ?_, dead := ?_ }
  · intro m hm
    rcases hj.upC m hm with h | ⟨h1, h2, n', cs, h3, h4, h5, h6, h7⟩
    · exact Or.inl h
    · refine Or.inr ⟨h1, fun h => h2 (by simp [h]), n', cs, h3, h4, h5, h6, fun q c hqc => ?_⟩
      exact (h7 q c hqc).mono (fun j hj _ => ⟨by grind, rfl⟩)
  · intro j hjl
    rcases List.mem_cons.mp hjl with rfl | hjl
    · refine ⟨n.ch, ?_, hb, hp.nored _ _ hn, hp.arity _ _ hn, fun _ => hsi.symm,
        fun h => absurd hio h⟩
      rw [hsi, hn, ← hla]
    · exact hj.loC j hjl
  · intro j hj1 m hm1 hjm
    rcases List.mem_cons.mp hj1 with hji | hj2 <;> rcases List.mem_cons.mp hm1 with hmi | hm2
    · rw [hji, hmi]
    · subst hji; exact absurd hjm.symm (hj.loT m hm2 _ (by simp))
    · subst hmi; exact absurd hjm (hj.loT j hj2 _ (by simp))
    · exact hj.loU j hj2 m hm2 hjm
  · intro j hj1 m hm hjm
    rcases List.mem_cons.mp hj1 with rfl | hj1
    · obtain ⟨hmo, hsm⟩ := hj.todoSh m (by simp [hm])
      rw [hsi, hsm] at hjm
      have := hp.uniq j m n hn (hjm ▸ hn)
      exact hit (this ▸ hm)
    · exact hj.loT j hj1 m (by simp [hm]) hjm
  · exact List.nodup_cons.mpr ⟨fun h => hj.dLT i h (by simp), hj.ndLo⟩
  · intro m hm hml
    rcases List.mem_cons.mp hml with rfl | hml
    · exact hj.dUT m hm (by simp)
    · exact hj.dUL m hm hml
  · intro m hm hmt; exact hj.dUT m hm (by simp [hmt])
  · intro m hm hmt
    rcases List.mem_cons.mp hm with rfl | hm
    · exact hit hmt
    · exact hj.dLT m hm (by simp [hmt])
  · intro m hm
    rcases hj.oldC m hm with h | h | h
    · rcases List.mem_cons.mp h with rfl | h
      · exact Or.inr (Or.inl (by simp))
      · exact Or.inl h
    · exact Or.inr (Or.inl (by simp [h]))
    · exact Or.inr (Or.inr h)
  · intro m hm
    rcases hj.live m hm with h | h | h | h
    · exact Or.inl h
    · rcases List.mem_cons.mp h with rfl | h
      · exact Or.inr (Or.inr (Or.inr (by simp)))
      · exact Or.inr (Or.inl h)
    · exact Or.inr (Or.inr (Or.inl h))
    · exact Or.inr (Or.inr (Or.inr (by simp [h])))
  · intro m nm hnm hl hmu
    obtain ⟨h1, h2⟩ := hj.dead m nm hnm hl hmu
    exact ⟨h1, fun p m' hm' hc => h2 p m' hm'
      (by rcases hc with h | h; exact Or.inl h; exact Or.inr (by simp [h]))⟩

/-- micro step: a fresh node for the non-collapsing column `xs` is put into the new lower table -/
theorem J.alloc {sh : Nat → Option (Node T)} {up lo todo : List Nat} {j : Nat} {xs : List (Edge T)}
    (hp : Pre a b P sh0 k old) (hj : J a b P sh0 k old ext sh up lo todo)
    (hfree : sh j = none) (hnr : ¬ Red xs) (hlen : xs.length = k)
    (hx : ∀ x ∈ xs, Bel a b P sh0 x)
    (hno : ∀ m, (m ∈ old ∨ m ∈ lo) → ∀ l, sh m ≠ some ⟨l, xs⟩) :
    J a b P sh0 k old ext (upd sh j (some ⟨a, xs⟩)) up (j :: lo) todo := by
  have hsame : ∀ m, sh m ≠ none → upd sh j (some ⟨a, xs⟩) m = sh m := fun m hm =>
    upd_ne _ _ (fun h => hm (h ▸ hfree))
  have hju : j ∉ up := fun h => hj.up_live h hfree
  have hjl : j ∉ lo := fun h => hj.lo_live h hfree
  have hjt : j ∉ todo := fun h => by
    obtain ⟨n, h1, _⟩ := hj.todo_live hp h; rw [hfree] at h1; cases h1
  have hjo : j ∉ old := fun h => by
    rcases hj.oldC j h with h | h | h
    · exact hjt h
    · exact hjl h
    · exact hju h
  refine
    { frame := fun m n h1 h2 h3 => by
        rw [hsame m (by rw [hj.frame m n h1 h2 h3]; simp)]; exact hj.frame m n h1 h2 h3
      todoSh := fun m hm => ?_
      upC := ?_, loC := ?_, loU := ?_, loT := ?_
      ndUp := hj.ndUp
      ndLo := List.nodup_cons.mpr ⟨hjl, hj.ndLo⟩
      ndTodo := hj.ndTodo
      dUL := ?_, dUT := hj.dUT, dLT := ?_, oldC := ?_, live := ?_, dead := hj.dead }
  · obtain ⟨h1, h2⟩ := hj.todoSh m hm
    obtain ⟨n, h3, _⟩ := hj.todo_live hp hm
    exact ⟨h1, by rw [hsame m (by simp [h3])]; exact h2⟩
  · intro m hm
    have hml := hj.up_live hm
    rcases hj.upC m hm with ⟨n, h1, h2, h3⟩ | ⟨h1, h2, n', cs, h3, h4, h5, h6, h7⟩
    · exact Or.inl ⟨n, h1, h2, by rw [hsame m hml]; exact h3⟩
    · refine Or.inr ⟨h1, h2, n', cs, h3, h4, by rw [hsame m hml]; exact h5, h6,
        fun q c hqc => ?_⟩
      exact (h7 q c hqc).mono (fun m' hm' hs => ⟨by simp; grind, hsame m' (by simp [hs])⟩)
  · intro m hm
    rcases List.mem_cons.mp hm with rfl | hm
    · refine ⟨xs, by simp, hx, hnr, hlen, fun h => absurd h hjo, fun _ => ?_⟩
      cases h0 : sh0 m with
      | none => exact Or.inl rfl
      | some n =>
        right
        refine ⟨n, rfl, ?_⟩
        by_cases hb : n.level = b
        · exact hb
        · by_cases ha : n.level = a
          · exact absurd ((hp.old_iff m).mpr ⟨n, h0, ha⟩) hjo
          · have := hj.frame m n h0 ha hb; rw [hfree] at this; cases this
    · rw [hsame m (hj.lo_live hm)]; exact hj.loC m hm
  · intro m hm m' hm' hmm
    rcases List.mem_cons.mp hm with hmj | hm2 <;> rcases List.mem_cons.mp hm' with hmj' | hm2'
    · rw [hmj, hmj']
    · subst hmj
      rw [hsame m' (hj.lo_live hm2'), upd_same] at hmm
      exact absurd hmm.symm (hno m' (Or.inr hm2') a)
    · subst hmj'
      rw [hsame m (hj.lo_live hm2), upd_same] at hmm
      exact absurd hmm (hno m (Or.inr hm2) a)
    · rw [hsame m (hj.lo_live hm2), hsame m' (hj.lo_live hm2')] at hmm
      exact hj.loU m hm2 m' hm2' hmm
  · intro m hm i hi hmi
    obtain ⟨n, h3, _⟩ := hj.todo_live hp hi
    rw [hsame i (by simp [h3])] at hmi
    rcases List.mem_cons.mp hm with hmj | hm2
    · subst hmj
      rw [upd_same] at hmi
      exact hno i (Or.inl (hj.todoSh i hi).1) a hmi.symm
    · rw [hsame m (hj.lo_live hm2)] at hmi
      exact hj.loT m hm2 i hi hmi
  · intro m hm hml
    rcases List.mem_cons.mp hml with rfl | hml
    · exact hju hm
    · exact hj.dUL m hm hml
  · intro m hm hmt
    rcases List.mem_cons.mp hm with rfl | hm
    · exact hjt hmt
    · exact hj.dLT m hm hmt
  · intro m hm
    rcases hj.oldC m hm with h | h | h
    · exact Or.inl h
    · exact Or.inr (Or.inl (by simp [h]))
    · exact Or.inr (Or.inr h)
  · intro m hm
    by_cases hmj : m = j
    · subst hmj; exact Or.inr (Or.inr (Or.inr (by simp)))
    · rw [upd_ne _ _ hmj] at hm
      rcases hj.live m hm with h | h | h | h
      · exact Or.inl h
      · exact Or.inr (Or.inl h)
      · exact Or.inr (Or.inr (Or.inl h))
      · exact Or.inr (Or.inr (Or.inr (by simp [h])))

theorem cof0_of_bel {c : Edge T} (hc : Bel a b P sh0 c) (q : Nat) : cof0 b sh0 c q = c := by
  cases c with
  | term v => rfl
  | inner j =>
    obtain ⟨n, hn, h1, h2, _⟩ := hc
    simp only [cof0, hn, h2, if_false]

theorem bel_cof0 (hp : Pre a b P sh0 k old) {c : Edge T} (hc : Bel a b P sh0 c ∨ AtB b sh0 c)
    {q : Nat} (hq : q < k) : Bel a b P sh0 (cof0 b sh0 c q) := by
  rcases hc with hc | ⟨j, n, rfl, hn, hl⟩
  · rw [cof0_of_bel hc]; exact hc
  · have hlen := hp.arity j n hn
    rw [cof0_at hn hl (by omega)]
    exact hp.lowKids j n hn hl _ (List.getElem_mem _)

theorem not_bel_of_atB {c : Edge T} (hc : AtB b sh0 c) : ¬ Bel a b P sh0 c := by
  obtain ⟨j, n, rfl, hn, hl⟩ := hc
  rintro ⟨n', hn', _, h2, _⟩
  rw [hn] at hn'; cases hn'; exact h2 hl

/-- every entry of a column of an old upper node is below -/
theorem bel_col0 (hp : Pre a b P sh0 k old) {i : Nat} {n : Node T} (hn : sh0 i = some n)
    (hla : n.level = a) {q : Nat} (hq : q < k) : ∀ x ∈ col0 b sh0 n.ch q, Bel a b P sh0 x := by
  intro x hx
  obtain ⟨c, hc, rfl⟩ := List.mem_map.mp hx
  exact bel_cof0 hp (hp.upKids i n hn hla c hc) hq

theorem col0_length (ch : List (Edge T)) (q : Nat) : (col0 b sh0 ch q).length = ch.length := by
  simp [col0]

/-- micro step: the unvisited entry `i` is rewritten in place (level `b`, new children `cs`) and
put into the new upper table -/
theorem J.rewrite {sh : Nat → Option (Node T)} {up lo todo : List Nat} {i : Nat} {n : Node T}
    {cs : List (Edge T)}
    (hp : Pre a b P sh0 k old) (hj : J a b P sh0 k old ext sh up lo (i :: todo))
    (hn : sh0 i = some n) (hnb : ¬ (∀ c ∈ n.ch, Bel a b P sh0 c)) (hlen : cs.length = k)
    (hmk : ∀ q c, cs[q]? = some c → MkR a sh lo (i :: todo) (col0 b sh0 n.ch q) c) :
    J a b P sh0 k old ext (upd sh i (some ⟨b, cs⟩)) (i :: up) lo todo := by
  have hit : i ∉ todo := (List.nodup_cons.mp hj.ndTodo).1
  obtain ⟨hio, hsi⟩ := hj.todoSh i (by simp)
  have hla : n.level = a := by
    obtain ⟨n', hn', hl⟩ := (hp.old_iff i).mp hio
    rw [hn] at hn'; cases hn'; exact hl
  have hiu : i ∉ up := fun h => hj.dUT i h (by simp)
  have hil : i ∉ lo := fun h => hj.dLT i h (by simp)
  have hsame : ∀ m, m ≠ i → upd sh i (some ⟨b, cs⟩) m = sh m := fun m hm => upd_ne _ _ hm
  have hni : ∀ xs : List (Edge T), (∀ x ∈ xs, Bel a b P sh0 x) → sh i ≠ some ⟨a, xs⟩ := by
    intro xs hx h
    rw [hsi, hn] at h; cases h; exact hnb hx
  -- monotonicity of `MkR` for Bel columns
  have hmk' : ∀ {xs : List (Edge T)} {c : Edge T}, (∀ x ∈ xs, Bel a b P sh0 x) →
      MkR a sh lo (i :: todo) xs c → MkR a (upd sh i (some ⟨b, cs⟩)) lo todo xs c := by
    intro xs c hx h
    refine h.mono (fun m hm hs => ?_)
    have hmi : m ≠ i := fun h' => hni xs hx (h' ▸ hs)
    refine ⟨?_, hsame m hmi⟩
    rcases hm with hm | hm
    · exact Or.inl hm
    · rcases List.mem_cons.mp hm with hm | hm
      · exact absurd hm hmi
      · exact Or.inr hm
  have hcofs : ∀ m n', m ∈ old → sh0 m = some n' → ∀ q, q < k →
      ∀ x ∈ col0 b sh0 n'.ch q, Bel a b P sh0 x := by
    intro m n' hm hn' q hq
    obtain ⟨n'', hn'', hl⟩ := (hp.old_iff m).mp hm
    rw [hn'] at hn''; cases hn''
    exact bel_col0 hp hn' hl hq
  refine
    { frame := fun m nm f1 f2 f3 => by
        rw [hsame m (fun h => by subst h; rw [hn] at f1; cases f1; exact f2 hla)]
        exact hj.frame m nm f1 f2 f3
      todoSh := fun m hm => ?_
      upC := ?_, loC := ?_, loU := ?_, loT := ?_
      ndUp := List.nodup_cons.mpr ⟨hiu, hj.ndUp⟩
      ndLo := hj.ndLo
      ndTodo := (List.nodup_cons.mp hj.ndTodo).2
      dUL := ?_, dUT := ?_, dLT := fun m hm hmt => hj.dLT m hm (by simp [hmt])
      oldC := ?_, live := ?_, dead := ?_ }
  · obtain ⟨f1, f2⟩ := hj.todoSh m (by simp [hm])
    exact ⟨f1, by rw [hsame m (fun h => hit (h ▸ hm))]; exact f2⟩
  · intro m hm
    rcases List.mem_cons.mp hm with rfl | hm
    · refine Or.inr ⟨hio, hit, n, cs, hn, hnb, by simp, hlen, fun q c hqc => ?_⟩
      have hq : q < k := hlen ▸ lt_of_getElem?_eq_some hqc
      exact hmk' (hcofs m n hio hn q hq) (hmk q c hqc)
    · have hmi : m ≠ i := fun h => hiu (h ▸ hm)
      rcases hj.upC m hm with ⟨nm, f1, f2, f3⟩ | ⟨g1, g2, n', ds, g3, g4, g5, g6, g7⟩
      · exact Or.inl ⟨nm, f1, f2, by rw [hsame m hmi]; exact f3⟩
      · refine Or.inr ⟨g1, fun h => g2 (by simp [h]), n', ds, g3, g4,
          by rw [hsame m hmi]; exact g5, g6, fun q c hqc => ?_⟩
        have hq : q < k := g6 ▸ lt_of_getElem?_eq_some hqc
        exact hmk' (hcofs m n' g1 g3 q hq) (g7 q c hqc)
  · intro m hm
    rw [hsame m (fun h => hil (h ▸ hm))]; exact hj.loC m hm
  · intro m hm m' hm' hmm
    rw [hsame m (fun h => hil (h ▸ hm)), hsame m' (fun h => hil (h ▸ hm'))] at hmm
    exact hj.loU m hm m' hm' hmm
  · intro m hm m' hm' hmm
    rw [hsame m (fun h => hil (h ▸ hm)), hsame m' (fun h => hit (h ▸ hm'))] at hmm
    exact hj.loT m hm m' (by simp [hm']) hmm
  · intro m hm hml
    rcases List.mem_cons.mp hm with rfl | hm
    · exact hil hml
    · exact hj.dUL m hm hml
  · intro m hm hmt
    rcases List.mem_cons.mp hm with rfl | hm
    · exact hit hmt
    · exact hj.dUT m hm (by simp [hmt])
  · intro m hm
    rcases hj.oldC m hm with h | h | h
    · rcases List.mem_cons.mp h with rfl | h
      · exact Or.inr (Or.inr (by simp))
      · exact Or.inl h
    · exact Or.inr (Or.inl h)
    · exact Or.inr (Or.inr (by simp [h]))
  · intro m hm
    by_cases hmi : m = i
    · subst hmi; exact Or.inr (Or.inr (Or.inl (by simp)))
    · rw [hsame m hmi] at hm
      rcases hj.live m hm with h | h | h | h
      · exact Or.inl h
      · rcases List.mem_cons.mp h with h | h
        · exact absurd h hmi
        · exact Or.inr (Or.inl h)
      · exact Or.inr (Or.inr (Or.inl (by simp [h])))
      · exact Or.inr (Or.inr (Or.inr h))
  · intro m nm hnm hl hmu
    obtain ⟨g1, g2⟩ := hj.dead m nm hnm hl (fun h => hmu (by simp [h]))
    exact ⟨g1, fun p m' hm' hc => g2 p m' hm'
      (by rcases hc with h | h; exact Or.inl h; exact Or.inr (by simp [h]))⟩

/-- micro step: an unreferenced surviving node of the old lower level is removed -/
theorem J.remove {sh : Nat → Option (Node T)} {up lo todo : List Nat} {j : Nat}
    (hp : Pre a b P sh0 k old) (hj : J a b P sh0 k old ext sh up lo todo)
    (hju : j ∈ up) (hs : SurvL b sh0 sh j) (hext : ext j = 0)
    (hnoref : ∀ p m, sh p = some m → .inner j ∉ m.ch) :
    J a b P sh0 k old ext (upd sh j none) (up.erase j) lo todo := by
  obtain ⟨nj, hnj, hlj, hsj⟩ := hs
  have hjl : j ∉ lo := hj.dUL j hju
  have hjt : j ∉ todo := hj.dUT j hju
  have hsame : ∀ m, m ≠ j → upd sh j none m = sh m := fun m hm => upd_ne _ _ hm
  have hmem : ∀ m, m ∈ up.erase j ↔ m ≠ j ∧ m ∈ up := fun m => hj.ndUp.mem_erase_iff
  have hmk : ∀ {xs : List (Edge T)} {c : Edge T}, MkR a sh lo todo xs c →
      MkR a (upd sh j none) lo todo xs c := by
    intro xs c h
    refine h.mono (fun m hm _ => ⟨hm, hsame m ?_⟩)
    rintro rfl
    rcases hm with hm | hm
    · exact hjl hm
    · exact hjt hm
  refine
    { frame := fun m nm f1 f2 f3 => by
        rw [hsame m (fun h => by subst h; rw [hnj] at f1; cases f1; exact f3 hlj)]
        exact hj.frame m nm f1 f2 f3
      todoSh := fun m hm => ?_
      upC := ?_, loC := ?_, loU := ?_, loT := ?_
      ndUp := hj.ndUp.erase j
      ndLo := hj.ndLo
      ndTodo := hj.ndTodo
      dUL := fun m hm => hj.dUL m ((hmem m).mp hm).2
      dUT := fun m hm => hj.dUT m ((hmem m).mp hm).2
      dLT := hj.dLT
      oldC := ?_, live := ?_, dead := ?_ }
  · obtain ⟨f1, f2⟩ := hj.todoSh m hm
    exact ⟨f1, by rw [hsame m (fun h => hjt (h ▸ hm))]; exact f2⟩
  · intro m hm
    obtain ⟨hmj, hm⟩ := (hmem m).mp hm
    rcases hj.upC m hm with ⟨nm, f1, f2, f3⟩ | ⟨g1, g2, n', ds, g3, g4, g5, g6, g7⟩
    · exact Or.inl ⟨nm, f1, f2, by rw [hsame m hmj]; exact f3⟩
    · exact Or.inr ⟨g1, g2, n', ds, g3, g4, by rw [hsame m hmj]; exact g5, g6,
        fun q c hqc => hmk (g7 q c hqc)⟩
  · intro m hm
    rw [hsame m (fun h => hjl (h ▸ hm))]; exact hj.loC m hm
  · intro m hm m' hm' hmm
    rw [hsame m (fun h => hjl (h ▸ hm)), hsame m' (fun h => hjl (h ▸ hm'))] at hmm
    exact hj.loU m hm m' hm' hmm
  · intro m hm m' hm' hmm
    rw [hsame m (fun h => hjl (h ▸ hm)), hsame m' (fun h => hjt (h ▸ hm'))] at hmm
    exact hj.loT m hm m' hm' hmm
  · intro m hm
    rcases hj.oldC m hm with h | h | h
    · exact Or.inl h
    · exact Or.inr (Or.inl h)
    · refine Or.inr (Or.inr ((hmem m).mpr ⟨?_, h⟩))
      rintro rfl
      obtain ⟨n', hn', hl'⟩ := (hp.old_iff m).mp hm
      rw [hnj] at hn'; cases hn'; exact hp.ab (hl'.symm.trans hlj)
  · intro m hm
    by_cases hmj : m = j
    · subst hmj; simp at hm
    · rw [hsame m hmj] at hm
      rcases hj.live m hm with h | h | h | h
      · exact Or.inl h
      · exact Or.inr (Or.inl h)
      · exact Or.inr (Or.inr (Or.inl ((hmem m).mpr ⟨hmj, h⟩)))
      · exact Or.inr (Or.inr (Or.inr h))
  · intro m nm hnm hl hmu
    by_cases hmj : m = j
    · subst hmj
      refine ⟨hext, fun p m' hm' hc => ?_⟩
      rcases hc with ⟨c1, c2⟩ | hc
      · exact hnoref p m' (hj.frame p m' hm' c1 c2)
      · obtain ⟨_, f2⟩ := hj.todoSh p hc
        exact hnoref p m' (f2 ▸ hm')
    · exact hj.dead m nm hnm hl (fun h => hmu ((hmem m).mpr ⟨hmj, h⟩))

/-! ## consequences of `J`: no duplicates in the new upper table -/

/-- a node of level `a` in the current shape is not "below" -/
theorem J.not_bel_of_level_a {sh : Nat → Option (Node T)} {up lo todo : List Nat}
    (hj : J a b P sh0 k old ext sh up lo todo) {j : Nat} {xs : List (Edge T)}
    (hs : sh j = some ⟨a, xs⟩) : ¬ Bel a b P sh0 (.inner j) := by
  rintro ⟨m, hm, h1, h2, _⟩
  have := hj.frame j m hm h1 h2
  rw [hs] at this; cases this; exact h1 rfl

theorem MkR.inj {sh : Nat → Option (Node T)} {up lo todo : List Nat}
    (hj : J a b P sh0 k old ext sh up lo todo) {xs xs' : List (Edge T)} {c : Edge T}
    (hx : ∀ x ∈ xs, Bel a b P sh0 x) (hx' : ∀ x ∈ xs', Bel a b P sh0 x)
    (hlen : xs.length = xs'.length)
    (h : MkR a sh lo todo xs c) (h' : MkR a sh lo todo xs' c) : xs = xs' := by
  rcases h with ⟨x, e0, e1, e2⟩ | ⟨_, j, _, e2, e3⟩ <;>
    rcases h' with ⟨x', f0, f1, f2⟩ | ⟨_, j', _, f2, f3⟩
  · refine List.ext_getElem hlen (fun p h1 h2 => ?_)
    rw [e1 _ (List.getElem_mem h1), f1 _ (List.getElem_mem h2), ← e2, ← f2]
  · subst e2; rw [f2] at e0
    exact absurd (hx _ e0) (hj.not_bel_of_level_a f3)
  · subst f2; rw [e2] at f0
    exact absurd (hx' _ f0) (hj.not_bel_of_level_a e3)
  · rw [e2] at f2; injection f2 with f2; subst f2
    rw [e3] at f3; injection f3 with f3; injection f3 with _ f4

theorem MkR.eq_of_bel {sh : Nat → Option (Node T)} {up lo todo : List Nat}
    (hj : J a b P sh0 k old ext sh up lo todo) {xs : List (Edge T)} {c : Edge T}
    (h : MkR a sh lo todo xs c) (hc : Bel a b P sh0 c) : Red xs := by
  rcases h with ⟨x, e0, e1, _⟩ | ⟨_, j, _, e2, e3⟩
  · exact ⟨x, e0, e1⟩
  · subst e2; exact absurd hc (hj.not_bel_of_level_a e3)

/-- two possible children of an old upper node with the same row of the matrix are equal -/
theorem cof0_inj (hp : Pre a b P sh0 k old) {c c' : Edge T}
    (hc : Bel a b P sh0 c ∨ AtB b sh0 c) (hc' : Bel a b P sh0 c' ∨ AtB b sh0 c')
    (h : ∀ q, q < k → cof0 b sh0 c q = cof0 b sh0 c' q) : c = c' := by
  rcases hc with hc | ⟨j, n, rfl, hn, hl⟩ <;> rcases hc' with hc' | ⟨j', n', rfl, hn', hl'⟩
  · have := h 0 hp.kpos
    rwa [cof0_of_bel hc, cof0_of_bel hc'] at this
  · have hlen := hp.arity j' n' hn'
    refine absurd (red_of_const (c := c) (by have := hp.kpos; omega) (fun q hq => ?_))
      (hp.nored j' n' hn')
    have := h q (by omega)
    rw [cof0_of_bel hc, cof0_at hn' hl' hq] at this
    exact this.symm
  · have hlen := hp.arity j n hn
    refine absurd (red_of_const (c := c') (by have := hp.kpos; omega) (fun q hq => ?_))
      (hp.nored j n hn)
    have := h q (by omega)
    rw [cof0_of_bel hc', cof0_at hn hl hq] at this
    exact this
  · have hlen := hp.arity j n hn
    have hlen' := hp.arity j' n' hn'
    have hch : n.ch = n'.ch := List.ext_getElem (by omega) (fun q h1 h2 => by
      have := h q (by omega)
      rwa [cof0_at hn hl h1, cof0_at hn' hl' h2] at this)
    have : n = n' := Node.ext' (hl.trans hl'.symm) hch
    subst this
    rw [hp.uniq j j' n hn hn']

/-- a child of an old upper node whose row of the matrix is constant is below -/
theorem bel_of_cof0_const (hp : Pre a b P sh0 k old) {c : Edge T}
    (hc : Bel a b P sh0 c ∨ AtB b sh0 c)
    (h : ∀ q q', q < k → q' < k → cof0 b sh0 c q = cof0 b sh0 c q') : Bel a b P sh0 c := by
  rcases hc with hc | ⟨j, n, rfl, hn, hl⟩
  · exact hc
  · have hlen := hp.arity j n hn
    have hpos : 0 < n.ch.length := by have := hp.kpos; omega
    refine absurd (red_of_const (c := n.ch[0]) hpos (fun q hq => ?_)) (hp.nored j n hn)
    have := h q 0 (by omega) hp.kpos
    rwa [cof0_at hn hl hq, cof0_at hn hl hpos] at this

/-- the new children of a rewritten node are not all below -/
theorem J.rew_not_bel {sh : Nat → Option (Node T)} {up lo todo : List Nat}
    (hp : Pre a b P sh0 k old) (hj : J a b P sh0 k old ext sh up lo todo) {i : Nat} {n : Node T}
    {cs : List (Edge T)} (hn : sh0 i = some n) (hla : n.level = a) (hlen : cs.length = k)
    (hmk : ∀ q c, cs[q]? = some c → MkR a sh lo todo (col0 b sh0 n.ch q) c) :
    ¬ (∀ c ∈ cs, Bel a b P sh0 c) := by
  intro hall
  have hk := hp.upKids i n hn hla
  have hlen' := hp.arity i n hn
  have hred : ∀ q, q < k → Red (col0 b sh0 n.ch q) := fun q hq => by
    have hq' : q < cs.length := by omega
    exact (hmk q cs[q] (List.getElem?_eq_getElem hq')).eq_of_bel hj (hall _ (List.getElem_mem _))
  have heq : ∀ c ∈ n.ch, ∀ c' ∈ n.ch, c = c' := fun c hc c' hc' =>
    cof0_inj hp (hk c hc) (hk c' hc') (fun q hq => by
      obtain ⟨x, _, hx⟩ := hred q hq
      rw [hx _ (mem_col0 hc q), hx _ (mem_col0 hc' q)])
  have hpos : 0 < n.ch.length := by have := hp.kpos; omega
  exact hp.nored i n hn ⟨n.ch[0], List.getElem_mem _, fun y hy => heq y hy _ (List.getElem_mem _)⟩

/-- the new children of a rewritten node do not collapse -/
theorem J.rew_nored {sh : Nat → Option (Node T)} {up lo todo : List Nat}
    (hp : Pre a b P sh0 k old) (hj : J a b P sh0 k old ext sh up lo todo) {i : Nat} {n : Node T}
    {cs : List (Edge T)} (hn : sh0 i = some n) (hla : n.level = a)
    (hnb : ¬ (∀ c ∈ n.ch, Bel a b P sh0 c)) (hlen : cs.length = k)
    (hmk : ∀ q c, cs[q]? = some c → MkR a sh lo todo (col0 b sh0 n.ch q) c) :
    ¬ Red cs := by
  rintro ⟨x, _, hall⟩
  have hx : ∀ q, q < k → MkR a sh lo todo (col0 b sh0 n.ch q) x := fun q hq => by
    have hq' : q < cs.length := by omega
    have := hmk q cs[q] (List.getElem?_eq_getElem hq')
    rwa [hall _ (List.getElem_mem _)] at this
  have hcol : ∀ q q', q < k → q' < k → col0 b sh0 n.ch q = col0 b sh0 n.ch q' :=
    fun q q' hq hq' => (hx q hq).inj hj (bel_col0 hp hn hla hq) (bel_col0 hp hn hla hq')
      (by rw [col0_length, col0_length]) (hx q' hq')
  apply hnb
  intro c hc
  refine bel_of_cof0_const hp (hp.upKids i n hn hla c hc) (fun q q' hq hq' => ?_)
  have := hcol q q' hq hq'
  unfold col0 at this
  exact List.map_inj_left.mp this c hc

/-- two rewritten nodes with the same new children are the same node -/
theorem J.rew_inj {sh : Nat → Option (Node T)} {up lo todo : List Nat}
    (hp : Pre a b P sh0 k old) (hj : J a b P sh0 k old ext sh up lo todo) {i i' : Nat}
    {n n' : Node T} {cs : List (Edge T)} (hn : sh0 i = some n) (hla : n.level = a)
    (hn' : sh0 i' = some n') (hla' : n'.level = a) (hlen : cs.length = k)
    (hmk : ∀ q c, cs[q]? = some c → MkR a sh lo todo (col0 b sh0 n.ch q) c)
    (hmk' : ∀ q c, cs[q]? = some c → MkR a sh lo todo (col0 b sh0 n'.ch q) c) : i = i' := by
  have hk := hp.upKids i n hn hla
  have hk' := hp.upKids i' n' hn' hla'
  have hl := hp.arity i n hn
  have hl' := hp.arity i' n' hn'
  have hcol : ∀ q, q < k → col0 b sh0 n.ch q = col0 b sh0 n'.ch q := fun q hq => by
    have hq' : q < cs.length := by omega
    have hc := List.getElem?_eq_getElem hq'
    exact (hmk q _ hc).inj hj (bel_col0 hp hn hla hq) (bel_col0 hp hn' hla' hq)
      (by rw [col0_length, col0_length, hl, hl']) (hmk' q _ hc)
  have hch : n.ch = n'.ch := List.ext_getElem (by omega) (fun p h1 h2 =>
    cof0_inj hp (hk _ (List.getElem_mem h1)) (hk' _ (List.getElem_mem h2)) (fun q hq => by
      have := congrArg (fun l => l[p]?) (hcol q hq)
      simpa only [col0, List.getElem?_map, List.getElem?_eq_getElem h1,
        List.getElem?_eq_getElem h2, Option.map_some, Option.some.injEq] using this))
  have : n = n' := Node.ext' (hla.trans hla'.symm) hch
  subst this
  exact hp.uniq i i' n hn hn'

/-- the entries of the new upper table all have level `b` -/
theorem J.up_level {sh : Nat → Option (Node T)} {up lo todo : List Nat}
    (hj : J a b P sh0 k old ext sh up lo todo) {i : Nat} (hi : i ∈ up) :
    ∃ cs, sh i = some ⟨b, cs⟩ := by
  rcases hj.upC i hi with ⟨n, _, hl, hs⟩ | ⟨_, _, n, cs, _, _, hs, _⟩
  · exact ⟨n.ch, by rw [hs, ← hl]⟩
  · exact ⟨cs, hs⟩

/-- a surviving node of the old lower level has all children below -/
theorem survL_bel (hp : Pre a b P sh0 k old) {sh : Nat → Option (Node T)} {i : Nat} {l : Nat}
    {cs : List (Edge T)} (hs : SurvL b sh0 sh i) (hi : sh i = some ⟨l, cs⟩) :
    ∀ c ∈ cs, Bel a b P sh0 c := by
  obtain ⟨n, hn, hl, hs'⟩ := hs
  rw [hi] at hs'; cases hs'
  exact hp.lowKids i _ hn hl

/-- a (candidate) rewritten node collides with no entry of the new upper table but itself -/
theorem J.rew_vs_up {sh : Nat → Option (Node T)} {up lo todo : List Nat}
    (hp : Pre a b P sh0 k old) (hj : J a b P sh0 k old ext sh up lo todo) {i : Nat} {n : Node T}
    {cs : List (Edge T)} (hn : sh0 i = some n) (hla : n.level = a) (hlen : cs.length = k)
    (hmk : ∀ q c, cs[q]? = some c → MkR a sh lo todo (col0 b sh0 n.ch q) c)
    {m l : Nat} (hm : m ∈ up) (hs : sh m = some ⟨l, cs⟩) : m = i := by
  rcases hj.upC m hm with hsv | ⟨g1, _, n', ds, g3, _, g5, _, g7⟩
  · exact absurd (survL_bel hp hsv hs) (hj.rew_not_bel hp hn hla hlen hmk)
  · rw [hs] at g5; injection g5 with g5; injection g5 with _ e1
    subst e1
    obtain ⟨n'', hn'', hl'⟩ := (hp.old_iff m).mp g1
    rw [g3] at hn''; cases hn''
    exact hj.rew_inj hp g3 hl' hn hla hlen g7 hmk

/-- **no duplicates in the new upper table**: two entries with the same children coincide -/
theorem J.up_unique {sh : Nat → Option (Node T)} {up lo todo : List Nat}
    (hp : Pre a b P sh0 k old) (hj : J a b P sh0 k old ext sh up lo todo) {i m l l' : Nat}
    {cs : List (Edge T)}
    (hi : i ∈ up) (hm : m ∈ up) (hsi : sh i = some ⟨l, cs⟩) (hsm : sh m = some ⟨l', cs⟩) :
    i = m := by
  rcases hj.upC m hm with hsv | ⟨g1, _, n', ds, g3, _, g5, g6, g7⟩
  · rcases hj.upC i hi with hsv' | ⟨f1, _, n'', es, f3, _, f5, f6, f7⟩
    · obtain ⟨n1, h1, h2, h3⟩ := hsv
      obtain ⟨n2, h1', h2', h3'⟩ := hsv'
      rw [hsm] at h3; rw [hsi] at h3'
      cases h3; cases h3'
      simp only at h2 h2'
      subst h2
      rw [h2'] at h1'
      exact hp.uniq i m _ h1' h1
    · rw [hsi] at f5; injection f5 with f5; injection f5 with _ q1
      subst q1
      obtain ⟨n3, hn3, hl3⟩ := (hp.old_iff i).mp f1
      rw [f3] at hn3; cases hn3
      exact absurd (survL_bel hp hsv hsm) (hj.rew_not_bel hp f3 hl3 f6 f7)
  · rw [hsm] at g5; injection g5 with g5; injection g5 with _ q1
    subst q1
    obtain ⟨n3, hn3, hl3⟩ := (hp.old_iff m).mp g1
    rw [g3] at hn3; cases hn3
    exact hj.rew_vs_up hp g3 hl3 g6 g7 hi hsi

end
end OxiddModel.Reorder.SwapStoreN
