import OxiddModel.Reorder.SwapStoreNStep

/-!
# The whole loop of the `k`-ary `level_swap`, the entry state and `drop(old_upper)`
-/
namespace OxiddModel.Reorder.SwapStoreN
variable {T : Type} [DecidableEq T]

section
variable {a b : Nat} {P : Nat → Prop} {sh0 : Nat → Option (Node T)} {k : Nat} {old : List Nat}
  {ext : Nat → Nat}

/-- **the loop**: from the invariant for the whole iteration order to the invariant with nothing
left to visit -/
theorem levelSwapLoop_spec {al : Heap T → Nat} (hal : ∀ h : Heap T, h.get? (al h) = none)
    (hp : Pre a b P sh0 k old) {R : Nat → Nat} (hR : ∀ i, ext i ≤ R i) (order : List Nat) {st : LS T}
    (hinv : LInv a b P sh0 k old ext R st order) :
    LInv a b P sh0 k old ext R (levelSwapLoop k al a b old order st) [] := by
  unfold levelSwapLoop
  induction order generalizing st with
  | nil => exact hinv
  | cons i rest ih => exact ih (stepNode_spec hal hp hR hinv)

omit [DecidableEq T] in
/-- the invariant holds at loop entry -/
theorem J.init (hp : Pre a b P sh0 k old) {low order : List Nat}
    (hlow : ∀ i, i ∈ low ↔ ∃ n, sh0 i = some n ∧ n.level = b) (hlnd : low.Nodup)
    (hord : ∀ i, i ∈ order ↔ i ∈ old) (hond : order.Nodup) :
    J a b P sh0 k old ext sh0 low [] order := by
  refine
    { frame := fun i n h _ _ => h
      todoSh := fun i hi => ⟨(hord i).mp hi, rfl⟩
      upC := fun i hi => by
        obtain ⟨n, hn, hl⟩ := (hlow i).mp hi
        exact Or.inl ⟨n, hn, hl, hn⟩
      loC := fun j hj => by simp at hj
      loU := fun j hj => by simp at hj
      loT := fun j hj => by simp at hj
      ndUp := hlnd
      ndLo := List.nodup_nil
      ndTodo := hond
      dUL := fun i _ hi => by simp at hi
      dUT := fun i hi hi' => by
        obtain ⟨n, hn, hl⟩ := (hlow i).mp hi
        obtain ⟨n', hn', hl'⟩ := (hp.old_iff i).mp ((hord i).mp hi')
        rw [hn] at hn'; cases hn'; exact hp.ab (hl'.symm.trans hl)
      dLT := fun i hi => by simp at hi
      oldC := fun i hi => Or.inl ((hord i).mpr hi)
      live := fun i hi => ?_
      dead := fun i n hn hl hiu => absurd ((hlow i).mpr ⟨n, hn, hl⟩) hiu }
  cases hn : sh0 i with
  | none => exact absurd hn hi
  | some n =>
    by_cases ha : n.level = a
    · exact Or.inr (Or.inl ((hord i).mpr ((hp.old_iff i).mpr ⟨n, hn, ha⟩)))
    · by_cases hb : n.level = b
      · exact Or.inr (Or.inr (Or.inl ((hlow i).mpr ⟨n, hn, hb⟩)))
      · exact Or.inl ⟨n, rfl, ha, hb⟩

omit [DecidableEq T] in
theorem dropOld_spec {w : Nat → Nat} (l : List Nat) {h : Heap T}
    (hr : RCx (fun i => l.count i + w i) h)
    (hpos : ∀ j ∈ l, 0 < w j + h.refs j) :
    (dropOld h l).sh = h.sh ∧ RCx w (dropOld h l) := by
  unfold dropOld
  induction l generalizing h with
  | nil => exact ⟨rfl, hr.congr (fun i => by simp)⟩
  | cons j rest ih =>
    simp only [List.foldl_cons]
    have hrj := hr j
    simp only [List.count_cons_self] at hrj
    have hpj := hpos j (by simp)
    cases hm : h.get? j with
    | none => rw [rcOf_of_none hm] at hrj; omega
    | some m =>
      rw [rcOf_of_get? hm] at hrj
      have hrc : m.rc ≠ 1 := by omega
      have hsh := sh_dropTableEdge_keep hm hrc
      have hr' : RCx (fun i => rest.count i + w i) (dropTableEdge h j) := by
        apply RCx_dropTableEdge _ hm
        refine hr.congr (fun i => ?_)
        simp only [List.count_cons, pt]
        by_cases hi : i = j
        · subst hi; simp; omega
        · have h2 : ¬ (j = i) := fun h' => hi h'.symm
          simp [h2]
      have hrefs : (dropTableEdge h j).refs = h.refs := by
        unfold dropTableEdge
        rw [hm]; simp only [hrc, if_false]
        funext i
        exact refs_put_same _ _ _ (by simp [Heap.sh, hm, SNode.toNode]) _
      have := ih hr' (fun i hi => by rw [hrefs]; exact hpos i (by simp [hi]))
      exact ⟨this.1.trans hsh, this.2⟩
end
end OxiddModel.Reorder.SwapStoreN
