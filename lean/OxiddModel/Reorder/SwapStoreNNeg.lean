import OxiddModel.Reorder.SwapStoreNCheck
import OxiddModel.Tdd.Model

/-!
# Negative witnesses for the `k`-ary `level_swap`: two mutations of the loop body

`stepNodeV v` is the loop body of `SwapStoreN.lean` with two switches (`Variant`);
`Variant.fixed` is the code as it is (`levelDownV_fixed : levelDownV .fixed = levelDownS`).

* `rowOnce = some d` — the ZBDD-style mistake in the grand-cofactor matrix: a child that does not
  depend on the lower level is used in column 0 only, the other columns get the edge `d`
  (the source uses the child in **every** column: "the child is below the lower level, so we always
  have this child").
* `cmpTwo = true` — `reduce` compares only the first two children (a binary `t == e` test applied
  to a node of larger arity).

For each of them a small TDD store (`k = 3`, terminals `Tri`) satisfying `Inv` is given on which
the denotation (`rowOnce`) resp. the invariant (`cmpTwo`) fails, while the code as it is passes.
-/
namespace OxiddModel.Reorder.SwapStoreN
open OxiddModel.Tdd (Tri)

variable {T : Type}

structure Variant (T : Type) where
  /-- `none`: a child not on the lower level fills its whole matrix row (as the code);
  `some d`: it is used in column 0 only, the other columns get `d` -/
  rowOnce : Option (Edge T)
  /-- `reduce` compares only the first two children -/
  cmpTwo : Bool

def Variant.fixed : Variant T := ⟨none, false⟩

/-- entry `[c][q]` for a child `c` that is not on the lower level -/
def rowFill (v : Variant T) (c : Edge T) (q : Nat) : Edge T :=
  match v.rowOnce with
  | none => c
  | some d => if q = 0 then c else d

/-- the "all children equal" test of `reduce` for the children `x :: rest` -/
def redTest [DecidableEq T] (v : Variant T) (x : Edge T) (rest : List (Edge T)) : Bool :=
  match v.cmpTwo with
  | false => rest.all (· == x)
  | true =>
    match rest with
    | [] => true
    | y :: _ => y == x

section
variable [DecidableEq T]

def cofEV (v : Variant T) (h : Heap T) (l : Nat) (c : Edge T) (q : Nat) : Edge T :=
  match c with
  | .inner j =>
    match h.get? j with
    | some m => if m.level = l then m.ch.getD q c else rowFill v c q
    | none => rowFill v c q
  | .term _ => rowFill v c q

def mkChildV (v : Variant T) (al : Heap T → Nat) (upPre : Nat) (old : List Nat)
    (st : Heap T × List Nat) (xs : List (Edge T)) : (Heap T × List Nat) × Edge T :=
  let h1 := incAll st.1 xs
  match xs with
  | [] => (st, .inner 0)
  | x :: rest =>
    if redTest v x rest then ((decAll h1 rest, st.2), x)
    else
      match lookup h1 old xs with
      | some j => ((incRc (decAll h1 xs) (.inner j), st.2), .inner j)
      | none =>
        match lookup h1 st.2 xs with
        | some j => ((incRc (decAll h1 xs) (.inner j), st.2), .inner j)
        | none =>
          let j := al h1
          ((h1.put j (some ⟨upPre, xs, 2⟩), j :: st.2), .inner j)

def mkChildrenV (v : Variant T) (al : Heap T → Nat) (upPre : Nat) (old : List Nat) :
    Heap T × List Nat → List (List (Edge T)) → (Heap T × List Nat) × List (Edge T)
  | st, [] => (st, [])
  | st, xs :: rest =>
    let r := mkChildV v al upPre old st xs
    let r' := mkChildrenV v al upPre old r.1 rest
    (r'.1, r.2 :: r'.2)

def columnsV (v : Variant T) (k : Nat) (h : Heap T) (lowPre : Nat) (ch : List (Edge T)) :
    List (List (Edge T)) :=
  (List.range k).map fun q => ch.map fun c => cofEV v h lowPre c q

def stepNodeV (v : Variant T) (k : Nat) (al : Heap T → Nat) (upPre lowPre : Nat) (old : List Nat)
    (st : LS T) (i : Nat) : LS T :=
  match st.h.get? i with
  | none => st
  | some n =>
    if n.ch.all (fun c => !lvlIs st.h lowPre c) then
      let r := tblInsert (incRc st.h (.inner i)) st.lo i
      { st with h := r.1, lo := r.2 }
    else
      let r1 := mkChildrenV v al upPre old (st.h, st.lo) (columnsV v k st.h lowPre n.ch)
      let h3 := setChildren r1.1.1 i r1.2
      let h4 := setLevel h3 i lowPre
      let r5 := tblInsert (incRc h4 (.inner i)) st.up i
      let r7 := orphans lowPre r5 [] n.ch
      { h := r7.1, up := r7.2, lo := r1.1.2 }

def levelSwapLoopV (v : Variant T) (k : Nat) (al : Heap T → Nat) (upPre lowPre : Nat)
    (old order : List Nat) (st : LS T) : LS T :=
  order.foldl (stepNodeV v k al upPre lowPre old) st

def levelSwapV (v : Variant T) (k : Nat) (al : Heap T → Nat) (upPre lowPre : Nat) (h : Heap T)
    (oldUpper oldLower : List Nat) (order : List Nat) : LS T :=
  let r := levelSwapLoopV v k al upPre lowPre oldUpper order ⟨h, oldLower, []⟩
  { r with h := dropOld r.h oldUpper }

def levelDownV (v : Variant T) (k : Nat) (al : Heap T → Nat) (ord : List Nat → List Nat)
    (s : SStore T) (u : Nat) : SStore T :=
  if u + 1 < s.tables.length then
    let r := levelSwapV v k al u (u + 1) s.h (s.table u) (s.table (u + 1)) (ord (s.table u))
    let h1 := updateLevelNo r.h r.up u
    let h2 := updateLevelNo h1 r.lo (u + 1)
    { h := h2, tables := (s.tables.set u r.up).set (u + 1) r.lo }
  else s

/-! ## the switches in their `fixed` position give the verified model -/

omit [DecidableEq T] in
theorem cofEV_fixed : cofEV (T := T) .fixed = cofE := by
  funext h l c q
  cases c with
  | term v => rfl
  | inner j => rfl

theorem mkChildV_fixed : mkChildV (T := T) .fixed = mkChild := rfl

theorem mkChildrenV_fixed : mkChildrenV (T := T) .fixed = mkChildren := by
  funext al upPre old st cols
  induction cols generalizing st with
  | nil => rfl
  | cons xs rest ih => simp only [mkChildrenV, mkChildren, mkChildV_fixed, ih]

omit [DecidableEq T] in
theorem columnsV_fixed : columnsV (T := T) .fixed = columns := by
  funext k h l ch
  simp only [columnsV, columns, cofEV_fixed]

theorem stepNodeV_fixed : stepNodeV (T := T) .fixed = stepNode := by
  funext k al upPre lowPre old st i
  unfold stepNodeV
  rw [mkChildrenV_fixed, columnsV_fixed]
  rfl

theorem levelSwapLoopV_fixed : levelSwapLoopV (T := T) .fixed = levelSwapLoop := by
  funext k al upPre lowPre old order st
  simp only [levelSwapLoopV, levelSwapLoop, stepNodeV_fixed]

theorem levelSwapV_fixed : levelSwapV (T := T) .fixed = levelSwapS := by
  funext k al upPre lowPre h ou ol order
  simp only [levelSwapV, levelSwapS, levelSwapLoopV_fixed]

theorem levelDownV_fixed : levelDownV (T := T) .fixed = levelDownS := by
  funext k al ord s u
  simp only [levelDownV, levelDownS, levelSwapV_fixed]

end

/-! ## the witnesses (`k = 3`, terminals `Tri`: TDD nodes) -/

/-- `update_level_no` exchanges the level numbers `0` and `1` stored in the nodes, so an
assignment of the stored level numbers is composed with this map -/

def swapLv01 (l : Nat) : Nat := if l = 0 then 1 else if l = 1 then 0 else l

/-- the fill edge of the `rowOnce` mutation in the witnesses -/
def Variant.rowOnceF : Variant Tri := ⟨some (.term Tri.f), false⟩
/-- `reduce` looks at the first two children only -/
def Variant.cmpTwoV : Variant Tri := ⟨none, true⟩

/-! ### witness 1: a row of the grand-cofactor matrix filled in column 0 only -/

/-- slot 0 = the variable of level 1 (`[t, u, f]`); slot 1 (the handle) = level 0 with the children
`[slot 0, t, u]`: one child on the lower level and two children (terminals different from the fill
edge `f`) that do not depend on it -/
def sRow : SStore Tri :=
  ⟨⟨[some ⟨1, [.term .t, .term .u, .term .f], 2⟩,
     some ⟨0, [.inner 0, .term .t, .term .u], 2⟩]⟩, [[1], [0]]⟩

/-- variable of level 0 ↦ child 1, variable of level 1 ↦ child 2 -/
def σRow : Nat → Nat := fun l => if l = 0 then 1 else 2

theorem sRow_inv : Inv 3 (extOf [0, 1]) sRow := checkInv_sound (by decide)

/-- the code as it is keeps the invariant on this store … -/
theorem sRow_fixed_inv : Inv 3 (extOf [0, 1]) (levelDownS 3 Heap.firstFree id sRow 0) :=
  checkInv_sound (by decide)

/-- … and so does the mutant: the damage is purely semantic -/
theorem sRow_rowOnce_inv :
    Inv 3 (extOf [0, 1]) (levelDownV .rowOnceF 3 Heap.firstFree id sRow 0) :=
  checkInv_sound (by decide)

/-- what the mutant builds: the columns are `[t,t,u]`, `[u,f,f]`, `[f,f,f]` instead of `[t,t,u]`,
`[u,t,u]`, `[f,t,u]`; the last one is reduced to the terminal `f` -/
theorem rowOnce_result :
    (levelDownV .rowOnceF 3 Heap.firstFree id sRow 0).h.sh 1 =
      some ⟨0, [.inner 2, .inner 3, .term .f]⟩ ∧
    (levelDownV .rowOnceF 3 Heap.firstFree id sRow 0).h.sh 2 =
      some ⟨1, [.term .t, .term .t, .term .u]⟩ ∧
    (levelDownV .rowOnceF 3 Heap.firstFree id sRow 0).h.sh 3 =
      some ⟨1, [.term .u, .term .f, .term .f]⟩ ∧
    (levelDownS 3 Heap.firstFree id sRow 0).h.sh 1 =
      some ⟨0, [.inner 2, .inner 3, .inner 4]⟩ ∧
    (levelDownS 3 Heap.firstFree id sRow 0).h.sh 3 =
      some ⟨1, [.term .u, .term .t, .term .u]⟩ ∧
    (levelDownS 3 Heap.firstFree id sRow 0).h.sh 4 =
      some ⟨1, [.term .f, .term .t, .term .u]⟩ := by decide

/-- **a child below the lower level must fill its whole row**: the store satisfies `Inv`, slot 1
is an external handle that evaluates to `t` under `σRow` (the upper variable takes child 1, which
is the terminal `t` whatever the lower variable is); after `level_down` of the code as it is the
handle still evaluates to `t`; after the mutated one it does not (it evaluates to the fill edge
`f`) -/
theorem rowOnce_changes_function :
    Inv 3 (extOf [0, 1]) sRow ∧ 0 < extOf [0, 1] 1 ∧
    Ev sRow.h.sh σRow (.inner 1) Tri.t ∧
    Ev (levelDownS 3 Heap.firstFree id sRow 0).h.sh (σRow ∘ swapLv01) (.inner 1) Tri.t ∧
    ¬ Ev (levelDownV .rowOnceF 3 Heap.firstFree id sRow 0).h.sh (σRow ∘ swapLv01) (.inner 1)
      Tri.t := by
  refine ⟨sRow_inv, by decide, evalE_sound (f := 2) (by decide), evalE_sound (f := 2) (by decide),
    fun h => ?_⟩
  have h' : Ev (levelDownV .rowOnceF 3 Heap.firstFree id sRow 0).h.sh (σRow ∘ swapLv01) (.inner 1)
      Tri.f := evalE_sound (f := 2) (by decide)
  exact absurd (h.functional h') (by decide)

/-! ### witness 2: `reduce` that compares the first two children only -/

/-- slot 0 = `[t, t, f]` on level 1, slot 1 = `[slot 0, slot 0, u]` on level 0; an external handle
on each of them -/
def sCmp : SStore Tri :=
  ⟨⟨[some ⟨1, [.term .t, .term .t, .term .f], 4⟩,
     some ⟨0, [.inner 0, .inner 0, .term .u], 2⟩]⟩, [[1], [0]]⟩

theorem sCmp_inv : Inv 3 (extOf [1, 1]) sCmp := checkInv_sound (by decide)

/-- the code as it is keeps the invariant on this store (two new nodes `[t,t,u]`, `[f,f,u]`) -/
theorem sCmp_fixed_inv : Inv 3 (extOf [1, 1]) (levelDownS 3 Heap.firstFree id sCmp 0) :=
  checkInv_sound (by decide)

/-- what the mutant leaves: the columns `[t,t,u]`, `[t,t,u]`, `[f,f,u]` are collapsed to `t`, `t`,
`f`, so the rewritten slot 1 gets the children `[t, t, f]` of slot 0, which stays in the new upper
table; `insert_unchecked` finds the equal node, releases the edge and does not insert: slot 1 —
an external handle — is in no level view (so `update_level_no` never reaches it and it keeps the
level number 1), its counter is 1 instead of `1 + 1`, the new lower level view is empty, and
two slots hold the same children -/
theorem cmpTwo_result :
    (levelDownV .cmpTwoV 3 Heap.firstFree id sCmp 0).h.sh 0 =
      some ⟨0, [.term .t, .term .t, .term .f]⟩ ∧
    (levelDownV .cmpTwoV 3 Heap.firstFree id sCmp 0).h.sh 1 =
      some ⟨1, [.term .t, .term .t, .term .f]⟩ ∧
    (levelDownV .cmpTwoV 3 Heap.firstFree id sCmp 0).tables = [[0], []] ∧
    (levelDownV .cmpTwoV 3 Heap.firstFree id sCmp 0).h.rcOf 1 = 1 := by decide

/-- **`reduce` must compare all children**: the invariant fails (table partition: slot 1 is live
with level number 1 but the level view 1 is empty) -/
theorem cmpTwo_breaks_inv :
    ¬ Inv 3 (extOf [1, 1]) (levelDownV .cmpTwoV 3 Heap.firstFree id sCmp 0) := by
  intro h
  have := (h.tbl_iff 1 1).mpr ⟨⟨1, [.term .t, .term .t, .term .f]⟩, by decide, rfl⟩
  revert this; decide

/-- the same run, the reference-count clause: the handle slot 1 is live with counter 1 although it
is live and externally referenced -/
theorem cmpTwo_breaks_rc :
    ¬ RCx (fun i => live01 (levelDownV .cmpTwoV 3 Heap.firstFree id sCmp 0).h i + extOf [1, 1] i)
      (levelDownV .cmpTwoV 3 Heap.firstFree id sCmp 0).h := by
  intro h
  have := h 1
  revert this; decide

/-- … and the function of the handle changes too: with the upper variable on child 2 the handle
evaluates to `u` before; afterwards it does not (the node no longer depends on that variable) -/
theorem cmpTwo_changes_function :
    Ev sCmp.h.sh (fun _ => 2) (.inner 1) Tri.u ∧
    Ev (levelDownS 3 Heap.firstFree id sCmp 0).h.sh ((fun _ => 2) ∘ swapLv01) (.inner 1) Tri.u ∧
    ¬ Ev (levelDownV .cmpTwoV 3 Heap.firstFree id sCmp 0).h.sh ((fun _ => 2) ∘ swapLv01) (.inner 1)
      Tri.u := by
  refine ⟨evalE_sound (f := 2) (by decide), evalE_sound (f := 2) (by decide), fun h => ?_⟩
  have h' : Ev (levelDownV .cmpTwoV 3 Heap.firstFree id sCmp 0).h.sh ((fun _ => 2) ∘ swapLv01)
      (.inner 1) Tri.f := evalE_sound (f := 2) (by decide)
  exact absurd (h.functional h') (by decide)

end OxiddModel.Reorder.SwapStoreN
