import OxiddModel.Reorder.SwapStoreNHeap
import OxiddModel.Reorder.SwapStoreNInv

/-!
# The loop body of the `k`-ary `level_swap` preserves the loop invariant

Shape and reference-count effect of the remaining primitives (`lookup`, `set_child`, `set_level`,
table insertion/removal, `drop_unique_table_edge`), then `mkChild_spec`, `mkChildren_spec`,
`orphans_spec` and the two cases of the loop body. (`k`-ary version of `SwapStoreStep`.)
-/
namespace OxiddModel.Reorder.SwapStoreN

variable {T : Type} [DecidableEq T]

omit [DecidableEq T] in
theorem sh_put_upd (h : Heap T) (i : Nat) (o : Option (SNode T)) :
    (h.put i o).sh = upd h.sh i (o.map SNode.toNode) := by
  funext j; rw [sh_put]; rfl

/-! ## lookups only see shapes -/

omit [DecidableEq T] in
theorem get?_match_sh {α : Type} (h : Heap T) (j : Nat) (f : Node T → α) (d : α) :
    (match h.get? j with | some n => f n.toNode | none => d) =
    (match h.sh j with | some n => f n | none => d) := by
  unfold Heap.sh; cases h.get? j <;> rfl

theorem lookup_eq (h : Heap T) (tbl : List Nat) (xs : List (Edge T)) :
    lookup h tbl xs = tbl.find? fun j =>
      match h.sh j with
      | some n => n.ch == xs
      | none => false := by
  unfold lookup
  congr 1; funext j
  exact get?_match_sh h j (fun n => n.ch == xs) false

theorem lookup_congr {h h' : Heap T} (hs : h.sh = h'.sh) (tbl : List Nat) (xs : List (Edge T)) :
    lookup h tbl xs = lookup h' tbl xs := by
  rw [lookup_eq, lookup_eq, hs]

theorem lookup_some {h : Heap T} {tbl : List Nat} {xs : List (Edge T)} {j : Nat}
    (hl : lookup h tbl xs = some j) : j ∈ tbl ∧ ∃ l, h.sh j = some ⟨l, xs⟩ := by
  rw [lookup_eq] at hl
  refine ⟨List.mem_of_find?_eq_some hl, ?_⟩
  have := List.find?_some hl
  cases hs : h.sh j with
  | none => simp [hs] at this
  | some n =>
    simp only [hs, beq_iff_eq] at this
    obtain ⟨l, ch⟩ := n
    simp only at this
    exact ⟨l, by rw [this]⟩

theorem lookup_none {h : Heap T} {tbl : List Nat} {xs : List (Edge T)}
    (hl : lookup h tbl xs = none) : ∀ j ∈ tbl, ∀ l, h.sh j ≠ some ⟨l, xs⟩ := by
  rw [lookup_eq] at hl
  intro j hj l hs
  have := List.find?_eq_none.mp hl j hj
  simp [hs] at this

omit [DecidableEq T] in
theorem lvlIs_eq (h : Heap T) (l : Nat) (c : Edge T) :
    lvlIs h l c = match c with
      | .inner j => (match h.sh j with | some m => m.level == l | none => false)
      | .term _ => false := by
  cases c with
  | term v => rfl
  | inner j => exact get?_match_sh h j (fun n => n.level == l) false

omit [DecidableEq T] in
theorem cofE_eq (h : Heap T) (l : Nat) (c : Edge T) (q : Nat) :
    cofE h l c q = cof0 l h.sh c q := by
  cases c with
  | term v => rfl
  | inner j =>
    exact get?_match_sh h j
      (fun m => if m.level = l then m.ch.getD q (Edge.inner j) else Edge.inner j) (Edge.inner j)

/-! ## shapes after the in-place updates -/

omit [DecidableEq T] in
theorem sh_setChildren {h : Heap T} {i l : Nat} {ch : List (Edge T)} (hs : h.sh i = some ⟨l, ch⟩)
    (cs : List (Edge T)) : (setChildren h i cs).sh = upd h.sh i (some ⟨l, cs⟩) := by
  obtain ⟨m, hm, hmn⟩ := sh_eq_some.mp hs
  unfold setChildren
  rw [hm]; simp only
  rw [sh_decAll, sh_put_upd]
  cases m; cases hmn; rfl

omit [DecidableEq T] in
theorem sh_setLevel {h : Heap T} {i l : Nat} {ch : List (Edge T)} (hs : h.sh i = some ⟨l, ch⟩)
    (l' : Nat) : (setLevel h i l').sh = upd h.sh i (some ⟨l', ch⟩) := by
  obtain ⟨m, hm, hmn⟩ := sh_eq_some.mp hs
  unfold setLevel
  rw [hm]; simp only
  rw [sh_put_upd]
  cases m; cases hmn; rfl

theorem sh_tblInsert (h : Heap T) (tbl : List Nat) (i : Nat) : (tblInsert h tbl i).1.sh = h.sh := by
  unfold tblInsert
  cases h.get? i with
  | none => rfl
  | some n =>
    simp only
    cases lookup h tbl n.ch with
    | none => rfl
    | some j => exact sh_decRc _ _

/-- with no equal node in the table the edge is inserted and the heap is untouched -/
theorem tblInsert_fresh {h : Heap T} {tbl : List Nat} {i l : Nat} {cs : List (Edge T)}
    (hs : h.sh i = some ⟨l, cs⟩) (hno : ∀ m ∈ tbl, ∀ l', h.sh m ≠ some ⟨l', cs⟩) :
    tblInsert h tbl i = (h, i :: tbl) := by
  obtain ⟨m, hm, hmn⟩ := sh_eq_some.mp hs
  unfold tblInsert
  rw [hm]; simp only
  obtain ⟨ml, mc, mrc⟩ := m
  simp only [SNode.toNode, Node.mk.injEq] at hmn
  obtain ⟨rfl, rfl⟩ := hmn
  simp only
  cases hl : lookup h tbl mc with
  | none => rfl
  | some j =>
    obtain ⟨h1, l', h2⟩ := lookup_some hl
    exact absurd h2 (hno j h1 l')

/-! ## reference counts of the in-place updates -/

omit [DecidableEq T] in
theorem rcOf_put_same_rc {h : Heap T} {i : Nat} {m m' : SNode T} (hm : h.get? i = some m)
    (hrc : m'.rc = m.rc) (j : Nat) : (h.put i (some m')).rcOf j = h.rcOf j := by
  rw [rcOf_put]
  split
  · rename_i hj; subst hj; rw [rcOf_of_get? hm]; exact hrc
  · rfl

omit [DecidableEq T] in
/-- `set_child` for all children: the new children `cs` were owned by the caller -/
theorem RCx_setChildren {w : Nat → Nat} {h : Heap T} {i l : Nat} {ch : List (Edge T)}
    (cs : List (Edge T)) (hr : RCx (fun j => w j + pts cs j) h) (hs : h.sh i = some ⟨l, ch⟩) :
    RCx w (setChildren h i cs) := by
  obtain ⟨m, hm, hmn⟩ := sh_eq_some.mp hs
  unfold setChildren
  rw [hm]; simp only
  apply RCx.decAll m.ch
  intro j
  have h1 := refs_put' h i j (some { m with ch := cs })
  have h2 := hr j
  simp only [] at h2
  simp only []
  rw [rcOf_put_same_rc hm (m' := { m with ch := cs }) rfl, h2]
  rw [hs] at h1
  cases m; cases hmn
  simp only [cntS_some, Option.map, SNode.toNode] at h1 ⊢
  omega

omit [DecidableEq T] in
theorem RCx_setLevel {w : Nat → Nat} {h : Heap T} (i l : Nat) (hr : RCx w h) :
    RCx w (setLevel h i l) := by
  unfold setLevel
  cases hm : h.get? i with
  | none => exact hr
  | some m =>
    intro j
    simp only
    rw [rcOf_put_same_rc hm (m' := { m with level := l }) rfl, hr j]
    congr 1
    have h1 := refs_put' h i j (some { m with level := l })
    have : h.sh i = some m.toNode := sh_of_get? hm
    rw [this] at h1
    simp only [cntS_some, Option.map, SNode.toNode] at h1
    omega

/-! ## `drop_unique_table_edge` -/

omit [DecidableEq T] in
theorem sh_dropTableEdge_keep {h : Heap T} {j : Nat} {m : SNode T} (hm : h.get? j = some m)
    (hrc : m.rc ≠ 1) : (dropTableEdge h j).sh = h.sh := by
  unfold dropTableEdge
  rw [hm]; simp only [hrc, if_false]
  rw [sh_put_upd]
  funext k
  by_cases hk : k = j
  · subst hk; simp [Heap.sh, hm, SNode.toNode]
  · rw [upd_ne _ _ hk]

omit [DecidableEq T] in
theorem sh_dropTableEdge_free {h : Heap T} {j : Nat} {m : SNode T} (hm : h.get? j = some m)
    (hrc : m.rc = 1) : (dropTableEdge h j).sh = upd h.sh j none := by
  unfold dropTableEdge
  rw [hm]; simp only [hrc, if_true]
  rw [sh_decAll, sh_put_upd]; rfl

omit [DecidableEq T] in
theorem RCx_dropTableEdge {w : Nat → Nat} {h : Heap T} {j : Nat} {m : SNode T}
    (hr : RCx (fun i => w i + pt (Edge.inner j : Edge T) i) h) (hm : h.get? j = some m) :
    RCx w (dropTableEdge h j) := by
  unfold dropTableEdge
  rw [hm]; simp only
  have hj := hr j
  simp only [pt_self] at hj
  rw [rcOf_of_get? hm] at hj
  split
  · rename_i hrc
    have hz : h.refs j = 0 := by omega
    have hw : w j = 0 := by omega
    apply RCx.decAll m.ch
    intro k
    have h1 := refs_put' h j k none
    have h2 := hr k
    simp only [] at h2
    have hsj : h.sh j = some m.toNode := sh_of_get? hm
    rw [hsj] at h1
    rw [rcOf_put]
    by_cases hk : k = j
    · subst hk
      have hc := cntS_le_refs h k k
      rw [hsj, hz] at hc
      simp only [cntS_some, cntS_none, SNode.toNode, Option.map] at h1 hc ⊢
      simp only [if_true]
      omega
    · simp only [cntS_some, cntS_none, SNode.toNode, Option.map, pt_ne hk, hk, if_false] at h1 h2 ⊢
      omega
  · rename_i hrc
    intro k
    have h2 := hr k
    simp only [] at h2
    rw [rcOf_put, refs_put_same _ _ _ (by simp [Heap.sh, hm, SNode.toNode])]
    by_cases hk : k = j
    · subst hk; simp only [if_true]; omega
    · simp only [pt_ne hk, hk, if_false] at h2 ⊢
      omega

macro "rcarith" : tactic => `(tactic| first | omega | (simp only []; omega))

section
variable {a b : Nat} {P : Nat → Prop} {sh0 : Nat → Option (Node T)} {k : Nat} {old : List Nat}
  {ext : Nat → Nat}

omit [DecidableEq T] in
theorem J.bel_live {sh : Nat → Option (Node T)} {up lo todo : List Nat}
    (hj : J a b P sh0 k old ext sh up lo todo) {x : Edge T} (hx : Bel a b P sh0 x) {i : Nat}
    (hi : x = .inner i) : sh i ≠ none := by
  subst hi
  obtain ⟨n, hn, h1, h2, _⟩ := hx
  rw [hj.frame i n hn h1 h2]; simp

omit [DecidableEq T] in
/-- an entry of `old_upper` whose children are all below is a node that only moves: it is
unvisited or already in the new lower table, never a rewritten node -/
theorem J.old_bel {sh : Nat → Option (Node T)} {up lo todo : List Nat}
    (hp : Pre a b P sh0 k old) (hj : J a b P sh0 k old ext sh up lo todo) {j l : Nat}
    {xs : List (Edge T)} (hjo : j ∈ old) (hs : sh j = some ⟨l, xs⟩)
    (hx : ∀ x ∈ xs, Bel a b P sh0 x) : (j ∈ lo ∨ j ∈ todo) ∧ l = a := by
  rcases hj.oldC j hjo with h | h | h
  · obtain ⟨n, h1, _, h3⟩ := hj.todo_live hp h
    rw [hs] at h1; cases h1
    exact ⟨Or.inr h, h3⟩
  · obtain ⟨xs', h1, _⟩ := hj.loC j h
    rw [hs] at h1; cases h1
    exact ⟨Or.inl h, rfl⟩
  · exfalso
    rcases hj.upC j h with ⟨n, h1, h2, _⟩ | ⟨_, _, n, cs, g3, _, g5, g6, g7⟩
    · obtain ⟨n', hn', hl'⟩ := (hp.old_iff j).mp hjo
      rw [h1] at hn'; cases hn'; exact hp.ab (hl'.symm.trans h2)
    · obtain ⟨n', hn', hl'⟩ := (hp.old_iff j).mp hjo
      rw [g3] at hn'; cases hn'
      rw [hs] at g5; cases g5
      exact hj.rew_not_bel hp g3 hl' g6 g7 hx

/-- one new child: `reduce` of a column all of whose entries are below -/
theorem mkChild_spec {al : Heap T → Nat} (hal : ∀ h : Heap T, h.get? (al h) = none)
    (hp : Pre a b P sh0 k old)
    {h : Heap T} {up lo todo : List Nat} (hj : J a b P sh0 k old ext h.sh up lo todo)
    {w : Nat → Nat} (hr : RCx w h) {xs : List (Edge T)} (hlen : xs.length = k)
    (hx : ∀ x ∈ xs, Bel a b P sh0 x) :
    ∃ h' lo' c, mkChild al a old (h, lo) xs = ((h', lo'), c) ∧
      J a b P sh0 k old ext h'.sh up lo' todo ∧ MkR a h'.sh lo' todo xs c ∧
      (∃ d : Nat → Nat, (∀ i, lo'.count i = lo.count i + d i) ∧
        RCx (fun i => w i + pt c i + d i) h') ∧
      (∀ i, h.sh i ≠ none → h'.sh i = h.sh i) ∧ (∀ i ∈ lo, i ∈ lo') := by
  obtain ⟨x, rest, rfl⟩ : ∃ x rest, xs = x :: rest := by
    cases xs with
    | nil => have := hp.kpos; simp at hlen; omega
    | cons x rest => exact ⟨x, rest, rfl⟩
  have hxl : ∀ i, .inner i ∈ x :: rest → h.sh i ≠ none := fun i hi => hj.bel_live (hx _ hi) rfl
  have hr1 : RCx (fun i => w i + pts (x :: rest) i) (incAll h (x :: rest)) :=
    hr.incAll (x :: rest) hxl
  have hs1 : (incAll h (x :: rest)).sh = h.sh := sh_incAll h (x :: rest)
  unfold mkChild
  simp only
  generalize hh1 : incAll h (x :: rest) = h1 at hr1 hs1
  by_cases hall : (rest.all fun y => y == x) = true
  · rw [if_pos hall]
    have hall' : ∀ y ∈ x :: rest, y = x := by
      intro y hy
      rcases List.mem_cons.mp hy with hy | hy
      · exact hy
      · exact beq_iff_eq.mp (List.all_eq_true.mp hall y hy)
    refine ⟨_, _, _, rfl, ?_, Or.inl ⟨x, by simp, hall', rfl⟩, ⟨fun _ => 0, fun _ => rfl, ?_⟩, ?_,
      fun i hi => hi⟩
    · rw [sh_decAll, hs1]; exact hj
    · apply RCx.decAll rest
      exact hr1.congr (fun i => by simp only [pts_cons]; omega)
    · intro i _; rw [sh_decAll, hs1]
  · rw [if_neg hall]
    have hnr : ¬ Red (x :: rest) := by
      rintro ⟨y, hy, hy'⟩
      apply hall
      have hyx : x = y := hy' x (by simp)
      rw [List.all_eq_true]
      intro z hz
      rw [beq_iff_eq, hyx]
      exact hy' z (by simp [hz])
    have hfound : ∀ j l, (j ∈ lo ∨ j ∈ todo) → h.sh j = some ⟨l, x :: rest⟩ → l = a →
        J a b P sh0 k old ext (incRc (decAll h1 (x :: rest)) (.inner j)).sh up lo todo ∧
        MkR a (incRc (decAll h1 (x :: rest)) (.inner j)).sh lo todo (x :: rest) (.inner j) ∧
        (∃ d : Nat → Nat, (∀ i, lo.count i = lo.count i + d i) ∧
          RCx (fun i => w i + pt (Edge.inner j : Edge T) i + d i)
            (incRc (decAll h1 (x :: rest)) (.inner j))) ∧
        (∀ i, h.sh i ≠ none → (incRc (decAll h1 (x :: rest)) (.inner j)).sh i = h.sh i) ∧
        (∀ i ∈ lo, i ∈ lo) := by
      intro j l hjm hsj hl
      subst hl
      have hsh : (incRc (decAll h1 (x :: rest)) (.inner j)).sh = h.sh := by
        rw [sh_incRc, sh_decAll, hs1]
      refine ⟨hsh ▸ hj, Or.inr ⟨hnr, j, hjm, rfl, by rw [hsh]; exact hsj⟩,
        ⟨fun _ => 0, fun i => rfl, ?_⟩, fun i _ => by rw [hsh], fun i hi => hi⟩
      have hr2 : RCx w (decAll h1 (x :: rest)) := RCx.decAll (x :: rest) hr1
      have := hr2.incRc (.inner j) (fun i hi => by
        injection hi with hi; subst hi
        intro hn
        have : (decAll h1 (x :: rest)).sh j = none := sh_eq_none.mpr hn
        rw [sh_decAll, hs1, hsj] at this; cases this)
      exact this.congr (fun i => by rcarith)
    cases hlo : lookup h1 old (x :: rest) with
    | some j =>
      simp only
      obtain ⟨hjo, l, hsj⟩ := lookup_some hlo
      rw [hs1] at hsj
      have := hj.old_bel hp hjo hsj hx
      exact ⟨_, _, _, rfl, hfound j l this.1 hsj this.2⟩
    | none =>
      simp only
      cases hll : lookup h1 lo (x :: rest) with
      | some j =>
        simp only
        obtain ⟨hjl, l, hsj⟩ := lookup_some hll
        rw [hs1] at hsj
        obtain ⟨xs', h1', _⟩ := hj.loC j hjl
        have hl : l = a := by rw [hsj] at h1'; cases h1'; rfl
        exact ⟨_, _, _, rfl, hfound j l (Or.inl hjl) hsj hl⟩
      | none =>
        simp only
        have hfree : h.sh (al h1) = none := by
          rw [← hs1]; exact sh_eq_none.mpr (hal h1)
        have hno : ∀ m, (m ∈ old ∨ m ∈ lo) → ∀ l, h.sh m ≠ some ⟨l, x :: rest⟩ := by
          intro m hm l
          rw [← hs1]
          rcases hm with hm | hm
          · exact lookup_none hlo m hm l
          · exact lookup_none hll m hm l
        have hsh : (h1.put (al h1) (some ⟨a, x :: rest, 2⟩)).sh =
            upd h.sh (al h1) (some ⟨a, x :: rest⟩) := by
          rw [sh_put_upd, hs1]; rfl
        refine ⟨_, _, _, rfl, ?_, ?_, ⟨fun i => if i = al h1 then 1 else 0, ?_, ?_⟩, ?_, ?_⟩
        · rw [hsh]; exact hj.alloc hp hfree hnr hlen hx hno
        · exact Or.inr ⟨hnr, al h1, Or.inl (by simp), rfl, by rw [hsh]; simp⟩
        · intro i
          rw [List.count_cons]
          by_cases hi : i = al h1
          · subst hi; simp
          · have : ¬ (al h1 = i) := fun h' => hi h'.symm
            simp [hi, this]
        · intro i
          have h1i := hr1 i
          simp only [] at h1i
          have hrf := refs_put' h1 (al h1) i (some ⟨a, x :: rest, 2⟩)
          rw [sh_eq_none.mpr (hal h1)] at hrf
          simp only [cntS_none, Option.map, SNode.toNode, cntS_some] at hrf
          rw [rcOf_put]
          by_cases hi : i = al h1
          · subst hi
            rw [rcOf_of_none (hal h1)] at h1i
            simp only [if_true, pt_self]
            omega
          · simp only [hi, if_false, pt_ne hi]
            omega
        · intro i hi
          rw [hsh, upd_ne]
          rintro rfl; exact hi hfree
        · intro i hi; simp [hi]

/-- all new children: the columns in order -/
theorem mkChildren_spec {al : Heap T → Nat} (hal : ∀ h : Heap T, h.get? (al h) = none)
    (hp : Pre a b P sh0 k old) {up todo : List Nat} (cols : List (List (Edge T)))
    (hc : ∀ xs ∈ cols, xs.length = k ∧ ∀ x ∈ xs, Bel a b P sh0 x)
    {h : Heap T} {lo : List Nat} (hj : J a b P sh0 k old ext h.sh up lo todo)
    {w : Nat → Nat} (hr : RCx w h) :
    ∃ h' lo' cs, mkChildren al a old (h, lo) cols = ((h', lo'), cs) ∧
      J a b P sh0 k old ext h'.sh up lo' todo ∧ cs.length = cols.length ∧
      (∀ (q : Nat) c xs, cs[q]? = some c → cols[q]? = some xs → MkR a h'.sh lo' todo xs c) ∧
      (∃ d : Nat → Nat, (∀ i, lo'.count i = lo.count i + d i) ∧
        RCx (fun i => w i + pts cs i + d i) h') ∧
      (∀ i, h.sh i ≠ none → h'.sh i = h.sh i) ∧ (∀ i ∈ lo, i ∈ lo') := by
  induction cols generalizing h lo w with
  | nil =>
    exact ⟨h, lo, [], rfl, hj, rfl, fun q c xs hc _ => by simp at hc,
      ⟨fun _ => 0, fun _ => rfl, hr.congr (fun i => by simp [pts])⟩, fun _ _ => rfl, fun _ h => h⟩
  | cons xs rest ih =>
    have hxs := hc xs (by simp)
    obtain ⟨h0, lo0, c, e0, J0, M0, ⟨d0, hd0, RC0⟩, live0, sub0⟩ :=
      mkChild_spec hal hp hj hr hxs.1 hxs.2
    obtain ⟨h1, lo1, cs, e1, J1, len1, M1, ⟨d1, hd1, RC1⟩, live1, sub1⟩ :=
      ih (fun ys hys => hc ys (by simp [hys])) J0 RC0
    refine ⟨h1, lo1, c :: cs, ?_, J1, by simp [len1], ?_, ⟨fun i => d0 i + d1 i, ?_, ?_⟩, ?_, ?_⟩
    · simp only [mkChildren, e0, e1]
    · intro q c' xs' hq hx'
      cases q with
      | zero =>
        simp only [List.getElem?_cons_zero, Option.some.injEq] at hq hx'
        subst hq; subst hx'
        exact M0.mono (fun j hj' hs => ⟨by rcases hj' with h | h; exact Or.inl (sub1 j h); exact Or.inr h,
          live1 j (by simp [hs])⟩)
      | succ q =>
        simp only [List.getElem?_cons_succ] at hq hx'
        exact M1 q c' xs' hq hx'
    · intro i; have := hd0 i; have := hd1 i; simp only []; omega
    · exact RC1.congr (fun i => by simp only [pts_cons]; omega)
    · intro i hi
      rw [live1 i (by rw [live0 i hi]; exact hi), live0 i hi]
    · intro i hi; exact sub1 i (sub0 i hi)

end

section
variable {a b : Nat} {P : Nat → Prop} {sh0 : Nat → Option (Node T)} {k : Nat} {old : List Nat}
  {ext : Nat → Nat}

/-- weight of a slot during the loop: its entries in the two new tables + the rest
(`old_upper`, tables of other levels, external handles) -/
def wOf (R : Nat → Nat) (up lo : List Nat) : Nat → Nat := fun i => up.count i + lo.count i + R i

omit [DecidableEq T] in
/-- a child of an unvisited node is seen by the loop as it was at entry -/
theorem J.child_facts {sh : Nat → Option (Node T)} {up lo todo : List Nat}
    (hp : Pre a b P sh0 k old) (hj : J a b P sh0 k old ext sh up lo todo) {i : Nat} {n : Node T}
    (hi : i ∈ todo) (hn : sh0 i = some n) {c : Edge T} (hc : c ∈ n.ch) :
    (Bel a b P sh0 c ∨ AtB b sh0 c) ∧ (∀ j, c = .inner j → sh j = sh0 j) ∧
    (AtB b sh0 c → ∃ j, c = .inner j ∧ j ∈ up ∧ SurvL b sh0 sh j) := by
  obtain ⟨n', _, hn', hla⟩ := hj.todo_live hp hi
  rw [hn] at hn'; cases hn'
  have hba : Bel a b P sh0 c ∨ AtB b sh0 c := hp.upKids i n hn hla c hc
  have hat : AtB b sh0 c → ∃ j, c = .inner j ∧ j ∈ up ∧ SurvL b sh0 sh j := by
    rintro ⟨j, m, rfl, hm, hl⟩
    have hju : j ∈ up := by
      apply Classical.byContradiction
      intro hju
      exact (hj.dead j m hm hl hju).2 i n hn (Or.inr hi) hc
    refine ⟨j, rfl, hju, ?_⟩
    rcases hj.upC j hju with h | ⟨g1, _⟩
    · exact h
    · obtain ⟨m', hm', hl'⟩ := (hp.old_iff j).mp g1
      rw [hm] at hm'; cases hm'; exact absurd (hl'.symm.trans hl) hp.ab
  refine ⟨hba, ?_, hat⟩
  intro j hcj
  rcases hba with hb | hb
  · subst hcj
    obtain ⟨m, hm, h1, h2, _⟩ := hb
    rw [hj.frame j m hm h1 h2, hm]
  · obtain ⟨j', hj', _, m, hm, _, hs⟩ := hat hb
    rw [hcj] at hj'; injection hj' with hj'; subst hj'
    rw [hs, hm]

omit [DecidableEq T] in
theorem lvlIs_of_child {h : Heap T} {c : Edge T} (hs : ∀ j, c = .inner j → h.sh j = sh0 j)
    (hba : Bel a b P sh0 c ∨ AtB b sh0 c) : lvlIs h b c = true ↔ AtB b sh0 c := by
  rw [lvlIs_eq]
  cases c with
  | term v =>
    simp only [Bool.false_eq_true, false_iff]
    rintro ⟨j, m, hc, _⟩; cases hc
  | inner j =>
    simp only [hs j rfl]
    rcases hba with ⟨m, hm, h1, h2, _⟩ | ⟨j', m, hc, hm, hl⟩
    · simp only [hm, beq_iff_eq]
      constructor
      · intro h; exact absurd h h2
      · rintro ⟨j', m', hc, hm', hl⟩
        injection hc with hc; subst hc; rw [hm] at hm'; cases hm'; exact hl
    · injection hc with hc; subst hc
      simp only [hm, beq_iff_eq, hl, true_iff]
      exact ⟨j, m, rfl, hm, hl⟩

omit [DecidableEq T] in
theorem cofE_of_child {h : Heap T} {c : Edge T} (hs : ∀ j, c = .inner j → h.sh j = sh0 j)
    (q : Nat) : cofE h b c q = cof0 b sh0 c q := by
  rw [cofE_eq]
  cases c with
  | term v => rfl
  | inner j => simp only [cof0, hs j rfl]

theorem upd_upd {α : Type} (f : Nat → α) (i : Nat) (v v' : α) :
    upd (upd f i v) i v' = upd f i v' := by
  funext j; simp only [upd]; split <;> rfl

theorem count_erase_add {l : List Nat} {j : Nat} (hj : j ∈ l) (i : Nat) :
    l.count i = (l.erase j).count i + (if i = j then 1 else 0) := by
  by_cases hk : i = j
  · subst hk
    have : 0 < l.count i := List.count_pos_iff.mpr hj
    rw [List.count_erase_self]; simp; omega
  · rw [List.count_erase_of_ne hk]; simp [hk]

omit [DecidableEq T] in
theorem SurvL.congr {sh sh' : Nat → Option (Node T)} {i : Nat} (h : SurvL b sh0 sh i)
    (he : sh' i = sh i) : SurvL b sh0 sh' i := by
  obtain ⟨n, h1, h2, h3⟩ := h
  exact ⟨n, h1, h2, he ▸ h3⟩

/-- what the orphan check may be applied to: an edge below, a surviving node of the old lower
level that is in the new upper table, or a slot that has already been freed -/
def OrphOK (a b : Nat) (P : Nat → Prop) (sh0 sh : Nat → Option (Node T)) (up : List Nat)
    (c : Edge T) : Prop :=
  Bel a b P sh0 c ∨ ∃ j, c = .inner j ∧ ((j ∈ up ∧ SurvL b sh0 sh j) ∨ sh j = none)

/-- the orphan check for one old child `c` of the node just rewritten -/
theorem orphan_spec (hp : Pre a b P sh0 k old) {R : Nat → Nat} (hR : ∀ i, ext i ≤ R i)
    {h : Heap T} {up lo todo : List Nat} (hj : J a b P sh0 k old ext h.sh up lo todo)
    (hr : RCx (wOf R up lo) h) {c : Edge T} (hc : OrphOK a b P sh0 h.sh up c) :
    ∃ h' up', orphan b (h, up) c = (h', up') ∧ J a b P sh0 k old ext h'.sh up' lo todo ∧
      RCx (wOf R up' lo) h' ∧ (∀ i ∈ up', i ∈ up ∧ h'.sh i = h.sh i) ∧
      (∀ i ∈ up, i ∉ up' → c = .inner i ∧ h'.sh i = none) ∧
      (∀ i, h.sh i = none → h'.sh i = none) := by
  have hkeep : ∃ h' up', (h, up) = (h', up') ∧ J a b P sh0 k old ext h'.sh up' lo todo ∧
      RCx (wOf R up' lo) h' ∧ (∀ i ∈ up', i ∈ up ∧ h'.sh i = h.sh i) ∧
      (∀ i ∈ up, i ∉ up' → c = .inner i ∧ h'.sh i = none) ∧
      (∀ i, h.sh i = none → h'.sh i = none) :=
    ⟨h, up, rfl, hj, hr, fun i hi => ⟨hi, rfl⟩, fun i hi hi' => absurd hi hi', fun _ h => h⟩
  unfold orphan
  cases c with
  | term v => exact hkeep
  | inner j =>
    simp only
    cases hm : h.get? j with
    | none => exact hkeep
    | some m =>
      simp only
      have hsj : h.sh j = some m.toNode := sh_of_get? hm
      by_cases hcond : m.level = b ∧ m.rc = 1
      · rw [if_pos hcond]
        rcases hc with ⟨n', hn', h1, h2, _⟩ | ⟨j', hj', ⟨hju, hsv⟩ | hfr⟩
        · exfalso
          have := hj.frame j n' hn' h1 h2
          rw [hsj] at this; cases this
          exact h2 hcond.1
        · injection hj' with hj'; subst hj'
          -- the lookup finds `j` itself
          have hlk : lookup h up m.ch = some j := by
            cases hl : lookup h up m.ch with
            | none => exact absurd hsj (lookup_none hl j hju m.level)
            | some j' =>
              obtain ⟨h1, l, h2⟩ := lookup_some hl
              rw [hj.up_unique hp h1 hju h2 hsj]
          unfold tblRemove
          rw [hlk]; simp only
          have hrj := hr j
          rw [rcOf_of_get? hm, hcond.2] at hrj
          simp only [wOf] at hrj
          have hcnt : 0 < up.count j := List.count_pos_iff.mpr hju
          have hz : h.refs j = 0 := by omega
          have hRj : R j = 0 := by omega
          have hext : ext j = 0 := by have := hR j; omega
          have hsh : (dropTableEdge h j).sh = upd h.sh j none := sh_dropTableEdge_free hm hcond.2
          refine ⟨_, _, rfl, ?_, ?_, ?_, ?_, ?_⟩
          · rw [hsh]
            exact hj.remove hp hju hsv hext (fun p m' hm' => no_child_of_refs_zero hz hm')
          · apply RCx_dropTableEdge _ hm
            refine hr.congr (fun i => ?_)
            have := count_erase_add hju i
            simp only [wOf, pt]
            by_cases hi : i = j
            · subst hi; simp only [if_true] at this ⊢; omega
            · have hne : ¬ (j = i) := fun h' => hi h'.symm
              simp only [hi, hne, if_false] at this ⊢; omega
          · intro i hi
            have := hj.ndUp.mem_erase_iff.mp hi
            exact ⟨this.2, by rw [hsh, upd_ne _ _ this.1]⟩
          · intro i hi hi'
            by_cases hij : i = j
            · rw [hij, hsh]; exact ⟨rfl, upd_same _ _ _⟩
            · exact absurd (hj.ndUp.mem_erase_iff.mpr ⟨hij, hi⟩) hi'
          · intro i hi
            rw [hsh]
            by_cases hij : i = j
            · rw [hij]; exact upd_same _ _ _
            · rw [upd_ne _ _ hij]; exact hi
        · injection hj' with hj'; subst hj'
          rw [hsj] at hfr; cases hfr
      · rw [if_neg hcond]; exact hkeep

/-- reference counters around the orphan check: the entries that stay in the new upper table
keep their counter, and an old child that stays had a counter different from 1 (it is still
referenced) -/
theorem orphan_rc (hp : Pre a b P sh0 k old)
    {h : Heap T} {up lo todo : List Nat} (hj : J a b P sh0 k old ext h.sh up lo todo) {c : Edge T}
    (hc : OrphOK a b P sh0 h.sh up c)
    {h' : Heap T} {up' : List Nat} (he : orphan b (h, up) c = (h', up')) :
    (∀ i ∈ up', h'.rcOf i = h.rcOf i) ∧
    (∀ i, c = .inner i → i ∈ up' → (∃ mi, h.sh i = some mi ∧ mi.level = b) → h.rcOf i ≠ 1) := by
  unfold orphan at he
  cases c with
  | term v =>
    cases he
    exact ⟨fun _ _ => rfl, fun i hi => by cases hi⟩
  | inner j =>
    simp only at he
    cases hm : h.get? j with
    | none =>
      rw [hm] at he; cases he
      refine ⟨fun _ _ => rfl, fun i hi _ hex => ?_⟩
      injection hi with hi; subst hi
      obtain ⟨mi, hmi, _⟩ := hex
      rw [sh_eq_none.mpr hm] at hmi; cases hmi
    | some m =>
      rw [hm] at he
      simp only at he
      have hsj : h.sh j = some m.toNode := sh_of_get? hm
      by_cases hcond : m.level = b ∧ m.rc = 1
      · rw [if_pos hcond] at he
        rcases hc with ⟨n', hn', h1, h2, _⟩ | ⟨j', hj', ⟨hju, hsv⟩ | hfr⟩
        · exfalso
          have := hj.frame j n' hn' h1 h2
          rw [hsj] at this; cases this
          exact h2 hcond.1
        · injection hj' with hj'; subst hj'
          have hlk : lookup h up m.ch = some j := by
            cases hl : lookup h up m.ch with
            | none => exact absurd hsj (lookup_none hl j hju m.level)
            | some j' =>
              obtain ⟨h1, l, h2⟩ := lookup_some hl
              rw [hj.up_unique hp h1 hju h2 hsj]
          unfold tblRemove at he
          rw [hlk] at he; simp only at he
          cases he
          have hbel := survL_bel hp hsv hsj
          refine ⟨fun i hi => ?_, fun i hi hi' _ => ?_⟩
          · have hij := hj.ndUp.mem_erase_iff.mp hi
            -- `i` is not a child of the freed node: its children are below, `i` is in the table
            have hnb : ¬ Bel a b P sh0 (.inner i) := by
              rintro ⟨ni, hni, g1, g2, _⟩
              rcases hj.upC i hij.2 with ⟨n0, f1, f2, _⟩ | ⟨f1, _⟩
              · rw [hni] at f1; cases f1; exact g2 f2
              · obtain ⟨n0, f2, f3⟩ := (hp.old_iff i).mp f1
                rw [hni] at f2; cases f2; exact g1 f3
            have hz : pts m.ch i = 0 := pts_eq_zero (fun h' => hnb (hbel _ h'))
            unfold dropTableEdge
            rw [hm]; simp only [hcond.2, if_true]
            rw [rcOf_decAll, rcOf_put, if_neg hij.1, hz]
            omega
          · injection hi with hi; subst hi
            exact absurd hi' (fun h' => (hj.ndUp.mem_erase_iff.mp h').1 rfl)
        · injection hj' with hj'; subst hj'
          rw [hsj] at hfr; cases hfr
      · rw [if_neg hcond] at he; cases he
        refine ⟨fun _ _ => rfl, fun i hi _ hex => ?_⟩
        injection hi with hi; subst hi
        obtain ⟨mi, hmi, hlv⟩ := hex
        rw [hsj] at hmi; cases hmi
        rw [rcOf_of_get? hm]
        exact fun h1 => hcond ⟨hlv, h1⟩

/-- the orphan checks for the old children `cs` (`seen`: the children checked before) -/
theorem orphans_spec (hp : Pre a b P sh0 k old) {R : Nat → Nat} (hR : ∀ i, ext i ≤ R i)
    {lo todo : List Nat} (cs : List (Edge T)) (seen : List (Edge T))
    {h : Heap T} {up : List Nat} (hj : J a b P sh0 k old ext h.sh up lo todo)
    (hr : RCx (wOf R up lo) h) (hc : ∀ c ∈ cs, OrphOK a b P sh0 h.sh up c) :
    ∃ h' up', orphans b (h, up) seen cs = (h', up') ∧ J a b P sh0 k old ext h'.sh up' lo todo ∧
      RCx (wOf R up' lo) h' ∧
      (∀ i ∈ up', i ∈ up ∧ h'.sh i = h.sh i ∧ h'.rcOf i = h.rcOf i) ∧
      (∀ i ∈ up, i ∉ up' → .inner i ∈ cs) ∧
      (∀ i, h.sh i = none → h'.sh i = none) ∧
      (∀ i, .inner i ∈ cs → .inner i ∉ seen → i ∈ up' →
        (∃ mi, h.sh i = some mi ∧ mi.level = b) → h'.rcOf i ≠ 1) := by
  induction cs generalizing seen h up with
  | nil =>
    exact ⟨h, up, rfl, hj, hr, fun i hi => ⟨hi, rfl, rfl⟩, fun i hi hi' => absurd hi hi',
      fun _ h => h, fun i hi => by simp at hi⟩
  | cons c rest ih =>
    by_cases hs : seen.contains c = true
    · obtain ⟨h2, up2, e2, J2, RC2, keep2, rem2, free2, rc2⟩ :=
        ih (seen ++ [c]) hj hr (fun c' hc' => hc c' (by simp [hc']))
      refine ⟨h2, up2, ?_, J2, RC2, keep2, fun i hi hi' => by simp [rem2 i hi hi'], free2, ?_⟩
      · simp only [orphans, hs, if_true]; exact e2
      · intro i hic hns hi2 hex
        have hsc : c ∈ seen := List.contains_iff_mem.mp hs
        have hci : c ≠ .inner i := fun h' => hns (h' ▸ hsc)
        have hir : .inner i ∈ rest := by
          rcases List.mem_cons.mp hic with h' | h'
          · exact absurd h'.symm hci
          · exact h'
        refine rc2 i hir ?_ hi2 hex
        intro h'
        rcases List.mem_append.mp h' with h' | h'
        · exact hns h'
        · exact hci (List.mem_singleton.mp h').symm
    · have hcc := hc c (by simp)
      obtain ⟨h1, up1, e1, J1, RC1, keep1, rem1, free1⟩ := orphan_spec hp hR hj hr hcc
      have rc1 := orphan_rc hp hj hcc e1
      have hc1 : ∀ c' ∈ rest, OrphOK a b P sh0 h1.sh up1 c' := by
        intro c' hc'
        rcases hc c' (by simp [hc']) with hb | ⟨j, hcj, ⟨hju, hsv⟩ | hfr⟩
        · exact Or.inl hb
        · by_cases hj1 : j ∈ up1
          · exact Or.inr ⟨j, hcj, Or.inl ⟨hj1, hsv.congr (keep1 j hj1).2⟩⟩
          · exact Or.inr ⟨j, hcj, Or.inr (rem1 j hju hj1).2⟩
        · exact Or.inr ⟨j, hcj, Or.inr (free1 j hfr)⟩
      obtain ⟨h2, up2, e2, J2, RC2, keep2, rem2, free2, rc2⟩ := ih (seen ++ [c]) J1 RC1 hc1
      refine ⟨h2, up2, ?_, J2, RC2, fun i hi => ?_, fun i hi hi' => ?_,
        fun i hi => free2 i (free1 i hi), ?_⟩
      · simp only [orphans, hs, e1]; exact e2
      · have k2 := keep2 i hi
        have k1 := keep1 i k2.1
        exact ⟨k1.1, k2.2.1.trans k1.2, k2.2.2.trans (rc1.1 i k2.1)⟩
      · by_cases hi1 : i ∈ up1
        · simp [rem2 i hi1 hi']
        · simp [(rem1 i hi hi1).1]
      · intro i hic hns hi2 hex
        have k2 := keep2 i hi2
        have hi1 := k2.1
        by_cases hci : c = .inner i
        · rw [k2.2.2, rc1.1 i hi1]
          exact rc1.2 i hci hi1 hex
        · have hir : .inner i ∈ rest := by
            rcases List.mem_cons.mp hic with h' | h'
            · exact absurd h'.symm hci
            · exact h'
          refine rc2 i hir ?_ hi2 ?_
          · intro h'
            rcases List.mem_append.mp h' with h' | h'
            · exact hns h'
            · exact hci (List.mem_singleton.mp h').symm
          · obtain ⟨mi, hmi, hlv⟩ := hex
            exact ⟨mi, by rw [(keep1 i hi1).2]; exact hmi, hlv⟩

/-- the loop invariant: shapes (`J`) and reference counts -/
structure LInv (a b : Nat) (P : Nat → Prop) (sh0 : Nat → Option (Node T)) (k : Nat) (old : List Nat)
    (ext : Nat → Nat) (R : Nat → Nat) (st : LS T) (todo : List Nat) : Prop where
  j : J a b P sh0 k old ext st.h.sh st.up st.lo todo
  rc : RCx (wOf R st.up st.lo) st.h

theorem stepNode_move (hp : Pre a b P sh0 k old) {R : Nat → Nat} {st : LS T}
    {i : Nat} {todo : List Nat} (hinv : LInv a b P sh0 k old ext R st (i :: todo))
    {m : SNode T} (hm : st.h.get? i = some m) (hn : sh0 i = some m.toNode)
    (hb : ∀ c ∈ m.ch, Bel a b P sh0 c) :
    LInv a b P sh0 k old ext R
      (let r := tblInsert (incRc st.h (.inner i)) st.lo i; { st with h := r.1, lo := r.2 }) todo := by
  have hj := hinv.j
  have hsi : st.h.sh i = some m.toNode := sh_of_get? hm
  have hfresh : tblInsert (incRc st.h (.inner i)) st.lo i = (incRc st.h (.inner i), i :: st.lo) := by
    apply tblInsert_fresh (l := m.level) (cs := m.ch)
    · rw [sh_incRc]; exact hsi
    · intro j hjl l' hs
      rw [sh_incRc] at hs
      obtain ⟨xs, h1, _⟩ := hj.loC j hjl
      rw [hs] at h1; injection h1 with h1; injection h1 with e1 e2
      obtain ⟨n', h2, _, h3⟩ := hj.todo_live hp (show i ∈ i :: todo by simp)
      rw [hsi] at h2; cases h2
      refine hj.loT j hjl i (by simp) ?_
      rw [hs, hsi, e1, ← h3]; rfl
  simp only [hfresh]
  refine ⟨?_, ?_⟩
  · show J a b P sh0 k old ext (incRc st.h (.inner i)).sh st.up (i :: st.lo) todo
    rw [sh_incRc]
    exact hj.move hp hn hb
  · show RCx (wOf R st.up (i :: st.lo)) (incRc st.h (.inner i))
    have := hinv.rc.incRc (.inner i) (fun j hj' => by injection hj' with hj'; subst hj'; rw [hm]; simp)
    refine this.congr (fun j => ?_)
    simp only [wOf, List.count_cons, pt]
    by_cases hji : j = i
    · subst hji; simp; omega
    · have h2 : ¬ (i = j) := fun h' => hji h'.symm
      simp [h2]

/-- the loop state after rewriting entry `i` (`cols`: the columns of the grand-cofactor matrix) -/
def rewriteLS (al : Heap T → Nat) (a b : Nat) (old : List Nat) (st : LS T) (i : Nat) (m : SNode T)
    (cols : List (List (Edge T))) : LS T :=
  let r1 := mkChildren al a old (st.h, st.lo) cols
  let h3 := setChildren r1.1.1 i r1.2
  let h4 := setLevel h3 i b
  let r5 := tblInsert (incRc h4 (.inner i)) st.up i
  let r7 := orphans b r5 [] m.ch
  { h := r7.1, up := r7.2, lo := r1.1.2 }

/-- the columns of the matrix in the entry shape -/
def cols0 (b : Nat) (sh0 : Nat → Option (Node T)) (k : Nat) (ch : List (Edge T)) :
    List (List (Edge T)) :=
  (List.range k).map fun q => col0 b sh0 ch q

omit [DecidableEq T] in
theorem cols0_getElem? (b : Nat) (sh0 : Nat → Option (Node T)) {k q : Nat} (ch : List (Edge T))
    (hq : q < k) : (cols0 b sh0 k ch)[q]? = some (col0 b sh0 ch q) := by
  unfold cols0
  rw [List.getElem?_map, List.getElem?_range hq]; rfl

omit [DecidableEq T] in
theorem cols0_length (b : Nat) (sh0 : Nat → Option (Node T)) (k : Nat) (ch : List (Edge T)) :
    (cols0 b sh0 k ch).length = k := by
  simp [cols0]

theorem stepNode_rewrite_full {al : Heap T → Nat} (hal : ∀ h : Heap T, h.get? (al h) = none)
    (hp : Pre a b P sh0 k old) {R : Nat → Nat} (hR : ∀ i, ext i ≤ R i) {st : LS T}
    {i : Nat} {todo : List Nat} (hinv : LInv a b P sh0 k old ext R st (i :: todo))
    {m : SNode T} (hm : st.h.get? i = some m) (hn : sh0 i = some m.toNode)
    (hnb : ¬ (∀ c ∈ m.ch, Bel a b P sh0 c)) :
    LInv a b P sh0 k old ext R (rewriteLS al a b old st i m (cols0 b sh0 k m.ch)) todo ∧
    (∀ j ∈ (rewriteLS al a b old st i m (cols0 b sh0 k m.ch)).up, j = i ∨ j ∈ st.up) ∧
    (∀ j, .inner j ∈ m.ch →
      j ∈ (rewriteLS al a b old st i m (cols0 b sh0 k m.ch)).up →
      (∃ mj, sh0 j = some mj ∧ mj.level = b) →
      (rewriteLS al a b old st i m (cols0 b sh0 k m.ch)).h.rcOf j ≠ 1) ∧
    (∀ j ∈ st.up, j ∉ (rewriteLS al a b old st i m (cols0 b sh0 k m.ch)).up →
      .inner j ∈ m.ch) := by
  unfold rewriteLS
  have hj := hinv.j
  have hit : i ∈ i :: todo := by simp
  obtain ⟨n', hsi, hn', hla⟩ := hj.todo_live hp hit
  rw [hn] at hn'; cases hn'
  have hla : m.level = a := hla
  have harity : m.ch.length = k := hp.arity i _ hn
  have hcf : ∀ c ∈ m.ch, (Bel a b P sh0 c ∨ AtB b sh0 c) ∧ (∀ j, c = .inner j → st.h.sh j = sh0 j) ∧
      (AtB b sh0 c → ∃ j, c = .inner j ∧ j ∈ st.up ∧ SurvL b sh0 st.h.sh j) :=
    fun c hc => hj.child_facts hp hit hn (c := c) hc
  have hiu : i ∉ st.up := fun h => hj.dUT i h hit
  have hcols : ∀ xs ∈ cols0 b sh0 k m.ch, xs.length = k ∧ ∀ x ∈ xs, Bel a b P sh0 x := by
    intro xs hxs
    obtain ⟨q, hq, rfl⟩ := List.mem_map.mp hxs
    have hq := List.mem_range.mp hq
    exact ⟨by rw [col0_length]; exact harity, bel_col0 hp hn hla hq⟩
  obtain ⟨h1', lo1, cs, e1, J1, hlen1, M1, ⟨d1, hd1, RC1⟩, live1, sub1⟩ :=
    mkChildren_spec hal hp (cols0 b sh0 k m.ch) hcols hj hinv.rc
  simp only [e1]
  have hcslen : cs.length = k := by rw [hlen1, cols0_length]
  have hM : ∀ q c, cs[q]? = some c →
      MkR a h1'.sh lo1 (i :: todo) (col0 b sh0 m.toNode.ch q) c := by
    intro q c hqc
    have hq : q < k := hcslen ▸ lt_of_getElem?_eq_some hqc
    exact M1 q c _ hqc (cols0_getElem? b sh0 m.ch hq)
  have hsi1 : h1'.sh i = some ⟨a, m.ch⟩ := by
    rw [live1 i (by simp [hsi]), hsi, ← hla]; rfl
  -- set_child for all children
  have sh3 := sh_setChildren hsi1 cs
  have RC3 : RCx (fun j => wOf R st.up st.lo j + d1 j) (setChildren h1' i cs) :=
    RCx_setChildren cs (RC1.congr (fun j => by rcarith)) hsi1
  have hsi3 : (setChildren h1' i cs).sh i = some ⟨a, cs⟩ := by rw [sh3]; simp
  -- set_level
  have sh4 := sh_setLevel hsi3 b
  have RC4 := RCx_setLevel i b RC3
  rw [sh3, upd_upd] at sh4
  generalize hh4 : setLevel (setChildren h1' i cs) i b = h4 at sh4 RC4
  -- insert into the new upper table
  have hfresh : tblInsert (incRc h4 (.inner i)) st.up i = (incRc h4 (.inner i), i :: st.up) := by
    apply tblInsert_fresh (l := b) (cs := cs)
    · rw [sh_incRc, sh4]; simp
    · intro j hjm l' hs
      have hji : j ≠ i := fun h => hiu (h ▸ hjm)
      rw [sh_incRc, sh4, upd_ne _ _ hji] at hs
      exact hji (J1.rew_vs_up hp hn hla hcslen hM hjm hs)
  simp only [hfresh]
  have sh5 : (incRc h4 (.inner i)).sh = upd h1'.sh i (some ⟨b, cs⟩) := by rw [sh_incRc, sh4]
  have J5 : J a b P sh0 k old ext (incRc h4 (.inner i)).sh (i :: st.up) lo1 todo := by
    rw [sh5]; exact J1.rewrite hp hn hnb hcslen hM
  have RC5 : RCx (wOf R (i :: st.up) lo1) (incRc h4 (.inner i)) := by
    have := RC4.incRc (.inner i) (fun j hj' => by
      cases hj'
      intro hn'
      have : h4.sh i = none := sh_eq_none.mpr hn'
      rw [sh4] at this; simp at this)
    refine this.congr (fun j => ?_)
    have e1j := hd1 j
    simp only [wOf, List.count_cons, pt]
    by_cases hji : j = i
    · subst hji; simp; omega
    · have h2 : ¬ (i = j) := fun h' => hji h'.symm
      simp [h2]; omega
  generalize incRc h4 (.inner i) = h5 at sh5 J5 RC5
  -- the old children as seen after the rewrite
  have hchild : ∀ c ∈ m.ch, OrphOK a b P sh0 h5.sh (i :: st.up) c := by
    intro c hc
    obtain ⟨hba, _, hat⟩ := hcf c hc
    rcases hba with hb | hb
    · exact Or.inl hb
    · obtain ⟨j, hcj, hju, hsv⟩ := hat hb
      refine Or.inr ⟨j, hcj, Or.inl ⟨by simp [hju], hsv.congr ?_⟩⟩
      have hji : j ≠ i := fun h => hiu (h ▸ hju)
      rw [sh5, upd_ne _ _ hji]
      exact live1 j (hj.up_live hju)
  obtain ⟨h7, up7, e7, J7, RC7, keep7, rem7, free7, rc7⟩ :=
    orphans_spec hp hR m.ch [] J5 RC5 hchild
  simp only [e7]
  refine ⟨⟨J7, RC7⟩, fun j hj7 => ?_, fun j hc hj7 hex => ?_, fun j hju hj7 => ?_⟩
  · rcases List.mem_cons.mp (keep7 j hj7).1 with h | h
    · exact Or.inl h
    · exact Or.inr h
  · apply rc7 j hc (by simp) hj7
    rcases hchild _ hc with hb | ⟨j', hcj', ⟨_, n0, f1, f2, f3⟩ | hfr⟩
    · obtain ⟨nj, hnj, _, g2, _⟩ := hb
      obtain ⟨mj, hmj, hlv⟩ := hex
      rw [hnj] at hmj; cases hmj; exact absurd hlv g2
    · injection hcj' with hcj'; subst hcj'
      exact ⟨n0, f3, f2⟩
    · injection hcj' with hcj'; subst hcj'
      exact absurd ((keep7 j hj7).2.1 ▸ hfr) (J7.up_live hj7)
  · exact rem7 j (by simp [hju]) hj7

theorem stepNode_rewrite {al : Heap T → Nat} (hal : ∀ h : Heap T, h.get? (al h) = none)
    (hp : Pre a b P sh0 k old) {R : Nat → Nat} (hR : ∀ i, ext i ≤ R i) {st : LS T}
    {i : Nat} {todo : List Nat} (hinv : LInv a b P sh0 k old ext R st (i :: todo))
    {m : SNode T} (hm : st.h.get? i = some m) (hn : sh0 i = some m.toNode)
    (hnb : ¬ (∀ c ∈ m.ch, Bel a b P sh0 c)) :
    LInv a b P sh0 k old ext R (rewriteLS al a b old st i m (cols0 b sh0 k m.ch)) todo :=
  (stepNode_rewrite_full hal hp hR hinv hm hn hnb).1

/-- what the loop body does to an unvisited entry, in terms of the entry shape -/
theorem stepNode_eq (hp : Pre a b P sh0 k old) {R : Nat → Nat} {st : LS T}
    {i : Nat} {todo : List Nat} (hinv : LInv a b P sh0 k old ext R st (i :: todo))
    (al : Heap T → Nat) :
    ∃ m, st.h.get? i = some m ∧ sh0 i = some m.toNode ∧
      ((∀ c ∈ m.ch, Bel a b P sh0 c) ∧ stepNode k al a b old st i =
          (let r := tblInsert (incRc st.h (.inner i)) st.lo i; { st with h := r.1, lo := r.2 }) ∨
       ¬ (∀ c ∈ m.ch, Bel a b P sh0 c) ∧
         stepNode k al a b old st i = rewriteLS al a b old st i m (cols0 b sh0 k m.ch)) := by
  have hj := hinv.j
  have hit : i ∈ i :: todo := by simp
  obtain ⟨n, hsi, hn, hla⟩ := hj.todo_live hp hit
  obtain ⟨m, hm, hmn⟩ := sh_eq_some.mp hsi
  subst hmn
  refine ⟨m, hm, hn, ?_⟩
  have hcf : ∀ c ∈ m.ch, (Bel a b P sh0 c ∨ AtB b sh0 c) ∧ (∀ j, c = .inner j → st.h.sh j = sh0 j) ∧
      (AtB b sh0 c → ∃ j, c = .inner j ∧ j ∈ st.up ∧ SurvL b sh0 st.h.sh j) :=
    fun c hc => hj.child_facts hp hit hn (c := c) hc
  have hl : ∀ c ∈ m.ch, (lvlIs st.h b c = true ↔ AtB b sh0 c) := fun c hc =>
    lvlIs_of_child (a := a) (P := P) (hcf c hc).2.1 (hcf c hc).1
  have hcols : columns k st.h b m.ch = cols0 b sh0 k m.ch := by
    unfold columns cols0 col0
    apply List.map_congr_left; intro q _
    apply List.map_congr_left; intro c hc
    exact cofE_of_child (hcf c hc).2.1 q
  unfold stepNode
  rw [hm]; simp only
  by_cases hcond : (m.ch.all fun c => !lvlIs st.h b c) = true
  · left
    rw [if_pos hcond]
    refine ⟨fun c hc => ?_, rfl⟩
    have := List.all_eq_true.mp hcond c hc
    rcases (hcf c hc).1 with h | h
    · exact h
    · rw [(hl c hc).mpr h] at this; simp at this
  · right
    rw [if_neg hcond]
    refine ⟨fun hall => hcond (List.all_eq_true.mpr fun c hc => ?_), ?_⟩
    · have : lvlIs st.h b c = false := by
        rw [← Bool.not_eq_true, hl c hc]; exact fun h => not_bel_of_atB h (hall c hc)
      simp [this]
    · rw [hcols]; rfl

/-- **one iteration of the loop preserves the invariant** -/
theorem stepNode_spec {al : Heap T → Nat} (hal : ∀ h : Heap T, h.get? (al h) = none)
    (hp : Pre a b P sh0 k old) {R : Nat → Nat} (hR : ∀ i, ext i ≤ R i) {st : LS T}
    {i : Nat} {todo : List Nat} (hinv : LInv a b P sh0 k old ext R st (i :: todo)) :
    LInv a b P sh0 k old ext R (stepNode k al a b old st i) todo := by
  obtain ⟨m, hm, hn, h | h⟩ := stepNode_eq hp hinv al
  · rw [h.2]; exact stepNode_move hp hinv hm hn h.1
  · rw [h.2]; exact stepNode_rewrite hal hp hR hinv hm hn h.1

end
end OxiddModel.Reorder.SwapStoreN
