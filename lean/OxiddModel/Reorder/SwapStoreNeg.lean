import OxiddModel.Reorder.SwapStoreSeq

/-!
# Negative witnesses: what `level_swap` did before commit 1415cc0, and two further mutations

`stepNodeV v` is the loop body with switches (`Variant`); `Variant.fixed` is the code as it is now
(`stepNodeV_fixed : stepNodeV .fixed = stepNode`). The other variants:

* `Variant.preFix` — the code before 1415cc0: the orphan check ran **before** the parent's edges
  were replaced, with `ref_count() == 1` ("the only reference is the one from `node`"), on both
  children without de-duplication, `upper.remove` only releases the table's reference (the slot is
  not freed because the parent edge still counts); then `upper.insert(e)` — before `set_child`
  and without `set_level` —; then `set_child` + `drop_edge`. In a debug build the `drop_edge`
  trips `debug_assert!(_old_rc > 1)`; in a release build the counter silently reaches 0 and the
  slot stays allocated outside every unique table. (What the list model of a table cannot show is
  the stale hash of the entry inserted before `set_child`; `noReinsert` models its effect.)
* `Variant.noReinsert` — the rewritten node is not findable in the new upper table (the effect of
  inserting it under the hash of its *old* children): it is missing from the level view.
* `Variant.noOldLookup` — a new node is looked up in the new lower table only, not in
  `old_upper` first.

For each of them a concrete small store satisfying `Inv` is given on which the invariant
(and for `noReinsert` also the denotation theorem) fails.
-/
namespace OxiddModel.Reorder.SwapStore
open OxiddModel.Bdd OxiddModel.Bdd.BDD OxiddModel.Bdd.Refine OxiddModel.Reorder

structure Variant where
  /-- pre-fix orphan handling (before `set_child`, `ref_count() == 1`, no de-duplication) and
  pre-fix position of the insertion into the new upper table (before `set_child`, no `set_level`) -/
  preFix : Bool
  /-- insert the rewritten node into the new upper table -/
  reinsert : Bool
  /-- look a new node up in `old_upper` before `get_or_insert` into the new lower table -/
  oldLookup : Bool
deriving DecidableEq, Repr

def Variant.fixed : Variant := ⟨false, true, true⟩
def Variant.preFixV : Variant := ⟨true, true, true⟩
def Variant.noReinsert : Variant := ⟨false, false, true⟩
def Variant.noOldLookup : Variant := ⟨false, true, false⟩

def mkChildV (v : Variant) (al : Heap → Nat) (upPre : Nat) (old : List Nat) (st : Heap × List Nat)
    (a b : Edge) : (Heap × List Nat) × Edge :=
  let h1 := incRc (incRc st.1 a) b
  if a = b then ((decRc h1 b, st.2), a)
  else
    match (if v.oldLookup then lookup h1 old a b else none) with
    | some j => ((incRc (decRc (decRc h1 a) b) (.inner j), st.2), .inner j)
    | none =>
      match lookup h1 st.2 a b with
      | some j => ((incRc (decRc (decRc h1 a) b) (.inner j), st.2), .inner j)
      | none =>
        let j := al h1
        ((h1.put j (some ⟨upPre, a, b, 2⟩), j :: st.2), .inner j)

/-- the orphan check with the counter value `thr` that triggers the removal
(`ref_count() == thr - 1`) -/
def orphanT (thr lowPre : Nat) (st : Heap × List Nat) (c : Edge) : Heap × List Nat :=
  match c with
  | .inner j =>
    match st.1.get? j with
    | some m => if m.level = lowPre ∧ m.rc = thr then tblRemove st.1 st.2 m.t m.e else st
    | none => st
  | .term _ => st

def stepNodeV (v : Variant) (al : Heap → Nat) (upPre lowPre : Nat) (old : List Nat) (st : LS)
    (i : Nat) : LS :=
  match st.h.get? i with
  | none => st
  | some n =>
    if !lvlIs st.h lowPre n.t && !lvlIs st.h lowPre n.e then
      let r := tblInsert (incRc st.h (.inner i)) st.lo i
      { st with h := r.1, lo := r.2 }
    else
      let gt := cofE st.h lowPre n.t
      let ge := cofE st.h lowPre n.e
      let r0 := mkChildV v al upPre old (st.h, st.lo) gt.1 ge.1
      let r1 := mkChildV v al upPre old r0.1 gt.2 ge.2
      if v.preFix then
        -- before 1415cc0
        let q0 := orphanT 2 lowPre (r1.1.1, st.up) n.t
        let q1 := orphanT 2 lowPre q0 n.e
        let q2 := tblInsert (incRc q1.1 (.inner i)) q1.2 i
        let h3 := setChildT q2.1 i r0.2
        let h4 := setChildE h3 i r1.2
        { h := h4, up := q2.2, lo := r1.1.2 }
      else
        let h2 := setChildT r1.1.1 i r0.2
        let h3 := setChildE h2 i r1.2
        let h4 := setLevel h3 i lowPre
        let r5 := if v.reinsert then tblInsert (incRc h4 (.inner i)) st.up i else (h4, st.up)
        let r6 := orphanT 1 lowPre r5 n.t
        let r7 := if n.e = n.t then r6 else orphanT 1 lowPre r6 n.e
        { h := r7.1, up := r7.2, lo := r1.1.2 }

theorem mkChildV_fixed : mkChildV .fixed = mkChild := rfl
theorem orphanT_one : orphanT 1 = orphan := rfl

/-- the switches in their `fixed` position give the verified loop body -/
theorem stepNodeV_fixed : stepNodeV .fixed = stepNode := rfl

def levelDownV (v : Variant) (al : Heap → Nat) (ord : List Nat → List Nat) (s : SStore) (u : Nat) :
    SStore :=
  if u + 1 < s.tables.length then
    let old := s.table u
    let r := (ord old).foldl (stepNodeV v al u (u + 1) old) ⟨s.h, s.table (u + 1), []⟩
    let h0 := dropOld r.h old
    let h1 := updateLevelNo h0 r.up u
    let h2 := updateLevelNo h1 r.lo (u + 1)
    { h := h2, tables := (s.tables.set u r.up).set (u + 1) r.lo }
  else s

theorem levelDownV_fixed : levelDownV .fixed = levelDownS := rfl

/-! ## the witnesses -/

/-- `x0 ∧ x1` over three levels, one external handle (slot 1) -/
def sAnd : SStore :=
  ⟨⟨[some ⟨1, .term true, .term false, 2⟩, some ⟨0, .inner 0, .term false, 2⟩]⟩, [[1], [0], []]⟩

theorem sAnd_inv : Inv (extOf [0, 1]) sAnd := checkInv_sound (by decide)

/-- the code as it is now is fine on this store (and by `levelDownS_inv` on every store) -/
example : checkInv [0, 1] (levelDownV .fixed Heap.firstFree id sAnd 0) = true := by decide

/-- **before 1415cc0** (release build): the orphaned child keeps its slot with counter 0 outside
every table, next to the new node with the same level and children — the invariant fails
(duplicate, table partition, reference count). -/
theorem preFix_breaks_inv : ¬ Inv (extOf [0, 1]) (levelDownV .preFixV Heap.firstFree id sAnd 0) := by
  intro h
  have := h.uniq 0 2 ⟨1, .term true, .term false⟩ (by decide) (by decide)
  omega

/-- the same run, the reference-count clause: slot 0 is live with counter 0 -/
theorem preFix_rc_zero :
    (levelDownV .preFixV Heap.firstFree id sAnd 0).h.get? 0 =
      some ⟨1, .term true, .term false, 0⟩ := by decide

/-- **rewritten node not in the new upper table**: the level view of level 0 is empty although
slot 1 is live, and slot 1 keeps the level number 1 — the invariant fails -/
theorem noReinsert_breaks_inv :
    ¬ Inv (extOf [0, 1]) (levelDownV .noReinsert Heap.firstFree id sAnd 0) := by
  intro h
  have := (h.tbl_iff 1 1).mpr ⟨⟨1, .inner 2, .term false⟩, by decide, rfl⟩
  revert this; decide

/-- … and so does the denotation theorem: the handle (slot 1) should denote
`swapTree 0 (x0 ∧ x1)` = `node 0 (node 1 ⊤ ⊥) ⊥`, but it denotes a diagram with level 1 twice -/
theorem noReinsert_breaks_denotes :
    Denotes sAnd.h.abs (.inner 1) (.node 0 (.node 1 (.leaf true) (.leaf false)) (.leaf false)) ∧
    ¬ Denotes (levelDownV .noReinsert Heap.firstFree id sAnd 0).h.abs (.inner 1)
      (swapTree 0 (.node 0 (.node 1 (.leaf true) (.leaf false)) (.leaf false))) := by
  constructor
  · exact .inner (l := 0) (t := .inner 0) (e := .term false) (by decide)
      (.inner (l := 1) (t := .term true) (e := .term false) (by decide) .term .term) .term
  · intro h
    cases h with
    | inner hi _ _ =>
      have h1 : (levelDownV .noReinsert Heap.firstFree id sAnd 0).h.abs.get? 1 =
          some ⟨1, .inner 2, .term false⟩ := by decide
      rw [h1] at hi
      injection hi with hi
      injection hi with hl
      exact absurd hl (by decide)

/-- a store where a node of the old upper level that only moves has the same children as a node
that the rewriting of an *earlier* entry creates. Slots: 0 = `x2` (level 2), 1 = `x1 ∧ x2`
(level 1), 2 = `x0 ? (x1 ∧ x2) : x2` (level 0; it is rewritten, its new else-child is
`reduce(⊥, x2)`), 3 = `¬x0 ∧ x2` = `(0, ⊥, x2)` (level 0; it only moves). External handles on
0, 2, 3. Iteration order: 2 before 3. -/
def sDup : SStore :=
  ⟨⟨[some ⟨2, .term true, .term false, 5⟩, some ⟨1, .inner 0, .term false, 2⟩,
     some ⟨0, .inner 1, .inner 0, 2⟩, some ⟨0, .term false, .inner 0, 2⟩]⟩,
   [[2, 3], [1], [0]]⟩

theorem sDup_inv : Inv (extOf [1, 0, 1, 1]) sDup := checkInv_sound (by decide)

example : checkInv [1, 0, 1, 1] (levelDownV .fixed Heap.firstFree id sDup 0) = true := by decide
example : checkInv [1, 0, 1, 1] (levelDownV .fixed Heap.firstFree List.reverse sDup 0) = true := by
  decide

/-- **new node looked up in the new lower table only**: rewriting slot 2 creates a fresh node
`(⊥, x2)` (slot 4) although the unvisited entry 3 of `old_upper` is that node; when 3 is visited,
`insert_unchecked` finds the equal fresh node, releases the edge and does not insert: slot 3 —
the one with the external handle! — ends up in no level view (so `update_level_no` never reaches
it and it keeps level number 0), a second slot holds the same function, and the reference count
of slot 3 is one short — the invariant fails. -/
theorem noOldLookup_breaks_inv :
    ¬ Inv (extOf [1, 0, 1, 1]) (levelDownV .noOldLookup Heap.firstFree id sDup 0) := by
  intro h
  have := (h.tbl_iff 0 3).mpr ⟨⟨0, .term false, .inner 0⟩, by decide, rfl⟩
  revert this; decide

/-- the same run: the handle of slot 3 and the fresh slot 4 denote the same diagram up to the
level label, i.e. after `update_level_no` there are two nodes for one function and handle
equality no longer decides function equality -/
theorem noOldLookup_duplicate :
    (levelDownV .noOldLookup Heap.firstFree id sDup 0).h.sh 3 = some ⟨0, .term false, .inner 0⟩ ∧
    (levelDownV .noOldLookup Heap.firstFree id sDup 0).h.sh 4 = some ⟨1, .term false, .inner 0⟩ ∧
    (levelDownV .noOldLookup Heap.firstFree id sDup 0).table 1 = [4] ∧
    (levelDownV .noOldLookup Heap.firstFree id sDup 0).h.rcOf 3 = 1 := by decide

end OxiddModel.Reorder.SwapStore
