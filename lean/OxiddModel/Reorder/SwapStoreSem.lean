import OxiddModel.Reorder.SwapStoreFinal

/-!
# `level_down` on the store refines `swapTree`

Every edge of the entry store that is still there afterwards (everything except the orphaned
nodes of the old lower level, which `level_swap` removes) denotes `swapTree u t` in the resulting
store, where `t` is what it denoted before.
-/
namespace OxiddModel.Reorder.SwapStore
open OxiddModel.Bdd OxiddModel.Bdd.BDD OxiddModel.Bdd.Refine OxiddModel.Reorder

theorem den_inner {h : Heap} {i l : Nat} {x y : Edge} {tx ty : BDD} (hs : h.sh i = some ⟨l, x, y⟩)
    (hx : Denotes h.abs x tx) (hy : Denotes h.abs y ty) :
    Denotes h.abs (.inner i) (.node l tx ty) :=
  .inner (by rw [abs_get?]; exact hs) hx hy

theorem abs_unique {h : Heap} (hu : ∀ i j n, h.sh i = some n → h.sh j = some n → i = j) :
    h.abs.Unique := by
  intro i j n hi hj
  rw [abs_get?] at hi hj
  exact hu i j n hi hj

theorem atLevel_den {h : Heap} {c : Edge} {tc : BDD} (hd : Denotes h.abs c tc) (l : Nat) :
    atLevel l tc = true ↔ ∃ k n, c = .inner k ∧ h.sh k = some n ∧ n.level = l := by
  cases hd with
  | term => simp [atLevel]
  | @inner i l' t e tt te hi ht he =>
    rw [abs_get?] at hi
    simp only [atLevel, beq_iff_eq]
    constructor
    · intro hl; exact ⟨i, _, rfl, hi, hl⟩
    · rintro ⟨k, n, hk, hn, hl⟩
      injection hk with hk; subst hk
      rw [hi] at hn; cases hn; exact hl

theorem cof_den {h : Heap} {c : Edge} {tc : BDD} (hd : Denotes h.abs c tc) (l : Nat) :
    Denotes h.abs (cof0 l h.sh c).1 (cof l tc).1 ∧ Denotes h.abs (cof0 l h.sh c).2 (cof l tc).2 := by
  cases hd with
  | term => exact ⟨.term, .term⟩
  | @inner i l' t e tt te hi ht he =>
    have hi' := hi
    rw [abs_get?] at hi'
    simp only [cof0, hi', cof]
    by_cases hl : l' = l
    · simp only [hl, if_true]; exact ⟨ht, he⟩
    · simp only [hl, if_false]; exact ⟨.inner hi ht he, .inner hi ht he⟩

section
variable {ext : Nat → Nat} {s s' : SStore} {u : Nat} {shF : Nat → Option Node} {up lo : List Nat}

/-- a diagram that lies entirely below the two levels is untouched -/
theorem SwapRes.den_below (hinv : Inv ext s) (hres : SwapRes ext s u s' shF up lo) {x : Edge} {t : BDD}
    (hd : Denotes s.h.abs x t) (hb : Bel u (u + 1) (BelowP u) s.h.sh x) :
    Denotes s'.h.abs x t := by
  induction hd with
  | term => exact .term
  | @inner i l a' b' ta tb hi _ _ iha ihb =>
    rw [abs_get?] at hi
    obtain ⟨n, hn, hn', hl⟩ := hres.bel_sh hinv hb
    rw [hi] at hn; cases hn
    have hl' : u + 1 < l := hl
    exact den_inner hn'
      (iha (hinv.bel_of_child hi (show u + 1 ≤ l by omega) (Or.inl rfl)))
      (ihb (hinv.bel_of_child hi (show u + 1 ≤ l by omega) (Or.inr rfl)))

theorem SwapRes.mkR_den (hinv : Inv ext s) (hres : SwapRes ext s u s' shF up lo) {x y c : Edge}
    {tx ty : BDD} (hm : MkR u shF lo [] x y c)
    (hx : Denotes s.h.abs x tx) (hy : Denotes s.h.abs y ty)
    (hbx : Bel u (u + 1) (BelowP u) s.h.sh x) (hby : Bel u (u + 1) (BelowP u) s.h.sh y) :
    Denotes s'.h.abs c (Bdd.mk (u + 1) tx ty) := by
  rcases hm with ⟨h1, h2⟩ | ⟨h1, j, hj, h2, h3⟩
  · subst h1 h2
    have := Denotes.functional hx hy
    subst this
    simp only [Bdd.mk, if_true]
    exact hres.den_below hinv hx hbx
  · have hne : tx ≠ ty := fun h => h1 (inj_of_unique (abs_unique hinv.uniq) _ _ _ hx (h ▸ hy))
    simp only [Bdd.mk, hne, if_false]
    subst h2
    rcases hj with hj | hj
    · obtain ⟨_, x', y', hsF, hs', _⟩ := hres.lo_sh hj
      rw [h3] at hsF; cases hsF
      exact den_inner hs' (hres.den_below hinv hx hbx) (hres.den_below hinv hy hby)
    · simp at hj

/-- **every surviving edge denotes the swapped diagram** -/
theorem SwapRes.denotes (hinv : Inv ext s) (hres : SwapRes ext s u s' shF up lo) {x : Edge} {t : BDD}
    (hd : Denotes s.h.abs x t)
    (halive : ∀ k m, x = .inner k → s.h.sh k = some m → m.level = u + 1 → k ∈ up) :
    Denotes s'.h.abs x (swapTree u t) := by
  have hp : Pre u (u + 1) (BelowP u) s.h.sh (s.table u) := hinv.pre
  have hJ := hres.j
  induction hd with
  | term => exact .term
  | @inner i l a' b' ta tb hi ha hb iha ihb =>
    rw [abs_get?] at hi
    by_cases h1 : l < u
    · -- above: the node is untouched, its children survive
      have hs' := (hres.frame_sh hinv hi (by simp only; omega) (by simp only; omega)).2.2
      have e : swapTree u (.node l ta tb) = .node l (swapTree u ta) (swapTree u tb) := by
        simp [swapTree, h1]
      rw [e]
      exact den_inner hs'
        (iha (fun k m hk hm hl => hres.alive hi h1 (Or.inl hk) hm hl))
        (ihb (fun k m hk hm hl => hres.alive hi h1 (Or.inr hk) hm hl))
    · by_cases h2 : l = u
      · subst h2
        have hio : i ∈ s.table l := (hinv.tbl_iff l i).mpr ⟨_, hi, rfl⟩
        have hk0 := hp.upKids i _ hi rfl
        rcases hJ.oldC i hio with h | h | h
        · simp at h
        · -- moved
          obtain ⟨_, x, y, hsF, hs', hx, hy, _⟩ := hres.lo_sh h
          obtain ⟨x', y', g1, _, _, _, g5, _⟩ := hJ.loC i h
          have := g5 hio
          rw [hi, hsF] at this; cases this
          have hat : atLevel (l + 1) ta = false := by
            rw [← Bool.not_eq_true, atLevel_den ha]
            exact fun hc => not_bel_of_atB hc hx
          have hbt : atLevel (l + 1) tb = false := by
            rw [← Bool.not_eq_true, atLevel_den hb]
            exact fun hc => not_bel_of_atB hc hy
          have e : swapTree l (.node l ta tb) = .node (l + 1) ta tb := by
            simp [swapTree, hat, hbt]
          rw [e]
          exact den_inner hs' (hres.den_below hinv ha hx) (hres.den_below hinv hb hy)
        · -- rewritten
          obtain ⟨_, x, y, hsF, hs'⟩ := hres.up_sh h
          rcases hJ.upC i h with ⟨n0, g1, g2, _⟩ | ⟨_, _, n0, c1, c2, g3, g4, g5, g6, g7⟩
          · rw [hi] at g1; cases g1; simp at g2
          · rw [hi] at g3; cases g3
            rw [hsF] at g5; cases g5
            have hcond : (!atLevel (l + 1) ta && !atLevel (l + 1) tb) = false := by
              rcases hk0.1 with hta | hta
              · rcases hk0.2 with htb | htb
                · exact absurd ⟨hta, htb⟩ g4
                · have := (atLevel_den hb (l + 1)).mpr htb
                  simp [this]
              · have := (atLevel_den ha (l + 1)).mpr hta
                simp [this]
            have e : swapTree l (.node l ta tb) =
                .node l (Bdd.mk (l + 1) (cof (l + 1) ta).1 (cof (l + 1) tb).1)
                  (Bdd.mk (l + 1) (cof (l + 1) ta).2 (cof (l + 1) tb).2) := by
              simp [swapTree, hcond]
            rw [e]
            have ca := cof_den ha (l + 1)
            have cb := cof_den hb (l + 1)
            have ba := bel_cof0 hp hk0.1
            have bb := bel_cof0 hp hk0.2
            exact den_inner hs'
              (hres.mkR_den hinv g6 ca.1 cb.1 ba.1 bb.1)
              (hres.mkR_den hinv g7 ca.2 cb.2 ba.2 bb.2)
      · by_cases h3 : l = u + 1
        · subst h3
          have hiu := halive i _ rfl hi rfl
          obtain ⟨_, x, y, hsF, hs'⟩ := hres.up_sh hiu
          rcases hJ.upC i hiu with ⟨n0, g1, _, g3⟩ | ⟨g1, _⟩
          · rw [hi] at g1; cases g1
            rw [hsF] at g3; cases g3
            have hk := hp.lowKids i _ hi rfl
            have e : swapTree u (.node (u + 1) ta tb) = .node u ta tb := by
              simp [swapTree]
            rw [e]
            exact den_inner hs' (hres.den_below hinv ha hk.1) (hres.den_below hinv hb hk.2)
          · obtain ⟨n0, g2, g3⟩ := (hp.old_iff i).mp g1
            rw [hi] at g2; cases g2; simp at g3
        · have e : swapTree u (.node l ta tb) = .node l ta tb := by
            have : ¬ l < u := h1
            simp [swapTree, h1, h2, h3]
          rw [e]
          exact hres.den_below hinv (den_inner hi ha hb)
            ⟨_, hi, h2, h3, by show u + 1 < l; omega⟩
end
end OxiddModel.Reorder.SwapStore
