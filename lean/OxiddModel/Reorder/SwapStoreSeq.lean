import OxiddModel.Reorder.SwapStoreSem
import OxiddModel.Reorder.SwapStoreCheck
import OxiddModel.Reorder.Properties

/-!
# `level_down` and sequences of level swaps on the store: the statements

Packaging of `SwapRes.inv` / `SwapRes.denotes` for `levelDownS`, the lift to sequences of swaps
(`swapsS`, what `set_var_order` issues), and the link to the tree-level statements of
`Swap.lean` / `Properties.lean` (`swapTree_sem`, `swapTrees_spec`, `bubbleSort_*`).
-/
namespace OxiddModel.Reorder.SwapStore
open OxiddModel.Bdd OxiddModel.Bdd.BDD OxiddModel.Bdd.Refine OxiddModel.Reorder

/-- an allocation policy: it returns a free slot -/
def AllocOK (al : Heap → Nat) : Prop := ∀ h : Heap, h.get? (al h) = none

/-- an iteration-order policy for the hash table: any permutation of the entries -/
def OrderOK (ord : List Nat → List Nat) : Prop := ∀ l, (ord l).Perm l

theorem allocOK_firstFree : AllocOK Heap.firstFree := get?_firstFree
theorem orderOK_id : OrderOK id := fun _ => List.Perm.refl _
theorem orderOK_reverse : OrderOK List.reverse := fun l => List.reverse_perm l

section
variable {ext : Nat → Nat} {s : SStore} {u : Nat} {al : Heap → Nat} {ord : List Nat → List Nat}

theorem levelDownS_len (al : Heap → Nat) (ord : List Nat → List Nat) (s : SStore) (u : Nat) :
    (levelDownS al ord s u).tables.length = s.tables.length := by
  unfold levelDownS
  split
  · simp
  · rfl

theorem levelDownS_inv (hal : AllocOK al) (hord : OrderOK ord) (hinv : Inv ext s)
    (hu : u + 1 < s.tables.length) : Inv ext (levelDownS al ord s u) := by
  obtain ⟨shF, up, lo, hres⟩ := levelDownS_res hal hord hinv hu
  exact hres.inv hinv

theorem SwapRes.table_u {s' : SStore} {shF : Nat → Option Node} {up lo : List Nat}
    (hres : SwapRes ext s u s' shF up lo) : s'.table u = up := by
  rw [hres.tables]
  have : ¬ (u = u + 1) := by omega
  simp

theorem levelDownS_denotes (hal : AllocOK al) (hord : OrderOK ord) (hinv : Inv ext s)
    (hu : u + 1 < s.tables.length) {x : Edge} {t : BDD} (hd : Denotes s.h.abs x t)
    (halive : ∀ k m, x = .inner k → s.h.sh k = some m → m.level = u + 1 →
      k ∈ (levelDownS al ord s u).table u) :
    Denotes (levelDownS al ord s u).h.abs x (swapTree u t) := by
  obtain ⟨shF, up, lo, hres⟩ := levelDownS_res hal hord hinv hu
  exact hres.denotes hinv hd (fun k m hk hm hl => hres.table_u ▸ halive k m hk hm hl)

/-- which nodes of the old lower level can disappear: only those without an external handle and
without a parent above the two levels -/
theorem levelDownS_removed (hal : AllocOK al) (hord : OrderOK ord) (hinv : Inv ext s)
    (hu : u + 1 < s.tables.length) {k : Nat} {m : Node} (hm : s.h.sh k = some m)
    (hl : m.level = u + 1) (hk : k ∉ (levelDownS al ord s u).table u) :
    ext k = 0 ∧ ∀ p n, s.h.sh p = some n → n.level ≠ u → n.level ≠ u + 1 →
      n.t ≠ .inner k ∧ n.e ≠ .inner k := by
  obtain ⟨shF, up, lo, hres⟩ := levelDownS_res hal hord hinv hu
  rw [hres.table_u] at hk
  have := hres.j.dead k m hm hl hk
  exact ⟨this.1, fun p n hn h1 h2 => this.2 p n hn (Or.inl ⟨h1, h2⟩)⟩

/-- every other slot keeps its id: slots of other levels and of the old upper level stay live -/
theorem levelDownS_live (hal : AllocOK al) (hord : OrderOK ord) (hinv : Inv ext s)
    (hu : u + 1 < s.tables.length) {k : Nat} {m : Node} (hm : s.h.sh k = some m)
    (hl : m.level ≠ u + 1) : (levelDownS al ord s u).h.sh k ≠ none := by
  obtain ⟨shF, up, lo, hres⟩ := levelDownS_res hal hord hinv hu
  by_cases h1 : m.level = u
  · rcases hres.j.oldC k ((hinv.tbl_iff u k).mpr ⟨m, hm, h1⟩) with h | h | h
    · simp at h
    · obtain ⟨_, x, y, _, h2, _⟩ := hres.lo_sh h; rw [h2]; simp
    · obtain ⟨_, x, y, _, h2⟩ := hres.up_sh h; rw [h2]; simp
  · rw [(hres.frame_sh hinv hm h1 hl).2.2]; simp

/-- an externally referenced slot denotes the swapped diagram -/
theorem levelDownS_handle (hal : AllocOK al) (hord : OrderOK ord) (hinv : Inv ext s)
    (hu : u + 1 < s.tables.length) {k : Nat} {t : BDD} (hk : 0 < ext k)
    (hd : Denotes s.h.abs (.inner k) t) :
    Denotes (levelDownS al ord s u).h.abs (.inner k) (swapTree u t) := by
  refine levelDownS_denotes hal hord hinv hu hd (fun k' m hk' hm hl => ?_)
  injection hk' with hk'; subst hk'
  apply Classical.byContradiction
  intro hn
  have := (levelDownS_removed hal hord hinv hu hm hl hn).1
  omega

/-! ## diagrams of a store in normal form are in normal form -/

theorem Inv.ordered_den (hinv : Inv ext s) {x : Edge} {t : BDD} (hd : Denotes s.h.abs x t) :
    ∀ n, (∀ k m, x = .inner k → s.h.sh k = some m → n ≤ m.level) → Ordered n t := by
  induction hd with
  | term => intro n _; exact .leaf
  | @inner i l a' b' ta tb hi _ _ iha ihb =>
    intro n hn
    rw [abs_get?] at hi
    refine .node (hn i _ rfl hi) (iha _ ?_) (ihb _ ?_)
    · intro k m hk hm
      obtain ⟨m', hm', hlt⟩ := hinv.ordered i _ hi k (Or.inl hk)
      rw [hm] at hm'; cases hm'; exact hlt
    · intro k m hk hm
      obtain ⟨m', hm', hlt⟩ := hinv.ordered i _ hi k (Or.inr hk)
      rw [hm] at hm'; cases hm'; exact hlt

theorem Inv.reduced_den (hinv : Inv ext s) {x : Edge} {t : BDD} (hd : Denotes s.h.abs x t) :
    Reduced t := by
  induction hd with
  | term => trivial
  | @inner i l a' b' ta tb hi ha hb iha ihb =>
    rw [abs_get?] at hi
    refine ⟨fun heq => ?_, iha, ihb⟩
    subst heq
    exact hinv.nored i _ hi (inj_of_unique (abs_unique hinv.uniq) _ _ _ ha hb)

/-- every diagram of a store satisfying the invariant is ordered and reduced -/
theorem Inv.nf (hinv : Inv ext s) {x : Edge} {t : BDD} (hd : Denotes s.h.abs x t) : NF 0 t :=
  ⟨hinv.ordered_den hd 0 (fun _ _ _ _ => Nat.zero_le _), hinv.reduced_den hd⟩

/-- distinct edges denote distinct diagrams (hash consing) -/
theorem Inv.inj (hinv : Inv ext s) {x y : Edge} {t : BDD} (hx : Denotes s.h.abs x t)
    (hy : Denotes s.h.abs y t) : x = y :=
  inj_of_unique (abs_unique hinv.uniq) _ _ _ hx hy

/-! ## sequences of swaps -/

theorem swapsS_len (al : Heap → Nat) (ord : List Nat → List Nat) (s : SStore) (us : List Nat) :
    (swapsS al ord s us).tables.length = s.tables.length := by
  unfold swapsS
  induction us generalizing s with
  | nil => rfl
  | cons u us ih => simp only [List.foldl_cons]; rw [ih, levelDownS_len]

theorem swapsS_inv (hal : AllocOK al) (hord : OrderOK ord) (us : List Nat) (hinv : Inv ext s)
    (hus : ∀ u ∈ us, u + 1 < s.tables.length) : Inv ext (swapsS al ord s us) := by
  unfold swapsS
  induction us generalizing s with
  | nil => exact hinv
  | cons u us ih =>
    simp only [List.foldl_cons]
    exact ih (levelDownS_inv hal hord hinv (hus u (by simp)))
      (fun v hv => by rw [levelDownS_len]; exact hus v (by simp [hv]))

theorem swapsS_handle (hal : AllocOK al) (hord : OrderOK ord) (us : List Nat) (hinv : Inv ext s)
    (hus : ∀ u ∈ us, u + 1 < s.tables.length) {k : Nat} {t : BDD} (hk : 0 < ext k)
    (hd : Denotes s.h.abs (.inner k) t) :
    Denotes (swapsS al ord s us).h.abs (.inner k) (swapTrees us t) := by
  unfold swapsS swapTrees
  induction us generalizing s t with
  | nil => exact hd
  | cons u us ih =>
    simp only [List.foldl_cons]
    exact ih (levelDownS_inv hal hord hinv (hus u (by simp)))
      (fun v hv => by rw [levelDownS_len]; exact hus v (by simp [hv]))
      (levelDownS_handle hal hord hinv (hus u (by simp)) hk hd)

/-- the swaps emitted by a valid replay are in range -/
theorem validSwaps_lt {sw : List Nat} {l : List Nat} (h : ValidSwaps sw l) :
    ∀ u ∈ sw, u + 1 < l.length := by
  induction sw generalizing l with
  | nil => intro u hu; simp at hu
  | cons i sw ih =>
    intro u hu
    obtain ⟨⟨hlt, _⟩, h2⟩ := h
    rcases List.mem_cons.mp hu with rfl | hu
    · exact hlt
    · have := ih h2 u hu
      rwa [swapAdj_length] at this

end
end OxiddModel.Reorder.SwapStore
