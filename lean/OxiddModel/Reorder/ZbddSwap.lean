/-!
# The level swap of `oxidd_reorder::level_swap` read with ZBDD (family-of-sets) semantics

`crates/oxidd-reorder/src/lib.rs` (`level_swap`) is generic in the rule set. For every node
`N = (x, hi, lo)` of the old upper level (variable `x`; `y` is the variable of the old lower
level) it does

* `children.iter().all(|c| level(c) != lower_no_pre)` → the node just moves to the lower level;
* otherwise the matrix of grand-cofactors: `M::Rules::cofactors(child)` if the child sits on the
  lower level, **`[child, child]` otherwise** ("the child is below the lower level, so we always
  have this child"), column `i` of which is `reduce`d at the old upper variable to the new child
  `i`; the node keeps its slot and becomes `(y, new_hi, new_lo)`.

`ZBDDRules::reduce` (crates/oxidd-rules-zbdd/src/lib.rs) is `hi = ∅ ⇒ lo`, child 0 is `hi`,
child 1 is `lo`, `cofactors` are the children.

The `[child, child]` reading is the Shannon expansion of a function that does not depend on `y`
(correct for BDD/BCDD/TDD/MTBDD: `SwapStore*`, `SwapStoreN*`). In a ZBDD a diagram that skips `y`
denotes a family **no set of which contains `y`**: its cofactors are `(∅, child)`.

This file is the *diagram (tree) level* model: a ZBDD is the unfolding `Z` of an edge; the swap
is applied to every node of the upper level in the unfolding (`swapWith`), with the cofactor
reading as a parameter:

* `genericSwap x y` — the code as it is (`cofG`: `[child, child]`, reduction `mk` of the ZBDD rules);
* `zbddSwap x y` — the repair (`cofZ`: `(∅, child)`, same reduction).

Sharing, reference counts and the unique tables of the store are **not** in this model (they are
in `SwapStoreN` for the rule sets for which the swap is right); see `PropertiesZbddSwap` for what
is proved and what is missing.
-/
namespace OxiddModel.Reorder.ZbddSwap

/-- the unfolding of a ZBDD edge: `∅`, `{∅}`, or a node `(v, hi, lo)` -/
inductive Z where
  | empty
  | base
  | node (v : Nat) (hi lo : Z)
deriving DecidableEq, Repr

/-- family semantics: is the set `s` (a list of variables) a member of the family?
`(v, hi, lo)` denotes `lo ∪ {t ∪ {v} | t ∈ hi}`; a variable that does not occur on the path is
absent from the set (`base` accepts only the empty rest). -/
def mem : Z → List Nat → Bool
  | .empty, _ => false
  | .base, s => s.isEmpty
  | .node v hi lo, s => if v ∈ s then mem hi (s.filter (· ≠ v)) else mem lo s

/-- the variables occurring in a diagram -/
def vars : Z → List Nat
  | .node v hi lo => v :: (vars hi ++ vars lo)
  | _ => []

/-- `ord pos n t`: along every path the positions `pos v` strictly increase, and the root's
position is at least `n` (`pos` is the variable order: variable ↦ level) -/
def ord (pos : Nat → Nat) : Nat → Z → Bool
  | n, .node v hi lo => decide (n ≤ pos v) && ord pos (pos v + 1) hi && ord pos (pos v + 1) lo
  | _, _ => true

/-- zero-suppression: no node has `hi = ∅` -/
def red : Z → Bool
  | .node _ hi lo => decide (hi ≠ .empty) && red hi && red lo
  | _ => true

/-- does the edge point to a node of variable `y` (`level(c) == lower_no_pre`)? -/
def isAt (y : Nat) : Z → Bool
  | .node v _ _ => decide (v = y)
  | _ => false

/-- `ZBDDRules::reduce(level of v, [hi, lo])` -/
def mk (v : Nat) (hi lo : Z) : Z := if hi = .empty then lo else .node v hi lo

/-- the code's grand-cofactors `(hi-part, lo-part)` of a child w.r.t. the lower variable:
the children if the child sits there, `(child, child)` otherwise -/
def cofG (y : Nat) : Z → Z × Z
  | .node v h l => if v = y then (h, l) else (.node v h l, .node v h l)
  | c => (c, c)

/-- the zero-suppressed grand-cofactors: a child that skips `y` has no set containing `y` -/
def cofZ (y : Nat) : Z → Z × Z
  | .node v h l => if v = y then (h, l) else (.empty, .node v h l)
  | c => (.empty, c)

/-- the loop body for one node `(x, hi, lo)` of the old upper level -/
def rebuild (cof : Z → Z × Z) (x y : Nat) (hi lo : Z) : Z :=
  if !isAt y hi && !isAt y lo then .node x hi lo
  else .node y (mk x (cof hi).1 (cof lo).1) (mk x (cof hi).2 (cof lo).2)

/-- the swap of the adjacent variables `x` (upper) and `y` (lower) on an unfolding: nodes of `x`
are rebuilt, nodes of `y` and everything else keep their shape -/
def swapWith (cof : Z → Z × Z) (x y : Nat) : Z → Z
  | .node v hi lo =>
    if v = x then rebuild cof x y hi lo
    else if v = y then .node v hi lo
    else .node v (swapWith cof x y hi) (swapWith cof x y lo)
  | t => t

/-- the code as it is -/
def genericSwap (x y : Nat) : Z → Z := swapWith (cofG y) x y

/-- the repair -/
def zbddSwap (x y : Nat) : Z → Z := swapWith (cofZ y) x y

/-- the variable order after the swap -/
def swapPos (pos : Nat → Nat) (x y : Nat) : Nat → Nat :=
  fun v => if v = x then pos y else if v = y then pos x else pos v

/-- `x` and `y` are on adjacent levels (`x` above `y`), and no other variable shares their levels -/
structure Adj (pos : Nat → Nat) (x y : Nat) : Prop where
  adj : pos y = pos x + 1
  injx : ∀ v, pos v = pos x → v = x
  injy : ∀ v, pos v = pos y → v = y

theorem Adj.ne {pos x y} (h : Adj pos x y) : x ≠ y := by
  intro e; subst e; have := h.adj; omega

/-- the family as a bit set over the variables `0 … n-1` (bit `i` = the set of the variables whose
bit is set in `i`), the "truth table" the harness prints -/
def subsetOf (n i : Nat) : List Nat := (List.range n).filter (fun v => i.testBit v)

def table (n : Nat) (t : Z) : Nat :=
  (List.range (2 ^ n)).foldl (fun acc i => if mem t (subsetOf n i) then acc + 2 ^ i else acc) 0

/-- the canonical ZBDD of a family given as bit set over `n` variables, for the variable order
`order` (top first): `build order keep tt n` -/
def buildAux (n : Nat) (tt : Nat) : List Nat → List Nat → Z
  | [], chosen => if tt.testBit ((chosen.map (2 ^ ·)).sum) then .base else .empty
  | v :: rest, chosen => mk v (buildAux n tt rest (v :: chosen)) (buildAux n tt rest chosen)

def build (order : List Nat) (tt : Nat) : Z := buildAux order.length tt order []

end OxiddModel.Reorder.ZbddSwap
