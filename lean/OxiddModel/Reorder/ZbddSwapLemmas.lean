import OxiddModel.Reorder.ZbddSwap

/-! Lemmas for `PropertiesZbddSwap`. -/
namespace OxiddModel.Reorder.ZbddSwap

theorem mem_node (v : Nat) (hi lo : Z) (s : List Nat) :
    mem (.node v hi lo) s = if v ∈ s then mem hi (s.filter (· ≠ v)) else mem lo s := rfl

/-- a diagram in which `y` does not occur has no member containing `y` -/
theorem mem_false_of_not_vars (y : Nat) : ∀ (t : Z) (s : List Nat), y ∉ vars t → y ∈ s → mem t s = false
  | .empty, _, _, _ => rfl
  | .base, s, _, hs => by
    cases s with
    | nil => cases hs
    | cons a l => rfl
  | .node v hi lo, s, hv, hs => by
    simp only [vars, List.mem_cons, List.mem_append, not_or] at hv
    rw [mem_node]
    split
    · apply mem_false_of_not_vars y hi _ hv.2.1
      simp only [List.mem_filter, ne_eq, decide_eq_true_eq]
      exact ⟨hs, hv.1⟩
    · exact mem_false_of_not_vars y lo s hv.2.2 hs

theorem ord_mono (pos : Nat → Nat) : ∀ (t : Z) (n m : Nat), m ≤ n → ord pos n t = true → ord pos m t = true
  | .empty, _, _, _, _ => rfl
  | .base, _, _, _, _ => rfl
  | .node v hi lo, n, m, hmn, h => by
    simp only [ord, Bool.and_eq_true, decide_eq_true_eq] at h ⊢
    exact ⟨⟨by omega, h.1.2⟩, h.2⟩

/-- all variables of a diagram ordered from `n` on sit at positions `≥ n` -/
theorem pos_of_vars (pos : Nat → Nat) : ∀ (t : Z) (n : Nat), ord pos n t = true → ∀ v ∈ vars t, n ≤ pos v
  | .empty, _, _, _, hv => by cases hv
  | .base, _, _, _, hv => by cases hv
  | .node w hi lo, n, h, v, hv => by
    simp only [ord, Bool.and_eq_true, decide_eq_true_eq] at h
    simp only [vars, List.mem_cons, List.mem_append] at hv
    rcases hv with rfl | hv | hv
    · exact h.1.1
    · have := pos_of_vars pos hi _ h.1.2 v hv; omega
    · have := pos_of_vars pos lo _ h.2 v hv; omega

theorem not_vars_of_ord {pos : Nat → Nat} {t : Z} {n : Nat} (h : ord pos n t = true) {v : Nat}
    (hv : pos v < n) : v ∉ vars t := by
  intro hm; have := pos_of_vars pos t n h v hm; omega

/-- a child of an `x`-node that does not sit on `y` is ordered from below `y` on -/
theorem ord_succ_of_not_isAt {pos : Nat → Nat} {x y : Nat} (ha : Adj pos x y) :
    ∀ (c : Z), ord pos (pos y) c = true → isAt y c = false → ord pos (pos y + 1) c = true
  | .empty, _, _ => rfl
  | .base, _, _ => rfl
  | .node v hi lo, h, hy => by
    simp only [isAt, decide_eq_false_iff_not] at hy
    simp only [ord, Bool.and_eq_true, decide_eq_true_eq] at h ⊢
    refine ⟨⟨?_, h.1.2⟩, h.2⟩
    have : pos v ≠ pos y := fun e => hy (ha.injy v e)
    omega

/-! ## the two cofactor readings -/

theorem cofZ_of_isAt {y : Nat} : ∀ {c : Z}, isAt y c = true → ∃ h l, c = .node y h l ∧ cofZ y c = (h, l)
  | .empty, hc => by cases hc
  | .base, hc => by cases hc
  | .node v h l, hc => by
    simp only [isAt, decide_eq_true_eq] at hc
    subst hc
    exact ⟨h, l, rfl, by simp [cofZ]⟩

theorem cofZ_of_not_isAt {y : Nat} : ∀ {c : Z}, isAt y c = false → cofZ y c = (.empty, c)
  | .empty, _ => rfl
  | .base, _ => rfl
  | .node v h l, hc => by
    simp only [isAt, decide_eq_false_iff_not] at hc
    simp [cofZ, hc]

theorem cofG_of_isAt {y : Nat} : ∀ {c : Z}, isAt y c = true → ∃ h l, c = .node y h l ∧ cofG y c = (h, l)
  | .empty, hc => by cases hc
  | .base, hc => by cases hc
  | .node v h l, hc => by
    simp only [isAt, decide_eq_true_eq] at hc
    subst hc
    exact ⟨h, l, rfl, by simp [cofG]⟩

theorem cofG_of_not_isAt {y : Nat} : ∀ {c : Z}, isAt y c = false → cofG y c = (c, c)
  | .empty, _ => rfl
  | .base, _ => rfl
  | .node v h l, hc => by
    simp only [isAt, decide_eq_false_iff_not] at hc
    simp [cofG, hc]

/-- the zero-suppressed cofactors are the cofactors of the family -/
theorem mem_cofZ {y : Nat} {c : Z} (hc : isAt y c = false → y ∉ vars c) (s : List Nat) :
    mem c s = if y ∈ s then mem (cofZ y c).1 (s.filter (· ≠ y)) else mem (cofZ y c).2 s := by
  cases hy : isAt y c with
  | true =>
    obtain ⟨h, l, rfl, e⟩ := cofZ_of_isAt hy
    rw [e, mem_node]
  | false =>
    rw [cofZ_of_not_isAt hy]
    split
    · rw [mem_false_of_not_vars y c s (hc hy) ‹_›]; rfl
    · rfl

/-- `reduce` does not change the family when `v` does not occur below -/
theorem mem_mk {v : Nat} {hi lo : Z} (hlo : v ∉ vars lo) (s : List Nat) :
    mem (mk v hi lo) s = if v ∈ s then mem hi (s.filter (· ≠ v)) else mem lo s := by
  unfold mk
  split
  · rename_i h; subst h
    split
    · rw [mem_false_of_not_vars v lo s hlo ‹_›]; rfl
    · rfl
  · rw [mem_node]

theorem vars_cofZ_sub {y : Nat} (c : Z) : ∀ v, (v ∈ vars (cofZ y c).1 ∨ v ∈ vars (cofZ y c).2) → v ∈ vars c := by
  intro v hv
  cases hy : isAt y c with
  | true =>
    obtain ⟨h, l, rfl, e⟩ := cofZ_of_isAt hy
    rw [e] at hv
    simp only [vars, List.mem_cons, List.mem_append]
    rcases hv with hv | hv
    · exact Or.inr (Or.inl hv)
    · exact Or.inr (Or.inr hv)
  | false =>
    rw [cofZ_of_not_isAt hy] at hv
    rcases hv with hv | hv
    · cases hv
    · exact hv

theorem filter_comm (x y : Nat) (s : List Nat) :
    (s.filter (· ≠ x)).filter (· ≠ y) = (s.filter (· ≠ y)).filter (· ≠ x) := by
  simp only [List.filter_filter]
  congr 1
  funext a
  exact Bool.and_comm _ _

/-- the rebuilt node has the family of the old node -/
theorem mem_rebuildZ {x y : Nat} (hxy : x ≠ y) {hi lo : Z}
    (hxl : x ∉ vars lo)
    (hyh : isAt y hi = false → y ∉ vars hi) (hyl : isAt y lo = false → y ∉ vars lo) (s : List Nat) :
    mem (rebuild (cofZ y) x y hi lo) s = mem (.node x hi lo) s := by
  unfold rebuild
  split
  · rfl
  · have hx1 : x ∉ vars (cofZ y lo).1 := fun h => hxl (vars_cofZ_sub lo x (Or.inl h))
    have hx2 : x ∉ vars (cofZ y lo).2 := fun h => hxl (vars_cofZ_sub lo x (Or.inr h))
    rw [mem_node, mem_node, mem_mk hx1, mem_mk hx2, mem_cofZ hyh, mem_cofZ hyl]
    have e1 : (x ∈ s.filter (· ≠ y)) = (x ∈ s) := by
      simp only [List.mem_filter, ne_eq, decide_eq_true_eq, hxy, not_false_eq_true, and_true]
    have e2 : (y ∈ s.filter (· ≠ x)) = (y ∈ s) := by
      simp only [List.mem_filter, ne_eq, decide_eq_true_eq, Ne.symm hxy, not_false_eq_true, and_true]
    simp only [e1, e2, filter_comm x y s]
    by_cases hx : x ∈ s <;> by_cases hy : y ∈ s <;> simp only [hx, hy, if_true, if_false]

end OxiddModel.Reorder.ZbddSwap
