import OxiddModel.Reorder.ZbddSwapLemmas

/-! Order, reducedness and frame lemmas for `PropertiesZbddSwap`. -/
namespace OxiddModel.Reorder.ZbddSwap

/-- diagrams strictly below both levels are not touched, whatever the cofactor reading -/
theorem swapWith_below (cof : Z → Z × Z) {pos : Nat → Nat} {x y : Nat} :
    ∀ (t : Z) (n : Nat), ord pos n t = true → pos x < n → pos y < n → swapWith cof x y t = t
  | .empty, _, _, _, _ => rfl
  | .base, _, _, _, _ => rfl
  | .node v hi lo, n, h, hx, hy => by
    simp only [ord, Bool.and_eq_true, decide_eq_true_eq] at h
    have hvx : v ≠ x := by intro e; subst e; omega
    have hvy : v ≠ y := by intro e; subst e; omega
    simp only [swapWith, hvx, hvy, if_false]
    rw [swapWith_below cof hi _ h.1.2 (by omega) (by omega),
      swapWith_below cof lo _ h.2 (by omega) (by omega)]

/-- below both levels the new order is the old one -/
theorem ord_swapPos_below {pos : Nat → Nat} {x y : Nat} :
    ∀ (t : Z) (n : Nat), ord pos n t = true → pos x < n → pos y < n → ord (swapPos pos x y) n t = true
  | .empty, _, _, _, _ => rfl
  | .base, _, _, _, _ => rfl
  | .node v hi lo, n, h, hx, hy => by
    simp only [ord, Bool.and_eq_true, decide_eq_true_eq] at h
    have hvx : v ≠ x := by intro e; subst e; omega
    have hvy : v ≠ y := by intro e; subst e; omega
    have e : swapPos pos x y v = pos v := by simp [swapPos, hvx, hvy]
    simp only [ord, Bool.and_eq_true, decide_eq_true_eq, e]
    exact ⟨⟨h.1.1, ord_swapPos_below hi _ h.1.2 (by omega) (by omega)⟩,
      ord_swapPos_below lo _ h.2 (by omega) (by omega)⟩

theorem swapPos_x (pos : Nat → Nat) (x y : Nat) : swapPos pos x y x = pos y := by simp [swapPos]

theorem swapPos_y {pos : Nat → Nat} {x y : Nat} (h : x ≠ y) : swapPos pos x y y = pos x := by
  simp [swapPos, Ne.symm h]

theorem ord_mk {pos : Nat → Nat} {v n : Nat} {hi lo : Z} (hn : n ≤ pos v)
    (hh : ord pos (pos v + 1) hi = true) (hl : ord pos (pos v + 1) lo = true) :
    ord pos n (mk v hi lo) = true := by
  unfold mk
  split
  · exact ord_mono pos lo _ _ (by omega) hl
  · simp only [ord, Bool.and_eq_true, decide_eq_true_eq]; exact ⟨⟨hn, hh⟩, hl⟩

/-- both zero-suppressed cofactors of a child of an `x`-node are ordered from below `y` on -/
theorem ord_cofZ {pos : Nat → Nat} {x y : Nat} (ha : Adj pos x y) {c : Z}
    (hc : ord pos (pos y) c = true) :
    ord pos (pos y + 1) (cofZ y c).1 = true ∧ ord pos (pos y + 1) (cofZ y c).2 = true := by
  cases hy : isAt y c with
  | true =>
    obtain ⟨h, l, rfl, e⟩ := cofZ_of_isAt hy
    rw [e]
    simp only [ord, Bool.and_eq_true, decide_eq_true_eq] at hc
    exact ⟨hc.1.2, hc.2⟩
  | false =>
    rw [cofZ_of_not_isAt hy]
    exact ⟨rfl, ord_succ_of_not_isAt ha c hc hy⟩

theorem ord_rebuildZ {pos : Nat → Nat} {x y : Nat} (ha : Adj pos x y) {hi lo : Z} {n : Nat}
    (hn : n ≤ pos x) (hh : ord pos (pos x + 1) hi = true) (hl : ord pos (pos x + 1) lo = true) :
    ord (swapPos pos x y) n (rebuild (cofZ y) x y hi lo) = true := by
  have hadj := ha.adj
  rw [← hadj] at hh hl
  unfold rebuild
  split
  · rename_i hc
    simp only [Bool.and_eq_true, Bool.not_eq_true'] at hc
    simp only [ord, Bool.and_eq_true, decide_eq_true_eq, swapPos_x]
    refine ⟨⟨by omega, ?_⟩, ?_⟩
    · exact ord_swapPos_below hi _ (ord_succ_of_not_isAt ha hi hh hc.1) (by omega) (by omega)
    · exact ord_swapPos_below lo _ (ord_succ_of_not_isAt ha lo hl hc.2) (by omega) (by omega)
  · obtain ⟨h1, h2⟩ := ord_cofZ ha hh
    obtain ⟨l1, l2⟩ := ord_cofZ ha hl
    have b := fun (t : Z) (h : ord pos (pos y + 1) t = true) =>
      ord_swapPos_below (x := x) (y := y) t (pos y + 1) h (by omega) (by omega)
    simp only [ord, Bool.and_eq_true, decide_eq_true_eq, swapPos_y ha.ne]
    refine ⟨⟨hn, ?_⟩, ?_⟩
    · apply ord_mk
      · rw [swapPos_x]; omega
      · rw [swapPos_x]; exact b _ h1
      · rw [swapPos_x]; exact b _ l1
    · apply ord_mk
      · rw [swapPos_x]; omega
      · rw [swapPos_x]; exact b _ h2
      · rw [swapPos_x]; exact b _ l2

/-! ## zero suppression -/

theorem red_mk {v : Nat} {hi lo : Z} (hh : red hi = true) (hl : red lo = true) : red (mk v hi lo) = true := by
  unfold mk
  split
  · exact hl
  · rename_i h; simp only [red, Bool.and_eq_true, decide_eq_true_eq]; exact ⟨⟨h, hh⟩, hl⟩

theorem red_cofZ {y : Nat} {c : Z} (hc : red c = true) :
    red (cofZ y c).1 = true ∧ red (cofZ y c).2 = true := by
  cases hy : isAt y c with
  | true =>
    obtain ⟨h, l, rfl, e⟩ := cofZ_of_isAt hy
    rw [e]
    simp only [red, Bool.and_eq_true, decide_eq_true_eq] at hc
    exact ⟨hc.1.2, hc.2⟩
  | false =>
    rw [cofZ_of_not_isAt hy]
    exact ⟨rfl, hc⟩

theorem mk_ne_empty {v : Nat} {hi lo : Z} (h : hi ≠ .empty ∨ lo ≠ .empty) : mk v hi lo ≠ .empty := by
  unfold mk
  split
  · rename_i e; rcases h with h | h
    · exact absurd e h
    · exact h
  · intro e; cases e

/-- the new `hi` child of a rebuilt node is never `∅`: the rebuilt node needs no reduction
(the code keeps the node in its slot, it could not redirect the parents) -/
theorem rebuildZ_hi_ne_empty {x y : Nat} {hi lo : Z} (hhi : hi ≠ .empty)
    (hrh : red hi = true) (hrl : red lo = true)
    (hc : (!isAt y hi && !isAt y lo) = false) :
    mk x (cofZ y hi).1 (cofZ y lo).1 ≠ .empty := by
  apply mk_ne_empty
  cases hy : isAt y hi with
  | true =>
    obtain ⟨h, l, rfl, e⟩ := cofZ_of_isAt hy
    rw [e]
    simp only [red, Bool.and_eq_true, decide_eq_true_eq] at hrh
    exact Or.inl hrh.1.1
  | false =>
    have hl : isAt y lo = true := by
      cases h : isAt y lo with
      | true => rfl
      | false => simp [hy, h] at hc
    obtain ⟨h, l, rfl, e⟩ := cofZ_of_isAt hl
    rw [e]
    simp only [red, Bool.and_eq_true, decide_eq_true_eq] at hrl
    exact Or.inr hrl.1.1

theorem red_rebuildZ {x y : Nat} {hi lo : Z} (hhi : hi ≠ .empty)
    (hrh : red hi = true) (hrl : red lo = true) : red (rebuild (cofZ y) x y hi lo) = true := by
  unfold rebuild
  split
  · simp only [red, Bool.and_eq_true, decide_eq_true_eq]; exact ⟨⟨hhi, hrh⟩, hrl⟩
  · rename_i hc
    have hc' : (!isAt y hi && !isAt y lo) = false := by simpa using hc
    simp only [red, Bool.and_eq_true, decide_eq_true_eq]
    exact ⟨⟨rebuildZ_hi_ne_empty hhi hrh hrl hc', red_mk (red_cofZ hrh).1 (red_cofZ hrl).1⟩,
      red_mk (red_cofZ hrh).2 (red_cofZ hrl).2⟩

theorem swapWith_eq_empty {cof : Z → Z × Z} {x y : Nat} : ∀ {t : Z}, swapWith cof x y t = .empty → t = .empty
  | .empty, _ => rfl
  | .base, h => by cases h
  | .node v hi lo, h => by
    simp only [swapWith, rebuild] at h
    split at h
    · split at h <;> cases h
    · split at h <;> cases h

end OxiddModel.Reorder.ZbddSwap
