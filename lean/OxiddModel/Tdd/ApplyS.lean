import OxiddModel.Tdd.StoreS

/-!
# TDD store level: `apply_not` and `apply_bin` with the apply cache refine the tree-level functions
-/
set_option linter.unusedSectionVars false

namespace OxiddModel.Tdd.Refine
open OxiddModel.Tdd OxiddModel.Tdd.TD OxiddModel.CachePolicy

/-! ## tree level: unfolding equations and commutativity -/

theorem applyBin_done {gt : TD → TD → Bool} {op : BinOp} {a b r : TD}
    (h : terminalBin gt op a b = .done r) : applyBin gt op a b = r := by
  rw [applyBin]; simp [h]

theorem applyBin_not {gt : TD → TD → Bool} {op : BinOp} {a b r : TD}
    (h : terminalBin gt op a b = .not r) : applyBin gt op a b = applyNot r := by
  rw [applyBin]; simp [h]

theorem applyBin_binary {gt : TD → TD → Bool} {op : BinOp} {a b x y : TD} {tag : TDDOp} {l : Nat}
    (h : terminalBin gt op a b = .binary tag x y) (hl : lmin a.level b.level = some l) :
    applyBin gt op a b =
      mk l (applyBin gt op (childAt a l .t) (childAt b l .t))
        (applyBin gt op (childAt a l .u) (childAt b l .u))
        (applyBin gt op (childAt a l .f) (childAt b l .f)) := by
  rw [applyBin]
  simp only [h]
  split
  · rename_i hn; rw [hl] at hn; cases hn
  · rename_i l' hl'
    rw [hl] at hl'; cases hl'; rfl

/-- two answers of `terminal_bin` agree up to the (irrelevant) operands of `Binary` -/
def Operation.Same : Operation → Operation → Prop
  | .done h, .done h' => h = h'
  | .not a, .not a' => a = a'
  | .binary _ _ _, .binary _ _ _ => True
  | _, _ => False

theorem terminalBin_comm (gt gt' : TD → TD → Bool) (op : BinOp) (hc : BinOp.comm op = true)
    (f g : TD) : Operation.Same (terminalBin gt op g f) (terminalBin gt' op f g) := by
  by_cases hfg : f = g
  · subst hfg
    cases op <;> simp only [BinOp.comm] at hc <;> (try cases hc) <;>
      simp [terminalBin, Operation.Same]
  · have hgf : ¬ g = f := fun h => hfg h.symm
    cases op <;> simp only [BinOp.comm] at hc <;> (try cases hc) <;>
      simp only [terminalBin, hfg, hgf, if_false] <;>
      (repeat' split) <;>
      simp_all [Operation.Same, isLeafOf_iff]

theorem lmin_comm (a b : Option Nat) : lmin a b = lmin b a := by
  cases a <;> cases b <;> simp [lmin, Nat.min_comm]

/-- `apply_bin` of the six symmetric connectives is commutative on all trees (for any two edge
orders), which is why memoising under the normalised key is sound -/
theorem applyBin_comm (gt gt' : TD → TD → Bool) (op : BinOp) (hc : BinOp.comm op = true)
    (n : Nat) : ∀ (f g : TD), f.size + g.size ≤ n → applyBin gt op g f = applyBin gt' op f g := by
  induction n with
  | zero => intro f g h; cases f <;> simp [size] at h
  | succ n ih =>
    intro f g hn
    have htb := terminalBin_comm gt gt' op hc f g
    cases hT : terminalBin gt' op f g with
    | done r =>
      cases hT' : terminalBin gt op g f with
      | done r' => rw [hT, hT'] at htb; rw [applyBin_done hT, applyBin_done hT']; exact htb
      | not _ => rw [hT, hT'] at htb; exact htb.elim
      | binary _ _ _ => rw [hT, hT'] at htb; exact htb.elim
    | not r =>
      cases hT' : terminalBin gt op g f with
      | done _ => rw [hT, hT'] at htb; exact htb.elim
      | not r' => rw [hT, hT'] at htb; rw [applyBin_not hT, applyBin_not hT']; exact congrArg _ htb
      | binary _ _ _ => rw [hT, hT'] at htb; exact htb.elim
    | binary tag x y =>
      cases hT' : terminalBin gt op g f with
      | done _ => rw [hT, hT'] at htb; exact htb.elim
      | not _ => rw [hT, hT'] at htb; exact htb.elim
      | binary tag' x' y' =>
        cases hl : lmin f.level g.level with
        | none => exact absurd hl (terminalBin_binary_not_leaves hT)
        | some l =>
          have hl' : lmin g.level f.level = some l := by rw [lmin_comm]; exact hl
          rw [applyBin_binary hT hl, applyBin_binary hT' hl']
          have sz : ∀ c, (childAt f l c).size + (childAt g l c).size ≤ n := by
            intro c
            have := childAt_size_le f l c; have := childAt_size_le g l c
            rcases lmin_eq_some hl with h | h
            · have := childAt_size_lt f l c h; omega
            · have := childAt_size_lt g l c h; omega
          rw [ih _ _ (sz .t), ih _ _ (sz .u), ih _ _ (sz .f)]

/-! ## what a cache entry must mean -/

/-- the tree-level function an operator tag stands for. The tree-level edge order is irrelevant
for the value (`applyBin_comm` with `f`, `g` swapped twice); it is fixed to `gtT`. -/
def specOf (gtT : TD → TD → Bool) : TDDOp → List TD → Option TD
  | .not, [a] => some (applyNot a)
  | .and, [a, b] => some (applyBin gtT .and a b)
  | .or, [a, b] => some (applyBin gtT .or a b)
  | .nand, [a, b] => some (applyBin gtT .nand a b)
  | .nor, [a, b] => some (applyBin gtT .nor a b)
  | .xor, [a, b] => some (applyBin gtT .xor a b)
  | .equiv, [a, b] => some (applyBin gtT .equiv a b)
  | .imp, [a, b] => some (applyBin gtT .imp a b)
  | .impStrict, [a, b] => some (applyBin gtT .impStrict a b)
  | .ite, [a, b, c] => some (applyIte gtT a b c)
  | _, _ => none

theorem specOf_tag (gtT : TD → TD → Bool) (op : BinOp) (a b : TD) :
    specOf gtT op.tag [a, b] = some (applyBin gtT op a b) := by
  cases op <;> rfl

inductive DenotesL (s : Store) : List Edge → List TD → Prop
  | nil : DenotesL s [] []
  | cons : Denotes s e t → DenotesL s es ts → DenotesL s (e :: es) (t :: ts)

theorem DenotesL.functional {s : Store} {es : List Edge} {ts ts' : List TD}
    (h : DenotesL s es ts) (h' : DenotesL s es ts') : ts = ts' := by
  induction h generalizing ts' with
  | nil => cases h'; rfl
  | cons hd _ ih =>
    cases h' with
    | cons hd' htl' => rw [Denotes.functional hd hd', ih htl']

theorem DenotesL.mono {s s' : Store} (hle : s.Le s') {es : List Edge} {ts : List TD}
    (h : DenotesL s es ts) : DenotesL s' es ts := by
  induction h with
  | nil => exact .nil
  | cons hd _ ih => exact .cons (hd.mono hle) ih

theorem DenotesL.one {s : Store} {e : Edge} {t : TD} (h : Denotes s e t) : DenotesL s [e] [t] :=
  .cons h .nil
theorem DenotesL.two {s : Store} {e1 e2 : Edge} {t1 t2 : TD} (h1 : Denotes s e1 t1)
    (h2 : Denotes s e2 t2) : DenotesL s [e1, e2] [t1, t2] := .cons h1 (.cons h2 .nil)
theorem DenotesL.three {s : Store} {e1 e2 e3 : Edge} {t1 t2 t3 : TD} (h1 : Denotes s e1 t1)
    (h2 : Denotes s e2 t2) (h3 : Denotes s e3 t3) : DenotesL s [e1, e2, e3] [t1, t2, t3] :=
  .cons h1 (.cons h2 (.cons h3 .nil))

def EntryOK (gtT : TD → TD → Bool) (s : Store) (k : Key) (r : Edge) : Prop :=
  ∃ ts R, DenotesL s k.2 ts ∧ specOf gtT k.1 ts = some R ∧ Denotes s r R

def CacheOK (gtT : TD → TD → Bool) (s : Store) (c : ACache) : Prop :=
  ∀ k r, (k, r) ∈ c → EntryOK gtT s k r

theorem EntryOK.mono {gtT : TD → TD → Bool} {s s' : Store} {k : Key} {r : Edge}
    (h : EntryOK gtT s k r) (hle : s.Le s') : EntryOK gtT s' k r := by
  obtain ⟨ts, R, h1, h2, h3⟩ := h
  exact ⟨ts, R, h1.mono hle, h2, h3.mono hle⟩

theorem CacheOK.mono {gtT : TD → TD → Bool} {s s' : Store} {c : ACache} (h : CacheOK gtT s c)
    (hle : s.Le s') : CacheOK gtT s' c :=
  fun k r hm => (h k r hm).mono hle

theorem EntryOK.hit {gtT : TD → TD → Bool} {s : Store} {k : Key} {r : Edge} {ts : List TD}
    {R : TD} (h : EntryOK gtT s k r) (hd : DenotesL s k.2 ts) (hs : specOf gtT k.1 ts = some R) :
    Denotes s r R := by
  obtain ⟨ts', R', h1, h2, h3⟩ := h
  have := DenotesL.functional h1 hd
  subst this
  rw [hs] at h2; cases h2
  exact h3

theorem CacheOK.nil (gtT : TD → TD → Bool) (s : Store) : CacheOK gtT s [] :=
  fun _ _ h => by cases h

theorem CacheOK.sub {gtT : TD → TD → Bool} {s : Store} {c c' : ACache} (h : CacheOK gtT s c)
    (hs : ∀ x, x ∈ c' → x ∈ c) : CacheOK gtT s c' := fun k r hm => h k r (hs _ hm)

theorem CacheOK.add {gtT : TD → TD → Bool} {p : APolicy} (pok : p.OK) {s : Store} {c : ACache}
    (h : CacheOK gtT s c) {k : Key} {r : Edge} (he : EntryOK gtT s k r) (n : Nat) :
    CacheOK gtT s (p.add n c k r) := by
  intro k' r' hm
  rcases pok.add_sub n c k r _ hm with h' | h'
  · exact h k' r' h'
  · cases h'; exact he

/-! ## `terminal_bin` on edges refines `terminalBin` on trees -/

def OpCorr (s : Store) (tg : BinOp → TDDOp) (op : BinOp) (f g : Edge) :
    OperationS → Operation → Prop
  | .done e, .done t => Denotes s e t
  | .notOf e, .not t => Denotes s e t
  | .binary tag o1 o2, .binary _ _ _ =>
    tag = tg op ∧ ((o1 = f ∧ o2 = g) ∨ (BinOp.comm op = true ∧ o1 = g ∧ o2 = f))
  | _, _ => False

theorem isTerm_denotes {s : Store} {f : Edge} {a : TD} (h : Denotes s f a) (v : Tri) :
    f.isTerm v = a.isLeafOf v := by
  cases h <;> rfl

/-- **`terminal_bin` on edges refines `terminalBin` on trees** (for any tree-level edge order) in
every store in which edge equality is tree equality -/
theorem terminalBinS_corr (gt : Edge → Edge → Bool) (gtT : TD → TD → Bool) (tg : BinOp → TDDOp)
    (op : BinOp) {s : Store} (inj : s.Inj) {f g : Edge} {a b : TD}
    (hf : Denotes s f a) (hg : Denotes s g b) :
    OpCorr s tg op f g (terminalBinS gt tg op f g) (terminalBin gtT op a b) := by
  have e1 := isTerm_denotes hf
  have e2 := isTerm_denotes hg
  by_cases hfg : f = g
  · subst hfg
    have := Denotes.functional hf hg
    subst this
    cases op <;> simp only [terminalBinS, terminalBin, if_true, OpCorr] <;>
      first | exact hf | exact .term
  · have hab : ¬ a = b := fun h => hfg (inj _ _ _ hf (h ▸ hg))
    cases op <;> simp only [terminalBinS, terminalBin, hfg, hab, if_false, e1, e2] <;>
      (repeat' split) <;> simp only [OpCorr] <;>
      first
        | exact hf | exact hg | exact .term
        | simp [BinOp.comm]

/-- **each operator is memoised under the tag `tg` assigns to it**, with exactly the two operands
(swapped only for the symmetric connectives) -/
theorem terminalBinS_tag (gt : Edge → Edge → Bool) (tg : BinOp → TDDOp) (op : BinOp)
    (f g : Edge) (tag : TDDOp) (o1 o2 : Edge) (h : terminalBinS gt tg op f g = .binary tag o1 o2) :
    tag = tg op ∧ ((o1 = f ∧ o2 = g) ∨ (BinOp.comm op = true ∧ o1 = g ∧ o2 = f)) := by
  cases op <;> simp only [terminalBinS] at h <;>
    (repeat' split at h) <;> (first | cases h | skip) <;> simp [BinOp.comm]

/-! ## invariant, postcondition -/

def Inv (gtT : TD → TD → Bool) (st : St) : Prop :=
  st.store.Unique ∧ CacheOK gtT st.store st.cache

theorem Inv.tickd {gtT : TD → TD → Bool} {st : St} (h : Inv gtT st) : Inv gtT st.tickd := h

theorem level?_denotes {s : Store} {f : Edge} {a : TD} (h : Denotes s f a) :
    s.level? f = a.level := by
  cases h with
  | term => rfl
  | inner hi _ _ _ => simp [Store.level?, hi, TD.level]

theorem childAt_denotes {s : Store} {f : Edge} {a : TD} (l : Nat) (c : Tri) (h : Denotes s f a) :
    Denotes s (s.childAt f l c) (childAt a l c) := by
  cases h with
  | term => exact .term
  | @inner i l' t u e tt tu te hi ht hu he =>
    simp only [Store.childAt, hi, TD.childAt]
    split
    · cases c
      · exact he
      · exact hu
      · exact ht
    · exact .inner hi ht hu he

structure Post (gtT : TD → TD → Bool) (s : Store) (R : TD) (r : St × Edge) : Prop where
  inv : Inv gtT r.1
  le : s.Le r.1.store
  den : Denotes r.1.store r.2 R
  canon : s.NoRed → (r.1.store, r.2) = intern s R

theorem Post.done {gtT : TD → TD → Bool} {st : St} {e : Edge} {R : TD} (hinv : Inv gtT st)
    (hd : Denotes st.store e R) : Post gtT st.store R (st, e) where
  inv := hinv
  le := Store.Le.refl _
  den := hd
  canon hr := (intern_of_denotes hinv.1 hr hd).symm

theorem Post.nored {gtT : TD → TD → Bool} {s : Store} {R : TD} {r : St × Edge}
    (h : Post gtT s R r) (hr : s.NoRed) : r.1.store.NoRed := by
  have := h.canon hr
  have h1 : r.1.store = (intern s R).1 := congrArg Prod.fst this
  rw [h1]; exact intern_nored s R hr

/-- the three recursive results are combined by `reduce` + cache add -/
theorem finishS_post {gtT : TD → TD → Bool} {p : APolicy} (pok : p.OK) {s : Store}
    {R1 Ru R0 : St × Edge} {T1 Tu T0 : TD}
    (h1 : Post gtT s T1 R1) (hu : Post gtT R1.1.store Tu Ru) (h0 : Post gtT Ru.1.store T0 R0)
    (key : Key) (l : Nat)
    (hkey : ∃ ts, DenotesL s key.2 ts ∧ specOf gtT key.1 ts = some (mk l T1 Tu T0)) :
    Post gtT s (mk l T1 Tu T0) (finishS p R0.1 key l R1.2 Ru.2 R0.2) := by
  have inj0 := inj_of_unique h0.inv.1
  have denm := mkNode_denotes R0.1.store l R1.2 Ru.2 R0.2 T1 Tu T0
    (h1.den.mono (hu.le.trans h0.le)) (hu.den.mono h0.le) h0.den inj0
  have lem := mkNode_le R0.1.store l R1.2 Ru.2 R0.2
  have hle : s.Le (R0.1.store.mkNode l R1.2 Ru.2 R0.2).1 :=
    h1.le.trans (hu.le.trans (h0.le.trans lem))
  refine ⟨⟨mkNode_unique _ _ _ _ _ h0.inv.1, ?_⟩, hle, denm, ?_⟩
  · obtain ⟨ts, hd, hs⟩ := hkey
    exact CacheOK.add pok (h0.inv.2.mono lem) ⟨ts, _, hd.mono hle, hs, denm⟩ _
  · intro hr
    have c1 := h1.canon hr
    have hr1 := h1.nored hr
    have cu := hu.canon hr1
    have hru := hu.nored hr1
    have c0 := h0.canon hru
    show ((R0.1.store.mkNode l R1.2 Ru.2 R0.2).1, (R0.1.store.mkNode l R1.2 Ru.2 R0.2).2)
      = intern s (mk l T1 Tu T0)
    have e1s : R1.1.store = (intern s T1).1 := congrArg Prod.fst c1
    have e1e : R1.2 = (intern s T1).2 := congrArg Prod.snd c1
    have eus : Ru.1.store = (intern R1.1.store Tu).1 := congrArg Prod.fst cu
    have eue : Ru.2 = (intern R1.1.store Tu).2 := congrArg Prod.snd cu
    have e0s : R0.1.store = (intern Ru.1.store T0).1 := congrArg Prod.fst c0
    have e0e : R0.2 = (intern Ru.1.store T0).2 := congrArg Prod.snd c0
    unfold mk
    by_cases hT : T1 = Tu ∧ Tu = T0
    · obtain ⟨hA, hB⟩ := hT
      subst hA hB
      simp only [and_self, if_true]
      have hi := intern_of_denotes h1.inv.1 hr1 h1.den
      rw [hi] at eus eue
      simp only at eus eue
      rw [eus] at e0s e0e
      rw [hi] at e0s e0e
      simp only at e0s e0e
      rw [e0s, e0e, eue]
      simp only [Store.mkNode, and_self, if_true]
      rw [← c1]
    · simp only [hT, if_false, intern]
      rw [← e1s, ← e1e, ← eus, ← eue, ← e0s, ← e0e]

/-! ## `apply_not` -/

theorem notS_spec (gtT : TD → TD → Bool) {p : APolicy} (pok : p.OK) (fuel : Nat) :
    ∀ (st : St) (f : Edge) (a : TD),
    Inv gtT st → Denotes st.store f a → a.size ≤ fuel →
    Post gtT st.store (applyNot a) (notS p fuel st f) := by
  induction fuel with
  | zero =>
    intro st f a _ _ hsz
    cases a <;> simp [size] at hsz
  | succ fuel ih =>
    intro st f a hinv hf hsz
    cases hf with
    | @term x => exact Post.done hinv .term
    | @inner i l t u e tt tu te hi hft hfu hfe =>
      have hdf : Denotes st.store (.inner i) (.node l tt tu te) := .inner hi hft hfu hfe
      simp only [notS]
      split
      · -- cache hit
        rename_i r hr
        have hent := hinv.2 _ _ (pok.get_mem _ _ _ _ hr)
        exact Post.done (st := st.tickd) hinv.tickd (hent.hit (DenotesL.one hdf) rfl)
      · -- cache miss
        simp only [hi]
        simp only [size] at hsz
        have p1 := ih st.tickd t tt hinv.tickd hft (by omega)
        have pu := ih _ u tu p1.inv (hfu.mono p1.le) (by omega)
        have p0 := ih _ e te pu.inv (hfe.mono (p1.le.trans pu.le)) (by omega)
        exact finishS_post pok p1 pu p0 (.not, [.inner i]) l ⟨_, DenotesL.one hdf, rfl⟩

/-! ## `apply_bin::<OP>` -/

theorem terminalBin_not_size {gt : TD → TD → Bool} {op : BinOp} {a b t : TD}
    (h : terminalBin gt op a b = .not t) : t.size ≤ a.size + b.size := by
  have := terminalBin_shape gt op a b
  rw [h] at this
  rcases this with rfl | rfl <;> omega

theorem applyS_spec (gt : Edge → Edge → Bool) (gtT : TD → TD → Bool) {p : APolicy} (pok : p.OK)
    (op : BinOp) (fuel : Nat) : ∀ (st : St) (f g : Edge) (a b : TD),
    Inv gtT st → Denotes st.store f a → Denotes st.store g b → a.size + b.size ≤ fuel →
    Post gtT st.store (applyBin gtT op a b) (applyS gt BinOp.tag p op fuel st f g) := by
  induction fuel with
  | zero =>
    intro st f g a b _ _ _ hsz
    cases a <;> simp [size] at hsz
  | succ fuel ih =>
    intro st f g a b hinv hf hg hsz
    have hinj := inj_of_unique hinv.1
    have hc := terminalBinS_corr gt gtT BinOp.tag op hinj hf hg
    have hsb : 0 < b.size := by cases b <;> simp [size] <;> omega
    have hsa : 0 < a.size := by cases a <;> simp [size] <;> omega
    simp only [applyS]
    cases hS : terminalBinS gt BinOp.tag op f g with
    | done e =>
      cases hT : terminalBin gtT op a b with
      | done t =>
        rw [hS, hT] at hc
        rw [applyBin_done hT]
        exact Post.done hinv hc
      | not t => rw [hS, hT] at hc; exact hc.elim
      | binary o x y => rw [hS, hT] at hc; exact hc.elim
    | notOf e =>
      cases hT : terminalBin gtT op a b with
      | done t => rw [hS, hT] at hc; exact hc.elim
      | not t =>
        rw [hS, hT] at hc
        rw [applyBin_not hT]
        have hsh := terminalBin_shape gtT op a b
        rw [hT] at hsh
        have : t.size ≤ fuel := by
          rcases hsh with h | h <;> subst h <;> omega
        exact notS_spec gtT pok fuel st e t hinv hc this
      | binary o x y => rw [hS, hT] at hc; exact hc.elim
    | binary tag o1 o2 =>
      cases hT : terminalBin gtT op a b with
      | done t => rw [hS, hT] at hc; exact hc.elim
      | not t => rw [hS, hT] at hc; exact hc.elim
      | binary o x y =>
        rw [hS, hT] at hc
        obtain ⟨htag, hkey⟩ := hc
        subst htag
        have hkd : ∃ ts, DenotesL st.store [o1, o2] ts ∧
            specOf gtT op.tag ts = some (applyBin gtT op a b) := by
          rcases hkey with ⟨h1, h2⟩ | ⟨hcm, h1, h2⟩
          · subst h1 h2; exact ⟨_, DenotesL.two hf hg, specOf_tag gtT op a b⟩
          · subst h1 h2
            exact ⟨_, DenotesL.two hg hf, by
              rw [specOf_tag, applyBin_comm gtT gtT op hcm _ a b (Nat.le_refl _)]⟩
        simp only
        split
        · -- cache hit
          rename_i r hr
          have hent := hinv.2 _ _ (pok.get_mem _ _ _ _ hr)
          obtain ⟨ts, hd, hs⟩ := hkd
          exact Post.done (st := st.tickd) hinv.tickd (hent.hit hd hs)
        · -- cache miss
          cases hl : lmin a.level b.level with
          | none => exact absurd hl (terminalBin_binary_not_leaves hT)
          | some l =>
            rw [level?_denotes hf, level?_denotes hg, hl]
            simp only
            have sz : ∀ c, (childAt a l c).size + (childAt b l c).size ≤ fuel := by
              intro c
              have := childAt_size_le a l c; have := childAt_size_le b l c
              rcases lmin_eq_some hl with h | h
              · have := childAt_size_lt a l c h; omega
              · have := childAt_size_lt b l c h; omega
            have p1 := ih st.tickd _ _ _ _ hinv.tickd (childAt_denotes l .t hf)
              (childAt_denotes l .t hg) (sz .t)
            have pu := ih _ _ _ _ _ p1.inv ((childAt_denotes l .u hf).mono p1.le)
              ((childAt_denotes l .u hg).mono p1.le) (sz .u)
            have p0 := ih _ _ _ _ _ pu.inv ((childAt_denotes l .f hf).mono (p1.le.trans pu.le))
              ((childAt_denotes l .f hg).mono (p1.le.trans pu.le)) (sz .f)
            obtain ⟨ts, hd, hs⟩ := hkd
            rw [applyBin_binary hT hl] at hs ⊢
            exact finishS_post pok p1 pu p0 (op.tag, [o1, o2]) l ⟨ts, hd, hs⟩

end OxiddModel.Tdd.Refine
