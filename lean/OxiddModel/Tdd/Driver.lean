import OxiddModel.Util.Proto
import OxiddModel.Tdd.Model
import OxiddModel.Reorder.Model
import Std.Data.HashMap
import Std.Data.HashSet

/-!
Line-protocol driver `tdd` for the tree-level TDD model (property C11).

```
mgr <nvars>                      -> ok
order <v>* [seq=1]               -> <l2v0> <l2v1> …      (set_var_order / set_var_order_seq; distinct variables,
                                                         total or partial; live handles are rebuilt)
clone <h> <a>                    -> ok
gc                               -> <inner nodes stored after the collection>
eq <a> <b>                       -> 1 | 0
count <h>                        -> <node_count: distinct nodes including terminals>
const <h> f|t|u                  -> <tree>
var <h> <v>                      -> <tree>
node <h> <v> <ht> <hu> <he>      -> <tree>               (reduce + insert; children strictly below v)
not|enot|notowned|notownedf <h> <a>       -> <tree>
op|eop <h> <opname> <a> <b>      -> <tree>
ite|eite <h> <a> <b> <c>         -> <tree>
eval <h> <digits>                -> F|U|T                (digit k: value of variable k; 0 false, 1 unknown, 2 true)
evalp <h> (<v>:<digit>)*         -> F|U|T                (partial / repeated assignment, in the given order)
cof <h>                          -> <t> <u> <e> | none
drop <h>                         -> ok
dropall                          -> 0                    (inner nodes left after dropping every handle and gc)
```
Trees: `T | U | F | (v<k> <t> <u> <e>)` with variable numbers. Anything else: `bad-op`.
-/
namespace OxiddModel.Tdd

open OxiddModel TD

structure St where
  nvars : Option Nat := none
  v2l : Array Nat := #[]
  l2v : Array Nat := #[]
  handles : Std.HashMap String TD := {}

def gtDriver (_ _ : TD) : Bool := false

def showTree (l2v : Array Nat) : TD → String
  | leaf v => v.toStr
  | node l t u e =>
    "(v" ++ toString (l2v.getD l l) ++ " " ++ showTree l2v t ++ " " ++ showTree l2v u ++ " "
      ++ showTree l2v e ++ ")"

def parseOp : String → Option BinOp
  | "and" => some .and | "or" => some .or | "nand" => some .nand | "nor" => some .nor
  | "xor" => some .xor | "equiv" => some .equiv | "imp" => some .imp
  | "imp_strict" => some .impStrict | _ => none

def parseDigit : Char → Option (Option Bool)
  | '0' => some (some false) | '1' => some none | '2' => some (some true) | _ => none

/-- canonical decimal number (no sign, no leading zeros, no separators) -/
def pnat (x : String) : Option Nat :=
  match x.toNat? with
  | some v => if toString v == x then some v else none
  | none => none

def bad (s : St) : St × String := (s, "bad-op")

def St.define (s : St) (h : String) (t : TD) : St × String :=
  if s.handles.contains h then bad s
  else ({ s with handles := s.handles.insert h t }, showTree s.l2v t)

/-- all distinct subtrees of `t` (inner nodes and, if `leaves`, terminals) added to `acc` -/
def subtrees (leaves : Bool) : TD → Std.HashSet TD → Std.HashSet TD
  | leaf v, acc => if leaves then acc.insert (leaf v) else acc
  | node l a b c, acc =>
    if acc.contains (node l a b c) then acc
    else subtrees leaves c (subtrees leaves b (subtrees leaves a (acc.insert (node l a b c))))

/-- the store after a collection: the inner nodes reachable from the live handles -/
def St.innerNodes (s : St) : Nat :=
  (s.handles.fold (fun acc _ t => subtrees false t acc) {}).size

def parseArgs (s : St) (n : Nat) (ws : List String) : Option (List (Nat × Option Bool)) :=
  ws.mapM fun w =>
    match w.splitOn ":" with
    | [v, d] =>
      match pnat v, d.toList with
      | some v, [c] =>
        if v < n then (parseDigit c).map (fun val => (s.v2l.getD v v, val)) else none
      | _, _ => none
    | _ => none

def step (s : St) (line : String) : St × String :=
  match s.nvars, words line with
  | none, ["mgr", n] =>
    match pnat n with
    | some n =>
      if n ≤ 64 then
        ({ s with nvars := some n, v2l := Array.range n, l2v := Array.range n }, "ok")
      else bad s
    | none => bad s
  | none, _ => bad s
  | some _, "mgr" :: _ => bad s
  | some n, "order" :: ws =>
    match (ws.filter (fun w => !w.contains '=')).mapM pnat with
    | some order =>
      if order.all (· < n) && order.eraseDups.length == order.length
          && (ws.filter (fun w => w.contains '=')).all (fun w => w == "seq=1" || w == "seq=0") then
        -- `set_var_order` returns immediately for requests with at most one variable
        let l2v := if order.length ≤ 1 then s.l2v else Reorder.newL2v s.l2v s.v2l order
        let v2l := Id.run do
          let mut a := Array.replicate n 0
          for l in [0 : n] do
            a := a.set! (l2v.getD l 0) l
          return a
        let π (l : Nat) : Nat := v2l.getD (s.l2v.getD l l) l
        let hs := s.handles.fold (fun acc k t => acc.insert k (reorderTree π t)) ({} : Std.HashMap String TD)
        ({ s with l2v := l2v, v2l := v2l, handles := hs }, joinSp (l2v.toList.map toString))
      else bad s
    | none => bad s
  | some _, ["const", h, c] =>
    match c with
    | "f" => s.define h constF
    | "u" => s.define h constU
    | "t" => s.define h constT
    | _ => bad s
  | some n, ["var", h, v] =>
    match pnat v with
    | some v => if v < n then s.define h (var (s.v2l.getD v v)) else bad s
    | none => bad s
  | some n, ["node", h, v, a, b, c] =>
    match pnat v, s.handles.get? a, s.handles.get? b, s.handles.get? c with
    | some v, some a, some b, some c =>
      if v < n then
        let l := s.v2l.getD v v
        let below (x : TD) : Bool := match x.level with | none => true | some k => l < k
        if below a && below b && below c then s.define h (mk l a b c) else bad s
      else bad s
    | _, _, _, _ => bad s
  | some _, [cmd, h, a] =>
    if cmd == "not" || cmd == "enot" then
      match s.handles.get? a with
      | some a => s.define h (applyNot a)
      | none => bad s
    else if cmd == "notowned" || cmd == "notownedf" then
      match s.handles.get? a with
      | some a => s.define h (notEdgeOwned a)
      | none => bad s
    else if cmd == "eval" then
      match s.handles.get? h, s.nvars with
      | some t, some n =>
        match a.toList.mapM parseDigit with
        | some ds =>
          if ds.length == n then
            let args := (List.range n).zip ds |>.map (fun (v, d) => (s.v2l.getD v v, d))
            (s, (evalEdge n args t).toStr)
          else bad s
        | none => bad s
      | _, _ => bad s
    else if cmd == "clone" then
      match s.handles.get? a with
      | some t => if s.handles.contains h then bad s else ({ s with handles := s.handles.insert h t }, "ok")
      | none => bad s
    else if cmd == "eq" then
      match s.handles.get? h, s.handles.get? a with
      | some x, some y => (s, boolStr (x == y))
      | _, _ => bad s
    else if cmd == "evalp" then
      match s.handles.get? h, s.nvars with
      | some t, some n =>
        match parseArgs s n [a] with
        | some args => (s, (evalEdge n args t).toStr)
        | none => bad s
      | _, _ => bad s
    else bad s
  | some _, ["cof", h] =>
    match s.handles.get? h with
    | some t =>
      match cofactors t with
      | none => (s, "none")
      | some (a, b, c) => (s, joinSp [showTree s.l2v a, showTree s.l2v b, showTree s.l2v c])
    | none => bad s
  | some _, ["drop", h] =>
    if s.handles.contains h then ({ s with handles := s.handles.erase h }, "ok") else bad s
  | some _, ["gc"] => (s, toString s.innerNodes)
  | some _, ["count", h] =>
    match s.handles.get? h with
    | some t => (s, toString (subtrees true t {}).size)
    | none => bad s
  | some _, ["dropall"] => ({ s with handles := {} }, "0")
  | some n, "evalp" :: h :: rest =>
    match s.handles.get? h with
    | some t =>
      match parseArgs s n rest with
      | some args => (s, (evalEdge n args t).toStr)
      | none => bad s
    | none => bad s
  | some _, [cmd, h, o, a, b] =>
    if cmd == "op" || cmd == "eop" then
      match parseOp o, s.handles.get? a, s.handles.get? b with
      | some o, some a, some b => s.define h (applyBin gtDriver o a b)
      | _, _, _ => bad s
    else if cmd == "ite" || cmd == "eite" then
      match s.handles.get? o, s.handles.get? a, s.handles.get? b with
      | some f, some g, some k => s.define h (applyIte gtDriver f g k)
      | _, _, _ => bad s
    else bad s
  | some _, _ => bad s

def proto : Proto := { σ := St, init := {}, step := step }

end OxiddModel.Tdd
