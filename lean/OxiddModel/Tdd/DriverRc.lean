import OxiddModel.Util.Proto
import OxiddModel.Tdd.RcS
import Std.Data.HashMap

/-!
Line-protocol driver `tdd-rc`: TDD histories executed on the **counter model** `Tdd/RcS.lean`
(id store of ternary nodes with one `rc` field per inner node, node capacity `nodes=` of the `mgr`
line, exact apply cache, index edge order).

```
mgr vars=<n> nodes=<k> [cache=<k>]             -> ok
const h t|u|f | var h <v> | not h a | notowned h a
  | op h and|or|nand|nor|xor|equiv|imp|imp_strict a b | ite h c a b
                                               -> unfolded tree of h | OOM
clone h a | drop a | dropall                   -> ok
gc                                             -> <inner nodes stored afterwards>
dump   -> I=<k> ; <tree>:<ref_count> | …       (complete store, garbage included)
rc h                                           -> ref_count() of the root node | -
ninner | eq a b | show h
```
`notowned h a` is the edge-level `TVLFunction::not_edge_owned(manager, clone_edge(a))`.
A failing operation (`OOM`) registers nothing (an existing handle of that name is kept); a
successful one drops the old handle of that name *after* the operation (`HashMap::insert`).
The variable order is the identity. Trees: `T | U | F | (v<k> <t> <u> <e>)`.
-/
namespace OxiddModel.Tdd.DriverRc
open OxiddModel OxiddModel.Tdd OxiddModel.Tdd.Refine OxiddModel.Tdd.Rc OxiddModel.CachePolicy

structure DSt where
  n : Nat := 0
  cap : Option Nat := some 0
  r : RSt := RSt.empty
  h : Std.HashMap String Edge := {}

def kv (ws : List String) (key : String) : Option String :=
  ws.findSome? fun w => if w.startsWith (key ++ "=") then some (w.drop (key.length + 1)).toString else none

def parseOp : String → Option BinOp
  | "and" => some .and | "or" => some .or | "nand" => some .nand | "nor" => some .nor
  | "xor" => some .xor | "equiv" => some .equiv | "imp" => some .imp
  | "imp_strict" => some .impStrict | _ => none

def parseConst : String → Option Tri
  | "t" => some .t | "u" => some .u | "f" => some .f | _ => none

/-- canonical tree of an edge (levels = variable numbers) -/
partial def showE (s : Store) : Edge → String
  | .term v => v.toStr
  | .inner i =>
    match s.get? i with
    | some n => s!"(v{n.level} {showE s n.t} {showE s n.u} {showE s n.e})"
    | none => "?"

/-- every recursive call descends at least one level, except the delegations `ite → apply_bin`
and `apply_bin → apply_not` (one call each) -/
def fuelOf (d : DSt) : Nat := 3 * d.n + 8

/-- register a result under `name`: an existing handle of that name is dropped *after* the
operation; on OutOfMemory nothing is registered -/
def put (d : DSt) (name : String) (res : Option Edge × RSt) : DSt × String :=
  match res with
  | (none, r') => ({ d with r := r' }, "OOM")
  | (some e, r') =>
    let out := showE r'.st.store e
    let r'' := match d.h[name]? with
      | some old => dropEdge r' old
      | none => r'
    ({ d with r := r'', h := d.h.insert name e }, out)

def step (d : DSt) (line : String) : DSt × String :=
  let ws := words line
  match ws with
  | "mgr" :: rest =>
    let vars := ((kv rest "vars").bind String.toNat?).getD 0
    let ncap := ((kv rest "nodes").bind String.toNat?).getD 65536
    ({ n := vars, cap := some ncap }, "ok")
  | ["const", name, v] =>
    match parseConst v with
    | some v => put d name (some (.term v), d.r)
    | none => (d, "bad-op")
  | ["var", name, v] =>
    match v.toNat? with
    | some v => if v < d.n then put d name (varR d.cap d.r v) else (d, "err range")
    | none => (d, "bad-op")
  | ["not", name, a] =>
    match d.h[a]? with
    | some f => put d name (notR d.cap Policy.exact (fuelOf d) d.r f)
    | none => (d, "err handle")
  | ["notowned", name, a] =>
    match d.h[a]? with
    | some f => put d name (notEdgeOwnedR d.cap Policy.exact (fuelOf d) (cloneEdge d.r f) f)
    | none => (d, "err handle")
  | ["ite", name, c, a, b] =>
    match d.h[c]?, d.h[a]?, d.h[b]? with
    | some f, some g, some h =>
      put d name (iteR Edge.gtIdx BinOp.tag d.cap Policy.exact (fuelOf d) d.r f g h)
    | _, _, _ => (d, "err handle")
  | ["op", name, op, a, b] =>
    match parseOp op with
    | none => (d, "bad-op")
    | some op =>
      match d.h[a]?, d.h[b]? with
      | some f, some g =>
        put d name (applyR Edge.gtIdx BinOp.tag d.cap Policy.exact op (fuelOf d) d.r f g)
      | _, _ => (d, "err handle")
  | ["clone", name, a] =>
    match d.h[a]? with
    | some f =>
      let r1 := cloneEdge d.r f
      let r2 := match d.h[name]? with
        | some old => dropEdge r1 old
        | none => r1
      ({ d with r := r2, h := d.h.insert name f }, "ok")
    | none => (d, "err handle")
  | ["drop", a] =>
    match d.h[a]? with
    | some f => ({ d with r := dropEdge d.r f, h := d.h.erase a }, "ok")
    | none => (d, "err handle")
  | ["dropall"] =>
    ({ d with r := d.h.fold (fun r _ e => dropEdge r e) d.r, h := {} }, "ok")
  | ["gc"] =>
    let r' := gcR d.n d.r
    ({ d with r := r' }, s!"{r'.numInner}")
  | ["dump"] =>
    let s := d.r.st.store
    let items := ((List.range s.nodes.size).filterMap fun i =>
      match s.get? i with
      | some _ => some s!"{showE s (.inner i)}:{d.r.refCount i}"
      | none => none).toArray.qsort (· < ·)
    let a := if items.isEmpty then "-" else " | ".intercalate items.toList
    (d, s!"I={items.size} ; {a}")
  | ["rc", a] =>
    match d.h[a]? with
    | some (.inner i) => (d, toString (d.r.refCount i))
    | some (.term _) => (d, "-")
    | none => (d, "err handle")
  | ["ninner"] => (d, toString d.r.numInner)
  | ["show", a] =>
    match d.h[a]? with
    | some f => (d, showE d.r.st.store f)
    | none => (d, "err handle")
  | ["eq", a, b] =>
    match d.h[a]?, d.h[b]? with
    | some f, some g => (d, boolStr (f == g))
    | _, _ => (d, "err handle")
  | _ => (d, "bad-op")

def proto : Proto := { σ := DSt, init := {}, step := step }

end OxiddModel.Tdd.DriverRc
