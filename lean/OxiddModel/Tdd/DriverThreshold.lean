import OxiddModel.Util.Proto
import OxiddModel.Tdd.DriverRc
import OxiddModel.Tdd.PropertiesC14T

/-!
Line-protocol driver `c14tt` (stream `c14-threshold-tdd`): the `tdd-rc` protocol
(`Tdd/DriverRc.lean`: counter model of ternary nodes with node capacity `nodes=` of the `mgr`
line) extended by

  `try not <name> a`, `try op <name> and|or|nand|nor|xor|equiv|imp|imp_strict a b`,
  `try ite <name> c a b`

with a fresh `<name>`. The answer is

  `need=<k> free=<j> thr=<oom|ok> OOM`   or   `need=<k> free=<j> thr=<oom|ok> <tree> +<d>`

* `k` is `C14T.neededNot / neededApply / neededIte`: the number of nodes the **capacity-free**
  algorithm allocates from the current state; `j = nodes − numInner`;
* `thr` is the closed form of `C14T.…_oom_iff_needed`: `oom` iff `0 < k ∧ nodes < numInner + k`;
* then the outcome of the capacity-bounded counter model and the slots taken.

`need=?` (flags `hard` / `soft`) as in `Zbdd/DriverThreshold.lean`.
-/
namespace OxiddModel.Tdd.ThresholdDriver
open OxiddModel OxiddModel.Tdd OxiddModel.Tdd.Refine OxiddModel.Tdd.Rc OxiddModel.Tdd.DriverRc
open OxiddModel.Tdd.C14T OxiddModel.CachePolicy

structure TSt where
  d : DSt := {}
  hard : Bool := false
  soft : Bool := false

def needOf (d : DSt) : List String → Option (String × Nat)
  | ["not", name, a] =>
    match d.h[a]? with
    | some f => some (name, neededNot Policy.exact (fuelOf d) d.r.st f)
    | none => none
  | ["op", name, op, a, b] =>
    match parseOp op, d.h[a]?, d.h[b]? with
    | some op, some f, some g =>
      some (name, neededApply Edge.gtIdx BinOp.tag Policy.exact op (fuelOf d) d.r.st f g)
    | _, _, _ => none
  | ["ite", name, c, a, b] =>
    match d.h[c]?, d.h[a]?, d.h[b]? with
    | some f, some g, some h =>
      some (name, neededIte Edge.gtIdx BinOp.tag Policy.exact (fuelOf d) d.r.st f g h)
    | _, _, _ => none
  | _ => none

def capNat : Option Nat → Nat
  | some c => c
  | none => 0

def step (t : TSt) (line : String) : TSt × String :=
  match words line with
  | "try" :: rest =>
    match needOf t.d rest with
    | none => (t, "bad-op")
    | some (name, k) =>
      if t.d.h.contains name then (t, "bad-op") else
      let n0 := t.d.r.numInner
      let c := capNat t.d.cap
      let needS := if t.hard || t.soft then "?" else toString k
      let thr := if 0 < k ∧ c < n0 + k then "oom" else "ok"
      let (d', out) := DriverRc.step t.d (joinSp rest)
      let pre := s!"need={needS} free={c - n0} thr={thr}"
      if out == "OOM" then ({ t with d := d', soft := true }, s!"{pre} OOM")
      else ({ t with d := d' }, s!"{pre} {out} +{d'.r.numInner - n0}")
  | "mgr" :: _ =>
    let (d', out) := DriverRc.step {} line
    ({ d := d', hard := out != "ok", soft := false }, out)
  | ["gc"] =>
    let (d', out) := DriverRc.step t.d line
    ({ t with d := d', soft := false }, out)
  | _ =>
    let (d', out) := DriverRc.step t.d line
    ({ t with d := d', hard := t.hard || out == "OOM" }, out)

def proto : Proto := { σ := TSt, init := {}, step := step }

end OxiddModel.Tdd.ThresholdDriver
