import OxiddModel.Util.Proto
import OxiddModel.Tdd.DriverThreshold
import OxiddModel.Tdd.PropertiesC14TV

/-!
Line-protocol driver `c14ttv` (stream `c14-threshold-rest-tdd`): the `c14tt` protocol
(`Tdd/DriverThreshold.lean`) with one more tried form, `try var <name> <v>`: `need` =
`C14T.neededVar` (one slot iff the node `(v; ⊤ U ⊥)` is not stored), `thr` = the closed form of
`C14T.var_oom_iff_needed`, then the outcome of `varR` under the capacity.
-/
namespace OxiddModel.Tdd.ThresholdDriverV
open OxiddModel OxiddModel.Tdd OxiddModel.Tdd.Refine OxiddModel.Tdd.Rc OxiddModel.Tdd.DriverRc
open OxiddModel.Tdd.C14T OxiddModel.Tdd.ThresholdDriver OxiddModel.CachePolicy

def needOfV (d : DSt) : List String → Option (String × Nat)
  | ["var", name, v] =>
    match v.toNat? with
    | some v => if v < d.n then some (name, neededVar d.r.st.store v) else none
    | none => none
  | ws => needOf d ws

def step (t : TSt) (line : String) : TSt × String :=
  match words line with
  | "try" :: rest =>
    match needOfV t.d rest with
    | none => (t, "bad-op")
    | some (name, k) =>
      if t.d.h.contains name then (t, "bad-op") else
      let n0 := t.d.r.numInner
      let c := capNat t.d.cap
      let needS := if t.hard || t.soft then "?" else toString k
      let thr := if 0 < k ∧ c < n0 + k then "oom" else "ok"
      let (d', out) := DriverRc.step t.d (joinSp rest)
      let pre := s!"need={needS} free={c - n0} thr={thr}"
      if out == "OOM" then ({ t with d := d', soft := true }, s!"{pre} OOM")
      else ({ t with d := d' }, s!"{pre} {out} +{d'.r.numInner - n0}")
  | _ => ThresholdDriver.step t line

def proto : Proto := { σ := TSt, init := {}, step := step }

end OxiddModel.Tdd.ThresholdDriverV
