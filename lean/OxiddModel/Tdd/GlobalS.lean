import OxiddModel.Tdd.RcSHistory
import OxiddModel.Reorder.SwapStoreN
import OxiddModel.Bdd.GlobalS

/-!
# TDD: ONE manager state for operations, handles, garbage collection, `add_vars` and reordering

The pieces of C01/C03/C05/C08 for ternary decision diagrams exist separately: `Tdd/RcS.lean` (id
store with one reference counter per ternary inner node: `var`, `not`, the eight connectives, `ite`,
each under a node capacity, `clone_edge`, `drop_edge`, `Manager::gc`) and `Reorder/SwapStoreN.lean`
(`level_swap`, `set_var_order` for nodes of any arity on a heap `(level, children, rc)` with one
unique table per level). This file puts them into **one machine**, exactly as `Bdd/GlobalS.lean`
does for binary decision diagrams:

* `GSt`: the node store with stored level numbers, apply cache, time stamp and one counter per slot
  (`Rc.RSt`), the number of variables/levels `n`, the order `{v2l, l2v}`, `gcCount`
  (`Manager::gc_count`) and the handle list `hs` (every live `TDDFunction` of the user);
* the per-level unique tables are a *view* (`toS`): for every level the slots whose stored level
  number is that level; `toS : RSt → SStore Tri` and `ofS : SStore Tri → RSt` are the **bridge**
  between the two store representations (ternary node `(level, t, u, e)` ↔ `(level, [t, u, e])`;
  the three terminals are static on both sides and carry no counter); `GlobalSBridge.lean` shows
  that the bridge transports the invariants in both directions;
* `Step`: `const v` (`t_edge`/`u_edge`/`f_edge`: a static terminal, no allocation, cannot fail),
  `var cap v` (node level through `v2l`), `not`, the eight binary connectives, `ite` (the counted
  algorithms `varR/notR/applyR/iteR`, **each under its own capacity** `cap : Option Nat`, so each
  may fail with OutOfMemory at any allocation point), `clone`, `drop`, `gc` (`gcR`, `gc_count`
  advanced), `addVars k` (`k` new empty levels at the bottom, both maps extended by the identity),
  `setVarOrder order` (`set_var_order` → `Manager::reorder`: `pre_gc` clears the apply cache,
  `set_var_order_common` = `SwapStoreN.setVarOrderS 3`, `gc_count` advanced; nothing happens — not
  even the cache clear — when the request has at most one entry or the levels already are in the
  target order, as in the code). As in `Bdd/GlobalS.lean`: the allocator of the reordering always
  succeeds (`KF-reorder-oom`), an invalid request (duplicate / unknown variable: panic in the code)
  is a no-op, like an operation naming a handle position that does not exist and `var v`, `v ≥ n`;
* the recursion fuel is `fuelOf n = 3^(n+2)`: more than the sizes of the unfoldings of three
  ordered ternary diagrams over `n` levels (`size_lt_of_ordered`), so it is never exhausted and is
  not a parameter of a history;
* `Cfg`: what the theorems quantify over besides the history — the cache policy (`Policy.OK`), the
  order on edges used for the operand swap of commutative operators (any), the slot allocator of
  the reordering (`AllocOK`) and the iteration order of the hash tables (`OrderOK`);
* `Expr`/`track`: a **ghost** run beside the machine: for every handle the expression that produced
  it; `Expr.fn` is its three-valued function of the VARIABLES. The machine never reads it.
-/
namespace OxiddModel.Tdd.Global
open OxiddModel.Tdd OxiddModel.Tdd.TD OxiddModel.Tdd.Refine OxiddModel.Tdd.Rc
open OxiddModel.CachePolicy OxiddModel
open OxiddModel.Reorder
open OxiddModel.Reorder.SwapStoreN (Heap SNode SStore setVarOrderS RState levelSwapG chainLe step2
  updateLevels)
open OxiddModel.Bdd.Global (bubbleSortK bubbleSortK_eq invPerm)

/-! ## `set_var_order_common` in a form the kernel can evaluate -/

/-- `SwapStoreN.setVarOrderS` with the structurally recursive `bubbleSortK` for `bubbleSort` -/
def setVarOrderK {T : Type} [DecidableEq T] (k : Nat) (al : Heap T → Nat) (ord : List Nat → List Nat)
    (s : SStore T) (l2v : List Nat) (order : List Nat) : SStore T × List Nat :=
  let n := s.tables.length
  let target := sortOrder n (order.map fun v => l2v.idxOf v)
  let levels := List.range n
  let fromNe := levels.filter fun l => !(s.table l).isEmpty
  let neTarget := fromNe.map fun l => target.getD l l
  let sorted := levels.all fun l => target.getD l l == l
  if sorted then (s, l2v)
  else
    let r0 : RState T := ⟨s, levels, l2v⟩
    let neSorted := chainLe 0 neTarget
    let r1 : RState T × List Nat × Bool :=
      if !neSorted then
        let bs := bubbleSortK neTarget.length neTarget
        let r := bs.2.foldl
          (fun r i => levelSwapG k al ord r (fromNe.getD i 0) (fromNe.getD (i + 1) 0)) r0
        if fromNe.length = n then (r, target, true)
        else (r, (fromNe.zip bs.1).foldl (fun t p => t.set p.1 p.2) target, false)
      else (r0, target, false)
    let r2 := if r1.2.2 then r1.1 else step2 (n * n + n) 0 r1.1 r1.2.1
    (updateLevels r2, r2.l2v)

/-- it *is* the verified model -/
theorem setVarOrderK_eq {T : Type} [DecidableEq T] (k : Nat) (al : Heap T → Nat)
    (ord : List Nat → List Nat) (s : SStore T) (l2v order : List Nat) :
    setVarOrderK k al ord s l2v order = setVarOrderS k al ord s l2v order := by
  unfold setVarOrderK setVarOrderS
  simp only [bubbleSortK_eq]

/-! ## the bridge between the two store representations -/

/-- an edge of the TDD store as an edge of `SwapStoreN` (terminals by value on both sides) -/
def encE : Edge → SwapStoreN.Edge Tri
  | .term v => .term v
  | .inner i => .inner i

def decE : SwapStoreN.Edge Tri → Edge
  | .term v => .term v
  | .inner i => .inner i

/-- level and children of a ternary node as a `SwapStoreN` shape -/
def encN (nd : Node) : SwapStoreN.Node Tri := ⟨nd.level, [encE nd.t, encE nd.u, encE nd.e]⟩

/-- … and back (the default child is never used: all nodes have three children) -/
def decN (n : SwapStoreN.Node Tri) : Node :=
  ⟨n.level, decE (n.ch.getD 0 (.term .f)), decE (n.ch.getD 1 (.term .f)), decE (n.ch.getD 2 (.term .f))⟩

/-- the heap of `SwapStoreN.lean` seen in an `RSt`: slot `i` holds the node of the store together
with its counter -/
def toHeap (r : RSt) : Heap Tri :=
  ⟨(List.range r.st.store.nodes.size).map fun i =>
    (r.st.store.get? i).map fun nd =>
      (⟨nd.level, [encE nd.t, encE nd.u, encE nd.e], rcGet r.rc i⟩ : SNode Tri)⟩

/-- the unique table of level `l`: the slots whose stored level number is `l` -/
def tableOf (s : Store) (l : Nat) : List Nat :=
  (List.range s.nodes.size).filter fun i =>
    match s.get? i with
    | some nd => nd.level == l
    | none => false

/-- `RSt` (+ the number of levels) as a `SwapStoreN.SStore` -/
def toS (r : RSt) (n : Nat) : SStore Tri := ⟨toHeap r, (List.range n).map (tableOf r.st.store)⟩

def slotRc : Option (SNode Tri) → Nat
  | some nd => nd.rc
  | none => 0

/-- a `SwapStoreN.SStore` as an `RSt` with an empty apply cache -/
def ofS (s : SStore Tri) (tick : Nat) : RSt :=
  ⟨⟨⟨(s.h.slots.map fun o => o.map fun nd => decN nd.toNode).toArray⟩, [], tick⟩,
    (s.h.slots.map slotRc).toArray⟩

/-! ## the machine -/

/-- what a history does not fix -/
structure Cfg where
  p : APolicy
  gt : Edge → Edge → Bool
  al : Heap Tri → Nat
  ord : List Nat → List Nat

structure Cfg.OK (c : Cfg) : Prop where
  p : c.p.OK
  al : ∀ h : Heap Tri, h.get? (c.al h) = none
  ord : ∀ l, (c.ord l).Perm l

/-- the simplest configuration: ideal cache, index order on edges, first free slot, tables iterated
front to back -/
def Cfg.std : Cfg := ⟨Policy.exact, Edge.gtIdx, Heap.firstFree, id⟩

/-- the manager and the user's handles -/
structure GSt where
  /-- node store (stored level numbers), apply cache, time stamp; one counter per slot -/
  r : RSt
  /-- `num_vars() = num_levels()` -/
  n : Nat
  /-- `var_to_level` -/
  v2l : List Nat
  /-- `level_to_var` -/
  l2v : List Nat
  /-- `Manager::gc_count()` -/
  gcCount : Nat
  /-- the live handles (owned edges) -/
  hs : List Edge

def GSt.empty : GSt := ⟨RSt.empty, 0, [], [], 0, []⟩

inductive Step where
  /-- `t_edge` / `u_edge` / `f_edge` -/
  | const (v : Tri)
  | var (cap : Option Nat) (v : Nat)
  | not (cap : Option Nat) (a : Nat)
  | bin (cap : Option Nat) (op : BinOp) (a b : Nat)
  | ite (cap : Option Nat) (a b c : Nat)
  | clone (a : Nat)
  | drop (a : Nat)
  | gc
  | addVars (k : Nat)
  | setVarOrder (order : List Nat)
deriving DecidableEq, Repr

/-- more than the unfolded sizes of three ordered ternary diagrams over `n` levels -/
def fuelOf (n : Nat) : Nat := 3 ^ (n + 2)

/-- the step kinds that run an algorithm producing a new handle: `none` = the step names a handle
position / variable that does not exist (no-op), `some (none, r')` = OutOfMemory,
`some (some x, r')` = success with the owned result `x` -/
def opRes (c : Cfg) (g : GSt) : Step → Option (Option Edge × RSt)
  | .const v => some (some (.term v), g.r)
  | .var cap v => if v < g.n then some (varR cap g.r (g.v2l.getD v 0)) else none
  | .not cap a =>
    match g.hs[a]? with
    | some f => some (notR cap c.p (fuelOf g.n) g.r f)
    | none => none
  | .bin cap op a b =>
    match g.hs[a]?, g.hs[b]? with
    | some f, some h => some (applyR c.gt BinOp.tag cap c.p op (fuelOf g.n) g.r f h)
    | _, _ => none
  | .ite cap a b d =>
    match g.hs[a]?, g.hs[b]?, g.hs[d]? with
    | some f, some h, some k => some (iteR c.gt BinOp.tag cap c.p (fuelOf g.n) g.r f h k)
    | _, _, _ => none
  | _ => none

/-- the request names each variable at most once and only variables of the manager -/
def reorderValid (g : GSt) (order : List Nat) : Bool :=
  decide order.Nodup && order.all fun v => decide (v < g.n)

/-- `sorted` of `set_var_order_common`: every level already is at its target position -/
def reorderSorted (g : GSt) (order : List Nat) : Bool :=
  let target := sortOrder g.n (order.map fun v => g.l2v.idxOf v)
  (List.range g.n).all fun l => target.getD l l == l

/-- `set_var_order(order)` -/
def reorder (c : Cfg) (g : GSt) (order : List Nat) : GSt :=
  if order.length ≤ 1 || !reorderValid g order || reorderSorted g order then g
  else
    let res := setVarOrderK 3 c.al c.ord (toS g.r g.n) g.l2v order
    { r := ofS res.1 g.r.st.tick, n := g.n, v2l := invPerm g.n res.2, l2v := res.2,
      gcCount := g.gcCount + 1, hs := g.hs }

/-- a finished operation: the result becomes a new handle; after OutOfMemory the handles are
the old ones -/
def pushOp (g : GSt) : Option (Option Edge × RSt) → GSt
  | some (some x, r') => { g with r := r', hs := x :: g.hs }
  | some (none, r') => { g with r := r' }
  | none => g

def step (c : Cfg) (g : GSt) : Step → GSt
  | .clone a =>
    match g.hs[a]? with
    | some f => { g with r := cloneEdge g.r f, hs := f :: g.hs }
    | none => g
  | .drop a =>
    match g.hs[a]? with
    | some f => { g with r := dropEdge g.r f, hs := g.hs.eraseIdx a }
    | none => g
  | .gc => { g with r := gcR g.n g.r, gcCount := g.gcCount + 1 }
  | .addVars k =>
    { g with n := g.n + k, v2l := g.v2l ++ List.range' g.n k, l2v := g.l2v ++ List.range' g.n k }
  | .setVarOrder order => reorder c g order
  | .const v => pushOp g (opRes c g (.const v))
  | .var cap v => pushOp g (opRes c g (.var cap v))
  | .not cap a => pushOp g (opRes c g (.not cap a))
  | .bin cap op a b => pushOp g (opRes c g (.bin cap op a b))
  | .ite cap a b d => pushOp g (opRes c g (.ite cap a b d))

/-- a history from the empty manager -/
def run (c : Cfg) (hist : List Step) : GSt := hist.foldl (step c) GSt.empty

/-! ## the ghost: which expression produced a handle -/

inductive Expr where
  | const (v : Tri)
  | var (v : Nat)
  | not (e : Expr)
  | bin (op : BinOp) (e₁ e₂ : Expr)
  | ite (e₁ e₂ e₃ : Expr)
deriving DecidableEq, Repr, Inhabited

/-- the three-valued function of the VARIABLES an expression specifies -/
def Expr.fn : Expr → (Nat → Tri) → Tri
  | .const v, _ => v
  | .var v, ρ => ρ v
  | .not e, ρ => (e.fn ρ).not
  | .bin op e₁ e₂, ρ => op.sem (e₁.fn ρ) (e₂.fn ρ)
  | .ite e₁ e₂ e₃, ρ => Tri.ite (e₁.fn ρ) (e₂.fn ρ) (e₃.fn ρ)

/-- the expression of the handle a successful step creates -/
def newExpr (es : List Expr) : Step → Expr
  | .const v => .const v
  | .var _ v => .var v
  | .not _ a => .not (es.getD a default)
  | .bin _ op a b => .bin op (es.getD a default) (es.getD b default)
  | .ite _ a b d => .ite (es.getD a default) (es.getD b default) (es.getD d default)
  | _ => default

/-- the ghost step: a successful operation pushes its expression, a clone copies, a drop removes;
failed operations, `gc`, `addVars`, `setVarOrder` leave every handle's expression alone -/
def track (c : Cfg) (g : GSt) (es : List Expr) : Step → List Expr
  | .clone a => if a < g.hs.length then es.getD a default :: es else es
  | .drop a => es.eraseIdx a
  | .gc => es
  | .addVars _ => es
  | .setVarOrder _ => es
  | s =>
    match opRes c g s with
    | some (some _, _) => newExpr es s :: es
    | _ => es

/-- machine and ghost side by side -/
def runT (c : Cfg) (hist : List Step) : GSt × List Expr :=
  hist.foldl (fun x s => (step c x.1 s, track c x.1 x.2 s)) (GSt.empty, [])

theorem runT_fst (c : Cfg) (hist : List Step) : (runT c hist).1 = run c hist := by
  unfold runT run
  generalize GSt.empty = g0
  generalize ([] : List Expr) = e0
  induction hist generalizing g0 e0 with
  | nil => rfl
  | cons s rest ih => exact ih _ _

/-- value of a diagram under a three-valued assignment of the VARIABLES (levels outside the map
read as themselves) -/
def evalL (l2v : List Nat) (ρ : Nat → Tri) (t : TD) : Tri := eval (fun l => ρ (l2v.getD l l)) t

end OxiddModel.Tdd.Global
