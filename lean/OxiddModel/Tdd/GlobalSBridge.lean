import OxiddModel.Tdd.GlobalS
import OxiddModel.Tdd.PropertiesC05R
import OxiddModel.Reorder.PropertiesStoreN

/-!
# TDD: the bridge between `Rc.RSt` and `SwapStoreN.SStore Tri`

`toS` / `ofS` (`GlobalS.lean`) translate between the store of the operation algorithms (array of
ternary nodes `(level, t, u, e)` + counter array) and the store of the reordering algorithm (list
of slots `(level, [t, u, e], rc)` + per-level tables). Here:

* `toHeap_sh`, `den_toS`: the node shapes and the `Denotes` relation are the same on both sides;
* `toS_inv`: the invariants of the operation side (`RcInv` for the handle list, `OrdInv`, `Unique`,
  `NoRed`) give the invariant `SwapStoreN.Inv 3` of the reordering side for the handle multiset;
* `ofS_rc/ofS_ord/ofS_unique/ofS_nored`, `ofS_den`: `SwapStoreN.Inv 3` gives the invariants of the
  operation side, and `DenT` gives `Denotes`.
-/
namespace OxiddModel.Tdd.Global
open OxiddModel.Tdd OxiddModel.Tdd.TD OxiddModel.Tdd.Refine OxiddModel.Tdd.Rc
open OxiddModel.CachePolicy OxiddModel
open OxiddModel.Reorder
open OxiddModel.Reorder.SwapStoreN (Heap SNode SStore DenT pt pts)

/-- the handle multiset as the `ext` function of `SwapStoreN.Inv` -/
def extOfHs (hs : List Edge) : Nat → Nat := fun k => hs.count (.inner k)

/-! ## edges and nodes -/

theorem decE_encE (e : Edge) : decE (encE e) = e := by cases e <;> rfl
theorem encE_decE (e : SwapStoreN.Edge Tri) : encE (decE e) = e := by cases e <;> rfl

theorem encE_inj {a b : Edge} (h : encE a = encE b) : a = b := by
  rw [← decE_encE a, ← decE_encE b, h]

theorem encE_inner {e : Edge} {j : Nat} : encE e = .inner j ↔ e = .inner j := by
  cases e <;> simp [encE]

theorem decE_inner {e : SwapStoreN.Edge Tri} {j : Nat} : decE e = .inner j ↔ e = .inner j := by
  cases e <;> simp [decE]

theorem decN_encN (nd : Node) : decN (encN nd) = nd := by
  cases nd; simp [decN, encN, decE_encE]

theorem encN_decN {n : SwapStoreN.Node Tri} (h : n.ch.length = 3) : encN (decN n) = n := by
  obtain ⟨l, ch⟩ := n
  obtain ⟨a, b, c, rfl⟩ := SwapStoreN.list_len3 h
  simp [decN, encN, encE_decE]

theorem encN_inj {a b : Node} (h : encN a = encN b) : a = b := by
  rw [← decN_encN a, ← decN_encN b, h]

theorem pt_encE (e : Edge) (j : Nat) : pt (encE e) j = cnt e (.inner j) := by
  cases e with
  | term v => simp [encE, pt, cnt]
  | inner i =>
    simp only [encE, pt, cnt]
    by_cases h : i = j <;> simp [h]

theorem pts_encN (nd : Node) (j : Nat) : pts (encN nd).ch j = refsOpt (.inner j) (some nd) := by
  simp [encN, pts, pt_encE, refsOpt, Nat.add_assoc]

/-! ## `toS` -/

theorem get?_lt {s : Store} {i : Nat} {nd : Node} (h : s.get? i = some nd) : i < s.nodes.size :=
  slots_get?_lt h

theorem toHeap_get? (r : RSt) (i : Nat) :
    (toHeap r).get? i =
      (r.st.store.get? i).map fun nd =>
        (⟨nd.level, [encE nd.t, encE nd.u, encE nd.e], rcGet r.rc i⟩ : SNode Tri) := by
  unfold toHeap Heap.get?
  simp only [List.getElem?_map]
  by_cases hi : i < r.st.store.nodes.size
  · simp [hi]
  · have : r.st.store.get? i = none := by simp [Store.get?, Slots.get?, hi]
    simp [hi, this]

theorem toHeap_sh (r : RSt) (i : Nat) : (toHeap r).sh i = (r.st.store.get? i).map encN := by
  unfold Heap.sh
  rw [toHeap_get?]
  cases r.st.store.get? i with
  | none => rfl
  | some nd => rfl

theorem toHeap_sh_some {r : RSt} {i : Nat} {n : SwapStoreN.Node Tri} (h : (toHeap r).sh i = some n) :
    ∃ nd, r.st.store.get? i = some nd ∧ n = encN nd := by
  rw [toHeap_sh] at h
  cases hg : r.st.store.get? i with
  | none => rw [hg] at h; cases h
  | some nd => rw [hg] at h; cases h; exact ⟨nd, rfl, rfl⟩

theorem toHeap_rcOf (r : RSt) (i : Nat) :
    (toHeap r).rcOf i = if (r.st.store.get? i).isSome then rcGet r.rc i else 0 := by
  unfold Heap.rcOf
  rw [toHeap_get?]
  cases r.st.store.get? i <;> rfl

theorem range_map_get? {α β : Type} (a : Array (Option α)) (F : Option α → β) :
    (List.range a.size).map (fun i => F (Slots.get? a i)) = a.toList.map F := by
  apply List.ext_getElem
  · simp
  · intro i h1 h2
    have hi : i < a.size := by simpa using h1
    simp [Slots.get?, hi]

theorem refs_eq_parents (r : RSt) (j : Nat) :
    (toHeap r).refs j = parents r.st.store (.inner j) := by
  unfold Heap.refs parents parentsA toHeap
  simp only [List.map_map]
  rw [← range_map_get? r.st.store.nodes (refsOpt (.inner j))]
  congr 1
  apply List.map_congr_left
  intro i _
  show SwapStoreN.cntO ((r.st.store.get? i).map _) j = refsOpt (.inner j) (Slots.get? r.st.store.nodes i)
  change SwapStoreN.cntO ((Slots.get? r.st.store.nodes i).map _) j = _
  cases Slots.get? r.st.store.nodes i with
  | none => rfl
  | some nd => exact pts_encN nd j

theorem toS_table (r : RSt) (n l : Nat) :
    (toS r n).table l = if l < n then tableOf r.st.store l else [] := by
  unfold SStore.table toS
  simp only [List.getD_eq_getElem?_getD, List.getElem?_map]
  by_cases hl : l < n <;> simp [hl]

theorem mem_tableOf {s : Store} {l i : Nat} :
    i ∈ tableOf s l ↔ ∃ nd, s.get? i = some nd ∧ nd.level = l := by
  unfold tableOf
  simp only [List.mem_filter, List.mem_range]
  constructor
  · rintro ⟨_, h⟩
    cases hg : s.get? i with
    | none => simp [hg] at h
    | some nd => exact ⟨nd, rfl, by simpa [hg] using h⟩
  · rintro ⟨nd, hg, hl⟩
    exact ⟨get?_lt hg, by simp [hg, hl]⟩

theorem parents_zero_of_free {r : RSt} {ext : List Edge} (h : RcInv r ext) {j : Nat}
    (hj : r.st.store.get? j = none) : parents r.st.store (.inner j) = 0 := by
  apply parents_zero
  intro k n hk
  obtain ⟨h1, h2, h3⟩ := h.kids_ok k n hk
  refine ⟨?_, ?_, ?_⟩ <;> intro heq
  · rw [heq] at h1; obtain ⟨m, hm⟩ := h1; rw [hj] at hm; cases hm
  · rw [heq] at h2; obtain ⟨m, hm⟩ := h2; rw [hj] at hm; cases hm
  · rw [heq] at h3; obtain ⟨m, hm⟩ := h3; rw [hj] at hm; cases hm

theorem mem_encN_ch {nd : Node} {j : Nat} (h : SwapStoreN.Edge.inner j ∈ (encN nd).ch) :
    nd.t = .inner j ∨ nd.u = .inner j ∨ nd.e = .inner j := by
  simp only [encN, List.mem_cons, List.not_mem_nil, or_false] at h
  rcases h with h | h | h
  · exact .inl (encE_inner.mp h.symm)
  · exact .inr (.inl (encE_inner.mp h.symm))
  · exact .inr (.inr (encE_inner.mp h.symm))

/-- **`toS_inv`.** The invariants of the operation side give the invariant of the reordering side
for the same handle multiset. -/
theorem toS_inv {r : RSt} {hs : List Edge} {n : Nat} (hrc : RcInv r hs) (ho : OrdInv n r)
    (hu : r.st.store.Unique) (hr : r.st.store.NoRed) :
    SwapStoreN.Inv 3 (extOfHs hs) (toS r n) where
  kpos := by decide
  arity i nn hi := by
    obtain ⟨nd, _, rfl⟩ := toHeap_sh_some (r := r) hi
    rfl
  tbl_iff l i := by
    rw [toS_table]
    show _ ↔ ∃ nd, (toHeap r).sh i = some nd ∧ nd.level = l
    rw [toHeap_sh]
    by_cases hl : l < n
    · simp only [hl, if_true]
      rw [mem_tableOf]
      constructor
      · rintro ⟨nd, hg, hlv⟩; exact ⟨encN nd, by rw [hg]; rfl, hlv⟩
      · rintro ⟨nn, hg, hlv⟩
        cases hgi : r.st.store.get? i with
        | none => rw [hgi] at hg; cases hg
        | some nd => rw [hgi] at hg; cases hg; exact ⟨nd, rfl, hlv⟩
    · simp only [hl, if_false]
      constructor
      · intro h; cases h
      · rintro ⟨nn, hg, hlv⟩
        cases hgi : r.st.store.get? i with
        | none => rw [hgi] at hg; cases hg
        | some nd =>
          rw [hgi] at hg; cases hg
          have := ho.bound i nd hgi
          have : nd.level = l := hlv
          omega
  tbl_nodup l := by
    rw [toS_table]
    split
    · exact List.Nodup.sublist List.filter_sublist List.nodup_range
    · exact List.nodup_nil
  ordered i nn hi k hk := by
    obtain ⟨nd, hg, rfl⟩ := toHeap_sh_some (r := r) hi
    show ∃ m, (toHeap r).sh k = some m ∧ _
    rw [toHeap_sh]
    have hkid := mem_encN_ch hk
    obtain ⟨h1, h2, h3⟩ := hrc.kids_ok i nd hg
    have : Has r.st.store (.inner k) := by
      rcases hkid with e | e | e
      · rw [e] at h1; exact h1
      · rw [e] at h2; exact h2
      · rw [e] at h3; exact h3
    obtain ⟨m, hm⟩ := this
    exact ⟨encN m, by rw [hm]; rfl, ho.ord i nd k m hg hkid hm⟩
  nored i nn hi := by
    obtain ⟨nd, hg, rfl⟩ := toHeap_sh_some (r := r) hi
    rintro ⟨x, _, hall⟩
    have e1 := hall (encE nd.t) (by simp [encN])
    have e2 := hall (encE nd.u) (by simp [encN])
    have e3 := hall (encE nd.e) (by simp [encN])
    exact hr i nd hg ⟨encE_inj (e1.trans e2.symm), encE_inj (e2.trans e3.symm)⟩
  uniq i j nn hi hj := by
    obtain ⟨nd, hg, rfl⟩ := toHeap_sh_some (r := r) hi
    obtain ⟨nd', hg', he⟩ := toHeap_sh_some (r := r) hj
    have := encN_inj he; subst this
    exact hu i j nd hg hg'
  rc j := by
    show (toHeap r).rcOf j = SwapStoreN.live01 (toHeap r) j + extOfHs hs j + (toHeap r).refs j
    rw [toHeap_rcOf, refs_eq_parents]
    unfold SwapStoreN.live01
    rw [toHeap_sh]
    cases hg : r.st.store.get? j with
    | some nd =>
      simp only [Option.isSome_some, if_true, Option.map_some]
      rw [hrc.rc_eq j nd hg]; rfl
    | none =>
      simp only [Option.isSome_none, Option.map_none]
      have h1 : extOfHs hs j = 0 := by
        unfold extOfHs
        apply List.count_eq_zero.mpr
        intro hm
        obtain ⟨m, hm⟩ := hrc.ext_ok _ hm
        rw [hg] at hm; cases hm
      rw [h1, parents_zero_of_free hrc hg]
      rfl

theorem toS_len (r : RSt) (n : Nat) : (toS r n).tables.length = n := by simp [toS]

/-- `Denotes` on the operation side is `DenT` on the reordering side -/
theorem den_toS {r : RSt} {x : Edge} {t : TD} (h : Denotes r.st.store x t) :
    DenT (toHeap r).sh (encE x) t := by
  induction h with
  | term => exact .term
  | @inner i l t u e tt tu te hi _ _ _ iht ihu ihe =>
    refine .inner (l := l) (a := encE t) (b := encE u) (c := encE e) ?_ iht ihu ihe
    rw [toHeap_sh, hi]; rfl

/-! ## `ofS` -/

theorem ofS_rcGet (s : SStore Tri) (tick i : Nat) : rcGet (ofS s tick).rc i = s.h.rcOf i := by
  unfold rcGet ofS Heap.rcOf Heap.get?
  simp only [Array.getD_eq_getD_getElem?, List.getElem?_toArray, List.getElem?_map]
  cases s.h.slots[i]? with
  | none => rfl
  | some o => cases o <;> rfl

theorem ofS_get? (s : SStore Tri) (tick i : Nat) :
    (ofS s tick).st.store.get? i = (s.h.sh i).map decN := by
  unfold ofS Store.get? Slots.get? Heap.sh Heap.get?
  simp only [List.getElem?_toArray, List.getElem?_map]
  cases s.h.slots[i]? with
  | none => rfl
  | some o => cases o <;> rfl

theorem ofS_get?_some {s : SStore Tri} {tick i : Nat} {nd : Node}
    (h : (ofS s tick).st.store.get? i = some nd) : ∃ n, s.h.sh i = some n ∧ nd = decN n := by
  rw [ofS_get?] at h
  cases hg : s.h.sh i with
  | none => rw [hg] at h; cases h
  | some n => rw [hg] at h; cases h; exact ⟨n, rfl, rfl⟩

theorem count_pos_of_mem {hs : List Edge} {k : Nat} (h : .inner k ∈ hs) : 0 < extOfHs hs k :=
  List.count_pos_iff.mpr h

theorem ofS_parents {ext : Nat → Nat} {s : SStore Tri} (hinv : SwapStoreN.Inv 3 ext s) (tick j : Nat) :
    parents (ofS s tick).st.store (.inner j) = s.h.refs j := by
  unfold parents parentsA Heap.refs ofS
  simp only [List.map_map]
  apply congrArg
  apply List.map_congr_left
  intro o ho
  cases o with
  | none => rfl
  | some sn =>
    obtain ⟨i, hi, hio⟩ := List.mem_iff_getElem.mp ho
    have hsh : s.h.sh i = some sn.toNode := by
      unfold Heap.sh Heap.get?
      rw [List.getElem?_eq_getElem hi, hio]; rfl
    have har := hinv.arity i _ hsh
    show refsOpt (.inner j) (some (decN sn.toNode)) = pts sn.ch j
    rw [← pts_encN, encN_decN har]; rfl

theorem mem_ch_of_kid {n : SwapStoreN.Node Tri} (h : n.ch.length = 3) {c : Edge}
    (hk : (decN n).t = c ∨ (decN n).u = c ∨ (decN n).e = c) : encE c ∈ n.ch := by
  obtain ⟨l, ch⟩ := n
  obtain ⟨a, b, d, rfl⟩ := SwapStoreN.list_len3 h
  simp only [decN, List.getD_cons_zero, List.getD_cons_succ] at hk
  rcases hk with e | e | e <;> (rw [← e, encE_decE]; simp)

theorem ofS_rc {s : SStore Tri} {hs : List Edge} (hinv : SwapStoreN.Inv 3 (extOfHs hs) s) (tick : Nat) :
    RcInv (ofS s tick) hs where
  ext_ok e he := by
    cases e with
    | term b => trivial
    | inner k =>
      have := hinv.live_of_ext (count_pos_of_mem he)
      obtain ⟨nd, hnd⟩ := Option.ne_none_iff_exists'.mp this
      exact ⟨decN nd, by rw [ofS_get?, hnd]; rfl⟩
  kids_ok i nd hi := by
    obtain ⟨n, hn, rfl⟩ := ofS_get?_some hi
    have har := hinv.arity i n hn
    have key : ∀ c, ((decN n).t = c ∨ (decN n).u = c ∨ (decN n).e = c) → Has (ofS s tick).st.store c := by
      intro c hc
      cases c with
      | term b => trivial
      | inner k =>
        obtain ⟨m, hm, _⟩ := hinv.ordered i n hn k (mem_ch_of_kid har hc)
        exact ⟨decN m, by rw [ofS_get?, hm]; rfl⟩
    exact ⟨key _ (.inl rfl), key _ (.inr (.inl rfl)), key _ (.inr (.inr rfl))⟩
  cache_ok _ _ h := by cases h
  rc_eq i nd hi := by
    obtain ⟨n, hn, rfl⟩ := ofS_get?_some hi
    rw [ofS_rcGet, ofS_parents hinv]
    have := hinv.rc i
    simp only [SwapStoreN.live01, hn, Option.isSome_some, if_true] at this
    rw [this]
    rfl

theorem ofS_ord {ext : Nat → Nat} {s : SStore Tri} (hinv : SwapStoreN.Inv 3 ext s) (tick : Nat) :
    OrdInv s.tables.length (ofS s tick) where
  ord i nd j m hi hc hj := by
    obtain ⟨n, hn, rfl⟩ := ofS_get?_some hi
    obtain ⟨n', hn', rfl⟩ := ofS_get?_some hj
    obtain ⟨m', hm', hlt⟩ := hinv.ordered i n hn j (mem_ch_of_kid (hinv.arity i n hn) hc)
    rw [hn'] at hm'; cases hm'; exact hlt
  bound i nd hi := by
    obtain ⟨n, hn, rfl⟩ := ofS_get?_some hi
    exact hinv.level_lt hn
  cache _ _ h := by cases h

theorem ofS_unique {ext : Nat → Nat} {s : SStore Tri} (hinv : SwapStoreN.Inv 3 ext s) (tick : Nat) :
    (ofS s tick).st.store.Unique := by
  intro i j nd hi hj
  obtain ⟨n, hn, e1⟩ := ofS_get?_some hi
  obtain ⟨n', hn', e2⟩ := ofS_get?_some hj
  have : n = n' := by
    rw [← encN_decN (hinv.arity i n hn), ← encN_decN (hinv.arity j n' hn'), ← e1, ← e2]
  subst this
  exact hinv.uniq i j n hn hn'

theorem ofS_nored {ext : Nat → Nat} {s : SStore Tri} (hinv : SwapStoreN.Inv 3 ext s) (tick : Nat) :
    (ofS s tick).st.store.NoRed := by
  intro i nd hi
  obtain ⟨n, hn, rfl⟩ := ofS_get?_some hi
  rintro ⟨e1, e2⟩
  apply hinv.nored i n hn
  obtain ⟨l, ch⟩ := n
  obtain ⟨a, b, d, rfl⟩ := SwapStoreN.list_len3 (hinv.arity i _ hn)
  simp only [decN, List.getD_cons_zero, List.getD_cons_succ] at e1 e2
  have h1 : a = b := by rw [← encE_decE a, ← encE_decE b, e1]
  have h2 : b = d := by rw [← encE_decE b, ← encE_decE d, e2]
  subst h1 h2
  exact ⟨a, by simp, fun y hy => by simpa using hy⟩

/-- `DenT` on the reordering side is `Denotes` on the operation side -/
theorem ofS_den {s : SStore Tri} (tick : Nat) {x : SwapStoreN.Edge Tri} {t : TD}
    (h : DenT s.h.sh x t) : Denotes (ofS s tick).st.store (decE x) t := by
  induction h with
  | term => exact .term
  | @inner i l a b c ta tb tc hi _ _ _ iha ihb ihc =>
    refine .inner (l := l) (t := decE a) (u := decE b) (e := decE c) ?_ iha ihb ihc
    rw [ofS_get?, hi]; rfl

end OxiddModel.Tdd.Global
