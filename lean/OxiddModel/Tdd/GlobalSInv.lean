import OxiddModel.Tdd.GlobalSBridge
import OxiddModel.Tdd.GlobalSNoRed
import OxiddModel.Bdd.GlobalSOrder

/-!
# TDD: the invariant of the global machine and the meaning of handles — definitions, small lemmas

* `GInv g`: counters exact for the handle list (`RcInv`), store ordered with all levels `< n`
  (`OrdInv`), hash consed (`Unique`), reduced (`NoRed`), cache sound (`CacheOK`), maps inverse
  (`OrdOK`, shared with `Bdd/GlobalSInv.lean`);
* `HDen s l2v x e`: the edge `x` denotes a diagram whose three-valued function of the VARIABLES is
  `e.fn`; `Sem g es`: handle by handle (`All2`);
* sizes of ordered ternary diagrams over `n` levels (`size_lt_of_ordered`): the fuel `fuelOf n`
  suffices.
-/
namespace OxiddModel.Tdd.Global
open OxiddModel.Tdd OxiddModel.Tdd.TD OxiddModel.Tdd.Refine OxiddModel.Tdd.Rc
open OxiddModel.CachePolicy OxiddModel
open OxiddModel.Reorder
open OxiddModel.Reorder.SwapStoreN (Heap SNode SStore DenT)
open OxiddModel.Bdd.Global (All2 forall₂_length forall₂_get forall₂_getD forall₂_eraseIdx
  forall₂_imp_mem OrdOK getD_lt getD_ge ordOK_empty ordOK_addVars getD_append_range')

/-- the tree-level edge order the cache invariant is stated for (the specifications hold for every
such order; none of the semantic statements depends on it) -/
def gtT0 : TD → TD → Bool := fun _ _ => false

theorem count_cons_eraseIdx {l : List Edge} {a : Nat} {f : Edge} (h : l[a]? = some f) (e : Edge) :
    (f :: l.eraseIdx a).count e = l.count e := by
  induction l generalizing a with
  | nil => simp at h
  | cons y tl ih =>
    cases a with
    | zero => simp at h; subst h; simp
    | succ a =>
      simp at h
      have := ih h
      simp only [List.eraseIdx_cons_succ, List.count_cons] at this ⊢
      omega

/-! ## the invariant -/

structure GInv (g : GSt) : Prop where
  /-- counters exact: `rc = 1 + handles + stored parent edges`; no dangling edge -/
  rc : RcInv g.r g.hs
  /-- ordered w.r.t. the stored level numbers, all levels `< n` -/
  ord : OrdInv g.n g.r
  /-- hash consed -/
  uniq : g.r.st.store.Unique
  /-- reduced -/
  nored : g.r.st.store.NoRed
  /-- every cache entry is the result of its key -/
  cache : CacheOK gtT0 g.r.st.store g.r.st.cache
  /-- the var/level maps are mutually inverse -/
  perm : OrdOK g.n g.v2l g.l2v

/-- the edge denotes a diagram whose function of the variables is `e.fn` -/
def HDen (s : Store) (l2v : List Nat) (x : Edge) (e : Expr) : Prop :=
  ∃ t, Denotes s x t ∧ ∀ ρ, evalL l2v ρ t = e.fn ρ

/-- every handle denotes the function of its producing expression -/
def Sem (g : GSt) (es : List Expr) : Prop := All2 (HDen g.r.st.store g.l2v) g.hs es

theorem HDen.mono {s s' : Store} {l2v : List Nat} {x : Edge} {e : Expr} (h : HDen s l2v x e)
    (hle : s.Le s') : HDen s' l2v x e := by
  obtain ⟨t, hd, he⟩ := h
  exact ⟨t, hd.mono hle, he⟩

/-- the invariant of the reordering side holds at all times (through the bridge) -/
theorem GInv.sinv {g : GSt} (h : GInv g) : SwapStoreN.Inv 3 (extOfHs g.hs) (toS g.r g.n) :=
  toS_inv h.rc h.ord h.uniq h.nored

/-- every diagram of the store is ordered and reduced -/
theorem GInv.nf {g : GSt} (h : GInv g) {x : Edge} {t : TD} (hd : Denotes g.r.st.store x t) :
    NF t := h.sinv.denT_nf (den_toS hd)

/-! ## levels and sizes of diagrams -/

theorem denotes_lvl {s : Store} {n : Nat} (hb : ∀ i nd, s.get? i = some nd → nd.level < n)
    {x : Edge} {t : TD} (hd : Denotes s x t) : levelsBelow n t := by
  induction hd with
  | term => trivial
  | inner hi _ _ _ iht ihu ihe => exact ⟨hb _ _ hi, iht, ihu, ihe⟩

theorem GInv.lvl {g : GSt} (h : GInv g) {x : Edge} {t : TD} (hd : Denotes g.r.st.store x t) :
    levelsBelow g.n t := denotes_lvl h.ord.bound hd

theorem level_ge_of_rootAbove {l : Nat} {x : TD} (h : rootAbove l x) :
    ∀ lv, x.level = some lv → l + 1 ≤ lv := by
  intro lv hlv
  cases x with
  | leaf v => cases hlv
  | node k a b c => simp only [TD.level] at hlv; cases hlv; exact h

theorem size_lt_of_ordered {n : Nat} : ∀ (t : TD) (k : Nat), NF t → levelsBelow n t →
    (∀ lv, t.level = some lv → k ≤ lv) → t.size + 1 ≤ 3 ^ (n - k + 1) := by
  intro t
  induction t with
  | leaf b =>
    intro k _ _ _
    have : 3 ^ 1 ≤ 3 ^ (n - k + 1) := Nat.pow_le_pow_right (by omega) (by omega)
    simp [TD.size]; omega
  | node l a b c iha ihb ihc =>
    intro k hnf hl hk
    obtain ⟨na, nb, nc, ra, rb, rc, _⟩ := hnf
    obtain ⟨hln, hla, hlb, hlc⟩ := hl
    have hkl : k ≤ l := hk l rfl
    have h1 := iha (l + 1) na hla (level_ge_of_rootAbove ra)
    have h2 := ihb (l + 1) nb hlb (level_ge_of_rootAbove rb)
    have h3 := ihc (l + 1) nc hlc (level_ge_of_rootAbove rc)
    have e : n - (l + 1) + 1 = n - l := by omega
    rw [e] at h1 h2 h3
    have h4 : 3 ^ (n - l + 1) ≤ 3 ^ (n - k + 1) := Nat.pow_le_pow_right (by omega) (by omega)
    have h5 : 3 ^ (n - l + 1) = 3 * 3 ^ (n - l) := by rw [Nat.pow_succ]; omega
    simp only [TD.size]
    omega

theorem GInv.size_lt {g : GSt} (h : GInv g) {x : Edge} {t : TD} (hd : Denotes g.r.st.store x t) :
    t.size < 3 ^ (g.n + 1) := by
  have := size_lt_of_ordered t 0 (h.nf hd) (h.lvl hd) (fun _ _ => Nat.zero_le _)
  simp only [Nat.sub_zero] at this
  omega

theorem fuelOf_eq (n : Nat) : fuelOf n = 3 * 3 ^ (n + 1) := by
  unfold fuelOf
  rw [show n + 2 = (n + 1) + 1 from rfl, Nat.pow_succ]; omega

theorem fuel1 {g : GSt} (h : GInv g) {x : Edge} {t : TD} (hd : Denotes g.r.st.store x t) :
    t.size ≤ fuelOf g.n := by
  have := h.size_lt hd; rw [fuelOf_eq]; omega

theorem fuel2 {g : GSt} (h : GInv g) {x y : Edge} {t u : TD} (hx : Denotes g.r.st.store x t)
    (hy : Denotes g.r.st.store y u) : t.size + u.size ≤ fuelOf g.n := by
  have := h.size_lt hx; have := h.size_lt hy; rw [fuelOf_eq]; omega

theorem fuel3 {g : GSt} (h : GInv g) {x y z : Edge} {t u w : TD} (hx : Denotes g.r.st.store x t)
    (hy : Denotes g.r.st.store y u) (hz : Denotes g.r.st.store z w) :
    t.size + u.size + w.size ≤ fuelOf g.n := by
  have := h.size_lt hx; have := h.size_lt hy; have := h.size_lt hz; rw [fuelOf_eq]; omega

/-! ## evaluation under the order -/

/-- on diagrams over the `n` levels the default of the map lookup does not matter -/
theorem evalL_eq_zero {n : Nat} {l2v : List Nat} (hlen : l2v.length = n) (ρ : Nat → Tri) {t : TD}
    (hl : levelsBelow n t) : evalL l2v ρ t = eval (fun l => ρ (l2v.getD l 0)) t := by
  unfold evalL
  exact eval_congr _ _ n (fun l hln => by rw [getD_lt (d' := 0) (hlen ▸ hln)]) t hl

theorem evalL_addVars (l2v : List Nat) (k : Nat) (ρ : Nat → Tri) (t : TD) :
    evalL (l2v ++ List.range' l2v.length k) ρ t = evalL l2v ρ t := by
  unfold evalL
  congr 1
  funext l
  rw [getD_append_range']

/-- two diagrams with the same function of the variables have the same function of the levels -/
theorem eval_of_evalL {n : Nat} {v2l l2v : List Nat} (h : OrdOK n v2l l2v) {t t' : TD}
    (he : ∀ ρ, evalL l2v ρ t = evalL l2v ρ t') (σ : Nat → Tri) : eval σ t = eval σ t' := by
  have key : (fun l => (fun v => σ (v2l.getD v v)) (l2v.getD l l)) = σ := by
    funext l; simp only [h.v2l_l2v l]
  have := he (fun v => σ (v2l.getD v v))
  unfold evalL at this
  rw [key] at this
  exact this

end OxiddModel.Tdd.Global
