import OxiddModel.Tdd.PropertiesGlobalS

/-!
# TDD: three mutations of the global machine and the histories on which C01 fails for them

`stepV vr` is `step` with one change (and `stepV .fixed = step`):

* `.gcKeepsCache`: `Manager::gc` without `pre_gc` clearing the apply cache. A cached result whose
  node was collected and whose slot was reused is returned for a different function.
* `.reorderKeepsCache`: `Manager::reorder` without `pre_gc` clearing the apply cache. `level_swap`
  frees an orphaned intermediate node; a stale entry pointing to the reused slot does the same.
* `.varL2v`: `var(v)` looks the level up in `level_to_var` instead of `var_to_level`; invisible
  until the order is not an involution.

For each a concrete history (by kernel evaluation) ends with two handles that are the **same edge**
although their producing expressions specify **different three-valued functions** — the conclusion
of `global_canonical` is false for the mutated machine; on the same histories the real machine
keeps the handles apart.
-/
namespace OxiddModel.Tdd.Global
open OxiddModel.Tdd OxiddModel.Tdd.TD OxiddModel.Tdd.Refine OxiddModel.Tdd.Rc

inductive Variant | fixed | gcKeepsCache | reorderKeepsCache | varL2v
deriving DecidableEq

def stepV (vr : Variant) (c : Cfg) (g : GSt) (s : Step) : GSt :=
  match vr, s with
  | .gcKeepsCache, .gc =>
    let g' := step c g .gc
    { g' with r := { g'.r with st := { g'.r.st with cache := g.r.st.cache } } }
  | .reorderKeepsCache, .setVarOrder o =>
    let g' := step c g (.setVarOrder o)
    { g' with r := { g'.r with st := { g'.r.st with cache := g.r.st.cache } } }
  | .varL2v, .var cap v =>
    pushOp g (if v < g.n then some (varR cap g.r (g.l2v.getD v 0)) else none)
  | _, s => step c g s

theorem stepV_fixed (c : Cfg) (g : GSt) (s : Step) : stepV .fixed c g s = step c g s := by
  cases s <;> rfl

/-- the mutated machine with the (unchanged) ghost beside it -/
def runTV (vr : Variant) (c : Cfg) (hist : List Step) : GSt × List Expr :=
  hist.foldl (fun x s => (stepV vr c x.1 s, track c x.1 x.2 s)) (GSt.empty, [])

theorem runTV_fixed (c : Cfg) (hist : List Step) : runTV .fixed c hist = runT c hist := by
  unfold runTV runT
  congr 1

/-! ## `gc` that keeps the apply cache -/

/-- `x0 ∧ x1` is computed and cached, its handle dropped, `gc` frees its two nodes; `x0 ∨ x1` reuses
the slots; `x0 ∧ x1` again hits the stale entry -/
def hGc : List Step :=
  [.addVars 2, .var none 0, .var none 1, .bin none .and 1 0, .drop 0, .gc,
   .bin none .or 1 0, .bin none .and 2 1]

theorem gcKeepsCache_breaks_canonical :
    (runTV .gcKeepsCache Cfg.std hGc).1.hs[0]? = (runTV .gcKeepsCache Cfg.std hGc).1.hs[1]? ∧
    (runTV .gcKeepsCache Cfg.std hGc).2[0]? = some (.bin .and (.var 0) (.var 1)) ∧
    (runTV .gcKeepsCache Cfg.std hGc).2[1]? = some (.bin .or (.var 0) (.var 1)) ∧
    ¬ ∀ ρ : Nat → Tri, (Expr.bin .and (.var 0) (.var 1)).fn ρ =
        (Expr.bin .or (.var 0) (.var 1)).fn ρ := by
  refine ⟨by decide +kernel, by decide +kernel, by decide +kernel, fun h => ?_⟩
  have := h (fun v => if v = 0 then .t else .f)
  revert this
  decide

/-- the real machine on the same history: different edges -/
example : (run Cfg.std hGc).hs[0]? ≠ (run Cfg.std hGc).hs[1]? := by decide +kernel

/-! ## reordering that keeps the apply cache -/

/-- `u = x1 ∧ x2` (cached), `h = x0 ∧ u`, the handle of `u` dropped; `set_var_order [1, 0]` rewrites
`h` in place and frees the orphaned nodes of `u`; `¬x2` reuses the slot of `u`'s root; `x1 ∧ x2`
hits the stale entry -/
def hRe : List Step :=
  [.addVars 3, .var none 0, .var none 1, .var none 2,
   .bin none .and 1 0, .bin none .and 3 0, .drop 1, .setVarOrder [1, 0],
   .not none 1, .bin none .and 3 2]

theorem reorderKeepsCache_breaks_canonical :
    (runTV .reorderKeepsCache Cfg.std hRe).1.hs[0]? = (runTV .reorderKeepsCache Cfg.std hRe).1.hs[1]? ∧
    (runTV .reorderKeepsCache Cfg.std hRe).2[0]? = some (.bin .and (.var 1) (.var 2)) ∧
    (runTV .reorderKeepsCache Cfg.std hRe).2[1]? = some (.not (.var 2)) ∧
    ¬ ∀ ρ : Nat → Tri, (Expr.bin .and (.var 1) (.var 2)).fn ρ = (Expr.not (.var 2)).fn ρ := by
  refine ⟨by decide +kernel, by decide +kernel, by decide +kernel, fun h => ?_⟩
  have := h (fun _ => .t)
  revert this
  decide

example : (run Cfg.std hRe).hs[0]? ≠ (run Cfg.std hRe).hs[1]? := by decide +kernel

/-! ## `var` through the wrong map -/

/-- after `set_var_order [2, 0]` the order is the 3-cycle `l2v = [1, 2, 0]`, `v2l = [2, 0, 1]`;
`var(0)` through `l2v` lands on level 1, the level of `x2` -/
def hVar : List Step :=
  [.addVars 3, .var none 0, .var none 1, .var none 2, .setVarOrder [2, 0], .var none 0]

theorem varL2v_breaks_canonical :
    (runTV .varL2v Cfg.std hVar).1.l2v = [1, 2, 0] ∧
    (runTV .varL2v Cfg.std hVar).1.hs[0]? = (runTV .varL2v Cfg.std hVar).1.hs[1]? ∧
    (runTV .varL2v Cfg.std hVar).2[0]? = some (.var 0) ∧
    (runTV .varL2v Cfg.std hVar).2[1]? = some (.var 2) ∧
    ¬ ∀ ρ : Nat → Tri, (Expr.var 0).fn ρ = (Expr.var 2).fn ρ := by
  refine ⟨by decide +kernel, by decide +kernel, by decide +kernel, by decide +kernel, fun h => ?_⟩
  have := h (fun v => if v = 0 then .t else .f)
  revert this
  decide

/-- the real machine: `var(0)` after the reordering is the old handle of `x0` again (hash consing
across the reordering), not that of `x2` -/
example : (run Cfg.std hVar).hs[0]? = (run Cfg.std hVar).hs[3]? ∧
    (run Cfg.std hVar).hs[0]? ≠ (run Cfg.std hVar).hs[1]? := by decide +kernel

/-- before the reordering (identity order) the mutation is invisible -/
example : (runTV .varL2v Cfg.std (hVar.take 4)).1.hs = (run Cfg.std (hVar.take 4)).hs ∧
    (runTV .varL2v Cfg.std (hVar.take 4)).1.r.st.store.nodes =
      (run Cfg.std (hVar.take 4)).r.st.store.nodes := by decide +kernel

end OxiddModel.Tdd.Global
