import OxiddModel.Tdd.PropertiesC05R

/-!
# TDD: every run of the counted algorithms keeps the store free of redundant nodes

`Post.nored` (`ApplyS.lean`) covers successful runs (through `intern`). A run that fails with
OutOfMemory leaves the nodes it had created so far; those, too, do not have three equal children,
because `reduce` only allocates after the test `t == u && u == e` (and `var_edge` allocates
`(T, U, F)`). Proved for `notR/applyR/iteR/varR` by induction on the fuel. No hypothesis on
operands, cache, capacity or fuel.
-/
set_option linter.unusedSectionVars false

namespace OxiddModel.Tdd.Global
open OxiddModel.Tdd OxiddModel.Tdd.TD OxiddModel.Tdd.Refine OxiddModel.Tdd.Rc
open OxiddModel.CachePolicy OxiddModel

/-- what we show of every run -/
def NR (R : Option Edge × RSt) : Prop := R.2.st.store.NoRed

theorem insertR_nored {cap : Option Nat} {r : RSt} {l : Nat} {t u e : Edge}
    (hr : r.st.store.NoRed) (hne : ¬ (t = u ∧ u = e)) : NR (insertR cap r l t u e) := by
  unfold NR insertR
  split
  · simp only [cloneEdge_st, dropEdge_st]; exact hr
  · split
    · intro i n hi
      change Slots.get? (Slots.alloc r.st.store.nodes ⟨l, t, u, e⟩).1 i = some n at hi
      rw [Slots.get?_alloc] at hi
      split at hi
      · cases hi; exact hne
      · exact hr i n hi
    · simp only [dropEdge_st]; exact hr

theorem mkNodeR_nored {cap : Option Nat} {r : RSt} {l : Nat} {t u e : Edge}
    (hr : r.st.store.NoRed) : NR (mkNodeR cap r l t u e) := by
  unfold mkNodeR
  split
  · unfold NR; simp only [dropEdge_st]; exact hr
  · rename_i hne; exact insertR_nored hr hne

theorem finishR_nored {cap : Option Nat} {p : APolicy} {r : RSt} {key : Key} {l : Nat}
    {e1 eu e0 : Edge} (hr : r.st.store.NoRed) : NR (finishR cap p r key l e1 eu e0) := by
  unfold finishR
  have := mkNodeR_nored (cap := cap) (l := l) (t := e1) (u := eu) (e := e0) hr
  cases hm : mkNodeR cap r l e1 eu e0 with
  | mk o r' =>
    rw [hm] at this
    cases o with
    | none => exact this
    | some h => exact this

theorem forkR_nored {cap : Option Nat} {p : APolicy} {key : Key} {l : Nat}
    {c1 cu c0 : RSt → Option Edge × RSt}
    (h1 : ∀ s : RSt, s.st.store.NoRed → NR (c1 s))
    (hu : ∀ s : RSt, s.st.store.NoRed → NR (cu s))
    (h0 : ∀ s : RSt, s.st.store.NoRed → NR (c0 s)) {r : RSt} (hr : r.st.store.NoRed) :
    NR (forkR cap p key l c1 cu c0 r) := by
  unfold forkR
  have a1 := h1 r hr
  cases hc1 : c1 r with
  | mk o1 r1 =>
    rw [hc1] at a1
    cases o1 with
    | none => exact a1
    | some t =>
      simp only
      have au := hu r1 a1
      cases hcu : cu r1 with
      | mk ou ru =>
        rw [hcu] at au
        cases ou with
        | none => unfold NR; simp only [dropEdge_st]; exact au
        | some u =>
          simp only
          have a0 := h0 ru au
          cases hc0 : c0 ru with
          | mk o0 r0 =>
            rw [hc0] at a0
            cases o0 with
            | none => unfold NR; simp only [dropEdge_st]; exact a0
            | some e => exact finishR_nored a0

theorem nr_clone {r : RSt} (hr : r.st.store.NoRed) (o : Option Edge) (x : Edge) :
    NR (o, cloneEdge r x) := by
  unfold NR; simp only [cloneEdge_st]; exact hr

theorem nr_clone_tickd {r : RSt} (hr : r.st.store.NoRed) (o : Option Edge) (x : Edge) :
    NR (o, cloneEdge r.tickd x) := by
  unfold NR; simp only [cloneEdge_st, tickd_st]; exact hr

theorem notR_nored (cap : Option Nat) (p : APolicy) : ∀ (fuel : Nat) (r : RSt) (f : Edge),
    r.st.store.NoRed → NR (notR cap p fuel r f) := by
  intro fuel
  induction fuel with
  | zero => intro r f h; exact nr_clone h _ _
  | succ fuel ih =>
    intro r f h
    unfold notR
    split
    · exact h
    · split
      · exact nr_clone_tickd h _ _
      · split
        · exact nr_clone_tickd h _ _
        · exact forkR_nored (fun s hs => ih s _ hs) (fun s hs => ih s _ hs) (fun s hs => ih s _ hs)
            (r := r.tickd) h

theorem applyR_nored (gt : Edge → Edge → Bool) (tg : BinOp → TDDOp) (cap : Option Nat) (p : APolicy)
    (op : BinOp) : ∀ (fuel : Nat) (r : RSt) (f g : Edge),
    r.st.store.NoRed → NR (applyR gt tg cap p op fuel r f g) := by
  intro fuel
  induction fuel with
  | zero => intro r f g h; exact nr_clone h _ _
  | succ fuel ih =>
    intro r f g h
    unfold applyR
    split
    · exact nr_clone h _ _
    · exact notR_nored cap p fuel r _ h
    · split
      · exact nr_clone_tickd h _ _
      · split
        · exact nr_clone_tickd h _ _
        · exact forkR_nored (fun s hs => ih s _ _ hs) (fun s hs => ih s _ _ hs)
            (fun s hs => ih s _ _ hs) (r := r.tickd) h

theorem iteR_nored (gt : Edge → Edge → Bool) (tg : BinOp → TDDOp) (cap : Option Nat) (p : APolicy) :
    ∀ (fuel : Nat) (r : RSt) (f g h : Edge),
    r.st.store.NoRed → NR (iteR gt tg cap p fuel r f g h) := by
  intro fuel
  induction fuel with
  | zero => intro r f g h hr; exact nr_clone hr _ _
  | succ fuel ih =>
    intro r f g h hr
    unfold iteR
    split
    · exact nr_clone hr _ _
    · exact applyR_nored gt tg cap p _ fuel r _ _ hr
    · exact notR_nored cap p fuel r _ hr
    · split
      · exact nr_clone_tickd hr _ _
      · split
        · exact nr_clone_tickd hr _ _
        · exact forkR_nored (fun s hs => ih s _ _ _ hs) (fun s hs => ih s _ _ _ hs)
            (fun s hs => ih s _ _ _ hs) (r := r.tickd) hr

theorem varR_nored (cap : Option Nat) (r : RSt) (l : Nat) (hr : r.st.store.NoRed) :
    NR (varR cap r l) := by
  unfold varR
  exact insertR_nored hr (by decide)

end OxiddModel.Tdd.Global
