import OxiddModel.Tdd.GlobalSInv

/-!
# `set_var_order` for nodes of any arity and the var/level maps

`setVarOrderN_correct` (`Reorder/SetOrderNProof.lean`) speaks about the new level→variable map
position by position. For the global invariant we also need that it still has `n` entries
(`setVarOrderS_l2v_len`, for every arity and terminal type); that it and its recomputed inverse are
mutually inverse is `Bdd.Global.ordOK_of_bij`.
-/
set_option linter.unusedSectionVars false

namespace OxiddModel.Tdd.Global
open OxiddModel.Reorder
open OxiddModel.Reorder.SwapStoreN (Heap SNode SStore setVarOrderS levelSwapG step2 swapIdx RState
  updateLevels)

variable {T : Type} [DecidableEq T]

theorem swapIdx_len {α : Type} [Inhabited α] (l : List α) (i j : Nat) :
    (swapIdx l i j).length = l.length := by simp [swapIdx]

theorem levelSwapG_l2v_len (k : Nat) (al : Heap T → Nat) (ord : List Nat → List Nat) (r : RState T)
    (u l : Nat) : (levelSwapG k al ord r u l).l2v.length = r.l2v.length := by
  simp [levelSwapG, swapIdx_len]

theorem foldl_l2v_len {F : RState T → Nat → RState T}
    (hF : ∀ r i, (F r i).l2v.length = r.l2v.length) :
    ∀ (is : List Nat) (r : RState T), (is.foldl F r).l2v.length = r.l2v.length := by
  intro is
  induction is with
  | nil => intro r; rfl
  | cons i is ih => intro r; simp only [List.foldl_cons]; rw [ih, hF]

theorem step2_l2v_len : ∀ (fuel i : Nat) (r : RState T) (tgt : List Nat),
    (step2 fuel i r tgt).l2v.length = r.l2v.length
  | 0, _, _, _ => rfl
  | fuel + 1, i, r, tgt => by
    unfold step2
    split
    · rfl
    · split
      · exact step2_l2v_len fuel _ _ _
      · rw [step2_l2v_len fuel]; simp [swapIdx_len]

/-- the level→variable map keeps its length -/
theorem setVarOrderS_l2v_len (k : Nat) (al : Heap T → Nat) (ord : List Nat → List Nat) (s : SStore T)
    (l2v order : List Nat) : (setVarOrderS k al ord s l2v order).2.length = l2v.length := by
  have key : ∀ (m : Nat) (r1 : RState T × List Nat × Bool), r1.1.l2v.length = l2v.length →
      (if r1.2.2 then r1.1 else step2 m 0 r1.1 r1.2.1).l2v.length = l2v.length := by
    intro m r1 h
    split
    · exact h
    · rw [step2_l2v_len]; exact h
  unfold setVarOrderS
  simp only
  split
  · rfl
  · apply key
    split
    · split
      · exact foldl_l2v_len (fun r i => levelSwapG_l2v_len k al ord r _ _) _ _
      · exact foldl_l2v_len (fun r i => levelSwapG_l2v_len k al ord r _ _) _ _
    · rfl

end OxiddModel.Tdd.Global
