import OxiddModel.Tdd.GlobalSOrder

/-!
# TDD: every step of the global machine keeps the invariant and the meaning of every handle

`step_inv`: for every configuration satisfying `Cfg.OK`, every state satisfying `GInv` whose handles
denote the three-valued functions of the ghost expressions (`Sem`), and every step (of any kind,
succeeding or failing), the next state satisfies `GInv` and `Sem` for the ghost's next list.

The operation steps transport the theorems about `notR/applyR/iteR/varR` (`Tdd/RcSLemmas*`:
counters `*_rc`, levels `*_ord`, hash consing and cache on every run `*_sem`, result on success
`*_correct`); `gc` uses `gcR_sound`; `setVarOrder` goes through the bridge to
`tdd_setVarOrder_correct` / `setVarOrderS_spec` (C08, `Reorder/PropertiesStoreN.lean`) and back.
-/
namespace OxiddModel.Tdd.Global
open OxiddModel.Tdd OxiddModel.Tdd.TD OxiddModel.Tdd.Refine OxiddModel.Tdd.Rc
open OxiddModel.CachePolicy OxiddModel
open OxiddModel.Reorder
open OxiddModel.Reorder.SwapStoreN (Heap SNode SStore DenT setVarOrderS)
open OxiddModel.Bdd.Global (All2 forall₂_length forall₂_get forall₂_getD forall₂_eraseIdx
  forall₂_imp_mem OrdOK getD_lt getD_ge ordOK_empty ordOK_addVars getD_append_range' invPerm
  ordOK_of_bij)

theorem getD_mem {l : List Nat} {i : Nat} (h : i < l.length) : l.getD i 0 ∈ l := by
  rw [List.getD_eq_getElem?_getD, List.getElem?_eq_getElem h, Option.getD_some]
  exact List.getElem_mem _

/-! ## operations producing a handle -/

/-- what an operation started in `g` guarantees about its result `res` w.r.t. the expression `e` -/
structure OpPost (g : GSt) (res : Option Edge × RSt) (e : Expr) : Prop where
  rc : match res with
    | (some x, r') => RcInv r' (x :: g.hs)
    | (none, r') => RcInv r' g.hs
  ord : OrdInv g.n res.2
  uniq : res.2.st.store.Unique
  nored : res.2.st.store.NoRed
  cache : CacheOK gtT0 res.2.st.store res.2.st.cache
  le : g.r.st.store.Le res.2.st.store
  den : ∀ x, res.1 = some x → HDen res.2.st.store g.l2v x e

/-- the ghost's reaction to a finished operation -/
def pushE (es : List Expr) (e : Expr) : Option (Option Edge × RSt) → List Expr
  | some (some _, _) => e :: es
  | _ => es

theorem pushOp_inv {g : GSt} {es : List Expr} {res : Option Edge × RSt} {e : Expr} (hi : GInv g)
    (hs : Sem g es) (hp : OpPost g res e) :
    GInv (pushOp g (some res)) ∧ Sem (pushOp g (some res)) (pushE es e (some res)) := by
  obtain ⟨o, r'⟩ := res
  have hmono : All2 (HDen r'.st.store g.l2v) g.hs es :=
    forall₂_imp_mem hs (fun x y _ h => h.mono hp.le)
  cases o with
  | none =>
    exact ⟨⟨hp.rc, hp.ord, hp.uniq, hp.nored, hp.cache, hi.perm⟩, hmono⟩
  | some x =>
    exact ⟨⟨hp.rc, hp.ord, hp.uniq, hp.nored, hp.cache, hi.perm⟩, .cons (hp.den x rfl) hmono⟩

/-- `t_edge` / `u_edge` / `f_edge` -/
theorem const_post {g : GSt} (hi : GInv g) (v : Tri) :
    OpPost g (some (.term v), g.r) (.const v) where
  rc := cloneEdge_rc (x := .term v) hi.rc trivial
  ord := hi.ord
  uniq := hi.uniq
  nored := hi.nored
  cache := hi.cache
  le := Store.Le.refl _
  den x hx := by
    cases hx
    exact ⟨.leaf v, .term, fun ρ => rfl⟩

/-- `var(v)` -/
theorem var_post {g : GSt} (hi : GInv g) (cap : Option Nat) (v : Nat) (hv : v < g.n) :
    OpPost g (varR cap g.r (g.v2l.getD v 0)) (.var v) := by
  have hlv := (hi.perm.vl v hv).1
  have hsem := varR_sem gtT0 cap g.r (g.v2l.getD v 0) ⟨hi.uniq, hi.cache⟩
  refine ⟨C05R.varR_rc_exact cap g.r _ g.hs hi.rc,
    (varR_ord cap g.r _ g.hs hi.rc hi.ord hlv).1, hsem.1.1, varR_nored cap g.r _ hi.nored,
    hsem.1.2, hsem.2, ?_⟩
  intro x hx
  obtain ⟨e1, _, _⟩ := varR_erase' cap g.r (g.v2l.getD v 0) x hx
  have h1 : (varR cap g.r (g.v2l.getD v 0)).2.st.store = (varS g.r.st.store (g.v2l.getD v 0)).1 := by
    rw [e1]
  have h2 : x = (varS g.r.st.store (g.v2l.getD v 0)).2 := by rw [e1]
  rw [h1, h2]
  refine ⟨TD.var (g.v2l.getD v 0), ?_, fun ρ => ?_⟩
  · unfold varS TD.var
    exact .inner (Slots.intern_get _ _) .term .term .term
  · unfold evalL
    rw [tdd_var, hi.perm.l2v_v2l hv]; rfl

/-- `apply_not` -/
theorem not_post {c : Cfg} (hc : c.OK) {g : GSt} (hi : GInv g) (cap : Option Nat) {f : Edge}
    {ef : Expr} (hf : f ∈ g.hs) (hdf : HDen g.r.st.store g.l2v f ef) :
    OpPost g (notR cap c.p (fuelOf g.n) g.r f) (.not ef) := by
  obtain ⟨tf, hdf, hef⟩ := hdf
  have hfu := fuel1 hi hdf
  have hrc := notR_rc hc.p cap (fuelOf g.n) g.r f g.hs hi.rc (hi.rc.ext_ok f hf)
  have hord := notR_ord hc.p g.n cap (fuelOf g.n) g.r f g.hs 0 hi.rc hi.ord
    (has_above_zero (hi.rc.ext_ok f hf))
  have hsem := notR_sem gtT0 hc.p cap (fuelOf g.n) g.r f tf ⟨hi.uniq, hi.cache⟩ hdf hfu
  refine ⟨hrc.2, hord.1, hsem.1.1, notR_nored cap c.p _ g.r f hi.nored, hsem.1.2, hsem.2, ?_⟩
  intro x hx
  have hcor := C05R.notR_correct gtT0 hc.p cap (fuelOf g.n) g.r f x tf hi.uniq hi.cache hdf hfu hx
  refine ⟨_, hcor.1, fun ρ => ?_⟩
  unfold evalL at hef ⊢
  rw [applyNot_sem, hef]; rfl

/-- `apply_bin::<OP>` -/
theorem bin_post {c : Cfg} (hc : c.OK) {g : GSt} (hi : GInv g) (cap : Option Nat) (op : BinOp)
    {f h : Edge} {ef eh : Expr} (hf : f ∈ g.hs) (hh : h ∈ g.hs)
    (hdf : HDen g.r.st.store g.l2v f ef) (hdh : HDen g.r.st.store g.l2v h eh) :
    OpPost g (applyR c.gt BinOp.tag cap c.p op (fuelOf g.n) g.r f h) (.bin op ef eh) := by
  obtain ⟨tf, hdf, hef⟩ := hdf
  obtain ⟨th, hdh, heh⟩ := hdh
  have hfu := fuel2 hi hdf hdh
  have hrc := applyR_rc c.gt BinOp.tag hc.p cap op (fuelOf g.n) g.r f h g.hs hi.rc
    (hi.rc.ext_ok f hf) (hi.rc.ext_ok h hh)
  have hord := applyR_ord c.gt BinOp.tag hc.p g.n cap op (fuelOf g.n) g.r f h g.hs 0 hi.rc hi.ord
    (has_above_zero (hi.rc.ext_ok f hf)) (has_above_zero (hi.rc.ext_ok h hh))
  have hsem := applyR_sem c.gt gtT0 hc.p cap op (fuelOf g.n) g.r f h tf th ⟨hi.uniq, hi.cache⟩
    hdf hdh hfu
  refine ⟨hrc.2, hord.1, hsem.1.1, applyR_nored c.gt BinOp.tag cap c.p op _ g.r f h hi.nored,
    hsem.1.2, hsem.2, ?_⟩
  intro x hx
  have hcor := C05R.applyR_correct c.gt gtT0 hc.p cap op (fuelOf g.n) g.r f h x tf th hi.uniq
    hi.cache hdf hdh hfu hx
  refine ⟨_, hcor.1, fun ρ => ?_⟩
  unfold evalL at hef heh ⊢
  rw [applyBin_sem, hef, heh]; rfl

/-- `apply_ite` -/
theorem ite_post {c : Cfg} (hc : c.OK) {g : GSt} (hi : GInv g) (cap : Option Nat) {f h k : Edge}
    {ef eh ek : Expr} (hf : f ∈ g.hs) (hh : h ∈ g.hs) (hk : k ∈ g.hs)
    (hdf : HDen g.r.st.store g.l2v f ef) (hdh : HDen g.r.st.store g.l2v h eh)
    (hdk : HDen g.r.st.store g.l2v k ek) :
    OpPost g (iteR c.gt BinOp.tag cap c.p (fuelOf g.n) g.r f h k) (.ite ef eh ek) := by
  obtain ⟨tf, hdf, hef⟩ := hdf
  obtain ⟨th, hdh, heh⟩ := hdh
  obtain ⟨tk, hdk, hek⟩ := hdk
  have hfu := fuel3 hi hdf hdh hdk
  have hrc := iteR_rc c.gt BinOp.tag hc.p cap (fuelOf g.n) g.r f h k g.hs hi.rc
    (hi.rc.ext_ok f hf) (hi.rc.ext_ok h hh) (hi.rc.ext_ok k hk)
  have hord := iteR_ord c.gt BinOp.tag hc.p g.n cap (fuelOf g.n) g.r f h k g.hs 0 hi.rc hi.ord
    (has_above_zero (hi.rc.ext_ok f hf)) (has_above_zero (hi.rc.ext_ok h hh))
    (has_above_zero (hi.rc.ext_ok k hk))
  have hsem := iteR_sem c.gt gtT0 hc.p cap (fuelOf g.n) g.r f h k tf th tk ⟨hi.uniq, hi.cache⟩
    hdf hdh hdk hfu
  refine ⟨hrc.2, hord.1, hsem.1.1, iteR_nored c.gt BinOp.tag cap c.p _ g.r f h k hi.nored,
    hsem.1.2, hsem.2, ?_⟩
  intro x hx
  have hcor := C05R.iteR_correct c.gt gtT0 hc.p cap (fuelOf g.n) g.r f h k x tf th tk hi.uniq
    hi.cache hdf hdh hdk hfu hx
  refine ⟨_, hcor.1, fun ρ => ?_⟩
  unfold evalL at hef heh hek ⊢
  rw [applyIte_sem, hef, heh, hek]; rfl

/-! ## `gc` -/

theorem gc_inv {g : GSt} {es : List Expr} (hi : GInv g) (hs : Sem g es) :
    GInv { g with r := gcR g.n g.r, gcCount := g.gcCount + 1 } ∧
    Sem { g with r := gcR g.n g.r, gcCount := g.gcCount + 1 } es := by
  obtain ⟨h1, h2, h3, _, h5⟩ := C05R.gcR_sound g.n g.r g.hs hi.rc
  refine ⟨⟨h1, gcR_ord g.n hi.ord, unique_sub h3 hi.uniq, ?_, ?_, hi.perm⟩, ?_⟩
  · intro i nd a; exact hi.nored i nd (h3 i nd a)
  · show CacheOK gtT0 _ (gcR g.n g.r).st.cache
    rw [h2]; exact CacheOK.nil _ _
  · refine forall₂_imp_mem hs (fun x e hx hd => ?_)
    obtain ⟨t, hd, he⟩ := hd
    exact ⟨t, h5 x t hx hd, he⟩

/-! ## `add_vars` -/

theorem addVars_inv {g : GSt} {es : List Expr} (hi : GInv g) (hs : Sem g es) (k : Nat) :
    GInv { g with n := g.n + k, v2l := g.v2l ++ List.range' g.n k, l2v := g.l2v ++ List.range' g.n k } ∧
    Sem { g with n := g.n + k, v2l := g.v2l ++ List.range' g.n k,
                 l2v := g.l2v ++ List.range' g.n k } es := by
  refine ⟨⟨hi.rc, ⟨hi.ord.ord, fun i nd h => ?_, hi.ord.cache⟩, hi.uniq, hi.nored, hi.cache,
    ordOK_addVars hi.perm k⟩, ?_⟩
  · have := hi.ord.bound i nd h
    show nd.level < g.n + k
    omega
  · refine forall₂_imp_mem hs (fun x e _ hd => ?_)
    obtain ⟨t, hd, he⟩ := hd
    refine ⟨t, hd, fun ρ => ?_⟩
    show evalL (g.l2v ++ List.range' g.n k) ρ t = _
    have := evalL_addVars g.l2v k ρ t
    rw [hi.perm.lenL] at this
    rw [this]; exact he ρ

/-! ## `set_var_order` -/

theorem reorder_inv {c : Cfg} (hc : c.OK) {g : GSt} {es : List Expr} (hi : GInv g) (hs : Sem g es)
    (order : List Nat) : GInv (reorder c g order) ∧ Sem (reorder c g order) es := by
  unfold reorder
  split
  · exact ⟨hi, hs⟩
  · rename_i hcond
    simp only [Bool.or_eq_true, Bool.not_eq_true', decide_eq_true_eq, not_or] at hcond
    obtain ⟨⟨_, hvalid⟩, _⟩ := hcond
    have hvalid : reorderValid g order = true := by
      cases hv : reorderValid g order
      · exact absurd hv hvalid
      · rfl
    simp only [reorderValid, Bool.and_eq_true, decide_eq_true_eq, List.all_eq_true] at hvalid
    obtain ⟨hnd, hrange⟩ := hvalid
    have hL := hi.perm.lenL
    have hmem : ∀ v ∈ order, v ∈ g.l2v := by
      intro v hv
      have hvn := hrange v hv
      obtain ⟨h2, h3⟩ := hi.perm.vl v hvn
      rw [← h3]
      exact getD_mem (hL ▸ h2)
    have sinv := hi.sinv
    have hlen : g.l2v.length = (toS g.r g.n).tables.length := by rw [toS_len]; exact hL
    rw [setVarOrderK_eq]
    have hcor := SwapStoreN.tdd_setVarOrder_correct hc.al hc.ord sinv g.l2v order hlen hnd hmem
    obtain ⟨h1, h2⟩ := SwapStoreN.order_levels_ok hnd hmem
    rw [hlen] at h2
    have hspec := SwapStoreN.setVarOrderS_spec hc.al hc.ord sinv g.l2v order hlen h1 h2
    obtain ⟨htlen, htlt, htnd⟩ := sortOrder_perm (toS g.r g.n).tables.length _ h1 h2
    have hreslen := setVarOrderS_l2v_len 3 c.al c.ord (toS g.r g.n) g.l2v order
    generalize hres : setVarOrderS 3 c.al c.ord (toS g.r g.n) g.l2v order = res at hcor hspec hreslen
    generalize htg : sortOrder (toS g.r g.n).tables.length (order.map fun v => g.l2v.idxOf v) = target
      at hspec htlen htlt htnd
    rw [toS_len] at htlen htlt hspec
    obtain ⟨⟨hinv', hlen'⟩, _, hden⟩ := hcor
    rw [toS_len] at hlen'
    have hgetD : ∀ a (ha : a < g.n), target.getD a 0 = target[a]'(htlen ▸ ha) :=
      fun a ha => by simp [List.getD_eq_getElem?_getD, List.getElem?_eq_getElem (htlen ▸ ha)]
    have htlt' : ∀ a, a < g.n → target.getD a 0 < g.n := fun a ha => by
      rw [hgetD a ha]; exact htlt _ (List.getElem_mem _)
    have htinj : ∀ a b, a < g.n → b < g.n → target.getD a 0 = target.getD b 0 → a = b := by
      intro a b ha hb e
      rw [hgetD a ha, hgetD b hb] at e
      have hpw := List.pairwise_iff_getElem.mp (List.nodup_iff_pairwise_ne.mp htnd)
      rcases Nat.lt_trichotomy a b with c | c | c
      · exact absurd e (hpw a b _ _ c)
      · exact c
      · exact absurd e.symm (hpw b a _ _ c)
    -- the new maps
    have hperm : OrdOK g.n (invPerm g.n res.2) res.2 := by
      obtain ⟨lab, hlab⟩ := hspec.placed
      refine ordOK_of_bij (by rw [hreslen]; exact hL) ?_ ?_ ?_
      · intro p hp
        obtain ⟨a1, _, a3⟩ := hlab p hp
        rw [a3]; exact (hi.perm.lv _ a1).1
      · intro p q hp hq e
        obtain ⟨a1, a2, a3⟩ := hlab p hp
        obtain ⟨b1, b2, b3⟩ := hlab q hq
        rw [a3, b3] at e
        have : lab.getD p 0 = lab.getD q 0 := by
          rw [← (hi.perm.lv _ a1).2, ← (hi.perm.lv _ b1).2, e]
        rw [← a2, ← b2, this]
      · intro v hv
        obtain ⟨a1, a2⟩ := hi.perm.vl v hv
        exact ⟨target.getD (g.v2l.getD v 0) 0, htlt' _ a1, by
          rw [hspec.placed' htlt' htinj a1]; exact a2⟩
    have hord' := ofS_ord hinv' g.r.st.tick
    rw [hlen'] at hord'
    refine ⟨⟨ofS_rc hinv' _, hord', ofS_unique hinv' _, ofS_nored hinv' _, CacheOK.nil _ _, hperm⟩, ?_⟩
    refine forall₂_imp_mem hs (fun x e hx hd => ?_)
    obtain ⟨t, hd, he⟩ := hd
    cases x with
    | term b =>
      cases hd
      exact ⟨.leaf b, .term, he⟩
    | inner k =>
      have hd0 : DenT (toS g.r g.n).h.sh (.inner k) t := den_toS hd
      obtain ⟨t', hd', _, hev, _⟩ := hden k t (count_pos_of_mem hx) hd0
      have hd'' : Denotes (ofS res.1 g.r.st.tick).st.store (.inner k) t' := ofS_den _ hd'
      refine ⟨t', hd'', fun ρ => ?_⟩
      have hl' : levelsBelow g.n t' := denotes_lvl hord'.bound hd''
      show evalL res.2 ρ t' = _
      rw [evalL_eq_zero (by rw [hreslen]; exact hL) ρ hl', hev ρ, ← he ρ,
        evalL_eq_zero hL ρ (hi.lvl hd)]

/-! ## all steps -/

/-- **every step keeps the invariant and the meaning of every handle** -/
theorem step_inv {c : Cfg} (hc : c.OK) {g : GSt} {es : List Expr} (hi : GInv g) (hs : Sem g es)
    (s : Step) : GInv (step c g s) ∧ Sem (step c g s) (track c g es s) := by
  cases s with
  | const v =>
    simp only [step, track, opRes]
    exact pushOp_inv hi hs (const_post hi v)
  | var cap v =>
    simp only [step, track, opRes]
    by_cases hv : v < g.n
    · simp only [hv, if_true]
      have := pushOp_inv hi hs (var_post hi cap v hv)
      cases hR : varR cap g.r (g.v2l.getD v 0) with
      | mk o r' => rw [hR] at this; cases o <;> exact this
    · simp only [hv, if_false]; exact ⟨hi, hs⟩
  | not cap a =>
    simp only [step, track, opRes]
    cases ha : g.hs[a]? with
    | none => exact ⟨hi, hs⟩
    | some f =>
      simp only
      have := pushOp_inv hi hs (not_post hc hi cap (List.mem_of_getElem? ha) (forall₂_getD hs ha))
      cases hR : notR cap c.p (fuelOf g.n) g.r f with
      | mk o r' => rw [hR] at this; cases o <;> exact this
  | bin cap op a b =>
    simp only [step, track, opRes]
    cases ha : g.hs[a]? with
    | none => exact ⟨hi, hs⟩
    | some f =>
      cases hb : g.hs[b]? with
      | none => exact ⟨hi, hs⟩
      | some h =>
        simp only
        have := pushOp_inv hi hs (bin_post hc hi cap op (List.mem_of_getElem? ha)
          (List.mem_of_getElem? hb) (forall₂_getD hs ha) (forall₂_getD hs hb))
        cases hR : applyR c.gt BinOp.tag cap c.p op (fuelOf g.n) g.r f h with
        | mk o r' => rw [hR] at this; cases o <;> exact this
  | ite cap a b d =>
    simp only [step, track, opRes]
    cases ha : g.hs[a]? with
    | none => exact ⟨hi, hs⟩
    | some f =>
      cases hb : g.hs[b]? with
      | none => exact ⟨hi, hs⟩
      | some h =>
        cases hd : g.hs[d]? with
        | none => exact ⟨hi, hs⟩
        | some k =>
          simp only
          have := pushOp_inv hi hs (ite_post hc hi cap (List.mem_of_getElem? ha)
            (List.mem_of_getElem? hb) (List.mem_of_getElem? hd) (forall₂_getD hs ha)
            (forall₂_getD hs hb) (forall₂_getD hs hd))
          cases hR : iteR c.gt BinOp.tag cap c.p (fuelOf g.n) g.r f h k with
          | mk o r' => rw [hR] at this; cases o <;> exact this
  | clone a =>
    simp only [step, track]
    cases ha : g.hs[a]? with
    | none =>
      have : ¬ a < g.hs.length := fun h => by simp [List.getElem?_eq_getElem h] at ha
      simp only [this, if_false]; exact ⟨hi, hs⟩
    | some f =>
      have hlt : a < g.hs.length := by
        apply Classical.byContradiction; intro h
        rw [List.getElem?_eq_none (Nat.le_of_not_lt h)] at ha; cases ha
      simp only [hlt, if_true]
      have hmem := List.mem_of_getElem? ha
      refine ⟨⟨cloneEdge_rc hi.rc (hi.rc.ext_ok f hmem), hi.ord.of_st (cloneEdge_st _ _), ?_, ?_, ?_,
        hi.perm⟩, ?_⟩
      · show (cloneEdge g.r f).st.store.Unique; rw [cloneEdge_st]; exact hi.uniq
      · show (cloneEdge g.r f).st.store.NoRed; rw [cloneEdge_st]; exact hi.nored
      · show CacheOK gtT0 (cloneEdge g.r f).st.store (cloneEdge g.r f).st.cache
        rw [cloneEdge_st]; exact hi.cache
      · show All2 (HDen (cloneEdge g.r f).st.store g.l2v) (f :: g.hs) _
        rw [cloneEdge_st]
        exact .cons (forall₂_getD hs ha) hs
  | drop a =>
    simp only [step, track]
    cases ha : g.hs[a]? with
    | none =>
      have hge : g.hs.length ≤ a := by
        apply Classical.byContradiction; intro h
        simp [List.getElem?_eq_getElem (Nat.lt_of_not_le h)] at ha
      have : es.eraseIdx a = es := List.eraseIdx_of_length_le (by rw [forall₂_length hs]; exact hge)
      rw [this]; exact ⟨hi, hs⟩
    | some f =>
      have hrc : RcInv (dropEdge g.r f) (g.hs.eraseIdx a) :=
        dropEdge_rc (hi.rc.congr (fun e => (count_cons_eraseIdx ha e).symm))
      refine ⟨⟨hrc, hi.ord.of_st (dropEdge_st _ _), ?_, ?_, ?_, hi.perm⟩, ?_⟩
      · show (dropEdge g.r f).st.store.Unique; rw [dropEdge_st]; exact hi.uniq
      · show (dropEdge g.r f).st.store.NoRed; rw [dropEdge_st]; exact hi.nored
      · show CacheOK gtT0 (dropEdge g.r f).st.store (dropEdge g.r f).st.cache
        rw [dropEdge_st]; exact hi.cache
      · show All2 (HDen (dropEdge g.r f).st.store g.l2v) (g.hs.eraseIdx a) _
        rw [dropEdge_st]
        exact forall₂_eraseIdx hs a
  | gc => exact gc_inv hi hs
  | addVars k => exact addVars_inv hi hs k
  | setVarOrder order => exact reorder_inv hc hi hs order

end OxiddModel.Tdd.Global
