import OxiddModel.Tdd.ApplyS

/-!
# TDD store level: histories of operations on handles

A history is a list of commands on a growing list of handles: `const v`, `var l`, `not i`,
`bin op i j` on earlier handles (by index), and `evict n`, a point at which the cache may drop any
entries. `runAllS` executes the memoised store-level algorithms with everything cache related as a
parameter (`Cfg`); `runAllT` is the tree-level specification; `runAllV` the specified three-valued
functions.
-/
set_option linter.unusedSectionVars false

namespace OxiddModel.Tdd.Refine
open OxiddModel.Tdd OxiddModel.Tdd.TD OxiddModel.CachePolicy

inductive Cmd where
  | const (v : Tri)
  | var (l : Nat)
  | not (i : Nat)
  | bin (op : BinOp) (i j : Nat)
  /-- the cache may drop entries here (which ones is decided by the run's `ev n`) -/
  | evict (n : Nat)
deriving Repr

structure Cfg where
  gt : Edge → Edge → Bool
  policy : APolicy
  ev : Nat → Key × Edge → Bool

/-- `var_edge`: `get_or_insert(InnerNode::new(level, [⊤, U, ⊥]))`, no reduction rule applied -/
def varS (s : Store) (l : Nat) : Store × Edge :=
  let r := Slots.intern s.nodes ⟨l, .term .t, .term .u, .term .f⟩
  (⟨r.1⟩, .inner r.2)

def Cmd.runS (cfg : Cfg) (fuel : Nat) : Cmd → St × List Edge → St × List Edge
  | .const v, (st, hs) => (st, hs ++ [.term v])
  | .var l, (st, hs) =>
    let r := varS st.store l
    ({ st with store := r.1 }, hs ++ [r.2])
  | .not i, (st, hs) =>
    match hs[i]? with
    | some f =>
      let r := notS cfg.policy fuel st f
      (r.1, hs ++ [r.2])
    | none => (st, hs)
  | .bin op i j, (st, hs) =>
    match hs[i]?, hs[j]? with
    | some f, some g =>
      let r := applyS cfg.gt BinOp.tag cfg.policy op fuel st f g
      (r.1, hs ++ [r.2])
    | _, _ => (st, hs)
  | .evict n, (st, hs) => ({ st with cache := st.cache.filter (cfg.ev n) }, hs)

def Cmd.runT (gtT : TD → TD → Bool) : Cmd → List TD → List TD
  | .const v, ts => ts ++ [.leaf v]
  | .var l, ts => ts ++ [TD.var l]
  | .not i, ts =>
    match ts[i]? with
    | some a => ts ++ [applyNot a]
    | none => ts
  | .bin op i j, ts =>
    match ts[i]?, ts[j]? with
    | some a, some b => ts ++ [applyBin gtT op a b]
    | _, _ => ts
  | .evict _, ts => ts

/-- a three-valued function: the value under every three-valued assignment of the levels -/
abbrev Val := (Nat → Tri) → Tri

def Cmd.runV : Cmd → List Val → List Val
  | .const v, vs => vs ++ [(fun _ => v : Val)]
  | .var l, vs => vs ++ [(fun σ => σ l : Val)]
  | .not i, vs =>
    match vs[i]? with
    | some a => vs ++ [(fun σ => (a σ).not : Val)]
    | none => vs
  | .bin op i j, vs =>
    match vs[i]?, vs[j]? with
    | some a, some b => vs ++ [(fun σ => op.sem (a σ) (b σ) : Val)]
    | _, _ => vs
  | .evict _, vs => vs

def runAllS (cfg : Cfg) (fuel : Nat) : List Cmd → St × List Edge → St × List Edge
  | [], x => x
  | c :: cs, x => runAllS cfg fuel cs (c.runS cfg fuel x)

def runAllT (gtT : TD → TD → Bool) : List Cmd → List TD → List TD
  | [], ts => ts
  | c :: cs, ts => runAllT gtT cs (c.runT gtT ts)

def runAllV : List Cmd → List Val → List Val
  | [], vs => vs
  | c :: cs, vs => runAllV cs (c.runV vs)

/-- the fuel suffices for the command (sizes of the operand *trees*) -/
def Cmd.Pre (fuel : Nat) : Cmd → List TD → Prop
  | .not i, ts => ∀ a, ts[i]? = some a → a.size ≤ fuel
  | .bin _ i j, ts => ∀ a b, ts[i]? = some a → ts[j]? = some b → a.size + b.size ≤ fuel
  | _, _ => True

def PreAll (gtT : TD → TD → Bool) (fuel : Nat) : List Cmd → List TD → Prop
  | [], _ => True
  | c :: cs, ts => c.Pre fuel ts ∧ PreAll gtT fuel cs (c.runT gtT ts)

/-- Boolean version of `Cmd.Pre` -/
def Cmd.preB (fuel : Nat) : Cmd → List TD → Bool
  | .not i, ts =>
    match ts[i]? with
    | some a => decide (a.size ≤ fuel)
    | none => true
  | .bin _ i j, ts =>
    match ts[i]?, ts[j]? with
    | some a, some b => decide (a.size + b.size ≤ fuel)
    | _, _ => true
  | _, _ => true

def preAllB (gtT : TD → TD → Bool) (fuel : Nat) : List Cmd → List TD → Bool
  | [], _ => true
  | c :: cs, ts => c.preB fuel ts && preAllB gtT fuel cs (c.runT gtT ts)

theorem Cmd.pre_of_B (fuel : Nat) (c : Cmd) (ts : List TD) (h : c.preB fuel ts = true) :
    c.Pre fuel ts := by
  cases c with
  | const v => trivial
  | var l => trivial
  | not i => intro a ha; simpa [Cmd.preB, ha] using h
  | bin op i j => intro a b ha hb; simpa [Cmd.preB, ha, hb] using h
  | evict n => trivial

theorem preAll_of_B (gtT : TD → TD → Bool) (fuel : Nat) (cs : List Cmd) : ∀ (ts : List TD),
    preAllB gtT fuel cs ts = true → PreAll gtT fuel cs ts := by
  induction cs with
  | nil => intro ts _; trivial
  | cons c cs ih =>
    intro ts h
    simp only [preAllB, Bool.and_eq_true] at h
    exact ⟨Cmd.pre_of_B fuel c ts h.1, ih _ h.2⟩

/-- every handle denotes its tree, which is a normal form -/
structure Handles (s : Store) (hs : List Edge) (ts : List TD) : Prop where
  len : hs.length = ts.length
  den : ∀ (k : Nat) (e : Edge) (t : TD), hs[k]? = some e → ts[k]? = some t → Denotes s e t ∧ NF t

theorem Handles.mono {s s' : Store} {hs : List Edge} {ts : List TD} (h : Handles s hs ts)
    (hle : s.Le s') : Handles s' hs ts := by
  refine ⟨h.len, ?_⟩
  intro k e t he ht
  exact ⟨(h.den k e t he ht).1.mono hle, (h.den k e t he ht).2⟩

theorem Handles.push {s : Store} {hs : List Edge} {ts : List TD} (h : Handles s hs ts)
    {e : Edge} {t : TD} (hd : Denotes s e t) (hn : NF t) : Handles s (hs ++ [e]) (ts ++ [t]) := by
  refine ⟨by simp [h.len], ?_⟩
  intro k e' t' he ht
  by_cases hk : k < hs.length
  · rw [List.getElem?_append_left hk] at he
    rw [List.getElem?_append_left (h.len ▸ hk)] at ht
    exact h.den k e' t' he ht
  · have hk' : hs.length ≤ k := by omega
    rw [List.getElem?_append_right hk'] at he
    rw [List.getElem?_append_right (h.len ▸ hk')] at ht
    rw [h.len] at he
    cases hkk : k - ts.length with
    | zero =>
      rw [hkk] at he ht
      simp only [List.getElem?_cons_zero, Option.some.injEq] at he ht
      subst he ht; exact ⟨hd, hn⟩
    | succ m => rw [hkk] at he; simp at he

theorem Handles.get {s : Store} {hs : List Edge} {ts : List TD} (h : Handles s hs ts)
    {i : Nat} {f : Edge} (hf : hs[i]? = some f) : ∃ a, ts[i]? = some a ∧ Denotes s f a ∧ NF a := by
  have hlt : i < hs.length := (List.getElem?_eq_some_iff.mp hf).1
  have : i < ts.length := h.len ▸ hlt
  exact ⟨ts[i], List.getElem?_eq_getElem this, h.den i f _ hf (List.getElem?_eq_getElem this)⟩

theorem Handles.get_none {s : Store} {hs : List Edge} {ts : List TD} (h : Handles s hs ts)
    {i : Nat} (hf : hs[i]? = none) : ts[i]? = none := by
  have := h.len
  rw [List.getElem?_eq_none_iff] at hf ⊢
  omega

structure Good (gtT : TD → TD → Bool) (x : St × List Edge) (ts : List TD) : Prop where
  inv : Inv gtT x.1
  nored : x.1.store.NoRed
  handles : Handles x.1.store x.2 ts

/-- the cache-free canonical step on `(store, handles)`: interning the tree-level result -/
def Cmd.runC (gtT : TD → TD → Bool) : Cmd → Store × List Edge → List TD → Store × List Edge
  | .const v, (s, hs), _ => (s, hs ++ [.term v])
  | .var l, (s, hs), _ => let r := intern s (TD.var l); (r.1, hs ++ [r.2])
  | .not i, (s, hs), ts =>
    match ts[i]? with
    | some a => let r := intern s (applyNot a); (r.1, hs ++ [r.2])
    | none => (s, hs)
  | .bin op i j, (s, hs), ts =>
    match ts[i]?, ts[j]? with
    | some a, some b => let r := intern s (applyBin gtT op a b); (r.1, hs ++ [r.2])
    | _, _ => (s, hs)
  | .evict _, x, _ => x

theorem var_nf (l : Nat) : NF (TD.var l) :=
  ⟨trivial, trivial, trivial, trivial, trivial, trivial, by decide⟩

theorem varS_eq_intern (s : Store) (l : Nat) : varS s l = intern s (TD.var l) := by
  simp [varS, TD.var, intern, Store.mkNode]

theorem Cmd.run_spec (gtT : TD → TD → Bool) (cfg : Cfg) (pok : cfg.policy.OK) (fuel : Nat)
    (c : Cmd) (x : St × List Edge) (ts : List TD) (hg : Good gtT x ts) (hp : c.Pre fuel ts) :
    Good gtT (c.runS cfg fuel x) (c.runT gtT ts) ∧
    x.1.store.Le (c.runS cfg fuel x).1.store ∧
    ((c.runS cfg fuel x).1.store, (c.runS cfg fuel x).2) = c.runC gtT (x.1.store, x.2) ts := by
  obtain ⟨st, hs⟩ := x
  obtain ⟨hinv, hr, hh⟩ := hg
  cases c with
  | const v =>
    exact ⟨⟨hinv, hr, hh.push .term trivial⟩, Store.Le.refl _, rfl⟩
  | var l =>
    simp only [Cmd.runS, Cmd.runT, Cmd.runC]
    rw [varS_eq_intern]
    have hle := intern_le st.store (TD.var l)
    exact ⟨⟨⟨intern_unique _ _ hinv.1, hinv.2.mono hle⟩, intern_nored _ _ hr,
      (hh.mono hle).push (intern_denotes _ _ hinv.1 (var_nf l)) (var_nf l)⟩, hle, rfl⟩
  | not i =>
    simp only [Cmd.runS, Cmd.runT, Cmd.runC]
    cases hi : hs[i]? with
    | none =>
      simp only [hh.get_none hi]
      exact ⟨⟨hinv, hr, hh⟩, Store.Le.refl _, by first | trivial | rfl⟩
    | some f =>
      obtain ⟨a, ha, da, na⟩ := hh.get hi
      simp only [ha]
      have P := notS_spec gtT pok fuel st f a hinv da (hp a ha)
      refine ⟨⟨P.inv, P.nored hr, (hh.mono P.le).push P.den (applyNot_nf a na).1⟩, P.le, ?_⟩
      have := P.canon hr
      rw [← this]
  | bin op i j =>
    simp only [Cmd.runS, Cmd.runT, Cmd.runC]
    cases hi : hs[i]? with
    | none =>
      simp only [hh.get_none hi]
      exact ⟨⟨hinv, hr, hh⟩, Store.Le.refl _, by first | trivial | rfl⟩
    | some f =>
      obtain ⟨a, ha, da, na⟩ := hh.get hi
      cases hj : hs[j]? with
      | none =>
        simp only [hh.get_none hj, ha]
        exact ⟨⟨hinv, hr, hh⟩, Store.Le.refl _, by first | trivial | rfl⟩
      | some g =>
        obtain ⟨b, hb, db, nb⟩ := hh.get hj
        simp only [ha, hb]
        have P := applyS_spec cfg.gt gtT pok op fuel st f g a b hinv da db (hp a b ha hb)
        refine ⟨⟨P.inv, P.nored hr, (hh.mono P.le).push P.den (applyBin_nf gtT op a b na nb).1⟩,
          P.le, ?_⟩
        have := P.canon hr
        rw [← this]
  | evict n =>
    exact ⟨⟨⟨hinv.1, hinv.2.sub (fun x hx => (List.mem_filter.mp hx).1)⟩, hr, hh⟩,
      Store.Le.refl _, rfl⟩

/-- **After any history** every handle denotes the tree of the tree-level run, which is a normal
form, and the store invariants hold. -/
theorem history_ok (gtT : TD → TD → Bool) (cfg : Cfg) (pok : cfg.policy.OK) (fuel : Nat)
    (cs : List Cmd) : ∀ (x : St × List Edge) (ts : List TD),
    Good gtT x ts → PreAll gtT fuel cs ts →
    Good gtT (runAllS cfg fuel cs x) (runAllT gtT cs ts) ∧
      x.1.store.Le (runAllS cfg fuel cs x).1.store := by
  induction cs with
  | nil => intro x ts hg _; exact ⟨hg, Store.Le.refl _⟩
  | cons c cs ih =>
    intro x ts hg hp
    obtain ⟨g1, le1, _⟩ := Cmd.run_spec gtT cfg pok fuel c x ts hg hp.1
    obtain ⟨g2, le2⟩ := ih _ _ g1 hp.2
    exact ⟨g2, le1.trans le2⟩

/-- **History independence.** -/
theorem history_transparent (gtT : TD → TD → Bool) (cfg1 cfg2 : Cfg) (ok1 : cfg1.policy.OK)
    (ok2 : cfg2.policy.OK) (fuel : Nat) (cs : List Cmd) :
    ∀ (x1 x2 : St × List Edge) (ts : List TD),
    x1.1.store = x2.1.store → x1.2 = x2.2 → Good gtT x1 ts → Good gtT x2 ts →
    PreAll gtT fuel cs ts →
    (runAllS cfg1 fuel cs x1).2 = (runAllS cfg2 fuel cs x2).2 ∧
    (runAllS cfg1 fuel cs x1).1.store = (runAllS cfg2 fuel cs x2).1.store := by
  induction cs with
  | nil => intro x1 x2 ts hs hh _ _ _; exact ⟨hh, hs⟩
  | cons c cs ih =>
    intro x1 x2 ts hs hh g1 g2 hp
    obtain ⟨g1', _, e1⟩ := Cmd.run_spec gtT cfg1 ok1 fuel c x1 ts g1 hp.1
    obtain ⟨g2', _, e2⟩ := Cmd.run_spec gtT cfg2 ok2 fuel c x2 ts g2 hp.1
    rw [hs, hh] at e1
    have e := e1.trans e2.symm
    exact ih _ _ _ (Prod.mk.inj e).1 (Prod.mk.inj e).2 g1' g2' hp.2

/-! ## the three-valued functions of a history -/

structure Sem (ts : List TD) (vs : List Val) : Prop where
  len : ts.length = vs.length
  den : ∀ (k : Nat) (t : TD) (v : Val), ts[k]? = some t → vs[k]? = some v → ∀ σ, eval σ t = v σ

theorem Sem.push {ts : List TD} {vs : List Val} (h : Sem ts vs) {t : TD} {v : Val}
    (hv : ∀ σ, eval σ t = v σ) : Sem (ts ++ [t]) (vs ++ [v]) := by
  refine ⟨by simp [h.len], ?_⟩
  intro k t' v' ht hv'
  by_cases hk : k < ts.length
  · rw [List.getElem?_append_left hk] at ht
    rw [List.getElem?_append_left (h.len ▸ hk)] at hv'
    exact h.den k t' v' ht hv'
  · have hk' : ts.length ≤ k := by omega
    rw [List.getElem?_append_right hk'] at ht
    rw [List.getElem?_append_right (h.len ▸ hk')] at hv'
    rw [h.len] at ht
    cases hkk : k - vs.length with
    | zero =>
      rw [hkk] at ht hv'
      simp only [List.getElem?_cons_zero, Option.some.injEq] at ht hv'
      subst ht hv'; exact hv
    | succ m => rw [hkk] at ht; simp at ht

theorem Sem.get {ts : List TD} {vs : List Val} (h : Sem ts vs) {i : Nat} {t : TD}
    (ht : ts[i]? = some t) : ∃ v, vs[i]? = some v ∧ ∀ σ, eval σ t = v σ := by
  have hlt : i < ts.length := (List.getElem?_eq_some_iff.mp ht).1
  have : i < vs.length := h.len ▸ hlt
  exact ⟨vs[i], List.getElem?_eq_getElem this, h.den i t _ ht (List.getElem?_eq_getElem this)⟩

theorem Sem.get_none {ts : List TD} {vs : List Val} (h : Sem ts vs) {i : Nat}
    (ht : ts[i]? = none) : vs[i]? = none := by
  have := h.len
  rw [List.getElem?_eq_none_iff] at ht ⊢
  omega

theorem Cmd.runT_sem (gtT : TD → TD → Bool) (c : Cmd) (ts : List TD) (vs : List Val)
    (h : Sem ts vs) : Sem (c.runT gtT ts) (c.runV vs) := by
  cases c with
  | const v => exact h.push (t := .leaf v) (fun _ => rfl)
  | var l =>
    refine h.push (t := TD.var l) (fun σ => ?_)
    simp only [TD.var, eval]; cases σ l <;> rfl
  | not i =>
    simp only [Cmd.runT, Cmd.runV]
    cases hi : ts[i]? with
    | none => simp only [h.get_none hi]; exact h
    | some a =>
      obtain ⟨va, hva, ea⟩ := h.get hi
      simp only [hva]
      exact h.push (fun σ => by rw [applyNot_sem, ea])
  | bin op i j =>
    simp only [Cmd.runT, Cmd.runV]
    cases hi : ts[i]? with
    | none => simp only [h.get_none hi]; exact h
    | some a =>
      obtain ⟨va, hva, ea⟩ := h.get hi
      cases hj : ts[j]? with
      | none => simp only [h.get_none hj, hva]; exact h
      | some b =>
        obtain ⟨vb, hvb, eb⟩ := h.get hj
        simp only [hva, hvb]
        exact h.push (fun σ => by rw [applyBin_sem, ea, eb])
  | evict n => show Sem ts vs; exact h

theorem runAllT_sem (gtT : TD → TD → Bool) (cs : List Cmd) : ∀ (ts : List TD) (vs : List Val),
    Sem ts vs → Sem (runAllT gtT cs ts) (runAllV cs vs) := by
  induction cs with
  | nil => intro ts vs h; exact h
  | cons c cs ih => intro ts vs h; exact ih _ _ (Cmd.runT_sem gtT c ts vs h)

theorem good_empty (gtT : TD → TD → Bool) (t : Nat) :
    Good gtT ((⟨Store.empty, [], t⟩ : St), []) [] where
  inv := ⟨Store.empty_unique, CacheOK.nil _ _⟩
  nored := Store.empty_nored
  handles := ⟨rfl, fun k e t he _ => by simp at he⟩

theorem sem_empty : Sem ([] : List TD) [] := ⟨rfl, fun k t v ht _ => by simp at ht⟩

end OxiddModel.Tdd.Refine
