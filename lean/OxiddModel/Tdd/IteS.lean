import OxiddModel.Tdd.ApplyS

/-!
# TDD store level: `apply_ite_rec` with the apply cache refines the tree-level `applyIte`

`iteS` follows `apply_ite_rec` of `crates/oxidd-rules-tdd/src/apply_rec.rs` statement by statement:

* the early returns, in source order (`iteShortcutS`, the edge-level counterpart of the tree-level
  `iteShortcut` of `Model.lean`): `g == h` ⇒ `g`; `f == g` ⇒ `apply_bin::<Or>(f, h)`; `f == h` ⇒
  `apply_bin::<And>(f, g)`; a terminal condition `T`/`F` selects `g`/`h`, an unknown condition with
  two terminal branches yields `U`; then the `match (g, h)`: `(T, inner)` ⇒ `or(f, h)`,
  `(F, inner)` ⇒ `imp_strict(f, h)`, `(inner, T)` ⇒ `imp(f, g)`, `(inner, F)` ⇒ `and(f, g)`,
  `(F, T)` ⇒ `apply_not(f)`, `(T, F)` ⇒ `f`; an unknown terminal branch falls through;
* cache lookup under `(Ite, [f, g, h])`;
* expansion at the minimum of the three root levels, **three** recursive calls in the order true,
  unknown, false child; `reduce`; cache add.

`iteS_spec`: for every sound cache, every admissible policy, every edge order, the returned edge
denotes `applyIte gtT a b c`, the store stays hash consed, the cache sound, and the final store
is the canonical one (`intern`), so different caches yield equal edges and equal stores.
-/
set_option linter.unusedSectionVars false
set_option linter.unusedVariables false

namespace OxiddModel.Tdd.Refine
open OxiddModel.Tdd OxiddModel.Tdd.TD OxiddModel.CachePolicy

/-- what the prologue of `apply_ite_rec` decides -/
inductive IteCase where
  /-- `return Ok(manager.clone_edge(&x))` / `Ok(manager.get_terminal(Unknown).unwrap())` -/
  | done : Edge → IteCase
  /-- `return apply_bin::<M, OP>(manager, x, y)` -/
  | bin : BinOp → Edge → Edge → IteCase
  /-- `return apply_not(manager, x)` -/
  | notOf : Edge → IteCase
  /-- fall through to the cache lookup and the recursion -/
  | recurse : IteCase
deriving Repr, DecidableEq

/-- the early returns of `apply_ite_rec` (everything before "Query apply cache") on edges, in
source order; terminals are static, so `get_node` needs no store -/
def iteShortcutS (f g h : Edge) : IteCase :=
  if g = h then .done g
  else if f = g then .bin .or f h
  else if f = h then .bin .and f g
  else
    -- `if let Node::Terminal(t) = fnode { … }`
    let r1 : Option Edge :=
      match f with
      | .term ft =>
        if ft ≠ .u then some (if ft = .t then g else h)
        else if g.isAnyTerm && h.isAnyTerm then some (.term .u)
        else none
      | .inner _ => none
    match r1 with
    | some r => .done r
    | none =>
      -- `match (manager.get_node(&g), manager.get_node(&h)) { … }`
      match g, h with
      | .term gv, .inner _ =>
        match gv with
        | .t => .bin .or f h
        | .u => .recurse
        | .f => .bin .impStrict f h
      | .inner _, .term hv =>
        match hv with
        | .t => .bin .imp f g
        | .u => .recurse
        | .f => .bin .and f g
      | .term gv, .term hv =>
        match gv, hv with
        | .f, .t => .notOf f
        | .t, .f => .done f
        | _, _ => .recurse
      | .inner _, .inner _ => .recurse

/-- `apply_ite_rec` -/
def iteS (gt : Edge → Edge → Bool) (tg : BinOp → TDDOp) (p : APolicy) :
    Nat → St → Edge → Edge → Edge → St × Edge
  | 0, st, f, _, _ => (st, f)
  | fuel+1, st, f, g, h =>
    match iteShortcutS f g h with
    | .done r => (st, r)
    | .bin op x y => applyS gt tg p op fuel st x y
    | .notOf x => notS p fuel st x
    | .recurse =>
      -- query apply cache
      match p.get st.tick st.cache (.ite, [f, g, h]) with
      | some r => (st.tickd, r)
      | none =>
        match lmin (lmin (st.store.level? f) (st.store.level? g)) (st.store.level? h) with
        | none => (st.tickd, f) -- three terminals: excluded (`unwrap_inner` would panic)
        | some l =>
          let r1 := iteS gt tg p fuel st.tickd (st.store.childAt f l .t) (st.store.childAt g l .t)
            (st.store.childAt h l .t)
          let ru := iteS gt tg p fuel r1.1 (st.store.childAt f l .u) (st.store.childAt g l .u)
            (st.store.childAt h l .u)
          let r0 := iteS gt tg p fuel ru.1 (st.store.childAt f l .f) (st.store.childAt g l .f)
            (st.store.childAt h l .f)
          finishS p r0.1 (.ite, [f, g, h]) l r1.2 ru.2 r0.2

/-! ## tree level: unfolding equations -/

theorem applyIte_shortcut {gt : TD → TD → Bool} {a b c r : TD}
    (h : iteShortcut gt a b c = some r) : applyIte gt a b c = r := by
  rw [applyIte]; simp [h]

theorem applyIte_rec {gt : TD → TD → Bool} {a b c : TD} {l : Nat}
    (h : iteShortcut gt a b c = none) (hl : lmin (lmin a.level b.level) c.level = some l) :
    applyIte gt a b c =
      mk l (applyIte gt (childAt a l .t) (childAt b l .t) (childAt c l .t))
        (applyIte gt (childAt a l .u) (childAt b l .u) (childAt c l .u))
        (applyIte gt (childAt a l .f) (childAt b l .f) (childAt c l .f)) := by
  rw [applyIte]
  simp only [h]
  split
  · rename_i hn; rw [hl] at hn; cases hn
  · rename_i l' hl'
    rw [hl] at hl'; cases hl'; rfl

theorem ite_child_sizes {a b c : TD} {l : Nat}
    (hl : lmin (lmin a.level b.level) c.level = some l) (k : Tri) :
    (childAt a l k).size + (childAt b l k).size + (childAt c l k).size <
      a.size + b.size + c.size := by
  have ha := childAt_size_le a l k
  have hb := childAt_size_le b l k
  have hc := childAt_size_le c l k
  rcases lmin_eq_some hl with h12 | h3
  · rcases lmin_eq_some h12 with h1 | h2
    · have := childAt_size_lt a l k h1; omega
    · have := childAt_size_lt b l k h2; omega
  · have := childAt_size_lt c l k h3; omega

theorem size_pos (a : TD) : 0 < a.size := by cases a <;> simp [size] <;> omega

/-! ## the prologue on edges refines the prologue on trees -/

/-- relation between the decision on edges and the tree-level `iteShortcut` -/
def IteCorr (s : Store) (gtT : TD → TD → Bool) (f g h : Edge) (a b c : TD) :
    IteCase → Option TD → Prop
  | .done e, some t => Denotes s e t
  | .bin op x y, some t =>
    ∃ tx ty, Denotes s x tx ∧ Denotes s y ty ∧ t = applyBin gtT op tx ty ∧
      tx.size + ty.size < a.size + b.size + c.size
  | .notOf x, some t => x = f ∧ t = applyNot a
  | .recurse, none => True
  | _, _ => False

theorem isAnyTerm_denotes {s : Store} {f : Edge} {a : TD} (h : Denotes s f a) :
    f.isAnyTerm = a.isLeaf := by
  cases h <;> rfl

/-- **the early returns of `apply_ite_rec` on edges are those of the tree-level model** in every
store in which edge equality is tree equality -/
theorem iteShortcutS_corr (gtT : TD → TD → Bool) {s : Store} (inj : s.Inj) {f g h : Edge}
    {a b c : TD} (hf : Denotes s f a) (hg : Denotes s g b) (hh : Denotes s h c) :
    IteCorr s gtT f g h a b c (iteShortcutS f g h) (iteShortcut gtT a b c) := by
  have pa := size_pos a
  have pb := size_pos b
  have pc := size_pos c
  unfold iteShortcutS iteShortcut
  by_cases hgh : g = h
  · subst hgh
    have := Denotes.functional hg hh
    subst this
    simp only [if_true, IteCorr]
    exact hg
  · have hbc : ¬ b = c := fun e => hgh (inj _ _ _ hg (e ▸ hh))
    simp only [hgh, hbc, if_false]
    by_cases hfg : f = g
    · subst hfg
      have := Denotes.functional hf hg
      subst this
      simp only [if_true, IteCorr]
      exact ⟨_, _, hf, hh, rfl, by omega⟩
    · have hab : ¬ a = b := fun e => hfg (inj _ _ _ hf (e ▸ hg))
      simp only [hfg, hab, if_false]
      by_cases hfh : f = h
      · subst hfh
        have := Denotes.functional hf hh
        subst this
        simp only [if_true, IteCorr]
        exact ⟨_, _, hf, hg, rfl, by omega⟩
      · have hac : ¬ a = c := fun e => hfh (inj _ _ _ hf (e ▸ hh))
        simp only [hfh, hac, if_false]
        cases hf with
        | @term fv =>
          cases fv with
          | t => simp [IteCorr]; exact hg
          | f => simp [IteCorr]; exact hh
          | u =>
            cases hg with
            | @term gv =>
              cases hh with
              | @term hv =>
                simp [Edge.isAnyTerm, isLeaf, IteCorr]; exact .term
              | inner hi ht hu he =>
                simp only [Edge.isAnyTerm, isLeaf, ne_eq, not_true_eq_false, if_false,
                  Bool.and_false, Bool.false_eq_true]
                cases gv <;> simp only [IteCorr]
                · exact ⟨_, _, .term, .inner hi ht hu he, rfl, by simp only [size]; omega⟩
                · exact ⟨_, _, .term, .inner hi ht hu he, rfl, by simp only [size]; omega⟩
            | inner gi gt' gu ge =>
              cases hh with
              | @term hv =>
                simp only [Edge.isAnyTerm, isLeaf, ne_eq, not_true_eq_false, if_false,
                  Bool.false_and, Bool.false_eq_true]
                cases hv <;> simp only [IteCorr]
                · exact ⟨_, _, .term, .inner gi gt' gu ge, rfl, by simp only [size]; omega⟩
                · exact ⟨_, _, .term, .inner gi gt' gu ge, rfl, by simp only [size]; omega⟩
              | inner hi ht hu he =>
                simp [Edge.isAnyTerm, isLeaf, IteCorr]
        | inner fi ft fu fe =>
          have hdf := Denotes.inner fi ft fu fe
          cases hg with
          | @term gv =>
            cases hh with
            | @term hv =>
              cases gv <;> cases hv <;> simp only [IteCorr] <;>
                first
                  | exact hdf
                  | exact ⟨rfl, rfl⟩
                  | trivial
                  | (exact absurd rfl hgh)
            | inner hi ht hu he =>
              cases gv <;> simp only [IteCorr]
              · exact ⟨_, _, hdf, .inner hi ht hu he, rfl, by simp only [size]; omega⟩
              · exact ⟨_, _, hdf, .inner hi ht hu he, rfl, by simp only [size]; omega⟩
          | inner gi gt' gu ge =>
            cases hh with
            | @term hv =>
              cases hv <;> simp only [IteCorr]
              · exact ⟨_, _, hdf, .inner gi gt' gu ge, rfl, by simp only [size]; omega⟩
              · exact ⟨_, _, hdf, .inner gi gt' gu ge, rfl, by simp only [size]; omega⟩
            | inner hi ht hu he => simp only [IteCorr]

/-! ## `apply_ite_rec` refines `applyIte` -/

theorem iteS_spec (gt : Edge → Edge → Bool) (gtT : TD → TD → Bool) {p : APolicy} (pok : p.OK)
    (fuel : Nat) : ∀ (st : St) (f g h : Edge) (a b c : TD),
    Inv gtT st → Denotes st.store f a → Denotes st.store g b → Denotes st.store h c →
    a.size + b.size + c.size ≤ fuel →
    Post gtT st.store (applyIte gtT a b c) (iteS gt BinOp.tag p fuel st f g h) := by
  induction fuel with
  | zero =>
    intro st f g h a b c _ _ _ _ hsz
    have := size_pos a
    omega
  | succ fuel ih =>
    intro st f g h a b c hinv hf hg hh hsz
    have hinj := inj_of_unique hinv.1
    have hc := iteShortcutS_corr gtT hinj hf hg hh
    simp only [iteS]
    cases hS : iteShortcutS f g h with
    | done e =>
      cases hT : iteShortcut gtT a b c with
      | none => rw [hS, hT] at hc; exact hc.elim
      | some t =>
        rw [hS, hT] at hc
        rw [applyIte_shortcut hT]
        exact Post.done hinv hc
    | bin op x y =>
      cases hT : iteShortcut gtT a b c with
      | none => rw [hS, hT] at hc; exact hc.elim
      | some t =>
        rw [hS, hT] at hc
        obtain ⟨tx, ty, hx, hy, rfl, hlt⟩ := hc
        rw [applyIte_shortcut hT]
        exact applyS_spec gt gtT pok op fuel st x y tx ty hinv hx hy (by omega)
    | notOf x =>
      cases hT : iteShortcut gtT a b c with
      | none => rw [hS, hT] at hc; exact hc.elim
      | some t =>
        rw [hS, hT] at hc
        obtain ⟨rfl, rfl⟩ := hc
        rw [applyIte_shortcut hT]
        have := size_pos b
        exact notS_spec gtT pok fuel st x a hinv hf (by omega)
    | recurse =>
      cases hT : iteShortcut gtT a b c with
      | some t => rw [hS, hT] at hc; exact hc.elim
      | none =>
        simp only
        split
        · -- cache hit
          rename_i r hr
          have hent := hinv.2 _ _ (pok.get_mem _ _ _ _ hr)
          exact Post.done (st := st.tickd) hinv.tickd (hent.hit (DenotesL.three hf hg hh) rfl)
        · -- cache miss
          cases hl : lmin (lmin a.level b.level) c.level with
          | none => exact absurd hl (iteShortcut_none_not_leaves hT)
          | some l =>
            rw [level?_denotes hf, level?_denotes hg, level?_denotes hh, hl]
            simp only
            have sz := ite_child_sizes hl
            have p1 := ih st.tickd _ _ _ _ _ _ hinv.tickd (childAt_denotes l .t hf)
              (childAt_denotes l .t hg) (childAt_denotes l .t hh) (by have := sz .t; omega)
            have pu := ih _ _ _ _ _ _ _ p1.inv ((childAt_denotes l .u hf).mono p1.le)
              ((childAt_denotes l .u hg).mono p1.le) ((childAt_denotes l .u hh).mono p1.le)
              (by have := sz .u; omega)
            have p0 := ih _ _ _ _ _ _ _ pu.inv ((childAt_denotes l .f hf).mono (p1.le.trans pu.le))
              ((childAt_denotes l .f hg).mono (p1.le.trans pu.le))
              ((childAt_denotes l .f hh).mono (p1.le.trans pu.le)) (by have := sz .f; omega)
            rw [applyIte_rec hT hl]
            refine finishS_post pok p1 pu p0 (.ite, [f, g, h]) l
              ⟨_, DenotesL.three hf hg hh, ?_⟩
            show some (applyIte gtT a b c) = _
            rw [applyIte_rec hT hl]

end OxiddModel.Tdd.Refine

namespace OxiddModel.Tdd.StoreLevel
open OxiddModel.Tdd OxiddModel.Tdd.TD OxiddModel.Tdd.Refine OxiddModel.CachePolicy

/-- **`apply_ite_rec` with cache refines `applyIte`** (C11/C06 on the store level): from any state
whose store is hash consed and whose cache is sound, for every admissible cache behaviour and every
edge order, the returned edge denotes `applyIte gtT a b c` — including every delegation of the
prologue to `or`/`and`/`imp`/`imp_strict`/`not` and the shortcuts on unknown conditions —, the
store is only extended, `Unique ∧ CacheOK` hold afterwards. -/
theorem iteS_spec (gt : Edge → Edge → Bool) (gtT : TD → TD → Bool) {p : APolicy} (pok : p.OK)
    (fuel : Nat) (st : St) (f g h : Edge) (a b c : TD)
    (hu : st.store.Unique) (hc : CacheOK gtT st.store st.cache)
    (hf : Denotes st.store f a) (hg : Denotes st.store g b) (hh : Denotes st.store h c)
    (hfuel : a.size + b.size + c.size ≤ fuel) :
    let R := iteS gt BinOp.tag p fuel st f g h
    Denotes R.1.store R.2 (applyIte gtT a b c) ∧ st.store.Le R.1.store ∧ R.1.store.Unique ∧
      CacheOK gtT R.1.store R.1.cache :=
  have P := Refine.iteS_spec gt gtT pok fuel st f g h a b c ⟨hu, hc⟩ hf hg hh hfuel
  ⟨P.den, P.le, P.inv.1, P.inv.2⟩

/-- … hence the result edge evaluates, under every three-valued assignment, to the stated `ite`
table (`tdd_ite_sem`) -/
theorem iteS_sem (gt : Edge → Edge → Bool) (gtT : TD → TD → Bool) {p : APolicy} (pok : p.OK)
    (fuel : Nat) (st : St) (f g h : Edge) (a b c : TD)
    (hu : st.store.Unique) (hc : CacheOK gtT st.store st.cache)
    (hf : Denotes st.store f a) (hg : Denotes st.store g b) (hh : Denotes st.store h c)
    (hfuel : a.size + b.size + c.size ≤ fuel) :
    ∃ r, Denotes (iteS gt BinOp.tag p fuel st f g h).1.store (iteS gt BinOp.tag p fuel st f g h).2 r
      ∧ ∀ σ, eval σ r = Tri.ite (eval σ a) (eval σ b) (eval σ c) :=
  ⟨_, (iteS_spec gt gtT pok fuel st f g h a b c hu hc hf hg hh hfuel).1,
    fun σ => applyIte_sem gtT a b c σ⟩

/-- **The cache is transparent for `ite`.** Two runs from the same (hash-consed, reduced) store
with different sound caches, cache behaviours, edge orders, time stamps and fuels return equal
edges and leave equal stores. -/
theorem cache_transparent_ite (gt1 gt2 : Edge → Edge → Bool) (gtT : TD → TD → Bool)
    {p1 p2 : APolicy} (ok1 : p1.OK) (ok2 : p2.OK) (s : Store) (c1 c2 : ACache)
    (t1 t2 fuel1 fuel2 : Nat) (f g h : Edge) (a b c : TD) (hu : s.Unique) (hr : s.NoRed)
    (h1 : CacheOK gtT s c1) (h2 : CacheOK gtT s c2) (hf : Denotes s f a) (hg : Denotes s g b)
    (hh : Denotes s h c) (hfuel1 : a.size + b.size + c.size ≤ fuel1)
    (hfuel2 : a.size + b.size + c.size ≤ fuel2) :
    (iteS gt1 BinOp.tag p1 fuel1 ⟨s, c1, t1⟩ f g h).2 = (iteS gt2 BinOp.tag p2 fuel2 ⟨s, c2, t2⟩ f g h).2 ∧
    (iteS gt1 BinOp.tag p1 fuel1 ⟨s, c1, t1⟩ f g h).1.store
      = (iteS gt2 BinOp.tag p2 fuel2 ⟨s, c2, t2⟩ f g h).1.store := by
  have P1 := (Refine.iteS_spec gt1 gtT ok1 fuel1 ⟨s, c1, t1⟩ f g h a b c ⟨hu, h1⟩ hf hg hh hfuel1).canon hr
  have P2 := (Refine.iteS_spec gt2 gtT ok2 fuel2 ⟨s, c2, t2⟩ f g h a b c ⟨hu, h2⟩ hf hg hh hfuel2).canon hr
  have e := P1.trans P2.symm
  exact ⟨(Prod.mk.inj e).2, (Prod.mk.inj e).1⟩

/-- non-vacuity: `ite(x0, x1, U)` on a manager holding `x0`, `x1`, ideal cache — the recursive
case (three calls) with an unknown terminal branch, an unknown condition below it and the
delegation `f == h ⇒ and`; the result is `(v0 x1 (v1 U U F) U)` -/
example :
    let v0 := Store.empty.mkNode 0 (.term .t) (.term .u) (.term .f)
    let v1 := v0.1.mkNode 1 (.term .t) (.term .u) (.term .f)
    let R := iteS Edge.gtIdx BinOp.tag Policy.exact 20 ⟨v1.1, [], 0⟩ v0.2 v1.2 (.term .u)
    R.1.store.unfold 5 R.2 = some (.node 0 (TD.var 1)
      (.node 1 (.leaf .u) (.leaf .u) (.leaf .f)) (.leaf .u)) := by
  decide +kernel

end OxiddModel.Tdd.StoreLevel
